(* CC: front half of the compiler theorem on the fragment F4 (Frag4Sem: F3 without the taint
   restriction, arithmetic and unary minus with the coercion of numeric strings), against the
   bytecode semantics isem4. A port of Frag3Facts.v: the invariant is "every register holds nil, a
   boolean, a number or a string inside the exact fragment of the coercion" (the typing of locals
   is vacuous: tainted4 = true), the arithmetic instructions are re-proved against parith4/pneg4. *)
From Coq Require Import Floats Lia ZifyBool SpecFloat.
From GL Require Import Common.Bytes Lua.Syntax Lua.Num Lua.Values Lua.Names Lua.Eval.
From GL Require Import VMX.Machine CC.CompModel CC.FragSem CC.CompFactsVM CC.CompFacts CC.Frag1Sem CC.Frag1Facts CC.Frag2Sem CC.Frag3Sem CC.Frag4Sem.
From GL Require Import CC.CompFactsVM4.
From GL Require CC.Frag3Facts.
From GL Require VM.OpcodeFacts.

Definition tainted4 (T : list name) (x : name) : bool := true.

(* ---------- the instruction lemmas, for isem4 ---------- *)
Definition plain_op (o : opcode) : bool :=
  match o with OP_ADD | OP_SUB | OP_MUL | OP_DIV | OP_MOD | OP_POW | OP_UNM => false | _ => true end.

Lemma isem4_other : forall K w rf o, op_of_code (opGetOpCode w) = Some o -> plain_op o = true ->
  isem4_inst K w rf = isem3_inst K w rf.
Proof. intros K w rf o E Hne. unfold isem4_inst. rewrite E. destruct o; try reflexivity; discriminate. Qed.

Lemma isem4_ABC : forall K o a b c rf, 0 <= a < 256 -> 0 <= b < 512 -> 0 <= c < 512 -> plain_op o = true ->
  isem4_inst K (opCreateABC (op_code o) a b c) rf = isem3_inst K (opCreateABC (op_code o) a b c) rf.
Proof.
  intros K o a b c rf Ha Hb Hc Hne. destruct (decodeABC o a b c Ha Hb Hc) as [E0 _].
  exact (isem4_other K _ rf o E0 Hne).
Qed.

Lemma isem4_ABx : forall K o a bx rf, 0 <= a < 256 -> 0 <= bx < 262144 -> plain_op o = true ->
  isem4_inst K (opCreateABx (op_code o) a bx) rf = isem3_inst K (opCreateABx (op_code o) a bx) rf.
Proof.
  intros K o a bx rf Ha Hb Hne. destruct (decodeABx o a bx Ha Hb) as [E0 _].
  exact (isem4_other K _ rf o E0 Hne).
Qed.

Lemma isem_loadk : forall K a bx rf v, 0 <= a < 256 -> 0 <= bx < 262144 -> zth K bx = Some v ->
  isem4_inst K (opCreateABx (op_code OP_LOADK) a bx) rf = okres (setr rf a v).
Proof. intros. rewrite isem4_ABx by (assumption || reflexivity). apply Frag3Facts.isem_loadk; assumption. Qed.

Lemma isem_move : forall K a b rf v, 0 <= a < 256 -> 0 <= b < 512 -> zth rf b = Some v ->
  isem4_inst K (opCreateABC (op_code OP_MOVE) a b 0) rf = okres (setr rf a v).
Proof. intros. rewrite isem4_ABC by (assumption || lia || reflexivity). apply Frag3Facts.isem_move; assumption. Qed.

Lemma isem_loadbool : forall K a b rf, 0 <= a < 256 -> 0 <= b < 512 ->
  isem4_inst K (opCreateABC (op_code OP_LOADBOOL) a b 0) rf = okres (setr rf a (VBool (negb (b =? 0)))).
Proof. intros. rewrite isem4_ABC by (assumption || lia || reflexivity). apply Frag3Facts.isem_loadbool; assumption. Qed.

Lemma isem_loadnil1 : forall K a rf, 0 <= a < 256 ->
  isem4_inst K (opCreateABC (op_code OP_LOADNIL) a a 0) rf = okres (setr rf a VNil).
Proof. intros. rewrite isem4_ABC by (assumption || lia || reflexivity). apply Frag3Facts.isem_loadnil1; assumption. Qed.

Lemma isem_loadnil_range : forall K a b rf, 0 <= a < 256 -> 0 <= b < 512 ->
  isem4_inst K (opCreateABC (op_code OP_LOADNIL) a b 0) rf = okres (setr_range rf a (Z.to_nat (b - a + 1))).
Proof. intros. rewrite isem4_ABC by (assumption || lia || reflexivity). apply Frag3Facts.isem_loadnil_range; assumption. Qed.

Lemma isem_not : forall K a b rf v, 0 <= a < 256 -> 0 <= b < 512 -> zth rf b = Some v ->
  isem4_inst K (opCreateABC (op_code OP_NOT) a b 0) rf = okres (setr rf a (VBool (negb (truthy v)))).
Proof. intros. rewrite isem4_ABC by (assumption || lia || reflexivity). apply Frag3Facts.isem_not; assumption. Qed.

Lemma isem_return : forall K a b rf, 0 <= a < 256 -> 1 <= b < 512 -> a + (b - 1) <= len rf ->
  isem4_inst K (opCreateABC (op_code OP_RETURN) a b 0) rf = IRet (firstn (Z.to_nat (b - 1)) (skipn (Z.to_nat a) rf)).
Proof. intros. rewrite isem4_ABC by (assumption || lia || reflexivity). apply Frag3Facts.isem_return; assumption. Qed.

Lemma isem_getglobal : forall K a bx rf x, 0 <= a < 256 -> 0 <= bx < 262144 -> zth K bx = Some (VStr x) ->
  undefined_global x = true ->
  isem4_inst K (opCreateABx (op_code OP_GETGLOBAL) a bx) rf = okres (setr rf a VNil).
Proof. intros. rewrite isem4_ABx by (assumption || reflexivity). eapply Frag3Facts.isem_getglobal; eassumption. Qed.

Lemma isem_arith4 : forall K o a b c rf, is_arith_op o = true -> 0 <= a < 256 -> 0 <= b < 512 -> 0 <= c < 512 ->
  isem4_inst K (opCreateABC (op_code (arith_opcode o)) a b c) rf = arith4 K rf o a b c.
Proof.
  intros K o a b c rf Ho Ha Hb Hc. destruct (decodeABC (arith_opcode o) a b c Ha Hb Hc) as [E0 [E1 [E2 E3]]].
  unfold isem4_inst. rewrite E0, E1, E2, E3. destruct o; try discriminate; reflexivity.
Qed.

Lemma isem_unm4 : forall K a b rf, 0 <= a < 256 -> 0 <= b < 512 ->
  isem4_inst K (opCreateABC (op_code OP_UNM) a b 0) rf = unm4 K rf a b.
Proof.
  intros K a b rf Ha Hb. destruct (decodeABC OP_UNM a b 0 Ha Hb ltac:(lia)) as [E0 [E1 [E2 E3]]].
  unfold isem4_inst. rewrite E0, E1, E2. reflexivity.
Qed.

Lemma parith4_num : forall o x y v, parith4 o x y = PV v -> exists r, v = VNum r.
Proof.
  intros o x y v H. unfold parith4 in H. destruct (tonum x); destruct (tonum y); try discriminate.
  destruct (arith_op o f f0); [|discriminate]. inversion H. eauto.
Qed.

Lemma pneg4_num : forall x v, pneg4 x = PV v -> exists r, v = VNum r.
Proof. intros x v H. unfold pneg4 in H. destruct (tonum x); try discriminate. inversion H. eauto. Qed.

Lemma find_last_none : forall l x i acc, existsb (beqb x) l = false -> find_last l x i acc = acc.
Proof. exact Frag3Facts.find_last_none. Qed.

Section F4.
Variable T : list name.



(* pev4 with the variable lookup abstracted *)
Fixpoint pevr4 (look : name -> option value) (e : expr) : pres :=
  match e with
  | ENil => PV VNil | ETrue => PV (VBool true) | EFalse => PV (VBool false)
  | ENum f => PV (VNum f)
  | EStr s => if lit_ok s then PV (VStr s) else PUnsup
  | EVar x => match look x with Some v => PV v | None => if undefined_global x then PV VNil else PUnsup end
  | EParen a => pevr4 look a
  | EBin o a b =>
      match pevr4 look a with
      | PV x => match pevr4 look b with PV y => parith4 o x y | r => r end
      | r => r
      end
  | EUn ONeg a => match pevr4 look a with PV x => pneg4 x | r => r end
  | EUn ONot a => match pevr4 look a with PV v => PV (VBool (negb (truthy v))) | r => r end
  | _ => PUnsup
  end.

Lemma pev_pevr : forall rho e, pev4 rho e = pevr4 (plookup rho) e.
Proof.
  intros rho e. induction e; cbn [pev4 pevr4]; try reflexivity.
  - rewrite IHe1, IHe2. reflexivity.
  - destruct o; try reflexivity; rewrite IHe; reflexivity.
  - assumption.
Qed.

(* constants fold to the value pev4 computes, whatever the variables hold *)
Lemma cfold_pevr : forall e g look, cfold e = Some (Some g) -> pevr4 look e = PV (VNum g).
Proof.
  induction e; intros g look H; cbn [cfold] in H; try discriminate.
  - inversion H. reflexivity.
  - destruct (is_arith_op o) eqn:Eo; [|discriminate].
    destruct (cfold e1) as [[x|]|] eqn:E1; destruct (cfold e2) as [[y|]|] eqn:E2; try discriminate.
    destruct (arith_op o x y) as [r|] eqn:Er; [|discriminate]. inversion H; subst.
    cbn [pevr4]. rewrite (IHe1 _ look eq_refl), (IHe2 _ look eq_refl). unfold parith4. cbn [tonum]. rewrite Er. reflexivity.
  - destruct o; try discriminate.
    destruct (cfold e) as [[x|]|] eqn:E1; try discriminate. inversion H; subst.
    cbn [pevr4]. rewrite (IHe _ look eq_refl). reflexivity.
  - cbn [pevr4]. apply IHe. assumption.
Qed.

Lemma pevr_ext : forall l1 l2 e, (forall x, l1 x = l2 x) -> pevr4 l1 e = pevr4 l2 e.
Proof.
  intros l1 l2 e H. induction e; cbn [pevr4]; try reflexivity.
  - rewrite H. reflexivity.
  - rewrite IHe1, IHe2. reflexivity.
  - destruct o; try reflexivity; rewrite IHe; reflexivity.
  - assumption.
Qed.

Lemma pevr_strip : forall look e, pevr4 look e = pevr4 look (strip_paren e).
Proof. intros look e. induction e; cbn [pevr4 strip_paren]; try reflexivity. assumption. Qed.

Inductive shape (s' : cstate) (locals : list name) (reg ln : Z) (e : expr) (seg : list (Z * Z)) : Prop :=
| ShConst ci (f : value) :
    seg = [(opCreateABx (op_code OP_LOADK) reg ci, ln)] -> 0 <= ci < 262144 ->
    zth (cs_consts s') ci = Some f -> (forall look, pevr4 look e = PV f) -> shape s' locals reg ln e seg
| ShVar b :
    seg = [(opCreateABC (op_code OP_MOVE) reg b 0, ln)] -> 0 <= b < len locals ->
    (forall rf v, zth rf b = Some v -> pevr4 (vlook locals rf) e = PV v) ->
    shape s' locals reg ln e seg
| ShOther w seg0 :
    seg = (w, ln) :: seg0 -> is_opc w OP_LOADK = false -> is_opc w OP_MOVE = false -> shape s' locals reg ln e seg.


(* ---------- the invariant on register files ---------- *)
Definition look_ok (look : name -> option value) : Prop :=
  forall x v, look x = Some v -> is_sval4 v = true /\ (tainted4 T x = false -> is_simple v = true).
Definition rf_ok (locals : list name) (rf : rfile) : Prop :=
  Forall (fun v => is_sval4 v = true) rf /\ look_ok (vlook locals rf).

Lemma simple_sval : forall v, is_simple v = true -> is_sval4 v = true.
Proof. intros v H. destruct v; try discriminate; reflexivity. Qed.

Lemma pevr_sval : forall look e v, look_ok look -> pevr4 look e = PV v -> is_sval4 v = true.
Proof.
  intros look e. induction e; intros v Hl H; cbn [pevr4] in H; try discriminate; try (inversion H; reflexivity).
  - destruct (lit_ok s) eqn:El; [|discriminate]. inversion H; subst. exact El.
  - destruct (look x) eqn:E; [|destruct (undefined_global x); [inversion H; reflexivity|discriminate]]. inversion H; subst. apply (Hl _ _ E).
  - destruct (pevr4 look e1) as [x| |]; try discriminate. destruct (pevr4 look e2) as [y| |]; try discriminate.
    destruct (parith4_num _ _ _ _ H) as [r ->]. reflexivity.
  - destruct o; try discriminate.
    + destruct (pevr4 look e) as [x| |]; try discriminate. destruct (pneg4_num _ _ H) as [r ->]. reflexivity.
    + destruct (pevr4 look e) as [x| |]; try discriminate. inversion H. reflexivity.
  - apply IHe; assumption.
Qed.

Lemma vlook_ok : forall locals rf, rf_ok locals rf -> look_ok (vlook locals rf).
Proof. intros locals rf H. exact (proj2 H). Qed.

Lemma rf_ok_zth : forall locals rf i v, rf_ok locals rf -> zth rf i = Some v -> is_sval4 v = true.
Proof. intros locals rf i v [H _] Hz. rewrite Forall_forall in H. apply H. eapply zth_In; eassumption. Qed.

Lemma setr_sval : forall rf i v rf', Forall (fun v => is_sval4 v = true) rf -> is_sval4 v = true ->
  setr rf i v = Some rf' -> Forall (fun v => is_sval4 v = true) rf'.
Proof.
  intros rf i v rf' H Hv Hs. unfold setr in Hs. destruct ((0 <=? i) && (i <=? len rf)); [|discriminate].
  inversion Hs; subst. apply Forall_app. split.
  - apply Forall_forall. intros x Hx. rewrite Forall_forall in H. apply H. eapply firstn_In_l; eassumption.
  - constructor; [assumption|]. apply Forall_forall. intros x Hx. rewrite Forall_forall in H. apply H. eapply skipn_In_l; eassumption.
Qed.

(* writing a temporary *)
Lemma setr_ok : forall locals rf i v rf', rf_ok locals rf -> is_sval4 v = true -> len locals <= i ->
  setr rf i v = Some rf' -> rf_ok locals rf'.
Proof.
  intros locals rf i v rf' [Hf Hl] Hv Hi Hs. split; [eapply setr_sval; eassumption|].
  intros x w Hw.
  assert (E : vlook locals rf' x = vlook locals rf x).
  { apply (vlook_ext locals rf rf' (len locals)); [lia|].
    intros j Hj. rewrite (setr_zth _ _ _ _ j Hs). replace (j =? i) with false by lia. reflexivity. }
  rewrite E in Hw. exact (Hl x w Hw).
Qed.

(* storing into the register of a local *)
Lemma setr_local_ok : forall locals rf x v rf', rf_ok locals rf -> is_sval4 v = true ->
  (tainted4 T x = false -> is_simple v = true) -> find_last locals x 0 (-1) > -1 ->
  setr rf (find_last locals x 0 (-1)) v = Some rf' -> rf_ok locals rf'.
Proof.
  intros locals rf x v rf' [Hf Hl] Hv Ht Hi Hs. split; [eapply setr_sval; eassumption|].
  intros y w Hw. unfold vlook in Hw. destruct (find_last locals y 0 (-1) >? -1) eqn:Ey; [|discriminate].
  rewrite (setr_zth _ _ _ _ _ Hs) in Hw.
  destruct (find_last locals y 0 (-1) =? find_last locals x 0 (-1)) eqn:E.
  - inversion Hw; subst w.
    assert (B : beqb y x = true) by (apply (find_last_same_index locals x y); [lia|assumption]).
    apply beqb_eq in B. subst y. split; assumption.
  - apply (Hl y w). unfold vlook. rewrite Ey. exact Hw.
Qed.

(* a new local in the next register *)
Lemma rf_ok_cons : forall locals rf x w, rf_ok locals rf -> zth rf (len locals) = Some w ->
  (tainted4 T x = false -> is_simple w = true) -> rf_ok (locals ++ [x]) rf.
Proof.
  intros locals rf x w [Hf Hl] Hw Ht. split; [assumption|].
  intros y v Hv. unfold vlook in Hv. rewrite find_last_app, Z.add_0_l in Hv.
  destruct (beqb x y) eqn:E.
  - apply beqb_eq in E. subst y. pose proof (len_nonneg _ locals). replace (len locals >? -1) with true in Hv by lia.
    rewrite Hw in Hv. inversion Hv; subst v. split; [|assumption].
    rewrite Forall_forall in Hf. apply Hf. eapply zth_In; eassumption.
  - apply (Hl y v). unfold vlook. exact Hv.
Qed.

Definition typed_pairs (l : list (name * value)) : Prop :=
  Forall (fun p => tainted4 T (fst p) = false -> is_simple (snd p) = true) l.

Lemma rf_ok_push : forall xs ws locals rf, length xs = length ws -> rf_ok locals rf ->
  (forall i, 0 <= i < len ws -> zth rf (len locals + i) = zth ws i) -> typed_pairs (combine xs ws) ->
  rf_ok (locals ++ xs) rf.
Proof.
  induction xs as [|x xs IH]; intros ws locals rf Hlen Hok Hv Hty; destruct ws as [|w ws]; cbn [length] in Hlen; try discriminate.
  - rewrite app_nil_r. assumption.
  - assert (Hlw : len (w :: ws) = 1 + len ws) by (unfold len; cbn [length]; lia).
    pose proof (len_nonneg _ ws) as Hnw.
    cbn [combine] in Hty. inversion Hty as [|p l Hp Hl]; subst. cbn [fst snd] in Hp.
    replace (locals ++ x :: xs) with ((locals ++ [x]) ++ xs) by (rewrite <- app_assoc; reflexivity).
    assert (Hla : len (locals ++ [x]) = len locals + 1) by (rewrite len_app; unfold len; cbn [length]; lia).
    assert (Hw : zth rf (len locals) = Some w).
    { specialize (Hv 0 ltac:(lia)). rewrite Z.add_0_r in Hv. rewrite Hv. reflexivity. }
    apply (IH ws); [lia|eapply rf_ok_cons; eassumption| |assumption].
    intros i Hi. rewrite Hla. replace (len locals + 1 + i) with (len locals + (1 + i)) by lia.
    rewrite Hv by lia. apply zth_cons_succ. lia.
Qed.


Definition val_post (K : list value) (locals : list name) (code : list (Z * Z)) (rf : rfile) (reg : Z) (v : value) : Prop :=
  exists rf', isem4_okseq K code rf = Some rf' /\ zth rf' reg = Some v /\ len rf <= len rf' /\
              (forall i, 0 <= i < reg -> zth rf' i = zth rf i) /\ rf_ok locals rf'.

Definition sem_val (K : list value) (locals : list name) (ln reg : Z) (e : expr) (seg : list (Z * Z)) : Prop :=
  forall rf, reg <= len rf -> rf_ok locals rf ->
  match pevr4 (vlook locals rf) e with
  | PV v => val_post K locals (rev seg) rf reg v
  | PFault => forall rest, isem4_code K (rev seg ++ rest) rf = CFault ln
  | PUnsup => forall rest, isem4_code K (rev seg ++ rest) rf = CUnsup
  end.

(* the conclusion about one compiled expression *)
Definition expr_ok (s s' : cstate) (locals : list name) (ln reg : Z) (e : expr) : Prop :=
  cs_locals s' = locals /\ cs_regtop s' = len locals /\ len (cs_consts s') <= 262144 /\
  prefix_of (cs_consts s) (cs_consts s') /\
  exists seg, cs_code s' = seg ++ cs_code s /\ Forall (wl_ok ln) seg /\ shape s' locals reg ln e seg /\
              forall K, prefix_of (cs_consts s') K -> sem_val K locals ln reg e seg.

(* what an operand (compileExpr followed by a propagation) leaves *)
Definition operand_ok (s s2 : cstate) (locals : list name) (ln reg : Z) (e : expr) (save reg' : Z) : Prop :=
  cs_locals s2 = locals /\ cs_regtop s2 = len locals /\ len (cs_consts s2) <= 262144 /\
  prefix_of (cs_consts s) (cs_consts s2) /\ 0 <= save < 512 /\ reg <= reg' <= reg + 1 /\
  exists seg', cs_code s2 = seg' ++ cs_code s /\ Forall (wl_ok ln) seg' /\
    forall K, prefix_of (cs_consts s2) K -> forall rf, reg <= len rf -> rf_ok locals rf ->
      match pevr4 (vlook locals rf) e with
      | PV v =>
          exists rf', isem4_okseq K (rev seg') rf = Some rf' /\ rkval K rf' save = Some v /\ len rf <= len rf' /\
                      reg' <= len rf' /\ (forall i, 0 <= i < reg -> zth rf' i = zth rf i) /\ rf_ok locals rf' /\
                      (opIsK save = true \/ save < reg')
      | PFault => forall rest, isem4_code K (rev seg' ++ rest) rf = CFault ln
      | PUnsup => forall rest, isem4_code K (rev seg' ++ rest) rf = CUnsup
      end.

Lemma default_operand : forall s s1 locals ln reg e,
  expr_ok s s1 locals ln reg e -> 0 <= reg < 256 ->
  operand_ok s s1 locals ln reg e reg (reg + 1).
Proof.
  intros s s1 locals ln reg e [H1 [H2 [H3 [H4 [seg [Hc [Hw [Hsh Hsem]]]]]]]] Hr.
  unfold operand_ok. repeat (split; [reflexivity || assumption || lia|]).
  exists seg. split; [assumption|]. split; [assumption|].
  intros K HK rf Hlen Hs. specialize (Hsem K HK rf Hlen Hs).
  destruct (pevr4 (vlook locals rf) e) as [v| |]; [|exact Hsem|exact Hsem].
  destruct Hsem as [rf' [E1 [E2 [E3 [E4 E5]]]]].
  exists rf'. split; [assumption|]. pose proof (zth_range _ _ _ _ E2).
  split; [unfold rkval; rewrite small_not_K by lia; assumption|].
  split; [assumption|]. split; [lia|]. split; [assumption|]. split; [assumption|]. right. lia.
Qed.

Lemma popped_const : forall s s1 locals ln reg e ci f,
  cs_locals s1 = locals -> cs_regtop s1 = len locals -> len (cs_consts s1) <= 262144 ->
  prefix_of (cs_consts s) (cs_consts s1) -> cs_code s1 = [(opCreateABx (op_code OP_LOADK) reg ci, ln)] ++ cs_code s ->
  0 <= ci <= 255 -> zth (cs_consts s1) ci = Some f -> (forall look, pevr4 look e = PV f) ->
  operand_ok s (pop_code s1) locals ln reg e (opRkAsk ci) reg.
Proof.
  intros s s1 locals ln reg e ci f H1 H2 H3 H4 Hc Hci Hz Hpv.
  destruct (rk_bits ci Hci) as [B1 [B2 B3]].
  unfold operand_ok. cbn [pop_code cs_locals cs_regtop cs_consts cs_code].
  repeat (split; [reflexivity || assumption || lia|]).
  exists []. split; [rewrite Hc; reflexivity|]. split; [constructor|].
  intros K HK rf Hlen Hs. rewrite Hpv. exists rf.
  split; [reflexivity|]. split; [unfold rkval; rewrite B1, B2; eapply prefix_zth; eassumption|].
  split; [lia|]. split; [lia|]. split; [auto|]. split; [assumption|]. left. assumption.
Qed.

Lemma popped_var : forall s s1 locals ln reg e b,
  cs_locals s1 = locals -> cs_regtop s1 = len locals -> len (cs_consts s1) <= 262144 ->
  prefix_of (cs_consts s) (cs_consts s1) -> cs_code s1 = [(opCreateABC (op_code OP_MOVE) reg b 0, ln)] ++ cs_code s ->
  0 <= b < len locals -> len locals <= reg -> len locals <= 256 ->
  (forall rf v, zth rf b = Some v -> pevr4 (vlook locals rf) e = PV v) ->
  operand_ok s (pop_code s1) locals ln reg e b reg.
Proof.
  intros s s1 locals ln reg e b H1 H2 H3 H4 Hc Hb Hl Hloc Hpv.
  unfold operand_ok. cbn [pop_code cs_locals cs_regtop cs_consts cs_code].
  repeat (split; [reflexivity || assumption || lia|]).
  exists []. split; [rewrite Hc; reflexivity|]. split; [constructor|].
  intros K HK rf Hlen Hs.
  destruct (zth rf b) as [v|] eqn:Ez.
  2:{ exfalso. unfold zth in Ez. destruct (b <? 0) eqn:E0; [lia|]. apply nth_error_None in Ez. unfold len in *. lia. }
  rewrite (Hpv rf v Ez). exists rf.
  split; [reflexivity|]. split; [unfold rkval; rewrite small_not_K by lia; assumption|].
  split; [lia|]. split; [lia|]. split; [auto|]. split; [assumption|]. right. lia.
Qed.

Lemma kmv_ok : forall s s1 locals ln reg e save reg' s2,
  expr_ok s s1 locals ln reg e -> len locals <= reg -> 0 <= reg < 256 -> len locals <= 256 ->
  propagateKMV reg 1 s1 = Some ((save, reg'), s2) ->
  operand_ok s s2 locals ln reg e save reg'.
Proof.
  intros s s1 locals ln reg e save reg' s2 Hok Hl Hr Hloc Hp.
  pose proof (default_operand _ _ _ _ _ _ Hok Hr) as Hdef.
  destruct Hok as [H1 [H2 [H3 [H4 [seg [Hc [Hw [Hsh Hsem]]]]]]]].
  unfold propagateKMV in Hp. rewrite Hc in Hp.
  destruct Hsh as [ci f Hseg Hci Hz Hpv | b Hseg Hb Hpv | w seg0 Hseg Hn1 Hn2]; subst seg; cbn [app] in Hp.
  - destruct (decodeABx OP_LOADK reg ci Hr Hci) as [_ [EA EB]].
    rewrite EA, EB in Hp. rewrite H2 in Hp. replace (reg >=? len locals) with true in Hp by lia.
    rewrite (is_opc_createABx OP_LOADK OP_LOADK reg ci Hr Hci) in Hp. rewrite Z.eqb_refl in Hp.
    destruct (ci <=? opMaxIndexRk) eqn:Eci.
    + inversion Hp; subst save reg' s2. unfold opMaxIndexRk in Eci.
      eapply popped_const; try eassumption. lia.
    + inversion Hp; subst. exact Hdef.
  - assert (Hb' : 0 <= b < 512) by lia.
    destruct (decodeABC OP_MOVE reg b 0 Hr Hb' ltac:(lia)) as [_ [EA [EB _]]].
    rewrite EA, EB in Hp. rewrite H2 in Hp. replace (reg >=? len locals) with true in Hp by lia.
    rewrite (is_opc_createABC OP_MOVE OP_LOADK reg b 0 Hr Hb' ltac:(lia)) in Hp.
    rewrite (is_opc_createABC OP_MOVE OP_MOVE reg b 0 Hr Hb' ltac:(lia)) in Hp.
    cbn [op_code Z.eqb] in Hp. inversion Hp; subst save reg' s2.
    eapply popped_var; eassumption.
  - rewrite Hn1, Hn2 in Hp.
    destruct (opGetArgA w >=? cs_regtop s1); inversion Hp; subst; exact Hdef.
Qed.

Lemma mv_ok : forall s s1 locals ln reg e save reg' s2,
  expr_ok s s1 locals ln reg e -> len locals <= reg -> 0 <= reg < 256 -> len locals <= 256 ->
  propagateMV reg 1 s1 = Some ((save, reg'), s2) ->
  operand_ok s s2 locals ln reg e save reg' /\ 0 <= save < 256.
Proof.
  intros s s1 locals ln reg e save reg' s2 Hok Hl Hr Hloc Hp.
  pose proof (default_operand _ _ _ _ _ _ Hok Hr) as Hdef.
  destruct Hok as [H1 [H2 [H3 [H4 [seg [Hc [Hw [Hsh Hsem]]]]]]]].
  unfold propagateMV in Hp. rewrite Hc in Hp.
  destruct Hsh as [ci f Hseg Hci Hz Hpv | b Hseg Hb Hpv | w seg0 Hseg Hn1 Hn2]; subst seg; cbn [app] in Hp.
  - rewrite (is_opc_createABx OP_LOADK OP_MOVE reg ci Hr Hci) in Hp. cbn [op_code Z.eqb] in Hp.
    rewrite andb_false_r in Hp. inversion Hp; subst. split; [exact Hdef|lia].
  - assert (Hb' : 0 <= b < 512) by lia.
    destruct (decodeABC OP_MOVE reg b 0 Hr Hb' ltac:(lia)) as [_ [EA [EB _]]].
    rewrite EA, EB in Hp. rewrite H2 in Hp. replace (reg >=? len locals) with true in Hp by lia.
    rewrite (is_opc_createABC OP_MOVE OP_MOVE reg b 0 Hr Hb' ltac:(lia)) in Hp.
    cbn [op_code Z.eqb andb] in Hp. inversion Hp; subst save reg' s2.
    split; [eapply popped_var; eassumption|lia].
  - rewrite Hn2 in Hp. rewrite andb_false_r in Hp. inversion Hp; subst. split; [exact Hdef|lia].
Qed.

(* one instruction that writes the value of e into reg (e never faults) *)
Lemma leaf_ok : forall s locals ln reg e w,
  cs_locals s = locals -> cs_regtop s = len locals -> len (cs_consts s) <= 262144 ->
  0 <= w < 2 ^ 32 -> 0 <= reg -> len locals <= reg ->
  shape (mkCS ((w, ln) :: cs_code s) (cs_consts s) (cs_locals s) (cs_regtop s)) locals reg ln e [(w, ln)] ->
  (forall rf, pevr4 (vlook locals rf) e <> PFault) ->
  (forall rf, reg <= len rf -> pevr4 (vlook locals rf) e <> PUnsup) ->
  (forall K, prefix_of (cs_consts s) K -> forall rf v, reg <= len rf -> pevr4 (vlook locals rf) e = PV v ->
     isem4_inst K w rf = okres (setr rf reg v)) ->
  expr_ok s (mkCS ((w, ln) :: cs_code s) (cs_consts s) (cs_locals s) (cs_regtop s)) locals ln reg e.
Proof.
  intros s locals ln reg e w H1 H2 H3 Hw Hr Hll Hsh Hnf Hnu Hsem.
  unfold expr_ok. cbn [cs_locals cs_regtop cs_consts cs_code].
  split; [assumption|]. split; [assumption|]. split; [assumption|]. split; [apply prefix_refl|].
  exists [(w, ln)]. split; [reflexivity|]. split; [constructor; [split; [assumption|reflexivity]|constructor]|].
  split; [assumption|].
  intros K HK rf Hlen Hs. destruct (pevr4 (vlook locals rf) e) as [v| |] eqn:Hp; [|exfalso; eapply Hnf; eassumption|exfalso; eapply Hnu; eassumption].
  unfold val_post. cbn [rev app isem4_okseq]. rewrite (Hsem K HK rf v Hlen Hp).
  destruct (setr_post rf reg v ltac:(lia)) as [rf' [E1 [E2 [E3 E4]]]]. rewrite E1. cbn [okres].
  exists rf'. split; [reflexivity|]. split; [assumption|]. split; [assumption|].
  split; [intros i Hi; apply E4; lia|].
  eapply setr_ok; [eassumption| |eassumption|eassumption]. eapply pevr_sval; [apply vlook_ok; eassumption|eassumption].
Qed.

Lemma loadk_ok : forall s locals ln reg e (f : value) ci s1,
  cs_locals s = locals -> cs_regtop s = len locals -> len (cs_consts s) <= 262144 -> 0 <= reg < 256 ->
  len locals <= reg ->
  constIndex f s = Some (ci, s1) -> (forall look, pevr4 look e = PV f) ->
  expr_ok s (mkCS ((opCreateABx (op_code OP_LOADK) reg ci, ln) :: cs_code s1) (cs_consts s1) (cs_locals s1) (cs_regtop s1))
          locals ln reg e.
Proof.
  intros s locals ln reg e f ci s1 H1 H2 H3 Hr Hll Hc Hp.
  destruct (constIndex_spec _ _ _ _ H3 Hc) as [K1 [K2 [K3 [K4 [K5 [K6 K7]]]]]].
  assert (Hok : expr_ok s1 (mkCS ((opCreateABx (op_code OP_LOADK) reg ci, ln) :: cs_code s1) (cs_consts s1) (cs_locals s1) (cs_regtop s1)) locals ln reg e).
  { apply leaf_ok; try congruence; try lia.
    - apply VM.OpcodeFacts.createABx_range.
    - eapply ShConst; try reflexivity; eassumption.
    - intros K HK rf v Hlen Hv. rewrite Hp in Hv. inversion Hv; subst v.
      apply isem_loadk; try lia. eapply prefix_zth; eassumption. }
  destruct Hok as [A1 [A2 [A3 [A4 [seg [A5 [A6 [A7 A8]]]]]]]].
  unfold expr_ok. split; [assumption|]. split; [assumption|]. split; [assumption|]. split; [exact K4|].
  exists seg. rewrite <- K5. auto.
Qed.

Lemma arith_compose : forall s sA sB locals ln reg o a b save1 reg1 save2 reg2,
  operand_ok s sA locals ln reg a save1 reg1 ->
  operand_ok sA sB locals ln reg1 b save2 reg2 ->
  is_arith_op o = true -> len locals <= reg -> 0 <= reg < 256 ->
  expr_ok s (mkCS ((opCreateABC (op_code (arith_opcode o)) reg save1 save2, ln) :: cs_code sB)
                  (cs_consts sB) (cs_locals sB) (cs_regtop sB)) locals ln reg (EBin o a b).
Proof.
  intros s sA sB locals ln reg o a b save1 reg1 save2 reg2 HA HB Ho Hl Hr.
  destruct HA as [A1 [A2 [A3 [A4 [A5 [A6 [segA [A7 [A8 A9]]]]]]]]].
  destruct HB as [B1 [B2 [B3 [B4 [B5 [B6 [segB [B7 [B8 B9]]]]]]]]].
  set (w := opCreateABC (op_code (arith_opcode o)) reg save1 save2).
  unfold expr_ok. cbn [cs_locals cs_regtop cs_consts cs_code].
  split; [assumption|]. split; [assumption|]. split; [assumption|]. split; [eapply prefix_trans; eassumption|].
  exists ((w, ln) :: segB ++ segA).
  split; [rewrite B7, A7; cbn [app]; rewrite <- app_assoc; reflexivity|].
  split; [constructor; [split; [apply VM.OpcodeFacts.createABC_range|reflexivity]|apply Forall_app; split; assumption]|].
  split.
  { eapply ShOther; [reflexivity| |]; unfold w; rewrite is_opc_createABC by lia; destruct o; try discriminate; reflexivity. }
  intros K HK rf Hlen Hs.
  assert (HKA : prefix_of (cs_consts sA) K) by (eapply prefix_trans; eassumption).
  specialize (A9 K HKA rf Hlen Hs). cbn [pevr4].
  cbn [rev]. rewrite rev_app_distr.
  destruct (pevr4 (vlook locals rf) a) as [x| |] eqn:Ea.
  2:{ intro rest. rewrite <- !app_assoc. apply A9. }
  2:{ intro rest. rewrite <- !app_assoc. apply A9. }
  destruct A9 as [rfA [E1 [E2 [E3 [E4 [E5 [E6 E7]]]]]]].
  assert (Hext : forall y, vlook locals rfA y = vlook locals rf y) by (apply vlook_ext with (reg := reg); assumption).
  specialize (B9 K HK rfA E4 E6). rewrite (pevr_ext _ _ b Hext) in B9.
  destruct (pevr4 (vlook locals rf) b) as [y| |] eqn:Eb.
  2:{ intro rest. rewrite <- !app_assoc. rewrite (isem_code_app _ _ _ _ _ E1). apply B9. }
  2:{ intro rest. rewrite <- !app_assoc. rewrite (isem_code_app _ _ _ _ _ E1). apply B9. }
  destruct B9 as [rfB [F1 [F2 [F3 [F4 [F5 [F6 F7]]]]]]].
  assert (Hx : rkval K rfB save1 = Some x).
  { rewrite (rkval_stable K rfA rfB save1 reg1 E7 ltac:(lia) F5). assumption. }
  assert (Hw : isem4_inst K w rfB = arith4 K rfB o reg save1 save2) by (apply isem_arith4; try assumption; lia).
  assert (Hpre : isem4_okseq K (rev segA ++ rev segB) rf = Some rfB).
  { rewrite isem_okseq_app, E1. assumption. }
  assert (Sx : is_sval4 x = true) by (eapply pevr_sval; [apply vlook_ok; exact Hs|exact Ea]).
  assert (Sy : is_sval4 y = true) by (eapply pevr_sval; [apply vlook_ok; exact Hs|exact Eb]).
  assert (Hw' : isem4_inst K w rfB = ires_of rfB reg (parith4 o x y)).
  { rewrite Hw. unfold arith4. rewrite Hx, F2, Sx, Sy. reflexivity. }
  destruct (parith4 o x y) as [v| |] eqn:Ep.
  - destruct (parith4_num _ _ _ _ Ep) as [r ->].
    destruct (setr_post rfB reg (VNum r) ltac:(lia)) as [rf' [S1 [S2 [S3 S4]]]].
    exists rf'. split.
    { rewrite isem_okseq_app, Hpre. cbn [isem4_okseq]. rewrite Hw'. cbn [ires_of]. rewrite S1. reflexivity. }
    split; [assumption|]. split; [lia|]. split.
    { intros i Hi. rewrite S4 by lia. rewrite F5 by lia. apply E5. assumption. }
    exact (setr_ok locals rfB reg (VNum r) rf' F6 eq_refl Hl S1).
  - intro rest. rewrite <- !app_assoc. rewrite (isem_code_app _ _ _ _ _ E1), (isem_code_app _ _ _ _ _ F1).
    cbn [app isem4_code]. rewrite Hw'. reflexivity.
  - intro rest. rewrite <- !app_assoc. rewrite (isem_code_app _ _ _ _ _ E1), (isem_code_app _ _ _ _ _ F1).
    cbn [app isem4_code]. rewrite Hw'. reflexivity.
Qed.

Lemma unm_compose : forall s sA locals ln reg a save reg1,
  operand_ok s sA locals ln reg a save reg1 -> len locals <= reg -> 0 <= reg < 256 ->
  expr_ok s (mkCS ((opCreateABC (op_code OP_UNM) reg save 0, ln) :: cs_code sA)
                  (cs_consts sA) (cs_locals sA) (cs_regtop sA)) locals ln reg (EUn ONeg a).
Proof.
  intros s sA locals ln reg a save reg1 HA Hl Hr.
  destruct HA as [A1 [A2 [A3 [A4 [A5 [A6 [segA [A7 [A8 A9]]]]]]]]].
  set (w := opCreateABC (op_code OP_UNM) reg save 0).
  unfold expr_ok. cbn [cs_locals cs_regtop cs_consts cs_code].
  split; [assumption|]. split; [assumption|]. split; [assumption|]. split; [assumption|].
  exists ((w, ln) :: segA).
  split; [rewrite A7; reflexivity|].
  split; [constructor; [split; [apply VM.OpcodeFacts.createABC_range|reflexivity]|assumption]|].
  split.
  { eapply ShOther; [reflexivity| |]; unfold w; rewrite is_opc_createABC by lia; reflexivity. }
  intros K HK rf Hlen Hs. specialize (A9 K HK rf Hlen Hs). cbn [pevr4 rev].
  destruct (pevr4 (vlook locals rf) a) as [x| |] eqn:Ea.
  2:{ intro rest. rewrite <- app_assoc. apply A9. }
  2:{ intro rest. rewrite <- app_assoc. apply A9. }
  destruct A9 as [rfA [E1 [E2 [E3 [E4 [E5 [E6 E7]]]]]]].
  assert (Sx : is_sval4 x = true) by (eapply pevr_sval; [apply vlook_ok; exact Hs|exact Ea]).
  assert (Hw : isem4_inst K w rfA = ires_of rfA reg (pneg4 x)).
  { unfold w. rewrite isem_unm4 by lia. unfold unm4. rewrite E2, Sx. reflexivity. }
  destruct (pneg4 x) as [v| |] eqn:Ep.
  - destruct (pneg4_num _ _ Ep) as [r ->].
    destruct (setr_post rfA reg (VNum r) ltac:(lia)) as [rf' [S1 [S2 [S3 S4]]]].
    exists rf'. split.
    { rewrite isem_okseq_app, E1. cbn [isem4_okseq]. rewrite Hw. cbn [ires_of]. rewrite S1. reflexivity. }
    split; [assumption|]. split; [lia|]. split.
    { intros i Hi. rewrite S4 by lia. apply E5. assumption. }
    exact (setr_ok locals rfA reg (VNum r) rf' E6 eq_refl Hl S1).
  - intro rest. rewrite <- app_assoc. rewrite (isem_code_app _ _ _ _ _ E1). cbn [app isem4_code]. rewrite Hw. reflexivity.
  - intro rest. rewrite <- app_assoc. rewrite (isem_code_app _ _ _ _ _ E1). cbn [app isem4_code]. rewrite Hw. reflexivity.
Qed.

Lemma not_compose : forall s sA locals ln reg a save reg1,
  operand_ok s sA locals ln reg a save reg1 -> 0 <= save < 256 -> len locals <= reg -> 0 <= reg < 256 ->
  expr_ok s (mkCS ((opCreateABC (op_code OP_NOT) reg save 0, ln) :: cs_code sA)
                  (cs_consts sA) (cs_locals sA) (cs_regtop sA)) locals ln reg (EUn ONot a).
Proof.
  intros s sA locals ln reg a save reg1 HA Hsv Hl Hr.
  destruct HA as [A1 [A2 [A3 [A4 [A5 [A6 [segA [A7 [A8 A9]]]]]]]]].
  set (w := opCreateABC (op_code OP_NOT) reg save 0).
  unfold expr_ok. cbn [cs_locals cs_regtop cs_consts cs_code].
  split; [assumption|]. split; [assumption|]. split; [assumption|]. split; [assumption|].
  exists ((w, ln) :: segA).
  split; [rewrite A7; reflexivity|].
  split; [constructor; [split; [apply VM.OpcodeFacts.createABC_range|reflexivity]|assumption]|].
  split.
  { eapply ShOther; [reflexivity| |]; unfold w; rewrite is_opc_createABC by lia; reflexivity. }
  intros K HK rf Hlen Hs. specialize (A9 K HK rf Hlen Hs). cbn [pevr4 rev].
  destruct (pevr4 (vlook locals rf) a) as [x| |] eqn:Ea.
  2:{ intro rest. rewrite <- app_assoc. apply A9. }
  2:{ intro rest. rewrite <- app_assoc. apply A9. }
  destruct A9 as [rfA [E1 [E2 [E3 [E4 [E5 [E6 E7]]]]]]].
  unfold rkval in E2. rewrite small_not_K in E2 by lia.
  assert (Hw : isem4_inst K w rfA = okres (setr rfA reg (VBool (negb (truthy x))))) by (apply isem_not; try lia; assumption).
  destruct (setr_post rfA reg (VBool (negb (truthy x))) ltac:(lia)) as [rf' [S1 [S2 [S3 S4]]]].
  exists rf'. split.
  { rewrite isem_okseq_app, E1. cbn [isem4_okseq]. rewrite Hw, S1. reflexivity. }
  split; [assumption|]. split; [lia|]. split.
  { intros i Hi. rewrite S4 by lia. apply E5. assumption. }
  exact (setr_ok locals rfA reg (VBool (negb (truthy x))) rf' E6 eq_refl Hl S1).
Qed.

Lemma loadbool_ok : forall s locals ln reg e bv,
  cs_locals s = locals -> cs_regtop s = len locals -> len (cs_consts s) <= 262144 -> 0 <= reg < 256 ->
  len locals <= reg ->
  (forall look, pevr4 look e = PV (VBool bv)) ->
  expr_ok s (mkCS ((opCreateABC (op_code OP_LOADBOOL) reg (if bv then 1 else 0) 0, ln) :: cs_code s)
                  (cs_consts s) (cs_locals s) (cs_regtop s)) locals ln reg e.
Proof.
  intros s locals ln reg e bv H1 H2 H3 Hr Hll Hp.
  apply leaf_ok; try assumption; try lia.
  - apply VM.OpcodeFacts.createABC_range.
  - eapply ShOther; [reflexivity| |]; rewrite is_opc_createABC by (destruct bv; lia); reflexivity.
  - intros rf Hx. rewrite Hp in Hx. discriminate.
  - intros rf _ Hx. rewrite Hp in Hx. discriminate.
  - intros K HK rf v Hlen Hv. rewrite Hp in Hv. inversion Hv; subst v.
    rewrite isem_loadbool by (destruct bv; lia). destruct bv; reflexivity.
Qed.

Lemma getglobal_ok : forall s locals ln reg x ci s1,
  cs_locals s = locals -> cs_regtop s = len locals -> len (cs_consts s) <= 262144 -> 0 <= reg < 256 ->
  len locals <= reg -> existsb (beqb x) locals = false -> undefined_global x = true ->
  constIndex (VStr x) s = Some (ci, s1) ->
  expr_ok s (mkCS ((opCreateABx (op_code OP_GETGLOBAL) reg ci, ln) :: cs_code s1) (cs_consts s1) (cs_locals s1) (cs_regtop s1))
          locals ln reg (EVar x).
Proof.
  intros s locals ln reg x ci s1 H1 H2 H3 Hr Hll Hx Hu Hc.
  destruct (constIndex_spec _ _ _ _ H3 Hc) as [K1 [K2 [K3 [K4 [K5 [K6 K7]]]]]].
  assert (Hpv : forall rf, pevr4 (vlook locals rf) (EVar x) = PV VNil).
  { intro rf. cbn [pevr4]. unfold vlook. rewrite (find_last_none locals x 0 (-1) Hx).
    change (-1 >? -1) with false. cbv iota. rewrite Hu. reflexivity. }
  assert (Hok : expr_ok s1 (mkCS ((opCreateABx (op_code OP_GETGLOBAL) reg ci, ln) :: cs_code s1) (cs_consts s1) (cs_locals s1) (cs_regtop s1)) locals ln reg (EVar x)).
  { apply leaf_ok; try congruence; try lia.
    - apply VM.OpcodeFacts.createABx_range.
    - eapply ShOther; [reflexivity| |]; rewrite is_opc_createABx by lia; reflexivity.
    - intros K HK rf v Hlen Hv. rewrite Hpv in Hv. inversion Hv; subst v.
      apply (isem_getglobal K reg ci rf x ltac:(lia) ltac:(lia) (prefix_zth _ _ _ _ HK K3) Hu). }
  destruct Hok as [A1 [A2 [A3 [A4 [seg [A5 [A6 [A7 A8]]]]]]]].
  unfold expr_ok. split; [assumption|]. split; [assumption|]. split; [assumption|]. split; [exact K4|].
  exists seg. rewrite <- K5. auto.
Qed.

Lemma compileExpr_ok : forall e locals ln reg ec s inc s',
  expr_frag4 locals e = true -> cs_locals s = locals -> cs_regtop s = len locals ->
  len locals <= reg -> 0 <= reg -> reg + edepth e < 256 -> len locals <= 256 ->
  savereg ec reg = reg -> len (cs_consts s) <= 262144 ->
  compileExpr ln reg e ec s = Some (inc, s') ->
  inc = 1 /\ expr_ok s s' locals ln reg e.
Proof.
  induction e as [| | |f|sb| |x|ea IHa ek IHk|fe args|ob m args|ps va body l1 l2|o e1 IH1 e2 IH2|o e1 IH1|e1 IH1 e2 IH2|e1 IH1 e2 IH2|e1 IH1|items];
    intros locals ln reg ec s inc s' Hf H1 H2 Hl Hr0 Hd Hloc Hsv Hk Hc;
    cbn [expr_frag4] in Hf; try discriminate; cbn [compileExpr] in Hc; rewrite ?Hsv in Hc;
    replace (reg <? reg) with false in Hc by lia; cbn [edepth] in Hd.
  - (* ENil *)
    unfold cbind, addABC, add, cret in Hc. inversion Hc; subst inc s'. split; [reflexivity|].
    apply leaf_ok; try assumption; try lia.
    + apply VM.OpcodeFacts.createABC_range.
    + eapply ShOther; [reflexivity| |]; rewrite is_opc_rawABC by lia; reflexivity.
    + intros rf Hx. discriminate.
    + intros rf _ Hx. discriminate.
    + intros K HK rf v Hlen Hv. cbn [pevr4] in Hv. inversion Hv; subst v. apply isem_loadnil1. lia.
  - (* ETrue *)
    unfold cbind, addABC, add, cret in Hc. inversion Hc; subst inc s'. split; [reflexivity|].
    apply (loadbool_ok s locals ln reg ETrue true); try assumption; try lia. intro look. reflexivity.
  - (* EFalse *)
    unfold cbind, addABC, add, cret in Hc. inversion Hc; subst inc s'. split; [reflexivity|].
    apply (loadbool_ok s locals ln reg EFalse false); try assumption; try lia. intro look. reflexivity.
  - (* ENum *)
    unfold cbind at 1 in Hc. destruct (constIndex (VNum f) s) as [[ci s1]|] eqn:Eci; [|discriminate].
    unfold cbind, addABx, add, cret in Hc. inversion Hc; subst inc s'. split; [reflexivity|].
    eapply loadk_ok; try eassumption; try lia. intro look. reflexivity.
  - (* EStr *)
    unfold cbind at 1 in Hc. destruct (constIndex (VStr sb) s) as [[ci s1]|] eqn:Eci; [|discriminate].
    unfold cbind, addABx, add, cret in Hc. inversion Hc; subst inc s'. split; [reflexivity|].
    eapply loadk_ok; try eassumption; try lia. intro look. cbn [pevr4]. rewrite Hf. reflexivity.
  - (* EVar *)
    unfold FindLocalVar in Hc. rewrite H1 in Hc.
    destruct (existsb (beqb x) locals) eqn:Ex.
    + (* a local *)
      pose proof (existsb_find_last _ _ Ex) as Hb.
      pose proof (find_last_range locals x 0 (-1) ltac:(lia)) as Hbr.
      replace (find_last locals x 0 (-1) >? -1) with true in Hc by lia.
      unfold cbind, addABC, add, cret in Hc. inversion Hc; subst inc s'. split; [reflexivity|].
      set (idx := find_last locals x 0 (-1)) in *.
      assert (Hpv : forall rf v, zth rf idx = Some v -> pevr4 (vlook locals rf) (EVar x) = PV v).
      { intros rf v Hz. cbn [pevr4]. unfold vlook. fold idx. replace (idx >? -1) with true by lia. rewrite Hz. reflexivity. }
      apply leaf_ok; try assumption; try lia.
      * apply VM.OpcodeFacts.createABC_range.
      * eapply ShVar with (b := idx); [reflexivity|lia|exact Hpv].
      * intros rf Hx. cbn [pevr4] in Hx.
        destruct (vlook locals rf x); [discriminate|destruct (undefined_global x); discriminate].
      * intros rf Hlen Hx. destruct (zth_some_lt rf idx ltac:(lia)) as [v Hv]. rewrite (Hpv rf v Hv) in Hx. discriminate.
      * intros K HK rf v Hlen Hv. destruct (zth_some_lt rf idx ltac:(lia)) as [v0 Hv0].
        rewrite (Hpv rf v0 Hv0) in Hv. inversion Hv; subst v0. apply isem_move; try lia. assumption.
    + (* an undefined global *)
      cbn [orb] in Hf.
      rewrite (find_last_none locals x 0 (-1) Ex) in Hc. change (-1 >? -1) with false in Hc. cbv iota in Hc.
      unfold cbind at 1 in Hc. destruct (constIndex (VStr x) s) as [[ci s1]|] eqn:Eci; [|discriminate].
      unfold cbind, addABx, add, cret in Hc. inversion Hc; subst inc s'. split; [reflexivity|].
      eapply getglobal_ok; try eassumption; lia.
  - (* EBin *)
    pose proof (edepth_nonneg e1) as Hd1. pose proof (edepth_nonneg e2) as Hd2.
    apply andb_true_iff in Hf. destruct Hf as [Hf Hf2]. apply andb_true_iff in Hf. destruct Hf as [Ho Hf1].
    rewrite Ho in Hc. cbn [negb] in Hc.
    destruct (cfold (EBin o e1 e2)) as [[g|]|] eqn:Ecf; [| |discriminate].
    + unfold cbind at 1 in Hc. destruct (constIndex (VNum g) s) as [[ci s1]|] eqn:Eci; [|discriminate].
      unfold cbind, addABx, add, cret in Hc. inversion Hc; subst inc s'. split; [reflexivity|].
      eapply loadk_ok; try eassumption; try lia. intro look. apply cfold_pevr. assumption.
    + unfold cbind at 1 in Hc.
      destruct (compileExpr ln reg e1 (ecnone 0) s) as [[inc1 sA1]|] eqn:Ca; [|discriminate].
      destruct (IH1 locals ln reg (ecnone 0) s inc1 sA1 Hf1 H1 H2 Hl Hr0 ltac:(lia) Hloc eq_refl Hk Ca) as [Hi1 HokA1]. subst inc1.
      unfold cbind at 1 in Hc.
      destruct (propagateKMV reg 1 sA1) as [[[save1 reg1] sA]|] eqn:Pa; [|discriminate].
      pose proof (kmv_ok _ _ _ _ _ _ _ _ _ HokA1 Hl ltac:(lia) Hloc Pa) as HA.
      destruct HA as [A1 [A2 [A3 [A4 [A5 [A6 A7]]]]]].
      unfold cbind at 1 in Hc.
      destruct (compileExpr ln reg1 e2 (ecnone 0) sA) as [[inc2 sB1]|] eqn:Cb; [|discriminate].
      destruct (IH2 locals ln reg1 (ecnone 0) sA inc2 sB1 Hf2 A1 A2 ltac:(lia) ltac:(lia) ltac:(lia) Hloc eq_refl A3 Cb) as [Hi2 HokB1]. subst inc2.
      unfold cbind at 1 in Hc.
      destruct (propagateKMV reg1 1 sB1) as [[[save2 reg2] sB]|] eqn:Pb; [|discriminate].
      pose proof (kmv_ok _ _ _ _ _ _ _ _ _ HokB1 ltac:(lia) ltac:(lia) Hloc Pb) as HB.
      unfold cbind, addABC, add, cret in Hc. inversion Hc; subst inc s'. split; [reflexivity|].
      eapply arith_compose; try eassumption; try lia.
      unfold operand_ok. repeat (split; [assumption|]). exact A7.
  - (* EUn *)
    pose proof (edepth_nonneg e1) as Hd1.
    destruct o; try discriminate.
    + (* ONeg *)
      destruct (cfold (EUn ONeg e1)) as [[g|]|] eqn:Ecf; [| |discriminate].
      * unfold cbind at 1 in Hc. destruct (constIndex (VNum g) s) as [[ci s1]|] eqn:Eci; [|discriminate].
        unfold cbind, addABx, add, cret in Hc. inversion Hc; subst inc s'. split; [reflexivity|].
        eapply loadk_ok; try eassumption; try lia. intro look. apply cfold_pevr. assumption.
      * unfold cbind at 1 in Hc.
        destruct (compileExpr ln reg e1 (ecnone 0) s) as [[inc1 sA1]|] eqn:Ca; [|discriminate].
        destruct (IH1 locals ln reg (ecnone 0) s inc1 sA1 Hf H1 H2 Hl Hr0 ltac:(lia) Hloc eq_refl Hk Ca) as [Hi1 HokA1]. subst inc1.
        unfold cbind at 1 in Hc.
        destruct (propagateMV reg 1 sA1) as [[[save1 reg1] sA]|] eqn:Pa; [|discriminate].
        destruct (mv_ok _ _ _ _ _ _ _ _ _ HokA1 Hl ltac:(lia) Hloc Pa) as [HA Hsv1].
        unfold cbind, addABC, add, cret in Hc. cbn [fst] in Hc. inversion Hc; subst inc s'. split; [reflexivity|].
        eapply unm_compose; try eassumption; lia.
    + (* ONot *)
      assert (General :
        (cdo inc1 <- compileExpr ln reg e1 (ecnone 0);
         cdo p1 <- propagateMV reg inc1;
         cdo _ <- addABC OP_NOT reg (fst p1) 0 ln; cret 1) s = Some (inc, s') ->
        inc = 1 /\ expr_ok s s' locals ln reg (EUn ONot e1)).
      { intro Hg. unfold cbind at 1 in Hg.
        destruct (compileExpr ln reg e1 (ecnone 0) s) as [[inc1 sA1]|] eqn:Ca; [|discriminate].
        destruct (IH1 locals ln reg (ecnone 0) s inc1 sA1 Hf H1 H2 Hl Hr0 ltac:(lia) Hloc eq_refl Hk Ca) as [Hi1 HokA1]. subst inc1.
        unfold cbind at 1 in Hg.
        destruct (propagateMV reg 1 sA1) as [[[save1 reg1] sA]|] eqn:Pa; [|discriminate].
        destruct (mv_ok _ _ _ _ _ _ _ _ _ HokA1 Hl ltac:(lia) Hloc Pa) as [HA Hsv1].
        unfold cbind, addABC, add, cret in Hg. cbn [fst] in Hg. inversion Hg; subst inc s'. split; [reflexivity|].
        eapply not_compose; try eassumption; lia. }
      destruct (strip_paren e1) eqn:Es; try (apply General; exact Hc).
      * (* not nil *)
        unfold cbind, addABC, add, cret in Hc. inversion Hc; subst inc s'. split; [reflexivity|].
        apply (loadbool_ok s locals ln reg (EUn ONot e1) true); try assumption; try lia.
        intro look. cbn [pevr4]. rewrite (pevr_strip look e1), Es. reflexivity.
      * (* not true *)
        unfold cbind, addABC, add, cret in Hc. inversion Hc; subst inc s'. split; [reflexivity|].
        apply (loadbool_ok s locals ln reg (EUn ONot e1) false); try assumption; try lia.
        intro look. cbn [pevr4]. rewrite (pevr_strip look e1), Es. reflexivity.
      * (* not false *)
        unfold cbind, addABC, add, cret in Hc. inversion Hc; subst inc s'. split; [reflexivity|].
        apply (loadbool_ok s locals ln reg (EUn ONot e1) true); try assumption; try lia.
        intro look. cbn [pevr4]. rewrite (pevr_strip look e1), Es. reflexivity.
  - (* EParen *)
    destruct (IH1 locals ln reg ec s inc s' Hf H1 H2 Hl Hr0 Hd Hloc Hsv Hk Hc) as [Hi Hok].
    split; [assumption|].
    destruct Hok as [A1 [A2 [A3 [A4 [seg [A5 [A6 [A7 A8]]]]]]]].
    unfold expr_ok. repeat (split; [assumption|]). exists seg. split; [assumption|]. split; [assumption|]. split.
    + destruct A7 as [ci g B1 B2 B3 B4|b B1 B2 B3|w seg0 B1 B2 B3].
      * eapply ShConst; try eassumption.
      * eapply ShVar; try eassumption.
      * eapply ShOther; eassumption.
    + intros K HK. exact (A8 K HK).
Qed.

Lemma env_pev : forall rho locals rf e, env_rel rho locals rf -> pev4 rho e = pevr4 (vlook locals rf) e.
Proof. intros rho locals rf e [H _]. rewrite pev_pevr. apply pevr_ext. assumption. Qed.

Fixpoint pevr4_list (look : name -> option value) (es : list expr) : pres + list value :=
  match es with
  | [] => inr []
  | e :: r => match pevr4 look e with
              | PV v => match pevr4_list look r with inr vs => inr (v :: vs) | inl x => inl x end
              | x => inl x
              end
  end.

Lemma pev_list_pevr : forall rho es, pev4_list rho es = pevr4_list (plookup rho) es.
Proof. intros rho es. induction es; cbn [pev4_list pevr4_list]; [reflexivity|]. rewrite pev_pevr, IHes. reflexivity. Qed.

Lemma pevr_list_ext : forall l1 l2 es, (forall x, l1 x = l2 x) -> pevr4_list l1 es = pevr4_list l2 es.
Proof. intros l1 l2 es H. induction es; cbn [pevr4_list]; [reflexivity|]. rewrite (pevr_ext l1 l2 a H), IHes. reflexivity. Qed.

Lemma crs_ok : forall es locals ln reg s reg' s',
  forallb (expr_frag4 locals) es = true ->
  (forall e, In e es -> reg + len es + edepth e < 256) ->
  cs_locals s = locals -> cs_regtop s = len locals -> len locals <= reg -> 0 <= reg -> len locals <= 256 ->
  len (cs_consts s) <= 262144 ->
  crs_exprs ln reg es s = Some (reg', s') ->
  reg' = reg + len es /\ cs_locals s' = locals /\ cs_regtop s' = len locals /\ len (cs_consts s') <= 262144 /\
  prefix_of (cs_consts s) (cs_consts s') /\
  exists seg, cs_code s' = seg ++ cs_code s /\ Forall (wl_ok ln) seg /\
    forall K, prefix_of (cs_consts s') K -> forall rf, reg <= len rf -> rf_ok locals rf ->
      match pevr4_list (vlook locals rf) es with
      | inr vs => exists rf', isem4_okseq K (rev seg) rf = Some rf' /\
                    (forall i, 0 <= i < len vs -> zth rf' (reg + i) = zth vs i) /\ len vs = len es /\
                    reg + len es <= len rf' /\ (forall i, 0 <= i < reg -> zth rf' i = zth rf i) /\ rf_ok locals rf'
      | inl r => forall rest, isem4_code K (rev seg ++ rest) rf = stop_cres ln r
      end.
Proof.
  induction es as [|e es IH]; intros locals ln reg s reg' s' Hf Hd H1 H2 Hl Hr Hloc Hk Hc.
  - cbn [crs_exprs] in Hc. unfold cret in Hc. inversion Hc; subst. unfold len at 1. cbn [length].
    split; [lia|]. repeat (split; [reflexivity || assumption || apply prefix_refl|]).
    exists []. split; [reflexivity|]. split; [constructor|].
    intros K HK rf Hlen Hs. cbn [pevr4_list]. exists rf. cbn [rev isem4_okseq].
    split; [reflexivity|]. split; [intros i Hi; unfold len in Hi; cbn [length] in Hi; exfalso; lia|].
    split; [reflexivity|]. split; [unfold len in *; cbn [length]; lia|]. split; [auto|assumption].
  - cbn [forallb] in Hf. apply andb_true_iff in Hf. destruct Hf as [Hfe Hfs].
    assert (Hlen_es : len (e :: es) = 1 + len es) by (unfold len; cbn [length]; lia).
    pose proof (len_nonneg _ es) as Hnn.
    cbn [crs_exprs] in Hc. unfold cbind at 1 in Hc.
    destruct (compileExpr ln reg e (ecnone 0) s) as [[inc sA]|] eqn:Ce; [|discriminate].
    assert (Hde : reg + edepth e < 256) by (specialize (Hd e (or_introl eq_refl)); lia).
    destruct (compileExpr_ok e locals ln reg (ecnone 0) s inc sA Hfe H1 H2 Hl Hr Hde Hloc eq_refl Hk Ce) as [Hi Hok]. subst inc.
    destruct Hok as [A1 [A2 [A3 [A4 [segA [A5 [A6 [A7 A8]]]]]]]].
    assert (Hd' : forall e0, In e0 es -> reg + 1 + len es + edepth e0 < 256).
    { intros e0 Hin. specialize (Hd e0 (or_intror Hin)). lia. }
    destruct (IH locals ln (reg + 1) sA reg' s' Hfs Hd' A1 A2 ltac:(lia) ltac:(lia) Hloc A3 Hc)
      as [B0 [B1 [B2 [B3 [B4 [segB [B5 [B6 B7]]]]]]]].
    split; [lia|]. split; [assumption|]. split; [assumption|]. split; [assumption|].
    split; [eapply prefix_trans; eassumption|].
    exists (segB ++ segA). split; [rewrite B5, A5, app_assoc; reflexivity|].
    split; [apply Forall_app; split; assumption|].
    intros K HK rf Hlen Hs. rewrite rev_app_distr.
    assert (HKA : prefix_of (cs_consts sA) K) by (eapply prefix_trans; eassumption).
    specialize (A8 K HKA rf Hlen Hs). cbn [pevr4_list].
    destruct (pevr4 (vlook locals rf) e) as [v| |] eqn:Ee.
    2:{ intro rest. rewrite <- app_assoc. apply A8. }
    2:{ intro rest. rewrite <- app_assoc. apply A8. }
    destruct A8 as [rfA [E1 [E2 [E3 [E4 E5]]]]].
    assert (Hext : forall y, vlook locals rfA y = vlook locals rf y) by (apply vlook_ext with (reg := reg); assumption).
    pose proof (zth_range _ _ _ _ E2) as HrA.
    specialize (B7 K HK rfA ltac:(lia) E5). rewrite (pevr_list_ext _ _ es Hext) in B7.
    destruct (pevr4_list (vlook locals rf) es) as [r|vs] eqn:Es.
    { intro rest. rewrite <- app_assoc. rewrite (isem_code_app _ _ _ _ _ E1). apply B7. }
    destruct B7 as [rfB [F1 [F2 [F3 [F4 [F5 F6]]]]]].
    exists rfB. split; [rewrite isem_okseq_app, E1; assumption|].
    split.
    { intros i Hi. assert (Hlv : len (v :: vs) = 1 + len vs) by (unfold len; cbn [length]; lia).
      destruct (Z.eq_dec i 0) as [->|Hne].
      - rewrite Z.add_0_r. rewrite F5 by lia. rewrite E2. reflexivity.
      - replace (reg + i) with (reg + 1 + (i - 1)) by lia. rewrite F2 by lia.
        replace i with (1 + (i - 1)) at 2 by lia. rewrite zth_cons_succ by lia. reflexivity. }
    split; [unfold len in *; cbn [length]; lia|]. split; [lia|].
    split; [intros i Hi; rewrite F5 by lia; apply E4; assumption|assumption].
Qed.

Definition ret_concl (ln : Z) (es : list expr) (locals : list name) (s s' : cstate) : Prop :=
  len (cs_consts s') <= 262144 /\ prefix_of (cs_consts s) (cs_consts s') /\
  exists seg, cs_code s' = seg ++ cs_code s /\ Forall u32 seg /\
    forall K, prefix_of (cs_consts s') K -> forall rho rf, env_rel rho locals rf -> rf_ok locals rf ->
      forall rest, isem4_code K (rev seg ++ rest) rf = ret_cres ln (pev4_list rho es).

Lemma ret_general_ok : forall ln es s s' locals u,
  forallb (expr_frag4 locals) es = true ->
  forallb (fun e => len locals + len es + 1 + edepth e <=? 250) es = true -> cinv s locals ->
  ret_general ln es s = Some (u, s') -> ret_concl ln es locals s s'.
Proof.
  intros ln es s s' locals u Hf Hd [H1 [H2 [H3 H4]]] Hc.
  pose proof (len_nonneg _ locals) as Hnn. pose proof (len_nonneg _ es) as Hne.
  unfold ret_general in Hc. unfold cbind at 1 in Hc. rewrite H2 in Hc.
  destruct (crs_exprs ln (len locals) es s) as [[reg' sA]|] eqn:Cr; [|discriminate].
  assert (Hd' : forall e, In e es -> len locals + len es + edepth e < 256).
  { intros e Hin. rewrite forallb_forall in Hd. specialize (Hd e Hin). lia. }
  assert (Hb : len es + 1 < 512).
  { destruct es as [|e0 r]; [unfold len; cbn [length]; lia|].
    specialize (Hd' e0 (or_introl eq_refl)). pose proof (edepth_nonneg e0). lia. }
  assert (Q1 : len locals <= len locals) by lia. assert (Q4 : len locals <= 256) by lia.
  destruct (crs_ok es locals ln (len locals) s reg' sA Hf Hd' H1 H2 Q1 Hnn Q4 H3 Cr)
    as [B0 [B1 [B2 [B3 [B4 [seg [B5 [B6 B7]]]]]]]].
  unfold addABC, add in Hc. inversion Hc; subst s'. clear Hc.
  unfold ret_concl. cbn [cs_consts cs_code]. split; [assumption|]. split; [assumption|].
  exists ((opCreateABC (op_code OP_RETURN) (len locals) (reg' - len locals + 1) 0, ln) :: seg).
  split; [rewrite B5; reflexivity|].
  split; [constructor; [apply VM.OpcodeFacts.createABC_range|eapply wl_u32; eassumption]|].
  intros K HK rho rf Henv Hs rest. rewrite pev_list_pevr.
  rewrite (pevr_list_ext _ _ es (proj1 Henv)).
  specialize (B7 K HK rf (proj2 Henv) Hs). cbn [rev]. rewrite <- app_assoc.
  destruct (pevr4_list (vlook locals rf) es) as [r|vs].
  { rewrite B7. destruct r; reflexivity. }
  destruct B7 as [rf' [F1 [F2 [F3 [F4 [F5 F6]]]]]].
  rewrite (isem_code_app _ _ _ _ _ F1). cbn [app isem4_code].
  rewrite isem_return by lia. subst reg'.
  replace (len locals + len es - len locals + 1 - 1) with (len vs) by lia.
  unfold len at 1. rewrite Nat2Z.id. rewrite (firstn_skipn_zth vs rf' (len locals) Hnn F2). reflexivity.
Qed.

Lemma return_ok : forall ln es s s' locals u,
  forallb (expr_frag4 locals) es = true ->
  forallb (fun e => len locals + len es + 1 + edepth e <=? 250) es = true -> cinv s locals ->
  compileStmt (SReturn ln es) s = Some (u, s') -> ret_concl ln es locals s s'.
Proof.
  intros ln es s s' locals u Hf Hd Hinv Hc. cbn [compileStmt] in Hc.
  destruct (return_split ln es s) as [E|[e [x [E1 [E2 [E3 E4]]]]]].
  { rewrite E in Hc. eapply ret_general_ok; eassumption. }
  rewrite E4 in Hc. destruct Hinv as [H1 [H2 [H3 H4]]]. subst es.
  unfold FindLocalVar in *. rewrite H1 in *. set (idx := find_last locals x 0 (-1)) in *.
  pose proof (find_last_range locals x 0 (-1) ltac:(lia)) as Hi1. fold idx in Hi1.
  unfold addABC, add in Hc. inversion Hc; subst s'. clear Hc.
  unfold ret_concl. cbn [cs_consts cs_code]. split; [assumption|]. split; [apply prefix_refl|].
  exists [(opCreateABC (op_code OP_RETURN) idx 2 0, ln)]. split; [reflexivity|].
  split; [constructor; [apply VM.OpcodeFacts.createABC_range|constructor]|].
  intros K HK rho rf Henv Hs rest. cbn [rev app isem4_code pev4_list].
  rewrite (env_pev rho locals rf e Henv). rewrite pevr_strip, E2. cbn [pevr4].
  unfold vlook. fold idx. replace (idx >? -1) with true by lia.
  destruct Henv as [_ Hlen].
  destruct (zth_some_lt rf idx ltac:(lia)) as [v Hv]. rewrite Hv.
  rewrite isem_return by lia. rewrite (skipn_zth_cons rf idx v Hv). reflexivity.
Qed.

Lemma setr_range_post : forall n locals rf a, 0 <= a <= len rf -> len locals <= a -> rf_ok locals rf ->
  exists rf', setr_range rf a n = Some rf' /\
    (forall i, a <= i < a + Z.of_nat n -> zth rf' i = Some VNil) /\
    (forall i, 0 <= i < a -> zth rf' i = zth rf i) /\
    a + Z.of_nat n <= len rf' /\ rf_ok locals rf'.
Proof.
  induction n as [|k IH]; intros locals rf a Ha Hla Hs; cbn [setr_range].
  - exists rf. split; [reflexivity|]. split; [intros i Hi; lia|]. split; [auto|]. split; [lia|assumption].
  - destruct (setr_post rf a VNil Ha) as [rf1 [E1 [E2 [E3 E4]]]]. rewrite E1.
    pose proof (zth_range _ _ _ _ E2) as Hr1.
    assert (Hs1 : rf_ok locals rf1) by (exact (setr_ok locals rf a VNil rf1 Hs eq_refl Hla E1)).
    destruct (IH locals rf1 (a + 1) ltac:(lia) ltac:(lia) Hs1) as [rf' [F1 [F2 [F3 [F4 F5]]]]].
    exists rf'. split; [assumption|]. split.
    { intros i Hi. destruct (Z.eq_dec i a) as [->|Hne].
      - rewrite F3 by lia. assumption.
      - apply F2. lia. }
    split; [intros i Hi; rewrite F3 by lia; apply E4; lia|]. split; [lia|assumption].
Qed.

(* ---------- n registers filled from an expression list ---------- *)
(* the code leaves the first n values of the list (nil padded) in reg .. reg+n-1, evaluates every
   expression of the list in order, and keeps the registers below reg *)
Definition fill_concl (locals : list name) (ln reg : Z) (n : nat) (es : list expr) (s s' : cstate) : Prop :=
  cs_locals s' = locals /\ cs_regtop s' = len locals /\ len (cs_consts s') <= 262144 /\
  prefix_of (cs_consts s) (cs_consts s') /\
  exists seg, cs_code s' = seg ++ cs_code s /\ Forall u32 seg /\
    forall K, prefix_of (cs_consts s') K -> forall rf, reg <= len rf -> rf_ok locals rf ->
      match pevr4_list (vlook locals rf) es with
      | inr vs => exists rf', isem4_okseq K (rev seg) rf = Some rf' /\
                    (forall i, 0 <= i < Z.of_nat n -> zth rf' (reg + i) = zth (adjust n vs) i) /\
                    reg + Z.of_nat n <= len rf' /\
                    (forall i, 0 <= i < reg -> zth rf' i = zth rf i) /\ rf_ok locals rf'
      | inl r => forall rest, isem4_code K (rev seg ++ rest) rf = stop_cres ln r
      end.

Lemma fill_step : forall s sA s' locals ln reg k e r,
  expr_ok s sA locals ln reg e -> fill_concl locals ln (reg + 1) k r sA s' ->
  0 <= reg -> len locals <= reg ->
  fill_concl locals ln reg (S k) (e :: r) s s'.
Proof.
  intros s sA s' locals ln reg k e r [A1 [A2 [A3 [A4 [segA [A5 [A6 [A7 A8]]]]]]]]
         [B1 [B2 [B3 [B4 [segB [B5 [B6 B7]]]]]]] Hr Hl.
  unfold fill_concl. split; [assumption|]. split; [assumption|]. split; [assumption|].
  split; [eapply prefix_trans; eassumption|].
  exists (segB ++ segA). split; [rewrite B5, A5, app_assoc; reflexivity|].
  split; [apply Forall_app; split; [assumption|eapply wl_u32; eassumption]|].
  intros K HK rf Hlen Hs. rewrite rev_app_distr.
  assert (HKA : prefix_of (cs_consts sA) K) by (eapply prefix_trans; eassumption).
  specialize (A8 K HKA rf Hlen Hs). cbn [pevr4_list].
  destruct (pevr4 (vlook locals rf) e) as [v| |] eqn:Ee.
  2:{ intro rest. rewrite <- app_assoc. apply A8. }
  2:{ intro rest. rewrite <- app_assoc. apply A8. }
  destruct A8 as [rfA [E1 [E2 [E3 [E4 E5]]]]].
  assert (Hext : forall y, vlook locals rfA y = vlook locals rf y) by (apply vlook_ext with (reg := reg); assumption).
  pose proof (zth_range _ _ _ _ E2) as HrA.
  specialize (B7 K HK rfA ltac:(lia) E5). rewrite (pevr_list_ext _ _ r Hext) in B7.
  destruct (pevr4_list (vlook locals rf) r) as [x|vs] eqn:Es.
  { intro rest. rewrite <- app_assoc. rewrite (isem_code_app _ _ _ _ _ E1). apply B7. }
  destruct B7 as [rfB [F1 [F2 [F3 [F5 F6]]]]].
  exists rfB. split; [rewrite isem_okseq_app, E1; assumption|].
  split.
  { intros i Hi. cbn [adjust]. destruct (Z.eq_dec i 0) as [->|Hne].
    - rewrite Z.add_0_r. rewrite F5 by lia. rewrite E2. reflexivity.
    - replace (reg + i) with (reg + 1 + (i - 1)) by lia. rewrite F2 by lia.
      rewrite zth_cons_pos by lia. reflexivity. }
  split; [lia|].
  split; [intros i Hi; rewrite F5 by lia; apply E4; assumption|assumption].
Qed.

Lemma fill_nil_pad : forall s s' locals ln reg k,
  fill_concl locals ln reg (S k) [ENil] s s' -> fill_concl locals ln reg (S k) [] s s'.
Proof.
  intros s s' locals ln reg k [B1 [B2 [B3 [B4 [seg [B5 [B6 B7]]]]]]].
  unfold fill_concl. repeat (split; [assumption|]). exists seg. split; [assumption|]. split; [assumption|].
  intros K HK rf Hlen Hs. specialize (B7 K HK rf Hlen Hs). cbn [pevr4_list pevr4] in B7 |- *.
  cbn [adjust] in B7 |- *. exact B7.
Qed.

(* the extra expressions: evaluated, nothing kept *)
Lemma extras_fill : forall es locals ln reg s reg' s',
  forallb (expr_frag4 locals) es = true ->
  (forall e, In e es -> reg + len es + edepth e <= 250) ->
  cs_locals s = locals -> cs_regtop s = len locals -> len locals <= reg -> len locals <= 200 ->
  len (cs_consts s) <= 262144 ->
  crs_exprs ln reg es s = Some (reg', s') ->
  fill_concl locals ln reg 0 es s s'.
Proof.
  intros es locals ln reg s reg' s' Hf Hd H1 H2 Hl Hloc Hk Cr.
  pose proof (len_nonneg _ locals) as Hnn. pose proof (len_nonneg _ es) as Hne.
  assert (Hd' : forall e, In e es -> reg + len es + edepth e < 256) by (intros e Hin; specialize (Hd e Hin); lia).
  destruct (crs_ok es locals ln reg s reg' s' Hf Hd' H1 H2 Hl ltac:(lia) ltac:(lia) Hk Cr)
    as [B0 [B1 [B2 [B3 [B4 [seg [B5 [B6 B7]]]]]]]].
  unfold fill_concl. repeat (split; [assumption|]). exists seg. split; [assumption|].
  split; [eapply wl_u32; eassumption|].
  intros K HK rf Hlen Hs. specialize (B7 K HK rf Hlen Hs).
  destruct (pevr4_list (vlook locals rf) es) as [x|vs]; [exact B7|].
  destruct B7 as [rf' [F1 [F2 [F3 [F4 [F5 F6]]]]]].
  exists rf'. split; [assumption|]. split; [intros i Hi; lia|]. split; [lia|]. split; assumption.
Qed.

Lemma cra_ok : forall n es locals ln reg s u s',
  forallb (expr_frag4 locals) es = true ->
  (forall e, In e es -> reg + len es + edepth e <= 250) ->
  reg + Z.of_nat n <= 250 ->
  cs_locals s = locals -> cs_regtop s = len locals -> len locals <= reg -> len locals <= 200 ->
  len (cs_consts s) <= 262144 ->
  compileRegAssignment ln reg n es s = Some (u, s') ->
  fill_concl locals ln reg n es s s'.
Proof.
  induction n as [|k IH]; intros es locals ln reg s u s' Hf Hd Hn H1 H2 Hl Hloc Hk Hc;
    pose proof (len_nonneg _ locals) as Hnn.
  - rewrite cra_unfold_O, cra_extra_crs in Hc.
    destruct (crs_exprs ln reg es s) as [[reg' s1]|] eqn:Cr; [|discriminate]. inversion Hc; subst s1.
    eapply extras_fill; eassumption.
  - destruct es as [|e r].
    + unfold compileRegAssignment in Hc. cbn [cra_assigned] in Hc. unfold cbind, cret, addABC, add in Hc.
      cbn [cra_extra] in Hc. unfold cret in Hc. inversion Hc; subst s'. clear Hc.
      set (w := opCreateABC (op_code OP_LOADNIL) reg (reg + Z.of_nat k) 0).
      unfold fill_concl. cbn [cs_locals cs_regtop cs_consts cs_code].
      split; [assumption|]. split; [assumption|]. split; [assumption|]. split; [apply prefix_refl|].
      exists [(w, ln)]. split; [reflexivity|].
      split; [constructor; [apply VM.OpcodeFacts.createABC_range|constructor]|].
      intros K HK rf Hlen Hs. cbn [pevr4_list].
      destruct (setr_range_post (S k) locals rf reg ltac:(lia) Hl Hs) as [rf' [E1 [E2 [E3 [E4 E5]]]]].
      exists rf'. split.
      { cbn [rev app isem4_okseq]. unfold w. rewrite isem_loadnil_range by lia.
        replace (reg + Z.of_nat k - reg + 1) with (Z.of_nat (S k)) by lia. rewrite Nat2Z.id, E1. reflexivity. }
      split; [intros i Hi; rewrite E2 by lia; rewrite adjust_nil_zth by lia; reflexivity|].
      split; [assumption|]. split; assumption.
    + rewrite cra_unfold_cons in Hc.
      destruct (compileExpr ln reg e (mkEc EcLocal reg 0) s) as [[inc sA]|] eqn:Ce; [|discriminate].
      cbn [forallb] in Hf. apply andb_true_iff in Hf. destruct Hf as [Hfe Hfr].
      assert (Hle : len (e :: r) = 1 + len r) by (unfold len; cbn [length]; lia).
      pose proof (len_nonneg _ r) as Hnr.
      assert (Hde : reg + edepth e < 256) by (specialize (Hd e (or_introl eq_refl)); lia).
      destruct (compileExpr_ok e locals ln reg _ s inc sA Hfe H1 H2 Hl ltac:(lia) Hde ltac:(lia) (savereg_local reg) Hk Ce)
        as [Hi Hok].
      pose proof Hok as [A1 [A2 [A3 _]]].
      assert (Hd' : forall e0, In e0 r -> reg + 1 + len r + edepth e0 <= 250).
      { intros e0 Hin. specialize (Hd e0 (or_intror Hin)). lia. }
      pose proof (IH r locals ln (reg + 1) sA u s' Hfr Hd' ltac:(lia) A1 A2 ltac:(lia) Hloc A3 Hc) as HB.
      eapply fill_step; try eassumption; lia.
Qed.

Lemma car_ok : forall n es locals ln reg s reg' s',
  forallb (expr_frag4 locals) es = true ->
  (forall e, In e es -> reg + len es + edepth e <= 250) ->
  reg + Z.of_nat n <= 250 ->
  cs_locals s = locals -> cs_regtop s = len locals -> len locals <= reg -> len locals <= 200 ->
  len (cs_consts s) <= 262144 ->
  car_all ln reg n es s = Some (reg', s') ->
  reg' = reg + Z.of_nat n /\ fill_concl locals ln reg n es s s'.
Proof.
  induction n as [|k IH]; intros es locals ln reg s reg' s' Hf Hd Hn H1 H2 Hl Hloc Hk Hc;
    pose proof (len_nonneg _ locals) as Hnn.
  - rewrite car_unfold_O, car_extra_crs in Hc.
    destruct (crs_exprs ln reg es s) as [[reg1 s1]|] eqn:Cr; [|discriminate]. inversion Hc; subst s1 reg'.
    split; [lia|]. eapply extras_fill; eassumption.
  - rewrite car_unfold_S in Hc.
    destruct es as [|e r].
    + destruct (compileExpr ln reg ENil (mkEc EcLocal regNotDefined 0) s) as [[inc sA]|] eqn:Ce; [|discriminate].
      destruct (compileExpr_ok ENil locals ln reg (mkEc EcLocal regNotDefined 0) s inc sA eq_refl H1 H2 Hl ltac:(lia) ltac:(cbn [edepth]; lia) ltac:(lia) eq_refl Hk Ce)
        as [Hi Hok]. subst inc.
      pose proof Hok as [A1 [A2 [A3 _]]]. cbn [tl] in Hc.
      destruct (IH [] locals ln (reg + 1) sA reg' s' eq_refl ltac:(intros e0 []) ltac:(lia) A1 A2 ltac:(lia) Hloc A3 Hc) as [Hr' HB].
      split; [lia|]. apply fill_nil_pad. eapply fill_step; try eassumption; lia.
    + destruct (compileExpr ln reg e (mkEc EcLocal regNotDefined 0) s) as [[inc sA]|] eqn:Ce; [|discriminate].
      cbn [forallb] in Hf. apply andb_true_iff in Hf. destruct Hf as [Hfe Hfr].
      assert (Hle : len (e :: r) = 1 + len r) by (unfold len; cbn [length]; lia).
      pose proof (len_nonneg _ r) as Hnr.
      assert (Hde : reg + edepth e < 256) by (specialize (Hd e (or_introl eq_refl)); lia).
      destruct (compileExpr_ok e locals ln reg (mkEc EcLocal regNotDefined 0) s inc sA Hfe H1 H2 Hl ltac:(lia) Hde ltac:(lia) eq_refl Hk Ce)
        as [Hi Hok]. subst inc.
      pose proof Hok as [A1 [A2 [A3 _]]]. cbn [tl] in Hc.
      assert (Hd' : forall e0, In e0 r -> reg + 1 + len r + edepth e0 <= 250).
      { intros e0 Hin. specialize (Hd e0 (or_intror Hin)). lia. }
      destruct (IH r locals ln (reg + 1) sA reg' s' Hfr Hd' ltac:(lia) A1 A2 ltac:(lia) Hloc A3 Hc) as [Hr' HB].
      split; [lia|]. eapply fill_step; try eassumption; lia.
Qed.

(* ---------- the store loop of compileAssignStmt ---------- *)
Lemma cas_moves_ok : forall ns ln top s u s' locals,
  cs_locals s = locals ->
  (forall x, In x ns -> existsb (beqb x) locals = true) ->
  len locals <= top - len ns + 1 -> top < 256 -> len locals <= 200 ->
  cas_moves ln top ns s = Some (u, s') ->
  cs_locals s' = locals /\ cs_regtop s' = cs_regtop s /\ cs_consts s' = cs_consts s /\
  exists seg, cs_code s' = seg ++ cs_code s /\ Forall u32 seg /\
    forall K rho rf tv, length ns = length tv -> env_rel rho locals rf -> rf_ok locals rf ->
      (forall j, 0 <= j < len tv -> zth rf (top - j) = zth tv j) -> typed_pairs (combine ns tv) ->
      exists rf', isem4_okseq K (rev seg) rf = Some rf' /\ env_rel (pstore rho (combine ns tv)) locals rf' /\ rf_ok locals rf'.
Proof.
  induction ns as [|x ns IH]; intros ln top s u s' locals H1 Hin Htop H256 Hloc Hc.
  - cbn [cas_moves] in Hc. unfold cret in Hc. inversion Hc; subst s'.
    split; [assumption|]. split; [reflexivity|]. split; [reflexivity|].
    exists []. split; [reflexivity|]. split; [constructor|].
    intros K rho rf tv Hlen Henv Hs Htv Hty. exists rf. cbn [rev isem4_okseq combine]. unfold pstore. cbn [fold_left].
    split; [reflexivity|]. split; assumption.
  - cbn [cas_moves] in Hc. unfold cbind, addABC, add in Hc.
    assert (Hx : existsb (beqb x) locals = true) by (apply Hin; left; reflexivity).
    pose proof (existsb_find_last locals x Hx) as Hi0.
    pose proof (find_last_range locals x 0 (-1) ltac:(lia)) as Hi1.
    unfold FindLocalVar in Hc. rewrite H1 in Hc. set (idx := find_last locals x 0 (-1)) in *.
    assert (Hln : len (x :: ns) = 1 + len ns) by (unfold len; cbn [length]; lia).
    pose proof (len_nonneg _ ns) as Hnn. pose proof (len_nonneg _ locals) as Hnl.
    match type of Hc with cas_moves _ _ _ ?st = _ =>
      destruct (IH ln (top - 1) st u s' locals eq_refl (fun y Hy => Hin y (or_intror Hy)) ltac:(lia) ltac:(lia) Hloc Hc)
        as [C1 [C2 [C3 [seg [C4 [C5 C6]]]]]]
    end.
    cbn [cs_regtop cs_consts cs_code] in C2, C3, C4.
    split; [assumption|]. split; [assumption|]. split; [assumption|].
    exists (seg ++ [(opCreateABC (op_code OP_MOVE) idx top 0, ln)]).
    split; [rewrite C4, <- app_assoc; reflexivity|].
    split; [apply Forall_app; split; [assumption|constructor; [apply VM.OpcodeFacts.createABC_range|constructor]]|].
    intros K rho rf tv Hlen Henv Hs Htv Hty. destruct tv as [|w tv]; [discriminate|].
    cbn [combine] in Hty. inversion Hty as [|p0 l0 Hp Hty']; subst p0 l0. cbn [fst snd] in Hp.
    assert (Hlt : len (w :: tv) = 1 + len tv) by (unfold len; cbn [length]; lia).
    assert (Hlnt : len tv = len ns) by (unfold len; cbn [length] in Hlen; lia).
    rewrite rev_app_distr. cbn [rev app isem4_okseq].
    assert (Hw : zth rf top = Some w).
    { specialize (Htv 0 ltac:(lia)). rewrite Z.sub_0_r in Htv. rewrite Htv. reflexivity. }
    pose proof Henv as [He Hle].
    destruct (setr_post rf idx w ltac:(lia)) as [rf1 [F1 [F2 [F3 F4]]]].
    rewrite (isem_move K idx top rf w ltac:(lia) ltac:(lia) Hw), F1. cbn [okres].
    assert (Sw : is_sval4 w = true) by (eapply rf_ok_zth; eassumption).
    assert (Hs1 : rf_ok locals rf1) by exact (setr_local_ok locals rf x w rf1 Hs Sw Hp Hi0 F1).
    assert (Henv1 : env_rel (pupdate rho x w) locals rf1).
    { apply (env_update rho locals rf rf1 x w Henv); fold idx; try assumption; try lia.
      intros i Hi Hne. apply F4. assumption. }
    destruct (C6 K (pupdate rho x w) rf1 tv ltac:(cbn [length] in Hlen; lia) Henv1 Hs1) as [rf' [G1 [G2 G3]]].
    { intros j Hj. rewrite F4 by lia. replace (top - 1 - j) with (top - (1 + j)) by lia.
      rewrite Htv by lia. apply zth_cons_succ. lia. }
    { exact Hty'. }
    exists rf'. split; [assumption|]. split; [|assumption].
    cbn [combine]. unfold pstore in *. cbn [fold_left fst snd]. exact G2.
Qed.

(* ---------- statements ---------- *)
Definition stmt1_post (K : list value) (seg : list (Z * Z)) (ln : Z) (rf : rfile) (r : pres + list value)
  (next : list value -> rfile -> Prop) : Prop :=
  match r with
  | inr vs => exists rf', isem4_okseq K (rev seg) rf = Some rf' /\ next vs rf'
  | inl p => forall rest, isem4_code K (rev seg ++ rest) rf = pcres ln p
  end.

Lemma typed_all : forall l, typed_pairs l.
Proof. intro l. apply Forall_forall. intros q _ H. unfold tainted4 in H. discriminate. Qed.

Lemma local1_ok : forall ln xs es s s' locals u,
  forallb (expr_frag4 locals) es = true -> budget locals es = true -> len locals + len xs <= 250 ->
  cinv s locals -> compileStmt (SLocal ln xs es) s = Some (u, s') ->
  cinv s' (locals ++ xs) /\ prefix_of (cs_consts s) (cs_consts s') /\
  exists seg, cs_code s' = seg ++ cs_code s /\ Forall u32 seg /\
    forall K, prefix_of (cs_consts s') K -> forall rho rf, env_rel rho locals rf -> rf_ok locals rf ->
      stmt1_post K seg ln rf (pev4_list rho es)
        (fun vs rf' => env_rel (rev (combine xs (adjust (length xs) vs)) ++ rho) (locals ++ xs) rf' /\ rf_ok (locals ++ xs) rf').
Proof.
  intros ln xs es s s' locals u Hf Hb Hx [H1 [H2 [H3 H4]]] Hc.
  pose proof (len_nonneg _ locals) as Hnn.
  cbn [compileStmt] in Hc. unfold compileLocalAssignStmt, cbind in Hc.
  destruct (compileRegAssignment ln (cs_regtop s) (length xs) es s) as [[u1 sA]|] eqn:Cr; [|discriminate].
  rewrite H2 in Cr.
  assert (Hnx : Z.of_nat (length xs) = len xs) by reflexivity.
  destruct (cra_ok (length xs) es locals ln (len locals) s u1 sA Hf (budget_forall _ _ Hb) ltac:(lia) H1 H2 (Z.le_refl _) H4 H3 Cr)
    as [B1 [B2 [B3 [B4 [seg [B5 [B6 B7]]]]]]].
  destruct (register_locals_ok xs sA u s' Hc) as [R1 [R2 [R3 [R4 R5]]]].
  assert (Hla : len (locals ++ xs) = len locals + len xs) by apply len_app.
  split.
  { unfold cinv. rewrite R1, R2, R5, B1, B2, Hla. repeat split; try reflexivity; try assumption.
    rewrite B2 in R2, R3. lia. }
  rewrite R5, R4. split; [assumption|]. exists seg. split; [assumption|]. split; [assumption|].
  intros K HK rho rf Henv Hs. rewrite pev_list_pevr. rewrite (pevr_list_ext _ _ es (proj1 Henv)).
  specialize (B7 K HK rf (proj2 Henv) Hs). unfold stmt1_post.
  destruct (pevr4_list (vlook locals rf) es) as [p|vs] eqn:Ep; [exact B7|].
  destruct B7 as [rf' [F1 [F2 [F3 [F4 F5]]]]].
  exists rf'. split; [assumption|].
  assert (Hal : len (adjust (length xs) vs) = len xs) by (unfold len; rewrite adjust_length; reflexivity).
  split.
  - apply (env_push_list xs (adjust (length xs) vs) rho locals rf rf'); try assumption.
    + rewrite adjust_length. reflexivity.
    + intros i Hi. apply F2. lia.
    + lia.
  - apply (rf_ok_push xs (adjust (length xs) vs) locals rf'); [rewrite adjust_length; reflexivity|assumption|intros i Hi; apply F2; lia|].
    apply typed_all.
Qed.

Lemma assign1_ok : forall ln lhs xs es s s' locals u,
  assign_targets lhs = Some xs ->
  forallb (fun x => existsb (beqb x) locals) xs = true -> 1 <= len xs ->
  forallb (expr_frag4 locals) es = true -> budget locals es = true -> len locals + len xs <= 250 ->
  cinv s locals -> compileStmt (SAssign ln lhs es) s = Some (u, s') ->
  cinv s' locals /\ prefix_of (cs_consts s) (cs_consts s') /\
  exists seg, cs_code s' = seg ++ cs_code s /\ Forall u32 seg /\
    forall K, prefix_of (cs_consts s') K -> forall rho rf, env_rel rho locals rf -> rf_ok locals rf ->
      stmt1_post K seg ln rf (pev4_list rho es)
        (fun vs rf' => env_rel (pstore rho (rev (combine xs (adjust (length xs) vs)))) locals rf' /\ rf_ok locals rf').
Proof.
  intros ln lhs xs es s s' locals u Hat Hxs Hx1 Hf Hb Hx [H1 [H2 [H3 H4]]] Hc.
  pose proof (len_nonneg _ locals) as Hnn.
  cbn [compileStmt] in Hc. rewrite Hat in Hc. rewrite compileAssignStmt_unfold in Hc. rewrite H2 in Hc.
  destruct (car_all _ _ _ _ _) as [[reg sA]|] eqn:Ca in Hc; [|discriminate].
  assert (Hnx : Z.of_nat (length xs) = len xs) by reflexivity.
  destruct (car_ok (length xs) es locals ln (len locals) s reg sA Hf (budget_forall _ _ Hb) ltac:(lia) H1 H2 (Z.le_refl _) H4 H3 Ca)
    as [Hreg [B1 [B2 [B3 [B4 [segF [B5 [B6 B7]]]]]]]].
  assert (Hlr : len (rev xs) = len xs) by (unfold len; rewrite rev_length; reflexivity).
  destruct (cas_moves_ok (rev xs) ln (reg - 1) sA u s' locals B1
              (fun x Hin => forallb_In _ _ xs x Hxs (proj2 (in_rev xs x) Hin)) ltac:(nlia) ltac:(nlia) H4 Hc)
    as [C1 [C2 [C3 [segM [C4 [C5 C6]]]]]].
  change name with bytes in *.
  split.
  { unfold cinv. rewrite C1, C2, C3, B2. repeat split; try reflexivity; assumption. }
  rewrite C3. split; [assumption|].
  exists (segM ++ segF). split; [rewrite C4, B5, app_assoc; reflexivity|].
  split; [apply Forall_app; split; assumption|].
  intros K HK rho rf Henv Hs. rewrite pev_list_pevr. rewrite (pevr_list_ext _ _ es (proj1 Henv)).
  specialize (B7 K HK rf (proj2 Henv) Hs). unfold stmt1_post. rewrite rev_app_distr.
  destruct (pevr4_list (vlook locals rf) es) as [p|vs] eqn:Ep.
  { intro rest. rewrite <- app_assoc. apply B7. }
  destruct B7 as [rfA [F1 [F2 [F3 [F4 F5]]]]].
  set (ws := adjust (length xs) vs) in *.
  assert (Hal : len ws = len xs) by (unfold len, ws; rewrite adjust_length; reflexivity).
  assert (HenvA : env_rel rho locals rfA) by (eapply env_rel_ext; [exact Henv|exact F4|nlia]).
  destruct (C6 K rho rfA (rev ws) ltac:(rewrite !rev_length; unfold ws; rewrite adjust_length; reflexivity) HenvA F5)
    as [rf' [G1 [G2 G3]]].
  { intros j Hj. assert (Hlrw : len (rev ws) = len ws) by (unfold len; rewrite rev_length; reflexivity).
    rewrite zth_rev by nlia. rewrite <- F2 by nlia. f_equal. nlia. }
  { rewrite <- rev_combine by (unfold ws; rewrite adjust_length; reflexivity). apply Forall_rev.
    apply typed_all. }
  exists rf'. split; [rewrite isem_okseq_app, F1; assumption|]. split; [|assumption].
  rewrite rev_combine by (unfold ws; rewrite adjust_length; reflexivity). exact G2.
Qed.

(* ---------- the chunk ---------- *)
Lemma chunk1_ok : forall b locals s u s',
  stmts_frag4 locals b = true -> cinv s locals -> compileChunk b s = Some (u, s') ->
  len (cs_consts s') <= 262144 /\ prefix_of (cs_consts s) (cs_consts s') /\
  exists seg, cs_code s' = seg ++ cs_code s /\ Forall u32 seg /\
    forall K, prefix_of (cs_consts s') K -> forall rho rf fin, env_rel rho locals rf -> rf_ok locals rf ->
      isem4_code K (rev seg ++ [final_ret fin]) rf = prun4 rho b.
Proof.
  induction b as [|st b IH]; intros locals s u s' Hf Hinv Hc.
  - cbn [compileChunk] in Hc. unfold cret in Hc. inversion Hc; subst s'.
    destruct Hinv as [H1 [H2 [H3 H4]]]. split; [assumption|]. split; [apply prefix_refl|].
    exists []. split; [reflexivity|]. split; [constructor|].
    intros K HK rho rf fin Henv Hs. cbn [rev app isem4_code prun4 final_ret].
    rewrite isem_return by (pose proof (len_nonneg _ rf); lia). reflexivity.
  - cbn [compileChunk] in Hc. unfold cbind at 1 in Hc.
    destruct (compileStmt st s) as [[u1 s1]|] eqn:Cs; [|discriminate].
    destruct st as [ln xs es|ln lhs es| | | | | | | | |ln es| | |]; cbn [stmts_frag4] in Hf; try discriminate.
    + (* local *)
      apply andb_true_iff in Hf. destruct Hf as [Hf Hr].
      apply andb_true_iff in Hf. destruct Hf as [Hf Hx].
      apply andb_true_iff in Hf. destruct Hf as [Hf Hb]. apply andb_true_iff in Hf. destruct Hf as [_ Hf].
      unfold maxRegisters in Hx. change name with bytes in Hx.
      destruct (local1_ok ln xs es s s1 locals u1 Hf Hb ltac:(nlia) Hinv Cs) as [I1 [P1 [segA [C1 [U1 S1]]]]].
      destruct (IH (locals ++ xs) s1 u s' Hr I1 Hc) as [K2 [P2 [segB [C2 [U2 S2]]]]].
      split; [assumption|]. split; [eapply prefix_trans; eassumption|].
      exists (segB ++ segA). split; [rewrite C2, C1, app_assoc; reflexivity|].
      split; [apply Forall_app; split; assumption|].
      intros K HK rho rf fin Henv Hs. rewrite rev_app_distr, <- app_assoc. cbn [prun4].
      specialize (S1 K (prefix_trans _ _ _ P2 HK) rho rf Henv Hs). unfold stmt1_post in S1.
      destruct (pev4_list rho es) as [p|vs]; [apply S1|].
      destruct S1 as [rf' [E1 [E2 E3]]]. rewrite (isem_code_app _ _ _ _ _ E1). apply S2; assumption.
    + (* assignment *)
      apply andb_true_iff in Hf. destruct Hf as [Hf Hr].
      destruct (assign_targets lhs) as [xs|] eqn:Hat; [|discriminate].
      apply andb_true_iff in Hf. destruct Hf as [Hf Hx]. apply andb_true_iff in Hf. destruct Hf as [Hf Hb].
      apply andb_true_iff in Hf. destruct Hf as [Hf Hfe]. apply andb_true_iff in Hf. destruct Hf as [Hf Hxs].
      apply andb_true_iff in Hf. destruct Hf as [Hx1 _].
      unfold maxRegisters in Hx. change name with bytes in Hx, Hx1.
      destruct (assign1_ok ln lhs xs es s s1 locals u1 Hat Hxs ltac:(nlia) Hfe Hb ltac:(nlia) Hinv Cs) as [I1 [P1 [segA [C1 [U1 S1]]]]].
      destruct (IH locals s1 u s' Hr I1 Hc) as [K2 [P2 [segB [C2 [U2 S2]]]]].
      split; [assumption|]. split; [eapply prefix_trans; eassumption|].
      exists (segB ++ segA). split; [rewrite C2, C1, app_assoc; reflexivity|].
      split; [apply Forall_app; split; assumption|].
      intros K HK rho rf fin Henv Hs. rewrite rev_app_distr, <- app_assoc. cbn [prun4]. rewrite Hat.
      specialize (S1 K (prefix_trans _ _ _ P2 HK) rho rf Henv Hs). unfold stmt1_post in S1.
      destruct (pev4_list rho es) as [p|vs]; [apply S1|].
      destruct S1 as [rf' [E1 [E2 E3]]]. rewrite (isem_code_app _ _ _ _ _ E1). apply S2; assumption.
    + (* return *)
      apply andb_true_iff in Hf. destruct Hf as [Hf Hd]. apply andb_true_iff in Hf. destruct Hf as [Hb Hf].
      destruct b; [|discriminate]. cbn [compileChunk] in Hc. unfold cret in Hc. inversion Hc; subst s'.
      unfold maxRegisters in Hd.
      destruct (return_ok ln es s s1 locals u1 Hf Hd Hinv Cs) as [K1 [P1 [seg [C1 [U1 S1]]]]].
      split; [assumption|]. split; [assumption|].
      exists seg. split; [assumption|]. split; [assumption|].
      intros K HK rho rf fin Henv Hs. cbn [prun4]. rewrite (S1 K HK rho rf Henv Hs).
      destruct (pev4_list rho es) as [[| |]|]; reflexivity.
Qed.

End F4.

(* ---------- the front half on F2 ---------- *)
Theorem front_half4_lemma :
  forall b x s, in_frag4 b = true -> compileChunk b (mkCS [] [] [] 0) = Some (x, s) ->
    let full := rev ((opCreateABC (op_code OP_RETURN) 0 1 0, last_line b 0) :: cs_code s) in
    isem4_code (cs_consts s) full [] = prun4 [] b /\ Forall (fun wl => 0 <= fst wl < 2 ^ 32) full.
Proof.
  intros b x s Hin Hc full. unfold in_frag4 in Hin.
  assert (Hinv : cinv (mkCS [] [] [] 0) []).
  { unfold cinv, len. cbn [cs_locals cs_regtop cs_consts length]. repeat split; lia. }
  destruct (chunk1_ok (taint b) b [] (mkCS [] [] [] 0) x s Hin Hinv Hc) as [K1 [P1 [seg [C1 [U1 S1]]]]].
  cbn [cs_code] in C1. rewrite app_nil_r in C1.
  assert (Hfull : full = rev seg ++ [final_ret (last_line b 0)]).
  { unfold full. rewrite C1. reflexivity. }
  rewrite Hfull. split.
  - apply (S1 (cs_consts s) (prefix_refl _) [] [] (last_line b 0)).
    + split; [|unfold len; cbn [length]; lia]. intro y. reflexivity.
    + split; [constructor|]. intros y v Hv. discriminate.
  - apply Forall_app. split.
    + apply Forall_rev. exact U1.
    + constructor; [|constructor]. unfold final_ret. cbn [fst]. apply VM.OpcodeFacts.createABC_range.
Qed.

