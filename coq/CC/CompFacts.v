(* CC: facts about the transcription of compile.go (CompModel.v): the emitted words under isem,
   the constant table, and the compilation of expressions. *)
From Coq Require Import Floats Lia ZifyBool SpecFloat.
From Coq Require FloatAxioms.
From GL Require Import Common.Bytes Lua.Syntax Lua.Num Lua.Values Lua.Names Lua.Eval.
From GL Require Import VMX.Machine CC.CompModel CC.FragSem CC.CompFactsVM.
From GL Require VM.OpcodeFacts.
(* ---------- the emitted words under isem ---------- *)
Lemma op_code_range : forall o, 0 <= op_code o < 64.
Proof. destruct o; cbn; lia. Qed.

Lemma op_of_code_op_code : forall o, op_of_code (op_code o) = Some o.
Proof. destruct o; reflexivity. Qed.

Lemma decodeABC : forall o a b c, 0 <= a < 256 -> 0 <= b < 512 -> 0 <= c < 512 ->
  let w := opCreateABC (op_code o) a b c in
  op_of_code (opGetOpCode w) = Some o /\ opGetArgA w = a /\ opGetArgB w = b /\ opGetArgC w = c.
Proof.
  intros o a b c Ha Hb Hc w.
  destruct (VM.OpcodeFacts.createABC_get (op_code o) a b c (op_code_range o) Ha Hb Hc) as [E0 [E1 [E2 E3]]].
  fold w in E0, E1, E2, E3. rewrite E0. split; [apply op_of_code_op_code|]. auto.
Qed.

Lemma decodeABx : forall o a bx, 0 <= a < 256 -> 0 <= bx < 262144 ->
  let w := opCreateABx (op_code o) a bx in
  op_of_code (opGetOpCode w) = Some o /\ opGetArgA w = a /\ opGetArgBx w = bx.
Proof.
  intros o a bx Ha Hb w.
  destruct (VM.OpcodeFacts.createABx_get (op_code o) a bx (op_code_range o) Ha Hb) as [E0 [E1 E2]].
  fold w in E0, E1, E2. rewrite E0. split; [apply op_of_code_op_code|]. auto.
Qed.

Definition okres (o : option rfile) : ires := match o with Some rf' => IOk rf' | None => IStuck end.

Lemma isem_loadk : forall K a bx rf v, 0 <= a < 256 -> 0 <= bx < 262144 -> zth K bx = Some v ->
  isem_inst K (opCreateABx (op_code OP_LOADK) a bx) rf = okres (setr rf a v).
Proof.
  intros K a bx rf v Ha Hb Hz. destruct (decodeABx OP_LOADK a bx Ha Hb) as [E0 [E1 E2]].
  unfold isem_inst. rewrite E0, E1, E2, Hz. reflexivity.
Qed.

Lemma isem_move : forall K a b rf v, 0 <= a < 256 -> 0 <= b < 512 -> zth rf b = Some v ->
  isem_inst K (opCreateABC (op_code OP_MOVE) a b 0) rf = okres (setr rf a v).
Proof.
  intros K a b rf v Ha Hb Hz. destruct (decodeABC OP_MOVE a b 0 Ha Hb ltac:(lia)) as [E0 [E1 [E2 E3]]].
  unfold isem_inst. rewrite E0, E1, E2, Hz. reflexivity.
Qed.

Lemma isem_loadbool : forall K a b rf, 0 <= a < 256 -> 0 <= b < 512 ->
  isem_inst K (opCreateABC (op_code OP_LOADBOOL) a b 0) rf = okres (setr rf a (VBool (negb (b =? 0)))).
Proof.
  intros K a b rf Ha Hb. destruct (decodeABC OP_LOADBOOL a b 0 Ha Hb ltac:(lia)) as [E0 [E1 [E2 E3]]].
  unfold isem_inst. rewrite E0, E1, E2, E3. reflexivity.
Qed.

Lemma isem_loadnil1 : forall K a rf, 0 <= a < 256 ->
  isem_inst K (opCreateABC (op_code OP_LOADNIL) a a 0) rf = okres (setr rf a VNil).
Proof.
  intros K a rf Ha. destruct (decodeABC OP_LOADNIL a a 0 Ha ltac:(lia) ltac:(lia)) as [E0 [E1 [E2 E3]]].
  unfold isem_inst. rewrite E0, E1, E2. replace (a - a + 1) with 1 by lia.
  change (Z.to_nat 1) with 1%nat. cbn [setr_range]. destruct (setr rf a VNil); reflexivity.
Qed.

Definition arith_res (K : list value) (rf : rfile) (o : binop) (a b c : Z) : ires :=
  match rkval K rf b, rkval K rf c with
  | Some (VNum x), Some (VNum y) =>
      match arith_op o x y with Some r => okres (setr rf a (VNum r)) | None => IUnsup end
  | Some x, Some y => if is_simple x && is_simple y then IFault else IStuck
  | _, _ => IStuck
  end.

Lemma isem_arith : forall K o a b c rf, is_arith_op o = true -> 0 <= a < 256 -> 0 <= b < 512 -> 0 <= c < 512 ->
  isem_inst K (opCreateABC (op_code (arith_opcode o)) a b c) rf = arith_res K rf o a b c.
Proof.
  intros K o a b c rf Ho Ha Hb Hc.
  destruct (decodeABC (arith_opcode o) a b c Ha Hb Hc) as [E0 [E1 [E2 E3]]].
  unfold isem_inst. rewrite E0, E1, E2, E3. unfold arith_res.
  destruct o; try discriminate; reflexivity.
Qed.

Lemma isem_unm : forall K a b rf, 0 <= a < 256 -> 0 <= b < 512 ->
  isem_inst K (opCreateABC (op_code OP_UNM) a b 0) rf =
  match rkval K rf b with
  | Some (VNum x) => okres (setr rf a (VNum (- x)%float))
  | Some x => if is_simple x then IFault else IStuck
  | None => IStuck
  end.
Proof.
  intros K a b rf Ha Hb. destruct (decodeABC OP_UNM a b 0 Ha Hb ltac:(lia)) as [E0 [E1 [E2 E3]]].
  unfold isem_inst. rewrite E0, E1, E2. reflexivity.
Qed.

Lemma isem_not : forall K a b rf v, 0 <= a < 256 -> 0 <= b < 512 -> zth rf b = Some v ->
  isem_inst K (opCreateABC (op_code OP_NOT) a b 0) rf = okres (setr rf a (VBool (negb (truthy v)))).
Proof.
  intros K a b rf v Ha Hb Hz. destruct (decodeABC OP_NOT a b 0 Ha Hb ltac:(lia)) as [E0 [E1 [E2 E3]]].
  unfold isem_inst. rewrite E0, E1, E2, Hz. reflexivity.
Qed.

(* ---------- constants ---------- *)
Lemma float_eq_of_same : forall x y, PrimFloat.eqb x y = true -> signbit x = signbit y -> x = y.
Proof.
  intros x y He Hs. rewrite FloatAxioms.eqb_spec in He. unfold signbit in Hs.
  assert (E : Prim2SF x = Prim2SF y).
  { destruct (Prim2SF x) as [s1|s1| |s1 m1 e1]; destruct (Prim2SF y) as [s2|s2| |s2 m2 e2];
      cbn in He; try discriminate; try (subst; reflexivity).
    all: try (destruct s1, s2; discriminate).
    - subst s2. destruct s1.
      + destruct (Z.compare_spec e1 e2); cbn in He; try discriminate.
        * subst. change (Pos.compare_cont Eq m1 m2) with (Pos.compare m1 m2) in He.
          destruct (Pos.compare_spec m1 m2); cbn in He; try discriminate. subst. reflexivity.
      + destruct (Z.compare_spec e1 e2); cbn in He; try discriminate.
        * subst. change (Pos.compare_cont Eq m1 m2) with (Pos.compare m1 m2) in He.
          destruct (Pos.compare_spec m1 m2); cbn in He; try discriminate. subst. reflexivity. }
  rewrite <- (FloatAxioms.SF2Prim_Prim2SF x), <- (FloatAxioms.SF2Prim_Prim2SF y). rewrite E. reflexivity.
Qed.

Lemma beqb_eq : forall a b, beqb a b = true -> a = b.
Proof.
  induction a; destruct b; simpl; intro H; try discriminate; [reflexivity|].
  apply andb_true_iff in H. destruct H as [H1 H2]. f_equal; [lia|auto].
Qed.

Lemma const_same_eq : forall lv v, const_same lv v = true -> lv = v.
Proof.
  intros lv v H. destruct lv; destruct v; try discriminate; cbn in H.
  - apply andb_true_iff in H. destruct H as [H1 H2]. f_equal. apply float_eq_of_same; [assumption|].
    destruct (signbit f), (signbit f0); try discriminate; reflexivity.
  - f_equal. apply beqb_eq. assumption.
Qed.

Definition prefix_of (a b : list value) : Prop := exists t, b = a ++ t.

Lemma prefix_refl : forall a, prefix_of a a.
Proof. intro a. exists []. rewrite app_nil_r. reflexivity. Qed.
Lemma prefix_trans : forall a b c, prefix_of a b -> prefix_of b c -> prefix_of a c.
Proof. intros a b c [t1 H1] [t2 H2]. exists (t1 ++ t2). subst. rewrite app_assoc. reflexivity. Qed.
Lemma prefix_zth : forall a b i v, prefix_of a b -> zth a i = Some v -> zth b i = Some v.
Proof.
  intros a b i v [t H] Hz. subst b. pose proof (zth_range _ _ _ _ Hz). rewrite zth_app_l by assumption. assumption.
Qed.

Lemma const_find_spec : forall l v i0 i, const_find l v i0 = Some i ->
  i0 <= i < i0 + len l /\ zth l (i - i0) = Some v.
Proof.
  induction l as [|lv l IH]; intros v i0 i H; cbn [const_find] in H; [discriminate|].
  destruct (const_same lv v) eqn:E.
  - inversion H; subst. apply const_same_eq in E. subst. split; [unfold len; cbn [length]; lia|].
    replace (i - i) with 0 by lia. reflexivity.
  - destruct (IH _ _ _ H) as [H1 H2]. split; [unfold len in *; cbn [length]; lia|].
    replace (i - i0) with (1 + (i - (i0 + 1))) by lia. rewrite zth_cons_succ by lia. assumption.
Qed.

Lemma constIndex_spec : forall v s i s', len (cs_consts s) <= 262144 -> constIndex v s = Some (i, s') ->
  len (cs_consts s') <= 262144 /\ 0 <= i < 262144 /\ zth (cs_consts s') i = Some v /\ prefix_of (cs_consts s) (cs_consts s') /\
  cs_code s' = cs_code s /\ cs_locals s' = cs_locals s /\ cs_regtop s' = cs_regtop s.
Proof.
  intros v s i s' Hk H. unfold constIndex in H.
  destruct (const_find (cs_consts s) v 0) as [j|] eqn:E.
  - inversion H; subst. destruct (const_find_spec _ _ _ _ E) as [H1 H2]. rewrite Z.sub_0_r in H2.
    pose proof (zth_range _ _ _ _ H2).
    split; [assumption|]. split; [lia|]. split; [assumption|]. split; [apply prefix_refl|auto].
  - destruct (len (cs_consts s) >? opMaxArgBx) eqn:E2; [discriminate|]. inversion H; subst. cbn.
    unfold opMaxArgBx in E2. split; [rewrite len_app; unfold len at 2; cbn [length]; lia|].
    split; [pose proof (len_nonneg _ (cs_consts s)); lia|].
    split; [rewrite zth_app_r by lia; replace (len (cs_consts s) - len (cs_consts s)) with 0 by lia; reflexivity|].
    split; [eexists; reflexivity|auto].
Qed.

(* ---------- expressions ---------- *)
(* pev with the variable lookup abstracted *)
Fixpoint pevr (look : name -> option value) (e : expr) : pres :=
  match e with
  | ENil => PV VNil | ETrue => PV (VBool true) | EFalse => PV (VBool false)
  | ENum f => PV (VNum f)
  | EVar x => match look x with Some v => PV v | None => PUnsup end
  | EParen a => pevr look a
  | EBin o a b =>
      match pevr look a with
      | PV x => match pevr look b with PV y => parith o x y | r => r end
      | r => r
      end
  | EUn ONeg a => match pevr look a with PV (VNum f) => PV (VNum (- f)%float) | PV _ => PFault | r => r end
  | EUn ONot a => match pevr look a with PV v => PV (VBool (negb (truthy v))) | r => r end
  | _ => PUnsup
  end.

Lemma pev_pevr : forall rho e, pev rho e = pevr (plookup rho) e.
Proof.
  intros rho e. induction e; cbn [pev pevr]; try reflexivity.
  - rewrite IHe1, IHe2. reflexivity.
  - destruct o; try reflexivity; rewrite IHe; reflexivity.
  - assumption.
Qed.

(* the register of a local: FindLocalVar *)
Definition vlook (locals : list name) (rf : rfile) (x : name) : option value :=
  let b := find_last locals x 0 (-1) in if b >? -1 then zth rf b else None.

Lemma find_last_range : forall l x i acc, -1 <= acc < i -> -1 <= find_last l x i acc < i + len l.
Proof.
  induction l as [|y l IH]; intros x i acc H; cbn [find_last].
  - unfold len. cbn [length]. lia.
  - specialize (IH x (i + 1) (if beqb y x then i else acc)).
    unfold len in *. cbn [length]. destruct (beqb y x); lia.
Qed.

(* constants fold to the value pev computes, whatever the variables hold *)
Lemma cfold_pevr : forall e g look, cfold e = Some (Some g) -> pevr look e = PV (VNum g).
Proof.
  induction e; intros g look H; cbn [cfold] in H; try discriminate.
  - inversion H. reflexivity.
  - destruct (is_arith_op o) eqn:Eo; [|discriminate].
    destruct (cfold e1) as [[x|]|] eqn:E1; destruct (cfold e2) as [[y|]|] eqn:E2; try discriminate.
    destruct (arith_op o x y) as [r|] eqn:Er; [|discriminate]. inversion H; subst.
    cbn [pevr]. rewrite (IHe1 _ look eq_refl), (IHe2 _ look eq_refl). cbn [parith]. rewrite Er. reflexivity.
  - destruct o; try discriminate.
    destruct (cfold e) as [[x|]|] eqn:E1; try discriminate. inversion H; subst.
    cbn [pevr]. rewrite (IHe _ look eq_refl). reflexivity.
  - cbn [pevr]. apply IHe. assumption.
Qed.

Definition wl_ok (ln : Z) (wl : Z * Z) : Prop := 0 <= fst wl < 2 ^ 32 /\ snd wl = ln.

Lemma setr_post : forall rf reg v, 0 <= reg <= len rf ->
  exists rf', setr rf reg v = Some rf' /\ zth rf' reg = Some v /\ len rf <= len rf' /\
              (forall i, i <> reg -> zth rf' i = zth rf i).
Proof.
  intros rf reg v H. unfold setr. replace ((0 <=? reg) && (reg <=? len rf)) with true by lia.
  eexists. split; [reflexivity|].
  assert (E : setr rf reg v = Some (firstn (Z.to_nat reg) rf ++ v :: skipn (Z.to_nat (reg + 1)) rf))
    by (unfold setr; replace ((0 <=? reg) && (reg <=? len rf)) with true by lia; reflexivity).
  split; [rewrite (setr_zth _ _ _ _ reg E), Z.eqb_refl; reflexivity|].
  split; [rewrite (setr_len _ _ _ _ E); lia|].
  intros i Hi. rewrite (setr_zth _ _ _ _ i E). replace (i =? reg) with false by lia. reflexivity.
Qed.

Lemma rk_bits : forall ci, 0 <= ci <= 255 -> opIsK (opRkAsk ci) = true /\ opIndexK (opRkAsk ci) = ci /\ 0 <= opRkAsk ci < 512.
Proof.
  intros ci H.
  assert (A : forallb (fun n => let c := Z.of_nat n in
             opIsK (opRkAsk c) && (opIndexK (opRkAsk c) =? c) && (0 <=? opRkAsk c) && (opRkAsk c <? 512)) (seq 0 256) = true)
    by (vm_compute; reflexivity).
  rewrite forallb_forall in A. specialize (A (Z.to_nat ci)).
  rewrite Z2Nat.id in A by lia. cbv zeta in A.
  assert (Hin : In (Z.to_nat ci) (seq 0 256)) by (apply in_seq; lia).
  specialize (A Hin). lia.
Qed.

Lemma small_not_K : forall x, 0 <= x < 256 -> opIsK x = false.
Proof.
  intros x H.
  assert (A : forallb (fun n => negb (opIsK (Z.of_nat n))) (seq 0 256) = true) by (vm_compute; reflexivity).
  rewrite forallb_forall in A. specialize (A (Z.to_nat x) ltac:(apply in_seq; lia)).
  rewrite Z2Nat.id in A by lia. destruct (opIsK x); [discriminate|reflexivity].
Qed.

Lemma vlook_ext : forall locals rf rf' reg, len locals <= reg ->
  (forall i, 0 <= i < reg -> zth rf' i = zth rf i) -> forall x, vlook locals rf' x = vlook locals rf x.
Proof.
  intros locals rf rf' reg Hl H x. unfold vlook.
  pose proof (find_last_range locals x 0 (-1) ltac:(lia)) as Hr.
  destruct (find_last locals x 0 (-1) >? -1) eqn:E; [|reflexivity]. apply H. lia.
Qed.

Lemma pevr_ext : forall l1 l2 e, (forall x, l1 x = l2 x) -> pevr l1 e = pevr l2 e.
Proof.
  intros l1 l2 e H. induction e; cbn [pevr]; try reflexivity.
  - rewrite H. reflexivity.
  - rewrite IHe1, IHe2. reflexivity.
  - destruct o; try reflexivity; rewrite IHe; reflexivity.
  - assumption.
Qed.

Lemma pevr_strip : forall look e, pevr look e = pevr look (strip_paren e).
Proof. intros look e. induction e; cbn [pevr strip_paren]; try reflexivity. assumption. Qed.

Inductive shape (s' : cstate) (locals : list name) (reg ln : Z) (e : expr) (seg : list (Z * Z)) : Prop :=
| ShConst ci f :
    seg = [(opCreateABx (op_code OP_LOADK) reg ci, ln)] -> 0 <= ci < 262144 ->
    zth (cs_consts s') ci = Some (VNum f) -> (forall look, pevr look e = PV (VNum f)) -> shape s' locals reg ln e seg
| ShVar b :
    seg = [(opCreateABC (op_code OP_MOVE) reg b 0, ln)] -> 0 <= b < len locals ->
    (forall rf, pevr (vlook locals rf) e = match zth rf b with Some v => PV v | None => PUnsup end) ->
    shape s' locals reg ln e seg
| ShOther w seg0 :
    seg = (w, ln) :: seg0 -> is_opc w OP_LOADK = false -> is_opc w OP_MOVE = false -> shape s' locals reg ln e seg.

Definition sem_val (K : list value) (locals : list name) (reg : Z) (e : expr) (seg : list (Z * Z)) : Prop :=
  forall rf v, reg <= len rf -> pevr (vlook locals rf) e = PV v ->
  exists rf', isem_okseq K (rev seg) rf = Some rf' /\ zth rf' reg = Some v /\ len rf <= len rf' /\
              (forall i, 0 <= i < reg -> zth rf' i = zth rf i).

(* the conclusion about one compiled expression *)
Definition expr_ok (s s' : cstate) (locals : list name) (ln reg : Z) (e : expr) : Prop :=
  cs_locals s' = locals /\ cs_regtop s' = len locals /\ len (cs_consts s') <= 262144 /\
  prefix_of (cs_consts s) (cs_consts s') /\
  exists seg, cs_code s' = seg ++ cs_code s /\ Forall (wl_ok ln) seg /\ shape s' locals reg ln e seg /\
              forall K, prefix_of (cs_consts s') K -> sem_val K locals reg e seg.

(* what an operand (compileExpr followed by a propagation) leaves *)
Definition operand_ok (s s2 : cstate) (locals : list name) (ln reg : Z) (e : expr) (save reg' : Z) : Prop :=
  cs_locals s2 = locals /\ cs_regtop s2 = len locals /\ len (cs_consts s2) <= 262144 /\
  prefix_of (cs_consts s) (cs_consts s2) /\ 0 <= save < 512 /\ reg <= reg' <= reg + 1 /\
  exists seg', cs_code s2 = seg' ++ cs_code s /\ Forall (wl_ok ln) seg' /\
    forall K, prefix_of (cs_consts s2) K -> forall rf v, reg <= len rf -> pevr (vlook locals rf) e = PV v ->
      exists rf', isem_okseq K (rev seg') rf = Some rf' /\ rkval K rf' save = Some v /\ len rf <= len rf' /\
                  reg' <= len rf' /\ (forall i, 0 <= i < reg -> zth rf' i = zth rf i) /\
                  (opIsK save = true \/ save < reg').

Lemma is_opc_createABx : forall o o' a bx, 0 <= a < 256 -> 0 <= bx < 262144 ->
  is_opc (opCreateABx (op_code o) a bx) o' = (op_code o =? op_code o').
Proof.
  intros o o' a bx Ha Hb. unfold is_opc.
  destruct (VM.OpcodeFacts.createABx_get (op_code o) a bx (op_code_range o) Ha Hb) as [E0 _]. rewrite E0. reflexivity.
Qed.

Lemma is_opc_createABC : forall o o' a b c, 0 <= a < 256 -> 0 <= b < 512 -> 0 <= c < 512 ->
  is_opc (opCreateABC (op_code o) a b c) o' = (op_code o =? op_code o').
Proof.
  intros o o' a b c Ha Hb Hc. unfold is_opc.
  destruct (VM.OpcodeFacts.createABC_get (op_code o) a b c (op_code_range o) Ha Hb Hc) as [E0 _]. rewrite E0. reflexivity.
Qed.

Lemma default_operand : forall s s1 locals ln reg e,
  expr_ok s s1 locals ln reg e -> 0 <= reg < 256 ->
  operand_ok s s1 locals ln reg e reg (reg + 1).
Proof.
  intros s s1 locals ln reg e [H1 [H2 [H3 [H4 [seg [Hc [Hw [Hsh Hsem]]]]]]]] Hr.
  unfold operand_ok. repeat (split; [reflexivity || assumption || lia|]).
  exists seg. split; [assumption|]. split; [assumption|].
  intros K HK rf v Hlen Hp. destruct (Hsem K HK rf v Hlen Hp) as [rf' [E1 [E2 [E3 E4]]]].
  exists rf'. split; [assumption|]. pose proof (zth_range _ _ _ _ E2).
  split; [unfold rkval; rewrite small_not_K by lia; assumption|].
  split; [assumption|]. split; [lia|]. split; [assumption|]. right. lia.
Qed.

Lemma kmv_ok : forall s s1 locals ln reg e save reg' s2,
  expr_ok s s1 locals ln reg e -> len locals <= reg -> 0 <= reg < 256 -> len locals <= 256 ->
  propagateKMV reg 1 s1 = Some ((save, reg'), s2) ->
  operand_ok s s2 locals ln reg e save reg'.
Proof.
  intros s s1 locals ln reg e save reg' s2 Hok Hl Hr Hloc Hp.
  pose proof (default_operand _ _ _ _ _ _ Hok Hr) as Hdef.
  destruct Hok as [H1 [H2 [H3 [H4 [seg [Hc [Hw [Hsh Hsem]]]]]]]].
  unfold propagateKMV in Hp. rewrite Hc in Hp.
  destruct Hsh as [ci f Hseg Hci Hz Hpv | b Hseg Hb Hpv | w seg0 Hseg Hn1 Hn2]; subst seg; cbn [app] in Hp.
  - (* a constant *)
    destruct (decodeABx OP_LOADK reg ci Hr Hci) as [_ [EA EB]].
    rewrite EA, EB in Hp. rewrite H2 in Hp. replace (reg >=? len locals) with true in Hp by lia.
    rewrite (is_opc_createABx OP_LOADK OP_LOADK reg ci Hr Hci) in Hp. rewrite Z.eqb_refl in Hp.
    destruct (ci <=? opMaxIndexRk) eqn:Eci.
    + inversion Hp; subst. unfold opMaxIndexRk in Eci.
      destruct (rk_bits ci ltac:(lia)) as [B1 [B2 B3]].
      unfold operand_ok. cbn [pop_code cs_locals cs_regtop cs_consts cs_code].
      repeat (split; [reflexivity || assumption || lia|]).
      exists []. split; [rewrite Hc; reflexivity|]. split; [constructor|].
      intros K HK rf v Hlen Hp'. exists rf. rewrite Hpv in Hp'. inversion Hp'; subst v.
      split; [reflexivity|]. split; [unfold rkval; rewrite B1, B2; eapply prefix_zth; eassumption|].
      split; [lia|]. split; [lia|]. split; [auto|]. left. assumption.
    + inversion Hp; subst. exact Hdef.
  - (* a local variable *)
    assert (Hb' : 0 <= b < 512) by lia.
    destruct (decodeABC OP_MOVE reg b 0 Hr Hb' ltac:(lia)) as [_ [EA [EB _]]].
    rewrite EA, EB in Hp. rewrite H2 in Hp. replace (reg >=? len locals) with true in Hp by lia.
    rewrite (is_opc_createABC OP_MOVE OP_LOADK reg b 0 Hr Hb' ltac:(lia)) in Hp.
    rewrite (is_opc_createABC OP_MOVE OP_MOVE reg b 0 Hr Hb' ltac:(lia)) in Hp.
    cbn [op_code Z.eqb] in Hp. inversion Hp; subst.
    unfold operand_ok. cbn [pop_code cs_locals cs_regtop cs_consts cs_code].
    repeat (split; [reflexivity || assumption || lia|]).
    exists []. split; [rewrite Hc; reflexivity|]. split; [constructor|].
    intros K HK rf v Hlen Hp'. exists rf. rewrite Hpv in Hp'.
    destruct (zth rf save) as [v0|] eqn:Ez; [|discriminate]. inversion Hp'; subst v0.
    split; [reflexivity|]. split; [unfold rkval; rewrite small_not_K by lia; assumption|].
    split; [lia|]. split; [lia|]. split; [auto|]. right. lia.
  - (* anything else *)
    rewrite Hn1, Hn2 in Hp.
    destruct (opGetArgA w >=? cs_regtop s1); inversion Hp; subst; exact Hdef.
Qed.

Lemma mv_ok : forall s s1 locals ln reg e save reg' s2,
  expr_ok s s1 locals ln reg e -> len locals <= reg -> 0 <= reg < 256 -> len locals <= 256 ->
  propagateMV reg 1 s1 = Some ((save, reg'), s2) ->
  operand_ok s s2 locals ln reg e save reg'.
Proof.
  intros s s1 locals ln reg e save reg' s2 Hok Hl Hr Hloc Hp.
  pose proof (default_operand _ _ _ _ _ _ Hok Hr) as Hdef.
  destruct Hok as [H1 [H2 [H3 [H4 [seg [Hc [Hw [Hsh Hsem]]]]]]]].
  unfold propagateMV in Hp. rewrite Hc in Hp.
  destruct Hsh as [ci f Hseg Hci Hz Hpv | b Hseg Hb Hpv | w seg0 Hseg Hn1 Hn2]; subst seg; cbn [app] in Hp.
  - rewrite (is_opc_createABx OP_LOADK OP_MOVE reg ci Hr Hci) in Hp. cbn [op_code Z.eqb] in Hp.
    rewrite andb_false_r in Hp. inversion Hp; subst. exact Hdef.
  - assert (Hb' : 0 <= b < 512) by lia.
    destruct (decodeABC OP_MOVE reg b 0 Hr Hb' ltac:(lia)) as [_ [EA [EB _]]].
    rewrite EA, EB in Hp. rewrite H2 in Hp. replace (reg >=? len locals) with true in Hp by lia.
    rewrite (is_opc_createABC OP_MOVE OP_MOVE reg b 0 Hr Hb' ltac:(lia)) in Hp.
    cbn [op_code Z.eqb andb] in Hp. inversion Hp; subst.
    unfold operand_ok. cbn [pop_code cs_locals cs_regtop cs_consts cs_code].
    repeat (split; [reflexivity || assumption || lia|]).
    exists []. split; [rewrite Hc; reflexivity|]. split; [constructor|].
    intros K HK rf v Hlen Hp'. exists rf. rewrite Hpv in Hp'.
    destruct (zth rf save) as [v0|] eqn:Ez; [|discriminate]. inversion Hp'; subst v0.
    split; [reflexivity|]. split; [unfold rkval; rewrite small_not_K by lia; assumption|].
    split; [lia|]. split; [lia|]. split; [auto|]. right. lia.
  - rewrite Hn2 in Hp. rewrite andb_false_r in Hp. inversion Hp; subst. exact Hdef.
Qed.

Lemma existsb_find_last : forall l x, existsb (beqb x) l = true -> find_last l x 0 (-1) > -1.
Proof.
  assert (G : forall l x i acc, -1 <= acc -> (acc > -1 \/ existsb (beqb x) l = true) -> 0 <= i -> find_last l x i acc > -1).
  { induction l as [|y l IH]; intros x i acc Ha H Hi; cbn [find_last existsb] in *.
    - destruct H; [lia|discriminate].
    - apply IH; try lia.
      + destruct (beqb y x); lia.
      + destruct (beqb y x) eqn:E; [left; lia|].
        destruct H as [H|H]; [left; assumption|].
        apply orb_true_iff in H. destruct H as [H|H]; [|right; assumption].
        apply beqb_eq in H. subst. exfalso.
        assert (beqb y y = true) by (clear; induction y; simpl; [reflexivity|rewrite Z.eqb_refl; assumption]).
        congruence. }
  intros l x H. apply (G l x 0 (-1)); [lia | right; assumption | lia].
Qed.

(* one instruction that writes the value of e into reg *)
Lemma leaf_ok : forall s locals ln reg e w,
  cs_locals s = locals -> cs_regtop s = len locals -> len (cs_consts s) <= 262144 ->
  0 <= w < 2 ^ 32 -> 0 <= reg ->
  shape (mkCS ((w, ln) :: cs_code s) (cs_consts s) (cs_locals s) (cs_regtop s)) locals reg ln e [(w, ln)] ->
  (forall K, prefix_of (cs_consts s) K -> forall rf v, reg <= len rf -> pevr (vlook locals rf) e = PV v ->
     isem_inst K w rf = okres (setr rf reg v)) ->
  expr_ok s (mkCS ((w, ln) :: cs_code s) (cs_consts s) (cs_locals s) (cs_regtop s)) locals ln reg e.
Proof.
  intros s locals ln reg e w H1 H2 H3 Hw Hr Hsh Hsem.
  unfold expr_ok. cbn [cs_locals cs_regtop cs_consts cs_code].
  split; [assumption|]. split; [assumption|]. split; [assumption|]. split; [apply prefix_refl|].
  exists [(w, ln)]. split; [reflexivity|]. split; [constructor; [split; [assumption|reflexivity]|constructor]|].
  split; [assumption|].
  intros K HK rf v Hlen Hp. cbn [rev app isem_okseq]. rewrite (Hsem K HK rf v Hlen Hp).
  destruct (setr_post rf reg v ltac:(lia)) as [rf' [E1 [E2 [E3 E4]]]]. rewrite E1. cbn [okres].
  exists rf'. split; [reflexivity|]. split; [assumption|]. split; [assumption|]. intros i Hi. apply E4. lia.
Qed.

Lemma is_opc_rawABC : forall opn o' a b c, 0 <= opn < 64 -> 0 <= a < 256 -> 0 <= b < 512 -> 0 <= c < 512 ->
  is_opc (opCreateABC opn a b c) o' = (opn =? op_code o').
Proof.
  intros opn o' a b c Ho Ha Hb Hc. unfold is_opc.
  destruct (VM.OpcodeFacts.createABC_get opn a b c Ho Ha Hb Hc) as [E0 _]. rewrite E0. reflexivity.
Qed.

Lemma loadk_ok : forall s locals ln reg e f ci s1,
  cs_locals s = locals -> cs_regtop s = len locals -> len (cs_consts s) <= 262144 -> 0 <= reg < 256 ->
  constIndex (VNum f) s = Some (ci, s1) -> (forall look, pevr look e = PV (VNum f)) ->
  expr_ok s (mkCS ((opCreateABx (op_code OP_LOADK) reg ci, ln) :: cs_code s1) (cs_consts s1) (cs_locals s1) (cs_regtop s1))
          locals ln reg e.
Proof.
  intros s locals ln reg e f ci s1 H1 H2 H3 Hr Hc Hp.
  destruct (constIndex_spec _ _ _ _ H3 Hc) as [K1 [K2 [K3 [K4 [K5 [K6 K7]]]]]].
  assert (Hok : expr_ok s1 (mkCS ((opCreateABx (op_code OP_LOADK) reg ci, ln) :: cs_code s1) (cs_consts s1) (cs_locals s1) (cs_regtop s1)) locals ln reg e).
  { apply leaf_ok; try congruence; try lia.
    - apply VM.OpcodeFacts.createABx_range.
    - eapply ShConst; try reflexivity; eassumption.
    - intros K HK rf v Hlen Hv. rewrite Hp in Hv. inversion Hv; subst v.
      apply isem_loadk; try lia. eapply prefix_zth; eassumption. }
  destruct Hok as [A1 [A2 [A3 [A4 [seg [A5 [A6 [A7 A8]]]]]]]].
  unfold expr_ok. split; [assumption|]. split; [assumption|]. split; [assumption|]. split; [exact K4|].
  exists seg. rewrite <- K5. auto.
Qed.

(* the leaves of the fragment's expressions: literals, local variables, parentheses *)
Fixpoint expr_leaf (locals : list name) (e : expr) : bool :=
  match e with
  | ENil | ETrue | EFalse | ENum _ => true
  | EVar x => existsb (beqb x) locals
  | EParen a => expr_leaf locals a
  | _ => false
  end.

Lemma compileExpr_leaf_ok : forall e locals ln reg ec s inc s',
  expr_leaf locals e = true -> cs_locals s = locals -> cs_regtop s = len locals ->
  len locals <= reg -> 0 <= reg -> reg + edepth e < 256 -> len locals <= 256 ->
  savereg ec reg = reg -> len (cs_consts s) <= 262144 ->
  compileExpr ln reg e ec s = Some (inc, s') ->
  inc = 1 /\ expr_ok s s' locals ln reg e.
Proof.
  induction e as [| | |f|sb| |x|ea IHa ek IHk|fe args|ob m args|ps va body l1 l2|o e1 IH1 e2 IH2|o e1 IH1|e1 IH1 e2 IH2|e1 IH1 e2 IH2|e1 IH1|items];
    intros locals ln reg ec s inc s' Hf H1 H2 Hl Hr0 Hd Hloc Hsv Hk Hc;
    cbn [expr_leaf] in Hf; try discriminate; cbn [compileExpr] in Hc; rewrite ?Hsv in Hc;
    replace (reg <? reg) with false in Hc by lia; cbn [edepth] in Hd.
  - (* ENil *)
    unfold cbind, addABC, add, cret in Hc. inversion Hc; subst inc s'. split; [reflexivity|].
    apply leaf_ok; try assumption; try lia.
    + apply VM.OpcodeFacts.createABC_range.
    + eapply ShOther; [reflexivity| |]; rewrite is_opc_rawABC by lia; reflexivity.
    + intros K HK rf v Hlen Hv. cbn [pevr] in Hv. inversion Hv; subst v. apply isem_loadnil1. lia.
  - (* ETrue *)
    unfold cbind, addABC, add, cret in Hc. inversion Hc; subst inc s'. split; [reflexivity|].
    apply leaf_ok; try assumption; try lia.
    + apply VM.OpcodeFacts.createABC_range.
    + eapply ShOther; [reflexivity| |]; rewrite is_opc_rawABC by lia; reflexivity.
    + intros K HK rf v Hlen Hv. cbn [pevr] in Hv. inversion Hv; subst v.
      rewrite isem_loadbool by lia. reflexivity.
  - (* EFalse *)
    unfold cbind, addABC, add, cret in Hc. inversion Hc; subst inc s'. split; [reflexivity|].
    apply leaf_ok; try assumption; try lia.
    + apply VM.OpcodeFacts.createABC_range.
    + eapply ShOther; [reflexivity| |]; rewrite is_opc_rawABC by lia; reflexivity.
    + intros K HK rf v Hlen Hv. cbn [pevr] in Hv. inversion Hv; subst v.
      rewrite isem_loadbool by lia. reflexivity.
  - (* ENum *)
    unfold cbind at 1 in Hc. destruct (constIndex (VNum f) s) as [[ci s1]|] eqn:Eci; [|discriminate].
    unfold cbind, addABx, add, cret in Hc. inversion Hc; subst inc s'. split; [reflexivity|].
    eapply loadk_ok; try eassumption; try lia. intro look. reflexivity.
  - (* EVar *)
    unfold FindLocalVar in Hc. rewrite H1 in Hc.
    pose proof (existsb_find_last _ _ Hf) as Hb.
    pose proof (find_last_range locals x 0 (-1) ltac:(lia)) as Hbr.
    replace (find_last locals x 0 (-1) >? -1) with true in Hc by lia.
    unfold cbind, addABC, add, cret in Hc. inversion Hc; subst inc s'. split; [reflexivity|].
    apply leaf_ok; try assumption; try lia.
    + apply VM.OpcodeFacts.createABC_range.
    + eapply ShVar with (b := find_last locals x 0 (-1)); [reflexivity|lia|].
      intro rf. cbn [pevr]. unfold vlook. replace (find_last locals x 0 (-1) >? -1) with true by lia.
      destruct (zth rf (find_last locals x 0 (-1))); reflexivity.
    + intros K HK rf v Hlen Hv. cbn [pevr] in Hv. unfold vlook in Hv.
      replace (find_last locals x 0 (-1) >? -1) with true in Hv by lia.
      destruct (zth rf (find_last locals x 0 (-1))) as [v0|] eqn:Ez; [|discriminate]. inversion Hv; subst v0.
      apply isem_move; try lia. assumption.
  - (* EParen *)
    destruct (IH1 locals ln reg ec s inc s' Hf H1 H2 Hl Hr0 Hd Hloc Hsv Hk Hc) as [Hi Hok].
    split; [assumption|].
    destruct Hok as [A1 [A2 [A3 [A4 [seg [A5 [A6 [A7 A8]]]]]]]].
    unfold expr_ok. repeat (split; [assumption|]). exists seg. split; [assumption|]. split; [assumption|]. split.
    + destruct A7 as [ci g B1 B2 B3 B4|b B1 B2 B3|w seg0 B1 B2 B3].
      * eapply ShConst; try eassumption.
      * eapply ShVar; try eassumption.
      * eapply ShOther; eassumption.
    + intros K HK. exact (A8 K HK).
Qed.
