(* CC: facts about the transcription of compile.go (CompModel.v): the emitted words under isem,
   the constant table, the compilation of expressions (compileExpr_ok: value / fault / Unsup as
   pev says), the operand peepholes (kmv_ok, mv_ok), statements (local_ok, assign_ok, return_ok),
   chunks (chunk_ok) and the front half of frag_compile_correct (front_half_lemma, whose statement
   is CC/FragGlue.front_half). *)
From Coq Require Import Floats Lia ZifyBool SpecFloat.
From Coq Require FloatAxioms.
From GL Require Import Common.Bytes Lua.Syntax Lua.Num Lua.Values Lua.Names Lua.Eval.
From GL Require Import VMX.Machine CC.CompModel CC.FragSem CC.CompFactsVM.
From GL Require VM.OpcodeFacts.
(* ---------- the emitted words under isem ---------- *)
Lemma op_code_range : forall o, 0 <= op_code o < 64.
Proof. destruct o; cbn; lia. Qed.

Lemma op_of_code_op_code : forall o, op_of_code (op_code o) = Some o.
Proof. destruct o; reflexivity. Qed.

Lemma decodeABC : forall o a b c, 0 <= a < 256 -> 0 <= b < 512 -> 0 <= c < 512 ->
  let w := opCreateABC (op_code o) a b c in
  op_of_code (opGetOpCode w) = Some o /\ opGetArgA w = a /\ opGetArgB w = b /\ opGetArgC w = c.
Proof.
  intros o a b c Ha Hb Hc w.
  destruct (VM.OpcodeFacts.createABC_get (op_code o) a b c (op_code_range o) Ha Hb Hc) as [E0 [E1 [E2 E3]]].
  fold w in E0, E1, E2, E3. rewrite E0. split; [apply op_of_code_op_code|]. auto.
Qed.

Lemma decodeABx : forall o a bx, 0 <= a < 256 -> 0 <= bx < 262144 ->
  let w := opCreateABx (op_code o) a bx in
  op_of_code (opGetOpCode w) = Some o /\ opGetArgA w = a /\ opGetArgBx w = bx.
Proof.
  intros o a bx Ha Hb w.
  destruct (VM.OpcodeFacts.createABx_get (op_code o) a bx (op_code_range o) Ha Hb) as [E0 [E1 E2]].
  fold w in E0, E1, E2. rewrite E0. split; [apply op_of_code_op_code|]. auto.
Qed.

Definition okres (o : option rfile) : ires := match o with Some rf' => IOk rf' | None => IStuck end.

Lemma isem_loadk : forall K a bx rf v, 0 <= a < 256 -> 0 <= bx < 262144 -> zth K bx = Some v ->
  isem_inst K (opCreateABx (op_code OP_LOADK) a bx) rf = okres (setr rf a v).
Proof.
  intros K a bx rf v Ha Hb Hz. destruct (decodeABx OP_LOADK a bx Ha Hb) as [E0 [E1 E2]].
  unfold isem_inst. rewrite E0, E1, E2, Hz. reflexivity.
Qed.

Lemma isem_move : forall K a b rf v, 0 <= a < 256 -> 0 <= b < 512 -> zth rf b = Some v ->
  isem_inst K (opCreateABC (op_code OP_MOVE) a b 0) rf = okres (setr rf a v).
Proof.
  intros K a b rf v Ha Hb Hz. destruct (decodeABC OP_MOVE a b 0 Ha Hb ltac:(lia)) as [E0 [E1 [E2 E3]]].
  unfold isem_inst. rewrite E0, E1, E2, Hz. reflexivity.
Qed.

Lemma isem_loadbool : forall K a b rf, 0 <= a < 256 -> 0 <= b < 512 ->
  isem_inst K (opCreateABC (op_code OP_LOADBOOL) a b 0) rf = okres (setr rf a (VBool (negb (b =? 0)))).
Proof.
  intros K a b rf Ha Hb. destruct (decodeABC OP_LOADBOOL a b 0 Ha Hb ltac:(lia)) as [E0 [E1 [E2 E3]]].
  unfold isem_inst. rewrite E0, E1, E2, E3. reflexivity.
Qed.

Lemma isem_loadnil1 : forall K a rf, 0 <= a < 256 ->
  isem_inst K (opCreateABC (op_code OP_LOADNIL) a a 0) rf = okres (setr rf a VNil).
Proof.
  intros K a rf Ha. destruct (decodeABC OP_LOADNIL a a 0 Ha ltac:(lia) ltac:(lia)) as [E0 [E1 [E2 E3]]].
  unfold isem_inst. rewrite E0, E1, E2. replace (a - a + 1) with 1 by lia.
  change (Z.to_nat 1) with 1%nat. cbn [setr_range]. destruct (setr rf a VNil); reflexivity.
Qed.

Definition arith_res (K : list value) (rf : rfile) (o : binop) (a b c : Z) : ires :=
  match rkval K rf b, rkval K rf c with
  | Some (VNum x), Some (VNum y) =>
      match arith_op o x y with Some r => okres (setr rf a (VNum r)) | None => IUnsup end
  | Some x, Some y => if is_simple x && is_simple y then IFault else IStuck
  | _, _ => IStuck
  end.

Lemma isem_arith : forall K o a b c rf, is_arith_op o = true -> 0 <= a < 256 -> 0 <= b < 512 -> 0 <= c < 512 ->
  isem_inst K (opCreateABC (op_code (arith_opcode o)) a b c) rf = arith_res K rf o a b c.
Proof.
  intros K o a b c rf Ho Ha Hb Hc.
  destruct (decodeABC (arith_opcode o) a b c Ha Hb Hc) as [E0 [E1 [E2 E3]]].
  unfold isem_inst. rewrite E0, E1, E2, E3. unfold arith_res.
  destruct o; try discriminate; reflexivity.
Qed.

Lemma isem_unm : forall K a b rf, 0 <= a < 256 -> 0 <= b < 512 ->
  isem_inst K (opCreateABC (op_code OP_UNM) a b 0) rf =
  match rkval K rf b with
  | Some (VNum x) => okres (setr rf a (VNum (- x)%float))
  | Some x => if is_simple x then IFault else IStuck
  | None => IStuck
  end.
Proof.
  intros K a b rf Ha Hb. destruct (decodeABC OP_UNM a b 0 Ha Hb ltac:(lia)) as [E0 [E1 [E2 E3]]].
  unfold isem_inst. rewrite E0, E1, E2. reflexivity.
Qed.

Lemma isem_not : forall K a b rf v, 0 <= a < 256 -> 0 <= b < 512 -> zth rf b = Some v ->
  isem_inst K (opCreateABC (op_code OP_NOT) a b 0) rf = okres (setr rf a (VBool (negb (truthy v)))).
Proof.
  intros K a b rf v Ha Hb Hz. destruct (decodeABC OP_NOT a b 0 Ha Hb ltac:(lia)) as [E0 [E1 [E2 E3]]].
  unfold isem_inst. rewrite E0, E1, E2, Hz. reflexivity.
Qed.

(* ---------- constants ---------- *)
Lemma float_eq_of_same : forall x y, PrimFloat.eqb x y = true -> signbit x = signbit y -> x = y.
Proof.
  intros x y He Hs. rewrite FloatAxioms.eqb_spec in He. unfold signbit in Hs.
  assert (E : Prim2SF x = Prim2SF y).
  { destruct (Prim2SF x) as [s1|s1| |s1 m1 e1]; destruct (Prim2SF y) as [s2|s2| |s2 m2 e2];
      cbn in He; try discriminate; try (subst; reflexivity).
    all: try (destruct s1, s2; discriminate).
    - subst s2. destruct s1.
      + destruct (Z.compare_spec e1 e2); cbn in He; try discriminate.
        * subst. change (Pos.compare_cont Eq m1 m2) with (Pos.compare m1 m2) in He.
          destruct (Pos.compare_spec m1 m2); cbn in He; try discriminate. subst. reflexivity.
      + destruct (Z.compare_spec e1 e2); cbn in He; try discriminate.
        * subst. change (Pos.compare_cont Eq m1 m2) with (Pos.compare m1 m2) in He.
          destruct (Pos.compare_spec m1 m2); cbn in He; try discriminate. subst. reflexivity. }
  rewrite <- (FloatAxioms.SF2Prim_Prim2SF x), <- (FloatAxioms.SF2Prim_Prim2SF y). rewrite E. reflexivity.
Qed.

Lemma beqb_eq : forall a b, beqb a b = true -> a = b.
Proof.
  induction a; destruct b; simpl; intro H; try discriminate; [reflexivity|].
  apply andb_true_iff in H. destruct H as [H1 H2]. f_equal; [lia|auto].
Qed.

Lemma const_same_eq : forall lv v, const_same lv v = true -> lv = v.
Proof.
  intros lv v H. destruct lv; destruct v; try discriminate; cbn in H.
  - apply andb_true_iff in H. destruct H as [H1 H2]. f_equal. apply float_eq_of_same; [assumption|].
    destruct (signbit f), (signbit f0); try discriminate; reflexivity.
  - f_equal. apply beqb_eq. assumption.
Qed.

Definition prefix_of (a b : list value) : Prop := exists t, b = a ++ t.

Lemma prefix_refl : forall a, prefix_of a a.
Proof. intro a. exists []. rewrite app_nil_r. reflexivity. Qed.
Lemma prefix_trans : forall a b c, prefix_of a b -> prefix_of b c -> prefix_of a c.
Proof. intros a b c [t1 H1] [t2 H2]. exists (t1 ++ t2). subst. rewrite app_assoc. reflexivity. Qed.
Lemma prefix_zth : forall a b i v, prefix_of a b -> zth a i = Some v -> zth b i = Some v.
Proof.
  intros a b i v [t H] Hz. subst b. pose proof (zth_range _ _ _ _ Hz). rewrite zth_app_l by assumption. assumption.
Qed.

Lemma const_find_spec : forall l v i0 i, const_find l v i0 = Some i ->
  i0 <= i < i0 + len l /\ zth l (i - i0) = Some v.
Proof.
  induction l as [|lv l IH]; intros v i0 i H; cbn [const_find] in H; [discriminate|].
  destruct (const_same lv v) eqn:E.
  - inversion H; subst. apply const_same_eq in E. subst. split; [unfold len; cbn [length]; lia|].
    replace (i - i) with 0 by lia. reflexivity.
  - destruct (IH _ _ _ H) as [H1 H2]. split; [unfold len in *; cbn [length]; lia|].
    replace (i - i0) with (1 + (i - (i0 + 1))) by lia. rewrite zth_cons_succ by lia. assumption.
Qed.

Lemma constIndex_spec : forall v s i s', len (cs_consts s) <= 262144 -> constIndex v s = Some (i, s') ->
  len (cs_consts s') <= 262144 /\ 0 <= i < 262144 /\ zth (cs_consts s') i = Some v /\ prefix_of (cs_consts s) (cs_consts s') /\
  cs_code s' = cs_code s /\ cs_locals s' = cs_locals s /\ cs_regtop s' = cs_regtop s.
Proof.
  intros v s i s' Hk H. unfold constIndex in H.
  destruct (const_find (cs_consts s) v 0) as [j|] eqn:E.
  - inversion H; subst. destruct (const_find_spec _ _ _ _ E) as [H1 H2]. rewrite Z.sub_0_r in H2.
    pose proof (zth_range _ _ _ _ H2).
    split; [assumption|]. split; [lia|]. split; [assumption|]. split; [apply prefix_refl|auto].
  - destruct (len (cs_consts s) >? opMaxArgBx) eqn:E2; [discriminate|]. inversion H; subst. cbn.
    unfold opMaxArgBx in E2. split; [rewrite len_app; unfold len at 2; cbn [length]; lia|].
    split; [pose proof (len_nonneg _ (cs_consts s)); lia|].
    split; [rewrite zth_app_r by lia; replace (len (cs_consts s) - len (cs_consts s)) with 0 by lia; reflexivity|].
    split; [eexists; reflexivity|auto].
Qed.

(* ---------- expressions ---------- *)
(* pev with the variable lookup abstracted *)
Fixpoint pevr (look : name -> option value) (e : expr) : pres :=
  match e with
  | ENil => PV VNil | ETrue => PV (VBool true) | EFalse => PV (VBool false)
  | ENum f => PV (VNum f)
  | EVar x => match look x with Some v => PV v | None => PUnsup end
  | EParen a => pevr look a
  | EBin o a b =>
      match pevr look a with
      | PV x => match pevr look b with PV y => parith o x y | r => r end
      | r => r
      end
  | EUn ONeg a => match pevr look a with PV (VNum f) => PV (VNum (- f)%float) | PV _ => PFault | r => r end
  | EUn ONot a => match pevr look a with PV v => PV (VBool (negb (truthy v))) | r => r end
  | _ => PUnsup
  end.

Lemma pev_pevr : forall rho e, pev rho e = pevr (plookup rho) e.
Proof.
  intros rho e. induction e; cbn [pev pevr]; try reflexivity.
  - rewrite IHe1, IHe2. reflexivity.
  - destruct o; try reflexivity; rewrite IHe; reflexivity.
  - assumption.
Qed.

(* the register of a local: FindLocalVar *)
Definition vlook (locals : list name) (rf : rfile) (x : name) : option value :=
  let b := find_last locals x 0 (-1) in if b >? -1 then zth rf b else None.

Lemma find_last_range : forall l x i acc, -1 <= acc < i -> -1 <= find_last l x i acc < i + len l.
Proof.
  induction l as [|y l IH]; intros x i acc H; cbn [find_last].
  - unfold len. cbn [length]. lia.
  - specialize (IH x (i + 1) (if beqb y x then i else acc)).
    unfold len in *. cbn [length]. destruct (beqb y x); lia.
Qed.

(* constants fold to the value pev computes, whatever the variables hold *)
Lemma cfold_pevr : forall e g look, cfold e = Some (Some g) -> pevr look e = PV (VNum g).
Proof.
  induction e; intros g look H; cbn [cfold] in H; try discriminate.
  - inversion H. reflexivity.
  - destruct (is_arith_op o) eqn:Eo; [|discriminate].
    destruct (cfold e1) as [[x|]|] eqn:E1; destruct (cfold e2) as [[y|]|] eqn:E2; try discriminate.
    destruct (arith_op o x y) as [r|] eqn:Er; [|discriminate]. inversion H; subst.
    cbn [pevr]. rewrite (IHe1 _ look eq_refl), (IHe2 _ look eq_refl). cbn [parith]. rewrite Er. reflexivity.
  - destruct o; try discriminate.
    destruct (cfold e) as [[x|]|] eqn:E1; try discriminate. inversion H; subst.
    cbn [pevr]. rewrite (IHe _ look eq_refl). reflexivity.
  - cbn [pevr]. apply IHe. assumption.
Qed.

Definition wl_ok (ln : Z) (wl : Z * Z) : Prop := 0 <= fst wl < 2 ^ 32 /\ snd wl = ln.

Lemma setr_post : forall rf reg v, 0 <= reg <= len rf ->
  exists rf', setr rf reg v = Some rf' /\ zth rf' reg = Some v /\ len rf <= len rf' /\
              (forall i, i <> reg -> zth rf' i = zth rf i).
Proof.
  intros rf reg v H. unfold setr. replace ((0 <=? reg) && (reg <=? len rf)) with true by lia.
  eexists. split; [reflexivity|].
  assert (E : setr rf reg v = Some (firstn (Z.to_nat reg) rf ++ v :: skipn (Z.to_nat (reg + 1)) rf))
    by (unfold setr; replace ((0 <=? reg) && (reg <=? len rf)) with true by lia; reflexivity).
  split; [rewrite (setr_zth _ _ _ _ reg E), Z.eqb_refl; reflexivity|].
  split; [rewrite (setr_len _ _ _ _ E); lia|].
  intros i Hi. rewrite (setr_zth _ _ _ _ i E). replace (i =? reg) with false by lia. reflexivity.
Qed.

Lemma rk_bits : forall ci, 0 <= ci <= 255 -> opIsK (opRkAsk ci) = true /\ opIndexK (opRkAsk ci) = ci /\ 0 <= opRkAsk ci < 512.
Proof.
  intros ci H.
  assert (A : forallb (fun n => let c := Z.of_nat n in
             opIsK (opRkAsk c) && (opIndexK (opRkAsk c) =? c) && (0 <=? opRkAsk c) && (opRkAsk c <? 512)) (seq 0 256) = true)
    by (vm_compute; reflexivity).
  rewrite forallb_forall in A. specialize (A (Z.to_nat ci)).
  rewrite Z2Nat.id in A by lia. cbv zeta in A.
  assert (Hin : In (Z.to_nat ci) (seq 0 256)) by (apply in_seq; lia).
  specialize (A Hin). lia.
Qed.

Lemma small_not_K : forall x, 0 <= x < 256 -> opIsK x = false.
Proof.
  intros x H.
  assert (A : forallb (fun n => negb (opIsK (Z.of_nat n))) (seq 0 256) = true) by (vm_compute; reflexivity).
  rewrite forallb_forall in A. specialize (A (Z.to_nat x) ltac:(apply in_seq; lia)).
  rewrite Z2Nat.id in A by lia. destruct (opIsK x); [discriminate|reflexivity].
Qed.

Lemma vlook_ext : forall locals rf rf' reg, len locals <= reg ->
  (forall i, 0 <= i < reg -> zth rf' i = zth rf i) -> forall x, vlook locals rf' x = vlook locals rf x.
Proof.
  intros locals rf rf' reg Hl H x. unfold vlook.
  pose proof (find_last_range locals x 0 (-1) ltac:(lia)) as Hr.
  destruct (find_last locals x 0 (-1) >? -1) eqn:E; [|reflexivity]. apply H. lia.
Qed.

Lemma pevr_ext : forall l1 l2 e, (forall x, l1 x = l2 x) -> pevr l1 e = pevr l2 e.
Proof.
  intros l1 l2 e H. induction e; cbn [pevr]; try reflexivity.
  - rewrite H. reflexivity.
  - rewrite IHe1, IHe2. reflexivity.
  - destruct o; try reflexivity; rewrite IHe; reflexivity.
  - assumption.
Qed.

Lemma pevr_strip : forall look e, pevr look e = pevr look (strip_paren e).
Proof. intros look e. induction e; cbn [pevr strip_paren]; try reflexivity. assumption. Qed.

Inductive shape (s' : cstate) (locals : list name) (reg ln : Z) (e : expr) (seg : list (Z * Z)) : Prop :=
| ShConst ci f :
    seg = [(opCreateABx (op_code OP_LOADK) reg ci, ln)] -> 0 <= ci < 262144 ->
    zth (cs_consts s') ci = Some (VNum f) -> (forall look, pevr look e = PV (VNum f)) -> shape s' locals reg ln e seg
| ShVar b :
    seg = [(opCreateABC (op_code OP_MOVE) reg b 0, ln)] -> 0 <= b < len locals ->
    (forall rf, pevr (vlook locals rf) e = match zth rf b with Some v => PV v | None => PUnsup end) ->
    shape s' locals reg ln e seg
| ShOther w seg0 :
    seg = (w, ln) :: seg0 -> is_opc w OP_LOADK = false -> is_opc w OP_MOVE = false -> shape s' locals reg ln e seg.

Definition rf_simple (rf : rfile) : Prop := Forall (fun v => is_simple v = true) rf.
Definition look_simple (look : name -> option value) : Prop := forall x v, look x = Some v -> is_simple v = true.

Lemma pevr_simple : forall look e v, look_simple look -> pevr look e = PV v -> is_simple v = true.
Proof.
  intros look e. induction e; intros v Hl H; cbn [pevr] in H; try discriminate; try (inversion H; reflexivity).
  - destruct (look x) eqn:E; [|discriminate]. inversion H; subst. eapply Hl; eassumption.
  - destruct (pevr look e1) as [x| |]; try discriminate. destruct (pevr look e2) as [y| |]; try discriminate.
    unfold parith in H. destruct x; try discriminate; destruct y; try discriminate.
    destruct (arith_op o f f0); [|discriminate]. inversion H. reflexivity.
  - destruct o; try discriminate.
    + destruct (pevr look e) as [x| |]; try discriminate. destruct x; try discriminate. inversion H. reflexivity.
    + destruct (pevr look e) as [x| |]; try discriminate. inversion H. reflexivity.
  - apply IHe; assumption.
Qed.

Lemma zth_In : forall A (l : list A) i x, zth l i = Some x -> In x l.
Proof. intros A l i x H. unfold zth in H. destruct (i <? 0); [discriminate|]. eapply nth_error_In; eassumption. Qed.

Lemma vlook_simple : forall locals rf, rf_simple rf -> look_simple (vlook locals rf).
Proof.
  intros locals rf H x v Hv. unfold vlook in Hv. destruct (find_last locals x 0 (-1) >? -1); [|discriminate].
  apply zth_In in Hv. unfold rf_simple in H. rewrite Forall_forall in H. auto.
Qed.

Lemma firstn_In_l : forall A (l : list A) n x, In x (firstn n l) -> In x l.
Proof. intros A l. induction l; intros n x H; destruct n; simpl in *; try contradiction. destruct H; [left; assumption|right; eauto]. Qed.
Lemma skipn_In_l : forall A (l : list A) n x, In x (skipn n l) -> In x l.
Proof. intros A l. induction l; intros n x H; destruct n; simpl in *; try contradiction; auto. right. eauto. Qed.

Lemma setr_simple : forall rf i v rf', rf_simple rf -> is_simple v = true -> setr rf i v = Some rf' -> rf_simple rf'.
Proof.
  intros rf i v rf' H Hv Hs. unfold setr in Hs. destruct ((0 <=? i) && (i <=? len rf)); [|discriminate].
  inversion Hs; subst. unfold rf_simple in *. apply Forall_app. split.
  - apply Forall_forall. intros x Hx. rewrite Forall_forall in H. apply H. eapply firstn_In_l; eassumption.
  - constructor; [assumption|]. apply Forall_forall. intros x Hx. rewrite Forall_forall in H. apply H. eapply skipn_In_l; eassumption.
Qed.

Definition val_post (K : list value) (code : list (Z * Z)) (rf : rfile) (reg : Z) (v : value) : Prop :=
  exists rf', isem_okseq K code rf = Some rf' /\ zth rf' reg = Some v /\ len rf <= len rf' /\
              (forall i, 0 <= i < reg -> zth rf' i = zth rf i) /\ rf_simple rf'.

Definition sem_val (K : list value) (locals : list name) (ln reg : Z) (e : expr) (seg : list (Z * Z)) : Prop :=
  forall rf, reg <= len rf -> rf_simple rf ->
  match pevr (vlook locals rf) e with
  | PV v => val_post K (rev seg) rf reg v
  | PFault => forall rest, isem_code K (rev seg ++ rest) rf = CFault ln
  | PUnsup => forall rest, isem_code K (rev seg ++ rest) rf = CUnsup
  end.

(* the conclusion about one compiled expression *)
Definition expr_ok (s s' : cstate) (locals : list name) (ln reg : Z) (e : expr) : Prop :=
  cs_locals s' = locals /\ cs_regtop s' = len locals /\ len (cs_consts s') <= 262144 /\
  prefix_of (cs_consts s) (cs_consts s') /\
  exists seg, cs_code s' = seg ++ cs_code s /\ Forall (wl_ok ln) seg /\ shape s' locals reg ln e seg /\
              forall K, prefix_of (cs_consts s') K -> sem_val K locals ln reg e seg.

(* what an operand (compileExpr followed by a propagation) leaves *)
Definition operand_ok (s s2 : cstate) (locals : list name) (ln reg : Z) (e : expr) (save reg' : Z) : Prop :=
  cs_locals s2 = locals /\ cs_regtop s2 = len locals /\ len (cs_consts s2) <= 262144 /\
  prefix_of (cs_consts s) (cs_consts s2) /\ 0 <= save < 512 /\ reg <= reg' <= reg + 1 /\
  exists seg', cs_code s2 = seg' ++ cs_code s /\ Forall (wl_ok ln) seg' /\
    forall K, prefix_of (cs_consts s2) K -> forall rf, reg <= len rf -> rf_simple rf ->
      match pevr (vlook locals rf) e with
      | PV v =>
          exists rf', isem_okseq K (rev seg') rf = Some rf' /\ rkval K rf' save = Some v /\ len rf <= len rf' /\
                      reg' <= len rf' /\ (forall i, 0 <= i < reg -> zth rf' i = zth rf i) /\ rf_simple rf' /\
                      (opIsK save = true \/ save < reg')
      | PFault => forall rest, isem_code K (rev seg' ++ rest) rf = CFault ln
      | PUnsup => forall rest, isem_code K (rev seg' ++ rest) rf = CUnsup
      end.

Lemma is_opc_createABx : forall o o' a bx, 0 <= a < 256 -> 0 <= bx < 262144 ->
  is_opc (opCreateABx (op_code o) a bx) o' = (op_code o =? op_code o').
Proof.
  intros o o' a bx Ha Hb. unfold is_opc.
  destruct (VM.OpcodeFacts.createABx_get (op_code o) a bx (op_code_range o) Ha Hb) as [E0 _]. rewrite E0. reflexivity.
Qed.

Lemma is_opc_createABC : forall o o' a b c, 0 <= a < 256 -> 0 <= b < 512 -> 0 <= c < 512 ->
  is_opc (opCreateABC (op_code o) a b c) o' = (op_code o =? op_code o').
Proof.
  intros o o' a b c Ha Hb Hc. unfold is_opc.
  destruct (VM.OpcodeFacts.createABC_get (op_code o) a b c (op_code_range o) Ha Hb Hc) as [E0 _]. rewrite E0. reflexivity.
Qed.

Lemma is_opc_rawABC : forall opn o' a b c, 0 <= opn < 64 -> 0 <= a < 256 -> 0 <= b < 512 -> 0 <= c < 512 ->
  is_opc (opCreateABC opn a b c) o' = (opn =? op_code o').
Proof.
  intros opn o' a b c Ho Ha Hb Hc. unfold is_opc.
  destruct (VM.OpcodeFacts.createABC_get opn a b c Ho Ha Hb Hc) as [E0 _]. rewrite E0. reflexivity.
Qed.

Lemma default_operand : forall s s1 locals ln reg e,
  expr_ok s s1 locals ln reg e -> 0 <= reg < 256 ->
  operand_ok s s1 locals ln reg e reg (reg + 1).
Proof.
  intros s s1 locals ln reg e [H1 [H2 [H3 [H4 [seg [Hc [Hw [Hsh Hsem]]]]]]]] Hr.
  unfold operand_ok. repeat (split; [reflexivity || assumption || lia|]).
  exists seg. split; [assumption|]. split; [assumption|].
  intros K HK rf Hlen Hs. specialize (Hsem K HK rf Hlen Hs).
  destruct (pevr (vlook locals rf) e) as [v| |]; [|exact Hsem|exact Hsem].
  destruct Hsem as [rf' [E1 [E2 [E3 [E4 E5]]]]].
  exists rf'. split; [assumption|]. pose proof (zth_range _ _ _ _ E2).
  split; [unfold rkval; rewrite small_not_K by lia; assumption|].
  split; [assumption|]. split; [lia|]. split; [assumption|]. split; [assumption|]. right. lia.
Qed.

Lemma popped_const : forall s s1 locals ln reg e ci f,
  cs_locals s1 = locals -> cs_regtop s1 = len locals -> len (cs_consts s1) <= 262144 ->
  prefix_of (cs_consts s) (cs_consts s1) -> cs_code s1 = [(opCreateABx (op_code OP_LOADK) reg ci, ln)] ++ cs_code s ->
  0 <= ci <= 255 -> zth (cs_consts s1) ci = Some (VNum f) -> (forall look, pevr look e = PV (VNum f)) ->
  operand_ok s (pop_code s1) locals ln reg e (opRkAsk ci) reg.
Proof.
  intros s s1 locals ln reg e ci f H1 H2 H3 H4 Hc Hci Hz Hpv.
  destruct (rk_bits ci Hci) as [B1 [B2 B3]].
  unfold operand_ok. cbn [pop_code cs_locals cs_regtop cs_consts cs_code].
  repeat (split; [reflexivity || assumption || lia|]).
  exists []. split; [rewrite Hc; reflexivity|]. split; [constructor|].
  intros K HK rf Hlen Hs. rewrite Hpv. exists rf.
  split; [reflexivity|]. split; [unfold rkval; rewrite B1, B2; eapply prefix_zth; eassumption|].
  split; [lia|]. split; [lia|]. split; [auto|]. split; [assumption|]. left. assumption.
Qed.

Lemma popped_var : forall s s1 locals ln reg e b,
  cs_locals s1 = locals -> cs_regtop s1 = len locals -> len (cs_consts s1) <= 262144 ->
  prefix_of (cs_consts s) (cs_consts s1) -> cs_code s1 = [(opCreateABC (op_code OP_MOVE) reg b 0, ln)] ++ cs_code s ->
  0 <= b < len locals -> len locals <= reg -> len locals <= 256 ->
  (forall rf, pevr (vlook locals rf) e = match zth rf b with Some v => PV v | None => PUnsup end) ->
  operand_ok s (pop_code s1) locals ln reg e b reg.
Proof.
  intros s s1 locals ln reg e b H1 H2 H3 H4 Hc Hb Hl Hloc Hpv.
  unfold operand_ok. cbn [pop_code cs_locals cs_regtop cs_consts cs_code].
  repeat (split; [reflexivity || assumption || lia|]).
  exists []. split; [rewrite Hc; reflexivity|]. split; [constructor|].
  intros K HK rf Hlen Hs. rewrite Hpv.
  destruct (zth rf b) as [v|] eqn:Ez.
  2:{ exfalso. unfold zth in Ez. destruct (b <? 0) eqn:E0; [lia|]. apply nth_error_None in Ez. unfold len in *. lia. }
  exists rf.
  split; [reflexivity|]. split; [unfold rkval; rewrite small_not_K by lia; assumption|].
  split; [lia|]. split; [lia|]. split; [auto|]. split; [assumption|]. right. lia.
Qed.

Lemma kmv_ok : forall s s1 locals ln reg e save reg' s2,
  expr_ok s s1 locals ln reg e -> len locals <= reg -> 0 <= reg < 256 -> len locals <= 256 ->
  propagateKMV reg 1 s1 = Some ((save, reg'), s2) ->
  operand_ok s s2 locals ln reg e save reg'.
Proof.
  intros s s1 locals ln reg e save reg' s2 Hok Hl Hr Hloc Hp.
  pose proof (default_operand _ _ _ _ _ _ Hok Hr) as Hdef.
  destruct Hok as [H1 [H2 [H3 [H4 [seg [Hc [Hw [Hsh Hsem]]]]]]]].
  unfold propagateKMV in Hp. rewrite Hc in Hp.
  destruct Hsh as [ci f Hseg Hci Hz Hpv | b Hseg Hb Hpv | w seg0 Hseg Hn1 Hn2]; subst seg; cbn [app] in Hp.
  - destruct (decodeABx OP_LOADK reg ci Hr Hci) as [_ [EA EB]].
    rewrite EA, EB in Hp. rewrite H2 in Hp. replace (reg >=? len locals) with true in Hp by lia.
    rewrite (is_opc_createABx OP_LOADK OP_LOADK reg ci Hr Hci) in Hp. rewrite Z.eqb_refl in Hp.
    destruct (ci <=? opMaxIndexRk) eqn:Eci.
    + inversion Hp; subst save reg' s2. unfold opMaxIndexRk in Eci.
      eapply popped_const; try eassumption. lia.
    + inversion Hp; subst. exact Hdef.
  - assert (Hb' : 0 <= b < 512) by lia.
    destruct (decodeABC OP_MOVE reg b 0 Hr Hb' ltac:(lia)) as [_ [EA [EB _]]].
    rewrite EA, EB in Hp. rewrite H2 in Hp. replace (reg >=? len locals) with true in Hp by lia.
    rewrite (is_opc_createABC OP_MOVE OP_LOADK reg b 0 Hr Hb' ltac:(lia)) in Hp.
    rewrite (is_opc_createABC OP_MOVE OP_MOVE reg b 0 Hr Hb' ltac:(lia)) in Hp.
    cbn [op_code Z.eqb] in Hp. inversion Hp; subst save reg' s2.
    eapply popped_var; eassumption.
  - rewrite Hn1, Hn2 in Hp.
    destruct (opGetArgA w >=? cs_regtop s1); inversion Hp; subst; exact Hdef.
Qed.

Lemma mv_ok : forall s s1 locals ln reg e save reg' s2,
  expr_ok s s1 locals ln reg e -> len locals <= reg -> 0 <= reg < 256 -> len locals <= 256 ->
  propagateMV reg 1 s1 = Some ((save, reg'), s2) ->
  operand_ok s s2 locals ln reg e save reg' /\ 0 <= save < 256.
Proof.
  intros s s1 locals ln reg e save reg' s2 Hok Hl Hr Hloc Hp.
  pose proof (default_operand _ _ _ _ _ _ Hok Hr) as Hdef.
  destruct Hok as [H1 [H2 [H3 [H4 [seg [Hc [Hw [Hsh Hsem]]]]]]]].
  unfold propagateMV in Hp. rewrite Hc in Hp.
  destruct Hsh as [ci f Hseg Hci Hz Hpv | b Hseg Hb Hpv | w seg0 Hseg Hn1 Hn2]; subst seg; cbn [app] in Hp.
  - rewrite (is_opc_createABx OP_LOADK OP_MOVE reg ci Hr Hci) in Hp. cbn [op_code Z.eqb] in Hp.
    rewrite andb_false_r in Hp. inversion Hp; subst. split; [exact Hdef|lia].
  - assert (Hb' : 0 <= b < 512) by lia.
    destruct (decodeABC OP_MOVE reg b 0 Hr Hb' ltac:(lia)) as [_ [EA [EB _]]].
    rewrite EA, EB in Hp. rewrite H2 in Hp. replace (reg >=? len locals) with true in Hp by lia.
    rewrite (is_opc_createABC OP_MOVE OP_MOVE reg b 0 Hr Hb' ltac:(lia)) in Hp.
    cbn [op_code Z.eqb andb] in Hp. inversion Hp; subst save reg' s2.
    split; [eapply popped_var; eassumption|lia].
  - rewrite Hn2 in Hp. rewrite andb_false_r in Hp. inversion Hp; subst. split; [exact Hdef|lia].
Qed.

Lemma existsb_find_last : forall l x, existsb (beqb x) l = true -> find_last l x 0 (-1) > -1.
Proof.
  assert (G : forall l x i acc, -1 <= acc -> (acc > -1 \/ existsb (beqb x) l = true) -> 0 <= i -> find_last l x i acc > -1).
  { induction l as [|y l IH]; intros x i acc Ha H Hi; cbn [find_last existsb] in *.
    - destruct H; [lia|discriminate].
    - apply IH; try lia.
      + destruct (beqb y x); lia.
      + destruct (beqb y x) eqn:E; [left; lia|].
        destruct H as [H|H]; [left; assumption|].
        apply orb_true_iff in H. destruct H as [H|H]; [|right; assumption].
        apply beqb_eq in H. subst. exfalso.
        assert (beqb y y = true) by (clear; induction y; simpl; [reflexivity|rewrite Z.eqb_refl; assumption]).
        congruence. }
  intros l x H. apply (G l x 0 (-1)); [lia | right; assumption | lia].
Qed.

(* one instruction that writes the value of e into reg (e never faults) *)
Lemma leaf_ok : forall s locals ln reg e w,
  cs_locals s = locals -> cs_regtop s = len locals -> len (cs_consts s) <= 262144 ->
  0 <= w < 2 ^ 32 -> 0 <= reg ->
  shape (mkCS ((w, ln) :: cs_code s) (cs_consts s) (cs_locals s) (cs_regtop s)) locals reg ln e [(w, ln)] ->
  (forall rf, pevr (vlook locals rf) e <> PFault) ->
  (forall rf, reg <= len rf -> pevr (vlook locals rf) e <> PUnsup) ->
  (forall K, prefix_of (cs_consts s) K -> forall rf v, reg <= len rf -> pevr (vlook locals rf) e = PV v ->
     isem_inst K w rf = okres (setr rf reg v)) ->
  expr_ok s (mkCS ((w, ln) :: cs_code s) (cs_consts s) (cs_locals s) (cs_regtop s)) locals ln reg e.
Proof.
  intros s locals ln reg e w H1 H2 H3 Hw Hr Hsh Hnf Hnu Hsem.
  unfold expr_ok. cbn [cs_locals cs_regtop cs_consts cs_code].
  split; [assumption|]. split; [assumption|]. split; [assumption|]. split; [apply prefix_refl|].
  exists [(w, ln)]. split; [reflexivity|]. split; [constructor; [split; [assumption|reflexivity]|constructor]|].
  split; [assumption|].
  intros K HK rf Hlen Hs. destruct (pevr (vlook locals rf) e) as [v| |] eqn:Hp; [|exfalso; eapply Hnf; eassumption|exfalso; eapply Hnu; eassumption].
  unfold val_post. cbn [rev app isem_okseq]. rewrite (Hsem K HK rf v Hlen Hp).
  destruct (setr_post rf reg v ltac:(lia)) as [rf' [E1 [E2 [E3 E4]]]]. rewrite E1. cbn [okres].
  exists rf'. split; [reflexivity|]. split; [assumption|]. split; [assumption|].
  split; [intros i Hi; apply E4; lia|].
  eapply setr_simple; [eassumption| |eassumption]. eapply pevr_simple; [apply vlook_simple; eassumption|eassumption].
Qed.

Lemma loadk_ok : forall s locals ln reg e f ci s1,
  cs_locals s = locals -> cs_regtop s = len locals -> len (cs_consts s) <= 262144 -> 0 <= reg < 256 ->
  constIndex (VNum f) s = Some (ci, s1) -> (forall look, pevr look e = PV (VNum f)) ->
  expr_ok s (mkCS ((opCreateABx (op_code OP_LOADK) reg ci, ln) :: cs_code s1) (cs_consts s1) (cs_locals s1) (cs_regtop s1))
          locals ln reg e.
Proof.
  intros s locals ln reg e f ci s1 H1 H2 H3 Hr Hc Hp.
  destruct (constIndex_spec _ _ _ _ H3 Hc) as [K1 [K2 [K3 [K4 [K5 [K6 K7]]]]]].
  assert (Hok : expr_ok s1 (mkCS ((opCreateABx (op_code OP_LOADK) reg ci, ln) :: cs_code s1) (cs_consts s1) (cs_locals s1) (cs_regtop s1)) locals ln reg e).
  { apply leaf_ok; try congruence; try lia.
    - apply VM.OpcodeFacts.createABx_range.
    - eapply ShConst; try reflexivity; eassumption.
    - intros K HK rf v Hlen Hv. rewrite Hp in Hv. inversion Hv; subst v.
      apply isem_loadk; try lia. eapply prefix_zth; eassumption. }
  destruct Hok as [A1 [A2 [A3 [A4 [seg [A5 [A6 [A7 A8]]]]]]]].
  unfold expr_ok. split; [assumption|]. split; [assumption|]. split; [assumption|]. split; [exact K4|].
  exists seg. rewrite <- K5. auto.
Qed.

(* ---------- composing operands into operations ---------- *)
Lemma rkval_stable : forall K rf rf' save reg', (opIsK save = true \/ save < reg') -> 0 <= save ->
  (forall i, 0 <= i < reg' -> zth rf' i = zth rf i) -> rkval K rf' save = rkval K rf save.
Proof.
  intros K rf rf' save reg' H H0 Hz. unfold rkval. destruct (opIsK save) eqn:E; [reflexivity|].
  destruct H as [H|H]; [discriminate|]. apply Hz. lia.
Qed.

Lemma rkval_simple : forall K rf x v, Forall (fun c => is_simple c = true) K -> rf_simple rf -> rkval K rf x = Some v -> is_simple v = true.
Proof.
  intros K rf x v HK Hrf H. unfold rkval in H. destruct (opIsK x); apply zth_In in H.
  - rewrite Forall_forall in HK. auto.
  - unfold rf_simple in Hrf. rewrite Forall_forall in Hrf. auto.
Qed.

Lemma arith_compose : forall s sA sB locals ln reg o a b save1 reg1 save2 reg2,
  operand_ok s sA locals ln reg a save1 reg1 ->
  operand_ok sA sB locals ln reg1 b save2 reg2 ->
  is_arith_op o = true -> len locals <= reg -> 0 <= reg < 256 ->
  expr_ok s (mkCS ((opCreateABC (op_code (arith_opcode o)) reg save1 save2, ln) :: cs_code sB)
                  (cs_consts sB) (cs_locals sB) (cs_regtop sB)) locals ln reg (EBin o a b).
Proof.
  intros s sA sB locals ln reg o a b save1 reg1 save2 reg2 HA HB Ho Hl Hr.
  destruct HA as [A1 [A2 [A3 [A4 [A5 [A6 [segA [A7 [A8 A9]]]]]]]]].
  destruct HB as [B1 [B2 [B3 [B4 [B5 [B6 [segB [B7 [B8 B9]]]]]]]]].
  set (w := opCreateABC (op_code (arith_opcode o)) reg save1 save2).
  unfold expr_ok. cbn [cs_locals cs_regtop cs_consts cs_code].
  split; [assumption|]. split; [assumption|]. split; [assumption|]. split; [eapply prefix_trans; eassumption|].
  exists ((w, ln) :: segB ++ segA).
  split; [rewrite B7, A7; cbn [app]; rewrite <- app_assoc; reflexivity|].
  split; [constructor; [split; [apply VM.OpcodeFacts.createABC_range|reflexivity]|apply Forall_app; split; assumption]|].
  split.
  { eapply ShOther; [reflexivity| |]; unfold w; rewrite is_opc_createABC by lia; destruct o; try discriminate; reflexivity. }
  intros K HK rf Hlen Hs.
  assert (HKA : prefix_of (cs_consts sA) K) by (eapply prefix_trans; eassumption).
  specialize (A9 K HKA rf Hlen Hs). cbn [pevr].
  cbn [rev]. rewrite rev_app_distr. 
  destruct (pevr (vlook locals rf) a) as [x| |] eqn:Ea.
  2:{ intro rest. rewrite <- !app_assoc. apply A9. }
  2:{ intro rest. rewrite <- !app_assoc. apply A9. }
  destruct A9 as [rfA [E1 [E2 [E3 [E4 [E5 [E6 E7]]]]]]].
  assert (Hext : forall y, vlook locals rfA y = vlook locals rf y) by (apply vlook_ext with (reg := reg); assumption).
  specialize (B9 K HK rfA E4 E6). rewrite (pevr_ext _ _ b Hext) in B9.
  destruct (pevr (vlook locals rf) b) as [y| |] eqn:Eb.
  2:{ intro rest. rewrite <- !app_assoc. rewrite (isem_code_app _ _ _ _ _ E1). apply B9. }
  2:{ intro rest. rewrite <- !app_assoc. rewrite (isem_code_app _ _ _ _ _ E1). apply B9. }
  destruct B9 as [rfB [F1 [F2 [F3 [F4 [F5 [F6 F7]]]]]]].
  assert (Hx : rkval K rfB save1 = Some x).
  { rewrite (rkval_stable K rfA rfB save1 reg1 E7 ltac:(lia) F5). assumption. }
  assert (Hw : isem_inst K w rfB = arith_res K rfB o reg save1 save2) by (apply isem_arith; try assumption; lia).
  assert (Hpre : isem_okseq K (rev segA ++ rev segB) rf = Some rfB).
  { rewrite isem_okseq_app, E1. assumption. }
  assert (Sx : is_simple x = true) by (eapply pevr_simple; [apply vlook_simple; exact Hs|exact Ea]).
  assert (Sy : is_simple y = true) by (eapply pevr_simple; [apply vlook_simple; exact Hs|exact Eb]).
  unfold parith.
  destruct x as [| |fx| | | | | | |]; destruct y as [| |fy| | | | | | |];
    try (intro rest; rewrite <- !app_assoc; rewrite (isem_code_app _ _ _ _ _ E1), (isem_code_app _ _ _ _ _ F1);
         cbn [app isem_code]; rewrite Hw; unfold arith_res; rewrite Hx, F2; reflexivity);
    try discriminate.
  destruct (arith_op o fx fy) as [r|] eqn:Er.
  2:{ intro rest. rewrite <- !app_assoc. rewrite (isem_code_app _ _ _ _ _ E1), (isem_code_app _ _ _ _ _ F1).
      cbn [app isem_code]. rewrite Hw. unfold arith_res. rewrite Hx, F2, Er. reflexivity. }
  destruct (setr_post rfB reg (VNum r) ltac:(lia)) as [rf' [S1 [S2 [S3 S4]]]].
  exists rf'. split.
  { rewrite isem_okseq_app, Hpre. cbn [isem_okseq]. rewrite Hw. unfold arith_res. rewrite Hx, F2, Er, S1. reflexivity. }
  split; [assumption|]. split; [lia|]. split.
  { intros i Hi. rewrite S4 by lia. rewrite F5 by lia. apply E5. assumption. }
  exact (setr_simple rfB reg (VNum r) rf' F6 eq_refl S1).
Qed.

Lemma unm_compose : forall s sA locals ln reg a save reg1,
  operand_ok s sA locals ln reg a save reg1 -> len locals <= reg -> 0 <= reg < 256 ->
  expr_ok s (mkCS ((opCreateABC (op_code OP_UNM) reg save 0, ln) :: cs_code sA)
                  (cs_consts sA) (cs_locals sA) (cs_regtop sA)) locals ln reg (EUn ONeg a).
Proof.
  intros s sA locals ln reg a save reg1 HA Hl Hr.
  destruct HA as [A1 [A2 [A3 [A4 [A5 [A6 [segA [A7 [A8 A9]]]]]]]]].
  set (w := opCreateABC (op_code OP_UNM) reg save 0).
  unfold expr_ok. cbn [cs_locals cs_regtop cs_consts cs_code].
  split; [assumption|]. split; [assumption|]. split; [assumption|]. split; [assumption|].
  exists ((w, ln) :: segA).
  split; [rewrite A7; reflexivity|].
  split; [constructor; [split; [apply VM.OpcodeFacts.createABC_range|reflexivity]|assumption]|].
  split.
  { eapply ShOther; [reflexivity| |]; unfold w; rewrite is_opc_createABC by lia; reflexivity. }
  intros K HK rf Hlen Hs. specialize (A9 K HK rf Hlen Hs). cbn [pevr rev].
  destruct (pevr (vlook locals rf) a) as [x| |] eqn:Ea.
  2:{ intro rest. rewrite <- app_assoc. apply A9. }
  2:{ intro rest. rewrite <- app_assoc. apply A9. }
  destruct A9 as [rfA [E1 [E2 [E3 [E4 [E5 [E6 E7]]]]]]].
  assert (Sx : is_simple x = true) by (eapply pevr_simple; [apply vlook_simple; exact Hs|exact Ea]).
  assert (Hw : isem_inst K w rfA = match rkval K rfA save with
                                   | Some (VNum f) => okres (setr rfA reg (VNum (- f)%float))
                                   | Some v => if is_simple v then IFault else IStuck
                                   | None => IStuck end) by (apply isem_unm; lia).
  rewrite E2 in Hw.
  destruct x as [| |fx| | | | | | |]; try discriminate;
    try (intro rest; rewrite <- app_assoc; rewrite (isem_code_app _ _ _ _ _ E1); cbn [app isem_code]; rewrite Hw; reflexivity).
  destruct (setr_post rfA reg (VNum (- fx)%float) ltac:(lia)) as [rf' [S1 [S2 [S3 S4]]]].
  exists rf'. split.
  { rewrite isem_okseq_app, E1. cbn [isem_okseq]. rewrite Hw, S1. reflexivity. }
  split; [assumption|]. split; [lia|]. split.
  { intros i Hi. rewrite S4 by lia. apply E5. assumption. }
  exact (setr_simple rfA reg (VNum (- fx)%float) rf' E6 eq_refl S1).
Qed.

Lemma not_compose : forall s sA locals ln reg a save reg1,
  operand_ok s sA locals ln reg a save reg1 -> 0 <= save < 256 -> len locals <= reg -> 0 <= reg < 256 ->
  expr_ok s (mkCS ((opCreateABC (op_code OP_NOT) reg save 0, ln) :: cs_code sA)
                  (cs_consts sA) (cs_locals sA) (cs_regtop sA)) locals ln reg (EUn ONot a).
Proof.
  intros s sA locals ln reg a save reg1 HA Hsv Hl Hr.
  destruct HA as [A1 [A2 [A3 [A4 [A5 [A6 [segA [A7 [A8 A9]]]]]]]]].
  set (w := opCreateABC (op_code OP_NOT) reg save 0).
  unfold expr_ok. cbn [cs_locals cs_regtop cs_consts cs_code].
  split; [assumption|]. split; [assumption|]. split; [assumption|]. split; [assumption|].
  exists ((w, ln) :: segA).
  split; [rewrite A7; reflexivity|].
  split; [constructor; [split; [apply VM.OpcodeFacts.createABC_range|reflexivity]|assumption]|].
  split.
  { eapply ShOther; [reflexivity| |]; unfold w; rewrite is_opc_createABC by lia; reflexivity. }
  intros K HK rf Hlen Hs. specialize (A9 K HK rf Hlen Hs). cbn [pevr rev].
  destruct (pevr (vlook locals rf) a) as [x| |] eqn:Ea.
  2:{ intro rest. rewrite <- app_assoc. apply A9. }
  2:{ intro rest. rewrite <- app_assoc. apply A9. }
  destruct A9 as [rfA [E1 [E2 [E3 [E4 [E5 [E6 E7]]]]]]].
  unfold rkval in E2. rewrite small_not_K in E2 by lia.
  assert (Hw : isem_inst K w rfA = okres (setr rfA reg (VBool (negb (truthy x))))) by (apply isem_not; try lia; assumption).
  destruct (setr_post rfA reg (VBool (negb (truthy x))) ltac:(lia)) as [rf' [S1 [S2 [S3 S4]]]].
  exists rf'. split.
  { rewrite isem_okseq_app, E1. cbn [isem_okseq]. rewrite Hw, S1. reflexivity. }
  split; [assumption|]. split; [lia|]. split.
  { intros i Hi. rewrite S4 by lia. apply E5. assumption. }
  exact (setr_simple rfA reg (VBool (negb (truthy x))) rf' E6 eq_refl S1).
Qed.

Lemma zth_some_lt : forall (rf : rfile) b, 0 <= b < len rf -> exists v, zth rf b = Some v.
Proof.
  intros rf b H. unfold zth. destruct (b <? 0) eqn:E; [lia|].
  destruct (nth_error rf (Z.to_nat b)) eqn:E2; [eauto|]. apply nth_error_None in E2. unfold len in H. lia.
Qed.

Lemma edepth_nonneg : forall e, 0 <= edepth e.
Proof.
  induction e; cbn [edepth]; try lia.
Qed.

Lemma loadbool_ok : forall s locals ln reg e bv,
  cs_locals s = locals -> cs_regtop s = len locals -> len (cs_consts s) <= 262144 -> 0 <= reg < 256 ->
  (forall look, pevr look e = PV (VBool bv)) ->
  expr_ok s (mkCS ((opCreateABC (op_code OP_LOADBOOL) reg (if bv then 1 else 0) 0, ln) :: cs_code s)
                  (cs_consts s) (cs_locals s) (cs_regtop s)) locals ln reg e.
Proof.
  intros s locals ln reg e bv H1 H2 H3 Hr Hp.
  apply leaf_ok; try assumption; try lia.
  - apply VM.OpcodeFacts.createABC_range.
  - eapply ShOther; [reflexivity| |]; rewrite is_opc_createABC by (destruct bv; lia); reflexivity.
  - intros rf Hx. rewrite Hp in Hx. discriminate.
  - intros rf _ Hx. rewrite Hp in Hx. discriminate.
  - intros K HK rf v Hlen Hv. rewrite Hp in Hv. inversion Hv; subst v.
    rewrite isem_loadbool by (destruct bv; lia). destruct bv; reflexivity.
Qed.

Lemma compileExpr_ok : forall e locals ln reg ec s inc s',
  expr_frag locals e = true -> cs_locals s = locals -> cs_regtop s = len locals ->
  len locals <= reg -> 0 <= reg -> reg + edepth e < 256 -> len locals <= 256 ->
  savereg ec reg = reg -> len (cs_consts s) <= 262144 ->
  compileExpr ln reg e ec s = Some (inc, s') ->
  inc = 1 /\ expr_ok s s' locals ln reg e.
Proof.
  induction e as [| | |f|sb| |x|ea IHa ek IHk|fe args|ob m args|ps va body l1 l2|o e1 IH1 e2 IH2|o e1 IH1|e1 IH1 e2 IH2|e1 IH1 e2 IH2|e1 IH1|items];
    intros locals ln reg ec s inc s' Hf H1 H2 Hl Hr0 Hd Hloc Hsv Hk Hc;
    cbn [expr_frag] in Hf; try discriminate; cbn [compileExpr] in Hc; rewrite ?Hsv in Hc;
    replace (reg <? reg) with false in Hc by lia; cbn [edepth] in Hd.
  - (* ENil *)
    unfold cbind, addABC, add, cret in Hc. inversion Hc; subst inc s'. split; [reflexivity|].
    apply leaf_ok; try assumption; try lia.
    + apply VM.OpcodeFacts.createABC_range.
    + eapply ShOther; [reflexivity| |]; rewrite is_opc_rawABC by lia; reflexivity.
    + intros rf Hx. discriminate.
    + intros rf _ Hx. discriminate.
    + intros K HK rf v Hlen Hv. cbn [pevr] in Hv. inversion Hv; subst v. apply isem_loadnil1. lia.
  - (* ETrue *)
    unfold cbind, addABC, add, cret in Hc. inversion Hc; subst inc s'. split; [reflexivity|].
    apply (loadbool_ok s locals ln reg ETrue true); try assumption; try lia. intro look. reflexivity.
  - (* EFalse *)
    unfold cbind, addABC, add, cret in Hc. inversion Hc; subst inc s'. split; [reflexivity|].
    apply (loadbool_ok s locals ln reg EFalse false); try assumption; try lia. intro look. reflexivity.
  - (* ENum *)
    unfold cbind at 1 in Hc. destruct (constIndex (VNum f) s) as [[ci s1]|] eqn:Eci; [|discriminate].
    unfold cbind, addABx, add, cret in Hc. inversion Hc; subst inc s'. split; [reflexivity|].
    eapply loadk_ok; try eassumption; try lia. intro look. reflexivity.
  - (* EVar *)
    unfold FindLocalVar in Hc. rewrite H1 in Hc.
    pose proof (existsb_find_last _ _ Hf) as Hb.
    pose proof (find_last_range locals x 0 (-1) ltac:(lia)) as Hbr.
    replace (find_last locals x 0 (-1) >? -1) with true in Hc by lia.
    unfold cbind, addABC, add, cret in Hc. inversion Hc; subst inc s'. split; [reflexivity|].
    assert (Hpv : forall rf, pevr (vlook locals rf) (EVar x) =
                    match zth rf (find_last locals x 0 (-1)) with Some v => PV v | None => PUnsup end).
    { intro rf. cbn [pevr]. unfold vlook. replace (find_last locals x 0 (-1) >? -1) with true by lia.
      destruct (zth rf (find_last locals x 0 (-1))); reflexivity. }
    apply leaf_ok; try assumption; try lia.
    + apply VM.OpcodeFacts.createABC_range.
    + eapply ShVar with (b := find_last locals x 0 (-1)); [reflexivity|lia|exact Hpv].
    + intros rf Hx. rewrite Hpv in Hx. destruct (zth rf (find_last locals x 0 (-1))); discriminate.
    + intros rf Hlen Hx. rewrite Hpv in Hx.
      destruct (zth_some_lt rf (find_last locals x 0 (-1)) ltac:(lia)) as [v Hv]. rewrite Hv in Hx. discriminate.
    + intros K HK rf v Hlen Hv. rewrite Hpv in Hv.
      destruct (zth rf (find_last locals x 0 (-1))) as [v0|] eqn:Ez; [|discriminate]. inversion Hv; subst v0.
      apply isem_move; try lia. assumption.
  - (* EBin *)
    pose proof (edepth_nonneg e1) as Hd1. pose proof (edepth_nonneg e2) as Hd2.
    apply andb_true_iff in Hf. destruct Hf as [Hf Hf2]. apply andb_true_iff in Hf. destruct Hf as [Ho Hf1].
    rewrite Ho in Hc. cbn [negb] in Hc.
    destruct (cfold (EBin o e1 e2)) as [[g|]|] eqn:Ecf; [| |discriminate].
    + unfold cbind at 1 in Hc. destruct (constIndex (VNum g) s) as [[ci s1]|] eqn:Eci; [|discriminate].
      unfold cbind, addABx, add, cret in Hc. inversion Hc; subst inc s'. split; [reflexivity|].
      eapply loadk_ok; try eassumption; try lia. intro look. apply cfold_pevr. assumption.
    + unfold cbind at 1 in Hc.
      destruct (compileExpr ln reg e1 (ecnone 0) s) as [[inc1 sA1]|] eqn:Ca; [|discriminate].
      destruct (IH1 locals ln reg (ecnone 0) s inc1 sA1 Hf1 H1 H2 Hl Hr0 ltac:(lia) Hloc eq_refl Hk Ca) as [Hi1 HokA1]. subst inc1.
      unfold cbind at 1 in Hc.
      destruct (propagateKMV reg 1 sA1) as [[[save1 reg1] sA]|] eqn:Pa; [|discriminate].
      pose proof (kmv_ok _ _ _ _ _ _ _ _ _ HokA1 Hl ltac:(lia) Hloc Pa) as HA.
      destruct HA as [A1 [A2 [A3 [A4 [A5 [A6 A7]]]]]].
      unfold cbind at 1 in Hc.
      destruct (compileExpr ln reg1 e2 (ecnone 0) sA) as [[inc2 sB1]|] eqn:Cb; [|discriminate].
      destruct (IH2 locals ln reg1 (ecnone 0) sA inc2 sB1 Hf2 A1 A2 ltac:(lia) ltac:(lia) ltac:(lia) Hloc eq_refl A3 Cb) as [Hi2 HokB1]. subst inc2.
      unfold cbind at 1 in Hc.
      destruct (propagateKMV reg1 1 sB1) as [[[save2 reg2] sB]|] eqn:Pb; [|discriminate].
      pose proof (kmv_ok _ _ _ _ _ _ _ _ _ HokB1 ltac:(lia) ltac:(lia) Hloc Pb) as HB.
      unfold cbind, addABC, add, cret in Hc. inversion Hc; subst inc s'. split; [reflexivity|].
      eapply arith_compose; try eassumption; try lia.
      unfold operand_ok. repeat (split; [assumption|]). exact A7.
  - (* EUn *)
    pose proof (edepth_nonneg e1) as Hd1.
    destruct o; try discriminate.
    + (* ONeg *)
      destruct (cfold (EUn ONeg e1)) as [[g|]|] eqn:Ecf; [| |discriminate].
      * unfold cbind at 1 in Hc. destruct (constIndex (VNum g) s) as [[ci s1]|] eqn:Eci; [|discriminate].
        unfold cbind, addABx, add, cret in Hc. inversion Hc; subst inc s'. split; [reflexivity|].
        eapply loadk_ok; try eassumption; try lia. intro look. apply cfold_pevr. assumption.
      * unfold cbind at 1 in Hc.
        destruct (compileExpr ln reg e1 (ecnone 0) s) as [[inc1 sA1]|] eqn:Ca; [|discriminate].
        destruct (IH1 locals ln reg (ecnone 0) s inc1 sA1 Hf H1 H2 Hl Hr0 ltac:(lia) Hloc eq_refl Hk Ca) as [Hi1 HokA1]. subst inc1.
        unfold cbind at 1 in Hc.
        destruct (propagateMV reg 1 sA1) as [[[save1 reg1] sA]|] eqn:Pa; [|discriminate].
        destruct (mv_ok _ _ _ _ _ _ _ _ _ HokA1 Hl ltac:(lia) Hloc Pa) as [HA Hsv1].
        unfold cbind, addABC, add, cret in Hc. cbn [fst] in Hc. inversion Hc; subst inc s'. split; [reflexivity|].
        eapply unm_compose; try eassumption; lia.
    + (* ONot *)
      assert (General :
        (cdo inc1 <- compileExpr ln reg e1 (ecnone 0);
         cdo p1 <- propagateMV reg inc1;
         cdo _ <- addABC OP_NOT reg (fst p1) 0 ln; cret 1) s = Some (inc, s') ->
        inc = 1 /\ expr_ok s s' locals ln reg (EUn ONot e1)).
      { intro Hg. unfold cbind at 1 in Hg.
        destruct (compileExpr ln reg e1 (ecnone 0) s) as [[inc1 sA1]|] eqn:Ca; [|discriminate].
        destruct (IH1 locals ln reg (ecnone 0) s inc1 sA1 Hf H1 H2 Hl Hr0 ltac:(lia) Hloc eq_refl Hk Ca) as [Hi1 HokA1]. subst inc1.
        unfold cbind at 1 in Hg.
        destruct (propagateMV reg 1 sA1) as [[[save1 reg1] sA]|] eqn:Pa; [|discriminate].
        destruct (mv_ok _ _ _ _ _ _ _ _ _ HokA1 Hl ltac:(lia) Hloc Pa) as [HA Hsv1].
        unfold cbind, addABC, add, cret in Hg. cbn [fst] in Hg. inversion Hg; subst inc s'. split; [reflexivity|].
        eapply not_compose; try eassumption; lia. }
      destruct (strip_paren e1) eqn:Es; try (apply General; exact Hc).
      * (* not nil *)
        unfold cbind, addABC, add, cret in Hc. inversion Hc; subst inc s'. split; [reflexivity|].
        apply (loadbool_ok s locals ln reg (EUn ONot e1) true); try assumption; try lia.
        intro look. cbn [pevr]. rewrite (pevr_strip look e1), Es. reflexivity.
      * (* not true *)
        unfold cbind, addABC, add, cret in Hc. inversion Hc; subst inc s'. split; [reflexivity|].
        apply (loadbool_ok s locals ln reg (EUn ONot e1) false); try assumption; try lia.
        intro look. cbn [pevr]. rewrite (pevr_strip look e1), Es. reflexivity.
      * (* not false *)
        unfold cbind, addABC, add, cret in Hc. inversion Hc; subst inc s'. split; [reflexivity|].
        apply (loadbool_ok s locals ln reg (EUn ONot e1) true); try assumption; try lia.
        intro look. cbn [pevr]. rewrite (pevr_strip look e1), Es. reflexivity.
  - (* EParen *)
    destruct (IH1 locals ln reg ec s inc s' Hf H1 H2 Hl Hr0 Hd Hloc Hsv Hk Hc) as [Hi Hok].
    split; [assumption|].
    destruct Hok as [A1 [A2 [A3 [A4 [seg [A5 [A6 [A7 A8]]]]]]]].
    unfold expr_ok. repeat (split; [assumption|]). exists seg. split; [assumption|]. split; [assumption|]. split.
    + destruct A7 as [ci g B1 B2 B3 B4|b B1 B2 B3|w seg0 B1 B2 B3].
      * eapply ShConst; try eassumption.
      * eapply ShVar; try eassumption.
      * eapply ShOther; eassumption.
    + intros K HK. exact (A8 K HK).
Qed.

(* ---------- environments and registers ---------- *)
Lemma beqb_refl : forall a, beqb a a = true.
Proof. induction a; simpl; [reflexivity|]. rewrite Z.eqb_refl. assumption. Qed.

Lemma beqb_sym : forall a b, beqb a b = beqb b a.
Proof.
  intros a b. destruct (beqb a b) eqn:E1; destruct (beqb b a) eqn:E2; try reflexivity.
  - apply beqb_eq in E1. subst. rewrite beqb_refl in E2. discriminate.
  - apply beqb_eq in E2. subst. rewrite beqb_refl in E1. discriminate.
Qed.

Lemma find_last_app : forall l x y i acc,
  find_last (l ++ [x]) y i acc = if beqb x y then i + len l else find_last l y i acc.
Proof.
  induction l as [|z l IH]; intros x y i acc; cbn [app find_last].
  - unfold len. cbn [length]. destruct (beqb x y); [lia|reflexivity].
  - rewrite IH. unfold len. cbn [length]. destruct (beqb x y); [lia|reflexivity].
Qed.

(* the name at the index find_last returns *)
Lemma find_last_name : forall l y i acc k, find_last l y i acc = k -> k <> acc -> 0 <= i ->
  i <= k /\ exists z, zth l (k - i) = Some z /\ beqb z y = true.
Proof.
  induction l as [|z l IH]; intros y i acc k H Hk Hi; cbn [find_last] in H; [congruence|].
  destruct (beqb z y) eqn:E.
  - destruct (Z.eq_dec k i) as [->|Hne].
    + split; [lia|]. exists z. replace (i - i) with 0 by lia. split; [reflexivity|assumption].
    + destruct (IH y (i + 1) i k H Hne ltac:(lia)) as [H1 [z' [H2 H3]]].
      split; [lia|]. exists z'. split; [|assumption].
      replace (k - i) with (1 + (k - (i + 1))) by lia. rewrite zth_cons_succ by lia. assumption.
  - destruct (IH y (i + 1) acc k H Hk ltac:(lia)) as [H1 [z' [H2 H3]]].
    split; [lia|]. exists z'. split; [|assumption].
    replace (k - i) with (1 + (k - (i + 1))) by lia. rewrite zth_cons_succ by lia. assumption.
Qed.

Lemma find_last_same_index : forall l x y, find_last l x 0 (-1) = find_last l y 0 (-1) ->
  find_last l x 0 (-1) > -1 -> beqb y x = true.
Proof.
  intros l x y H Hx.
  destruct (find_last_name l x 0 (-1) _ eq_refl ltac:(lia) ltac:(lia)) as [_ [z1 [Z1 B1]]].
  destruct (find_last_name l y 0 (-1) _ eq_refl ltac:(lia) ltac:(lia)) as [_ [z2 [Z2 B2]]].
  rewrite <- H in Z2. rewrite Z1 in Z2. inversion Z2; subst z2.
  apply beqb_eq in B1. apply beqb_eq in B2. subst. apply beqb_refl.
Qed.

Definition env_rel (rho : penv) (locals : list name) (rf : rfile) : Prop :=
  (forall x, plookup rho x = vlook locals rf x) /\ len locals <= len rf.

Lemma env_pev : forall rho locals rf e, env_rel rho locals rf -> pev rho e = pevr (vlook locals rf) e.
Proof. intros rho locals rf e [H _]. rewrite pev_pevr. apply pevr_ext. assumption. Qed.

Lemma env_cons : forall rho locals rf rf' x v,
  env_rel rho locals rf -> (forall i, 0 <= i < len locals -> zth rf' i = zth rf i) ->
  zth rf' (len locals) = Some v ->
  env_rel ((x, v) :: rho) (locals ++ [x]) rf'.
Proof.
  intros rho locals rf rf' x v [H Hl] Hlow Hv. split.
  - intro y. cbn [plookup]. unfold vlook. rewrite find_last_app. rewrite Z.add_0_l.
    rewrite (beqb_sym y x). destruct (beqb x y) eqn:E.
    + pose proof (len_nonneg _ locals). replace (len locals >? -1) with true by lia. symmetry. assumption.
    + rewrite H. unfold vlook.
      pose proof (find_last_range locals y 0 (-1) ltac:(lia)) as Hr.
      destruct (find_last locals y 0 (-1) >? -1) eqn:E2; [|reflexivity]. symmetry. apply Hlow. lia.
  - rewrite len_app. unfold len at 2. cbn [length]. pose proof (zth_range _ _ _ _ Hv). lia.
Qed.

Lemma plookup_pupdate : forall rho x v y,
  plookup (pupdate rho x v) y =
  if beqb y x then match plookup rho x with Some _ => Some v | None => None end else plookup rho y.
Proof.
  induction rho as [|[z w] rho IH]; intros x v y; cbn [pupdate plookup].
  - destruct (beqb y x); reflexivity.
  - destruct (beqb x z) eqn:Exz.
    + apply beqb_eq in Exz. subst z. cbn [plookup].
      destruct (beqb y x) eqn:Eyx; reflexivity.
    + cbn [plookup]. destruct (beqb y z) eqn:Eyz.
      * destruct (beqb y x) eqn:Eyx; [|reflexivity].
        apply beqb_eq in Eyz. apply beqb_eq in Eyx. subst. rewrite beqb_refl in Exz. discriminate.
      * apply IH.
Qed.

Lemma env_update : forall rho locals rf rf' x v,
  env_rel rho locals rf -> find_last locals x 0 (-1) > -1 ->
  zth rf' (find_last locals x 0 (-1)) = Some v ->
  (forall i, 0 <= i < len locals -> i <> find_last locals x 0 (-1) -> zth rf' i = zth rf i) ->
  len rf <= len rf' ->
  env_rel (pupdate rho x v) locals rf'.
Proof.
  intros rho locals rf rf' x v [H Hl] Hb Hv Hoth Hlen. split; [|lia].
  intro y. rewrite plookup_pupdate.
  pose proof (find_last_range locals x 0 (-1) ltac:(lia)) as Hbr.
  destruct (beqb y x) eqn:E.
  - apply beqb_eq in E. subst y. rewrite H. unfold vlook. replace (find_last locals x 0 (-1) >? -1) with true by lia.
    destruct (zth_some_lt rf (find_last locals x 0 (-1)) ltac:(lia)) as [v0 Hv0]. rewrite Hv0. symmetry. assumption.
  - rewrite H. unfold vlook.
    pose proof (find_last_range locals y 0 (-1) ltac:(lia)) as Hyr.
    destruct (find_last locals y 0 (-1) >? -1) eqn:E2; [|reflexivity].
    symmetry. apply Hoth; [lia|]. intro Heq.
    assert (beqb y x = true) by (apply (find_last_same_index locals x y); [congruence|assumption]). congruence.
Qed.

(* ---------- statements ---------- *)
Fixpoint pevr_list (look : name -> option value) (es : list expr) : pres + list value :=
  match es with
  | [] => inr []
  | e :: r => match pevr look e with
              | PV v => match pevr_list look r with inr vs => inr (v :: vs) | inl x => inl x end
              | x => inl x
              end
  end.

Lemma pev_list_pevr : forall rho es, pev_list rho es = pevr_list (plookup rho) es.
Proof. intros rho es. induction es; cbn [pev_list pevr_list]; [reflexivity|]. rewrite pev_pevr, IHes. reflexivity. Qed.

Lemma pevr_list_ext : forall l1 l2 es, (forall x, l1 x = l2 x) -> pevr_list l1 es = pevr_list l2 es.
Proof. intros l1 l2 es H. induction es; cbn [pevr_list]; [reflexivity|]. rewrite (pevr_ext l1 l2 a H), IHes. reflexivity. Qed.

Definition ret_cres (ln : Z) (r : pres + list value) : cres :=
  match r with inr vs => CRet vs | inl PFault => CFault ln | inl _ => CUnsup end.

Definition stop_cres (ln : Z) (r : pres) : cres := match r with PFault => CFault ln | _ => CUnsup end.

(* the expressions of a return list, compiled into consecutive registers *)
Lemma crs_ok : forall es locals ln reg s reg' s',
  forallb (expr_frag locals) es = true ->
  (forall e, In e es -> reg + len es + edepth e < 256) ->
  cs_locals s = locals -> cs_regtop s = len locals -> len locals <= reg -> 0 <= reg -> len locals <= 256 ->
  len (cs_consts s) <= 262144 ->
  crs_exprs ln reg es s = Some (reg', s') ->
  reg' = reg + len es /\ cs_locals s' = locals /\ cs_regtop s' = len locals /\ len (cs_consts s') <= 262144 /\
  prefix_of (cs_consts s) (cs_consts s') /\
  exists seg, cs_code s' = seg ++ cs_code s /\ Forall (wl_ok ln) seg /\
    forall K, prefix_of (cs_consts s') K -> forall rf, reg <= len rf -> rf_simple rf ->
      match pevr_list (vlook locals rf) es with
      | inr vs => exists rf', isem_okseq K (rev seg) rf = Some rf' /\
                    (forall i, 0 <= i < len vs -> zth rf' (reg + i) = zth vs i) /\ len vs = len es /\
                    reg + len es <= len rf' /\ (forall i, 0 <= i < reg -> zth rf' i = zth rf i) /\ rf_simple rf'
      | inl r => forall rest, isem_code K (rev seg ++ rest) rf = stop_cres ln r
      end.
Proof.
  induction es as [|e es IH]; intros locals ln reg s reg' s' Hf Hd H1 H2 Hl Hr Hloc Hk Hc.
  - cbn [crs_exprs] in Hc. unfold cret in Hc. inversion Hc; subst. unfold len at 1. cbn [length].
    split; [lia|]. repeat (split; [reflexivity || assumption || apply prefix_refl|]).
    exists []. split; [reflexivity|]. split; [constructor|].
    intros K HK rf Hlen Hs. cbn [pevr_list]. exists rf. cbn [rev isem_okseq].
    split; [reflexivity|]. split; [intros i Hi; unfold len in Hi; cbn [length] in Hi; exfalso; lia|].
    split; [reflexivity|]. split; [unfold len in *; cbn [length]; lia|]. split; [auto|assumption].
  - cbn [forallb] in Hf. apply andb_true_iff in Hf. destruct Hf as [Hfe Hfs].
    assert (Hlen_es : len (e :: es) = 1 + len es) by (unfold len; cbn [length]; lia).
    pose proof (len_nonneg _ es) as Hnn.
    cbn [crs_exprs] in Hc. unfold cbind at 1 in Hc.
    destruct (compileExpr ln reg e (ecnone 0) s) as [[inc sA]|] eqn:Ce; [|discriminate].
    assert (Hde : reg + edepth e < 256) by (specialize (Hd e (or_introl eq_refl)); lia).
    destruct (compileExpr_ok e locals ln reg (ecnone 0) s inc sA Hfe H1 H2 Hl Hr Hde Hloc eq_refl Hk Ce) as [Hi Hok]. subst inc.
    destruct Hok as [A1 [A2 [A3 [A4 [segA [A5 [A6 [A7 A8]]]]]]]].
    assert (Hd' : forall e0, In e0 es -> reg + 1 + len es + edepth e0 < 256).
    { intros e0 Hin. specialize (Hd e0 (or_intror Hin)). lia. }
    destruct (IH locals ln (reg + 1) sA reg' s' Hfs Hd' A1 A2 ltac:(lia) ltac:(lia) Hloc A3 Hc)
      as [B0 [B1 [B2 [B3 [B4 [segB [B5 [B6 B7]]]]]]]].
    split; [lia|]. split; [assumption|]. split; [assumption|]. split; [assumption|].
    split; [eapply prefix_trans; eassumption|].
    exists (segB ++ segA). split; [rewrite B5, A5, app_assoc; reflexivity|].
    split; [apply Forall_app; split; assumption|].
    intros K HK rf Hlen Hs. rewrite rev_app_distr.
    assert (HKA : prefix_of (cs_consts sA) K) by (eapply prefix_trans; eassumption).
    specialize (A8 K HKA rf Hlen Hs). cbn [pevr_list].
    destruct (pevr (vlook locals rf) e) as [v| |] eqn:Ee.
    2:{ intro rest. rewrite <- app_assoc. apply A8. }
    2:{ intro rest. rewrite <- app_assoc. apply A8. }
    destruct A8 as [rfA [E1 [E2 [E3 [E4 E5]]]]].
    assert (Hext : forall y, vlook locals rfA y = vlook locals rf y) by (apply vlook_ext with (reg := reg); assumption).
    pose proof (zth_range _ _ _ _ E2) as HrA.
    specialize (B7 K HK rfA ltac:(lia) E5). rewrite (pevr_list_ext _ _ es Hext) in B7.
    destruct (pevr_list (vlook locals rf) es) as [r|vs] eqn:Es.
    { intro rest. rewrite <- app_assoc. rewrite (isem_code_app _ _ _ _ _ E1). apply B7. }
    destruct B7 as [rfB [F1 [F2 [F3 [F4 [F5 F6]]]]]].
    exists rfB. split; [rewrite isem_okseq_app, E1; assumption|].
    split.
    { intros i Hi. assert (Hlv : len (v :: vs) = 1 + len vs) by (unfold len; cbn [length]; lia).
      destruct (Z.eq_dec i 0) as [->|Hne].
      - rewrite Z.add_0_r. rewrite F5 by lia. rewrite E2. reflexivity.
      - replace (reg + i) with (reg + 1 + (i - 1)) by lia. rewrite F2 by lia.
        replace i with (1 + (i - 1)) at 2 by lia. rewrite zth_cons_succ by lia. reflexivity. }
    split; [unfold len in *; cbn [length]; lia|]. split; [lia|].
    split; [intros i Hi; rewrite F5 by lia; apply E4; assumption|assumption].
Qed.

Definition u32 (wl : Z * Z) : Prop := 0 <= fst wl < 2 ^ 32.

Lemma wl_u32 : forall ln seg, Forall (wl_ok ln) seg -> Forall u32 seg.
Proof. intros ln seg H. eapply Forall_impl; [|exact H]. intros a [Ha _]. exact Ha. Qed.

Definition cinv (s : cstate) (locals : list name) : Prop :=
  cs_locals s = locals /\ cs_regtop s = len locals /\ len (cs_consts s) <= 262144 /\ len locals <= 200.

Definition stmt_post (K : list value) (seg : list (Z * Z)) (ln : Z) (rf : rfile) (r : pres)
  (next : value -> rfile -> Prop) : Prop :=
  match r with
  | PV v => exists rf', isem_okseq K (rev seg) rf = Some rf' /\ next v rf' /\ rf_simple rf'
  | PFault => forall rest, isem_code K (rev seg ++ rest) rf = CFault ln
  | PUnsup => forall rest, isem_code K (rev seg ++ rest) rf = CUnsup
  end.

Lemma local_ok : forall ln x e s s' locals u,
  expr_frag locals e = true -> len locals + 1 + edepth e <= 250 -> cinv s locals ->
  compileStmt (SLocal ln [x] [e]) s = Some (u, s') ->
  cinv s' (locals ++ [x]) /\ prefix_of (cs_consts s) (cs_consts s') /\
  exists seg, cs_code s' = seg ++ cs_code s /\ Forall u32 seg /\
    forall K, prefix_of (cs_consts s') K -> forall rho rf, env_rel rho locals rf -> rf_simple rf ->
      stmt_post K seg ln rf (pev rho e) (fun v rf' => env_rel ((x, v) :: rho) (locals ++ [x]) rf').
Proof.
  intros ln x e s s' locals u Hf Hd [H1 [H2 [H3 H4]]] Hc.
  pose proof (len_nonneg _ locals) as Hnn. pose proof (edepth_nonneg e) as Hen.
  cbn [compileStmt] in Hc. unfold compileLocalAssignStmt, compileRegAssignment in Hc.
  cbn [length cra_assigned register_locals] in Hc. unfold cbind at 1 2 3 in Hc.
  destruct (compileExpr ln (cs_regtop s) e (mkEc EcLocal (cs_regtop s) 0) s) as [[inc sA]|] eqn:Ce; [|discriminate].
  cbn [cra_assigned] in Hc. unfold cret at 1 in Hc. cbn [cra_extra] in Hc. unfold cbind, cret in Hc.
  unfold RegisterLocalVar in Hc.
  destruct (cs_regtop sA + 1 >? maxLocalVars) eqn:Et; [discriminate|]. inversion Hc; subst s'. clear Hc.
  rewrite H2 in Ce.
  assert (Hsv : savereg (mkEc EcLocal (len locals) 0) (len locals) = len locals).
  { unfold savereg. cbn [ec_reg ec_type]. destruct (len locals =? regNotDefined); reflexivity. }
  destruct (compileExpr_ok e locals ln (len locals) _ s inc sA Hf H1 H2 ltac:(lia) ltac:(lia) ltac:(lia) ltac:(lia) Hsv H3 Ce)
    as [Hi [A1 [A2 [A3 [A4 [seg [A5 [A6 [A7 A8]]]]]]]]].
  unfold maxLocalVars in Et.
  assert (Hla : len (locals ++ [x]) = len locals + 1) by (unfold len; rewrite app_length; cbn [length]; lia).
  split.
  { unfold cinv. cbn [cs_locals cs_regtop cs_consts]. rewrite A1, A2, Hla. repeat split; try reflexivity; try assumption; lia. }
  cbn [cs_consts cs_code]. split; [assumption|].
  exists seg. split; [assumption|]. split; [eapply wl_u32; eassumption|].
  intros K HK rho rf Henv Hs. rewrite (env_pev rho locals rf e Henv).
  pose proof (A8 K HK rf (proj2 Henv) Hs) as S. unfold stmt_post.
  destruct (pevr (vlook locals rf) e) as [v| |]; [|exact S|exact S].
  destruct S as [rf' [E1 [E2 [E3 [E4 E5]]]]].
  exists rf'. split; [assumption|]. split; [|assumption].
  eapply env_cons; eassumption.
Qed.

Lemma assign_ok : forall ln x e s s' locals u,
  existsb (beqb x) locals = true ->
  expr_frag locals e = true -> len locals + 1 + edepth e <= 250 -> cinv s locals ->
  compileStmt (SAssign ln [EVar x] [e]) s = Some (u, s') ->
  cinv s' locals /\ prefix_of (cs_consts s) (cs_consts s') /\
  exists seg, cs_code s' = seg ++ cs_code s /\ Forall u32 seg /\
    forall K, prefix_of (cs_consts s') K -> forall rho rf, env_rel rho locals rf -> rf_simple rf ->
      stmt_post K seg ln rf (pev rho e) (fun v rf' => env_rel (pupdate rho x v) locals rf').
Proof.
  intros ln x e s s' locals u Hx Hf Hd [H1 [H2 [H3 H4]]] Hc.
  pose proof (len_nonneg _ locals) as Hnn. pose proof (edepth_nonneg e) as Hen.
  cbn [compileStmt assign_targets] in Hc. unfold compileAssignStmt in Hc.
  cbn [length car_names] in Hc. unfold cbind at 1 2 in Hc.
  destruct (compileExpr ln (cs_regtop s) e (mkEc EcLocal regNotDefined 0) s) as [[inc sA]|] eqn:Ce; [|discriminate].
  rewrite H2 in Ce.
  assert (Q1 : len locals <= len locals) by lia.
  assert (Q3 : len locals + edepth e < 256) by lia.
  assert (Q4 : len locals <= 256) by lia.
  destruct (compileExpr_ok e locals ln (len locals) (mkEc EcLocal regNotDefined 0) s inc sA Hf H1 H2 Q1 Hnn Q3 Q4 eq_refl H3 Ce)
    as [Hi [A1 [A2 [A3 [A4 [seg [A5 [A6 [A7 A8]]]]]]]]].
  subst inc. cbn [tl car_names] in Hc. unfold cret at 1 in Hc. cbn [car_extra] in Hc.
  unfold cbind at 1 in Hc. unfold cret at 1 in Hc. cbn [rev app cas_moves] in Hc.
  unfold cbind, addABC, add, cret in Hc. inversion Hc; subst s'. clear Hc.
  unfold FindLocalVar. rewrite A1, H2.
  replace (len locals + 1 - 1) with (len locals) by lia.
  set (idx := find_last locals x 0 (-1)).
  pose proof (existsb_find_last locals x Hx) as Hi0. fold idx in Hi0.
  pose proof (find_last_range locals x 0 (-1) ltac:(lia)) as Hi1. fold idx in Hi1.
  split.
  { unfold cinv. cbn [cs_locals cs_regtop cs_consts]. repeat split; assumption. }
  cbn [cs_consts cs_code]. split; [assumption|].
  exists ((opCreateABC (op_code OP_MOVE) idx (len locals) 0, ln) :: seg).
  split; [rewrite A5; replace (@len name locals + 1 - 1) with (@len bytes locals) by (change name with bytes; lia); reflexivity|].
  split; [constructor; [apply VM.OpcodeFacts.createABC_range|eapply wl_u32; eassumption]|].
  intros K HK rho rf Henv Hs. rewrite (env_pev rho locals rf e Henv).
  pose proof (A8 K HK rf (proj2 Henv) Hs) as S. unfold stmt_post. cbn [rev].
  destruct (pevr (vlook locals rf) e) as [v| |] eqn:Ee.
  2:{ intro rest. rewrite <- app_assoc. apply S. }
  2:{ intro rest. rewrite <- app_assoc. apply S. }
  destruct S as [rfA [E1 [E2 [E3 [E4 E5]]]]].
  destruct (setr_post rfA idx v ltac:(destruct Henv; lia)) as [rfB [F1 [F2 [F3 F4]]]].
  assert (Sv : is_simple v = true).
  { unfold rf_simple in E5. rewrite Forall_forall in E5. apply E5. eapply zth_In; eassumption. }
  exists rfB. split.
  { rewrite isem_okseq_app, E1. cbn [isem_okseq].
    rewrite (isem_move K idx (len locals) rfA v ltac:(lia) ltac:(lia) E2). rewrite F1. reflexivity. }
  split; [|eapply setr_simple; eassumption].
  apply (env_update rho locals rf rfB x v Henv); fold idx; try assumption; try lia.
  intros i Hi Hne. rewrite F4 by assumption. apply E4. assumption.
Qed.

(* ---------- return ---------- *)
Lemma isem_return : forall K a b rf, 0 <= a < 256 -> 1 <= b < 512 -> a + (b - 1) <= len rf ->
  isem_inst K (opCreateABC (op_code OP_RETURN) a b 0) rf = IRet (firstn (Z.to_nat (b - 1)) (skipn (Z.to_nat a) rf)).
Proof.
  intros K a b rf Ha Hb Hl. destruct (decodeABC OP_RETURN a b 0 Ha ltac:(lia) ltac:(lia)) as [E0 [E1 [E2 E3]]].
  unfold isem_inst. rewrite E0, E1, E2.
  replace ((1 <=? b) && (a + (b - 1) <=? len rf) && (0 <=? a)) with true by lia. reflexivity.
Qed.

Lemma skipn_nth_cons : forall A (l : list A) n v, nth_error l n = Some v -> skipn n l = v :: skipn (S n) l.
Proof.
  induction l as [|y l IH]; intros n v H.
  - destruct n; discriminate.
  - destruct n as [|n]; cbn [nth_error] in H.
    + inversion H; subst. reflexivity.
    + cbn [skipn]. rewrite (IH n v H). destruct l; reflexivity.
Qed.

Lemma skipn_zth_cons : forall (rf : rfile) a v, zth rf a = Some v ->
  skipn (Z.to_nat a) rf = v :: skipn (Z.to_nat (a + 1)) rf.
Proof.
  intros rf a v H. unfold zth in H. destruct (a <? 0) eqn:E; [discriminate|].
  replace (Z.to_nat (a + 1)) with (S (Z.to_nat a)) by lia. apply skipn_nth_cons. assumption.
Qed.

Lemma firstn_skipn_zth : forall (vs : list value) (rf : rfile) a, 0 <= a ->
  (forall i, 0 <= i < len vs -> zth rf (a + i) = zth vs i) ->
  firstn (length vs) (skipn (Z.to_nat a) rf) = vs.
Proof.
  induction vs as [|v vs IH]; intros rf a Ha H; [reflexivity|].
  assert (Hlv : len (v :: vs) = 1 + len vs) by (unfold len; cbn [length]; lia).
  pose proof (len_nonneg _ vs) as Hnn.
  assert (H0 : zth rf a = Some v).
  { specialize (H 0 ltac:(lia)). rewrite Z.add_0_r in H. rewrite H. reflexivity. }
  rewrite (skipn_zth_cons rf a v H0). cbn [length firstn]. f_equal.
  apply IH; [lia|]. intros i Hi. replace (a + 1 + i) with (a + (1 + i)) by lia.
  rewrite H by lia. apply zth_cons_succ. lia.
Qed.

Definition ret_general (ln : Z) (es : list expr) : CM unit :=
  fun s => (cdo reg <- crs_exprs ln (cs_regtop s) es;
            addABC OP_RETURN (cs_regtop s) (reg - cs_regtop s + 1) 0 ln) s.

Definition ret_concl (ln : Z) (es : list expr) (locals : list name) (s s' : cstate) : Prop :=
  len (cs_consts s') <= 262144 /\ prefix_of (cs_consts s) (cs_consts s') /\
  exists seg, cs_code s' = seg ++ cs_code s /\ Forall u32 seg /\
    forall K, prefix_of (cs_consts s') K -> forall rho rf, env_rel rho locals rf -> rf_simple rf ->
      forall rest, isem_code K (rev seg ++ rest) rf = ret_cres ln (pev_list rho es).

Lemma ret_general_ok : forall ln es s s' locals u,
  forallb (expr_frag locals) es = true ->
  forallb (fun e => len locals + len es + 1 + edepth e <=? 250) es = true -> cinv s locals ->
  ret_general ln es s = Some (u, s') -> ret_concl ln es locals s s'.
Proof.
  intros ln es s s' locals u Hf Hd [H1 [H2 [H3 H4]]] Hc.
  pose proof (len_nonneg _ locals) as Hnn. pose proof (len_nonneg _ es) as Hne.
  unfold ret_general in Hc. unfold cbind at 1 in Hc. rewrite H2 in Hc.
  destruct (crs_exprs ln (len locals) es s) as [[reg' sA]|] eqn:Cr; [|discriminate].
  assert (Hd' : forall e, In e es -> len locals + len es + edepth e < 256).
  { intros e Hin. rewrite forallb_forall in Hd. specialize (Hd e Hin). lia. }
  assert (Hb : len es + 1 < 512).
  { destruct es as [|e0 r]; [unfold len; cbn [length]; lia|].
    specialize (Hd' e0 (or_introl eq_refl)). pose proof (edepth_nonneg e0). lia. }
  assert (Q1 : len locals <= len locals) by lia. assert (Q4 : len locals <= 256) by lia.
  destruct (crs_ok es locals ln (len locals) s reg' sA Hf Hd' H1 H2 Q1 Hnn Q4 H3 Cr)
    as [B0 [B1 [B2 [B3 [B4 [seg [B5 [B6 B7]]]]]]]].
  unfold addABC, add in Hc. inversion Hc; subst s'. clear Hc.
  unfold ret_concl. cbn [cs_consts cs_code]. split; [assumption|]. split; [assumption|].
  exists ((opCreateABC (op_code OP_RETURN) (len locals) (reg' - len locals + 1) 0, ln) :: seg).
  split; [rewrite B5; reflexivity|].
  split; [constructor; [apply VM.OpcodeFacts.createABC_range|eapply wl_u32; eassumption]|].
  intros K HK rho rf Henv Hs rest. rewrite pev_list_pevr.
  rewrite (pevr_list_ext _ _ es (proj1 Henv)).
  specialize (B7 K HK rf (proj2 Henv) Hs). cbn [rev]. rewrite <- app_assoc.
  destruct (pevr_list (vlook locals rf) es) as [r|vs].
  { rewrite B7. destruct r; reflexivity. }
  destruct B7 as [rf' [F1 [F2 [F3 [F4 [F5 F6]]]]]].
  rewrite (isem_code_app _ _ _ _ _ F1). cbn [app isem_code].
  rewrite isem_return by lia. subst reg'.
  replace (len locals + len es - len locals + 1 - 1) with (len vs) by lia.
  unfold len at 1. rewrite Nat2Z.id. rewrite (firstn_skipn_zth vs rf' (len locals) Hnn F2). reflexivity.
Qed.

Lemma return_split : forall ln es s,
  compileReturnStmt ln es s = ret_general ln es s \/
  exists e x, es = [e] /\ strip_paren e = EVar x /\ FindLocalVar s x > -1 /\
              compileReturnStmt ln es s = addABC OP_RETURN (FindLocalVar s x) 2 0 ln s.
Proof.
  intros ln es s. unfold compileReturnStmt, ret_general.
  destruct es as [|e [|e2 r]]; try (left; reflexivity).
  destruct (strip_paren e) eqn:Es; try (left; reflexivity).
  destruct (FindLocalVar s x >? -1) eqn:Ei; [|left; reflexivity].
  right. exists e, x. repeat split; try assumption; try reflexivity. lia.
Qed.

Lemma return_ok : forall ln es s s' locals u,
  forallb (expr_frag locals) es = true ->
  forallb (fun e => len locals + len es + 1 + edepth e <=? 250) es = true -> cinv s locals ->
  compileStmt (SReturn ln es) s = Some (u, s') -> ret_concl ln es locals s s'.
Proof.
  intros ln es s s' locals u Hf Hd Hinv Hc. cbn [compileStmt] in Hc.
  destruct (return_split ln es s) as [E|[e [x [E1 [E2 [E3 E4]]]]]].
  { rewrite E in Hc. eapply ret_general_ok; eassumption. }
  rewrite E4 in Hc. destruct Hinv as [H1 [H2 [H3 H4]]]. subst es.
  unfold FindLocalVar in *. rewrite H1 in *. set (idx := find_last locals x 0 (-1)) in *.
  pose proof (find_last_range locals x 0 (-1) ltac:(lia)) as Hi1. fold idx in Hi1.
  unfold addABC, add in Hc. inversion Hc; subst s'. clear Hc.
  unfold ret_concl. cbn [cs_consts cs_code]. split; [assumption|]. split; [apply prefix_refl|].
  exists [(opCreateABC (op_code OP_RETURN) idx 2 0, ln)]. split; [reflexivity|].
  split; [constructor; [apply VM.OpcodeFacts.createABC_range|constructor]|].
  intros K HK rho rf Henv Hs rest. cbn [rev app isem_code pev_list].
  rewrite (env_pev rho locals rf e Henv). rewrite pevr_strip, E2. cbn [pevr].
  unfold vlook. fold idx. replace (idx >? -1) with true by lia.
  destruct Henv as [_ Hlen].
  destruct (zth_some_lt rf idx ltac:(lia)) as [v Hv]. rewrite Hv.
  rewrite isem_return by lia. rewrite (skipn_zth_cons rf idx v Hv). reflexivity.
Qed.

(* ---------- the chunk ---------- *)
Definition final_ret (ln : Z) : Z * Z := (opCreateABC (op_code OP_RETURN) 0 1 0, ln).

Lemma chunk_ok : forall b locals s u s',
  stmts_frag locals b = true -> cinv s locals -> compileChunk b s = Some (u, s') ->
  len (cs_consts s') <= 262144 /\ prefix_of (cs_consts s) (cs_consts s') /\
  exists seg, cs_code s' = seg ++ cs_code s /\ Forall u32 seg /\
    forall K, prefix_of (cs_consts s') K -> forall rho rf fin, env_rel rho locals rf -> rf_simple rf ->
      isem_code K (rev seg ++ [final_ret fin]) rf = prun rho b.
Proof.
  induction b as [|st b IH]; intros locals s u s' Hf Hinv Hc.
  - cbn [compileChunk] in Hc. unfold cret in Hc. inversion Hc; subst s'.
    destruct Hinv as [H1 [H2 [H3 H4]]]. split; [assumption|]. split; [apply prefix_refl|].
    exists []. split; [reflexivity|]. split; [constructor|].
    intros K HK rho rf fin Henv Hs. cbn [rev app isem_code prun final_ret].
    rewrite isem_return by (pose proof (len_nonneg _ rf); lia). reflexivity.
  - cbn [compileChunk] in Hc. unfold cbind at 1 in Hc.
    destruct (compileStmt st s) as [[u1 s1]|] eqn:Cs; [|discriminate].
    destruct st as [ln xs es|ln lhs es| | | | | | | | |ln es| | |]; cbn [stmts_frag] in Hf; try discriminate.
    + (* local *)
      destruct xs as [|x [|x2 xs]]; try discriminate. destruct es as [|e [|e2 es]]; try discriminate.
      apply andb_true_iff in Hf. destruct Hf as [Hf Hr]. apply andb_true_iff in Hf. destruct Hf as [Hf Hd].
      apply andb_true_iff in Hf. destruct Hf as [_ Hf]. unfold maxRegisters in Hd.
      destruct (local_ok ln x e s s1 locals u1 Hf ltac:(lia) Hinv Cs) as [I1 [P1 [segA [C1 [U1 S1]]]]].
      destruct (IH (locals ++ [x]) s1 u s' Hr I1 Hc) as [K2 [P2 [segB [C2 [U2 S2]]]]].
      split; [assumption|]. split; [eapply prefix_trans; eassumption|].
      exists (segB ++ segA). split; [rewrite C2, C1, app_assoc; reflexivity|].
      split; [apply Forall_app; split; assumption|].
      intros K HK rho rf fin Henv Hs. rewrite rev_app_distr, <- app_assoc. cbn [prun].
      specialize (S1 K (prefix_trans _ _ _ P2 HK) rho rf Henv Hs). unfold stmt_post in S1.
      destruct (pev rho e) as [v| |]; [|apply S1|apply S1].
      destruct S1 as [rf' [E1 [E2 E3]]]. rewrite (isem_code_app _ _ _ _ _ E1). apply S2; assumption.
    + (* assignment *)
      destruct lhs as [|l1 lhs]; try discriminate. destruct l1; try discriminate. destruct lhs; try discriminate.
      destruct es as [|e [|e2 es]]; try discriminate.
      apply andb_true_iff in Hf. destruct Hf as [Hf Hr]. apply andb_true_iff in Hf. destruct Hf as [Hf Hd].
      apply andb_true_iff in Hf. destruct Hf as [Hx Hf]. unfold maxRegisters in Hd. change name with bytes in Hd.
      destruct (assign_ok ln x e s s1 locals u1 Hx Hf ltac:(lia) Hinv Cs) as [I1 [P1 [segA [C1 [U1 S1]]]]].
      destruct (IH locals s1 u s' Hr I1 Hc) as [K2 [P2 [segB [C2 [U2 S2]]]]].
      split; [assumption|]. split; [eapply prefix_trans; eassumption|].
      exists (segB ++ segA). split; [rewrite C2, C1, app_assoc; reflexivity|].
      split; [apply Forall_app; split; assumption|].
      intros K HK rho rf fin Henv Hs. rewrite rev_app_distr, <- app_assoc. cbn [prun].
      specialize (S1 K (prefix_trans _ _ _ P2 HK) rho rf Henv Hs). unfold stmt_post in S1.
      destruct (pev rho e) as [v| |]; [|apply S1|apply S1].
      destruct S1 as [rf' [E1 [E2 E3]]]. rewrite (isem_code_app _ _ _ _ _ E1). apply S2; assumption.
    + (* return *)
      apply andb_true_iff in Hf. destruct Hf as [Hf Hd]. apply andb_true_iff in Hf. destruct Hf as [Hb Hf].
      destruct b; [|discriminate]. cbn [compileChunk] in Hc. unfold cret in Hc. inversion Hc; subst s'.
      unfold maxRegisters in Hd.
      destruct (return_ok ln es s s1 locals u1 Hf Hd Hinv Cs) as [K1 [P1 [seg [C1 [U1 S1]]]]].
      split; [assumption|]. split; [assumption|].
      exists seg. split; [assumption|]. split; [assumption|].
      intros K HK rho rf fin Henv Hs. cbn [prun]. apply (S1 K HK rho rf Henv Hs).
Qed.

(* ---------- the front half of frag_compile_correct (the statement is CC/FragGlue.front_half) ---------- *)
Theorem front_half_lemma :
  forall b x s, in_frag b = true -> compileChunk b (mkCS [] [] [] 0) = Some (x, s) ->
    let full := rev ((opCreateABC (op_code OP_RETURN) 0 1 0, last_line b 0) :: cs_code s) in
    isem_code (cs_consts s) full [] = prun [] b /\ Forall (fun wl => 0 <= fst wl < 2 ^ 32) full.
Proof.
  intros b x s Hin Hc full. unfold in_frag in Hin.
  assert (Hinv : cinv (mkCS [] [] [] 0) []).
  { unfold cinv, len. cbn [cs_locals cs_regtop cs_consts length]. repeat split; lia. }
  destruct (chunk_ok b [] (mkCS [] [] [] 0) x s Hin Hinv Hc) as [K1 [P1 [seg [C1 [U1 S1]]]]].
  cbn [cs_code] in C1. rewrite app_nil_r in C1.
  assert (Hfull : full = rev seg ++ [final_ret (last_line b 0)]).
  { unfold full. rewrite C1. reflexivity. }
  rewrite Hfull. split.
  - apply (S1 (cs_consts s) (prefix_refl _) [] [] (last_line b 0)); [|constructor].
    split; [|unfold len; cbn [length]; lia]. intro y. reflexivity.
  - apply Forall_app. split.
    + apply Forall_rev. exact U1.
    + constructor; [|constructor]. unfold final_ret. cbn [fst]. apply VM.OpcodeFacts.createABC_range.
Qed.
