(* CC: the fragment F4 = F3 (Frag3Sem.in_frag3) without the taint restriction: arithmetic and unary
   minus on operands that hold strings, with the coercion of numeric strings both the VM
   (objectArith / OP_UNM: parseNumber) and the reference evaluator (tonum) perform through the
   same Num.text_to_f. Every string literal of the program must be inside the exact fragment of
   text_to_f (not POutside; lit_ok), so that no coercion leaves it - all strings of a run are
   literals of the program. Definitions only.

   isem4: isem3 with arithmetic and UNM on nil / boolean / number / string operands. *)
From Coq Require Import Floats.
From GL Require Import Common.Bytes Lua.Syntax Lua.Num Lua.Values Lua.Eval Lua.Run.
From GL Require Import VMX.Machine CC.CompModel CC.FragSem CC.Frag1Sem CC.Frag2Sem CC.Frag3Sem.

Definition lit_ok (s : bytes) : bool := match text_to_f s with POutside => false | _ => true end.

(* values of F4: nil, booleans, numbers, strings inside the exact fragment of the coercion *)
Definition is_sval4 (v : value) : bool :=
  match v with VNil | VBool _ | VNum _ => true | VStr s => lit_ok s | _ => false end.

Definition parith4 (o : binop) (x y : value) : pres :=
  match tonum x, tonum y with
  | CNum f, CNum g => match arith_op o f g with Some r => PV (VNum r) | None => PUnsup end
  | COut, _ | _, COut => PUnsup
  | _, _ => PFault
  end.

Definition pneg4 (x : value) : pres :=
  match tonum x with CNum f => PV (VNum (- f)%float) | COut => PUnsup | CNo => PFault end.

(* ---------- straight-line bytecode: arithmetic with coercion, GETGLOBAL ---------- *)
Definition ires_of (rf : rfile) (A : Z) (r : pres) : ires :=
  match r with
  | PV v => match setr rf A v with Some rf' => IOk rf' | None => IStuck end
  | PFault => IFault
  | PUnsup => IUnsup
  end.

Definition arith4 (consts : list value) (rf : rfile) (o : binop) (A B C : Z) : ires :=
  match rkval consts rf B, rkval consts rf C with
  | Some x, Some y => if is_sval4 x && is_sval4 y then ires_of rf A (parith4 o x y) else IStuck
  | _, _ => IStuck
  end.

Definition unm4 (consts : list value) (rf : rfile) (A B : Z) : ires :=
  match rkval consts rf B with
  | Some x => if is_sval4 x then ires_of rf A (pneg4 x) else IStuck
  | None => IStuck
  end.

Definition isem4_inst (consts : list value) (w : Z) (rf : rfile) : ires :=
  let A := opGetArgA w in let B := opGetArgB w in let C := opGetArgC w in
  match op_of_code (opGetOpCode w) with
  | Some OP_ADD => arith4 consts rf OAdd A B C | Some OP_SUB => arith4 consts rf OSub A B C
  | Some OP_MUL => arith4 consts rf OMul A B C | Some OP_DIV => arith4 consts rf ODiv A B C
  | Some OP_MOD => arith4 consts rf OMod A B C | Some OP_POW => arith4 consts rf OPow A B C
  | Some OP_UNM => unm4 consts rf A B
  | _ => isem3_inst consts w rf
  end.

Fixpoint isem4_code (consts : list value) (code : list (Z * Z)) (rf : rfile) : cres :=
  match code with
  | [] => CStuck
  | (w, ln) :: r =>
      match isem4_inst consts w rf with
      | IOk rf' => isem4_code consts r rf'
      | IRet vs => CRet vs
      | IFault => CFault ln
      | IUnsup => CUnsup
      | IStuck => CStuck
      end
  end.

(* ---------- direct semantics ---------- *)
Fixpoint pev4 (rho : penv) (e : expr) : pres :=
  match e with
  | ENil => PV VNil | ETrue => PV (VBool true) | EFalse => PV (VBool false)
  | ENum f => PV (VNum f)
  | EStr s => if lit_ok s then PV (VStr s) else PUnsup      (* F4 has no other string literals *)
  | EVar x => match plookup rho x with
              | Some v => PV v
              | None => if undefined_global x then PV VNil else PUnsup
              end
  | EParen a => pev4 rho a
  | EBin o a b =>
      match pev4 rho a with
      | PV x => match pev4 rho b with PV y => parith4 o x y | r => r end
      | r => r
      end
  | EUn ONeg a => match pev4 rho a with PV x => pneg4 x | r => r end
  | EUn ONot a => match pev4 rho a with PV v => PV (VBool (negb (truthy v))) | r => r end
  | _ => PUnsup
  end.

Fixpoint pev4_list (rho : penv) (es : list expr) : pres + list value :=
  match es with
  | [] => inr []
  | e :: r => match pev4 rho e with
              | PV v => match pev4_list rho r with inr vs => inr (v :: vs) | inl x => inl x end
              | x => inl x
              end
  end.

Fixpoint prun4 (rho : penv) (b : list stmt) : cres :=
  match b with
  | [] => CRet []
  | SLocal ln xs es :: r =>
      match pev4_list rho es with
      | inr vs => prun4 (rev (combine xs (adjust (length xs) vs)) ++ rho) r
      | inl p => pcres ln p
      end
  | SAssign ln lhs es :: r =>
      match assign_targets lhs with
      | Some xs =>
          match pev4_list rho es with
          | inr vs => prun4 (pstore rho (rev (combine xs (adjust (length xs) vs)))) r
          | inl p => pcres ln p
          end
      | None => CStuck
      end
  | SReturn ln es :: _ =>
      match pev4_list rho es with inr vs => CRet vs | inl p => pcres ln p end
  | _ => CStuck
  end.

(* ---------- the fragment: no typing any more ---------- *)
Fixpoint expr_frag4 (locals : list name) (e : expr) : bool :=
  match e with
  | ENil | ETrue | EFalse | ENum _ => true
  | EStr s => lit_ok s
  | EVar x => existsb (beqb x) locals || undefined_global x
  | EParen a => expr_frag4 locals a
  | EBin o a b => is_arith_op o && expr_frag4 locals a && expr_frag4 locals b
  | EUn ONeg a | EUn ONot a => expr_frag4 locals a
  | _ => false
  end.

Fixpoint stmts_frag4 (locals : list name) (b : list stmt) : bool :=
  match b with
  | [] => true
  | SLocal _ xs es :: r =>
      (1 <=? len xs) && forallb (expr_frag4 locals) es && budget locals es
      && (len locals + len xs <=? maxRegisters) && stmts_frag4 (locals ++ xs) r
  | SAssign _ lhs es :: r =>
      match assign_targets lhs with
      | Some xs =>
          (1 <=? len xs) && (1 <=? len es) && forallb (fun x => existsb (beqb x) locals) xs
          && forallb (expr_frag4 locals) es && budget locals es
          && (len locals + len xs <=? maxRegisters)
      | None => false
      end && stmts_frag4 locals r
  | SReturn _ es :: r =>
      match r with [] => true | _ => false end &&
      forallb (expr_frag4 locals) es &&
      forallb (fun e => len locals + len es + 1 + edepth e <=? maxRegisters) es
  | _ => false
  end.

Definition in_frag4 (b : list stmt) : bool := stmts_frag4 [] b.
