(* CC: reference half on the fragment F4 (Frag4Sem: arithmetic and unary minus with the coercion
   of numeric strings): the reference evaluator agrees with the direct semantics prun4. A port of
   Frag3Eval.v: cells hold nil, booleans, numbers or strings inside the exact fragment of the
   coercion; the state invariant also records the string metatable (no arithmetic events), so that
   binop_v / unop_v on such operands are parith4 / pneg4. *)
From Coq Require Import Floats Lia.
From GL Require Import Common.Bytes Lua.Syntax Lua.Num Lua.Values Lua.Names Lua.Eval Lua.Run.
From GL Require Import Lua.ValuesFacts Lua.MonadFacts Lua.EvalStepFacts Lua.CallFacts Lua.CoreFacts.
From GL Require Import VMX.Machine CC.CompModel CC.FragSem CC.FragEvalFacts CC.Frag1Sem CC.Frag1Eval CC.Frag2Sem CC.Frag3Sem CC.Frag4Sem.
From GL Require CC.CompFacts CC.Frag4Facts.

Section F4.
Variable T : list name.

Definition vtyped (x : name) (v : value) : Prop :=
  is_sval4 v = true /\ (Frag4Facts.tainted4 T x = false -> is_simple v = true).

(* ---------- the invariant: locals live in distinct valid cells holding typed values ---------- *)
Inductive rel (cl : list value) : env -> penv -> Prop :=
| rel_nil : rel cl [] []
| rel_cons x c v en rho :
    nth c cl VNil = v -> vtyped x v -> (c < length cl)%nat -> ~ In c (map snd en) ->
    rel cl en rho -> rel cl ((x, c) :: en) ((x, v) :: rho).



Lemma rel_lookup cl en rho x v : rel cl en rho -> plookup rho x = Some v ->
  exists c, lookup en x = Some c /\ nth c cl VNil = v /\ (c < length cl)%nat.
Proof.
  induction 1 as [|y c w en rho Hn Hs Hc Hni Hr IH]; simpl; [discriminate|].
  destruct (beqb x y); [intros H; inversion H; subst; eauto|exact IH].
Qed.

Lemma rel_lookup_none cl en rho x : rel cl en rho -> plookup rho x = None -> lookup en x = None.
Proof.
  induction 1 as [|y c w en rho Hn Hs Hc Hni Hr IH]; simpl; auto. destruct (beqb x y); [discriminate|exact IH].
Qed.

Lemma rel_lookup_rev cl en rho x c : rel cl en rho -> lookup en x = Some c ->
  exists v, plookup rho x = Some v /\ nth c cl VNil = v.
Proof.
  induction 1 as [|y d w en rho Hn Hs Hc Hni Hr IH]; simpl; [discriminate|].
  destruct (beqb x y); [intros H; inversion H; subst; eauto|exact IH].
Qed.

Lemma rel_typed cl en rho x v : rel cl en rho -> plookup rho x = Some v -> vtyped x v.
Proof.
  induction 1 as [|y c w en rho Hn Hs Hc Hni Hr IH]; simpl; [discriminate|].
  destruct (beqb x y) eqn:E; [|exact IH]. apply CompFacts.beqb_eq in E. subst y.
  intros H; inversion H; subst; auto.
Qed.

Lemma rel_look_ok cl en rho : rel cl en rho -> Frag4Facts.look_ok T (plookup rho).
Proof. intros Hr x v H. exact (rel_typed _ _ _ _ _ Hr H). Qed.


Lemma rel_grow cl en rho v : rel cl en rho -> rel (cl ++ [v]) en rho.
Proof.
  induction 1 as [|y c w en rho Hn Hs Hc Hni Hr IH]; constructor; auto.
  - rewrite app_nth1; auto.
  - rewrite app_length; simpl; lia.
Qed.

Lemma rel_bound cl en rho c : rel cl en rho -> In c (map snd en) -> (c < length cl)%nat.
Proof. induction 1 as [|y d w en rho Hn Hs Hc Hni Hr IH]; simpl; [tauto|]. intros [<-|H]; auto. Qed.

Lemma rel_new cl en rho x v : rel cl en rho -> vtyped x v ->
  rel (cl ++ [v]) ((x, length cl) :: en) ((x, v) :: rho).
Proof.
  intros H Hs. constructor; auto.
  - rewrite app_nth2 by lia. rewrite Nat.sub_diag. reflexivity.
  - rewrite app_length; simpl; lia.
  - intros Hin. apply (rel_bound _ _ _ _ H) in Hin. lia.
  - apply rel_grow; auto.
Qed.


Lemma rel_set_other cl en rho c v : rel cl en rho -> ~ In c (map snd en) -> rel (set_nth cl c v) en rho.
Proof.
  induction 1 as [|y d w en rho Hn Hs Hc Hni Hr IH]; intros Hnin; constructor; auto.
  - rewrite set_nth_other_lemma; auto. intros ->. apply Hnin. left; reflexivity.
  - rewrite set_nth_length_lemma; auto.
  - apply IH. intros Hin. apply Hnin. right; auto.
Qed.

Lemma rel_assign cl en rho x c v : rel cl en rho -> lookup en x = Some c -> vtyped x v ->
  rel (set_nth cl c v) en (pupdate rho x v).
Proof.
  induction 1 as [|y d w en rho Hn Hs Hc Hni Hr IH]; simpl; [discriminate|].
  destruct (beqb x y) eqn:E.
  - apply CompFacts.beqb_eq in E. subst y. intros H Hv. inversion H; subst d. constructor; auto.
    + apply set_nth_same_lemma; auto.
    + rewrite set_nth_length_lemma; auto.
    + apply rel_set_other; auto.
  - intros H Hv. constructor; auto.
    + rewrite set_nth_other_lemma; auto. intros ->. apply Hni. eapply lookup_in; eauto.
    + rewrite set_nth_length_lemma; auto.
Qed.

Lemma pev4_sval cl en rho e v : rel cl en rho -> pev4 rho e = PV v -> is_sval4 v = true.
Proof. intros Hr H. rewrite Frag4Facts.pev_pevr in H. eapply Frag4Facts.pevr_sval; [eapply rel_look_ok; eauto|eauto]. Qed.

(* ---------- the global table and the scope of the pure environment ---------- *)
Definition ginv (cx : ctx) (s : state) : Prop :=
  c_fenv (nth (cx_clo cx) (clos s) dummy_clo) = 0%nat /\ nth 0 (tabs s) empty_tab = g_globals /\
  strmt s = Some 5%nat /\ nth 5 (tabs s) empty_tab = g_strmt.

Definition scoped (locals : list name) (rho : penv) : Prop :=
  forall x, existsb (beqb x) locals = false -> plookup rho x = None.

Lemma scoped_new locals rho x v : scoped locals rho -> scoped (locals ++ [x]) ((x, v) :: rho).
Proof.
  intros H y Hy. rewrite existsb_app in Hy. apply Bool.orb_false_iff in Hy. destruct Hy as [H1 H2].
  simpl in H2. rewrite Bool.orb_false_r in H2. simpl. rewrite H2. apply H. exact H1.
Qed.

Lemma scoped_list xs : forall ws locals rho, length xs = length ws -> scoped locals rho ->
  scoped (locals ++ xs) (rev (combine xs ws) ++ rho).
Proof.
  induction xs as [|x xs IH]; intros ws locals rho Hlen Hc; destruct ws as [|w ws]; simpl in Hlen; try discriminate.
  - simpl. rewrite app_nil_r. exact Hc.
  - cbn [combine rev]. rewrite <- app_assoc. cbn [app].
    replace (locals ++ x :: xs) with ((locals ++ [x]) ++ xs) by (rewrite <- app_assoc; reflexivity).
    apply IH; [lia|]. apply scoped_new. exact Hc.
Qed.

Lemma scoped_update locals rho x v : scoped locals rho -> scoped locals (pupdate rho x v).
Proof.
  intros H y Hy. rewrite CompFacts.plookup_pupdate. destruct (beqb y x) eqn:E; [|apply H; exact Hy].
  apply CompFacts.beqb_eq in E. subst y. rewrite (H x Hy). reflexivity.
Qed.

Lemma scoped_pstore locals l : forall rho, scoped locals rho -> scoped locals (pstore rho l).
Proof.
  induction l as [|p l IH]; intros rho H; [exact H|]. rewrite pstore_cons. apply IH. apply scoped_update. exact H.
Qed.

(* a name that is neither a local nor a key of the global table reads as nil *)
Lemma eval_global n cx ln en x s : ginv cx s -> lookup en x = None -> undefined_global x = true ->
  eval_e (S (S n)) cx ln en (EVar x) s = Ret VNil s.
Proof.
  intros [Hf [Hg _]] Hl Hu. rewrite eval_e_var, Hl. unfold bindM, read_clo. cbn [bind]. rewrite Hf.
  rewrite index_tab. unfold bindM, read_tab. cbn [bind]. rewrite Hg.
  unfold undefined_global in Hu. destruct (kv_get (t_kv g_globals) (VStr x)) eqn:E; try discriminate.
  cbn [is_nil negb]. unfold getmeta, metafield, metatable_of. rewrite Hg. reflexivity.
Qed.

(* ---------- arithmetic on nil / boolean / number / string operands ---------- *)
Lemma sval4_not_out v : is_sval4 v = true -> tonum v <> COut.
Proof.
  intros H. destruct v; try discriminate; cbn [tonum]; try discriminate.
  unfold is_sval4, lit_ok in H. destruct (text_to_f s); try discriminate.
Qed.

Lemma strmt_no_event o : kv_get (t_kv g_strmt) (VStr (arith_event o)) = VNil.
Proof. destruct o; reflexivity. Qed.

Lemma metafield_sval4 cx s v ev : ginv cx s -> is_sval4 v = true ->
  kv_get (t_kv g_strmt) (VStr ev) = VNil -> metafield s v ev = VNil.
Proof.
  intros [_ [_ [Hm Ht]]] Hv He. destruct v; try discriminate; try reflexivity.
  unfold metafield, metatable_of. rewrite Hm, Ht. exact He.
Qed.

Lemma binop_sval4 n cx fr o x y s : ginv cx s ->
  is_arith_op o = true -> is_sval4 x = true -> is_sval4 y = true ->
  binop_v (S n) fr o x y s = pres_res (frames_line fr) (parith4 o x y) s.
Proof.
  intros Hg Ho Hx Hy. rewrite binop_arith by (rewrite <- is_arith_same; exact Ho).
  pose proof (sval4_not_out x Hx) as Ox. pose proof (sval4_not_out y Hy) as Oy.
  pose proof (metafield_sval4 cx s x _ Hg Hx (strmt_no_event o)) as Mx.
  pose proof (metafield_sval4 cx s y _ Hg Hy (strmt_no_event o)) as My.
  unfold parith4.
  destruct (tonum x) as [f| |]; [| |contradiction]; (destruct (tonum y) as [g| |]; [| |contradiction]).
  - destruct (arith_op o f g); reflexivity.
  - unfold bindM, getmeta. cbn [bind]. rewrite Mx. cbn [is_nil]. cbn [bind]. rewrite My. reflexivity.
  - unfold bindM, getmeta. cbn [bind]. rewrite Mx. cbn [is_nil]. cbn [bind]. rewrite My. reflexivity.
  - unfold bindM, getmeta. cbn [bind]. rewrite Mx. cbn [is_nil]. cbn [bind]. rewrite My. reflexivity.
Qed.

Lemma neg_sval4 n cx fr x s : ginv cx s -> is_sval4 x = true ->
  unop_v (S n) fr ONeg x s = pres_res (frames_line fr) (pneg4 x) s.
Proof.
  intros Hg Hx. rewrite unop_neg. pose proof (sval4_not_out x Hx) as Ox.
  pose proof (metafield_sval4 cx s x s_mm_unm Hg Hx eq_refl) as Mx.
  unfold pneg4. destruct (tonum x) as [f| |]; [| |contradiction]; [reflexivity|].
  unfold bindM, getmeta. cbn [bind]. rewrite Mx. reflexivity.
Qed.

Lemma eval_frag e : forall n cx ln en st rho locals,
  rel (cells st) en rho -> covers locals rho -> ginv cx st -> scoped locals rho ->
  expr_frag4 locals e = true -> (S (eh e) <= n)%nat ->
  eval_e n cx ln en e st = pres_res ln (pev4 rho e) st.
Proof.
  induction e; intros n cx ln en st rho locals Hr Hc Hg Hsc Hf Hn; simpl in Hf; try discriminate;
    (destruct n as [|n]; [simpl in Hn; lia|]).
  - reflexivity.
  - reflexivity.
  - reflexivity.
  - reflexivity.
  - simpl. rewrite Hf. reflexivity.
  - (* variable *)
    destruct (existsb (beqb x) locals) eqn:Ex.
    + destruct (Hc x Ex) as [v Hv]. destruct (rel_lookup _ _ _ _ _ Hr Hv) as [c [Hl [Hnth _]]].
      rewrite eval_e_var, Hl. simpl. rewrite Hv. unfold read_cell. rewrite Hnth. reflexivity.
    + simpl in Hf. destruct n as [|n']; [simpl in Hn; lia|].
      pose proof (Hsc x Ex) as Hnone.
      rewrite (eval_global n' cx ln en x st Hg (rel_lookup_none _ _ _ _ Hr Hnone) Hf).
      simpl. rewrite Hnone, Hf. reflexivity.
  - (* binary arithmetic *)
    apply andb_prop in Hf. destruct Hf as [Hf Hf2]. apply andb_prop in Hf. destruct Hf as [Ho Hf1].
    cbn [eh] in Hn.
    assert (Hn1 : (S (eh e1) <= n)%nat) by lia. assert (Hn2 : (S (eh e2) <= n)%nat) by lia.
    destruct n as [|n']; [lia|].
    pose proof (IHe1 (S n') cx ln en st rho locals Hr Hc Hg Hsc Hf1 Hn1) as E1.
    pose proof (IHe2 (S n') cx ln en st rho locals Hr Hc Hg Hsc Hf2 Hn2) as E2.
    rewrite eval_e_bin. cbn [pev4].
    destruct (bin_late en o e1) as [c|] eqn:El.
    + (* the left operand is a local read after the right operand *)
      destruct e1; try (destruct o; discriminate).
      assert (Hl : lookup en x = Some c) by (destruct o; simpl in El; try discriminate; exact El).
      destruct (rel_lookup_rev _ _ _ _ _ Hr Hl) as [v [Hv Hnth]].
      cbn [pev4]. rewrite Hv. unfold bindM at 1. rewrite E2, bind_pres.
      destruct (pev4 rho e2) as [y| |] eqn:P2; try reflexivity.
      unfold bindM, read_cell. cbn [bind]. rewrite Hnth.
      rewrite (binop_sval4 _ cx); [reflexivity|exact Hg|exact Ho|exact (proj1 (rel_typed _ _ _ _ _ Hr Hv))|eapply pev4_sval; [exact Hr|exact P2]].
    + unfold bindM at 1. rewrite E1, bind_pres.
      destruct (pev4 rho e1) as [x| |] eqn:P1; try reflexivity.
      unfold bindM at 1. rewrite E2, bind_pres.
      destruct (pev4 rho e2) as [y| |] eqn:P2; try reflexivity.
      rewrite (binop_sval4 _ cx); [reflexivity|exact Hg|exact Ho|eapply pev4_sval; [exact Hr|exact P1]|eapply pev4_sval; [exact Hr|exact P2]].
  - (* unary *)
    cbn [eh] in Hn. assert (Hn1 : (S (eh e) <= n)%nat) by lia. destruct n as [|n']; [lia|].
    destruct o; try discriminate.
    + pose proof (IHe (S n') cx ln en st rho locals Hr Hc Hg Hsc Hf Hn1) as E1.
      rewrite eval_e_un. unfold bindM. rewrite E1, bind_pres. cbn [pev4].
      destruct (pev4 rho e) as [x| |] eqn:P1; try reflexivity.
      rewrite (neg_sval4 _ cx) by (auto; eapply pev4_sval; eauto). reflexivity.
    + pose proof (IHe (S n') cx ln en st rho locals Hr Hc Hg Hsc Hf Hn1) as E1.
      rewrite eval_e_un. unfold bindM. rewrite E1, bind_pres. cbn [pev4].
      destruct (pev4 rho e) as [x| |] eqn:P1; reflexivity.
  - (* parentheses *)
    cbn [eh] in Hn. rewrite eval_e_paren. cbn [pev4]. eapply IHe; eauto. lia.
Qed.

Lemma frag_not_multi locals e : expr_frag4 locals e = true -> is_multi e = false.
Proof. destruct e; simpl; try discriminate; reflexivity. Qed.

Lemma eval_multi_frag e n cx ln en s rho locals :
  rel (cells s) en rho -> covers locals rho -> ginv cx s -> scoped locals rho ->
  expr_frag4 locals e = true -> (S (S (eh e)) <= n)%nat ->
  eval_multi n cx ln en e s =
  match pev4 rho e with PV v => Ret [v] s | PFault => Err (VFault 2 ln) s | PUnsup => Unsup 1 end.
Proof.
  intros Hr Hc Hg Hsc Hf Hn. destruct n as [|n]; [lia|].
  rewrite eval_multi_single by (eapply frag_not_multi; eauto). unfold bindM.
  rewrite (eval_frag e n cx ln en s rho locals) by (auto; lia). rewrite bind_pres.
  destruct (pev4 rho e); reflexivity.
Qed.

Lemma pev_list_not_pv rho es v : pev4_list rho es <> inl (PV v).
Proof.
  induction es as [|e r IH]; simpl; [discriminate|].
  destruct (pev4 rho e); try discriminate. destruct (pev4_list rho r) eqn:E; [|discriminate].
  intros H; inversion H; subst. apply IH. reflexivity.
Qed.

Lemma eval_list_frag es : forall n cx ln en s rho locals,
  rel (cells s) en rho -> covers locals rho -> ginv cx s -> scoped locals rho ->
  forallb (expr_frag4 locals) es = true -> (S (S (ehs es)) <= n)%nat ->
  eval_list_with (eval_e n cx ln en) (eval_multi n cx ln en) es s = plist_res ln (pev4_list rho es) s.
Proof.
  induction es as [|e r IH]; intros n cx ln en s rho locals Hr Hc Hg Hsc Hf Hn; [reflexivity|].
  simpl in Hf. apply andb_prop in Hf. destruct Hf as [Hfe Hfr]. cbn [ehs fold_right] in Hn. fold (ehs r) in Hn.
  destruct r as [|e' r'].
  - rewrite eval_list_with_last_lemma. rewrite (eval_multi_frag e n cx ln en s rho locals) by (auto; lia).
    simpl. destruct (pev4 rho e); reflexivity.
  - rewrite eval_list_with_cons_lemma. remember (e' :: r') as rr eqn:Err.
    unfold bindM at 1.
    rewrite (eval_frag e n cx ln en s rho locals) by (auto; lia). rewrite bind_pres.
    cbn [pev4_list]. destruct (pev4 rho e) as [v| |]; try reflexivity.
    unfold bindM. rewrite (IH n cx ln en s rho locals) by (auto; lia).
    destruct (pev4_list rho rr) as [[w| |]|vs] eqn:E; reflexivity.
Qed.

Lemma exec_return_frag n cx en ln es s locals : forallb (expr_frag4 locals) es = true ->
  exec (S n) cx en (SReturn ln es) s =
  bind (eval_list_with (eval_e n cx ln en) (eval_multi n cx ln en) es s) (fun vs => ret (SigReturn vs, en)).
Proof.
  intros Hf. destruct es as [|e r]; [reflexivity|].
  destruct e; try (destruct r; reflexivity). simpl in Hf. discriminate.
Qed.

Lemma pev4_list_sval cl en rho es vs : rel cl en rho -> pev4_list rho es = inr vs -> forallb is_sval4 vs = true.
Proof.
  intros Hr. revert vs. induction es as [|e r IH]; intros vs; simpl.
  - intros H; inversion H; reflexivity.
  - destruct (pev4 rho e) as [v| |] eqn:P; try discriminate.
    destruct (pev4_list rho r) as [x|ws]; [discriminate|]. intros H; inversion H; subst. simpl.
    rewrite (pev4_sval _ _ _ _ _ Hr P). apply IH. reflexivity.
Qed.


Lemma exec_local1 n cx en ln xs es s locals : forallb (expr_frag4 locals) es = true ->
  exec (S n) cx en (SLocal ln xs es) s =
  bind (eval_list_with (eval_e n cx ln en) (eval_multi n cx ln en) es s)
       (fun vs => do cs <- mapM alloc_cell (adjust (length xs) vs); ret (SigNormal, rev (combine xs cs) ++ en)).
Proof.
  intros H. destruct xs as [|x [|x' xs]]; destruct es as [|e es]; try reflexivity;
    destruct e; try reflexivity; destruct es; try reflexivity; simpl in H; discriminate.
Qed.

Lemma adjust_sval n : forall vs, forallb is_sval4 vs = true -> forallb is_sval4 (adjust n vs) = true.
Proof.
  induction n as [|n IH]; intros vs H; [reflexivity|]. destruct vs as [|v vs]; simpl.
  - apply (IH []). reflexivity.
  - simpl in H. apply andb_prop in H. destruct H as [Hv Hr]. rewrite Hv. apply IH. exact Hr.
Qed.

Lemma rel_new_list xs : forall ws cl en rho, length xs = length ws -> forallb is_sval4 ws = true ->
  Frag4Facts.typed_pairs T (combine xs ws) -> rel cl en rho ->
  rel (cl ++ ws) (rev (combine xs (seq (length cl) (length ws))) ++ en) (rev (combine xs ws) ++ rho).
Proof.
  induction xs as [|x xs IH]; intros ws cl en rho Hlen Hs Hty Hr; destruct ws as [|w ws]; simpl in Hlen; try discriminate.
  - simpl. rewrite app_nil_r. exact Hr.
  - simpl in Hs. apply andb_prop in Hs. destruct Hs as [Hw Hws].
    cbn [combine] in Hty. inversion Hty as [|p0 l0 Hp Hty']; subst p0 l0. cbn [fst snd] in Hp.
    cbn [length seq combine rev]. rewrite <- !app_assoc. cbn [app].
    replace (cl ++ w :: ws) with ((cl ++ [w]) ++ ws) by (rewrite <- app_assoc; reflexivity).
    replace (S (length cl)) with (length (cl ++ [w])) by (rewrite app_length; simpl; lia).
    apply IH; [lia|exact Hws|exact Hty'|]. apply rel_new; [assumption|]. split; assumption.
Qed.


Lemma target_cells cl en rho locals xs : rel cl en rho -> covers locals rho ->
  forallb (fun x => existsb (beqb x) locals) xs = true ->
  exists cs, Forall2 (fun x c => lookup en x = Some c) xs cs.
Proof.
  intros Hr Hc. induction xs as [|x xs IH]; intros H; [exists []; constructor|].
  simpl in H. apply andb_prop in H. destruct H as [Hx Hxs].
  destruct (IH Hxs) as [cs Hcs]. destruct (Hc x Hx) as [v Hv].
  destruct (rel_lookup _ _ _ _ _ Hr Hv) as [c [Hl _]].
  exists (c :: cs). constructor; assumption.
Qed.

Lemma rel_store en lx lc : Forall2 (pair_ok en) lx lc ->
  forall cl rho, (forall p, In p lx -> vtyped (fst p) (snd p)) -> rel cl en rho ->
  rel (store_cells lc cl) en (pstore rho lx).
Proof.
  induction 1 as [|p q lx lc [Hl Hv] Hr IH]; intros cl rho Hs Hrel; [exact Hrel|].
  rewrite store_cells_cons, pstore_cons. apply IH.
  - intros p0 Hin. apply Hs. right. exact Hin.
  - rewrite <- Hv. apply rel_assign; [exact Hrel|exact Hl|]. apply Hs. left. reflexivity.
Qed.

Lemma forallb_In_sval (vs : list value) : forallb is_sval4 vs = true -> forall v, In v vs -> is_sval4 v = true.
Proof. intros H v Hin. rewrite forallb_forall in H. auto. Qed.


Lemma block_frag1 rest : forall n cx all pos en hist s rho locals,
  rel (cells s) en rho -> covers locals rho -> ginv cx s -> scoped locals rho ->
  stmts_frag4 locals rest = true -> (S (bh rest) <= n)%nat ->
  match prun4 rho rest with
  | CRet vs => exists sg en' s', block_go n cx all rest pos en hist s = Ret (sg, en') s' /\
                 sig_vals sg = Some vs /\ forallb is_sval4 vs = true /\ trace s' = trace s
  | CFault ln => exists s', block_go n cx all rest pos en hist s = Err (VFault 2 ln) s' /\ trace s' = trace s
  | CUnsup => block_go n cx all rest pos en hist s = Unsup 1
  | CStuck => False
  end.
Proof.
  induction rest as [|st rest IH]; intros n cx all pos en hist s rho locals Hr Hc Hg Hsc Hf Hn.
  - simpl. exists SigNormal, en, s. repeat split.
  - rewrite bh_cons in Hn. destruct st; try discriminate.
    + (* local xs = es *)
      cbn [stmts_frag4] in Hf. apply andb_prop in Hf. destruct Hf as [Hf Hrest].
      apply andb_prop in Hf. destruct Hf as [Hf _]. apply andb_prop in Hf. destruct Hf as [Hf _].
      apply andb_prop in Hf. destruct Hf as [_ Hes].
      cbn [sh] in Hn. destruct n as [|n1]; [lia|].
      assert (Hbg : block_go (S n1) cx all (SLocal ln xs es :: rest) pos en hist s =
                match pev4_list rho es with
                | inr vs => block_go (S n1) cx all rest (S pos)
                              (rev (combine xs (seq (length (cells s)) (length (adjust (length xs) vs)))) ++ en)
                              (hist ++ [en]) (with_cells s (cells s ++ adjust (length xs) vs))
                | inl PFault => Err (VFault 2 ln) s
                | inl _ => Unsup 1
                end).
      { cbn [block_go]. unfold bindM at 1. rewrite (exec_local1 _ _ _ _ _ _ _ locals Hes).
        rewrite (eval_list_frag es n1 cx ln en s rho locals) by (auto; lia).
        destruct (pev4_list rho es) as [[w| |]|vs]; try reflexivity.
        cbn [plist_res bind]. unfold bindM at 1. rewrite mapM_alloc_cell_lemma. reflexivity. }
      rewrite Hbg. cbn [prun4].
      destruct (pev4_list rho es) as [[w| |]|vs] eqn:P; cbn [pcres].
      * exfalso. exact (pev_list_not_pv _ _ _ P).
      * exists s. split; reflexivity.
      * reflexivity.
      * assert (Hsv : forallb is_sval4 vs = true) by (eapply pev4_list_sval; eauto).
        assert (Hty : Frag4Facts.typed_pairs T (combine xs (adjust (length xs) vs))).
        { apply Frag4Facts.typed_all. }
        set (ws := adjust (length xs) vs).
        assert (Hlw : length xs = length ws) by (unfold ws; rewrite adjust_len; reflexivity).
        specialize (IH (S n1) cx all (S pos) (rev (combine xs (seq (length (cells s)) (length ws))) ++ en)
                       (hist ++ [en]) (with_cells s (cells s ++ ws)) (rev (combine xs ws) ++ rho) (locals ++ xs)).
        cbn [cells with_cells] in IH.
        specialize (IH (rel_new_list xs ws _ _ _ Hlw (adjust_sval _ _ Hsv) Hty Hr) (covers_list xs ws _ _ Hlw Hc) Hg (scoped_list xs ws _ _ Hlw Hsc) Hrest ltac:(lia)).
        exact IH.
    + (* xs = es *)
      cbn [stmts_frag4] in Hf. apply andb_prop in Hf. destruct Hf as [Hf Hrest].
      destruct (assign_targets lhs) as [xs|] eqn:Hat; [|discriminate].
      apply andb_prop in Hf. destruct Hf as [Hf _]. apply andb_prop in Hf. destruct Hf as [Hf _].
      apply andb_prop in Hf. destruct Hf as [Hf Hes]. apply andb_prop in Hf. destruct Hf as [_ Hxs].
      pose proof (assign_targets_map _ _ Hat) as Hl. subst lhs.
      destruct (target_cells _ _ _ _ _ Hr Hc Hxs) as [cs Hcs].
      pose proof (Forall2_len _ _ _ Hcs) as Hlc.
      cbn [sh] in Hn. destruct n as [|n1]; [lia|].
      assert (Hbg : block_go (S n1) cx all (SAssign ln (map EVar xs) es :: rest) pos en hist s =
                match pev4_list rho es with
                | inr vs => block_go (S n1) cx all rest (S pos) en (hist ++ [en])
                              (with_cells s (store_cells (rev (combine cs (adjust (length xs) vs))) (cells s)))
                | inl PFault => Err (VFault 2 ln) s
                | inl _ => Unsup 1
                end).
      { cbn [block_go]. unfold bindM at 1. rewrite exec_assign. unfold bindM at 1.
        rewrite (assign_ref_locals_lemma n1 cx ln en xs cs s Hcs). cbn [bind]. unfold bindM at 1.
        rewrite (eval_list_frag es n1 cx ln en s rho locals) by (auto; lia).
        destruct (pev4_list rho es) as [[w| |]|vs]; try reflexivity.
        cbn [plist_res bind]. unfold bindM at 1. rewrite map_length, <- Hlc.
        rewrite combine_map_inl, <- map_rev. rewrite assign_store_cells_lemma. reflexivity. }
      rewrite Hbg. cbn [prun4]. rewrite Hat.
      destruct (pev4_list rho es) as [[w| |]|vs] eqn:P; cbn [pcres].
      * exfalso. exact (pev_list_not_pv _ _ _ P).
      * exists s. split; reflexivity.
      * reflexivity.
      * assert (Hsv : forallb is_sval4 vs = true) by (eapply pev4_list_sval; eauto).
        assert (Hty : Frag4Facts.typed_pairs T (combine xs (adjust (length xs) vs))).
        { apply Frag4Facts.typed_all. }
        set (ws := adjust (length xs) vs).
        specialize (IH (S n1) cx all (S pos) en (hist ++ [en])
                       (with_cells s (store_cells (rev (combine cs ws)) (cells s)))
                       (pstore rho (rev (combine xs ws))) locals).
        cbn [cells with_cells] in IH.
        assert (Hrel : rel (store_cells (rev (combine cs ws)) (cells s)) en (pstore rho (rev (combine xs ws)))).
        { apply rel_store; [apply pairs_ok; exact Hcs| |exact Hr].
          intros p Hin. apply in_rev in Hin. split.
          - apply (forallb_In_sval ws (adjust_sval _ _ Hsv)). destruct p as [px pw]. eapply in_combine_r. exact Hin.
          - unfold Frag4Facts.typed_pairs in Hty. rewrite Forall_forall in Hty. exact (Hty p Hin). }
        specialize (IH Hrel (covers_pstore _ _ _ Hc) Hg (scoped_pstore _ _ _ Hsc) Hrest ltac:(lia)).
        exact IH.
    + (* return *)
      cbn [stmts_frag4] in Hf. apply andb_prop in Hf. destruct Hf as [Hf _]. apply andb_prop in Hf. destruct Hf as [_ Hes].
      cbn [sh] in Hn. destruct n as [|n1]; [lia|].
      assert (Hbg : block_go (S n1) cx all (SReturn ln es :: rest) pos en hist s =
                match pev4_list rho es with
                | inr vs => Ret (SigReturn vs, en) s
                | inl PFault => Err (VFault 2 ln) s
                | inl _ => Unsup 1
                end).
      { cbn [block_go]. unfold bindM at 1. rewrite (exec_return_frag _ _ _ _ _ _ _ Hes).
        rewrite (eval_list_frag es n1 cx ln en s rho locals) by (auto; lia).
        destruct (pev4_list rho es) as [[w| |]|vs]; reflexivity. }
      rewrite Hbg. cbn [prun4].
      destruct (pev4_list rho es) as [[w| |]|vs] eqn:P; cbn [pcres].
      * exfalso. exact (pev_list_not_pv _ _ _ P).
      * exists s. split; reflexivity.
      * reflexivity.
      * exists (SigReturn vs), en, s. repeat split. eapply pev4_list_sval; eauto.
Qed.

End F4.

(* ---------- whole chunks ---------- *)
Definition frag_fuel4 (b : list stmt) : nat := S (frag_fuel b).

Theorem frag4_run_lemma : forall b fuel d, in_frag4 b = true -> (frag_fuel4 b <= fuel)%nat ->
  match prun4 [] b with
  | CRet vs => exists s', run_program fuel d b = FinOk vs s' /\ trace s' = [] /\ forallb is_sval4 vs = true
  | CFault ln => exists s', run_program fuel d b = FinErr (VFault 2 ln) s' /\ trace s' = []
  | CUnsup => run_program fuel d b = FinUnsup 1
  | CStuck => False
  end.
Proof.
  intros b fuel d Hf Hn. unfold frag_fuel4, frag_fuel in Hn. destruct fuel as [|[|m]]; try lia.
  unfold run_program. rewrite call_main, block_step. cbn [skipn].
  pose proof (block_frag1 (taint b) b m (mkCtx [] [] 0) b 0%nat [] [] (init_state d b) [] []) as H.
  cbn [cells init_state] in H.
  specialize (H (rel_nil _ _) (fun x Hx => ltac:(discriminate)) (conj eq_refl (conj eq_refl (conj eq_refl eq_refl))) (fun x _ => eq_refl) Hf ltac:(lia)).
  destruct (prun4 [] b) as [vs|ln| |].
  - destruct H as [sg [en' [s' [E [Hsg [Hsimple Ht]]]]]]. rewrite E. cbn [bind ret_of_signal fst].
    exists s'. destruct sg; simpl in Hsg; try discriminate; inversion Hsg; subst; (split; [reflexivity|split; [exact Ht|exact Hsimple]]).
  - destruct H as [s' [E Ht]]. rewrite E. exists s'. split; [reflexivity|exact Ht].
  - rewrite H. reflexivity.
  - exact H.
Qed.
