(* CC: reference half on the fragment F1 (Frag1Sem.in_frag1): the reference evaluator agrees with
   the direct semantics prun1 - multi-target local declarations (nil padding, extra expressions
   still evaluated) and multiple assignments to locals (every right-hand side before any store,
   stores last target first). Built on FragEvalFacts.v (expressions, expression lists). *)
From Coq Require Import Floats Lia.
From GL Require Import Common.Bytes Lua.Syntax Lua.Num Lua.Values Lua.Names Lua.Eval Lua.Run.
From GL Require Import Lua.ValuesFacts Lua.MonadFacts Lua.EvalStepFacts Lua.CallFacts Lua.CoreFacts.
From GL Require Import VMX.Machine CC.CompModel CC.FragSem CC.FragEvalFacts CC.Frag1Sem.

(* ---------- local declarations ---------- *)
Lemma exec_local1 n cx en ln xs es s locals : forallb (expr_frag locals) es = true ->
  exec (S n) cx en (SLocal ln xs es) s =
  bind (eval_list_with (eval_e n cx ln en) (eval_multi n cx ln en) es s)
       (fun vs => do cs <- mapM alloc_cell (adjust (length xs) vs); ret (SigNormal, rev (combine xs cs) ++ en)).
Proof.
  intros H. destruct xs as [|x [|x' xs]]; destruct es as [|e es]; try reflexivity;
    destruct e; try reflexivity; destruct es; try reflexivity; simpl in H; discriminate.
Qed.

Lemma adjust_len n : forall vs, length (adjust n vs) = n.
Proof. induction n; intros vs; simpl; [reflexivity|]. destruct vs; simpl; rewrite IHn; reflexivity. Qed.

Lemma adjust_simple n : forall vs, forallb is_simple vs = true -> forallb is_simple (adjust n vs) = true.
Proof.
  induction n as [|n IH]; intros vs H; [reflexivity|]. destruct vs as [|v vs]; simpl.
  - apply (IH []). reflexivity.
  - simpl in H. apply andb_prop in H. destruct H as [Hv Hr]. rewrite Hv. apply IH. exact Hr.
Qed.

Lemma rel_new_list xs : forall ws cl en rho, length xs = length ws -> forallb is_simple ws = true ->
  rel cl en rho ->
  rel (cl ++ ws) (rev (combine xs (seq (length cl) (length ws))) ++ en) (rev (combine xs ws) ++ rho).
Proof.
  induction xs as [|x xs IH]; intros ws cl en rho Hlen Hs Hr; destruct ws as [|w ws]; simpl in Hlen; try discriminate.
  - simpl. rewrite app_nil_r. exact Hr.
  - simpl in Hs. apply andb_prop in Hs. destruct Hs as [Hw Hws].
    cbn [length seq combine rev]. rewrite <- !app_assoc. cbn [app].
    replace (cl ++ w :: ws) with ((cl ++ [w]) ++ ws) by (rewrite <- app_assoc; reflexivity).
    replace (S (length cl)) with (length (cl ++ [w])) by (rewrite app_length; simpl; lia).
    apply IH; [lia|exact Hws|]. apply rel_new; assumption.
Qed.

Lemma covers_list xs : forall ws locals rho, length xs = length ws -> covers locals rho ->
  covers (locals ++ xs) (rev (combine xs ws) ++ rho).
Proof.
  induction xs as [|x xs IH]; intros ws locals rho Hlen Hc; destruct ws as [|w ws]; simpl in Hlen; try discriminate.
  - simpl. rewrite app_nil_r. exact Hc.
  - cbn [combine rev]. rewrite <- app_assoc. cbn [app].
    replace (locals ++ x :: xs) with ((locals ++ [x]) ++ xs) by (rewrite <- app_assoc; reflexivity).
    apply IH; [lia|]. apply covers_new. exact Hc.
Qed.

(* ---------- assignments ---------- *)
Lemma assign_targets_map lhs : forall xs, assign_targets lhs = Some xs -> lhs = map EVar xs.
Proof.
  induction lhs as [|l lhs IH]; intros xs H; simpl in H.
  - inversion H. reflexivity.
  - destruct l; try discriminate. destruct (assign_targets lhs) as [ys|]; [|discriminate].
    inversion H; subst. simpl. f_equal. apply IH. reflexivity.
Qed.

Lemma target_cells cl en rho locals xs : rel cl en rho -> covers locals rho ->
  forallb (fun x => existsb (beqb x) locals) xs = true ->
  exists cs, Forall2 (fun x c => lookup en x = Some c) xs cs.
Proof.
  intros Hr Hc. induction xs as [|x xs IH]; intros H; [exists []; constructor|].
  simpl in H. apply andb_prop in H. destruct H as [Hx Hxs].
  destruct (IH Hxs) as [cs Hcs]. destruct (Hc x Hx) as [v Hv].
  destruct (rel_lookup _ _ _ _ _ Hr Hv) as [c [Hl _]].
  exists (c :: cs). constructor; assumption.
Qed.

Lemma Forall2_len {A B} (R : A -> B -> Prop) l l' : Forall2 R l l' -> length l = length l'.
Proof. induction 1; simpl; congruence. Qed.

Lemma combine_map_inl {B} (cs : list nat) : forall (ws : list value),
  combine (map (@inl nat B) cs) ws = map (fun p => (inl (fst p), snd p)) (combine cs ws).
Proof. induction cs as [|c cs IH]; intros ws; [reflexivity|]. destruct ws; simpl; [reflexivity|]. rewrite IH. reflexivity. Qed.

Definition pair_ok (en : env) (p : name * value) (q : nat * value) : Prop :=
  lookup en (fst p) = Some (fst q) /\ snd p = snd q.

Lemma pairs_ok en xs cs : Forall2 (fun x c => lookup en x = Some c) xs cs ->
  forall ws, Forall2 (pair_ok en) (rev (combine xs ws)) (rev (combine cs ws)).
Proof.
  induction 1 as [|x c xs cs Hx Hr IH]; intros ws; [constructor|].
  destruct ws as [|w ws]; [constructor|]. cbn [combine rev].
  apply Forall2_app; [apply IH|]. constructor; [|constructor]. split; [exact Hx|reflexivity].
Qed.

Lemma store_cells_cons q lc cl : store_cells (q :: lc) cl = store_cells lc (set_nth cl (fst q) (snd q)).
Proof. reflexivity. Qed.

Lemma pstore_cons p lx rho : pstore rho (p :: lx) = pstore (pupdate rho (fst p) (snd p)) lx.
Proof. reflexivity. Qed.

Lemma rel_store en lx lc : Forall2 (pair_ok en) lx lc ->
  forall cl rho, (forall q, In q lc -> is_simple (snd q) = true) -> rel cl en rho ->
  rel (store_cells lc cl) en (pstore rho lx).
Proof.
  induction 1 as [|p q lx lc [Hl Hv] Hr IH]; intros cl rho Hs Hrel; [exact Hrel|].
  rewrite store_cells_cons, pstore_cons. apply IH.
  - intros q0 Hin. apply Hs. right. exact Hin.
  - rewrite Hv. apply rel_assign; [exact Hrel|exact Hl|]. apply Hs. left. reflexivity.
Qed.

Lemma covers_pstore locals l : forall rho, covers locals rho -> covers locals (pstore rho l).
Proof.
  induction l as [|p l IH]; intros rho H; [exact H|]. rewrite pstore_cons. apply IH. apply covers_update. exact H.
Qed.

Lemma forallb_In_simple (vs : list value) : forallb is_simple vs = true -> forall v, In v vs -> is_simple v = true.
Proof. intros H v Hin. rewrite forallb_forall in H. auto. Qed.

Lemma in_combine_snd {A} (cs : list A) (ws : list value) q : In q (rev (combine cs ws)) -> In (snd q) ws.
Proof. intros H. apply in_rev in H. destruct q as [c w]. apply in_combine_r in H. exact H. Qed.

(* ---------- statements ---------- *)
Lemma block_frag1 rest : forall n cx all pos en hist s rho locals,
  rel (cells s) en rho -> covers locals rho -> stmts_frag1 locals rest = true -> (bh rest <= n)%nat ->
  match prun1 rho rest with
  | CRet vs => exists sg en' s', block_go n cx all rest pos en hist s = Ret (sg, en') s' /\
                 sig_vals sg = Some vs /\ forallb is_simple vs = true /\ trace s' = trace s
  | CFault ln => exists s', block_go n cx all rest pos en hist s = Err (VFault 2 ln) s' /\ trace s' = trace s
  | CUnsup => block_go n cx all rest pos en hist s = Unsup 1
  | CStuck => False
  end.
Proof.
  induction rest as [|st rest IH]; intros n cx all pos en hist s rho locals Hr Hc Hf Hn.
  - simpl. exists SigNormal, en, s. repeat split.
  - rewrite bh_cons in Hn. destruct st; try discriminate.
    + (* local xs = es *)
      cbn [stmts_frag1] in Hf. apply andb_prop in Hf. destruct Hf as [Hf Hrest].
      apply andb_prop in Hf. destruct Hf as [Hf _]. apply andb_prop in Hf. destruct Hf as [Hf _].
      apply andb_prop in Hf. destruct Hf as [_ Hes].
      cbn [sh] in Hn. destruct n as [|n1]; [lia|].
      assert (Hbg : block_go (S n1) cx all (SLocal ln xs es :: rest) pos en hist s =
                match pev_list rho es with
                | inr vs => block_go (S n1) cx all rest (S pos)
                              (rev (combine xs (seq (length (cells s)) (length (adjust (length xs) vs)))) ++ en)
                              (hist ++ [en]) (with_cells s (cells s ++ adjust (length xs) vs))
                | inl PFault => Err (VFault 2 ln) s
                | inl _ => Unsup 1
                end).
      { cbn [block_go]. unfold bindM at 1. rewrite (exec_local1 _ _ _ _ _ _ _ locals Hes).
        rewrite (eval_list_frag es n1 cx ln en s rho locals) by (auto; lia).
        destruct (pev_list rho es) as [[w| |]|vs]; try reflexivity.
        cbn [plist_res bind]. unfold bindM at 1. rewrite mapM_alloc_cell_lemma. reflexivity. }
      rewrite Hbg. cbn [prun1].
      destruct (pev_list rho es) as [[w| |]|vs] eqn:P; cbn [pcres].
      * exfalso. exact (pev_list_not_pv _ _ _ P).
      * exists s. split; reflexivity.
      * reflexivity.
      * assert (Hsv : forallb is_simple vs = true) by (eapply pev_list_simple; eauto).
        set (ws := adjust (length xs) vs).
        assert (Hlw : length xs = length ws) by (unfold ws; rewrite adjust_len; reflexivity).
        specialize (IH (S n1) cx all (S pos) (rev (combine xs (seq (length (cells s)) (length ws))) ++ en)
                       (hist ++ [en]) (with_cells s (cells s ++ ws)) (rev (combine xs ws) ++ rho) (locals ++ xs)).
        cbn [cells with_cells] in IH.
        specialize (IH (rel_new_list xs ws _ _ _ Hlw (adjust_simple _ _ Hsv) Hr) (covers_list xs ws _ _ Hlw Hc) Hrest ltac:(lia)).
        exact IH.
    + (* xs = es *)
      cbn [stmts_frag1] in Hf. apply andb_prop in Hf. destruct Hf as [Hf Hrest].
      destruct (assign_targets lhs) as [xs|] eqn:Hat; [|discriminate].
      apply andb_prop in Hf. destruct Hf as [Hf _]. apply andb_prop in Hf. destruct Hf as [Hf _].
      apply andb_prop in Hf. destruct Hf as [Hf Hes]. apply andb_prop in Hf. destruct Hf as [_ Hxs].
      pose proof (assign_targets_map _ _ Hat) as Hl. subst lhs.
      destruct (target_cells _ _ _ _ _ Hr Hc Hxs) as [cs Hcs].
      pose proof (Forall2_len _ _ _ Hcs) as Hlc.
      cbn [sh] in Hn. destruct n as [|n1]; [lia|].
      assert (Hbg : block_go (S n1) cx all (SAssign ln (map EVar xs) es :: rest) pos en hist s =
                match pev_list rho es with
                | inr vs => block_go (S n1) cx all rest (S pos) en (hist ++ [en])
                              (with_cells s (store_cells (rev (combine cs (adjust (length xs) vs))) (cells s)))
                | inl PFault => Err (VFault 2 ln) s
                | inl _ => Unsup 1
                end).
      { cbn [block_go]. unfold bindM at 1. rewrite exec_assign. unfold bindM at 1.
        rewrite (assign_ref_locals_lemma n1 cx ln en xs cs s Hcs). cbn [bind]. unfold bindM at 1.
        rewrite (eval_list_frag es n1 cx ln en s rho locals) by (auto; lia).
        destruct (pev_list rho es) as [[w| |]|vs]; try reflexivity.
        cbn [plist_res bind]. unfold bindM at 1. rewrite map_length, <- Hlc.
        rewrite combine_map_inl, <- map_rev. rewrite assign_store_cells_lemma. reflexivity. }
      rewrite Hbg. cbn [prun1]. rewrite Hat.
      destruct (pev_list rho es) as [[w| |]|vs] eqn:P; cbn [pcres].
      * exfalso. exact (pev_list_not_pv _ _ _ P).
      * exists s. split; reflexivity.
      * reflexivity.
      * assert (Hsv : forallb is_simple vs = true) by (eapply pev_list_simple; eauto).
        set (ws := adjust (length xs) vs).
        specialize (IH (S n1) cx all (S pos) en (hist ++ [en])
                       (with_cells s (store_cells (rev (combine cs ws)) (cells s)))
                       (pstore rho (rev (combine xs ws))) locals).
        cbn [cells with_cells] in IH.
        assert (Hrel : rel (store_cells (rev (combine cs ws)) (cells s)) en (pstore rho (rev (combine xs ws)))).
        { apply rel_store; [apply pairs_ok; exact Hcs| |exact Hr].
          intros q Hin. apply (forallb_In_simple ws (adjust_simple _ _ Hsv)). eapply in_combine_snd. exact Hin. }
        specialize (IH Hrel (covers_pstore _ _ _ Hc) Hrest ltac:(lia)).
        exact IH.
    + (* return *)
      cbn [stmts_frag1] in Hf. apply andb_prop in Hf. destruct Hf as [Hf _]. apply andb_prop in Hf. destruct Hf as [_ Hes].
      cbn [sh] in Hn. destruct n as [|n1]; [lia|].
      assert (Hbg : block_go (S n1) cx all (SReturn ln es :: rest) pos en hist s =
                match pev_list rho es with
                | inr vs => Ret (SigReturn vs, en) s
                | inl PFault => Err (VFault 2 ln) s
                | inl _ => Unsup 1
                end).
      { cbn [block_go]. unfold bindM at 1. rewrite (exec_return_frag _ _ _ _ _ _ _ Hes).
        rewrite (eval_list_frag es n1 cx ln en s rho locals) by (auto; lia).
        destruct (pev_list rho es) as [[w| |]|vs]; reflexivity. }
      rewrite Hbg. cbn [prun1].
      destruct (pev_list rho es) as [[w| |]|vs] eqn:P; cbn [pcres].
      * exfalso. exact (pev_list_not_pv _ _ _ P).
      * exists s. split; reflexivity.
      * reflexivity.
      * exists (SigReturn vs), en, s. repeat split. eapply pev_list_simple; eauto.
Qed.

(* ---------- whole chunks ---------- *)
Theorem frag1_run_lemma : forall b fuel d, in_frag1 b = true -> (frag_fuel b <= fuel)%nat ->
  match prun1 [] b with
  | CRet vs => exists s', run_program fuel d b = FinOk vs s' /\ trace s' = [] /\ forallb is_simple vs = true
  | CFault ln => exists s', run_program fuel d b = FinErr (VFault 2 ln) s' /\ trace s' = []
  | CUnsup => run_program fuel d b = FinUnsup 1
  | CStuck => False
  end.
Proof.
  intros b fuel d Hf Hn. unfold frag_fuel in Hn. destruct fuel as [|[|m]]; try lia.
  unfold run_program. rewrite call_main, block_step. cbn [skipn].
  pose proof (block_frag1 b m (mkCtx [] [] 0) b 0%nat [] [] (init_state d b) [] []) as H.
  cbn [cells init_state] in H.
  specialize (H (rel_nil _) (fun x Hx => ltac:(discriminate)) Hf ltac:(lia)).
  destruct (prun1 [] b) as [vs|ln| |].
  - destruct H as [sg [en' [s' [E [Hsg [Hsimple Ht]]]]]]. rewrite E. cbn [bind ret_of_signal fst].
    exists s'. destruct sg; simpl in Hsg; try discriminate; inversion Hsg; subst; (split; [reflexivity|split; [exact Ht|exact Hsimple]]).
  - destruct H as [s' [E Ht]]. rewrite E. exists s'. split; [reflexivity|exact Ht].
  - rewrite H. reflexivity.
  - exact H.
Qed.

Theorem frag1_reference_is_prun1_lemma : forall b fuel d, in_frag1 b = true -> (frag_fuel b <= fuel)%nat ->
  prun1 [] b <> CStuck /\ outcome_of (run_program fuel d b) = cres_outcome (prun1 [] b).
Proof.
  intros b fuel d Hf Hn. pose proof (frag1_run_lemma b fuel d Hf Hn) as H.
  destruct (prun1 [] b) as [vs|ln| |].
  - destruct H as [s' [E [Ht Hs]]]. split; [discriminate|]. rewrite E. cbn [outcome_of]. rewrite Ht. cbn [canon_trace].
    rewrite (canon_list_simple vs [] Hs). reflexivity.
  - destruct H as [s' [E Ht]]. split; [discriminate|]. rewrite E. cbn [outcome_of]. rewrite Ht. reflexivity.
  - split; [discriminate|]. rewrite H. reflexivity.
  - contradiction.
Qed.
