(* CC: back half for the bytecode semantics isem4 (Frag4Sem: isem3 + arithmetic and UNM with the
   coercion of numeric strings): the VM model runs straight-line code as isem4 says. A port of
   CompFactsVM3.v: the simulation relation additionally records the string metatable (it has no
   arithmetic events), the arithmetic instructions are re-proved for nil / boolean / number /
   string operands (objectArith, OP_UNM: parseNumber = text_to_f = the evaluator's tonum). *)
From Coq Require Import Floats Lia ZifyBool.
From GL Require Import Common.Bytes Lua.Syntax Lua.Num Lua.Values Lua.Names Lua.Eval Lua.Run.
From GL Require Import VMX.Machine VMX.Step VMX.Builtins VMX.VRun VMX.Spec VMX.RegFacts CC.CompModel CC.FragSem CC.CompFactsVM.
From GL Require Import CC.Frag1Sem CC.Frag2Sem CC.Frag3Sem CC.Frag4Sem.
From GL Require VM.OpcodeFacts.

(* ---------- the simulation relation ---------- *)
Definition main_frame (pc : Z) : cframe := mkFrame (FnLua 0%nat) pc 0 1 0 0 MultRet 0.

(* the main chunk p is running at pc (cf.Pc), its registers 0 .. len rf - 1 hold rf *)
Record Rinv (p : xproto) (rf : rfile) (pc : Z) (s : vstate) : Prop := mkR {
  R_stack : vstack s = [main_frame pc];
  R_clos : nth_error (vclos s) 0 = Some (mkCl p [] 0%nat);
  R_cache : vuvcache s = [];
  R_par : th_parent (nth (vcur s) (vthreads s) dummy_th) = None;
  R_regs : forall i, 0 <= i < len rf -> rd (arr (vreg s)) (1 + i) = zth rf i;
  R_top : 1 + len rf <= rtop (vreg s);
  R_trace : vtrace s = [];
  R_glob : nth 0 (vtabs s) empty_tab = g_globals;
  R_strmt : vstrmt s = Some 5%nat;
  R_tab5 : nth 5 (vtabs s) empty_tab = g_strmt }.

Lemma vbind_eq : forall A B (m : VM A) (f : A -> VM B) s a s1, m s = VRet a s1 -> vbind m f s = f a s1.
Proof. intros. unfold vbind. rewrite H. reflexivity. Qed.

Lemma R_reg_get : forall p rf pc s i v, Rinv p rf pc s -> zth rf i = Some v -> reg_get (1 + i) s = VRet v s.
Proof.
  intros p rf pc s i v H Hz. pose proof (zth_range _ _ _ _ Hz) as Hr.
  unfold reg_get, Get. rewrite (R_regs _ _ _ _ H i Hr). rewrite Hz. reflexivity.
Qed.

Lemma R_reg_set : forall p rf pc s i v rf', Rinv p rf pc s -> setr rf i v = Some rf' ->
  Rinv p rf' pc (with_reg s (Set_ (vreg s) (1 + i) v)).
Proof.
  intros p rf pc s i v rf' H Hs.
  assert (Hi : 0 <= i <= len rf).
  { unfold setr in Hs. destruct ((0 <=? i) && (i <=? len rf)) eqn:E; [lia|discriminate]. }
  pose proof (setr_len _ _ _ _ Hs) as Hl.
  destruct H as [H1 H2 H3 H4 H5 H6 H7 H8 H9 H10].
  constructor; try assumption.
  - intros j Hj. cbn [vreg with_reg]. rewrite Set_rd by lia. rewrite (setr_zth _ _ _ _ j Hs).
    destruct (1 + j =? 1 + i) eqn:E; destruct (j =? i) eqn:E2; try lia; try reflexivity.
    apply H5. lia.
  - cbn [vreg with_reg]. rewrite Set_top. rewrite Hl. destruct (1 + i >=? rtop (vreg s)) eqn:E; lia.
Qed.

Lemma R_set_pc : forall p rf pc pc' s, Rinv p rf pc s ->
  set_cur_frame (main_frame pc') s = VRet tt (with_stack s [main_frame pc']) /\
  Rinv p rf pc' (with_stack s [main_frame pc']).
Proof.
  intros p rf pc pc' s H. split.
  - unfold set_cur_frame. rewrite (R_stack _ _ _ _ H). reflexivity.
  - destruct H as [H1 H2 H3 H4 H5 H6 H7 H8 H9 H10]. constructor; assumption || reflexivity.
Qed.

Lemma R_cur_frame : forall p rf pc s, Rinv p rf pc s -> cur_frame s = VRet (main_frame pc) s.
Proof. intros p rf pc s H. unfold cur_frame. rewrite (R_stack _ _ _ _ H). reflexivity. Qed.

Lemma R_get_closure : forall p rf pc s, Rinv p rf pc s -> get_closure 0 s = VRet (mkCl p [] 0%nat) s.
Proof. intros p rf pc s H. unfold get_closure. rewrite (R_clos _ _ _ _ H). reflexivity. Qed.

Lemma R_rkValue : forall p rf pc s x v, Rinv p rf pc s -> 0 <= x ->
  rkval (xp_consts p) rf x = Some v -> rkValue p 1 x s = VRet v s.
Proof.
  intros p rf pc s x v H Hx Hr. unfold rkValue, rkval in *.
  destruct (opIsK x).
  - rewrite Hr. reflexivity.
  - eapply R_reg_get; eassumption.
Qed.

Lemma exec_inst_R : forall ml gf p rf pc s w base, Rinv p rf pc s ->
  exec_inst ml gf w base s = exec_op ml gf (mkCl p [] 0%nat) (main_frame pc) w base s.
Proof.
  intros. unfold exec_inst.
  rewrite (vbind_eq _ _ _ _ _ _ _ (R_cur_frame _ _ _ _ H)). cbn [fr_fn main_frame].
  rewrite (vbind_eq _ _ _ _ _ _ _ (R_get_closure _ _ _ _ H)). reflexivity.
Qed.

(* fetch: the word at cf.Pc, cf.Pc incremented *)
Lemma fetch_R : forall p rf pc s w, Rinv p rf pc s -> zth (xp_code p) pc = Some w ->
  fetch s = VRet w (with_stack s [main_frame (pc + 1)]) /\ Rinv p rf (pc + 1) (with_stack s [main_frame (pc + 1)]).
Proof.
  intros p rf pc s w H Hw. destruct (R_set_pc p rf pc (pc + 1) s H) as [E1 E2]. split; [|exact E2].
  unfold fetch. rewrite (vbind_eq _ _ _ _ _ _ _ (R_cur_frame _ _ _ _ H)). cbn [fr_fn main_frame].
  rewrite (vbind_eq _ _ _ _ _ _ _ (R_get_closure _ _ _ _ H)). cbn [cl_proto].
  change (fr_pc (main_frame pc)) with pc.
  change (set_pc (main_frame pc) (pc + 1)) with (main_frame (pc + 1)).
  assert (Hc : code_at p pc s = VRet w s) by (unfold code_at; rewrite Hw; reflexivity).
  rewrite (vbind_eq _ _ _ _ _ _ _ Hc).
  rewrite (vbind_eq _ _ _ _ _ _ _ E1). reflexivity.
Qed.

(* ---------- one instruction ---------- *)
Lemma getA_nn : forall w, 0 <= opGetArgA w. Proof. intro w. pose proof (VM.OpcodeFacts.getA_range w). lia. Qed.
Lemma getB_nn : forall w, 0 <= opGetArgB w. Proof. intro w. pose proof (VM.OpcodeFacts.getB_range w). lia. Qed.
Lemma getC_nn : forall w, 0 <= opGetArgC w. Proof. intro w. pose proof (VM.OpcodeFacts.getC_range w). lia. Qed.

Lemma reg_set_eq : forall i v s, reg_set i v s = VRet tt (with_reg s (Set_ (vreg s) i v)).
Proof. reflexivity. Qed.

Lemma loadnil_R : forall n p rf pc s i rf', Rinv p rf pc s -> setr_range rf i n = Some rf' ->
  exists s', loadnil_loop (1 + i) n s = VRet tt s' /\ Rinv p rf' pc s'.
Proof.
  induction n; intros p rf pc s i rf' H Hs; cbn [loadnil_loop setr_range] in *.
  - inversion Hs; subst. eexists. split; [reflexivity|assumption].
  - destruct (setr rf i VNil) as [rf1|] eqn:E; [|discriminate].
    rewrite (vbind_eq _ _ _ _ _ _ _ (reg_set_eq _ _ _)).
    replace (1 + i + 1) with (1 + (i + 1)) by lia.
    eapply IHn; [|eassumption]. eapply R_reg_set; eassumption.
Qed.

Lemma op_binop_eq : forall o, op_binop o = arith_binop o.
Proof. destruct o; reflexivity. Qed.

Lemma simple_meta : forall s v ev, is_simple v = true -> metaOp1_pure s v ev = VNil.
Proof. intros s v ev H. destruct v; try discriminate; reflexivity. Qed.

Ltac bind_with E := rewrite (vbind_eq _ _ _ _ _ _ _ E).

Section Step.
Variable ml : option nat -> VM unit.
Variable gf : builtin -> VM Z.
Variable p : xproto.

Let cl := mkCl p [] 0%nat.

Lemma arith_ok : forall o rf pc s w x y r rf',
  Rinv p rf pc s ->
  rkval (xp_consts p) rf (opGetArgB w) = Some (VNum x) ->
  rkval (xp_consts p) rf (opGetArgC w) = Some (VNum y) ->
  arith_op (arith_binop o) x y = Some r -> setr rf (opGetArgA w) (VNum r) = Some rf' ->
  exists s',
  (vdo lhs <- rkValue p 1 (opGetArgB w); vdo rhs <- rkValue p 1 (opGetArgC w);
   vdo v <- (match lhs, rhs with
             | VNum x, VNum y => numberArith o x y
             | _, _ => objectArith ml o lhs rhs
             end);
   vdo _ <- reg_set (1 + opGetArgA w) v; vret false) s = VRet false s' /\ Rinv p rf' pc s'.
Proof.
  intros o rf pc s w x y r rf' H HB HC Ha Hs.
  eexists. split; [|eapply R_reg_set; eassumption].
  bind_with (R_rkValue _ _ _ _ _ _ H (getB_nn w) HB).
  bind_with (R_rkValue _ _ _ _ _ _ H (getC_nn w) HC).
  assert (E : numberArith o x y s = VRet (VNum r) s)
    by (unfold numberArith; rewrite op_binop_eq, Ha; reflexivity).
  bind_with E. bind_with (reg_set_eq (1 + opGetArgA w) (VNum r) s). reflexivity.
Qed.

Ltac arith_case o H Hi :=
  match type of Hi with
  | match ?a with _ => _ end = _ => destruct a as [[| | x | | | | | | | ]|] eqn:EB; try discriminate
  end;
  match type of Hi with
  | match ?a with _ => _ end = _ => destruct a as [[| | y | | | | | | | ]|] eqn:EC; try discriminate
  end;
  try (destruct (is_simple _ && is_simple _); discriminate);
  match type of Hi with
  | match ?a with _ => _ end = _ => destruct a as [r|] eqn:EA; try discriminate
  end;
  match type of Hi with
  | match ?a with _ => _ end = _ => destruct a as [rf1|] eqn:ES; try discriminate
  end;
  inversion Hi; subst;
  eapply (arith_ok o); eassumption.

(* ---------- arithmetic on nil / boolean / number / string operands ---------- *)
Definition coerce (v : value) : VM value :=
  match v with
  | VStr s => vdo p <- parseNumber s; vret (match p with PN f => VNum f | PNo => v end)
  | _ => vret v
  end.

Lemma coerce_spec : forall v s, is_sval4 v = true ->
  coerce v s = VRet (match tonum v with CNum f => VNum f | _ => v end) s.
Proof.
  intros v s H. destruct v; try discriminate; try reflexivity.
  unfold coerce, parseNumber, tonum. unfold is_sval4, lit_ok in H. destruct (text_to_f s0); try discriminate; reflexivity.
Qed.

Lemma sval4_not_out : forall v, is_sval4 v = true -> tonum v <> COut.
Proof.
  intros v H. destruct v; try discriminate; cbn [tonum]; try discriminate.
  unfold is_sval4, lit_ok in H. destruct (text_to_f s); try discriminate.
Qed.

Lemma sval4_not_fault : forall v, is_sval4 v = true -> is_fault v = false.
Proof. intros v H. destruct v; try discriminate; reflexivity. Qed.

Lemma strmt_no_event : forall o, kv_get (t_kv g_strmt) (VStr (arith_event o)) = VNil.
Proof. destruct o; reflexivity. Qed.

Lemma meta_sval4 : forall rf pc s v ev, Rinv p rf pc s -> is_sval4 v = true ->
  kv_get (t_kv g_strmt) (VStr ev) = VNil -> metaOp1_pure s v ev = VNil.
Proof.
  intros rf pc s v ev H Hv He. destruct v; try discriminate; try reflexivity.
  unfold metaOp1_pure, metatable_raw. rewrite (R_strmt _ _ _ _ H), (R_tab5 _ _ _ _ H). exact He.
Qed.

Definition arith_pick (o : opcode) (x y : value) : VM value :=
  match x, y with
  | VNum a, VNum b => numberArith o a b
  | _, _ => objectArith ml o x y
  end.

(* the value the arithmetic instructions compute *)
Lemma arith_value : forall o x y rf pc s, Rinv p rf pc s -> is_sval4 x = true -> is_sval4 y = true ->
  match parith4 (arith_binop o) x y with
  | PV v => arith_pick o x y s = VRet v s
  | PFault => arith_pick o x y s = @fault_ value 2 s
  | PUnsup => True
  end.
Proof.
  intros o x y rf pc s H Sx Sy.
  assert (Hd : arith_pick o x y s =
    (vdo l <- coerce x; vdo r <- coerce y;
     match l, r with
     | VNum a, VNum b => numberArith o a b
     | _, _ => vdo op <- metaOp2 x y (arith_event (op_binop o));
               if negb (is_nil op) then
                 vdo _ <- reg_push op; vdo _ <- reg_push x; vdo _ <- reg_push y; vdo _ <- Call ml 2 1; reg_pop
               else fault_ 2
     end) s).
  { unfold arith_pick, objectArith. rewrite (sval4_not_fault x Sx), (sval4_not_fault y Sy). cbn [orb].
    destruct x; try discriminate; destruct y; try discriminate; reflexivity. }
  rewrite Hd. bind_with (coerce_spec x s Sx). bind_with (coerce_spec y s Sy).
  pose proof (sval4_not_out x Sx) as Ox. pose proof (sval4_not_out y Sy) as Oy.
  assert (Hm : metaOp2 x y (arith_event (op_binop o)) s = VRet VNil s).
  { unfold metaOp2. rewrite (meta_sval4 rf pc s x _ H Sx (strmt_no_event _)). cbn [is_nil negb].
    rewrite (meta_sval4 rf pc s y _ H Sy (strmt_no_event _)). reflexivity. }
  unfold parith4.
  destruct (tonum x) as [f| |] eqn:Tx; [| |contradiction]; (destruct (tonum y) as [g| |] eqn:Ty; [| |contradiction]).
  - (* both numbers *)
    unfold numberArith. replace (op_binop o) with (arith_binop o) by (symmetry; apply op_binop_eq).
    destruct (arith_op (arith_binop o) f g); [reflexivity|exact I].
  - (* the right operand is no number *)
    assert (Ny : match y with VNum _ => False | _ => True end) by (destruct y; try exact I; discriminate).
    destruct y; try contradiction; try discriminate; (bind_with Hm; reflexivity).
  - assert (Nx : match x with VNum _ => False | _ => True end) by (destruct x; try exact I; discriminate).
    destruct x; try contradiction; try discriminate; (bind_with Hm; reflexivity).
  - assert (Nx : match x with VNum _ => False | _ => True end) by (destruct x; try exact I; discriminate).
    destruct x; try contradiction; try discriminate; (bind_with Hm; reflexivity).
Qed.

(* GETGLOBAL of a name that is not a key of the (initial) global table *)
Lemma getglobal_nil : forall rf pc s x, Rinv p rf pc s -> undefined_global x = true ->
  getField ml MaxTableGetLoop (VTab 0%nat) (VStr x) s = VRet VNil s.
Proof.
  intros rf pc s x H EU. unfold undefined_global in EU.
  unfold MaxTableGetLoop. cbn [getField].
  assert (E1 : raw_get 0 (VStr x) s = VRet VNil s).
  { unfold raw_get, read_vtab, vbind, vret. rewrite (R_glob _ _ _ _ H).
    destruct (kv_get (t_kv g_globals) (VStr x)); try discriminate. reflexivity. }
  bind_with E1. cbn [is_nil negb].
  assert (E2 : metaOp1 (VTab 0%nat) s_mm_index s = VRet VNil s).
  { unfold metaOp1, metaOp1_pure, metatable_raw. rewrite (R_glob _ _ _ _ H). reflexivity. }
  bind_with E2. reflexivity.
Qed.

Definition arith_code (o : opcode) (w : Z) : VM bool :=
  vdo lhs <- rkValue p 1 (opGetArgB w); vdo rhs <- rkValue p 1 (opGetArgC w);
  vdo v <- arith_pick o lhs rhs;
  vdo _ <- reg_set (1 + opGetArgA w) v; vret false.

Definition unm_code (w : Z) : VM bool :=
  vdo unaryv <- rkValue p 1 (opGetArgB w);
  match unaryv with
  | VNum f => vdo _ <- reg_set (1 + opGetArgA w) (VNum (- f)%float); vret false
  | _ =>
      vdo pn <- (match unaryv with VStr s => parseNumber s | _ => vret PNo end);
      match pn with
      | PN f => vdo _ <- reg_set (1 + opGetArgA w) (VNum (- f)%float); vret false
      | PNo =>
          match unaryv with
          | VFault _ _ => vunsup 111
          | _ =>
              vdo h <- metaOp1 unaryv s_mm_unm;
              if negb (is_nil h) then
                vdo _ <- reg_push h; vdo _ <- reg_push unaryv; vdo _ <- Call ml 1 1;
                vdo r <- reg_pop; vdo _ <- reg_set (1 + opGetArgA w) r; vret false
              else fault_ 2
          end
      end
  end.

Lemma arith4_split : forall K rf bo A B C r, arith4 K rf bo A B C = r -> r <> IStuck ->
  exists x y, rkval K rf B = Some x /\ rkval K rf C = Some y /\ is_sval4 x = true /\ is_sval4 y = true /\
              r = ires_of rf A (parith4 bo x y).
Proof.
  intros K rf bo A B C r H Hn. unfold arith4 in H.
  destruct (rkval K rf B) as [x|]; [|congruence]. destruct (rkval K rf C) as [y|]; [|congruence].
  destruct (is_sval4 x) eqn:Sx; [|cbn [andb] in H; congruence].
  destruct (is_sval4 y) eqn:Sy; [|cbn [andb] in H; congruence].
  cbn [andb] in H. exists x, y. repeat split; congruence.
Qed.

Lemma arith4_step_ok : forall o rf pc s w rf', Rinv p rf pc s ->
  arith4 (xp_consts p) rf (arith_binop o) (opGetArgA w) (opGetArgB w) (opGetArgC w) = IOk rf' ->
  exists s', arith_code o w s = VRet false s' /\ Rinv p rf' pc s'.
Proof.
  intros o rf pc s w rf' H Hi.
  destruct (arith4_split _ _ _ _ _ _ _ Hi ltac:(discriminate)) as [x [y [EB [EC [Sx [Sy Er]]]]]].
  pose proof (arith_value o x y rf pc s H Sx Sy) as AV.
  unfold ires_of in Er. destruct (parith4 (arith_binop o) x y) as [v| |]; try discriminate.
  destruct (setr rf (opGetArgA w) v) as [rf1|] eqn:ES; [|discriminate]. inversion Er; subst rf1.
  unfold arith_code.
  bind_with (R_rkValue _ _ _ _ _ _ H (getB_nn w) EB). bind_with (R_rkValue _ _ _ _ _ _ H (getC_nn w) EC).
  bind_with AV. bind_with (reg_set_eq (1 + opGetArgA w) v s).
  eexists. split; [reflexivity|]. eapply R_reg_set; eassumption.
Qed.

Lemma unm4_step_ok : forall rf pc s w rf', Rinv p rf pc s ->
  unm4 (xp_consts p) rf (opGetArgA w) (opGetArgB w) = IOk rf' ->
  exists s', unm_code w s = VRet false s' /\ Rinv p rf' pc s'.
Proof.
  intros rf pc s w rf' H Hi. unfold unm4 in Hi.
  destruct (rkval (xp_consts p) rf (opGetArgB w)) as [x|] eqn:EB; [|discriminate].
  destruct (is_sval4 x) eqn:Sx; [|discriminate].
  unfold ires_of, pneg4 in Hi. unfold unm_code. bind_with (R_rkValue _ _ _ _ _ _ H (getB_nn w) EB).
  destruct x; cbn [tonum] in Hi; try discriminate.
  - destruct (setr rf (opGetArgA w) (VNum (- f)%float)) as [rf1|] eqn:ES; [|discriminate]. inversion Hi; subst rf1.
    bind_with (reg_set_eq (1 + opGetArgA w) (VNum (- f)%float) s).
    eexists. split; [reflexivity|]. eapply R_reg_set; eassumption.
  - destruct (text_to_f s0) as [f| |] eqn:Et; try discriminate.
    destruct (setr rf (opGetArgA w) (VNum (- f)%float)) as [rf1|] eqn:ES; [|discriminate]. inversion Hi; subst rf1.
    assert (EP : parseNumber s0 s = VRet (PN f) s) by (unfold parseNumber; rewrite Et; reflexivity).
    bind_with EP. bind_with (reg_set_eq (1 + opGetArgA w) (VNum (- f)%float) s).
    eexists. split; [reflexivity|]. eapply R_reg_set; eassumption.
Qed.

Lemma arith4_not_ret : forall K rf bo A B C vs, arith4 K rf bo A B C <> IRet vs.
Proof.
  intros K rf bo A B C vs H.
  destruct (arith4_split _ _ _ _ _ _ _ H ltac:(discriminate)) as [x [y [_ [_ [_ [_ Er]]]]]].
  unfold ires_of in Er. destruct (parith4 bo x y); try discriminate. destruct (setr rf A v); discriminate.
Qed.

Lemma unm4_not_ret : forall K rf A B vs, unm4 K rf A B <> IRet vs.
Proof.
  intros K rf A B vs H. unfold unm4 in H. destruct (rkval K rf B) as [x|]; [|discriminate].
  destruct (is_sval4 x); [|discriminate]. unfold ires_of in H. destruct (pneg4 x); try discriminate.
  destruct (setr rf A v); discriminate.
Qed.

(* an instruction that isem executes: the VM model does the same to the registers *)
Lemma step_ok : forall rf pc s w base rf',
  Rinv p rf pc s -> isem4_inst (xp_consts p) w rf = IOk rf' ->
  exists s', exec_op ml gf cl (main_frame pc) w base s = VRet false s' /\ Rinv p rf' pc s'.
Proof.
  intros rf pc s w base rf' H Hi. unfold isem4_inst, isem3_inst, isem_inst in Hi. unfold exec_op.
  change (fr_localbase (main_frame pc)) with 1. cbn [cl_proto cl].
  destruct (op_of_code (opGetOpCode w)) as [o|]; [|discriminate].
  destruct o; try discriminate.
  - (* MOVE *)
    destruct (zth rf (opGetArgB w)) as [v|] eqn:EB; [|discriminate].
    destruct (setr rf (opGetArgA w) v) as [rf1|] eqn:ES; [|discriminate]. inversion Hi; subst rf1.
    bind_with (R_reg_get _ _ _ _ _ _ H EB). bind_with (reg_set_eq (1 + opGetArgA w) v s).
    eexists. split; [reflexivity|]. eapply R_reg_set; eassumption.
  - (* LOADK *)
    destruct (zth (xp_consts p) (opGetArgBx w)) as [v|] eqn:EB; [|discriminate].
    destruct (setr rf (opGetArgA w) v) as [rf1|] eqn:ES; [|discriminate]. inversion Hi; subst rf1.
    bind_with (reg_set_eq (1 + opGetArgA w) v s).
    eexists. split; [reflexivity|]. eapply R_reg_set; eassumption.
  - (* LOADBOOL *)
    destruct (opGetArgC w =? 0) eqn:EC; [|discriminate].
    destruct (setr rf (opGetArgA w) (VBool (negb (opGetArgB w =? 0)))) as [rf1|] eqn:ES; [|discriminate].
    inversion Hi; subst rf1.
    bind_with (reg_set_eq (1 + opGetArgA w) (VBool (negb (opGetArgB w =? 0))) s).
    cbn [negb].
    eexists. split; [reflexivity|]. eapply R_reg_set; eassumption.
  - (* LOADNIL *)
    destruct (setr_range rf (opGetArgA w) (Z.to_nat (opGetArgB w - opGetArgA w + 1))) as [rf1|] eqn:ES; [|discriminate].
    inversion Hi; subst rf1.
    replace (1 + opGetArgB w - (1 + opGetArgA w) + 1) with (opGetArgB w - opGetArgA w + 1) by lia.
    destruct (loadnil_R _ _ _ _ _ _ _ H ES) as [s' [E1 E2]].
    bind_with E1. eexists. split; [reflexivity|assumption].
  - (* GETGLOBAL *)
    destruct (zth (xp_consts p) (opGetArgBx w)) as [v0|] eqn:EB; [|discriminate].
    destruct v0 as [| | |x| | | | | |]; try discriminate.
    destruct (undefined_global x) eqn:EU; [|discriminate].
    destruct (setr rf (opGetArgA w) VNil) as [rf1|] eqn:ES; [|discriminate]. inversion Hi; subst rf1.
    assert (EK : kstring p (opGetArgBx w) s = VRet (VStr x) s) by (unfold kstring; rewrite EB; reflexivity).
    bind_with EK. cbn [cl_env]. bind_with (getglobal_nil rf pc s x H EU).
    bind_with (reg_set_eq (1 + opGetArgA w) VNil s).
    eexists. split; [reflexivity|]. eapply R_reg_set; eassumption.
  - exact (arith4_step_ok OP_ADD rf pc s w rf' H Hi).
  - exact (arith4_step_ok OP_SUB rf pc s w rf' H Hi).
  - exact (arith4_step_ok OP_MUL rf pc s w rf' H Hi).
  - exact (arith4_step_ok OP_DIV rf pc s w rf' H Hi).
  - exact (arith4_step_ok OP_MOD rf pc s w rf' H Hi).
  - exact (arith4_step_ok OP_POW rf pc s w rf' H Hi).
  - exact (unm4_step_ok rf pc s w rf' H Hi).
  - (* NOT *)
    destruct (zth rf (opGetArgB w)) as [v|] eqn:EB; [|discriminate].
    destruct (setr rf (opGetArgA w) (VBool (negb (truthy v)))) as [rf1|] eqn:ES; [|discriminate]. inversion Hi; subst rf1.
    bind_with (R_reg_get _ _ _ _ _ _ H EB). bind_with (reg_set_eq (1 + opGetArgA w) (VBool (negb (truthy v))) s).
    eexists. split; [reflexivity|]. eapply R_reg_set; eassumption.
  - (* RETURN *) destruct ((1 <=? opGetArgB w) && (opGetArgA w + (opGetArgB w - 1) <=? len rf) && (0 <=? opGetArgA w)); discriminate.
Qed.

Lemma fault_R : forall A rf pc s ln, Rinv p rf pc s -> zth (xp_lines p) (pc - 1) = Some ln ->
  @fault_ A 2 s = VErr (VFault 2 ln) (with_reg s (Push (vreg s) (VFault 2 ln))).
Proof.
  intros A rf pc s ln H Hl. unfold fault_.
  assert (E : where_info 0 true s = VRet (WLine ln) s).
  { unfold where_info. rewrite (R_stack _ _ _ _ H). cbn [length where_].
    rewrite (R_stack _ _ _ _ H).
    change (GetStack [main_frame pc] 0) with (Some (main_frame pc)).
    cbn [fr_fn main_frame].
    assert (E2 : frame_line (mkFrame (FnLua 0%nat) pc 0 1 0 0 MultRet 0) s = VRet ln s).
    { unfold frame_line. cbn [fr_fn]. bind_with (R_get_closure _ _ _ _ H). cbn [cl_proto fr_pc]. rewrite Hl. reflexivity. }
    bind_with E2. reflexivity. }
  bind_with E. reflexivity.
Qed.

Lemma arith4_step_fault : forall o rf pc s w ln, Rinv p rf pc s -> zth (xp_lines p) (pc - 1) = Some ln ->
  arith4 (xp_consts p) rf (arith_binop o) (opGetArgA w) (opGetArgB w) (opGetArgC w) = IFault ->
  exists s', arith_code o w s = VErr (VFault 2 ln) s' /\ vtrace s' = [].
Proof.
  intros o rf pc s w ln H Hl Hi.
  destruct (arith4_split _ _ _ _ _ _ _ Hi ltac:(discriminate)) as [x [y [EB [EC [Sx [Sy Er]]]]]].
  pose proof (arith_value o x y rf pc s H Sx Sy) as AV.
  unfold ires_of in Er. destruct (parith4 (arith_binop o) x y) as [v| |]; try discriminate.
  { destruct (setr rf (opGetArgA w) v); discriminate. }
  unfold arith_code.
  bind_with (R_rkValue _ _ _ _ _ _ H (getB_nn w) EB). bind_with (R_rkValue _ _ _ _ _ _ H (getC_nn w) EC).
  unfold vbind at 1. rewrite AV. rewrite (fault_R _ _ _ _ _ H Hl).
  eexists. split; [reflexivity|]. cbn [vtrace with_reg]. exact (R_trace _ _ _ _ H).
Qed.

Lemma unm4_step_fault : forall rf pc s w ln, Rinv p rf pc s -> zth (xp_lines p) (pc - 1) = Some ln ->
  unm4 (xp_consts p) rf (opGetArgA w) (opGetArgB w) = IFault ->
  exists s', unm_code w s = VErr (VFault 2 ln) s' /\ vtrace s' = [].
Proof.
  intros rf pc s w ln H Hl Hi. unfold unm4 in Hi.
  destruct (rkval (xp_consts p) rf (opGetArgB w)) as [x|] eqn:EB; [|discriminate].
  destruct (is_sval4 x) eqn:Sx; [|discriminate].
  unfold ires_of, pneg4 in Hi.
  assert (EM : metaOp1 x s_mm_unm s = VRet VNil s).
  { unfold metaOp1. rewrite (meta_sval4 rf pc s x s_mm_unm H Sx eq_refl). reflexivity. }
  unfold unm_code. bind_with (R_rkValue _ _ _ _ _ _ H (getB_nn w) EB).
  destruct x; cbn [tonum] in Hi; try discriminate.
  - bind_with (eq_refl : vret PNo s = VRet PNo s). bind_with EM. cbn [is_nil negb].
    rewrite (fault_R _ _ _ _ _ H Hl). eexists. split; [reflexivity|]. cbn [vtrace with_reg]. exact (R_trace _ _ _ _ H).
  - bind_with (eq_refl : vret PNo s = VRet PNo s). bind_with EM. cbn [is_nil negb].
    rewrite (fault_R _ _ _ _ _ H Hl). eexists. split; [reflexivity|]. cbn [vtrace with_reg]. exact (R_trace _ _ _ _ H).
  - destruct (setr rf (opGetArgA w) (VNum (- f)%float)); discriminate.
  - destruct (text_to_f s0) as [f| |] eqn:Et; try discriminate.
    + destruct (setr rf (opGetArgA w) (VNum (- f)%float)); discriminate.
    + assert (EP : parseNumber s0 s = VRet PNo s) by (unfold parseNumber; rewrite Et; reflexivity).
      bind_with EP. bind_with EM. cbn [is_nil negb].
      rewrite (fault_R _ _ _ _ _ H Hl). eexists. split; [reflexivity|]. cbn [vtrace with_reg]. exact (R_trace _ _ _ _ H).
Qed.

Lemma simple_not_fn : forall s a b ev, is_simple a = true -> is_simple b = true ->
  metaOp2 a b ev s = VRet VNil s.
Proof.
  intros s a b ev Ha Hb. unfold metaOp2. rewrite (simple_meta s a ev Ha). cbn [is_nil negb].
  rewrite (simple_meta s b ev Hb). reflexivity.
Qed.

Lemma arith_fault : forall o rf pc s w x y ln,
  Rinv p rf pc s -> zth (xp_lines p) (pc - 1) = Some ln ->
  rkval (xp_consts p) rf (opGetArgB w) = Some x ->
  rkval (xp_consts p) rf (opGetArgC w) = Some y ->
  is_simple x = true -> is_simple y = true ->
  (match x, y with VNum _, VNum _ => false | _, _ => true end) = true ->
  exists s',
  (vdo lhs <- rkValue p 1 (opGetArgB w); vdo rhs <- rkValue p 1 (opGetArgC w);
   vdo v <- (match lhs, rhs with
             | VNum x, VNum y => numberArith o x y
             | _, _ => objectArith ml o lhs rhs
             end);
   vdo _ <- reg_set (1 + opGetArgA w) v; vret false) s = VErr (VFault 2 ln) s' /\ vtrace s' = [].
Proof.
  intros o rf pc s w x y ln H Hl HB HC Sx Sy Hn.
  eexists. split.
  - bind_with (R_rkValue _ _ _ _ _ _ H (getB_nn w) HB).
    bind_with (R_rkValue _ _ _ _ _ _ H (getC_nn w) HC).
    assert (E : objectArith ml o x y s = VErr (VFault 2 ln) (with_reg s (Push (vreg s) (VFault 2 ln)))).
    { unfold objectArith.
      destruct x; try discriminate; destruct y; try discriminate; cbn [is_fault orb];
        unfold vbind at 1; unfold vret at 1; unfold vbind at 1; unfold vret at 1;
        match goal with |- vbind (metaOp2 ?a ?b ?ev) _ _ = _ =>
          rewrite (vbind_eq _ _ _ _ _ _ _ (simple_not_fn s a b ev eq_refl eq_refl)) end;
        cbn [is_function]; apply (fault_R _ _ _ _ _ H Hl). }
    destruct x; try discriminate; destruct y; try discriminate;
      (unfold vbind at 1; rewrite E; reflexivity).
  - cbn [vtrace with_reg]. exact (R_trace _ _ _ _ H).
Qed.

Ltac arith_fault_case o H Hl Hi :=
  let x := fresh "x" in let y := fresh "y" in
  let EB := fresh "EB" in let EC := fresh "EC" in let Sx := fresh "Sx" in let Sy := fresh "Sy" in
  match type of Hi with
  | context [rkval ?k ?r (opGetArgB ?w)] => destruct (rkval k r (opGetArgB w)) as [x|] eqn:EB; [|discriminate]
  end;
  match type of Hi with
  | context [rkval ?k ?r (opGetArgC ?w)] => destruct (rkval k r (opGetArgC w)) as [y|] eqn:EC; [|destruct x; discriminate]
  end;
  destruct (is_simple x) eqn:Sx; [|destruct x; try discriminate; destruct y; discriminate];
  destruct (is_simple y) eqn:Sy; [|destruct x; try discriminate; destruct y; discriminate];
  eapply (arith_fault o); try eassumption;
  destruct x; try discriminate; try reflexivity; destruct y; try discriminate; try reflexivity;
  exfalso; destruct (arith_op _ _ _); [destruct (setr _ _ _)|]; discriminate.

Lemma step_fault : forall rf pc s w base ln,
  Rinv p rf pc s -> zth (xp_lines p) (pc - 1) = Some ln ->
  isem4_inst (xp_consts p) w rf = IFault ->
  exists s', exec_op ml gf cl (main_frame pc) w base s = VErr (VFault 2 ln) s' /\ vtrace s' = [].
Proof.
  intros rf pc s w base ln H Hl Hi. unfold isem4_inst, isem3_inst, isem_inst in Hi. unfold exec_op.
  change (fr_localbase (main_frame pc)) with 1. cbn [cl_proto cl].
  destruct (op_of_code (opGetOpCode w)) as [o|]; [|discriminate].
  destruct o; try discriminate.
  - destruct (zth rf (opGetArgB w)); [destruct (setr _ _ _)|]; discriminate.
  - destruct (zth (xp_consts p) (opGetArgBx w)); [destruct (setr _ _ _)|]; discriminate.
  - destruct (opGetArgC w =? 0); [destruct (setr _ _ _)|]; discriminate.
  - destruct (setr_range _ _ _); discriminate.
  - destruct (zth (xp_consts p) (opGetArgBx w)) as [[]|]; try discriminate.
    destruct (undefined_global _); [destruct (setr _ _ _)|]; discriminate.
  - exact (arith4_step_fault OP_ADD rf pc s w ln H Hl Hi).
  - exact (arith4_step_fault OP_SUB rf pc s w ln H Hl Hi).
  - exact (arith4_step_fault OP_MUL rf pc s w ln H Hl Hi).
  - exact (arith4_step_fault OP_DIV rf pc s w ln H Hl Hi).
  - exact (arith4_step_fault OP_MOD rf pc s w ln H Hl Hi).
  - exact (arith4_step_fault OP_POW rf pc s w ln H Hl Hi).
  - exact (unm4_step_fault rf pc s w ln H Hl Hi).
  - destruct (zth rf (opGetArgB w)); [destruct (setr _ _ _)|]; discriminate.
  - destruct ((1 <=? opGetArgB w) && (opGetArgA w + (opGetArgB w - 1) <=? len rf) && (0 <=? opGetArgA w)); discriminate.
Qed.

Definition final_ok (vs : list value) (s : vstate) : Prop :=
  vstack s = [] /\ rtop (vreg s) = len vs /\ window_is (arr (vreg s)) 0 vs /\ vtrace s = [].

Lemma adjust_exact : forall vs, adjust (length vs) vs = vs.
Proof. induction vs; simpl; congruence. Qed.

Lemma nth_firstn_skipn : forall (rf : list value) a n i, (i < n)%nat -> (a + n <= length rf)%nat ->
  nth_error rf (a + i) = Some (nth i (firstn n (skipn a rf)) VNil).
Proof.
  intros rf a n i Hi Hl.
  assert (Hlen : (i < length (firstn n (skipn a rf)))%nat) by (rewrite firstn_length, skipn_length; lia).
  rewrite <- (nth_error_nth' _ VNil Hlen).
  rewrite nth_error_firstn_lt by assumption. rewrite nth_error_skipn_add. reflexivity.
Qed.

Lemma do_return_R : forall rf pc s A B vs,
  Rinv p rf pc s -> 1 <= B -> 0 <= A -> A + (B - 1) <= len rf ->
  vs = firstn (Z.to_nat (B - 1)) (skipn (Z.to_nat A) rf) ->
  exists s', do_return (main_frame pc) (1 + A) B (Some 0%nat) s = VRet true s' /\ final_ok vs s'.
Proof.
  intros rf pc s A B vs H HB HA Hle Hvs.
  set (sc := closeUpvalues_st 1 s).
  assert (Hlen : len vs = B - 1).
  { subst vs. unfold len in *. rewrite firstn_length, skipn_length. lia. }
  set (r' := copyReturnValues (vreg s) 0 (1 + A) (B - 1) B).
  exists (with_reg (with_stack sc []) r').
  split.
  - unfold do_return. change (fr_localbase (main_frame pc)) with 1.
    unfold closeUpvalues, vmod. unfold vbind at 1. fold sc.
    unfold reg_top. unfold vbind at 1. unfold vget. unfold vbind at 1.
    assert (Hc : (match th_parent (get_thread sc (vcur sc)) with Some _ => true | None => false end
                  && Nat.eqb (length (vstack sc)) 1) = false).
    { unfold get_thread. rewrite Nat.eqb_refl. cbn [th_parent cur_thread].
      change (vcur sc) with (vcur s). change (vthreads sc) with (vthreads s).
      rewrite (R_par _ _ _ _ H). reflexivity. }
    rewrite Hc.
    change (vstack sc) with (vstack s). rewrite (R_stack _ _ _ _ H).
    unfold vbind at 1. unfold vbind at 1. unfold vmod_reg. unfold vbind at 1. unfold vret.
    change (fr_nret (main_frame pc)) with MultRet. change (fr_returnbase (main_frame pc)) with 0.
    replace (B =? 0) with false by lia. rewrite Z.eqb_refl.
    cbn [length Nat.sub Nat.eqb orb].
    change (vstack sc) with (vstack s). rewrite (R_stack _ _ _ _ H). cbn [tl].
    change (vreg (with_stack sc [])) with (vreg s). reflexivity.
  - destruct (copyReturnValues_spec (vreg s) 0 (1 + A) (B - 1) B vs) as [Ht [Hw _]]; try lia.
    + replace (B =? 0) with false by lia. split; [assumption|]. pose proof (R_top _ _ _ _ H). lia.
    + apply window_is_intro. intros i Hi.
      replace (1 + A + Z.of_nat i) with (1 + (A + Z.of_nat i)) by lia.
      rewrite (R_regs _ _ _ _ H) by (unfold len in *; lia).
      unfold zth. destruct (A + Z.of_nat i <? 0) eqn:E; [lia|].
      replace (Z.to_nat (A + Z.of_nat i)) with (Z.to_nat A + i)%nat by lia.
      subst vs. apply nth_firstn_skipn; [rewrite firstn_length, skipn_length in Hi; lia|unfold len in *; lia].
    + unfold final_ok. cbn [vstack vreg vtrace with_reg with_stack]. fold r'. fold r' in Ht, Hw.
      split; [reflexivity|]. split; [rewrite Ht; lia|]. split.
      * replace (Z.to_nat (B - 1)) with (length vs) in Hw by (unfold len in Hlen; lia).
        rewrite adjust_exact in Hw. exact Hw.
      * exact (R_trace _ _ _ _ H).
Qed.

Lemma step_return : forall rf pc s w vs,
  Rinv p rf pc s -> isem4_inst (xp_consts p) w rf = IRet vs ->
  exists s', exec_op ml gf cl (main_frame pc) w (Some 0%nat) s = VRet true s' /\ final_ok vs s'.
Proof.
  intros rf pc s w vs H Hi. unfold isem4_inst, isem3_inst, isem_inst in Hi. unfold exec_op.
  change (fr_localbase (main_frame pc)) with 1. cbn [cl_proto cl].
  destruct (op_of_code (opGetOpCode w)) as [o|]; [|discriminate].
  destruct o; try discriminate.
  - destruct (zth rf (opGetArgB w)); [destruct (setr _ _ _)|]; discriminate.
  - destruct (zth (xp_consts p) (opGetArgBx w)); [destruct (setr _ _ _)|]; discriminate.
  - destruct (opGetArgC w =? 0); [destruct (setr _ _ _)|]; discriminate.
  - destruct (setr_range _ _ _); discriminate.
  - destruct (zth (xp_consts p) (opGetArgBx w)) as [[]|]; try discriminate.
    destruct (undefined_global _); [destruct (setr _ _ _)|]; discriminate.
  - exfalso. exact (arith4_not_ret _ _ _ _ _ _ _ Hi).
  - exfalso. exact (arith4_not_ret _ _ _ _ _ _ _ Hi).
  - exfalso. exact (arith4_not_ret _ _ _ _ _ _ _ Hi).
  - exfalso. exact (arith4_not_ret _ _ _ _ _ _ _ Hi).
  - exfalso. exact (arith4_not_ret _ _ _ _ _ _ _ Hi).
  - exfalso. exact (arith4_not_ret _ _ _ _ _ _ _ Hi).
  - exfalso. exact (unm4_not_ret _ _ _ _ _ Hi).
  - destruct (zth rf (opGetArgB w)); [destruct (setr _ _ _)|]; discriminate.
  - destruct ((1 <=? opGetArgB w) && (opGetArgA w + (opGetArgB w - 1) <=? len rf) && (0 <=? opGetArgA w)) eqn:E; [|discriminate].
    inversion Hi. eapply do_return_R; try eassumption; try lia. reflexivity.
Qed.

End Step.
Section Run.
Variable ml : option nat -> VM unit.
Variable p : xproto.

Definition is_move (w : Z) : Prop := op_of_code (opGetOpCode w) = Some OP_MOVE.

(* a sequence of instructions that all complete *)
Fixpoint isem4_okseq (consts : list value) (ws : list (Z * Z)) (rf : rfile) : option rfile :=
  match ws with
  | [] => Some rf
  | (w, _) :: r => match isem4_inst consts w rf with IOk rf' => isem4_okseq consts r rf' | _ => None end
  end.

Lemma isem_code_app : forall c a b rf rf', isem4_okseq c a rf = Some rf' ->
  isem4_code c (a ++ b) rf = isem4_code c b rf'.
Proof.
  induction a as [|[w ln] a IH]; intros b rf rf' H; cbn [isem4_okseq isem4_code app] in *.
  - inversion H. reflexivity.
  - destruct (isem4_inst c w rf); try discriminate. apply IH. assumption.
Qed.

Lemma isem_move_cases : forall c w rf, is_move w ->
  (exists rf', isem4_inst c w rf = IOk rf') \/ isem4_inst c w rf = IStuck.
Proof.
  intros c w rf H. unfold isem4_inst, isem3_inst, isem_inst. unfold is_move in H. rewrite H.
  destruct (zth rf (opGetArgB w)); [|right; reflexivity].
  destruct (setr rf (opGetArgA w) v); [left; eauto|right; reflexivity].
Qed.

Lemma isem_code_moves_stuck : forall c a b rf, Forall (fun wl => is_move (fst wl)) a ->
  isem4_okseq c a rf = None -> isem4_code c (a ++ b) rf = CStuck.
Proof.
  induction a as [|[w ln] a IH]; intros b rf Hm H; cbn [isem4_okseq isem4_code app] in *; [discriminate|].
  inversion Hm; subst. cbn [fst] in H2.
  destruct (isem_move_cases c w rf H2) as [[rf' E]|E]; rewrite E in *.
  - apply IH; assumption.
  - reflexivity.
Qed.

(* the words ws sit in the code at pc, pc+1, ... *)
Definition located (ws : list Z) (pc : Z) : Prop :=
  forall j, 0 <= j < len ws -> zth (xp_code p) (pc + j) = zth ws j.

Lemma located_tail : forall w ws pc, located (w :: ws) pc -> zth (xp_code p) pc = Some w /\ located ws (pc + 1).
Proof.
  intros w ws pc H. split.
  - specialize (H 0). rewrite Z.add_0_r in H. apply H. unfold len. cbn [length]. lia.
  - intros j Hj. replace (pc + 1 + j) with (pc + (1 + j)) by lia. rewrite H.
    + unfold zth. destruct (1 + j <? 0) eqn:E1; [lia|]. destruct (j <? 0) eqn:E2; [lia|].
      replace (Z.to_nat (1 + j)) with (S (Z.to_nat j)) by lia. reflexivity.
    + unfold len in *. cbn [length]. lia.
Qed.

(* instructions that complete are executed one VM step each *)
Lemma run_prefix : forall ws pc rf s rf' n base,
  located (map fst ws) pc -> Rinv p rf pc s -> isem4_okseq (xp_consts p) ws rf = Some rf' ->
  exists s', run_loop ml (length ws + n) base s = run_loop ml n base s' /\ Rinv p rf' (pc + len ws) s'.
Proof.
  induction ws as [|[w ln] ws IH]; intros pc rf s rf' n base Hloc H Hs.
  - cbn [isem4_okseq length Nat.add] in *. inversion Hs; subst. exists s. split; [reflexivity|]. unfold len. cbn [length Z.of_nat]. rewrite Z.add_0_r. assumption.
  - cbn [isem4_okseq] in Hs. destruct (isem4_inst (xp_consts p) w rf) as [rf1| | | |] eqn:Ei; try discriminate.
    cbn [map fst] in Hloc. destruct (located_tail _ _ _ Hloc) as [Hw Hloc'].
    destruct (fetch_R _ _ _ _ _ H Hw) as [Ef R1].
    destruct (step_ok ml (gfunction ml) p rf (pc + 1) _ w base rf1 R1 Ei) as [s2 [Ex R2]].
    destruct (IH (pc + 1) rf1 s2 rf' n base Hloc' R2 Hs) as [s' [Er R']].
    exists s'. split.
    + cbn [length Nat.add]. cbn [run_loop]. rewrite Ef. rewrite (exec_inst_R _ _ _ _ _ _ _ _ R1). rewrite Ex. exact Er.
    + replace (pc + len ((w, ln) :: ws)) with (pc + 1 + len ws) by (unfold len; cbn [length]; lia). exact R'.
Qed.

Definition moven_word (w c : Z) : Z := opSetArgC (opSetOpCode w (op_code OP_MOVEN)) c.

Lemma moven_decode : forall w c, 0 <= w < 2 ^ 32 -> 0 <= c <= 511 ->
  op_of_code (opGetOpCode (moven_word w c)) = Some OP_MOVEN /\
  opGetArgA (moven_word w c) = opGetArgA w /\ opGetArgB (moven_word w c) = opGetArgB w /\
  opGetArgC (moven_word w c) = c.
Proof.
  intros w c Hw Hc. unfold moven_word.
  destruct (VM.OpcodeFacts.get_set w (op_code OP_MOVEN) Hw) as [[O1 [O2 [O3 O4]]] _].
  assert (Hw' : 0 <= opSetOpCode w (op_code OP_MOVEN) < 2 ^ 32).
  { rewrite VM.OpcodeFacts.setOp_eq. apply VM.OpcodeFacts.setf_range; lia. }
  destruct (VM.OpcodeFacts.get_set (opSetOpCode w (op_code OP_MOVEN)) c Hw') as [_ [_ [_ [[C1 [C2 [C3 C4]]] _]]]].
  rewrite C2, C3, C4, C1, O1, O2, O3.
  split; [reflexivity|]. split; [reflexivity|]. split; [reflexivity|].
  apply Z.mod_small. lia.
Qed.

Lemma MOVEN_loop_R : forall ws pc rf s rf' pcx,
  Forall (fun wl => is_move (fst wl)) ws -> located (map fst ws) pc -> Rinv p rf pcx s ->
  isem4_okseq (xp_consts p) ws rf = Some rf' ->
  exists s', MOVEN_loop (xp_code p) 1 (length ws) pc s = VRet (pc + len ws) s' /\ Rinv p rf' pcx s'.
Proof.
  induction ws as [|[w ln] ws IH]; intros pc rf s rf' pcx Hm Hloc H Hs.
  - cbn [isem4_okseq] in Hs. inversion Hs; subst. exists s. split; [|assumption].
    unfold len. cbn [length MOVEN_loop Z.of_nat]. rewrite Z.add_0_r. reflexivity.
  - inversion Hm as [|? ? Hw Hm']; subst. cbn [fst] in Hw.
    cbn [isem4_okseq] in Hs. unfold isem4_inst, isem3_inst, isem_inst in Hs. unfold is_move in Hw. rewrite Hw in Hs.
    destruct (zth rf (opGetArgB w)) as [v|] eqn:EB; [|discriminate].
    destruct (setr rf (opGetArgA w) v) as [rf1|] eqn:ES; [|discriminate].
    cbn [map fst] in Hloc. destruct (located_tail _ _ _ Hloc) as [Hz Hloc'].
    assert (R1 : Rinv p rf1 pcx (with_reg s (Set_ (vreg s) (1 + opGetArgA w) v))) by (eapply R_reg_set; eassumption).
    destruct (IH (pc + 1) rf1 _ rf' pcx Hm' Hloc' R1 Hs) as [s' [E R']].
    exists s'. split; [|exact R'].
    cbn [length MOVEN_loop]. rewrite Hz.
    bind_with (R_reg_get _ _ _ _ _ _ H EB). bind_with (reg_set_eq (1 + opGetArgA w) v s).
    rewrite E. f_equal. unfold len. cbn [length]. lia.
Qed.

Lemma step_moven : forall gf rf pc s w ln ws base rf',
  Rinv p rf pc s -> 0 <= w < 2 ^ 32 -> len ws <= 511 ->
  Forall (fun wl => is_move (fst wl)) ((w, ln) :: ws) -> located (map fst ws) pc ->
  isem4_okseq (xp_consts p) ((w, ln) :: ws) rf = Some rf' ->
  exists s', exec_op ml gf (mkCl p [] 0%nat) (main_frame pc) (moven_word w (len ws)) base s = VRet false s' /\
             Rinv p rf' (pc + len ws) s'.
Proof.
  intros gf rf pc s w ln ws base rf' H Hw Hc Hm Hloc Hs.
  destruct (moven_decode w (len ws) Hw ltac:(pose proof (len_nonneg _ ws); lia)) as [D0 [DA [DB DC]]].
  inversion Hm as [|? ? Hmw Hm']; subst. cbn [fst] in Hmw.
  cbn [isem4_okseq] in Hs. unfold isem4_inst, isem3_inst, isem_inst in Hs. unfold is_move in Hmw. rewrite Hmw in Hs.
  destruct (zth rf (opGetArgB w)) as [v|] eqn:EB; [|discriminate].
  destruct (setr rf (opGetArgA w) v) as [rf1|] eqn:ES; [|discriminate].
  assert (R1 : Rinv p rf1 pc (with_reg s (Set_ (vreg s) (1 + opGetArgA w) v))) by (eapply R_reg_set; eassumption).
  destruct (MOVEN_loop_R ws pc rf1 _ rf' pc Hm' Hloc R1 Hs) as [s2 [E2 R2]].
  destruct (R_set_pc p rf' pc (pc + len ws) s2 R2) as [E3 R3].
  eexists. split; [|exact R3].
  unfold exec_op. rewrite D0. rewrite DA, DB, DC.
  change (fr_localbase (main_frame pc)) with 1. cbn [cl_proto].
  bind_with (R_reg_get _ _ _ _ _ _ H EB). bind_with (reg_set_eq (1 + opGetArgA w) v s).
  change (fr_pc (main_frame pc)) with pc.
  replace (Z.to_nat (len ws)) with (length ws) by (unfold len; lia).
  bind_with E2.
  change (set_pc (main_frame pc) (pc + len ws)) with (main_frame (pc + len ws)).
  bind_with E3. reflexivity.
Qed.

Lemma is_opc_move : forall w, is_opc w OP_MOVE = true -> is_move w.
Proof.
  intros w H. unfold is_opc in H. unfold is_move. replace (opGetOpCode w) with (op_code OP_MOVE) by lia. reflexivity.
Qed.

Lemma count_moves_spec : forall l, (count_moves l <= length l)%nat /\ Forall (fun w => is_move w) (firstn (count_moves l) l).
Proof.
  induction l as [|w l IH]; cbn [count_moves]; [split; [lia|constructor]|].
  destruct (is_opc w OP_MOVE) eqn:E.
  - destruct IH as [I1 I2]. split; [cbn [length]; lia|]. cbn [firstn]. constructor; [apply is_opc_move; assumption|assumption].
  - split; [lia|constructor].
Qed.

Lemma located_mid : forall X Y Z, xp_code p = X ++ Y ++ Z -> located Y (len X).
Proof.
  intros X Y Z H j Hj. rewrite H. rewrite zth_app_r by lia.
  replace (len X + j - len X) with j by lia. apply zth_app_l. assumption.
Qed.

Lemma firstn_map_fst : forall (l : list (Z * Z)) n, firstn n (map fst l) = map fst (firstn n l).
Proof. intros. apply firstn_map. Qed.
Lemma skipn_map_fst : forall (l : list (Z * Z)) n, skipn n (map fst l) = map fst (skipn n l).
Proof. intros. apply skipn_map. Qed.

Lemma Forall_map_fst : forall (P : Z -> Prop) (l : list (Z * Z)), Forall P (map fst l) -> Forall (fun wl => P (fst wl)) l.
Proof. intros P l. induction l; intro H; [constructor|]. inversion H; subst. constructor; auto. Qed.

Definition run_goal (res : cres) (n : nat) (s : vstate) : Prop :=
  match res with
  | CRet vs => exists s', run_loop ml n (Some 0%nat) s = VRet tt s' /\ final_ok vs s'
  | CFault ln => exists s', run_loop ml n (Some 0%nat) s = VErr (VFault 2 ln) s' /\ vtrace s' = []
  | _ => True
  end.

(* one instruction at cf.Pc, the rest of the run being described by a continuation *)
Lemma run_one : forall w ln rest pc rf s n,
  zth (xp_code p) pc = Some w -> zth (xp_lines p) pc = Some ln -> Rinv p rf pc s ->
  (forall rf1 s1, isem4_inst (xp_consts p) w rf = IOk rf1 -> Rinv p rf1 (pc + 1) s1 ->
                  run_goal (isem4_code (xp_consts p) rest rf1) n s1) ->
  run_goal (isem4_code (xp_consts p) ((w, ln) :: rest) rf) (S n) s.
Proof.
  intros w ln rest pc rf s n Hw Hl H K.
  destruct (fetch_R _ _ _ _ _ H Hw) as [Ef R1].
  cbn [isem4_code].
  destruct (isem4_inst (xp_consts p) w rf) as [rf1|vs| | |] eqn:Ei; cbn [run_goal]; try exact I.
  - destruct (step_ok ml (gfunction ml) p rf (pc + 1) _ w (Some 0%nat) rf1 R1 Ei) as [s2 [Ex R2]].
    specialize (K rf1 s2 eq_refl R2).
    unfold run_goal in *. cbn [run_loop]. rewrite Ef. rewrite (exec_inst_R _ _ _ _ _ _ _ _ R1). rewrite Ex. exact K.
  - destruct (step_return ml (gfunction ml) p rf (pc + 1) _ w vs R1 Ei) as [s2 [Ex F]].
    exists s2. split; [|exact F].
    cbn [run_loop]. rewrite Ef. rewrite (exec_inst_R _ _ _ _ _ _ _ _ R1). rewrite Ex. reflexivity.
  - replace pc with (pc + 1 - 1) in Hl by lia.
    destruct (step_fault ml (gfunction ml) p rf (pc + 1) _ w (Some 0%nat) ln R1 Hl Ei) as [s2 [Ex F]].
    exists s2. split; [|exact F].
    cbn [run_loop]. rewrite Ef. rewrite (exec_inst_R _ _ _ _ _ _ _ _ R1). rewrite Ex. reflexivity.
Qed.

Lemma zth_cons_succ : forall A (x : A) l j, 0 <= j -> zth (x :: l) (1 + j) = zth l j.
Proof.
  intros A x l j Hj. unfold zth. destruct (1 + j <? 0) eqn:E1; [lia|]. destruct (j <? 0) eqn:E2; [lia|].
  replace (Z.to_nat (1 + j)) with (S (Z.to_nat j)) by lia. reflexivity.
Qed.

Lemma isem_okseq_app : forall c a b rf, isem4_okseq c (a ++ b) rf =
  match isem4_okseq c a rf with Some rf' => isem4_okseq c b rf' | None => None end.
Proof.
  induction a as [|[w ln] a IH]; intros b rf; cbn [isem4_okseq app]; [reflexivity|].
  destruct (isem4_inst c w rf); try reflexivity. apply IH.
Qed.

Lemma run_patched : forall k ul pre rf s n,
  (length ul <= k)%nat -> (length ul <= n)%nat ->
  xp_code p = pre ++ patch_moves k (map fst ul) ->
  (forall j, 0 <= j < len ul -> zth (xp_lines p) (len pre + j) = zth (map snd ul) j) ->
  Forall (fun wl => 0 <= fst wl < 2 ^ 32) ul ->
  Rinv p rf (len pre) s ->
  run_goal (isem4_code (xp_consts p) ul rf) n s.
Proof.
  induction k; intros ul pre rf s n Hk Hn Hcode Hlines Hu H.
  - destruct ul; [exact I|cbn [length] in Hk; lia].
  - destruct ul as [|[w ln] r]; [exact I|].
    destruct n as [|n]; [cbn [length] in Hn; lia|].
    cbn [length] in Hk, Hn.
    assert (Hl0 : zth (xp_lines p) (len pre) = Some ln).
    { specialize (Hlines 0). rewrite Z.add_0_r in Hlines. rewrite Hlines; [reflexivity|]. unfold len. cbn [length]. lia. }
    assert (Hlines' : forall X, len X = 1 -> forall j, 0 <= j < len r ->
              zth (xp_lines p) (len (pre ++ X) + j) = zth (map snd r) j).
    { intros X HX j Hj. rewrite len_app, HX. replace (len pre + 1 + j) with (len pre + (1 + j)) by lia.
      rewrite Hlines by (unfold len in *; cbn [length]; lia). cbn [map snd]. apply zth_cons_succ. lia. }
    inversion Hu as [|? ? Hw Hu']; subst. cbn [fst] in Hw.
    (* the single-instruction case, used when w is not a MOVE or starts no run *)
    assert (Single : xp_code p = pre ++ w :: patch_moves k (map fst r) ->
                     run_goal (isem4_code (xp_consts p) ((w, ln) :: r) rf) (S n) s).
    { intro Hc. apply run_one with (pc := len pre); try assumption.
      - rewrite Hc. rewrite zth_app_r by lia. replace (len pre - len pre) with 0 by lia. reflexivity.
      - intros rf1 s1 _ R1.
        apply IHk with (pre := pre ++ [w]); try lia; try assumption.
        + rewrite Hc. rewrite <- app_assoc. reflexivity.
        + apply Hlines'. reflexivity.
        + rewrite len_app. exact R1. }
    cbn [map fst patch_moves] in Hcode.
    destruct (is_opc w OP_MOVE) eqn:Em; [|apply Single; exact Hcode].
    destruct (count_moves (map fst r)) as [|m'] eqn:Ecm.
    { apply Single. cbn [firstn skipn app] in Hcode. exact Hcode. }
    set (mm := S m') in *.
    destruct (count_moves_spec (map fst r)) as [Hmle Hmall]. rewrite Ecm in Hmle, Hmall. fold mm in Hmle, Hmall.
    rewrite map_length in Hmle.
    set (c := Z.min (Z.of_nat mm) opMaxArgsC) in *.
    fold (moven_word w c) in Hcode.
    set (run := firstn mm r). set (rest := skipn mm r).
    assert (Hr : r = run ++ rest) by (symmetry; apply firstn_skipn).
    assert (Hrunlen : length run = mm) by (unfold run; rewrite firstn_length; lia).
    rewrite firstn_map_fst, skipn_map_fst in Hcode. fold run rest in Hcode.
    rewrite firstn_map_fst in Hmall. fold run in Hmall.
    set (cN := Z.to_nat c).
    set (wsc := firstn cN run). set (left := skipn cN run).
    assert (Hrun : run = wsc ++ left) by (symmetry; apply firstn_skipn).
    assert (Hc511 : 0 <= c <= 511) by (unfold c, opMaxArgsC; lia).
    assert (Hwsclen : len wsc = c) by (unfold len, wsc; rewrite firstn_length; unfold cN, c, opMaxArgsC in *; lia).
    assert (Hmall' : Forall (fun wl => is_move (fst wl)) run) by (apply Forall_map_fst; exact Hmall).
    assert (Hmw : is_move w) by (apply is_opc_move; exact Em).
    assert (Hm1 : Forall (fun wl => is_move (fst wl)) ((w, ln) :: wsc)).
    { constructor; [exact Hmw|]. rewrite Hrun in Hmall'. apply Forall_app in Hmall'. tauto. }
    assert (Hm2 : Forall (fun wl => is_move (fst wl)) left).
    { rewrite Hrun in Hmall'. apply Forall_app in Hmall'. tauto. }
    (* the whole program as  (w :: wsc) ++ left ++ rest *)
    replace ((w, ln) :: r) with (((w, ln) :: wsc) ++ (left ++ rest))
      by (rewrite Hr, Hrun; cbn [app]; rewrite <- app_assoc; reflexivity).
    destruct (isem4_okseq (xp_consts p) ((w, ln) :: wsc) rf) as [rf1|] eqn:E1;
      [|rewrite (isem_code_moves_stuck _ _ _ _ Hm1 E1); exact I].
    rewrite (isem_code_app _ _ _ _ _ E1).
    destruct (isem4_okseq (xp_consts p) left rf1) as [rf2|] eqn:E2;
      [|rewrite (isem_code_moves_stuck _ _ _ _ Hm2 E2); exact I].
    rewrite (isem_code_app _ _ _ _ _ E2).
    (* code layout *)
    assert (Hcode2 : xp_code p = (pre ++ [moven_word w c]) ++ map fst wsc ++ (map fst left ++ patch_moves k (map fst rest))).
    { rewrite Hcode. rewrite Hrun. rewrite map_app. rewrite <- !app_assoc. reflexivity. }
    assert (Hzw : zth (xp_code p) (len pre) = Some (moven_word w c)).
    { rewrite Hcode. rewrite zth_app_r by lia. replace (len pre - len pre) with 0 by lia. reflexivity. }
    destruct (fetch_R _ _ _ _ _ H Hzw) as [Ef R1].
    assert (Hloc1 : located (map fst wsc) (len pre + 1)).
    { replace (len pre + 1) with (len (pre ++ [moven_word w c])) by (rewrite len_app; reflexivity).
      eapply located_mid. exact Hcode2. }
    rewrite <- Hwsclen in Ef.
    destruct (step_moven (gfunction ml) rf (len pre + 1) _ w ln wsc (Some 0%nat) rf1 R1 Hw ltac:(lia) Hm1 Hloc1 E1) as [s2 [Ex R2]].
    assert (Hloc2 : located (map fst left) (len pre + 1 + len wsc)).
    { replace (len pre + 1 + len wsc) with (len ((pre ++ [moven_word w (len wsc)]) ++ map fst wsc))
        by (rewrite !len_app; unfold len; rewrite map_length; cbn [length]; lia).
      eapply located_mid. rewrite Hwsclen. rewrite Hcode2. rewrite <- !app_assoc. reflexivity. }
    assert (Hleftlen : (length left + length wsc = mm)%nat).
    { rewrite <- Hrunlen. rewrite Hrun. rewrite app_length. lia. }
    assert (Hrestlen : (length r = mm + length rest)%nat).
    { rewrite Hr at 1. rewrite app_length. lia. }
    assert (Hn2 : exists n2, n = (length left + n2)%nat /\ (length rest <= n2)%nat).
    { exists (n - length left)%nat. split; lia. }
    destruct Hn2 as [n2 [Hn2 Hn2']].
    destruct (run_prefix left (len pre + 1 + len wsc) rf1 s2 rf2 n2 (Some 0%nat) Hloc2 R2 E2) as [s3 [Er R3]].
    assert (G : run_goal (isem4_code (xp_consts p) rest rf2) n2 s3).
    { apply IHk with (pre := pre ++ moven_word w c :: map fst run); try lia; try assumption.
      - rewrite Hcode. rewrite <- app_assoc. reflexivity.
      - intros j Hj. rewrite len_app. unfold len at 2. cbn [length]. rewrite map_length. rewrite Hrunlen.
        replace (len pre + Z.of_nat (S mm) + j) with (len pre + (1 + (Z.of_nat mm + j))) by lia.
        rewrite Hlines by (unfold len in *; cbn [length]; lia).
        cbn [map snd]. rewrite zth_cons_succ by lia.
        rewrite Hr. rewrite map_app. rewrite zth_app_r by (unfold len; rewrite map_length; lia).
        f_equal. unfold len. rewrite map_length. lia.
      - rewrite Hr in Hu'. apply Forall_app in Hu'. tauto.
      - rewrite len_app. unfold len at 2. cbn [length]. rewrite map_length, Hrunlen.
        replace (len pre + Z.of_nat (S mm)) with (len pre + 1 + len wsc + len left) by (unfold len in *; lia).
        exact R3. }
    unfold run_goal in *.
    destruct (isem4_code (xp_consts p) rest rf2); try exact I;
      (destruct G as [s' [G1 G2]]; exists s'; split; [|exact G2];
       cbn [run_loop]; rewrite Ef; rewrite (exec_inst_R _ _ _ _ _ _ _ _ R1); rewrite Ex;
       rewrite Hn2; rewrite Er; exact G1).
Qed.

End Run.

Section Top.
Variable ml : option nat -> VM unit.

Definition frag_proto (ul : list (Z * Z)) (consts : list value) (nregs : Z) : xproto :=
  XProto (patch_moves (length ul) (map fst ul)) consts [] 0 0
         (VarArgHasArg + VarArgNeedsArg + VarArgIsVarArg) nregs (map snd ul) 0.

Lemma vbind_assoc_at : forall A B C (m : VM A) (f : A -> VM B) (g : B -> VM C) s,
  vbind (vbind m f) g s = vbind m (fun x => vbind (f x) g) s.
Proof. intros. unfold vbind. destruct (m s); reflexivity. Qed.

Lemma push_main : forall code consts nregs lines,
  let p := XProto code consts [] 0 0 7 nregs lines 0 in
  exists s0, (vdo _ <- pushCallFrame (Some (FnLua 0%nat)) 0 1 0 0 MultRet (VFun 0%nat) false; nccalls_add 1) (init_vstate p) = VRet tt s0 /\
    vstack s0 = [main_frame 0] /\ nth_error (vclos s0) 0 = Some (mkCl p [] 0%nat) /\ vuvcache s0 = [] /\
    th_parent (nth (vcur s0) (vthreads s0) dummy_th) = None /\ rtop (vreg s0) = 1 + nregs /\ vtrace s0 = [] /\
    nth 0 (vtabs s0) empty_tab = g_globals /\ vstrmt s0 = Some 5%nat /\ nth 5 (vtabs s0) empty_tab = g_strmt.
Proof.
  intros code consts nregs lines p. eexists. split; [vm_compute; reflexivity|].
  repeat split; vm_compute; reflexivity.
Qed.

Lemma init_call : forall ul consts nregs, 0 <= nregs ->
  let p := frag_proto ul consts nregs in
  exists s0, callR ml 0 MultRet (-1) (init_vstate p) = (vdo _ <- ml (Some 0%nat); vdo _ <- nccalls_add (-1); vret tt) s0 /\ Rinv p [] 0 s0.
Proof.
  intros ul consts nregs Hn p.
  destruct (push_main (patch_moves (length ul) (map fst ul)) consts nregs (map snd ul)) as [s0 [E [H1 [H2 [H3 [H4 [H5 [H6 [H7 [H8 H9]]]]]]]]]].
  exists s0. split.
  - unfold callR.
    bind_with (eq_refl : reg_top (init_vstate p) = VRet 1 (init_vstate p)). cbv zeta.
    bind_with (eq_refl : reg_get (1 - 0 - 1) (init_vstate p) = VRet (VFun 0%nat) (init_vstate p)).
    bind_with (eq_refl : metaCall (VFun 0%nat) (init_vstate p) = VRet (Some (FnLua 0%nat), false) (init_vstate p)).
    cbn [fst snd].
    change (1 - 0 - 1) with 0. change (0 + 1) with 1. change (if -1 <? 0 then 0 else -1) with 0.
    rewrite <- vbind_assoc_at. bind_with E.
    unfold vget at 1. unfold vbind at 1. rewrite H1. reflexivity.
  - constructor; try assumption.
    + intros i Hi. unfold len in Hi. cbn [length] in Hi. lia.
    + unfold len. cbn [length]. lia.
Qed.
End Top.

Lemma reg_get_range_window : forall vs lo s, window_is (arr (vreg s)) lo vs ->
  reg_get_range lo (length vs) s = VRet vs s.
Proof.
  induction vs as [|v vs IH]; intros lo s H; [reflexivity|].
  cbn [length reg_get_range].
  assert (H0 : rd (arr (vreg s)) lo = Some v).
  { pose proof (window_is_rd _ _ _ 0%nat H ltac:(cbn [length]; lia)) as E. cbn [Z.of_nat nth] in E. rewrite Z.add_0_r in E. exact E. }
  assert (E1 : reg_get lo s = VRet v s) by (unfold reg_get, Get; rewrite H0; reflexivity).
  bind_with E1.
  assert (Hw : window_is (arr (vreg s)) (lo + 1) vs).
  { apply window_is_intro. intros i Hi.
    pose proof (window_is_rd _ _ _ (S i) H ltac:(cbn [length]; lia)) as E. cbn [nth] in E.
    replace (lo + 1 + Z.of_nat i) with (lo + Z.of_nat (S i)) by lia. exact E. }
  bind_with (IH (lo + 1) s Hw). reflexivity.
Qed.

(* the VM model runs a straight-line main chunk as isem says *)
Theorem vm_runs_isem_lemma : forall ul consts nregs fuel,
  0 <= nregs -> Forall (fun wl => 0 <= fst wl < 2 ^ 32) ul -> (length ul + 2 <= fuel)%nat ->
  match isem4_code consts ul [] with
  | CRet vs => exists s', run_proto fuel (frag_proto ul consts nregs) = VFinOk vs s' /\ vtrace s' = []
  | CFault ln => exists s', run_proto fuel (frag_proto ul consts nregs) = VFinErr (VFault 2 ln) s' /\ vtrace s' = []
  | _ => True
  end.
Proof.
  intros ul consts nregs fuel Hn Hu Hf.
  destruct fuel as [|n]; [lia|].
  set (p := frag_proto ul consts nregs).
  destruct (init_call (mainLoop (S n)) ul consts nregs Hn) as [s0 [Ec R0]]. fold p in Ec, R0.
  assert (Hml : mainLoop (S n) (Some 0%nat) s0 = run_loop (mainLoop n) n (Some 0%nat) s0).
  { cbn [mainLoop]. rewrite (R_stack _ _ _ _ R0). reflexivity. }
  pose proof (run_patched (mainLoop n) p (length ul) ul [] [] s0 n ltac:(lia) ltac:(lia)) as G.
  assert (G' : run_goal (mainLoop n) (isem4_code (xp_consts p) ul []) n s0).
  { apply G; try assumption.
    - reflexivity.
    - intros j Hj. reflexivity. }
  clear G. change (xp_consts p) with consts in G'. unfold run_goal in G'.
  unfold run_proto, PCall, Call. change (rtop (vreg (init_vstate p)) - 0 - 1) with 0.
  destruct (isem4_code consts ul []) as [vs|ln| |]; try exact I.
  - destruct G' as [s' [Er [F1 [F2 [F3 F4]]]]].
    rewrite Ec. unfold vbind at 1. rewrite Hml, Er. unfold nccalls_add, vmod. unfold vbind at 1. unfold vret.
    set (s'' := set_nccalls (cur_nccalls s' + -1) s').
    change (vreg s') with (vreg s'') in F2, F3. change (vtrace s') with (vtrace s'') in F4.
    clearbody s''. clear s' Er F1. rename s'' into s'.
    assert (Eg : reg_get_range 0 (Z.to_nat (rtop (vreg (SetSp 0 s')))) (SetSp 0 s') = VRet vs (SetSp 0 s')).
    { change (vreg (SetSp 0 s')) with (vreg s'). rewrite F2. replace (Z.to_nat (len vs)) with (length vs) by (unfold len; lia).
      apply reg_get_range_window. exact F3. }
    change (length (vstack (init_vstate p))) with 0%nat. rewrite Eg. exists (SetSp 0 s'). split; [reflexivity|exact F4].
  - destruct G' as [s' [Er F]].
    rewrite Ec. unfold vbind at 1. rewrite Hml, Er.
    eexists. split; [reflexivity|]. exact F.
Qed.
