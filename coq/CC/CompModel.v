(* CC: a transcription of /repo/compile.go on a fragment of the M-Lua AST (Lua/Syntax.v).
   Definitions only, no proofs.

   compile.go                               here
   ---------------------------------------  ---------------------------------------------------
   funcContext{Proto.Constants, Code,       cstate {cs_consts; cs_code (a stack: head = last
     Block.LocalVars, regTop}                 instruction, so Pop is tl and Last is hd; each entry
                                              is the word and its DbgSourcePositions line);
                                              cs_locals; cs_regtop}
   ConstIndex                               constIndex (Go == on LNumber: NaN never found, 0 and
                                              -0 told apart by the sign bit)
   codeStore.AddABC/ABx, PropagateKMV/MV    addABC/addABx, propagateKMV/propagateMV
   savereg, ecnone                          savereg, ecnone
   constFold, lnumberValue                  cfold (numbers only; % and ^ on the exact fragment of
                                              Lua/Num.v, outside of it the compilation is None)
   compileExpr and its helpers              compileExpr (NumberExpr/constLValueExpr, StringExpr,
     compileArithmeticOpExpr,                 Nil/True/False, IdentExpr local or global,
     compileUnaryOpExpr                       ArithmeticOpExpr, UnaryMinus/UnaryNot; the parser
                                              drops parentheses, EParen is transparent)
   compileRegAssignment,                    compileRegAssignment, compileLocalAssignStmt
     compileLocalAssignStmt
   compileAssignStmt(Left/Right)            compileAssignStmt (every target a local variable)
   compileReturnStmt                        compileReturnStmt (no call / `...` among the values)
   compileChunk, compileFunctionExpr        compileChunk, compile_frag (main chunk: no parameters,
                                              IsVarArg = HasArg|NeedsArg|IsVarArg, final RETURN 0 1)
   opMaxReg, patchCode                      opMaxReg, patch_moves (MOVE runs -> MOVEN),
                                              NumUsedRegisters; no jumps occur in the fragment

   Lines: the generator prints one statement per line, every node of a statement of the fragment
   has the statement's line; the final RETURN has eline(last statement) + 1. *)
From Coq Require Import Floats SpecFloat.
From GL Require Import Common.Bytes Lua.Syntax Lua.Num Lua.Values Lua.Eval.
From GL Require Import VMX.Machine.

Definition maxLocalVars := 200.     (* LUAI_MAXVARS: SetRegTop's limit *)
Definition maxRegisters := 250.     (* MAXSTACK: patchCode's limit on the frame *)
Definition regNotDefined := opMaxArgsA + 1.

Inductive ectype := EcGlobal | EcUpvalue | EcLocal | EcTable | EcVararg | EcMethod | EcNone.
Record expcontext := mkEc { ec_type : ectype; ec_reg : Z; ec_varargopt : Z }.
Definition ecnone (v : Z) : expcontext := mkEc EcNone regNotDefined v.

(* func savereg(ec, reg) *)
Definition savereg (ec : expcontext) (reg : Z) : Z :=
  match ec_type ec with
  | EcLocal => if ec_reg ec =? regNotDefined then reg else ec_reg ec
  | _ => reg
  end.

Record cstate := mkCS {
  cs_code : list (Z * Z);
  cs_consts : list value;
  cs_locals : list name;
  cs_regtop : Z }.

Definition CM (A : Type) := cstate -> option (A * cstate).
Definition cret {A} (a : A) : CM A := fun s => Some (a, s).
Definition cfail {A} : CM A := fun _ => None.
Definition cbind {A B} (m : CM A) (f : A -> CM B) : CM B :=
  fun s => match m s with Some (a, s') => f a s' | None => None end.
Notation "'cdo' x <- m ; f" := (cbind m (fun x => f)) (at level 200, x pattern, m at level 100, f at level 200).

(* ---------- constants ---------- *)
Definition signbit (f : float) : bool :=
  match Prim2SF f with
  | S754_zero s => s | S754_infinity s => s | S754_finite s _ _ => s | S754_nan => false
  end.

(* lv.Type() == ctype && lv == value, then the sign-bit test for numbers *)
Definition const_same (lv v : value) : bool :=
  match lv, v with
  | VNum x, VNum y => PrimFloat.eqb x y && Bool.eqb (signbit x) (signbit y)
  | VStr x, VStr y => beqb x y
  | _, _ => false
  end.

Fixpoint const_find (l : list value) (v : value) (i : Z) : option Z :=
  match l with
  | [] => None
  | lv :: r => if const_same lv v then Some i else const_find r v (i + 1)
  end.

(* func (fc *funcContext) ConstIndex(value) *)
Definition constIndex (v : value) : CM Z :=
  fun s => match const_find (cs_consts s) v 0 with
           | Some i => Some (i, s)
           | None => let i := len (cs_consts s) in
                     if i >? opMaxArgBx then None
                     else Some (i, mkCS (cs_code s) (cs_consts s ++ [v]) (cs_locals s) (cs_regtop s))
           end.

(* ---------- code store ---------- *)
Definition add (inst line : Z) : CM unit :=
  fun s => Some (tt, mkCS ((inst, line) :: cs_code s) (cs_consts s) (cs_locals s) (cs_regtop s)).
Definition addABC (o : opcode) (a b c line : Z) : CM unit := add (opCreateABC (op_code o) a b c) line.
Definition addABx (o : opcode) (a bx line : Z) : CM unit := add (opCreateABx (op_code o) a bx) line.

Definition is_opc (w : Z) (o : opcode) : bool := opGetOpCode w =? op_code o.

Definition pop_code (s : cstate) : cstate := mkCS (tl (cs_code s)) (cs_consts s) (cs_locals s) (cs_regtop s).

(* func (cd *codeStore) PropagateKMV(top, save, reg, inc): the pair (save, reg) afterwards *)
Definition propagateKMV (reg inc : Z) : CM (Z * Z) :=
  fun s =>
    let dflt := Some ((reg, reg + inc), s) in
    match cs_code s with
    | [] => dflt                                   (* Last() = opInvalidInstruction: no case applies *)
    | (lastinst, _) :: _ =>
        if opGetArgA lastinst >=? cs_regtop s then
          if is_opc lastinst OP_LOADK then
            let cindex := opGetArgBx lastinst in
            if cindex <=? opMaxIndexRk then Some ((opRkAsk cindex, reg), pop_code s) else dflt
          else if is_opc lastinst OP_MOVE then Some ((opGetArgB lastinst, reg), pop_code s)
          else dflt
        else dflt
    end.

(* func (cd *codeStore) PropagateMV(top, save, reg, inc) *)
Definition propagateMV (reg inc : Z) : CM (Z * Z) :=
  fun s =>
    let dflt := Some ((reg, reg + inc), s) in
    match cs_code s with
    | [] => dflt
    | (lastinst, _) :: _ =>
        if (opGetArgA lastinst >=? cs_regtop s) && is_opc lastinst OP_MOVE
        then Some ((opGetArgB lastinst, reg), pop_code s) else dflt
    end.

(* ---------- local variables ---------- *)
(* func (vp *varNamePool) Find(name): the last index with that name, -1 if none *)
Fixpoint find_last (l : list name) (x : name) (i acc : Z) : Z :=
  match l with
  | [] => acc
  | y :: r => find_last r x (i + 1) (if beqb y x then i else acc)
  end.
Definition FindLocalVar (s : cstate) (x : name) : Z := find_last (cs_locals s) x 0 (-1).

(* func (fc *funcContext) RegisterLocalVar(name) *)
Definition RegisterLocalVar (x : name) : CM unit :=
  fun s => let top := cs_regtop s + 1 in
           if top >? maxLocalVars then None
           else Some (tt, mkCS (cs_code s) (cs_consts s) (cs_locals s ++ [x]) top).

(* ---------- constant folding ---------- *)
Definition is_arith_op (o : binop) : bool :=
  match o with OAdd | OSub | OMul | ODiv | OMod | OPow => true | _ => false end.

(* func constFold + lnumberValue: None = outside the exact arithmetic of Lua/Num.v;
   Some None = not a constant; Some (Some f) = the constant f *)
Fixpoint cfold (e : expr) : option (option float) :=
  match e with
  | ENum f => Some (Some f)
  | EParen a => cfold a
  | EBin o a b =>
      if is_arith_op o then
        match cfold a, cfold b with
        | Some (Some x), Some (Some y) =>
            match arith_op o x y with Some r => Some (Some r) | None => None end
        | None, _ | _, None => None
        | _, _ => Some None
        end
      else Some None
  | EUn ONeg a =>
      match cfold a with
      | Some (Some x) => Some (Some (- x)%float)
      | other => other
      end
  | _ => Some None
  end.

Definition arith_opcode (o : binop) : opcode :=
  match o with
  | OAdd => OP_ADD | OSub => OP_SUB | OMul => OP_MUL | ODiv => OP_DIV | OMod => OP_MOD | _ => OP_POW
  end.

Fixpoint strip_paren (e : expr) : expr := match e with EParen a => strip_paren a | _ => e end.

(* ---------- expressions ---------- *)
(* func compileExpr(context, reg, expr, ec) int; ln = the line of every node of the statement *)
Fixpoint compileExpr (ln reg : Z) (e : expr) (ec : expcontext) {struct e} : CM Z :=
  let sreg := savereg ec reg in
  let sused := if sreg <? reg then 0 else 1 in
  let loadk v := cdo ci <- constIndex v; cdo _ <- addABx OP_LOADK sreg ci ln; cret sused in
  match e with
  | EParen a => compileExpr ln reg a ec
  | EStr b => loadk (VStr b)
  | ENum f => loadk (VNum f)
  | ENil => cdo _ <- addABC OP_LOADNIL sreg sreg 0 ln; cret sused
  | EFalse => cdo _ <- addABC OP_LOADBOOL sreg 0 0 ln; cret sused
  | ETrue => cdo _ <- addABC OP_LOADBOOL sreg 1 0 ln; cret sused
  | EVar x =>
      fun s => let b := FindLocalVar s x in
               if b >? -1 then (cdo _ <- addABC OP_MOVE sreg b 0 ln; cret sused) s
               else (cdo ci <- constIndex (VStr x); cdo _ <- addABx OP_GETGLOBAL sreg ci ln; cret sused) s
  | EBin o a b =>
      if negb (is_arith_op o) then cfail else
      match cfold e with
      | None => cfail
      | Some (Some f) => loadk (VNum f)
      | Some None =>
          (* compileArithmeticOpExpr *)
          cdo inc1 <- compileExpr ln reg a (ecnone 0);
          cdo p1 <- propagateKMV reg inc1;
          let '(bb, reg1) := p1 in
          cdo inc2 <- compileExpr ln reg1 b (ecnone 0);
          cdo p2 <- propagateKMV reg1 inc2;
          let '(cc, _) := p2 in
          cdo _ <- addABC (arith_opcode o) sreg bb cc ln; cret sused
      end
  | EUn ONeg a =>
      match cfold e with
      | None => cfail
      | Some (Some f) => loadk (VNum f)
      | Some None =>
          cdo inc1 <- compileExpr ln reg a (ecnone 0);
          cdo p1 <- propagateMV reg inc1;
          cdo _ <- addABC OP_UNM sreg (fst p1) 0 ln; cret sused
      end
  | EUn ONot a =>
      match strip_paren a with
      | ETrue => cdo _ <- addABC OP_LOADBOOL sreg 0 0 ln; cret sused
      | EFalse | ENil => cdo _ <- addABC OP_LOADBOOL sreg 1 0 ln; cret sused
      | _ =>
          cdo inc1 <- compileExpr ln reg a (ecnone 0);
          cdo p1 <- propagateMV reg inc1;
          cdo _ <- addABC OP_NOT sreg (fst p1) 0 ln; cret sused
      end
  | _ => cfail
  end.

(* ---------- statements ---------- *)
(* the loops of compileRegAssignment (no call / `...` among the expressions) *)
Fixpoint cra_assigned (ln reg : Z) (nleft : nat) (es : list expr) : CM (Z * nat * list expr) :=
  match nleft, es with
  | S k, e :: r => cdo _ <- compileExpr ln reg e (mkEc EcLocal reg 0); cra_assigned ln (reg + 1) k r
  | _, _ => cret (reg, nleft, es)
  end.

Fixpoint cra_extra (ln reg : Z) (es : list expr) : CM unit :=
  match es with
  | [] => cret tt
  | e :: r => cdo inc <- compileExpr ln reg e (mkEc EcNone reg (match r with [] => -1 | _ => 0 end));
              cra_extra ln (reg + inc) r
  end.

(* func compileRegAssignment(context, names, exprs, reg, nvars, line) *)
Definition compileRegAssignment (ln reg : Z) (nvars : nat) (es : list expr) : CM unit :=
  cdo r <- cra_assigned ln reg nvars es;
  let '(reg1, nleft, rest) := r in
  cdo reg2 <- (match nleft with
               | O => cret reg1
               | S restleft => cdo _ <- addABC OP_LOADNIL reg1 (reg1 + Z.of_nat restleft) 0 ln;
                               cret (reg1 + Z.of_nat restleft)
               end);
  cra_extra ln reg2 rest.

Fixpoint register_locals (xs : list name) : CM unit :=
  match xs with [] => cret tt | x :: r => cdo _ <- RegisterLocalVar x; register_locals r end.

Definition is_func_expr (e : expr) : bool := match e with EFunc _ _ _ _ _ => true | _ => false end.

(* func compileLocalAssignStmt *)
Definition compileLocalAssignStmt (ln : Z) (xs : list name) (es : list expr) : CM unit :=
  fun s => (cdo _ <- compileRegAssignment ln (cs_regtop s) (length xs) es; register_locals xs) s.

(* compileAssignStmtRight, every target being a local: one temporary per target *)
Fixpoint car_names (ln reg : Z) (nleft : nat) (es : list expr) : CM (Z * list expr) :=
  match nleft with
  | O => cret (reg, es)
  | S k =>
      let e := match es with e :: _ => e | [] => ENil end in
      cdo inc <- compileExpr ln reg e (mkEc EcLocal regNotDefined 0);
      car_names ln (reg + inc) k (tl es)
  end.

Fixpoint car_extra (ln reg : Z) (es : list expr) : CM unit :=
  match es with
  | [] => cret tt
  | e :: r => cdo inc <- compileExpr ln reg e (ecnone (match r with [] => -1 | _ => 0 end));
              car_extra ln (reg + inc) r
  end.

(* the store loop of compileAssignStmt, last target first *)
Fixpoint cas_moves (ln reg : Z) (rev_names : list name) : CM unit :=
  match rev_names with
  | [] => cret tt
  | x :: r => fun s => (cdo _ <- addABC OP_MOVE (FindLocalVar s x) reg 0 ln; cas_moves ln (reg - 1) r) s
  end.

Definition compileAssignStmt (ln : Z) (xs : list name) (es : list expr) : CM unit :=
  fun s =>
    (cdo r <- car_names ln (cs_regtop s) (length xs) es;
     let '(reg, rest) := r in
     cdo _ <- car_extra ln reg rest;
     cas_moves ln (reg - 1) (rev xs)) s.

Fixpoint crs_exprs (ln reg : Z) (es : list expr) : CM Z :=
  match es with
  | [] => cret reg
  | e :: r => cdo inc <- compileExpr ln reg e (ecnone 0); crs_exprs ln (reg + inc) r
  end.

(* func compileReturnStmt *)
Definition compileReturnStmt (ln : Z) (es : list expr) : CM unit :=
  fun s =>
    let a := cs_regtop s in
    let general := cdo reg <- crs_exprs ln a es; addABC OP_RETURN a (reg - a + 1) 0 ln in
    match es with
    | [e] => match strip_paren e with
             | EVar x => let idx := FindLocalVar s x in
                         if idx >? -1 then addABC OP_RETURN idx 2 0 ln s else general s
             | _ => general s
             end
    | _ => general s
    end.

Fixpoint assign_targets (lhs : list expr) : option (list name) :=
  match lhs with
  | [] => Some []
  | EVar x :: r => match assign_targets r with Some xs => Some (x :: xs) | None => None end
  | _ => None
  end.

Definition compileStmt (st : stmt) : CM unit :=
  match st with
  | SLocal ln xs es => compileLocalAssignStmt ln xs es
  | SAssign ln lhs es =>
      match assign_targets lhs with
      | Some xs => compileAssignStmt ln xs es
      | None => cfail
      end
  | SReturn ln es => compileReturnStmt ln es
  | _ => cfail
  end.

Fixpoint compileChunk (b : list stmt) : CM unit :=
  match b with [] => cret tt | st :: r => cdo _ <- compileStmt st; compileChunk r end.

(* ---------- patchCode ---------- *)
Definition use (maxreg reg : Z) : Z := if reg >? maxreg then reg else maxreg.

(* func opMaxReg(inst) *)
Definition opMaxReg (inst : Z) : Z :=
  match op_of_code (opGetOpCode inst) with
  | None => -1
  | Some op =>
      let a := opGetArgA inst in let b := opGetArgB inst in let c := opGetArgC inst in
      let pr := opProps op in
      let m0 := -1 in
      let m1 := match Type_ pr with
                | opTypeABC =>
                    let m := match ModeArgB pr with
                             | opArgModeR => use m0 b
                             | opArgModeK => if opIsK b then m0 else use m0 b
                             | _ => m0 end in
                    match ModeArgC pr with
                    | opArgModeR => use m c
                    | opArgModeK => if opIsK c then m else use m c
                    | _ => m end
                | _ => m0
                end in
      match op with
      | OP_JMP | OP_EQ | OP_LT | OP_LE | OP_CLOSE | OP_NOP => m1
      | OP_SELF => use m1 (a + 1)
      | OP_CALL => use (use (use m1 a) (a + b - 1)) (a + c - 2)
      | OP_TAILCALL => use (use m1 a) (a + b - 1)
      | OP_RETURN | OP_VARARG => if b =? 0 then use m1 a else if b >? 1 then use m1 (a + b - 2) else m1
      | OP_FORLOOP => use m1 (a + 3)
      | OP_FORPREP => use m1 (a + 2)
      | OP_TFORLOOP => use (use m1 (a + 5)) (a + 2 + c)
      | OP_SETLIST => use m1 (a + b)
      | _ => use m1 a
      end
  end.

Fixpoint count_moves (l : list Z) : nat :=
  match l with
  | w :: r => if is_opc w OP_MOVE then S (count_moves r) else O
  | [] => O
  end.

(* the bulk-move pass of patchCode when no instruction is a jump target, a SETLIST extension or
   a capture word: a maximal run of m > 1 MOVEs has its first word turned into MOVEN with
   C = min(m-1, opMaxArgsC) *)
Fixpoint patch_moves (fuel : nat) (l : list Z) : list Z :=
  match fuel with
  | O => l
  | S k =>
      match l with
      | [] => []
      | w :: r =>
          if is_opc w OP_MOVE then
            let m := count_moves r in
            let w' := match m with
                      | O => w
                      | _ => opSetArgC (opSetOpCode w (op_code OP_MOVEN)) (Z.min (Z.of_nat m) opMaxArgsC)
                      end in
            w' :: firstn m r ++ patch_moves k (skipn m r)
          else w :: patch_moves k r
      end
  end.

Definition num_used_registers (code : list Z) : Z :=
  fold_left (fun m w => use m (opMaxReg w)) code 1 + 1.

(* ---------- the chunk ---------- *)
Fixpoint last_line (b : list stmt) (acc : Z) : Z :=
  match b with
  | [] => acc
  | st :: r => last_line r (match st with
                            | SLocal ln _ _ | SAssign ln _ _ | SReturn ln _ => ln + 1
                            | _ => acc end)
  end.

(* func Compile(chunk, name) / compileFunctionExpr for the main chunk *)
Definition compile_frag (b : list stmt) : option xproto :=
  match compileChunk b (mkCS [] [] [] 0) with
  | None => None
  | Some (_, s) =>
      let full := rev ((opCreateABC (op_code OP_RETURN) 0 1 0, last_line b 0) :: cs_code s) in
      let code := map fst full in
      let nregs := num_used_registers code in
      if nregs >? maxRegisters then None else
      Some (XProto (patch_moves (length code) code) (cs_consts s) [] 0 0
                   (VarArgHasArg + VarArgNeedsArg + VarArgIsVarArg) nregs (map snd full) 0)
  end.

(* ---------- the fragments ---------- *)
(* expressions the transcription covers (tie) *)
Fixpoint expr_tie (e : expr) : bool :=
  match e with
  | ENil | ETrue | EFalse | ENum _ | EStr _ | EVar _ => true
  | EParen a => expr_tie a
  | EBin o a b => is_arith_op o && expr_tie a && expr_tie b
  | EUn ONeg a | EUn ONot a => expr_tie a
  | _ => false
  end.

Definition stmt_tie (st : stmt) : bool :=
  match st with
  | SLocal _ xs es =>
      negb (match xs, es with [_], [e] => is_func_expr e | _, _ => false end)
      && (1 <=? len xs) && forallb expr_tie es
  | SAssign _ lhs es =>
      match assign_targets lhs with Some _ => true | None => false end
      && (1 <=? len lhs) && (1 <=? len es) && forallb expr_tie es
  | SReturn _ es => forallb expr_tie es
  | _ => false
  end.

(* scoping for the tie: an assignment target must be a local in scope (otherwise it is a global) *)
Fixpoint scoped_tie (locals : list name) (b : list stmt) : bool :=
  match b with
  | [] => true
  | SLocal _ xs _ :: r => scoped_tie (locals ++ xs) r
  | SAssign _ lhs _ :: r =>
      match assign_targets lhs with
      | Some xs => forallb (fun x => existsb (beqb x) locals) xs
      | None => false
      end && scoped_tie locals r
  | SReturn _ _ :: r => match r with [] => true | _ => false end
  | _ :: r => false
  end.

Definition tie_frag (b : list stmt) : bool := forallb stmt_tie b && scoped_tie [] b.

(* ---------- equality of prototypes on the fields the VM model uses ---------- *)
Definition float_same_bits (a b : float) : bool :=
  match Prim2SF a, Prim2SF b with
  | S754_zero s, S754_zero t => Bool.eqb s t
  | S754_infinity s, S754_infinity t => Bool.eqb s t
  | S754_nan, S754_nan => true
  | S754_finite s m e, S754_finite t n g => Bool.eqb s t && Pos.eqb m n && (e =? g)
  | _, _ => false
  end.

Definition const_eqb (a b : value) : bool :=
  match a, b with
  | VNum x, VNum y => float_same_bits x y
  | VStr x, VStr y => beqb x y
  | _, _ => false
  end.

Fixpoint zlist_eqb (a b : list Z) : bool :=
  match a, b with
  | [], [] => true
  | x :: a', y :: b' => (x =? y) && zlist_eqb a' b'
  | _, _ => false
  end.

Fixpoint proto_eqb (p q : xproto) : bool :=
  let 'XProto c1 k1 s1 u1 n1 v1 r1 l1 d1 := p in
  let 'XProto c2 k2 s2 u2 n2 v2 r2 l2 d2 := q in
  zlist_eqb c1 c2 && list_eqb const_eqb k1 k2 &&
  (fix subs (a b : list xproto) : bool :=
     match a, b with
     | [], [] => true
     | x :: a', y :: b' => proto_eqb x y && subs a' b'
     | _, _ => false
     end) s1 s2 &&
  (u1 =? u2) && (n1 =? n2) && (v1 =? v2) && (r1 =? r2) && zlist_eqb l1 l2 && (d1 =? d2).

(* the tie evaluated on every generated program: inside the transcribed fragment the real
   compiler's prototype is the transcription's *)
Definition frag_tie (b : list stmt) (p : xproto) : bool :=
  if tie_frag b then
    match compile_frag b with
    | Some p' => proto_eqb p' p
    | None => true
    end
  else true.
