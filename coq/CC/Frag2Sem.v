(* CC: the fragment F2 = F1 (Frag1Sem.in_frag1) + string literals as values: a string constant
   may be stored in a local, copied between locals, returned, be an extra expression or the
   operand of `not`. Definitions only.

   Arithmetic and unary minus on an operand that may be a string are excluded statically (the VM
   and the reference evaluator both coerce numeric strings; the straight-line bytecode semantics
   isem of FragSem.v does not model that): a set T of names ("tainted": the locals that may hold a
   string) is computed by a forward pass over the program, every statement is then checked against
   it: a local that receives an expression that may be a string (a string literal, a tainted local,
   parentheses around one) must be tainted, and no operand of an arithmetic operator or of unary
   minus may be such an expression. The name-based, flow-insensitive check is conservative. *)
From Coq Require Import Floats.
From GL Require Import Common.Bytes Lua.Syntax Lua.Num Lua.Values Lua.Eval.
From GL Require Import VMX.Machine CC.CompModel CC.FragSem CC.Frag1Sem.

Definition is_str (v : value) : bool := match v with VStr _ => true | _ => false end.
Definition is_sval (v : value) : bool := is_simple v || is_str v.

(* ---------- direct semantics ---------- *)
Fixpoint pev2 (rho : penv) (e : expr) : pres :=
  match e with
  | ENil => PV VNil | ETrue => PV (VBool true) | EFalse => PV (VBool false)
  | ENum f => PV (VNum f)
  | EStr s => PV (VStr s)
  | EVar x => match plookup rho x with Some v => PV v | None => PUnsup end
  | EParen a => pev2 rho a
  | EBin o a b =>
      match pev2 rho a with
      | PV x => match pev2 rho b with PV y => parith o x y | r => r end
      | r => r
      end
  | EUn ONeg a => match pev2 rho a with PV (VNum f) => PV (VNum (- f)%float) | PV _ => PFault | r => r end
  | EUn ONot a => match pev2 rho a with PV v => PV (VBool (negb (truthy v))) | r => r end
  | _ => PUnsup
  end.

Fixpoint pev2_list (rho : penv) (es : list expr) : pres + list value :=
  match es with
  | [] => inr []
  | e :: r => match pev2 rho e with
              | PV v => match pev2_list rho r with inr vs => inr (v :: vs) | inl x => inl x end
              | x => inl x
              end
  end.

Fixpoint prun2 (rho : penv) (b : list stmt) : cres :=
  match b with
  | [] => CRet []
  | SLocal ln xs es :: r =>
      match pev2_list rho es with
      | inr vs => prun2 (rev (combine xs (adjust (length xs) vs)) ++ rho) r
      | inl p => pcres ln p
      end
  | SAssign ln lhs es :: r =>
      match assign_targets lhs with
      | Some xs =>
          match pev2_list rho es with
          | inr vs => prun2 (pstore rho (rev (combine xs (adjust (length xs) vs)))) r
          | inl p => pcres ln p
          end
      | None => CStuck
      end
  | SReturn ln es :: _ =>
      match pev2_list rho es with inr vs => CRet vs | inl p => pcres ln p end
  | _ => CStuck
  end.

(* ---------- the static check, relative to a set T of tainted names ---------- *)
Definition tainted (T : list name) (x : name) : bool := existsb (beqb x) T.

(* the expression may evaluate to a string *)
Fixpoint estr (T : list name) (e : expr) : bool :=
  match e with
  | EStr _ => true
  | EVar x => tainted T x
  | EParen a => estr T a
  | _ => false
  end.

Fixpoint expr_frag2 (T : list name) (locals : list name) (e : expr) : bool :=
  match e with
  | ENil | ETrue | EFalse | ENum _ | EStr _ => true
  | EVar x => existsb (beqb x) locals
  | EParen a => expr_frag2 T locals a
  | EBin o a b => is_arith_op o && expr_frag2 T locals a && expr_frag2 T locals b
                  && negb (estr T a) && negb (estr T b)
  | EUn ONeg a => expr_frag2 T locals a && negb (estr T a)
  | EUn ONot a => expr_frag2 T locals a
  | _ => false
  end.

(* a target that receives an expression that may be a string is tainted *)
Fixpoint targets_ok (T : list name) (xs : list name) (es : list expr) : bool :=
  match xs, es with
  | x :: xr, e :: er => (negb (estr T e) || tainted T x) && targets_ok T xr er
  | _, _ => true
  end.

Fixpoint stmts_frag2 (T : list name) (locals : list name) (b : list stmt) : bool :=
  match b with
  | [] => true
  | SLocal _ xs es :: r =>
      (1 <=? len xs) && forallb (expr_frag2 T locals) es && budget locals es
      && (len locals + len xs <=? maxRegisters) && targets_ok T xs es && stmts_frag2 T (locals ++ xs) r
  | SAssign _ lhs es :: r =>
      match assign_targets lhs with
      | Some xs =>
          (1 <=? len xs) && (1 <=? len es) && forallb (fun x => existsb (beqb x) locals) xs
          && forallb (expr_frag2 T locals) es && budget locals es
          && (len locals + len xs <=? maxRegisters) && targets_ok T xs es
      | None => false
      end && stmts_frag2 T locals r
  | SReturn _ es :: r =>
      match r with [] => true | _ => false end &&
      forallb (expr_frag2 T locals) es &&
      forallb (fun e => len locals + len es + 1 + edepth e <=? maxRegisters) es
  | _ => false
  end.

(* ---------- the tainted names of a program: forward passes until nothing is added ---------- *)
Fixpoint taint_add (T : list name) (xs : list name) (es : list expr) : list name :=
  match xs, es with
  | x :: xr, e :: er => taint_add (if estr T e && negb (tainted T x) then x :: T else T) xr er
  | _, _ => T
  end.

Fixpoint taint_pass (T : list name) (b : list stmt) : list name :=
  match b with
  | [] => T
  | SLocal _ xs es :: r => taint_pass (taint_add T xs es) r
  | SAssign _ lhs es :: r =>
      taint_pass (match assign_targets lhs with Some xs => taint_add T xs es | None => T end) r
  | _ :: r => taint_pass T r
  end.

Fixpoint taint_iter (n : nat) (T : list name) (b : list stmt) : list name :=
  match n with
  | O => T
  | S k => let T' := taint_pass T b in
           if Nat.eqb (length T') (length T) then T else taint_iter k T' b
  end.

Definition taint (b : list stmt) : list name := taint_iter (S (length b)) [] b.

Definition in_frag2 (b : list stmt) : bool := stmts_frag2 (taint b) [] b.
