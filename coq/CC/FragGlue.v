(* CC: the two proved halves of frag_compile_correct glued together. What remains is the
   compiler's front half [front_half]: the code compileChunk emits for a fragment program, closed
   with the final RETURN, has the register-file semantics prun, and every word is a 32-bit word.
   [frag_glue] : front_half -> frag_compile_correct (the statement of Properties/C01.v). *)
From Coq Require Import Floats Lia.
From GL Require Import Common.Bytes Lua.Syntax Lua.Num Lua.Values Lua.Eval Lua.Run Lua.LuaCases.
From GL Require Import VMX.Machine VMX.VRun CC.CompModel CC.FragSem.
From GL Require Import CC.CompFactsVM CC.FragEvalFacts.

Definition front_half : Prop :=
  forall b x s, in_frag b = true -> compileChunk b (mkCS [] [] [] 0) = Some (x, s) ->
    let full := rev ((opCreateABC (op_code OP_RETURN) 0 1 0, last_line b 0) :: cs_code s) in
    isem_code (cs_consts s) full [] = prun [] b /\ Forall (fun wl => 0 <= fst wl < 2 ^ 32) full.

Definition frag_compile_correct_stmt : Prop :=
  forall b p, in_frag b = true -> compile_frag b = Some p ->
  exists n, forall fuel, (n <= fuel)%nat ->
    is_skip (outcome_of (Run.run_program fuel no_devs b)) = false ->
    outcome_of_vfin (run_proto fuel p) = outcome_of (Run.run_program fuel no_devs b).

Lemma fold_use_ge l : forall m, m <= fold_left (fun m w => use m (opMaxReg w)) l m.
Proof.
  induction l as [|w l IH]; intros m; simpl; [lia|].
  eapply Z.le_trans; [|apply IH]. unfold use. destruct (opMaxReg w >? m) eqn:E; [|lia].
  rewrite Z.gtb_ltb in E. apply Z.ltb_lt in E. lia.
Qed.

Lemma num_used_registers_pos code : 0 <= num_used_registers code.
Proof. unfold num_used_registers. pose proof (fold_use_ge code 1). lia. Qed.

Theorem frag_glue : front_half -> frag_compile_correct_stmt.
Proof.
  intros F b p Hin Hc. unfold compile_frag in Hc.
  destruct (compileChunk b (mkCS [] [] [] 0)) as [[x s]|] eqn:E; [|discriminate].
  cbv zeta in Hc. destruct (F b x s Hin E) as [Hsem Hw]. cbv zeta in Hsem, Hw.
  set (full := rev ((opCreateABC (op_code OP_RETURN) 0 1 0, last_line b 0) :: cs_code s)) in *.
  destruct (num_used_registers (map fst full) >? maxRegisters); [discriminate|].
  assert (Hp : p = frag_proto full (cs_consts s) (num_used_registers (map fst full))).
  { inversion Hc. unfold frag_proto. rewrite map_length. reflexivity. }
  exists (Nat.max (frag_fuel b) (length full + 2)). intros fuel Hfuel Hskip.
  pose proof (vm_runs_isem_lemma full (cs_consts s) (num_used_registers (map fst full)) fuel
                (num_used_registers_pos _) Hw ltac:(lia)) as HV.
  pose proof (frag_run_lemma b fuel no_devs Hin ltac:(lia)) as HR.
  rewrite Hsem in HV. rewrite <- Hp in HV.
  destruct (prun [] b) as [vs|ln| |].
  - destruct HV as [s1 [E1 T1]]. destruct HR as [s2 [E2 [T2 _]]]. rewrite E1, E2.
    cbn [outcome_of_vfin outcome_of]. rewrite T1, T2. reflexivity.
  - destruct HV as [s1 [E1 T1]]. destruct HR as [s2 [E2 T2]]. rewrite E1, E2.
    cbn [outcome_of_vfin outcome_of]. rewrite T1, T2. reflexivity.
  - rewrite HR in Hskip. discriminate.
  - contradiction.
Qed.
