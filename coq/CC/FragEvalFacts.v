(* CC: the reference evaluator (Lua/Eval.v, Lua/Run.v) agrees with the direct semantics [prun] of
   FragSem.v on the fragment [in_frag]: same returned values, the arithmetic fault positioned at the
   statement's line, nothing emitted; for every setting of the deviation switches (none of them is
   consulted on the fragment) and every fuel above an explicit bound [frag_fuel b]. *)
From Coq Require Import Floats Lia.
From GL Require Import Common.Bytes Lua.Syntax Lua.Num Lua.Values Lua.Names Lua.Eval Lua.Run.
From GL Require Import Lua.ValuesFacts Lua.MonadFacts Lua.EvalStepFacts Lua.CallFacts.
From GL Require Import VMX.Machine CC.CompModel CC.FragSem.

(* ---------- what a pure result denotes in the evaluator's monad ---------- *)
Definition pres_res (ln : Z) (p : pres) (s : state) : res value :=
  match p with PV v => Ret v s | PFault => Err (VFault 2 ln) s | PUnsup => Unsup 1 end.

(* ---------- the invariant: locals live in distinct valid cells holding simple values ---------- *)
Inductive rel (cl : list value) : env -> penv -> Prop :=
| rel_nil : rel cl [] []
| rel_cons x c v en rho :
    nth c cl VNil = v -> is_simple v = true -> (c < length cl)%nat -> ~ In c (map snd en) ->
    rel cl en rho -> rel cl ((x, c) :: en) ((x, v) :: rho).

Definition covers (locals : list name) (rho : penv) : Prop :=
  forall x, existsb (beqb x) locals = true -> exists v, plookup rho x = Some v.

Lemma rel_lookup cl en rho x v : rel cl en rho -> plookup rho x = Some v ->
  exists c, lookup en x = Some c /\ nth c cl VNil = v /\ (c < length cl)%nat.
Proof.
  induction 1 as [|y c w en rho Hn Hs Hc Hni Hr IH]; simpl; [discriminate|].
  destruct (beqb x y); [intros H; inversion H; subst; eauto|exact IH].
Qed.

Lemma rel_lookup_none cl en rho x : rel cl en rho -> plookup rho x = None -> lookup en x = None.
Proof.
  induction 1 as [|y c w en rho Hn Hs Hc Hni Hr IH]; simpl; auto. destruct (beqb x y); [discriminate|exact IH].
Qed.

Lemma rel_simple cl en rho x v : rel cl en rho -> plookup rho x = Some v -> is_simple v = true.
Proof.
  induction 1 as [|y c w en rho Hn Hs Hc Hni Hr IH]; simpl; [discriminate|].
  destruct (beqb x y); [intros H; inversion H; subst; auto|exact IH].
Qed.

Lemma lookup_in en x c : lookup en x = Some c -> In c (map snd en).
Proof.
  induction en as [|[y d] en IH]; simpl; [discriminate|]. destruct (beqb x y); [intros H; inversion H; auto|auto].
Qed.

(* growing the store keeps the invariant; a new local extends it *)
Lemma rel_grow cl en rho v : rel cl en rho -> rel (cl ++ [v]) en rho.
Proof.
  induction 1 as [|y c w en rho Hn Hs Hc Hni Hr IH]; constructor; auto.
  - rewrite app_nth1; auto.
  - rewrite app_length; simpl; lia.
Qed.

Lemma rel_bound cl en rho c : rel cl en rho -> In c (map snd en) -> (c < length cl)%nat.
Proof. induction 1 as [|y d w en rho Hn Hs Hc Hni Hr IH]; simpl; [tauto|]. intros [<-|H]; auto. Qed.

Lemma rel_new cl en rho x v : rel cl en rho -> is_simple v = true ->
  rel (cl ++ [v]) ((x, length cl) :: en) ((x, v) :: rho).
Proof.
  intros H Hs. constructor; auto.
  - rewrite app_nth2 by lia. rewrite Nat.sub_diag. reflexivity.
  - rewrite app_length; simpl; lia.
  - intros Hin. apply (rel_bound _ _ _ _ H) in Hin. lia.
  - apply rel_grow; auto.
Qed.

(* assignment: the cell of the first binding of x is overwritten, pupdate does the same *)
Lemma rel_set_other cl en rho c v : rel cl en rho -> ~ In c (map snd en) -> rel (set_nth cl c v) en rho.
Proof.
  induction 1 as [|y d w en rho Hn Hs Hc Hni Hr IH]; intros Hnin; constructor; auto.
  - rewrite set_nth_other_lemma; auto. intros ->. apply Hnin. left; reflexivity.
  - rewrite set_nth_length_lemma; auto.
  - apply IH. intros Hin. apply Hnin. right; auto.
Qed.

Lemma rel_assign cl en rho x c v : rel cl en rho -> lookup en x = Some c -> is_simple v = true ->
  rel (set_nth cl c v) en (pupdate rho x v).
Proof.
  induction 1 as [|y d w en rho Hn Hs Hc Hni Hr IH]; simpl; [discriminate|].
  destruct (beqb x y) eqn:E.
  - intros H Hv. inversion H; subst d. constructor; auto.
    + apply set_nth_same_lemma; auto.
    + rewrite set_nth_length_lemma; auto.
    + apply rel_set_other; auto.
  - intros H Hv. constructor; auto.
    + rewrite set_nth_other_lemma; auto. intros ->. apply Hni. eapply lookup_in; eauto.
    + rewrite set_nth_length_lemma; auto.
Qed.

Lemma covers_new locals rho x v : covers locals rho -> covers (locals ++ [x]) ((x, v) :: rho).
Proof.
  intros H y Hy. simpl. destruct (beqb y x) eqn:E; [eauto|].
  apply H. rewrite existsb_app in Hy. simpl in Hy. rewrite E in Hy. simpl in Hy.
  rewrite Bool.orb_false_r in Hy. exact Hy.
Qed.

Lemma plookup_pupdate rho x v y : (exists w, plookup rho y = Some w) -> exists w, plookup (pupdate rho x v) y = Some w.
Proof.
  induction rho as [|[z w] rho IH]; simpl; auto.
  destruct (beqb x z) eqn:E; simpl; destruct (beqb y z); eauto.
Qed.

Lemma covers_update locals rho x v : covers locals rho -> covers locals (pupdate rho x v).
Proof. intros H y Hy. apply plookup_pupdate. apply H; auto. Qed.

(* ---------- expressions ---------- *)
Fixpoint eh (e : expr) : nat :=
  match e with
  | EParen a => S (eh a)
  | EBin _ a b => S (Nat.max 1 (Nat.max (eh a) (eh b)))
  | EUn _ a => S (Nat.max 1 (eh a))
  | _ => 1
  end.

Lemma pev_simple cl en rho e v : rel cl en rho -> pev rho e = PV v -> is_simple v = true.
Proof.
  intros Hr. revert v. induction e; intros v; simpl; try discriminate; try (intros H; inversion H; reflexivity).
  - destruct (plookup rho x) eqn:E; [|discriminate]. intros H; inversion H; subst. eapply rel_simple; eauto.
  - destruct (pev rho e1) as [x| |]; try discriminate. destruct (pev rho e2) as [y| |]; try discriminate.
    unfold parith. destruct x; try discriminate; destruct y; try discriminate.
    destruct (arith_op o f f0); [|discriminate]. intros H; inversion H; reflexivity.
  - destruct o; try discriminate.
    + destruct (pev rho e) as [x| |]; try discriminate. destruct x; try discriminate. intros H; inversion H; reflexivity.
    + destruct (pev rho e) as [x| |]; try discriminate. intros H; inversion H; reflexivity.
  - auto.
Qed.

Lemma is_arith_same o : is_arith_op o = is_arith o.
Proof. destruct o; reflexivity. Qed.

Lemma binop_simple n fr o x y s :
  is_arith_op o = true -> is_simple x = true -> is_simple y = true ->
  binop_v (S n) fr o x y s = pres_res (frames_line fr) (parith o x y) s.
Proof.
  intros Ho Hx Hy. rewrite binop_arith by (rewrite <- is_arith_same; exact Ho).
  destruct x; try discriminate; destruct y; try discriminate; cbn [tonum parith];
    try reflexivity.
  destruct (arith_op o f f0); reflexivity.
Qed.

Lemma neg_simple n fr x s : is_simple x = true ->
  unop_v (S n) fr ONeg x s =
  pres_res (frames_line fr) (match x with VNum f => PV (VNum (- f)%float) | _ => PFault end) s.
Proof. intros Hx. rewrite unop_neg. destruct x; try discriminate; reflexivity. Qed.

Lemma bind_pres {B} ln p s (f : value -> state -> res B) :
  bind (pres_res ln p s) f =
  match p with PV v => f v s | PFault => Err (VFault 2 ln) s | PUnsup => Unsup 1 end.
Proof. destruct p; reflexivity. Qed.

Lemma eval_frag e : forall n cx ln en st rho locals,
  rel (cells st) en rho -> covers locals rho -> expr_frag locals e = true -> (eh e <= n)%nat ->
  eval_e n cx ln en e st = pres_res ln (pev rho e) st.
Proof.
  induction e; intros n cx ln en st rho locals Hr Hc Hf Hn; simpl in Hf; try discriminate;
    (destruct n as [|n]; [simpl in Hn; lia|]).
  - reflexivity.
  - reflexivity.
  - reflexivity.
  - reflexivity.
  - (* local variable *)
    destruct (Hc x Hf) as [v Hv]. destruct (rel_lookup _ _ _ _ _ Hr Hv) as [c [Hl [Hnth _]]].
    rewrite eval_e_var, Hl. simpl. rewrite Hv. unfold read_cell. rewrite Hnth. reflexivity.
  - (* binary arithmetic *)
    apply andb_prop in Hf. destruct Hf as [Hf Hf2]. apply andb_prop in Hf. destruct Hf as [Ho Hf1].
    cbn [eh] in Hn.
    assert (Hn1 : (eh e1 <= n)%nat) by lia. assert (Hn2 : (eh e2 <= n)%nat) by lia.
    destruct n as [|n']; [lia|].
    pose proof (IHe1 (S n') cx ln en st rho locals Hr Hc Hf1 Hn1) as E1.
    pose proof (IHe2 (S n') cx ln en st rho locals Hr Hc Hf2 Hn2) as E2.
    rewrite eval_e_bin. cbn [pev].
    destruct (bin_late en o e1) as [c|] eqn:El.
    + (* the left operand is a local read after the right operand *)
      destruct e1; try (destruct o; discriminate).
      assert (Hl : lookup en x = Some c) by (destruct o; simpl in El; try discriminate; exact El).
      simpl in Hf1. destruct (Hc x Hf1) as [v Hv]. destruct (rel_lookup _ _ _ _ _ Hr Hv) as [c' [Hl' [Hnth _]]].
      rewrite Hl in Hl'. inversion Hl'; subst c'.
      cbn [pev]. rewrite Hv. unfold bindM at 1. rewrite E2, bind_pres.
      destruct (pev rho e2) as [y| |] eqn:P2; try reflexivity.
      unfold bindM, read_cell. cbn [bind]. rewrite Hnth.
      rewrite binop_simple by (auto; first [eapply rel_simple; eassumption|eapply pev_simple; eassumption]). reflexivity.
    + unfold bindM at 1. rewrite E1, bind_pres.
      destruct (pev rho e1) as [x| |] eqn:P1; try reflexivity.
      unfold bindM at 1. rewrite E2, bind_pres.
      destruct (pev rho e2) as [y| |] eqn:P2; try reflexivity.
      rewrite binop_simple by (auto; eapply pev_simple; eassumption). reflexivity.
  - (* unary *)
    cbn [eh] in Hn. assert (Hn1 : (eh e <= n)%nat) by lia. destruct n as [|n']; [lia|].
    destruct o; try discriminate.
    + pose proof (IHe (S n') cx ln en st rho locals Hr Hc Hf Hn1) as E1.
      rewrite eval_e_un. unfold bindM. rewrite E1, bind_pres. cbn [pev].
      destruct (pev rho e) as [x| |] eqn:P1; try reflexivity.
      rewrite neg_simple by (eapply pev_simple; eauto). destruct x; reflexivity.
    + pose proof (IHe (S n') cx ln en st rho locals Hr Hc Hf Hn1) as E1.
      rewrite eval_e_un. unfold bindM. rewrite E1, bind_pres. cbn [pev].
      destruct (pev rho e) as [x| |] eqn:P1; reflexivity.
  - (* parentheses *)
    cbn [eh] in Hn. rewrite eval_e_paren. cbn [pev]. eapply IHe; eauto. lia.
Qed.

Lemma frag_not_multi locals e : expr_frag locals e = true -> is_multi e = false.
Proof. destruct e; simpl; try discriminate; reflexivity. Qed.

Definition plist_res (ln : Z) (p : pres + list value) (s : state) : res (list value) :=
  match p with
  | inr vs => Ret vs s
  | inl PFault => Err (VFault 2 ln) s
  | inl _ => Unsup 1
  end.

Lemma eval_multi_frag e n cx ln en s rho locals :
  rel (cells s) en rho -> covers locals rho -> expr_frag locals e = true -> (S (eh e) <= n)%nat ->
  eval_multi n cx ln en e s =
  match pev rho e with PV v => Ret [v] s | PFault => Err (VFault 2 ln) s | PUnsup => Unsup 1 end.
Proof.
  intros Hr Hc Hf Hn. destruct n as [|n]; [lia|].
  rewrite eval_multi_single by (eapply frag_not_multi; eauto). unfold bindM.
  rewrite (eval_frag e n cx ln en s rho locals) by (auto; lia). rewrite bind_pres.
  destruct (pev rho e); reflexivity.
Qed.

Definition ehs (es : list expr) : nat := fold_right (fun e m => Nat.max (eh e) m) O es.

Lemma pev_list_not_pv rho es v : pev_list rho es <> inl (PV v).
Proof.
  induction es as [|e r IH]; simpl; [discriminate|].
  destruct (pev rho e); try discriminate. destruct (pev_list rho r) eqn:E; [|discriminate].
  intros H; inversion H; subst. apply IH. reflexivity.
Qed.

Lemma eval_list_frag es : forall n cx ln en s rho locals,
  rel (cells s) en rho -> covers locals rho -> forallb (expr_frag locals) es = true -> (S (ehs es) <= n)%nat ->
  eval_list_with (eval_e n cx ln en) (eval_multi n cx ln en) es s = plist_res ln (pev_list rho es) s.
Proof.
  induction es as [|e r IH]; intros n cx ln en s rho locals Hr Hc Hf Hn; [reflexivity|].
  simpl in Hf. apply andb_prop in Hf. destruct Hf as [Hfe Hfr]. cbn [ehs fold_right] in Hn. fold (ehs r) in Hn.
  destruct r as [|e' r'].
  - rewrite eval_list_with_last_lemma. rewrite (eval_multi_frag e n cx ln en s rho locals) by (auto; lia).
    simpl. destruct (pev rho e); reflexivity.
  - rewrite eval_list_with_cons_lemma. remember (e' :: r') as rr eqn:Err.
    unfold bindM at 1.
    rewrite (eval_frag e n cx ln en s rho locals) by (auto; lia). rewrite bind_pres.
    cbn [pev_list]. destruct (pev rho e) as [v| |]; try reflexivity.
    unfold bindM. rewrite (IH n cx ln en s rho locals) by (auto; lia).
    destruct (pev_list rho rr) as [[w| |]|vs] eqn:E; reflexivity.
Qed.

(* ---------- statements ---------- *)
Definition sh (st : stmt) : nat :=
  match st with
  | SLocal _ _ es | SAssign _ _ es | SReturn _ es => S (S (ehs es))
  | _ => O
  end.
Definition bh (b : list stmt) : nat := fold_right (fun st m => Nat.max (sh st) m) O b.

(* fuel that is enough for the whole chunk *)
Definition frag_fuel (b : list stmt) : nat := S (S (bh b)).

Lemma exec_local_frag n cx en ln x e s : is_func_expr e = false ->
  exec (S n) cx en (SLocal ln [x] [e]) s =
  bind (eval_multi n cx ln en e s)
       (fun vs => do cs <- mapM alloc_cell (adjust 1 vs); ret (SigNormal, rev (combine [x] cs) ++ en)).
Proof. destruct e; intros H; try reflexivity; discriminate. Qed.

Lemma exec_assign_frag n cx en ln x c e s : lookup en x = Some c ->
  exec (S n) cx en (SAssign ln [EVar x] [e]) s =
  bind (eval_multi n cx ln en e s)
       (fun vs => do _ <- mapM (assign_store n cx ln) (rev (combine [inl c] (adjust 1 vs))); ret (SigNormal, en)).
Proof.
  intros Hl. rewrite exec_assign. cbn [mapM]. unfold bindM at 1. unfold bindM at 1. unfold assign_ref at 1.
  rewrite Hl. reflexivity.
Qed.

Lemma exec_return_frag n cx en ln es s locals : forallb (expr_frag locals) es = true ->
  exec (S n) cx en (SReturn ln es) s =
  bind (eval_list_with (eval_e n cx ln en) (eval_multi n cx ln en) es s) (fun vs => ret (SigReturn vs, en)).
Proof.
  intros Hf. destruct es as [|e r]; [reflexivity|].
  destruct e; try (destruct r; reflexivity). simpl in Hf. discriminate.
Qed.

Lemma pev_list_simple cl en rho es vs : rel cl en rho -> pev_list rho es = inr vs -> forallb is_simple vs = true.
Proof.
  intros Hr. revert vs. induction es as [|e r IH]; intros vs; simpl.
  - intros H; inversion H; reflexivity.
  - destruct (pev rho e) as [v| |] eqn:P; try discriminate.
    destruct (pev_list rho r) as [x|ws]; [discriminate|]. intros H; inversion H; subst. simpl.
    rewrite (pev_simple _ _ _ _ _ Hr P). apply IH. reflexivity.
Qed.

Definition sig_vals (sg : signal) : option (list value) :=
  match sg with SigNormal => Some [] | SigReturn vs => Some vs | _ => None end.

Lemma bh_cons st b : bh (st :: b) = Nat.max (sh st) (bh b).
Proof. reflexivity. Qed.

Lemma ehs_one e : ehs [e] = eh e.
Proof. unfold ehs; simpl. lia. Qed.

Lemma block_frag rest : forall n cx all pos en hist s rho locals,
  rel (cells s) en rho -> covers locals rho -> stmts_frag locals rest = true -> (bh rest <= n)%nat ->
  match prun rho rest with
  | CRet vs => exists sg en' s', block_go n cx all rest pos en hist s = Ret (sg, en') s' /\
                 sig_vals sg = Some vs /\ forallb is_simple vs = true /\ trace s' = trace s
  | CFault ln => exists s', block_go n cx all rest pos en hist s = Err (VFault 2 ln) s' /\ trace s' = trace s
  | CUnsup => block_go n cx all rest pos en hist s = Unsup 1
  | CStuck => False
  end.
Proof.
  induction rest as [|st rest IH]; intros n cx all pos en hist s rho locals Hr Hc Hf Hn.
  - simpl. exists SigNormal, en, s. repeat split.
  - rewrite bh_cons in Hn. destruct st; try discriminate.
    + (* local x = e *)
      destruct xs as [|x [|x' xs]]; try discriminate. destruct es as [|e [|e' es]]; try discriminate.
      cbn [stmts_frag] in Hf. apply andb_prop in Hf. destruct Hf as [Hf Hrest].
      apply andb_prop in Hf. destruct Hf as [Hf _]. apply andb_prop in Hf. destruct Hf as [Hnf He].
      apply Bool.negb_true_iff in Hnf.
      cbn [sh] in Hn. rewrite ehs_one in Hn. destruct n as [|n1]; [lia|].
      assert (Hbg : block_go (S n1) cx all (SLocal ln [x] [e] :: rest) pos en hist s =
                match pev rho e with
                | PV v => block_go (S n1) cx all rest (S pos) ((x, length (cells s)) :: en) (hist ++ [en])
                                   (with_cells s (cells s ++ [v]))
                | PFault => Err (VFault 2 ln) s
                | PUnsup => Unsup 1
                end).
      { cbn [block_go]. unfold bindM at 1. rewrite (exec_local_frag _ _ _ _ _ _ _ Hnf).
        rewrite (eval_multi_frag e n1 cx ln en s rho locals) by (auto; lia).
        destruct (pev rho e) as [v| |]; [|reflexivity|reflexivity].
        cbn [bind]. unfold bindM at 1. rewrite mapM_alloc_cell_lemma. reflexivity. }
      rewrite Hbg. cbn [prun].
      destruct (pev rho e) as [v| |] eqn:P.
      * assert (Hs : is_simple v = true) by (eapply pev_simple; eauto).
        specialize (IH (S n1) cx all (S pos) ((x, length (cells s)) :: en) (hist ++ [en])
                       (with_cells s (cells s ++ [v])) ((x, v) :: rho) (locals ++ [x])).
        cbn [cells with_cells] in IH.
        specialize (IH (rel_new _ _ _ x v Hr Hs) (covers_new _ _ x v Hc) Hrest ltac:(lia)).
        exact IH.
      * exists s. split; reflexivity.
      * reflexivity.
    + (* x = e *)
      destruct lhs as [|l lhs]; try discriminate. destruct l; try discriminate. destruct lhs; try discriminate.
      destruct es as [|e [|e' es]]; try discriminate.
      cbn [stmts_frag] in Hf. apply andb_prop in Hf. destruct Hf as [Hf Hrest].
      apply andb_prop in Hf. destruct Hf as [Hf _]. apply andb_prop in Hf. destruct Hf as [Hx He].
      destruct (Hc x Hx) as [w Hw]. destruct (rel_lookup _ _ _ _ _ Hr Hw) as [c [Hl [_ Hclt]]].
      cbn [sh] in Hn. rewrite ehs_one in Hn. destruct n as [|n1]; [lia|].
      assert (Hbg : block_go (S n1) cx all (SAssign ln [EVar x] [e] :: rest) pos en hist s =
                match pev rho e with
                | PV v => block_go (S n1) cx all rest (S pos) en (hist ++ [en])
                                   (with_cells s (set_nth (cells s) c v))
                | PFault => Err (VFault 2 ln) s
                | PUnsup => Unsup 1
                end).
      { cbn [block_go]. unfold bindM at 1. rewrite (exec_assign_frag _ _ _ _ _ _ _ _ Hl).
        rewrite (eval_multi_frag e n1 cx ln en s rho locals) by (auto; lia).
        destruct (pev rho e) as [v| |]; reflexivity. }
      rewrite Hbg. cbn [prun].
      destruct (pev rho e) as [v| |] eqn:P.
      * assert (Hs : is_simple v = true) by (eapply pev_simple; eauto).
        specialize (IH (S n1) cx all (S pos) en (hist ++ [en])
                       (with_cells s (set_nth (cells s) c v)) (pupdate rho x v) locals).
        cbn [cells with_cells] in IH.
        specialize (IH (rel_assign _ _ _ _ _ _ Hr Hl Hs) (covers_update _ _ x v Hc) Hrest ltac:(lia)).
        exact IH.
      * exists s. split; reflexivity.
      * reflexivity.
    + (* return *)
      cbn [stmts_frag] in Hf. apply andb_prop in Hf. destruct Hf as [Hf _]. apply andb_prop in Hf. destruct Hf as [_ Hes].
      cbn [sh] in Hn. destruct n as [|n1]; [lia|].
      assert (Hbg : block_go (S n1) cx all (SReturn ln es :: rest) pos en hist s =
                match pev_list rho es with
                | inr vs => Ret (SigReturn vs, en) s
                | inl PFault => Err (VFault 2 ln) s
                | inl _ => Unsup 1
                end).
      { cbn [block_go]. unfold bindM at 1. rewrite (exec_return_frag _ _ _ _ _ _ _ Hes).
        rewrite (eval_list_frag es n1 cx ln en s rho locals) by (auto; lia).
        destruct (pev_list rho es) as [[w| |]|vs]; reflexivity. }
      rewrite Hbg. cbn [prun].
      destruct (pev_list rho es) as [[w| |]|vs] eqn:P.
      * exfalso. exact (pev_list_not_pv _ _ _ P).
      * exists s. split; reflexivity.
      * reflexivity.
      * exists (SigReturn vs), en, s. repeat split. eapply pev_list_simple; eauto.
Qed.

(* ---------- whole chunks ---------- *)
Lemma call_main fuel d b :
  call (S fuel) [] (VFun 0) [] (init_state d b) =
  bind (block fuel (mkCtx [] [] 0) [] b [] 0 (init_state d b)) ret_of_signal.
Proof. rewrite call_fun_setup_lemma. reflexivity. Qed.

Theorem frag_run_lemma : forall b fuel d, in_frag b = true -> (frag_fuel b <= fuel)%nat ->
  match prun [] b with
  | CRet vs => exists s', run_program fuel d b = FinOk vs s' /\ trace s' = [] /\ forallb is_simple vs = true
  | CFault ln => exists s', run_program fuel d b = FinErr (VFault 2 ln) s' /\ trace s' = []
  | CUnsup => run_program fuel d b = FinUnsup 1
  | CStuck => False
  end.
Proof.
  intros b fuel d Hf Hn. unfold frag_fuel in Hn. destruct fuel as [|[|m]]; try lia.
  unfold run_program. rewrite call_main, block_step. cbn [skipn].
  pose proof (block_frag b m (mkCtx [] [] 0) b 0%nat [] [] (init_state d b) [] []) as H.
  cbn [cells init_state] in H.
  specialize (H (rel_nil _) (fun x Hx => ltac:(discriminate)) Hf ltac:(lia)).
  destruct (prun [] b) as [vs|ln| |].
  - destruct H as [sg [en' [s' [E [Hsg [Hsimple Ht]]]]]]. rewrite E. cbn [bind ret_of_signal fst].
    exists s'. destruct sg; simpl in Hsg; try discriminate; inversion Hsg; subst; (split; [reflexivity|split; [exact Ht|exact Hsimple]]).
  - destruct H as [s' [E Ht]]. rewrite E. exists s'. split; [reflexivity|exact Ht].
  - rewrite H. reflexivity.
  - exact H.
Qed.

(* ---------- the observable outcome ---------- *)
Definition oval_simple (v : value) : oval :=
  match v with VNil => ONil | VBool b => OBool b | VNum f => ONum f | _ => ONil end.

(* the outcome a fragment result denotes (the one both halves of frag_compile_correct use) *)
Definition cres_outcome (c : cres) : outcome :=
  match c with
  | CRet vs => Outcome [] (OOk (map oval_simple vs))
  | CFault ln => Outcome [] (OErr (OFault 2 ln))
  | CUnsup => OutUnsup 1
  | CStuck => OutUnsup 0
  end.

Lemma canon_list_simple vs : forall seen, forallb is_simple vs = true -> canon_list seen vs = (map oval_simple vs, seen).
Proof.
  induction vs as [|v r IH]; intros seen H; [reflexivity|]. simpl in H. apply andb_prop in H. destruct H as [Hv Hr].
  cbn [canon_list]. destruct v; try discriminate; cbn [canon1]; rewrite (IH seen Hr); reflexivity.
Qed.

Theorem frag_reference_is_prun_lemma : forall b fuel d, in_frag b = true -> (frag_fuel b <= fuel)%nat ->
  prun [] b <> CStuck /\ outcome_of (run_program fuel d b) = cres_outcome (prun [] b).
Proof.
  intros b fuel d Hf Hn. pose proof (frag_run_lemma b fuel d Hf Hn) as H.
  destruct (prun [] b) as [vs|ln| |].
  - destruct H as [s' [E [Ht Hs]]]. split; [discriminate|]. rewrite E. cbn [outcome_of]. rewrite Ht. cbn [canon_trace].
    rewrite (canon_list_simple vs [] Hs). reflexivity.
  - destruct H as [s' [E Ht]]. split; [discriminate|]. rewrite E. cbn [outcome_of]. rewrite Ht. reflexivity.
  - split; [discriminate|]. rewrite H. reflexivity.
  - contradiction.
Qed.
