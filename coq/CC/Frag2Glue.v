(* CC: the end-to-end statement on the fragment F2 (Frag2Sem.in_frag2: F1 plus string literals as
   values, arithmetic on possibly-string operands excluded statically), glued from the back half
   (CompFactsVM.vm_runs_isem_lemma), the front half on F2 (Frag2Facts.front_half2_lemma) and the
   reference half on F2 (Frag2Eval.frag2_run_lemma). *)
From Coq Require Import Floats Lia.
From GL Require Import Common.Bytes Lua.Syntax Lua.Num Lua.Values Lua.Eval Lua.Run Lua.LuaCases.
From GL Require Import VMX.Machine VMX.VRun CC.CompModel CC.FragSem CC.Frag1Sem CC.Frag2Sem.
From GL Require Import CC.CompFactsVM CC.FragEvalFacts CC.FragGlue.
From GL Require CC.Frag2Facts CC.Frag2Eval.

Definition front_half2 : Prop :=
  forall b x s, in_frag2 b = true -> compileChunk b (mkCS [] [] [] 0) = Some (x, s) ->
    let full := rev ((opCreateABC (op_code OP_RETURN) 0 1 0, last_line b 0) :: cs_code s) in
    isem_code (cs_consts s) full [] = prun2 [] b /\ Forall (fun wl => 0 <= fst wl < 2 ^ 32) full.

Definition frag2_compile_correct_stmt : Prop :=
  forall b p, in_frag2 b = true -> compile_frag b = Some p ->
  exists n, forall fuel, (n <= fuel)%nat ->
    is_skip (outcome_of (Run.run_program fuel no_devs b)) = false ->
    outcome_of_vfin (run_proto fuel p) = outcome_of (Run.run_program fuel no_devs b).

Theorem frag2_glue : front_half2 -> frag2_compile_correct_stmt.
Proof.
  intros F b p Hin Hc. unfold compile_frag in Hc.
  destruct (compileChunk b (mkCS [] [] [] 0)) as [[x s]|] eqn:E; [|discriminate].
  cbv zeta in Hc. destruct (F b x s Hin E) as [Hsem Hw]. cbv zeta in Hsem, Hw.
  set (full := rev ((opCreateABC (op_code OP_RETURN) 0 1 0, last_line b 0) :: cs_code s)) in *.
  destruct (num_used_registers (map fst full) >? maxRegisters); [discriminate|].
  assert (Hp : p = frag_proto full (cs_consts s) (num_used_registers (map fst full))).
  { inversion Hc. unfold frag_proto. rewrite map_length. reflexivity. }
  exists (Nat.max (frag_fuel b) (length full + 2)). intros fuel Hfuel Hskip.
  pose proof (vm_runs_isem_lemma full (cs_consts s) (num_used_registers (map fst full)) fuel
                (num_used_registers_pos _) Hw ltac:(lia)) as HV.
  pose proof (Frag2Eval.frag2_run_lemma b fuel no_devs Hin ltac:(lia)) as HR.
  rewrite Hsem in HV. rewrite <- Hp in HV.
  destruct (prun2 [] b) as [vs|ln| |].
  - destruct HV as [s1 [E1 T1]]. destruct HR as [s2 [E2 [T2 _]]]. rewrite E1, E2.
    cbn [outcome_of_vfin outcome_of]. rewrite T1, T2. reflexivity.
  - destruct HV as [s1 [E1 T1]]. destruct HR as [s2 [E2 T2]]. rewrite E1, E2.
    cbn [outcome_of_vfin outcome_of]. rewrite T1, T2. reflexivity.
  - rewrite HR in Hskip. discriminate.
  - contradiction.
Qed.

Theorem frag2_compile_correct_lemma : frag2_compile_correct_stmt.
Proof. exact (frag2_glue Frag2Facts.front_half2_lemma). Qed.
