(* CC: the semantic objects the fragment-compiler theorems are stated with. Definitions only.

   1. isem: a semantics of straight-line bytecode (the opcodes the fragment compiles to) on a
      register file whose defined registers form a prefix 0 .. len rf - 1, written from the
      instruction functions of _vm.go restricted to operands that are nil, booleans and numbers.
   2. psem: a direct ("pure") semantics of fragment programs on an environment of values.
   3. in_frag: the fragment of the correctness theorem. *)
From Coq Require Import Floats.
From GL Require Import Common.Bytes Lua.Syntax Lua.Num Lua.Values Lua.Eval.
From GL Require Import VMX.Machine CC.CompModel.

(* ---------- 1. straight-line bytecode ---------- *)
Definition rfile := list value.

Inductive ires := IOk (rf : rfile) | IRet (vs : list value) | IFault | IUnsup | IStuck.

Definition setr (rf : rfile) (i : Z) (v : value) : option rfile :=
  if (0 <=? i) && (i <=? len rf)
  then Some (firstn (Z.to_nat i) rf ++ v :: skipn (Z.to_nat (i + 1)) rf) else None.

Definition rkval (consts : list value) (rf : rfile) (x : Z) : option value :=
  if opIsK x then zth consts (opIndexK x) else zth rf x.

Definition is_simple (v : value) : bool :=
  match v with VNil | VBool _ | VNum _ => true | _ => false end.

Fixpoint setr_range (rf : rfile) (i : Z) (n : nat) : option rfile :=
  match n with
  | O => Some rf
  | S k => match setr rf i VNil with Some rf' => setr_range rf' (i + 1) k | None => None end
  end.

Definition arith_binop (o : opcode) : binop :=
  match o with
  | OP_ADD => OAdd | OP_SUB => OSub | OP_MUL => OMul | OP_DIV => ODiv | OP_MOD => OMod | _ => OPow
  end.

Definition isem_inst (consts : list value) (w : Z) (rf : rfile) : ires :=
  let A := opGetArgA w in let B := opGetArgB w in let C := opGetArgC w in
  let ok (o : option rfile) := match o with Some rf' => IOk rf' | None => IStuck end in
  let arith (o : opcode) :=
      match rkval consts rf B, rkval consts rf C with
      | Some (VNum x), Some (VNum y) =>
          match arith_op (arith_binop o) x y with
          | Some r => ok (setr rf A (VNum r))
          | None => IUnsup
          end
      | Some x, Some y => if is_simple x && is_simple y then IFault else IStuck
      | _, _ => IStuck
      end in
  match op_of_code (opGetOpCode w) with
  | Some OP_MOVE => match zth rf B with Some v => ok (setr rf A v) | None => IStuck end
  | Some OP_LOADK => match zth consts (opGetArgBx w) with Some v => ok (setr rf A v) | None => IStuck end
  | Some OP_LOADBOOL => if C =? 0 then ok (setr rf A (VBool (negb (B =? 0)))) else IStuck
  | Some OP_LOADNIL => ok (setr_range rf A (Z.to_nat (B - A + 1)))
  | Some OP_ADD => arith OP_ADD | Some OP_SUB => arith OP_SUB | Some OP_MUL => arith OP_MUL
  | Some OP_DIV => arith OP_DIV | Some OP_MOD => arith OP_MOD | Some OP_POW => arith OP_POW
  | Some OP_UNM =>
      match rkval consts rf B with
      | Some (VNum x) => ok (setr rf A (VNum (- x)%float))
      | Some x => if is_simple x then IFault else IStuck
      | None => IStuck
      end
  | Some OP_NOT => match zth rf B with Some v => ok (setr rf A (VBool (negb (truthy v)))) | None => IStuck end
  | Some OP_RETURN =>
      if (1 <=? B) && (A + (B - 1) <=? len rf) && (0 <=? A)
      then IRet (firstn (Z.to_nat (B - 1)) (skipn (Z.to_nat A) rf)) else IStuck
  | _ => IStuck
  end.

(* the outcome of a straight-line program: the returned values, or the line of the instruction
   that raised an arithmetic error *)
Inductive cres := CRet (vs : list value) | CFault (line : Z) | CUnsup | CStuck.

Fixpoint isem_code (consts : list value) (code : list (Z * Z)) (rf : rfile) : cres :=
  match code with
  | [] => CStuck
  | (w, ln) :: r =>
      match isem_inst consts w rf with
      | IOk rf' => isem_code consts r rf'
      | IRet vs => CRet vs
      | IFault => CFault ln
      | IUnsup => CUnsup
      | IStuck => CStuck
      end
  end.

(* ---------- 2. fragment programs ---------- *)
Definition penv := list (name * value).          (* head = innermost declaration *)

Fixpoint plookup (rho : penv) (x : name) : option value :=
  match rho with [] => None | (y, v) :: r => if beqb x y then Some v else plookup r x end.

Fixpoint pupdate (rho : penv) (x : name) (v : value) : penv :=
  match rho with
  | [] => []
  | (y, w) :: r => if beqb x y then (y, v) :: r else (y, w) :: pupdate r x v
  end.

Inductive pres := PV (v : value) | PFault | PUnsup.

Definition parith (o : binop) (x y : value) : pres :=
  match x, y with
  | VNum f, VNum g => match arith_op o f g with Some r => PV (VNum r) | None => PUnsup end
  | _, _ => PFault
  end.

Fixpoint pev (rho : penv) (e : expr) : pres :=
  match e with
  | ENil => PV VNil | ETrue => PV (VBool true) | EFalse => PV (VBool false)
  | ENum f => PV (VNum f)
  | EVar x => match plookup rho x with Some v => PV v | None => PUnsup end
  | EParen a => pev rho a
  | EBin o a b =>
      match pev rho a with
      | PV x => match pev rho b with PV y => parith o x y | r => r end
      | r => r
      end
  | EUn ONeg a => match pev rho a with PV (VNum f) => PV (VNum (- f)%float) | PV _ => PFault | r => r end
  | EUn ONot a => match pev rho a with PV v => PV (VBool (negb (truthy v))) | r => r end
  | _ => PUnsup
  end.

Fixpoint pev_list (rho : penv) (es : list expr) : pres + list value :=
  match es with
  | [] => inr []
  | e :: r => match pev rho e with
              | PV v => match pev_list rho r with inr vs => inr (v :: vs) | inl x => inl x end
              | x => inl x
              end
  end.

Fixpoint prun (rho : penv) (b : list stmt) : cres :=
  match b with
  | [] => CRet []
  | SLocal ln [x] [e] :: r =>
      match pev rho e with PV v => prun ((x, v) :: rho) r | PFault => CFault ln | PUnsup => CUnsup end
  | SAssign ln [EVar x] [e] :: r =>
      match pev rho e with PV v => prun (pupdate rho x v) r | PFault => CFault ln | PUnsup => CUnsup end
  | SReturn ln es :: _ =>
      match pev_list rho es with inr vs => CRet vs | inl PFault => CFault ln | inl _ => CUnsup end
  | _ => CStuck
  end.

(* ---------- 3. the fragment of the theorem (F0) ---------- *)
Fixpoint expr_frag (locals : list name) (e : expr) : bool :=
  match e with
  | ENil | ETrue | EFalse | ENum _ => true
  | EVar x => existsb (beqb x) locals
  | EParen a => expr_frag locals a
  | EBin o a b => is_arith_op o && expr_frag locals a && expr_frag locals b
  | EUn ONeg a | EUn ONot a => expr_frag locals a
  | _ => false
  end.

(* registers an expression may need above the one it is compiled at *)
Fixpoint edepth (e : expr) : Z :=
  match e with
  | EParen a => edepth a
  | EBin _ a b => Z.max (edepth a) (1 + edepth b)
  | EUn _ a => edepth a
  | _ => 0
  end.

Fixpoint stmts_frag (locals : list name) (b : list stmt) : bool :=
  match b with
  | [] => true
  | SLocal _ [x] [e] :: r =>
      negb (is_func_expr e) && expr_frag locals e && (len locals + 1 + edepth e <=? maxRegisters)
      && stmts_frag (locals ++ [x]) r
  | SAssign _ [EVar x] [e] :: r =>
      existsb (beqb x) locals && expr_frag locals e && (len locals + 1 + edepth e <=? maxRegisters)
      && stmts_frag locals r
  | SReturn _ es :: r =>
      match r with [] => true | _ => false end &&
      forallb (expr_frag locals) es &&
      forallb (fun e => len locals + len es + 1 + edepth e <=? maxRegisters) es
  | _ => false
  end.

Definition in_frag (b : list stmt) : bool := stmts_frag [] b.
