(* CC: the end-to-end statement on the fragment F3 (Frag3Sem.in_frag3: F2 plus reads of undefined
   globals), glued from the back half for isem3 (CompFactsVM3.vm_runs_isem_lemma: the VM model runs
   straight-line code incl. GETGLOBAL as isem3 says), the front half on F3
   (Frag3Facts.front_half3_lemma) and the reference half on F3 (Frag3Eval.frag3_run_lemma). *)
From Coq Require Import Floats Lia.
From GL Require Import Common.Bytes Lua.Syntax Lua.Num Lua.Values Lua.Eval Lua.Run Lua.LuaCases.
From GL Require Import VMX.Machine VMX.VRun CC.CompModel CC.FragSem CC.Frag1Sem CC.Frag2Sem CC.Frag3Sem.
From GL Require Import CC.FragEvalFacts CC.FragGlue.
From GL Require CC.CompFactsVM3 CC.Frag3Facts CC.Frag3Eval.

Definition front_half3 : Prop :=
  forall b x s, in_frag3 b = true -> compileChunk b (mkCS [] [] [] 0) = Some (x, s) ->
    let full := rev ((opCreateABC (op_code OP_RETURN) 0 1 0, last_line b 0) :: cs_code s) in
    isem3_code (cs_consts s) full [] = prun3 [] b /\ Forall (fun wl => 0 <= fst wl < 2 ^ 32) full.

Definition frag3_compile_correct_stmt : Prop :=
  forall b p, in_frag3 b = true -> compile_frag b = Some p ->
  exists n, forall fuel, (n <= fuel)%nat ->
    is_skip (outcome_of (Run.run_program fuel no_devs b)) = false ->
    outcome_of_vfin (run_proto fuel p) = outcome_of (Run.run_program fuel no_devs b).

Theorem frag3_glue : front_half3 -> frag3_compile_correct_stmt.
Proof.
  intros F b p Hin Hc. unfold compile_frag in Hc.
  destruct (compileChunk b (mkCS [] [] [] 0)) as [[x s]|] eqn:E; [|discriminate].
  cbv zeta in Hc. destruct (F b x s Hin E) as [Hsem Hw]. cbv zeta in Hsem, Hw.
  set (full := rev ((opCreateABC (op_code OP_RETURN) 0 1 0, last_line b 0) :: cs_code s)) in *.
  destruct (num_used_registers (map fst full) >? maxRegisters); [discriminate|].
  assert (Hp : p = CompFactsVM3.frag_proto full (cs_consts s) (num_used_registers (map fst full))).
  { inversion Hc. unfold CompFactsVM3.frag_proto. rewrite map_length. reflexivity. }
  exists (Nat.max (Frag3Eval.frag_fuel3 b) (length full + 2)). intros fuel Hfuel Hskip.
  pose proof (CompFactsVM3.vm_runs_isem_lemma full (cs_consts s) (num_used_registers (map fst full)) fuel
                (num_used_registers_pos _) Hw ltac:(lia)) as HV.
  pose proof (Frag3Eval.frag3_run_lemma b fuel no_devs Hin ltac:(lia)) as HR.
  rewrite Hsem in HV. rewrite <- Hp in HV.
  destruct (prun3 [] b) as [vs|ln| |].
  - destruct HV as [s1 [E1 T1]]. destruct HR as [s2 [E2 [T2 _]]]. rewrite E1, E2.
    cbn [outcome_of_vfin outcome_of]. rewrite T1, T2. reflexivity.
  - destruct HV as [s1 [E1 T1]]. destruct HR as [s2 [E2 T2]]. rewrite E1, E2.
    cbn [outcome_of_vfin outcome_of]. rewrite T1, T2. reflexivity.
  - rewrite HR in Hskip. discriminate.
  - contradiction.
Qed.

Theorem frag3_compile_correct_lemma : frag3_compile_correct_stmt.
Proof. exact (frag3_glue Frag3Facts.front_half3_lemma). Qed.

(* F3 contains F2 *)
Lemma expr_frag2_frag3 : forall T locals e, expr_frag2 T locals e = true -> expr_frag3 T locals e = true.
Proof.
  intros T locals e. induction e; simpl; intros H; try discriminate; try reflexivity.
  - rewrite H. reflexivity.
  - apply andb_prop in H. destruct H as [H Hb]. apply andb_prop in H. destruct H as [H Ha].
    apply andb_prop in H. destruct H as [H H2]. apply andb_prop in H. destruct H as [Ho H1].
    rewrite Ho, (IHe1 H1), (IHe2 H2), Ha, Hb. reflexivity.
  - destruct o; try discriminate.
    + apply andb_prop in H. destruct H as [H Ha]. rewrite (IHe H), Ha. reflexivity.
    + apply IHe. exact H.
  - apply IHe. exact H.
Qed.

Lemma forallb_frag2_frag3 : forall T locals es, forallb (expr_frag2 T locals) es = true -> forallb (expr_frag3 T locals) es = true.
Proof.
  intros T locals es H. rewrite forallb_forall in *. intros e Hin. apply expr_frag2_frag3. apply H. exact Hin.
Qed.

Lemma stmts_frag2_frag3 : forall T b locals, stmts_frag2 T locals b = true -> stmts_frag3 T locals b = true.
Proof.
  intros T. induction b as [|st b IH]; intros locals H; [reflexivity|].
  destruct st as [ln xs es|ln lhs es| | | | | | | | |ln es| | |]; cbn [stmts_frag2] in H; try discriminate; cbn [stmts_frag3].
  - apply andb_prop in H. destruct H as [H Hr]. apply andb_prop in H. destruct H as [H Ht].
    apply andb_prop in H. destruct H as [H Hx]. apply andb_prop in H. destruct H as [H Hb].
    apply andb_prop in H. destruct H as [H1 Hf].
    rewrite H1, (forallb_frag2_frag3 _ _ _ Hf), Hb, Hx, Ht, (IH _ Hr). reflexivity.
  - apply andb_prop in H. destruct H as [H Hr].
    destruct (assign_targets lhs) as [xs|]; [|discriminate].
    apply andb_prop in H. destruct H as [H Ht]. apply andb_prop in H. destruct H as [H Hx].
    apply andb_prop in H. destruct H as [H Hb]. apply andb_prop in H. destruct H as [H Hf].
    apply andb_prop in H. destruct H as [H Hxs]. apply andb_prop in H. destruct H as [H1 H2].
    rewrite H1, H2, Hxs, (forallb_frag2_frag3 _ _ _ Hf), Hb, Hx, Ht, (IH _ Hr). reflexivity.
  - apply andb_prop in H. destruct H as [H Hd]. apply andb_prop in H. destruct H as [Hb Hf].
    rewrite Hb, (forallb_frag2_frag3 _ _ _ Hf), Hd. reflexivity.
Qed.

Theorem frag2_in_frag3 : forall b, in_frag2 b = true -> in_frag3 b = true.
Proof. intros b H. apply stmts_frag2_frag3. exact H. Qed.
