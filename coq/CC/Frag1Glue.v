(* CC: the end-to-end statement on the fragment F1 (Frag1Sem.in_frag1: F0 plus multi-target local
   declarations and multiple assignments to locals), glued from the back half
   (CompFactsVM.vm_runs_isem_lemma), the front half on F1 (Frag1Facts.front_half1_lemma) and the
   reference half on F1 (Frag1Eval.frag1_run_lemma). *)
From Coq Require Import Floats Lia.
From GL Require Import Common.Bytes Lua.Syntax Lua.Num Lua.Values Lua.Eval Lua.Run Lua.LuaCases.
From GL Require Import VMX.Machine VMX.VRun CC.CompModel CC.FragSem CC.Frag1Sem.
From GL Require Import CC.CompFactsVM CC.FragEvalFacts CC.FragGlue CC.Frag1Facts CC.Frag1Eval.

Definition front_half1 : Prop :=
  forall b x s, in_frag1 b = true -> compileChunk b (mkCS [] [] [] 0) = Some (x, s) ->
    let full := rev ((opCreateABC (op_code OP_RETURN) 0 1 0, last_line b 0) :: cs_code s) in
    isem_code (cs_consts s) full [] = prun1 [] b /\ Forall (fun wl => 0 <= fst wl < 2 ^ 32) full.

Definition frag1_compile_correct_stmt : Prop :=
  forall b p, in_frag1 b = true -> compile_frag b = Some p ->
  exists n, forall fuel, (n <= fuel)%nat ->
    is_skip (outcome_of (Run.run_program fuel no_devs b)) = false ->
    outcome_of_vfin (run_proto fuel p) = outcome_of (Run.run_program fuel no_devs b).

Theorem frag1_glue : front_half1 -> frag1_compile_correct_stmt.
Proof.
  intros F b p Hin Hc. unfold compile_frag in Hc.
  destruct (compileChunk b (mkCS [] [] [] 0)) as [[x s]|] eqn:E; [|discriminate].
  cbv zeta in Hc. destruct (F b x s Hin E) as [Hsem Hw]. cbv zeta in Hsem, Hw.
  set (full := rev ((opCreateABC (op_code OP_RETURN) 0 1 0, last_line b 0) :: cs_code s)) in *.
  destruct (num_used_registers (map fst full) >? maxRegisters); [discriminate|].
  assert (Hp : p = frag_proto full (cs_consts s) (num_used_registers (map fst full))).
  { inversion Hc. unfold frag_proto. rewrite map_length. reflexivity. }
  exists (Nat.max (frag_fuel b) (length full + 2)). intros fuel Hfuel Hskip.
  pose proof (vm_runs_isem_lemma full (cs_consts s) (num_used_registers (map fst full)) fuel
                (num_used_registers_pos _) Hw ltac:(lia)) as HV.
  pose proof (frag1_run_lemma b fuel no_devs Hin ltac:(lia)) as HR.
  rewrite Hsem in HV. rewrite <- Hp in HV.
  destruct (prun1 [] b) as [vs|ln| |].
  - destruct HV as [s1 [E1 T1]]. destruct HR as [s2 [E2 [T2 _]]]. rewrite E1, E2.
    cbn [outcome_of_vfin outcome_of]. rewrite T1, T2. reflexivity.
  - destruct HV as [s1 [E1 T1]]. destruct HR as [s2 [E2 T2]]. rewrite E1, E2.
    cbn [outcome_of_vfin outcome_of]. rewrite T1, T2. reflexivity.
  - rewrite HR in Hskip. discriminate.
  - contradiction.
Qed.

Theorem frag1_compile_correct_lemma : frag1_compile_correct_stmt.
Proof. exact (frag1_glue front_half1_lemma). Qed.
