(* CC: the fragment F1 of the fragment-compiler theorem and its direct semantics. Definitions only.

   F1 = F0 (FragSem.in_frag) + multi-target local declarations and multiple assignments to locals:
     local x1, ..., xn [= e1, ..., em]      (n >= 1, m >= 0; fewer expressions: nil padding,
                                             more expressions: the extra ones are still evaluated)
     x1, ..., xn = e1, ..., em              (n, m >= 1; every xi a local in scope)
     return e1, ..., em                     (last statement)
   with the expressions of F0 (FragSem.expr_frag).

   prun1: every right-hand side is evaluated left to right before anything is stored; a local
   declaration brings its names into scope in order (a repeated name: the last one wins); an
   assignment stores last target first (a repeated target: the first one wins), as the reference
   evaluator and compile.go do. *)
From Coq Require Import Floats.
From GL Require Import Common.Bytes Lua.Syntax Lua.Num Lua.Values Lua.Eval.
From GL Require Import VMX.Machine CC.CompModel CC.FragSem.

Definition pstore (rho : penv) (l : list (name * value)) : penv :=
  fold_left (fun r p => pupdate r (fst p) (snd p)) l rho.

Definition pcres (ln : Z) (r : pres) : cres := match r with PFault => CFault ln | _ => CUnsup end.

Fixpoint prun1 (rho : penv) (b : list stmt) : cres :=
  match b with
  | [] => CRet []
  | SLocal ln xs es :: r =>
      match pev_list rho es with
      | inr vs => prun1 (rev (combine xs (adjust (length xs) vs)) ++ rho) r
      | inl p => pcres ln p
      end
  | SAssign ln lhs es :: r =>
      match assign_targets lhs with
      | Some xs =>
          match pev_list rho es with
          | inr vs => prun1 (pstore rho (rev (combine xs (adjust (length xs) vs)))) r
          | inl p => pcres ln p
          end
      | None => CStuck
      end
  | SReturn ln es :: _ =>
      match pev_list rho es with inr vs => CRet vs | inl p => pcres ln p end
  | _ => CStuck
  end.

(* registers: expression i of a list is compiled at register (number of locals + i) *)
Definition budget (locals : list name) (es : list expr) : bool :=
  forallb (fun e => len locals + len es + edepth e <=? maxRegisters) es.

Fixpoint stmts_frag1 (locals : list name) (b : list stmt) : bool :=
  match b with
  | [] => true
  | SLocal _ xs es :: r =>
      (1 <=? len xs) && forallb (expr_frag locals) es && budget locals es
      && (len locals + len xs <=? maxRegisters) && stmts_frag1 (locals ++ xs) r
  | SAssign _ lhs es :: r =>
      match assign_targets lhs with
      | Some xs =>
          (1 <=? len xs) && (1 <=? len es) && forallb (fun x => existsb (beqb x) locals) xs
          && forallb (expr_frag locals) es && budget locals es
          && (len locals + len xs <=? maxRegisters)
      | None => false
      end && stmts_frag1 locals r
  | SReturn _ es :: r =>
      match r with [] => true | _ => false end &&
      forallb (expr_frag locals) es &&
      forallb (fun e => len locals + len es + 1 + edepth e <=? maxRegisters) es
  | _ => false
  end.

Definition in_frag1 (b : list stmt) : bool := stmts_frag1 [] b.
