(* C04 — non-vacuity: a table with a metatable chain; hypotheses of the theorems hold and the
   conclusions compute to the expected results. *)
From Coq Require Import Floats.
From GL Require Import Common.Bytes Lua.Syntax Lua.Num Lua.Values Lua.Names Lua.Eval Lua.Run
  Lua.MonadFacts Lua.EvalStepFacts Lua.MetaFacts.

Definition n_a : bytes := [97]. Definition n_b : bytes := [98].
Definition k_x : value := VStr [120]. Definition k_y : value := VStr [121]. Definition k_z : value := VStr [122].
(* closures: 1 = function(a, b) emit(a, b); return 42, 43 end   (used as __add)
             2 = function(a, b) emit(b, a); return 1 end         (used as __lt: truthy non-boolean)
             3 = function(t, k) emit(k); return 99 end           (used as __index at the end of the chain) *)
Definition clo_add := mkClo [n_a; n_b] false
  [SCall 1 (ECall (EVar s_emit) [EVar n_a; EVar n_b]); SReturn 2 [ENum 42%float; ENum 43%float]] [] 0 1 false.
Definition clo_lt := mkClo [n_a; n_b] false
  [SCall 3 (ECall (EVar s_emit) [EVar n_b; EVar n_a]); SReturn 4 [ENum 1%float]] [] 0 3 false.
Definition clo_idx := mkClo [n_a; n_b] false
  [SCall 5 (ECall (EVar s_emit) [EVar n_b]); SReturn 6 [ENum 99%float]] [] 0 5 false.

(* tables: 6 = obj {x=1} -> mt 7;  7 = {__index = table 8, __add = f1, __lt = f2, __newindex = table 8}
           8 = base {y=2} -> mt 9; 9 = {__index = f3};  10 = obj2 {} -> mt 7 *)
Definition st : state :=
  let s := init_state no_devs [] in
  with_tabs (with_clos s (clos s ++ [clo_add; clo_lt; clo_idx]))
    (tabs s ++ [mkTab [(k_x, VNum 1%float)] (Some 7%nat);
                mkTab [(VStr s_mm_index, VTab 8); (VStr s_mm_add, VFun 1); (VStr s_mm_lt, VFun 2);
                       (VStr s_mm_newindex, VTab 8)] None;
                mkTab [(k_y, VNum 2%float)] (Some 9%nat);
                mkTab [(VStr s_mm_index, VFun 3)] None;
                mkTab [] (Some 7%nat)]).

Notation obj := (VTab 6). Notation obj2 := (VTab 10).

(* raw hit: no handler although the metatable has __index *)
Example ex_index_raw : index 5 [] obj k_x 100 st = Ret (VNum 1%float) st.
Proof. apply (index_raw_first_lemma 4 [] 6 k_x 99 st). reflexivity. Qed.

(* absent: hypothesis holds; the chain obj -> table 8 finds y *)
Example ex_index_chain_hyp : is_nil (rawget_of st 6 k_y) = true. Proof. reflexivity. Qed.
Example ex_index_chain : index 5 [] obj k_y 100 st = Ret (VNum 2%float) st.
Proof. rewrite (index_absent_lemma 4 [] 6 k_y 99 st ex_index_chain_hyp). vm_compute. reflexivity. Qed.

(* absent everywhere: table 8's own __index function is called with (table 8, key) *)
Example ex_index_function : exists s', index 40 [] obj k_z 100 st = Ret (VNum 99%float) s' /\ trace s' = [[k_z]].
Proof. eexists. split; vm_compute; reflexivity. Qed.

(* assignment to the present key x is raw although __newindex is set; to the absent key z it
   follows __newindex to table 8 *)
Example ex_newindex_present : setindex 5 [] obj k_x (VNum 5%float) 100 st = Ret tt (rawset_state st 6 k_x (VNum 5%float)).
Proof. apply (newindex_present_lemma 4 [] 6 k_x (VNum 5%float) 99 st); reflexivity. Qed.

Example ex_newindex_absent : exists s', setindex 5 [] obj k_z (VNum 5%float) 100 st = Ret tt s' /\
  rawget_of s' 6 k_z = VNil /\ rawget_of s' 8 k_z = VNum 5%float.
Proof. eexists. split; [vm_compute; reflexivity|]. split; vm_compute; reflexivity. Qed.

(* 1 + obj: handler from the right operand, called with (1, obj) in source order, first result *)
Example ex_arith_hyps : both_num (VNum 1%float) obj = false /\ some_out (VNum 1%float) obj = false.
Proof. split; reflexivity. Qed.
Example ex_arith_right : exists s',
  binop_v 40 [] OAdd (VNum 1%float) obj st = Ret (VNum 42%float) s' /\ trace s' = [[VNum 1%float; obj]].
Proof.
  eexists. rewrite (arith_left_then_right_lemma 39 [] OAdd (VNum 1%float) obj st eq_refl eq_refl eq_refl).
  split; vm_compute; reflexivity.
Qed.

(* obj <= obj2 with only __lt: not (obj2 < obj); the handler sees (obj2, obj) and its result 1
   counts as true, so the answer is false *)
Example ex_le_hyps : order_prim obj obj2 = false /\ beqb (tyname obj) (tyname obj2) = true /\
  is_nil (metafield st obj s_mm_le) = true.
Proof. repeat split; reflexivity. Qed.
Example ex_le_fallback : exists s', le_v 40 [] obj obj2 st = Ret false s' /\ trace s' = [[obj; obj2]].
Proof.
  eexists. rewrite (le_fallback_not_lt_lemma 38 [] obj obj2 st eq_refl eq_refl eq_refl).
  split; vm_compute; reflexivity.
Qed.

(* equality: two different tables with no __eq are unequal without any call; rawequal agrees *)
Example ex_eq_no_handler : eq_v 5 [] obj obj2 st = Ret false st.
Proof. rewrite (eq_handler_lemma 4 [] obj obj2 st eq_refl eq_refl). reflexivity. Qed.

Example ex_rawget : builtin_call 3 [] BRawGet [obj; k_y] st = Ret [VNil] st.
Proof. apply rawget_never_calls_lemma. Qed.

Example ex_rawset : exists s', builtin_call 3 [] BRawSet [obj; k_z; VNum 7%float] st = Ret [obj] s' /\
  rawget_of s' 6 k_z = VNum 7%float /\ rawget_of s' 8 k_z = VNil.
Proof.
  exists (rawset_state st 6 k_z (VNum 7%float)). split; [apply rawset_never_calls_lemma; reflexivity|].
  split; vm_compute; reflexivity.
Qed.

(* a protected metatable: table 11 -> mt 12 = {__metatable = "locked", __tostring = f3} *)
Definition st_p : state :=
  with_tabs st (tabs st ++ [mkTab [] (Some 12%nat);
                            mkTab [(VStr s_mm_metatable, VStr [108]); (VStr s_mm_tostring, VFun 3)] None]).
Example ex_getmetatable_protected : builtin_call 3 [] BGetMt [VTab 11] st_p = Ret [VStr [108]] st_p.
Proof. rewrite getmetatable_lemma. reflexivity. Qed.
Example ex_setmetatable_protected : is_err_unchanged st_p (builtin_call 3 [] BSetMt [VTab 11; VNil] st_p).
Proof. apply setmetatable_protected_lemma. reflexivity. Qed.
Example ex_tostring_handler : exists s', tostring_v 40 [] (VTab 11) st_p = Ret (VNum 99%float) s'.
Proof. eexists. rewrite (tostring_handler_lemma 39 [] (VTab 11) st_p eq_refl). vm_compute. reflexivity. Qed.

(* ---------- wave 5: whole chains and the documented depth (Lua/MetaChainFacts.v) ---------- *)
From Coq Require Import List. Import ListNotations.
From GL Require Import Lua.MetaChainFacts.

(* [chain_tabs ev prev m]: m further objects, each an empty table whose metatable {ev = previous object}
   sits just before it; the previous object has index [prev] *)
Fixpoint chain_tabs (ev : bytes) (prev m : nat) : list tab :=
  match m with
  | O => []
  | S m' => mkTab [(VStr ev, VTab prev)] None :: mkTab [] (Some (S prev)) :: chain_tabs ev (S (S prev)) m'
  end.

Definition t0 : nat := Eval vm_compute in length (tabs st).
(* a chain of m objects: the last one (index t0) is [base]; the head has index t0 + 2 (m - 1) *)
Definition chain_state (ev : bytes) (base : tab) (m : nat) : state :=
  with_tabs st (tabs st ++ base :: chain_tabs ev t0 (m - 1)).
Definition head_of (m : nat) : value := VTab (t0 + 2 * (m - 1)).
Definition links_of (m : nat) : list value := map (fun j => VTab (t0 + 2 * j)) (rev (seq 0 (m - 1))).

(* 100 objects, the key nowhere, no handler on the last: nil -- the 100th object is examined *)
Definition st100 := chain_state s_mm_index (mkTab [] None) 100.
Example ex_chain100_hyp : chain s_mm_index st100 k_z (head_of 100) (links_of 100) /\ length (links_of 100) = 99%nat
  /\ last (links_of 100) (head_of 100) = VTab t0.
Proof. vm_compute. repeat split. Qed.
Example ex_chain100_absent : forall n, index (99 + S n) [] (head_of 100) k_z 100 st100 = Ret VNil st100.
Proof.
  intros n. destruct ex_chain100_hyp as (Hc & Hl & Hlast).
  apply (index_chain_last_absent_lemma [] k_z st100 (links_of 100) (head_of 100) n 100 t0 Hc); try reflexivity.
  rewrite Hl. repeat constructor.
Qed.

(* 100 objects, the last one holds the key *)
Definition st100h := chain_state s_mm_index (mkTab [(k_z, VNum 7%float)] None) 100.
Example ex_chain100_hit : forall n, index (99 + S n) [] (head_of 100) k_z 100 st100h = Ret (VNum 7%float) st100h.
Proof.
  intros n. assert (Hc : chain s_mm_index st100h k_z (head_of 100) (links_of 100)) by (vm_compute; repeat split).
  apply (index_chain_last_hit_lemma [] k_z st100h (links_of 100) (head_of 100) n 100 t0 Hc); try reflexivity.
  vm_compute. repeat constructor.
Qed.

(* 100 objects, the last one's metatable (table 9 of st) has __index = closure 3: it is called with
   (last object, key): the key is emitted and 99 returned *)
Definition st100f := chain_state s_mm_index (mkTab [] (Some 9%nat)) 100.
Example ex_chain100_handler : exists s', index (99 + 40) [] (head_of 100) k_z 100 st100f = Ret (VNum 99%float) s' /\ trace s' = [[k_z]].
Proof.
  assert (Hc : chain s_mm_index st100f k_z (head_of 100) (links_of 100)) by (vm_compute; repeat split).
  assert (Hh : index (99 + 40) [] (head_of 100) k_z 100 st100f =
               first_of (call 39 [] (metafield st100f (VTab t0) s_mm_index) [VTab t0; k_z] st100f)).
  { apply (index_chain_last_handler_lemma [] k_z st100f (links_of 100) (head_of 100) 39 100 Hc);
      [vm_compute; repeat constructor | vm_compute; reflexivity | vm_compute; reflexivity]. }
  eexists. rewrite Hh. split; vm_compute; reflexivity.
Qed.

(* 101 objects: an error, although the key is nowhere and no handler would run *)
Definition st101 := chain_state s_mm_index (mkTab [] None) 101.
Example ex_chain101_error : forall n, index (100 + S n) [] (head_of 101) k_z 100 st101 = Err (VFault 1 (frames_line [])) st101.
Proof.
  intros n. assert (Hc : chain s_mm_index st101 k_z (head_of 101) (links_of 101)) by (vm_compute; repeat split).
  apply (index_chain_beyond_depth_lemma [] k_z st101 (links_of 101) (head_of 101) n 100 Hc). reflexivity.
Qed.

(* assignment through 100 objects arrives in the last one; through 101 it is an error *)
Definition sn100 := chain_state s_mm_newindex (mkTab [] None) 100.
Example ex_newindex_chain100 : forall n,
  setindex (99 + S n) [] (head_of 100) k_z (VNum 5%float) 100 sn100 = Ret tt (rawset_state sn100 t0 k_z (VNum 5%float)).
Proof.
  intros n. assert (Hc : chain s_mm_newindex sn100 k_z (head_of 100) (links_of 100)) by (vm_compute; repeat split).
  apply (setindex_chain_last_plain_lemma [] k_z (VNum 5%float) sn100 (links_of 100) (head_of 100) n 100 t0 Hc); try reflexivity.
  vm_compute. repeat constructor.
Qed.
Definition sn101 := chain_state s_mm_newindex (mkTab [] None) 101.
Example ex_newindex_chain101 : forall n,
  setindex (100 + S n) [] (head_of 101) k_z (VNum 5%float) 100 sn101 = Err (VFault 1 (frames_line [])) sn101.
Proof.
  intros n. assert (Hc : chain s_mm_newindex sn101 k_z (head_of 101) (links_of 101)) by (vm_compute; repeat split).
  apply (setindex_chain_beyond_depth_lemma [] k_z (VNum 5%float) sn101 (links_of 101) (head_of 101) n 100 Hc). reflexivity.
Qed.

(* rawequal of two distinct userdata sharing a metatable with __eq: false, nothing is called *)
Example ex_rawequal_userdata : forall s, builtin_call 3 [] BRawEqual [VUd 0; VUd 1] s = Ret [VBool false] s.
Proof. intros s. apply rawequal_never_calls_lemma. Qed.
