(* C14 — non-vacuity: the hypotheses of each theorem are met by concrete, non-trivial data. *)
From GL Require Import Common.Bytes Pm.Class Pm.PmTypes Pm.RefMatch Pm.GoParse Pm.GoCompile Pm.GoVM
     Pm.Find Pm.Gsub Pm.Flat Pm.ClassFacts Pm.FindFacts Pm.GsubFacts Pm.ParseFacts Pm.CompileFacts
     Pm.VMFacts.
From Coq Require Import Lia.

Example class_agree_ex : go_single_matches 97 120 = true /\ ref_match_class 120 97 = true
                         /\ go_single_matches 68 120 = true /\ go_single_matches 37 37 = true.
Proof. vm_compute. repeat split. Qed.

(* gsub_assembly: "hello" with [2,3) -> "LL" and [3,4) -> "" *)
Example gsub_assembly_ex :
  extents_ok [104;101;108;108;111] 0 [(2, 3, [76;76]); (3, 4, [])] /\
  strGsubDoReplace [104;101;108;108;111] [(2, 3, [76;76]); (3, 4, [])] = [104;101;76;76;111].
Proof. split; [cbn; lia|reflexivity]. Qed.

(* find_leftmost / find_advance: a VM that succeeds exactly at 2 (empty match) and 4 *)
Definition ex_run (sp : Z) : vres :=
  if sp =? 2 then VRet true 2 [4;4] else if sp =? 4 then VRet true 5 [8;10] else VRet false sp [].
Example find_hyps_ex : total_on ex_run 5 0 /\ find_loop ex_run 5 false 1 7 0 [] = FOk [[4;4]]
                       /\ find_loop ex_run 5 false (-1) 7 0 [] = FOk [[4;4]; [8;10]].
Proof.
  split; [|split; reflexivity]. intros sp _. unfold ex_run.
  destruct (sp =? 2); [eauto|]. destruct (sp =? 4); eauto.
Qed.

(* bad_pattern_total / compile_shape: a malformed and a well-formed pattern *)
Example parse_ex : goParse [40;97] = ParseErr /\
  match goParse [94;40;97;42;41;37;49;36] with
  | ParseOk p => len (goCompile p) = 11 /\ must_head p = true /\ must_tail p = true
  | _ => False
  end.
Proof. vm_compute. repeat split. Qed.

(* vm_refines_flat: a capture of a starred a, then b, then a back-reference, on xaabaa from position 1: the hypotheses hold and the
   semantics is a genuine match with one closed capture *)
Example vm_refines_flat_ex :
  let p := mkSeq false false [PCap [PRepeat 42 (CChar 97)]; PSingle (CChar 98); PNumber 1] in
  let src := [120;97;97;98;97;97] in
  0 <= 1 <= len src /\ 1 + Z.of_nat (vm_fuel src (goCompile p)) <= maxRecursionLevel /\
  goVM src (goCompile p) (vm_fuel src (goCompile p)) 0 1 <> VFuel /\
  fm src false (flatten_seq (patterns p)) 1 [] [] = FMatch 6 [(1, 2)].
Proof. vm_compute. repeat split; congruence. Qed.
