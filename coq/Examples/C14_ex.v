(* C14 — non-vacuity: the hypotheses of each theorem are met by concrete, non-trivial data. *)
From GL Require Import Common.Bytes Pm.Class Pm.PmTypes Pm.RefMatch Pm.GoParse Pm.GoCompile Pm.GoVM
     Pm.Find Pm.Gsub Pm.Flat Pm.ClassFacts Pm.FindFacts Pm.GsubFacts Pm.ParseFacts Pm.CompileFacts
     Pm.VMFacts Pm.RefFacts Pm.SetFacts Pm.PmRefine Pm.PrintFacts Pm.FindRefine Pm.ReplFacts
     Pm.BadRef Pm.ErrRefine.
From Coq Require Import Lia.

Example class_agree_ex : go_single_matches 97 120 = true /\ ref_match_class 120 97 = true
                         /\ go_single_matches 68 120 = true /\ go_single_matches 37 37 = true.
Proof. vm_compute. repeat split. Qed.

(* gsub_assembly: "hello" with [2,3) -> "LL" and [3,4) -> "" *)
Example gsub_assembly_ex :
  extents_ok [104;101;108;108;111] 0 [(2, 3, [76;76]); (3, 4, [])] /\
  strGsubDoReplace [104;101;108;108;111] [(2, 3, [76;76]); (3, 4, [])] = [104;101;76;76;111].
Proof. split; [cbn; lia|reflexivity]. Qed.

(* find_leftmost / find_advance: a VM that succeeds exactly at 2 (empty match) and 4 *)
Definition ex_run (sp : Z) : vres :=
  if sp =? 2 then VRet true 2 [4;4] else if sp =? 4 then VRet true 5 [8;10] else VRet false sp [].
Example find_hyps_ex : total_on ex_run 5 0 /\ find_loop ex_run 5 false 1 7 0 [] = FOk [[4;4]]
                       /\ find_loop ex_run 5 false (-1) 7 0 [] = FOk [[4;4]; [8;10]].
Proof.
  split; [|split; reflexivity]. intros sp _. unfold ex_run.
  destruct (sp =? 2); [eauto|]. destruct (sp =? 4); eauto.
Qed.

(* bad_pattern_total / compile_shape: a malformed and a well-formed pattern *)
Example parse_ex : goParse [40;97] = ParseErr /\
  match goParse [94;40;97;42;41;37;49;36] with
  | ParseOk p => len (goCompile p) = 11 /\ must_head p = true /\ must_tail p = true
  | _ => False
  end.
Proof. vm_compute. repeat split. Qed.

(* vm_refines_flat: a capture of a starred a, then b, then a back-reference, on xaabaa from position 1: the hypotheses hold and the
   semantics is a genuine match with one closed capture *)
Example vm_refines_flat_ex :
  let p := mkSeq false false [PCap [PRepeat 42 (CChar 97)]; PSingle (CChar 98); PNumber 1] in
  let src := [120;97;97;98;97;97] in
  0 <= 1 <= len src /\ 1 + Z.of_nat (vm_fuel src (goCompile p)) <= maxRecursionLevel /\
  goVM src (goCompile p) (vm_fuel src (goCompile p)) 0 1 <> VFuel /\
  fm src false (flatten_seq (patterns p)) 1 [] [] = FMatch 6 [(1, 2)].
Proof. vm_compute. repeat split; congruence. Qed.

(* set_agree: the set [^a-c%d-] satisfies the hypothesis and is not trivial *)
Example set_agree_ex :
  set_ok true [SRange 97 99; SClass 100; SChar 45] /\
  set_text true [SRange 97 99; SClass 100; SChar 45] = [91;94;97;45;99;37;100;45;93] /\
  set_sem true [SRange 97 99; SClass 100; SChar 45] 98 = false /\
  set_sem true [SRange 97 99; SClass 100; SChar 45] 120 = true.
Proof. split; [apply set_okb_ok; reflexivity|repeat split]. Qed.

(* vm_refines_ref / vm_refines_ref_checked: the pattern ^(%a+)[%d_]-%1$ is printable, its text is
   what the printer says, the parser returns this tree for it, and the reference matches a subject *)
Definition ex_pat : seqpat :=
  mkSeq true true [PCap [PRepeat 43 (CSingle 97)];
                   PRepeat 45 (CSet false [CSingle 100; CChar 95]); PNumber 1].
Example vm_refines_ref_ex :
  seq_okb ex_pat = true /\
  print_seq ex_pat = Some [94;40;37;97;43;41;91;37;100;95;93;45;37;49;36] /\
  goParse [94;40;37;97;43;41;91;37;100;95;93;45;37;49;36] = ParseOk ex_pat /\
  ref_match [94;40;37;97;43;41;91;37;100;95;93;45;37;49;36] [97;98;49;95;97;98] 0 1 = RMatch 6 [(0, 2)] /\
  goVM [97;98;49;95;97;98] (goCompile ex_pat) (vm_fuel [97;98;49;95;97;98] (goCompile ex_pat)) 0 0 <> VFuel.
Proof. vm_compute. repeat split; congruence. Qed.

(* goparse_roundtrip_small: the family is large and mostly printable *)
Example roundtrip_ex : len rt_family = 8492 /\ rt_printable = 8076.
Proof. vm_compute. split; reflexivity. Qed.

(* ref_refines_flat: hypotheses for a concrete item list *)
Example ref_flat_ex :
  exists text, prints (tail_text false) [FOpen; FRepeat 42 (CChar 97); FClose; FNumber 1] text /\
               text = [40;97;42;41;37;49].
Proof.
  destruct (items_okb_prints (tail_text false) [FOpen; FRepeat 42 (CChar 97); FClose; FNumber 1] eq_refl)
    as (t & Ht & Hp). exists t. split; [exact Hp|]. cbn in Ht. inversion Ht. reflexivity.
Qed.

(* find_refines_ref / match_refines_ref: every hypothesis holds for ex_pat on a subject where the
   reference finds a match with a capture *)
Example find_refines_ref_ex :
  let pb := [94;40;37;97;43;41;91;37;100;95;93;45;37;49;36] in
  let s := [97;98;49;95;97;98] in
  seq_okb ex_pat = true /\ print_seq ex_pat = Some pb /\ goParse pb = ParseOk ex_pat /\
  backrefs_ok ex_pat = true /\ is_bytes s = true /\ 1 + Z.of_nat (vm_fuel s (goCompile ex_pat)) <= maxRecursionLevel /\
  0 < len pb /\ ref_find s pb 1 = Ok [VNum 1; VNum 6; VStr [97;98]] /\
  ref_smatch s pb (-6) = Ok [VStr [97;98]].
Proof. vm_compute. repeat split; congruence. Qed.

(* repl_scanner_spec: a match [1,3) of "xaby" with capture (1,1) and the replacement <%1%%%0> *)
Example repl_scanner_ex :
  let m := [2; 6; 2; 4] in let cs := [(1, 1)] in
  agree 1 m cs /\ mget m 1 = 2 * 3 /\ len m = 2 + 2 * len cs /\
  Forall rtok_ok [RLit 60; RCap 1; RPct; RCap 0; RLit 62] /\
  repl_scan 20 [120;97;98;121] m (rtoks_text [RLit 60; RCap 1; RPct; RCap 0; RLit 62]) 0 false [] =
    Ok [60; 97; 37; 97; 98; 62].
Proof.
  cbv zeta. split; [|split; [reflexivity|split; [reflexivity|split; [repeat constructor; cbn; lia|reflexivity]]]].
  split; [reflexivity|]. split; [reflexivity|].
  intros j c Hj. destruct (Z.eq_dec j 0) as [->|Hn].
  - inversion Hj; subst. cbn. repeat split; reflexivity.
  - pose proof (zth_some_range _ _ _ Hj) as R. change (len [(1, 1)]) with 1 in R. lia.
Qed.

(* bad_backref_is_error / vm_refines_ref_strict / find_refines_ref_total: forward references.
   "(a)%2(b)" on "xab": the attempt at 0 fails before the reference, the attempt at 1 reaches it:
   both sides raise the error there; on "xb" the reference is never reached: nil on both sides.
   "%1(a)": error at the very first attempt. *)
Definition ex_fwd : seqpat :=
  mkSeq false false [PCap [PSingle (CChar 97)]; PNumber 2; PCap [PSingle (CChar 98)]].
Definition ex_fwd1 : seqpat := mkSeq false false [PNumber 1; PCap [PSingle (CChar 97)]].
Example bad_backref_ex :
  let pb := [40;97;41;37;50;40;98;41] in
  let s := [120;97;98] in
  seq_okb ex_fwd = true /\ print_seq ex_fwd = Some pb /\ goParse pb = ParseOk ex_fwd /\
  backrefs_ok ex_fwd = true /\ is_bytes s = true /\
  1 + Z.of_nat (vm_fuel s (goCompile ex_fwd)) <= maxRecursionLevel /\ 0 < len pb /\
  fm s false (flatten_seq (patterns ex_fwd)) 0 [] [] = FFail /\
  fm s false (flatten_seq (patterns ex_fwd)) 1 [] [] = FBad /\
  goVM s (goCompile ex_fwd) (vm_fuel s (goCompile ex_fwd)) 0 1 = VErr /\
  ref_match pb s 1 0 = RErr /\
  ref_find s pb 1 = Err /\ strFind s pb (Some 1) = Err /\
  ref_smatch s pb 1 = Err /\ strMatch s pb (Some 1) = Err /\
  ref_find [120;98] pb 1 = Ok [VNil] /\ strFind [120;98] pb (Some 1) = Ok [VNil] /\
  goParse [37;49;40;97;41] = ParseOk ex_fwd1 /\ backrefs_ok ex_fwd1 = true /\
  ref_find [97] [37;49;40;97;41] 1 = Err /\ strFind [97] [37;49;40;97;41] (Some 1) = Err.
Proof. vm_compute. repeat split; congruence. Qed.
Example nums_pos_ex : nums_pos (flatten_seq (patterns ex_fwd)).
Proof. intros n [H|[H|[H|[H|[H|[H|[H|[]]]]]]]]; inversion H; lia. Qed.
