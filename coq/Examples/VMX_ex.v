(* Non-vacuity of the M-VM theorems (Properties/C01–C03, the parts on coq/VMX): concrete
   prototypes dumped from the real compiler, concrete registries, upvalue lists and frames that
   satisfy the hypotheses, with the conclusions observed by computation. *)
From Coq Require Import Uint63 Floats Lia.
From GL Require Import Common.Bytes Lua.Syntax Lua.Num Lua.Values Lua.Eval Lua.Run Lua.LuaCases.
From GL Require Import VMX.Machine VMX.Step VMX.Builtins VMX.VRun VMX.Spec VMX.WfTie VMX.VmCases.
From GL Require VMX.RegFacts VMX.UpvalFacts VMX.FrameFacts VMX.VRunFacts VMX.WfTieFacts VMX.VmCasesFacts.
From GL Require VM.WfProto VM.WfFacts.
Open Scope float_scope.
Open Scope Z_scope.

(* local a = 1; return a + 1 *)
Definition p_ret : xproto := (XProto (w63 [134217728;1007026176;2214854658;2214592513]%uint63) [VNum 0x1p+0%float] [] 0 0 7 2 [1;2;2;3] 0).
(* a counter factory: closure creation, upvalue capture, calls, emit *)
Definition p_clo : xproto := (XProto (w63 [2617245696;262144;2080637953;403177472;786433;2081162241;1048577;2081423361;2080899584;2214592513]%uint63) [VStr [101;109;105;116]] [(XProto (w63 [134217728;2617507840;0;2214854658;2214592513]%uint63) [VNum 0%float] [(XProto (w63 [335544320;1006764032;671088640;335544320;2214592514;2214592513]%uint63) [VNum 0x1p+0%float] [] 1 0 0 2 [1;1;1;1;1;1] 1)] 0 0 0 2 [1;1;1;1;1] 1)] 0 0 7 5 [1;2;2;3;3;3;3;3;3;4] 0).

(* ---------- the runner ---------- *)
Example run_ret : outcome_of_vfin (run_proto 100 p_ret) = Outcome [] (OOk [ONum 2%float]).
Proof. vm_compute. reflexivity. Qed.

Example run_clo : vm_outcome p_clo = Outcome [[ONum 1%float; ONum 2%float]] (OOk []).
Proof. vm_compute. reflexivity. Qed.

(* vm_fuel_mono applies: 100 units are enough for p_ret, so 100 + k give the same result *)
Example fuel_mono_applies : forall k, run_proto (100 + k) p_ret = run_proto 100 p_ret.
Proof. apply VRunFacts.vm_fuel_mono. vm_compute. discriminate. Qed.

(* and fuel matters below that: the statement is not vacuous *)
Example fuel_too_small : run_proto 2 p_ret = VFinFuel.
Proof. vm_compute. reflexivity. Qed.

(* ---------- registers ---------- *)
Definition r5 : registry :=
  mkReg [Some (VFun 0%nat); Some (VNum 1%float); Some (VNum 2%float); Some (VNum 3%float); Some VNil] 5.

Example window_r5 : window_is (arr r5) 1 [VNum 1%float; VNum 2%float; VNum 3%float].
Proof. reflexivity. Qed.

(* OP_RETURN with B = 0 returning the three values into a caller that wants five, at register 0 *)
Example copyReturnValues_open :
  let r' := copyReturnValues (mkReg (arr r5) 4) 0 1 5 0 in
  rtop r' = 5 /\ window_is (arr r') 0 [VNum 1%float; VNum 2%float; VNum 3%float; VNil; VNil].
Proof.
  pose proof (RegFacts.copyReturnValues_spec (mkReg (arr r5) 4) 0 1 5 0 [VNum 1%float; VNum 2%float; VNum 3%float]) as H.
  cbv zeta in *. destruct H as [H1 [H2 _]]; try reflexivity; try (simpl; lia). split; assumption.
Qed.

(* the closed encoding, B = 3 (two values), one wanted *)
Example copyReturnValues_closed :
  window_is (arr (copyReturnValues r5 0 1 1 3)) 0 [VNum 1%float] /\ rd (arr (copyReturnValues r5 0 1 1 3)) 3 = None.
Proof. split; reflexivity. Qed.

Example FillNil_ex : rd (arr (FillNil r5 2 2)) 3 = cNil /\ rd (arr (FillNil r5 2 2)) 4 = None /\ rd (arr (FillNil r5 2 2)) 1 = Some (VNum 1%float).
Proof. repeat split; reflexivity. Qed.

(* frame set-up: a function with 2 parameters, 4 registers, called with 3 arguments; fixed arity
   drops the third, vararg (IsVarArg = 2|1) keeps it below the new LocalBase *)
Example initCallFrame_fixed_ex :
  let '(r', lb') := initCallFrame_regs 2 4 0 3 1 cNil (mkReg (arr r5) 4) in
  lb' = 1 /\ rtop r' = 5 /\ window_is (arr r') 1 [VNum 1%float; VNum 2%float] /\ rd (arr r') 3 = cNil /\ rd (arr r') 4 = cNil.
Proof. vm_compute. repeat split; reflexivity. Qed.

Example initCallFrame_fixed_hyps :
  window_is (arr (mkReg (arr r5) 4)) 1 [VNum 1%float; VNum 2%float; VNum 3%float] /\ Z.land 0 VarArgIsVarArg = 0.
Proof. split; reflexivity. Qed.

Example initCallFrame_vararg_ex :
  let '(r', lb') := initCallFrame_regs 2 4 3 3 1 cNil (mkReg (arr r5) 4) in
  lb' = 4 /\ rtop r' = 8 /\ window_is (arr r') 4 [VNum 1%float; VNum 2%float] /\
  window_is (arr r') 3 [VNum 3%float] /\ rd (arr r') 6 = cNil /\ rd (arr r') 7 = cNil /\ rd (arr r') 0 = Some (VFun 0%nat).
Proof. vm_compute. repeat split; reflexivity. Qed.

Example initCallFrame_vararg_applies :
  let '(r', lb') := initCallFrame_regs 2 4 3 3 1 cNil (mkReg (arr r5) 4) in rtop r' = lb' + 4.
Proof.
  pose proof (RegFacts.initCallFrame_spec 2 4 3 3 1 cNil (mkReg (arr r5) 4) [VNum 1%float; VNum 2%float; VNum 3%float]) as H.
  destruct (initCallFrame_regs 2 4 3 3 1 cNil (mkReg (arr r5) 4)) as [r' lb'].
  apply H; try reflexivity; simpl; lia.
Qed.

(* ---------- upvalues ---------- *)
Definition s_empty : vstate := init_vstate p_ret.

Example empty_inv : state_cache_inv s_empty.
Proof. apply UpvalFacts.empty_cache_inv. reflexivity. Qed.

(* capture registers 3, 1, 3 again, 2: three upvalues, listed in register order 1 2 3 *)
Definition s_caps : vstate := fold_left (fun s o => apply_uvop o s) [OpFind 3; OpFind 1; OpFind 3; OpFind 2] s_empty.

Example caps_list : map (fun u => uv_index (uvat (vuvs s_caps) u)) (vuvcache s_caps) = [1; 2; 3] /\ length (vuvs s_caps) = 3%nat.
Proof. vm_compute. split; reflexivity. Qed.

Example caps_inv : state_cache_inv s_caps.
Proof. apply UpvalFacts.uvcache_sorted_inv. exact empty_inv. Qed.

Example shared_ex : fst (findUpvalue_st 3 s_caps) = 0%nat /\ fst (findUpvalue_st 3 (snd (findUpvalue_st 3 s_empty))) = fst (findUpvalue_st 3 s_empty).
Proof. vm_compute. split; reflexivity. Qed.

(* closing from register 2 upwards: only the upvalue of register 1 stays listed; the others are
   closed and hold what the registers held *)
Definition s_regs : vstate := with_reg s_caps r5.
Example close_ex :
  let s' := closeUpvalues_st 2 s_regs in
  map (fun u => uv_index (uvat (vuvs s') u)) (vuvcache s') = [1] /\
  uvat (vuvs s') 0 = mkUv 3 true (Some (VNum 3%float)) 0%nat /\ uvat (vuvs s') 2 = mkUv 2 true (Some (VNum 2%float)) 0%nat /\
  uv_closed (uvat (vuvs s') 1) = false.
Proof. vm_compute. repeat split; reflexivity. Qed.

Example close_inv_applies : state_cache_inv (closeUpvalues_st 2 s_regs).
Proof. apply UpvalFacts.uvcache_sorted_inv_close. exact caps_inv. Qed.

Example open_alias_ex : uv_read r5 (uvat (vuvs s_regs) 1) = Some (VNum 1%float).
Proof. reflexivity. Qed.

(* ---------- frames ---------- *)
Definition callee : closure := mkCl (XProto [] [] [] 0 0 0 2 [] 0) [] 0%nat.
Definition s_tc : vstate :=
  mkVS (mkReg [Some (VFun 0%nat); Some (VFun 0%nat)] 2)
       [mkFrame (FnLua 0%nat) 1 0 1 0 0 (-1) 0; mkFrame (FnGo BPcall) 0 0 0 0 0 (-1) 0]
       [] [] [callee] [] [] [] None 0%nat [mkTh (mkReg [] 0) [] [] None false false true 0] 0%nat.

Example tailcall_runs :
  exists b s', tailcall_lua (mkFrame (FnLua 0%nat) 1 0 1 0 0 (-1) 0) (FnLua 0%nat) (VFun 0%nat) false 0 1 s_tc = VRet b s'
               /\ length (vstack s') = 2%nat /\ fr_tailcall (hd (mkFrame (FnGo BEmit) 0 0 0 0 0 0 0) (vstack s')) = 1.
Proof. eexists. eexists. split; [vm_compute; reflexivity|]. split; reflexivity. Qed.

Example return_runs :
  exists b s', do_return (mkFrame (FnLua 0%nat) 1 0 1 0 0 (-1) 0) 1 1 None s_tc = VRet b s' /\ length (vstack s') = 1%nat.
Proof. eexists. eexists. split; [vm_compute; reflexivity|reflexivity]. Qed.

Example return_hyps : vstack s_tc <> [] /\ state_cache_inv s_tc /\ not_coroutine_bottom s_tc.
Proof. split; [discriminate|]. split; [apply UpvalFacts.empty_cache_inv; reflexivity|left; reflexivity]. Qed.

(* ---------- tie to C07 ---------- *)
Example wf_p_clo : WfProto.wf_proto (to_proto p_clo) = true.
Proof. vm_compute. reflexivity. Qed.

Definition cl_main : closure := mkCl p_clo [] 0%nat.

Example wf_hyps :
  WfProto.wf_fn (WfTieFacts.fn_of (cl_proto cl_main)) = true /\ closure_ok cl_main /\
  WfFacts.pc_ok (WfTieFacts.fn_of (cl_proto cl_main)) 0 /\
  (exists inst o, zth (xp_code (cl_proto cl_main)) 0 = Some inst /\ op_of_code (opGetOpCode inst) = Some o /\ o = OP_CLOSURE).
Proof.
  split; [vm_compute; reflexivity|]. split; [reflexivity|]. split; [vm_compute; reflexivity|].
  eexists. eexists. split; [vm_compute; reflexivity|]. split; vm_compute; reflexivity.
Qed.

(* ---------- a validated program ---------- *)
Definition c_swap : vcase := VProg [SLocal 1 [[97]; [98]] [(ENum 0x1p+0%float); (ENum 0x1p+1%float)]; SAssign 2 [(EVar [97]); (EVar [98])] [(EVar [98]); (EVar [97])]; SCall 3 (ECall (EVar [101;109;105;116]) [(EVar [97]); (EVar [98])]); SLocal 4 [[120]; [121]; [122]] [(ENum 0x1p+0%float); (ENum 0x1p+1%float); (ENum 0x1.8p+1%float)]; SAssign 5 [(EVar [120]); (EVar [121]); (EVar [122])] [(EVar [122]); (EVar [120]); (EVar [121])]; SCall 6 (ECall (EVar [101;109;105;116]) [(EVar [120]); (EVar [121]); (EVar [122])]); SLocal 7 [[109]; [110]] [(ENum 0x1p+0%float); (ENum 0x1p+1%float)]; SAssign 8 [(EVar [109]); (EVar [110])] [(EVar [110]); (EBin OAdd (EVar [109]) (ENum 0%float))]; SCall 9 (ECall (EVar [101;109;105;116]) [(EVar [109]); (EVar [110])])] (XProto (w63 [134217728;134479873;67634689;786432;262147;2;403177474;67895808;1048577;2080899587;134742016;135004161;135266307;68422148;1572866;1835011;1048583;786438;524293;403963906;68682754;1835011;2097156;2081686020;135528448;135790593;1835014;1008863237;68682248;1310727;404488194;69206533;2359302;2082210307;2214592513]%uint63) [VNum 0x1p+0%float; VNum 0x1p+1%float; VStr [101;109;105;116]; VNum 0x1.8p+1%float; VNum 0%float] [] 0 0 7 10 [1;1;2;2;2;2;3;3;3;3;4;4;4;5;5;5;5;5;5;6;6;6;6;6;7;7;8;8;8;8;9;9;9;9;10] 0) (Outcome [[ONum 0x1p+1%float; ONum 0x1p+0%float]; [ONum 0x1.8p+1%float; ONum 0x1p+0%float; ONum 0x1p+1%float]; [ONum 0x1p+1%float; ONum 0x1p+0%float]] (OOk [])).

Example c_swap_checks : check_skip c_swap = false /\ check_spec c_swap = true /\ check_impl c_swap = true /\ check_vmskip c_swap = false.
Proof. vm_compute. repeat split; reflexivity. Qed.

(* ---------- coroutines ---------- *)
(* local co = coroutine.wrap(function(a) local b = coroutine.yield(a + 1); return a + b end); emit(co(1), co(10)) *)
Example coroutine_state : get_thread s_tc 0 = mkTh (vreg s_tc) (vstack s_tc) [] None false false true 0.
Proof. reflexivity. Qed.

(* PCall's recovery with base = 2 on the state with three open upvalues (registers 1, 2, 3) *)
Example unwind_ex :
  let s' := unwind 0 2 (with_stack s_regs (vstack s_tc)) in
  map (fun u => uv_index (uvat (vuvs s') u)) (vuvcache s') = [1] /\ rtop (vreg s') = 2 /\ vstack s' = [].
Proof. vm_compute. repeat split; reflexivity. Qed.

Example unwind_hyp : state_cache_inv (with_stack s_regs (vstack s_tc)).
Proof. exact caps_inv. Qed.
