(* C06 — non-vacuity: the invariant and the hypotheses of the theorems on concrete states. *)
From Coq Require Import Floats Lia.
From GL Require Import Common.Bytes Lua.Syntax Lua.Num Lua.Values Lua.Names Lua.Eval Lua.Run
  Lua.MonadFacts Lua.EvalStepFacts Lua.DriveFacts.

(* six coroutines: main resumed 0, 0 resumed 1, 1 resumed 2 (running); 3 is suspended, 4 dead,
   5 not started: a three-frame resumer stack *)
Definition s3 : state :=
  with_cur (with_cos (init_state no_devs []) [CoNorm; CoNorm; CoRun; CoSusp; CoDead; CoInit (VBuiltin BCoRunning)])
           (Some 2%nat).
Definition ws3 : list (option nat) := [Some 1%nat; Some 0%nat; None].

Example ex_co_wf : co_wf s3 ws3.
Proof.
  exists [2; 1; 0]%nat. split; [reflexivity|]. split.
  { repeat constructor; simpl; intuition discriminate. }
  split. { simpl. intros i [<-|[<-|[<-|[]]]]; lia. }
  split; intros i; destruct i as [|[|[|[|[|[|i]]]]]]; unfold status, ws3; simpl;
    try (destruct i); split; intros H; try discriminate; try reflexivity;
    try (inversion H; fail); auto;
    try (destruct H as [H|[H|[H|[]]]]; discriminate).
Qed.

(* resume of the suspended coroutine 3 keeps the invariant with a four-frame chain *)
Example ex_resume_keeps : co_wf (st_resume s3 3) (Some 2%nat :: ws3).
Proof. apply (co_wf_resume_lemma s3 ws3 3 ex_co_wf). right. reflexivity. Qed.

(* ... and resume of the not yet started coroutine 5 *)
Example ex_resume_init_keeps : co_wf (st_resume s3 5) (Some 2%nat :: ws3).
Proof. apply (co_wf_resume_lemma s3 ws3 5 ex_co_wf). left. eexists. reflexivity. Qed.

(* the running coroutine returns / fails: back to 1 with a two-frame chain; only 2 died *)
Example ex_finish_keeps : co_wf (st_finish s3 (Some 1%nat)) [Some 0%nat; None].
Proof. apply co_wf_finish_lemma. exact ex_co_wf. Qed.

Example ex_finish_statuses :
  map (status (st_finish s3 (Some 1%nat))) [0; 1; 2; 3; 4]%nat = [CoNorm; CoRun; CoDead; CoSusp; CoDead].
Proof. reflexivity. Qed.

Example ex_yield_keeps : co_wf (st_yield s3 2 (Some 1%nat)) [Some 0%nat; None].
Proof. apply co_wf_yield_lemma; [exact ex_co_wf|reflexivity]. Qed.

Example ex_error_kills_only_that :
  status (st_finish s3 (Some 1%nat)) 2 = CoDead /\
  (forall i, i <> 2%nat -> Some i <> Some 1%nat -> status (st_finish s3 (Some 1%nat)) i = status s3 i) /\
  cells (st_finish s3 (Some 1%nat)) = cells s3.
Proof.
  destruct (error_kills_only_that_lemma 0 [] (Some 1%nat) [] VNil s3 2 [Some 0%nat; None] ex_co_wf eq_refl)
    as [_ [_ [H1 [H2 [_ [_ [H3 _]]]]]]].
  auto.
Qed.

(* resuming any member of the chain, a dead one, or oneself: (false, msg), nothing changes *)
Example ex_resume_normal : builtin_call 3 [] BCoResume [VCo 0; VNil] s3 = Ret [VBool false; VFault 9 0] s3.
Proof. apply (resume_chain_no_effect_lemma 2 [] 0 [VNil] s3 ws3 ex_co_wf). right. right. left. reflexivity. Qed.

Example ex_resume_self : builtin_call 3 [] BCoResume [VCo 2] s3 = Ret [VBool false; VFault 9 0] s3.
Proof. apply (resume_chain_no_effect_lemma 2 [] 2 [] s3 ws3 ex_co_wf). left. reflexivity. Qed.

Example ex_resume_dead : builtin_call 3 [] BCoResume [VCo 4; VBool true] s3 = Ret [VBool false; VFault 8 0] s3.
Proof. apply resume_dead_no_effect_lemma. reflexivity. Qed.

(* a whole program through the driver: values go in and out unchanged, in order and number
     local co = coroutine.create(function(a, b) local c = coroutine.yield(a + b); emit(c); return 7, 8 end)
     emit(coroutine.resume(co, 1, 2)); emit(coroutine.resume(co, 10)); emit(coroutine.resume(co))
     emit(coroutine.status(co)) *)
Definition n_co : bytes := [99;111]. Definition n_a : bytes := [97]. Definition n_b : bytes := [98].
Definition n_c : bytes := [99].
Definition cofield (f : bytes) : expr := EIndex (EVar s_coroutine) (EStr f).
Definition prog : list stmt :=
  [SLocal 1 [n_co] [ECall (cofield s_create)
     [EFunc [n_a; n_b] false
        [SLocal 2 [n_c] [ECall (cofield s_yield) [EBin OAdd (EVar n_a) (EVar n_b)]];
         SCall 3 (ECall (EVar s_emit) [EVar n_c]);
         SReturn 4 [ENum 7%float; ENum 8%float]] 1 4]];
   SCall 5 (ECall (EVar s_emit) [ECall (cofield s_resume) [EVar n_co; ENum 1%float; ENum 2%float]]);
   SCall 6 (ECall (EVar s_emit) [ECall (cofield s_resume) [EVar n_co; ENum 10%float]]);
   SCall 7 (ECall (EVar s_emit) [ECall (cofield s_resume) [EVar n_co]]);
   SCall 8 (ECall (EVar s_emit) [ECall (cofield s_status) [EVar n_co]])].

Example ex_program_transfer :
  match run_program 200 no_devs prog with FinOk _ s => trace s | _ => [] end =
  [[VBool true; VNum 3%float]; [VNum 10%float]; [VBool true; VNum 7%float; VNum 8%float];
   [VBool false; VFault 8 0]; [VStr s_dead]].
Proof. vm_compute. reflexivity. Qed.

Example ex_program_not_stuck : ~ stuck (run_program 200 no_devs prog).
Proof. vm_compute. tauto. Qed.
