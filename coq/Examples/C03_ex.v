(* C03 — non-vacuity: closures over loop variables, shared upvalues, setfenv. *)
From Coq Require Import Floats Lia.
From GL Require Import Common.Bytes Lua.Syntax Lua.Num Lua.Values Lua.Names Lua.Eval Lua.Run
  Lua.ValuesFacts Lua.MonadFacts Lua.EvalStepFacts Lua.CallFacts Lua.ClosureFacts.

Definition n_i : bytes := [105]. Definition n_x : bytes := [120]. Definition n_g : bytes := [103].
Definition n_fs : bytes := [102;115]. Definition n_get : bytes := [103;101;116]. Definition n_set : bytes := [115;101;116].
Notation num z := (VNum (f_of_Z z)).
Notation enum z := (ENum (f_of_Z z)).

Definition st : state :=
  let s := init_state no_devs [] in with_cells s [VBool true; num 5].
Definition cx0 : ctx := mkCtx [] [] 0.
Definition en0 : env := [(n_x, 1%nat)].

(* closure_captures_env: `function() return x end` in environment en0 captures cell 1 itself *)
Example ex_capture :
  c_env (clo_of (with_clos st (clos st ++ [mkClo [] false [SReturn 1 [EVar n_x]] en0 0 1 false])) 1) = en0 /\
  eval_e 3 cx0 1 en0 (EFunc [] false [SReturn 1 [EVar n_x]] 1 1) st =
    Ret (VFun 1) (with_clos st (clos st ++ [mkClo [] false [SReturn 1 [EVar n_x]] en0 0 1 false])).
Proof.
  destruct (closure_captures_env_lemma 2 cx0 1 en0 [] false [SReturn 1 [EVar n_x]] 1 1 st) as [H [_ [H2 _]]].
  split; [exact H2|exact H].
Qed.

(* numeric for: the hypothesis holds, the fresh cell is cell 2 *)
Example ex_numfor_hyp : numfor_continues (f_of_Z 1) (f_of_Z 3) (f_of_Z 1) = true.
Proof. vm_compute. reflexivity. Qed.
Example ex_numfor_fresh :
  ~ (length (cells st) < length (cells st))%nat /\
  nth (length (cells st)) (cells (with_cells st (cells st ++ [VNum (f_of_Z 1)]))) VNil = num 1.
Proof.
  destruct (numfor_fresh_cell_lemma 5 cx0 en0 n_i (f_of_Z 1) (f_of_Z 3) (f_of_Z 1) [] st ex_numfor_hyp)
    as [_ [H1 [H2 _]]]. split; assumption.
Qed.

(* whole programs:
   local fs = {}
   for i = 1, 3 do fs[i] = function() return i end end
   emit(fs[1](), fs[2](), fs[3]())                       --> 1 2 3 (a fresh i per iteration)
   local get, set; do local x = 10; get = function() return x end; set = function(v) x = v end end
   set(42); emit(get())                                  --> 42 (the two closures share x)
   local ok = pcall(function() set(7); error("e") end); emit(ok, get())   --> false 7 *)
Definition n_v : bytes := [118]. Definition n_ok : bytes := [111;107].
Definition callv (f : expr) (args : list expr) := ECall f args.
Definition prog : list stmt :=
  [SLocal 1 [n_fs] [ETable []];
   SNumFor 2 n_i (enum 1) (enum 3) None
     [SAssign 2 [EIndex (EVar n_fs) (EVar n_i)] [EFunc [] false [SReturn 2 [EVar n_i]] 2 2]];
   SCall 3 (callv (EVar s_emit) [callv (EIndex (EVar n_fs) (enum 1)) []; callv (EIndex (EVar n_fs) (enum 2)) [];
                                 callv (EIndex (EVar n_fs) (enum 3)) []]);
   SLocal 4 [n_get; n_set] [];
   SDo [SLocal 4 [n_x] [enum 10];
        SAssign 4 [EVar n_get] [EFunc [] false [SReturn 4 [EVar n_x]] 4 4];
        SAssign 4 [EVar n_set] [EFunc [n_v] false [SAssign 4 [EVar n_x] [EVar n_v]] 4 4]];
   SCall 5 (callv (EVar n_set) [enum 42]);
   SCall 5 (callv (EVar s_emit) [callv (EVar n_get) []]);
   SLocal 6 [n_ok] [callv (EVar s_pcall)
      [EFunc [] false [SCall 6 (callv (EVar n_set) [enum 7]); SCall 6 (callv (EVar s_error) [EStr [101]])] 6 6]];
   SCall 6 (callv (EVar s_emit) [EVar n_ok; callv (EVar n_get) []])].

Example ex_program :
  match run_program 200 no_devs prog with FinOk _ s => trace s | _ => [] end =
  [[num 1; num 2; num 3]; [num 42]; [VBool false; num 7]].
Proof. vm_compute. reflexivity. Qed.

(* setfenv: closure 0 (the main chunk) gets table 1 as environment; only it changes *)
Example ex_setfenv :
  builtin_call 3 [] BSetFenv [VFun 0; VTab 1] st = Ret [VFun 0] (with_clos st (set_nth (clos st) 0 (set_fenv_clo (clo_of st 0) 1))) /\
  c_fenv (clo_of (with_clos st (set_nth (clos st) 0 (set_fenv_clo (clo_of st 0) 1))) 0) = 1%nat.
Proof.
  destruct (setfenv_changes_only_that_lemma 2 [] 0 1 [] st) as [H [H2 _]]. split; [exact H|].
  rewrite H2 by (simpl; lia). reflexivity.
Qed.

Example ex_setfenv_then_global : exists s',
  builtin_call 3 [] BSetFenv [VFun 0; VTab 1] st = Ret [VFun 0] s' /\
  eval_e 5 cx0 1 [] (EVar s_yield) s' = Ret (VBuiltin BCoYield) s'.
Proof.
  destruct (setfenv_then_global_lemma 2 4 [] 0 1 [] st cx0 1 [] s_yield) as [s' [H1 H2]];
    [simpl; lia|reflexivity|reflexivity|].
  exists s'. split; [exact H1|]. rewrite H2.
  assert (Hs : s' = with_clos st (set_nth (clos st) 0 (set_fenv_clo (clo_of st 0) 1))).
  { destruct (setfenv_changes_only_that_lemma 2 [] 0 1 [] st) as [H _]. rewrite H in H1. inversion H1. reflexivity. }
  subst s'. vm_compute. reflexivity.
Qed.

(* ---- tables of globals of threads (coq/Fenv; wave 5) ---- *)
From GL Require Import Fenv.FenvModel Fenv.FenvFacts.
Open Scope Z_scope.

Definition env_inspect : list op := [OGetT; OGetSelf; ORead 0; OLoad 2 [OGetSelf; ORead 0]; OCall 2].
Definition env_script : list op :=
  [OWrite 0 100; OSetT 1; OClosure 1 env_inspect; OCoCreate 1 1 false; OSetT 2; OCoResume 1; OGetT; OGetCo 1].

(* the coroutine created while the table of globals was T1 still sees T1 after the creator moved on
   to T2 (getfenv(0) = 1, the chunk it loads gets 1 and finds no gx there); its body, a closure of
   the main chunk, keeps the main chunk's environment (0, where gx = 100) *)
Example ex_env_run : env_run 100 3 env_script [OGetT] = Some [1; 0; 100; 1; -1; 2; 1; 2].
Proof. vm_compute. reflexivity. Qed.

(* the state just before the coroutine is created satisfies the hypotheses of
   thread_env_inherited_at_creation / setfenv0_only_this_thread, and the conclusions are the concrete facts *)
Definition env_s3 : FenvModel.st :=
  simple_step main_ctx (OClosure 1 env_inspect) (simple_step main_ctx (OSetT 1) (simple_step main_ctx (OWrite 0 100) (env_init 3 env_script))).

Example ex_env_create_hyps :
  aget (s_F env_s3) 1 = Some 1%nat /\ (c_th main_ctx < length (s_ths env_s3))%nat.
Proof. split; [reflexivity | vm_compute; lia]. Qed.

Example ex_env_create :
  let s' := simple_step main_ctx (OCoCreate 1 1 false) env_s3 in
  aget (s_C s') 1 = Some 1%nat /\ t_env (getth s' 1) = 1%nat /\
  t_env (getth (simple_step main_ctx (OSetT 2) s') 1) = 1%nat /\
  t_env (getth (simple_step main_ctx (OSetT 2) s') 0) = 2%nat.
Proof.
  intros s'.
  destruct (cocreate_inherits_creator_env main_ctx env_s3 1 1 false 1 eq_refl) as (H1 & H2 & _).
  destruct (setT_only_this_thread main_ctx s' 2) as (A & B & _); [vm_compute; lia|].
  split; [exact H1|]. split; [exact (f_equal t_env H2)|].
  split; [rewrite (B 1%nat) by discriminate; exact (f_equal t_env H2) | exact A].
Qed.

Example ex_env_extends : forall s', env_exec 100 main_ctx env_script (env_init 3 env_script) = Some s' ->
  f_body (getfn s' 0) = env_script /\ t_fn (getth s' 0) = 0%nat.
Proof.
  intros s' H. destruct (exec_extends _ _ _ _ _ H) as (_ & _ & Hb & Ht).
  split; [apply (Hb 0%nat); simpl; lia | apply (Ht 0%nat); simpl; lia].
Qed.
