(* C05 — non-vacuity: the hypotheses of the theorems hold on concrete, non-trivial states. *)
From Coq Require Import Floats.
From GL Require Import Common.Bytes Lua.Syntax Lua.Num Lua.Values Lua.Names Lua.Eval Lua.Run
  Lua.MonadFacts Lua.EvalStepFacts Lua.CatchFacts Lua.DriveFacts Lua.EvalInvFacts Lua.DriveRunFacts.

(* closures: 1 = function() emit(1); error({}) end        (raises a table)
             2 = function(e) emit(e); return 7, 8 end      (xpcall handler with two results)
             3 = function() local x = coroutine.yield(1); error(x) end
             4 = function() return 1, 2, 3 end *)
Definition x_name : bytes := [120].
Definition e_name : bytes := [101].
Definition clo1 := mkClo [] false
  [SCall 1 (ECall (EVar s_emit) [ENum 1%float]); SCall 2 (ECall (EVar s_error) [ETable []])] [] 0 1 false.
Definition clo2 := mkClo [e_name] false
  [SCall 3 (ECall (EVar s_emit) [EVar e_name]); SReturn 3 [ENum 7%float; ENum 8%float]] [] 0 3 false.
Definition clo3 := mkClo [] false
  [SLocal 4 [x_name] [ECall (EIndex (EVar s_coroutine) (EStr s_yield)) [ENum 1%float]];
   SCall 5 (ECall (EVar s_error) [EVar x_name])] [] 0 4 false.
Definition clo4 := mkClo [] false [SReturn 6 [ENum 1%float; ENum 2%float; ENum 3%float]] [] 0 6 false.

Definition st0 : state :=
  let s := init_state no_devs [] in with_clos s (clos s ++ [clo1; clo2; clo3; clo4]).
(* the same inside a running coroutine 0 resumed from the main thread *)
Definition st_co : state := with_cur (with_cos st0 [CoRun]) (Some 0%nat).

Definition fr0 : list frame := [(Some 9, Some 0%nat)].

(* pcall_delivers_error: the callee fails with a table after a side effect *)
Example ex_callee_fails : exists s1, call 40 (pframes fr0) (VFun 1) [] st0 = Err (VTab 6) s1 /\ trace s1 = [[VNum 1%float]].
Proof. eexists. split; vm_compute; reflexivity. Qed.

Example ex_pcall_delivers_error : exists s1,
  builtin_call 41 fr0 BPcall [VFun 1] st0 = Ret [VBool false; VTab 6] s1 /\ trace s1 = [[VNum 1%float]].
Proof.
  destruct ex_callee_fails as [s1 [H T]]. exists s1. split; auto. apply pcall_of_err_lemma. exact H.
Qed.

Example ex_pcall_delivers_results :
  builtin_call 41 fr0 BPcall [VFun 4] st0 = Ret [VBool true; VNum 1%float; VNum 2%float; VNum 3%float] st0.
Proof. apply pcall_of_ret_lemma. vm_compute. reflexivity. Qed.

(* xpcall: error value reaches the handler (which emits it), first handler result delivered *)
Definition xs1 : state := match call 40 (pframes fr0) (VFun 1) [] st0 with Err _ s => s | _ => st0 end.
Definition xs2 : state := match call 40 (pframes fr0) (VFun 2) [VTab 6] xs1 with Ret _ s => s | _ => st0 end.

Example ex_xpcall_hyp1 : call 40 (pframes fr0) (nth 0 [VFun 1; VFun 2] VNil) [] st0 = Err (VTab 6) xs1.
Proof. vm_compute. reflexivity. Qed.
Example ex_xpcall_hyp2 :
  call 40 (pframes fr0) (nth 1 [VFun 1; VFun 2] VNil) [VTab 6] xs1 = Ret [VNum 7%float; VNum 8%float] xs2.
Proof. vm_compute. reflexivity. Qed.
Example ex_xpcall :
  builtin_call 41 fr0 BXpcall [VFun 1; VFun 2] st0 = Ret [VBool false; VNum 7%float] xs2 /\
  trace xs2 = [[VNum 1%float]; [VTab 6]].
Proof.
  split; [|vm_compute; reflexivity].
  exact (xpcall_of_err_ret_lemma 40 fr0 [VFun 1; VFun 2] st0 (VTab 6) xs1 [VNum 7%float; VNum 8%float] xs2
           ex_xpcall_hyp1 ex_xpcall_hyp2).
Qed.

(* the handler of xpcall_contains: closure 2 never fails on any argument in this state *)
Example ex_handler_total : never_err (call 40 (pframes fr0) (VFun 2) [VBool true] st0).
Proof. vm_compute. constructor. Qed.

(* a protected call that yields, is resumed with a string, and then fails: the leaf is reached
   along a one-reply path and pcall turns it into (false, "boom") *)
Definition boom : bytes := [98;111;111;109].
Definition first_effect {A} (r : res A) : option effect := match r with Eff e _ _ => Some e | _ => None end.

Example ex_yield_first : first_effect (call 40 (pframes fr0) (VFun 3) [] st_co) = Some (EYield [VNum 1%float]).
Proof. vm_compute. reflexivity. Qed.

Definition ys1 : state :=
  match follow (call 40 (pframes fr0) (VFun 3) [] st_co) [(RVals [VStr boom], st_co)] with
  | Some (Err _ s) => s | _ => st0 end.

Example ex_yield_then_error :
  leaf (call 40 (pframes fr0) (VFun 3) [] st_co) [(RVals [VStr boom], st_co)] (Err (VStr (pos_prefix 5 ++ boom)) ys1).
Proof. apply follow_leaf_lemma; [vm_compute; reflexivity|reflexivity]. Qed.

Example ex_pcall_after_yield : exists x,
  leaf (builtin_call 41 fr0 BPcall [VFun 3] st_co) [(RVals [VStr boom], st_co)] x /\
  x = Ret [VBool false; VStr (pos_prefix 5 ++ boom)] ys1.
Proof. apply pcall_leaf_err_lemma. exact ex_yield_then_error. Qed.

(* error(): a table, a boolean and nil are raised unchanged at level 1 and 2 *)
Example ex_error_table : builtin_call 5 fr0 BError [VTab 0; vint 2] st0 = Err (VTab 0) st0.
Proof. eapply error_value_any_type_lemma; [exact I|vm_compute; reflexivity]. Qed.

Example ex_error_nil : builtin_call 5 fr0 BError [] st0 = Err VNil st0.
Proof. eapply (error_value_any_type_lemma 4 fr0 [] st0); [exact I|vm_compute; reflexivity]. Qed.

Example ex_error_level0 : builtin_call 5 fr0 BError [VStr boom; vint 0] st0 = Err (VStr boom) st0.
Proof. eapply error_level0_lemma; [vm_compute; reflexivity| |exact I]. vm_compute. discriminate. Qed.

Example ex_error_level1 : builtin_call 5 fr0 BError [VStr boom] st0 = Err (VStr (pos_prefix 9 ++ boom)) st0.
Proof. apply error_string_level1_lemma. Qed.

(* the failed call's emission extends the trace that existed before it *)
Definition st1 : state := with_trace st0 [[VBool true]].
Example ex_trace_extends : exists s1 ext,
  call 40 (pframes fr0) (VFun 1) [] st1 = Err (VTab 6) s1 /\ trace s1 = trace st1 ++ ext /\ ext = [[VNum 1%float]].
Proof.
  assert (H : exists s1, call 40 (pframes fr0) (VFun 1) [] st1 = Err (VTab 6) s1 /\ trace s1 = [[VBool true]; [VNum 1%float]]).
  { eexists. split; vm_compute; reflexivity. }
  destruct H as [s1 [H T]]. destruct (call_trace_extends_lemma 40 (pframes fr0) (VFun 1) [] st1 (VTab 6) s1 (or_introl H)) as [ext He].
  exists s1, ext. split; auto. split; auto. rewrite T in He. simpl in He. inversion He. reflexivity.
Qed.

(* ---------- the two-run law of fault injection ----------
   program:  emit(1)
             local ok = pcall(function() emit(2); emit(3) end)
             emit(ok)
             local co = coroutine.wrap(function() emit(5); coroutine.yield(); emit(6) end)
             co(); emit(4); co()
   fault-free trace: 1 | 2 | 3 | true | 5 | 4 | 6
   k = 3 (third emit fails inside the pcall): 1 | 2 | <marker> | false | 5 | 4 | 6  -> 2 common rows
   k = 6 (sixth emit, in the main chunk after a yield): first 5 rows common, the run ends in an error *)
From GL Require Import Lua.FaultFacts Lua.FaultStepFacts Lua.FaultRunFacts.
Definition n_ok : bytes := [111;107]. Definition n_co : bytes := [99;111].
Definition emit1 (ln : Z) (e : expr) : stmt := SCall ln (ECall (EVar s_emit) [e]).
Definition fprog : list stmt :=
  [emit1 1 (ENum 1%float);
   SLocal 2 [n_ok] [ECall (EVar s_pcall)
      [EFunc [] false [emit1 2 (ENum 2%float); emit1 2 (ENum 3%float)] 2 2]];
   emit1 3 (EVar n_ok);
   SLocal 4 [n_co] [ECall (EIndex (EVar s_coroutine) (EStr s_wrap))
      [EFunc [] false [emit1 4 (ENum 5%float); SCall 4 (ECall (EIndex (EVar s_coroutine) (EStr s_yield)) []);
                       emit1 4 (ENum 6%float)] 4 4]];
   SCall 5 (ECall (EVar n_co) []); emit1 5 (ENum 4%float); SCall 5 (ECall (EVar n_co) [])].

Definition fin_trace (f : fin) : list (list value) :=
  match fin_state f with Some s => trace s | None => [] end.

Example ex_fault_free : fin_trace (run_program 200 no_devs fprog) =
  [[VNum 1%float]; [VNum 2%float]; [VNum 3%float]; [VBool true]; [VNum 5%float]; [VNum 4%float]; [VNum 6%float]].
Proof. vm_compute. reflexivity. Qed.

Example ex_fault_3 : fin_trace (run_program 200 (with_fault no_devs 3) fprog) =
  [[VNum 1%float]; [VNum 2%float]; [VFault 99 0]; [VBool false]; [VNum 5%float]; [VNum 4%float]; [VNum 6%float]].
Proof. vm_compute. reflexivity. Qed.

Example ex_fault_6 : fin_trace (run_program 200 (with_fault no_devs 6) fprog) =
  [[VNum 1%float]; [VNum 2%float]; [VNum 3%float]; [VBool true]; [VNum 5%float]; [VFault 99 0]].
Proof. vm_compute. reflexivity. Qed.

(* the hypotheses of fault_prefix hold (both runs end with a state) and its conclusion, obtained
   from the theorem, is the equation one reads off the three traces above *)
Definition fs_a : state := match fin_state (run_program 200 no_devs fprog) with Some s => s | None => st0 end.
Definition fs_3 : state := match fin_state (run_program 200 (with_fault no_devs 3) fprog) with Some s => s | None => st0 end.
Definition fs_6 : state := match fin_state (run_program 200 (with_fault no_devs 6) fprog) with Some s => s | None => st0 end.

Example ex_fault_hyp_a : fin_state (run_program 200 no_devs fprog) = Some fs_a. Proof. vm_compute. reflexivity. Qed.
Example ex_fault_hyp_3 : fin_state (run_program 200 (with_fault no_devs 3) fprog) = Some fs_3. Proof. vm_compute. reflexivity. Qed.
Example ex_fault_hyp_6 : fin_state (run_program 200 (with_fault no_devs 6) fprog) = Some fs_6. Proof. vm_compute. reflexivity. Qed.

Example ex_fault_prefix_3 : firstn 2 (trace fs_3) = firstn 2 (trace fs_a).
Proof. exact (fault_prefix_lemma 200 no_devs 3 fprog fs_a fs_3 eq_refl eq_refl ex_fault_hyp_a ex_fault_hyp_3). Qed.

Example ex_fault_prefix_6 : firstn 5 (trace fs_6) = firstn 5 (trace fs_a).
Proof. exact (fault_prefix_lemma 200 no_devs 6 fprog fs_a fs_6 eq_refl eq_refl ex_fault_hyp_a ex_fault_hyp_6). Qed.

Example ex_fault_prefix_3_rows : firstn 2 (trace fs_3) = [[VNum 1%float]; [VNum 2%float]].
Proof. vm_compute. reflexivity. Qed.

(* the law is sharp: row k itself differs (the marker), and later rows may differ too *)
Example ex_fault_row_k_differs : nth 2 (trace fs_3) [] <> nth 2 (trace fs_a) [].
Proof. vm_compute. discriminate. Qed.
