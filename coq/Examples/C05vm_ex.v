(* C05 — non-vacuity of the M-VM PCall theorems: a prototype dumped from the real compiler for
     local function f() local t = nil; return t.x end  f()
   fails two frames deep; the hypotheses of vm_PCall_nohandler_restores hold on it. *)
From Coq Require Import Uint63 Floats List ZArith.
From GL Require Import Common.Bytes Lua.Syntax Lua.Values Lua.Run VMX.Machine VMX.Step VMX.VRun VMX.VmCases VMX.PCallFacts VMX.PCallDepthFacts.
Import ListNotations.
Open Scope Z_scope.

Definition p_err : xproto := (XProto (w63 [2617245696;262144;2080637441;2214592513]%uint63) [] [(XProto (w63 [268435456;537264128;2214854658;2214592513]%uint63) [VStr [120]] [] 0 0 0 2 [2;3;3;4] 1)] 0 0 7 2 [1;5;5;6] 0).

Definition s_start : vstate := init_vstate p_err.

Example call_fails_deeper :
  match Call (mainLoop 100) 0 MultRet s_start with
  | VErr e sf => (length (vstack s_start) <=? length (vstack sf))%nat = true /\ (length (vstack s_start) <? length (vstack sf))%nat = true
  | _ => False
  end.
Proof. vm_compute. split; reflexivity. Qed.

Example pcall_restores_here :
  match PCall (mainLoop 100) 0 MultRet None s_start with
  | VRet (Some e) s' => length (vstack s') = length (vstack s_start) /\ rtop (vreg s') = rtop (vreg s_start) - 0 - 1
  | _ => False
  end.
Proof. vm_compute. split; reflexivity. Qed.

Example nohandler_theorem_applies : exists e s',
  PCall (mainLoop 100) 0 MultRet None s_start = VRet (Some e) s' /\ length (vstack s') = length (vstack s_start).
Proof.
  destruct (Call (mainLoop 100) 0 MultRet s_start) as [u s1|e sf| |c] eqn:HC;
    try (exfalso; revert HC; vm_compute; discriminate).
  assert (HL : (length (vstack s_start) <= length (vstack sf))%nat).
  { pose proof call_fails_deeper as H. rewrite HC in H. destruct H as [H _]. apply Nat.leb_le. exact H. }
  destruct (PCall_nohandler_restores (mainLoop 100) 0 MultRet s_start e sf HC HL) as [s' [A [B _]]].
  exists e, s'. split; assumption.
Qed.

(* ---- wave 5: the C-call depth theorems are not vacuous on the same program ---- *)

(* the failing state is one call from Go deeper than the caller, and its running thread is in the table *)
Example call_fails_one_ccall_deeper :
  match Call (mainLoop 100) 0 MultRet s_start with
  | VErr e sf => cur_nccalls sf = cur_nccalls s_start + 1 /\ (vcur sf <? length (vthreads sf))%nat = true
  | _ => False
  end.
Proof. vm_compute. split; reflexivity. Qed.

Example nohandler_ccalls_theorem_applies : exists e s',
  PCall (mainLoop 100) 0 MultRet None s_start = VRet (Some e) s' /\ cur_nccalls s' = cur_nccalls s_start.
Proof.
  destruct (Call (mainLoop 100) 0 MultRet s_start) as [u s1|e sf| |c] eqn:HC;
    try (exfalso; revert HC; vm_compute; discriminate).
  assert (Hok : cur_ok sf).
  { pose proof call_fails_one_ccall_deeper as H. rewrite HC in H. destruct H as [_ H]. apply Nat.ltb_lt. exact H. }
  destruct (PCall_nohandler_ccalls (mainLoop 100) 0 MultRet s_start e sf HC Hok) as [s' [A [B _]]].
  exists e, s'. split; assumption.
Qed.

(* a handler (the host function type) runs and its result is what the protected call delivers; the
   depth is back at the caller's *)
Example handler_runs_and_delivers :
  match PCall (mainLoop 100) 0 MultRet (Some (VBuiltin BType)) s_start with
  | VRet (Some v) s' => v = VStr [115; 116; 114; 105; 110; 103] /\ cur_nccalls s' = cur_nccalls s_start /\ length (vstack s') = length (vstack s_start)
  | _ => False
  end.
Proof. vm_compute. repeat split. Qed.
