(* C17 — non-vacuity: concrete instances of the hypotheses of the theorems. *)
From GL Require Import Common.Bytes Dbg.Lines Dbg.LinesFacts Dbg.Layout Dbg.LayoutFacts
  Dbg.Scope Dbg.ScopeFacts Dbg.DbgLocals Dbg.DbgLocalsFacts Dbg.ScanLines.
From GL Require Front.Lexer.

(* local x = [[a<CR><LF>b]] .. n   with a comment line and a blank CRLF line before `..` *)
Definition ex_toks : list token :=
  [[108;111;99;97;108]; [120]; [61]; [91;91;97;13;10;98;93;93]; [46;46]; [110]].
Definition ex_lay : layout :=
  [[]; [32]; [32]; [10;32]; [32;45;45;99;13;10;13;10]; [13]].
Definition ex_lay' : layout :=
  [[]; [32]; [10;13;10]; [10;32]; [32;45;45;99;13;10;13;10]; [13]].

Example ex_toks_ok : Forall tok_ok ex_toks.
Proof. repeat constructor; simpl; congruence. Qed.

Example ex_lines : map (tok_line ex_toks ex_lay) [0;1;2;3;4;5]%nat = [1;1;1;2;5;6].
Proof. reflexivity. Qed.

Example ex_same_except : same_except ex_lay ex_lay' 2.
Proof. split; [reflexivity|]. intros j Hj. do 6 (destruct j as [|j]; [try reflexivity; lia|]). destruct j; reflexivity. Qed.

Example ex_shift : map (tok_line ex_toks ex_lay') [0;1;2;3;4;5]%nat = [1;1;3;4;7;8].
Proof. reflexivity. Qed.

(* the statement [0,5] spans lines 1..6; the long string token alone spans 2..3 *)
Example ex_range : admissible ex_toks ex_lay (0, 5) = (1, 6) /\ admissible ex_toks ex_lay (3, 3) = (2, 3).
Proof. split; reflexivity. Qed.

Example ex_single_line : fst (admissible ex_toks ex_lay (0, 2)) = snd (admissible ex_toks ex_lay (0, 2)).
Proof. reflexivity. Qed.

Example ex_spans_wf : spans_wf 0 (len (render ex_toks ex_lay)) [(0,5);(6,1);(8,1);(11,8);(27,2);(30,1)].
Proof. vm_compute. repeat split; intro H; discriminate H. Qed.

Example ex_span_lines : span_lines (render ex_toks ex_lay) [(0,5);(6,1);(8,1);(11,8);(27,2);(30,1)] = [(1,1);(1,1);(1,1);(2,3);(5,5);(6,6)].
Proof. reflexivity. Qed.

(* the scanner on  local x --[==<CR><LF>= 1   against   local x = 1  : the cut-short opener
   "--[==" ended by CRLF is a line comment, one newline sequence, and moves `=` and `1` by one *)
Definition sc_toks : list token := [[108;111;99;97;108]; [120]; [61]; [49]].
Definition sc_lay : layout := [[]; [32]; [32]; [32]].
Definition sc_lay' : layout := [[]; [32]; [32;45;45;91;61;61;13;10]; [32]].

Example sc_scans : exists ts, scans_to sc_toks sc_lay ts /\ map (tline ts) [0;1;2;3]%nat = [1;1;1;1].
Proof.
  eexists. split; [split; [vm_compute; reflexivity|split; [reflexivity|]]|reflexivity].
  intros j Hj. do 4 (destruct j as [|j]; [reflexivity|]). simpl in Hj. lia.
Qed.
Example sc_scans' : exists ts, scans_to sc_toks sc_lay' ts /\ map (tline ts) [0;1;2;3]%nat = [1;1;2;2].
Proof.
  eexists. split; [split; [vm_compute; reflexivity|split; [reflexivity|]]|reflexivity].
  intros j Hj. do 4 (destruct j as [|j]; [reflexivity|]). simpl in Hj. lia.
Qed.
Example sc_hyps : Forall tok_ok sc_toks /\ same_except sc_lay sc_lay' 2 /\
  nl_count (nth 2 sc_lay' []) = nl_count (nth 2 sc_lay []) + 1 /\
  is_bytes (render sc_toks sc_lay) = true /\ is_bytes (render sc_toks sc_lay') = true.
Proof.
  split; [repeat constructor; simpl; congruence|]. split; [|repeat split; reflexivity].
  split; [reflexivity|]. intros j Hj. do 4 (destruct j as [|j]; [try reflexivity; lia|]). destruct j; reflexivity.
Qed.

(* statement entries of:  local x = [[..]] .. n  (one simple statement) inside nothing *)
Example ex_innermost : innermost [(0, 5); (3, 4)] 4 None = Some (3, 4).
Proof. reflexivity. Qed.

(* a function with a parameter, a numeric for loop with a point in its limit expression, a
   repeat whose condition sees the body's local, nested blocks and register reuse *)
Definition ex_fn : fn :=
  Fn true [("p"%string, Some 7)] true
    (ILocal [("a"%string, Some 1)]
      (INumFor [] [5] [] (Some 1) (Some 2) (Some 1) ("i"%string, Some 1)
         (IPoint 2 (IRepeat (ILocal [("u"%string, Some 9)] (IBlock (ILocal [("z"%string, None)] INil) INil)) [3] INil))
         (IBlock (ILocal [("c"%string, Some 3)] INil) (ILocal [("d"%string, Some 4)] (IPoint 4 INil))))).

Example ex_scope_body : option_map (map fst) (locals_at ex_fn 2) =
  Some ["self"; "p"; "arg"; "a"; "(for index)"; "(for limit)"; "(for step)"; "i"]%string.
Proof. reflexivity. Qed.
Example ex_scope_header : option_map (map fst) (locals_at ex_fn 5) = Some ["self"; "p"; "arg"; "a"]%string.
Proof. reflexivity. Qed.
Example ex_scope_until : option_map (map fst) (locals_at ex_fn 3) =
  Some ["self"; "p"; "arg"; "a"; "(for index)"; "(for limit)"; "(for step)"; "i"; "u"]%string.
Proof. reflexivity. Qed.
Example ex_scope_reuse : locals_at ex_fn 4 =
  Some [("self", None); ("p", Some 7); ("arg", None); ("a", Some 1); ("d", Some 4)]%string.
Proof. reflexivity. Qed.
Example ex_impl_agrees : map (dbg_locals_at ex_fn) [2; 3; 4; 5; 6] = map (locals_at ex_fn) [2; 3; 4; 5; 6].
Proof. reflexivity. Qed.
Example ex_setlocal : setlocal [("a", Some 1); ("d", Some 4)]%string 2 (Some 9) = (Some "d"%string, [("a", Some 1); ("d", Some 9)]%string).
Proof. reflexivity. Qed.
