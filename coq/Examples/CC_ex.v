(* Non-vacuity of the CC theorems (Properties/C01.v, the part on coq/CC): concrete programs of the
   fragment, their transcribed compilation, and the equations between the reference evaluator, the
   direct semantics prun, the bytecode semantics isem and the VM model instantiated on them. *)
From Coq Require Import Floats Lia.
From GL Require Import Common.Bytes Lua.Syntax Lua.Num Lua.Values Lua.Eval Lua.Run Lua.LuaCases.
From GL Require Import VMX.Machine VMX.VRun CC.CompModel CC.FragSem.
From GL Require CC.CompFactsVM CC.CompFacts.
Open Scope float_scope.
Open Scope Z_scope.

Definition va : name := [97]. Definition vb : name := [98]. Definition vc : name := [99].

(* local a = 1; local b = a + 2; a = b * a; return a, b - 1 *)
Definition prog1 : list stmt :=
  [SLocal 1 [va] [ENum 1]; SLocal 2 [vb] [EBin OAdd (EVar va) (ENum 2)];
   SAssign 3 [EVar va] [EBin OMul (EVar vb) (EVar va)];
   SReturn 4 [EVar va; EBin OSub (EVar vb) (ENum 1)]].

(* local a = nil; local b = -(2 ^ 3) % 5; return (a + b) *)
Definition prog2 : list stmt :=
  [SLocal 1 [va] [ENil]; SLocal 2 [vb] [EBin OMod (EUn ONeg (EBin OPow (ENum 2) (ENum 3))) (ENum 5)];
   SReturn 3 [EParen (EBin OAdd (EVar va) (EVar vb))]].

(* local a = 7; local b = a; local c = b; return c, not a   (the MOVEs are merged into a MOVEN) *)
Definition prog3 : list stmt :=
  [SLocal 1 [va] [ENum 7]; SLocal 2 [vb] [EVar va]; SLocal 3 [vc] [EVar vb];
   SReturn 4 [EVar vc; EUn ONot (EVar va)]].

Example progs_in_frag : in_frag prog1 = true /\ in_frag prog2 = true /\ in_frag prog3 = true /\
                        tie_frag prog1 = true /\ tie_frag prog2 = true /\ tie_frag prog3 = true.
Proof. vm_compute. repeat split; reflexivity. Qed.

Definition compiled (b : list stmt) : xproto :=
  match compile_frag b with Some p => p | None => XProto [] [] [] 0 0 0 0 [] 0 end.

Example progs_compile : (exists p, compile_frag prog1 = Some p) /\ (exists p, compile_frag prog2 = Some p) /\
                        (exists p, compile_frag prog3 = Some p).
Proof. repeat split; eexists; vm_compute; reflexivity. Qed.

(* constant folding and RK operands: -(2^3) % 5 is the single constant 2; b * a uses no temporaries *)
Example prog2_consts : xp_consts (compiled prog2) = [VNum 2].
Proof. vm_compute. reflexivity. Qed.

Example prog3_has_moven : existsb (fun w => is_opc w OP_MOVEN) (xp_code (compiled prog3)) = true.
Proof. vm_compute. reflexivity. Qed.

(* frag_compile_correct instantiated: VM model on the transcribed compilation = reference evaluator *)
Example prog1_equation :
  vm_outcome (compiled prog1) = outcome_of (run_program fuel no_devs prog1) /\
  vm_outcome (compiled prog1) = Outcome [] (OOk [ONum 3; ONum 2]).
Proof. vm_compute. split; reflexivity. Qed.

Example prog2_equation :
  vm_outcome (compiled prog2) = outcome_of (run_program fuel no_devs prog2) /\
  vm_outcome (compiled prog2) = Outcome [] (OErr (OFault 2 3)).
Proof. vm_compute. split; reflexivity. Qed.

Example prog3_equation :
  vm_outcome (compiled prog3) = outcome_of (run_program fuel no_devs prog3) /\
  vm_outcome (compiled prog3) = Outcome [] (OOk [ONum 7; OBool false]).
Proof. vm_compute. split; reflexivity. Qed.

(* the two halves meet on these programs: isem of the (unpatched) compiled code = prun *)
Definition ucode (b : list stmt) : list value * list (Z * Z) :=
  match compileChunk b (mkCS [] [] [] 0) with
  | Some (_, s) => (cs_consts s, rev ((opCreateABC (op_code OP_RETURN) 0 1 0, last_line b 0) :: cs_code s))
  | None => ([], [])
  end.

Example isem_is_prun :
  isem_code (fst (ucode prog1)) (snd (ucode prog1)) [] = prun [] prog1 /\
  isem_code (fst (ucode prog2)) (snd (ucode prog2)) [] = prun [] prog2 /\
  isem_code (fst (ucode prog3)) (snd (ucode prog3)) [] = prun [] prog3 /\
  prun [] prog1 = CRet [VNum 3; VNum 2] /\ prun [] prog2 = CFault 3.
Proof. vm_compute. repeat split; reflexivity. Qed.

(* vm_runs_isem applies to the compiled code of prog3 (hypotheses hold), and its conclusion is the run *)
Example vm_runs_isem_applies :
  exists s', run_proto 100 (CompFactsVM.frag_proto (snd (ucode prog3)) (fst (ucode prog3)) 4) = VFinOk [VNum 7; VBool false] s'
             /\ vtrace s' = [].
Proof.
  pose proof (CompFactsVM.vm_runs_isem_lemma (snd (ucode prog3)) (fst (ucode prog3)) 4 100) as H.
  assert (E : isem_code (fst (ucode prog3)) (snd (ucode prog3)) [] = CRet [VNum 7; VBool false]) by (vm_compute; reflexivity).
  rewrite E in H. apply H; try lia.
  - apply Forall_forall. intros wl Hin.
    assert (A : forallb (fun wl => (0 <=? fst wl) && (fst wl <? 2 ^ 32)) (snd (ucode prog3)) = true) by (vm_compute; reflexivity).
    rewrite forallb_forall in A. specialize (A _ Hin). lia.
  - vm_compute. lia.
Qed.

(* the leaf lemma applies: compiling the literal 5 into register 2 with two locals declared *)
Example leaf_applies :
  exists s', compileExpr 1 2 (ENum 5) (ecnone 0) (mkCS [] [] [va; vb] 2) = Some (1, s') /\
             CompFacts.expr_ok (mkCS [] [] [va; vb] 2) s' [va; vb] 1 2 (ENum 5).
Proof.
  eexists. split; [vm_compute; reflexivity|].
  eapply CompFacts.compileExpr_ok with (ec := ecnone 0) (inc := 1); try reflexivity; vm_compute; try lia; try discriminate.
Qed.

(* ---- the reference half of frag_compile_correct applied (coq/CC/FragEvalFacts.v) ---- *)
From GL Require CC.FragEvalFacts.

(* hypotheses: the three programs are in the fragment and the harness fuel is above the bound *)
Example frag_fuel_ok : (FragEvalFacts.frag_fuel prog1 <= fuel)%nat /\ (FragEvalFacts.frag_fuel prog2 <= fuel)%nat /\
  (FragEvalFacts.frag_fuel prog3 <= fuel)%nat.
Proof. unfold fuel. vm_compute FragEvalFacts.frag_fuel. repeat split; lia. Qed.

Example prun_values : prun [] prog1 = CRet [VNum 3; VNum 2] /\ prun [] prog2 = CFault 3 /\
  prun [] prog3 = CRet [VNum 7; VBool false].
Proof. vm_compute. repeat split; reflexivity. Qed.

(* the evaluator's outcome obtained from the theorem, not by running it *)
Example prog1_reference : outcome_of (run_program fuel no_devs prog1) = Outcome [] (OOk [ONum 3; ONum 2]).
Proof.
  destruct progs_in_frag as [H1 _]. destruct frag_fuel_ok as [F1 _].
  destruct (FragEvalFacts.frag_reference_is_prun_lemma prog1 fuel no_devs H1 F1) as [_ E]. rewrite E.
  vm_compute. reflexivity.
Qed.

Example prog2_reference : outcome_of (run_program fuel gopher_devs prog2) = Outcome [] (OErr (OFault 2 3)).
Proof.
  destruct progs_in_frag as [_ [H2 _]]. destruct frag_fuel_ok as [_ [F2 _]].
  destruct (FragEvalFacts.frag_reference_is_prun_lemma prog2 fuel gopher_devs H2 F2) as [_ E]. rewrite E.
  vm_compute. reflexivity.
Qed.

(* a left operand that is a local (read late by the evaluator) and a shadowing redeclaration *)
Definition prog4 : list stmt :=
  [SLocal 1 [va] [ENum 5]; SLocal 2 [vb] [EBin OSub (EVar va) (EBin OMul (EVar va) (ENum 2))];
   SLocal 3 [va] [EUn ONot (EVar vb)]; SAssign 4 [EVar vb] [EUn ONeg (EVar vb)];
   SReturn 5 [EVar va; EVar vb; EParen (EBin OAdd (EVar vb) ENil)]].
Example prog4_frag : in_frag prog4 = true /\ prun [] prog4 = CFault 5. Proof. vm_compute. split; reflexivity. Qed.
Example prog4_reference : exists s', run_program 12 no_devs prog4 = FinErr (VFault 2 5) s' /\ trace s' = [].
Proof.
  destruct prog4_frag as [H P].
  pose proof (FragEvalFacts.frag_run_lemma prog4 12 no_devs H) as L. rewrite P in L. apply L.
  vm_compute. lia.
Qed.

(* ---- the front half and the end-to-end theorem applied (coq/CC/CompFacts.v, coq/CC/FragGlue.v) ---- *)
From GL Require CC.FragGlue.
Example front_half_applies : exists x s, compileChunk prog4 (mkCS [] [] [] 0) = Some (x, s) /\
  isem_code (cs_consts s) (rev ((opCreateABC (op_code OP_RETURN) 0 1 0, last_line prog4 0) :: cs_code s)) [] = CFault 5.
Proof.
  destruct (compileChunk prog4 (mkCS [] [] [] 0)) as [[x s]|] eqn:E; [|vm_compute in E; discriminate].
  exists x, s. split; [reflexivity|].
  destruct (CompFacts.front_half_lemma prog4 x s (proj1 prog4_frag) E) as [H _].
  rewrite (proj2 prog4_frag) in H. exact H.
Qed.

Example compile_correct_applies : exists p, compile_frag prog4 = Some p /\
  exists n, forall fuel, (n <= fuel)%nat ->
    is_skip (outcome_of (run_program fuel no_devs prog4)) = false ->
    outcome_of_vfin (run_proto fuel p) = outcome_of (run_program fuel no_devs prog4).
Proof.
  destruct (compile_frag prog4) as [p|] eqn:E; [|vm_compute in E; discriminate].
  exists p. split; [reflexivity|].
  exact (FragGlue.frag_glue CompFacts.front_half_lemma prog4 p (proj1 prog4_frag) E).
Qed.

(* ---- the fragment F1: multi-target local declarations and multiple assignments ---- *)
From GL Require Import CC.Frag1Sem.
From GL Require CC.Frag1Facts CC.Frag1Eval CC.Frag1Glue.
Definition vd : name := [100]. Definition ve : name := [101].

(* local a, b = 1, 2; a, b = b, a; local c, d = a + b; local e = 7, 8, a; a, a, d = 10, 20; return a, b, c, d, e *)
Definition prog5 : list stmt :=
  [SLocal 1 [va; vb] [ENum 1; ENum 2];
   SAssign 2 [EVar va; EVar vb] [EVar vb; EVar va];
   SLocal 3 [vc; vd] [EBin OAdd (EVar va) (EVar vb)];
   SLocal 4 [ve] [ENum 7; ENum 8; EVar va];
   SAssign 5 [EVar va; EVar va; EVar vd] [ENum 10; ENum 20];
   SReturn 6 [EVar va; EVar vb; EVar vc; EVar vd; EVar ve]].

(* local a, b = 1; a, b = 2, a + b     (b is nil: the second right-hand side faults, nothing is stored) *)
Definition prog6 : list stmt :=
  [SLocal 1 [va; vb] [ENum 1]; SAssign 2 [EVar va; EVar vb] [ENum 2; EBin OAdd (EVar va) (EVar vb)];
   SReturn 3 [EVar va]].

(* local a = 1, nil + 1     (an extra expression is still evaluated) *)
Definition prog7 : list stmt := [SLocal 1 [va] [ENum 1; EBin OAdd ENil (ENum 1)]; SReturn 2 [EVar va]].

Example progs_in_frag1 :
  in_frag1 prog5 = true /\ in_frag1 prog6 = true /\ in_frag1 prog7 = true /\
  in_frag prog5 = false /\ in_frag prog6 = false /\ in_frag prog7 = false /\
  tie_frag prog5 = true /\ tie_frag prog6 = true /\ tie_frag prog7 = true.
Proof. vm_compute. repeat split; reflexivity. Qed.

Example progs1_compile : (exists p, compile_frag prog5 = Some p) /\ (exists p, compile_frag prog6 = Some p) /\
                         (exists p, compile_frag prog7 = Some p).
Proof. repeat split; eexists; vm_compute; reflexivity. Qed.

Example prun1_values : prun1 [] prog5 = CRet [VNum 10; VNum 1; VNum 3; VNil; VNum 7] /\
  prun1 [] prog6 = CFault 2 /\ prun1 [] prog7 = CFault 1.
Proof. vm_compute. repeat split; reflexivity. Qed.

(* both sides of frag1_compile_correct by computation *)
Example prog5_equation :
  vm_outcome (compiled prog5) = outcome_of (run_program fuel no_devs prog5) /\
  vm_outcome (compiled prog5) = Outcome [] (OOk [ONum 10; ONum 1; ONum 3; ONil; ONum 7]).
Proof. vm_compute. split; reflexivity. Qed.

Example prog6_equation :
  vm_outcome (compiled prog6) = outcome_of (run_program fuel no_devs prog6) /\
  vm_outcome (compiled prog6) = Outcome [] (OErr (OFault 2 2)).
Proof. vm_compute. split; reflexivity. Qed.

Example prog7_equation :
  vm_outcome (compiled prog7) = outcome_of (run_program fuel no_devs prog7) /\
  vm_outcome (compiled prog7) = Outcome [] (OErr (OFault 2 1)).
Proof. vm_compute. split; reflexivity. Qed.

(* the swap and the stores are MOVE runs merged into MOVEN words; isem of the unpatched code = prun1 *)
Example prog5_has_moven : existsb (fun w => is_opc w OP_MOVEN) (xp_code (compiled prog5)) = true.
Proof. vm_compute. reflexivity. Qed.

Example isem_is_prun1 :
  isem_code (fst (ucode prog5)) (snd (ucode prog5)) [] = prun1 [] prog5 /\
  isem_code (fst (ucode prog6)) (snd (ucode prog6)) [] = prun1 [] prog6.
Proof. vm_compute. split; reflexivity. Qed.

(* the theorems applied *)
Example frag1_reference_applies : exists s', run_program 12 no_devs prog5 = FinOk [VNum 10; VNum 1; VNum 3; VNil; VNum 7] s' /\ trace s' = [].
Proof.
  destruct progs_in_frag1 as [H _]. destruct prun1_values as [P _].
  pose proof (Frag1Eval.frag1_run_lemma prog5 12 no_devs H) as L. rewrite P in L.
  destruct L as [s' [E [T _]]]; [vm_compute; lia|]. exists s'. split; assumption.
Qed.

Example frag1_compile_correct_applies : exists p, compile_frag prog5 = Some p /\
  exists n, forall fuel, (n <= fuel)%nat ->
    is_skip (outcome_of (run_program fuel no_devs prog5)) = false ->
    outcome_of_vfin (run_proto fuel p) = outcome_of (run_program fuel no_devs prog5).
Proof.
  destruct (compile_frag prog5) as [p|] eqn:E; [|vm_compute in E; discriminate].
  exists p. split; [reflexivity|].
  exact (Frag1Glue.frag1_compile_correct_lemma prog5 p (proj1 progs_in_frag1) E).
Qed.

(* ---- the fragment F2: string literals as values ---- *)
From GL Require Import CC.Frag2Sem.
From GL Require CC.Frag2Facts CC.Frag2Eval CC.Frag2Glue.
Definition vs : name := [115]. Definition vt : name := [116]. Definition vn : name := [110].
Definition str_x : bytes := [120]. Definition str_y : bytes := [121]. Definition str_lit : bytes := [108; 105; 116].

(* local s, n = "x", 1; local t = s; s = not s; n, t = n + 1, "y"; return s, t, n, "lit", not "y" *)
Definition prog8 : list stmt :=
  [SLocal 1 [vs; vn] [EStr str_x; ENum 1];
   SLocal 2 [vt] [EVar vs];
   SAssign 3 [EVar vs] [EUn ONot (EVar vs)];
   SAssign 4 [EVar vn; EVar vt] [EBin OAdd (EVar vn) (ENum 1); EStr str_y];
   SReturn 5 [EVar vs; EVar vt; EVar vn; EStr str_lit; EUn ONot (EStr str_y)]].

(* local s = "x"; local n = nil; return n + 1, s      (a fault next to a string) *)
Definition prog9 : list stmt :=
  [SLocal 1 [vs] [EStr str_x]; SLocal 2 [vn] [ENil]; SReturn 3 [EBin OAdd (EVar vn) (ENum 1); EVar vs]].

(* arithmetic on a local that may hold a string is outside F2: local s = "1"; return s + 1 *)
Definition prog10 : list stmt := [SLocal 1 [vs] [EStr [49]]; SReturn 2 [EBin OAdd (EVar vs) (ENum 1)]].

Example progs_in_frag2 :
  in_frag2 prog8 = true /\ in_frag2 prog9 = true /\ in_frag2 prog10 = false /\
  in_frag1 prog8 = false /\ in_frag1 prog9 = false /\ in_frag2 prog5 = true /\ in_frag2 prog1 = true /\
  tie_frag prog8 = true /\ tie_frag prog9 = true /\ taint prog8 = [vt; vs].
Proof. vm_compute. repeat split; reflexivity. Qed.

Example progs2_compile : (exists p, compile_frag prog8 = Some p) /\ (exists p, compile_frag prog9 = Some p).
Proof. split; eexists; vm_compute; reflexivity. Qed.

Example prun2_values :
  prun2 [] prog8 = CRet [VBool false; VStr str_y; VNum 2; VStr str_lit; VBool false] /\ prun2 [] prog9 = CFault 3.
Proof. vm_compute. split; reflexivity. Qed.

Example prog8_equation :
  vm_outcome (compiled prog8) = outcome_of (run_program fuel no_devs prog8) /\
  vm_outcome (compiled prog8) = Outcome [] (OOk [OBool false; OStr str_y; ONum 2; OStr str_lit; OBool false]).
Proof. vm_compute. split; reflexivity. Qed.

Example prog9_equation :
  vm_outcome (compiled prog9) = outcome_of (run_program fuel no_devs prog9) /\
  vm_outcome (compiled prog9) = Outcome [] (OErr (OFault 2 3)).
Proof. vm_compute. split; reflexivity. Qed.

Example isem_is_prun2 :
  isem_code (fst (ucode prog8)) (snd (ucode prog8)) [] = prun2 [] prog8 /\
  isem_code (fst (ucode prog9)) (snd (ucode prog9)) [] = prun2 [] prog9.
Proof. vm_compute. split; reflexivity. Qed.

Example frag2_compile_correct_applies : exists p, compile_frag prog8 = Some p /\
  exists n, forall fuel, (n <= fuel)%nat ->
    is_skip (outcome_of (run_program fuel no_devs prog8)) = false ->
    outcome_of_vfin (run_proto fuel p) = outcome_of (run_program fuel no_devs prog8).
Proof.
  destruct (compile_frag prog8) as [p|] eqn:E; [|vm_compute in E; discriminate].
  exists p. split; [reflexivity|].
  exact (Frag2Glue.frag2_compile_correct_lemma prog8 p (proj1 progs_in_frag2) E).
Qed.

(* ---- the fragment F3: reads of undefined globals ---- *)
From GL Require Import CC.Frag3Sem.
From GL Require CC.CompFactsVM3 CC.Frag3Facts CC.Frag3Eval CC.Frag3Glue.
Definition gG0 : name := [71; 48]. Definition g_print : name := [112; 114; 105; 110; 116]. Definition g_type : name := [116; 121; 112; 101].

(* local a = G0; local s, b = "x", not G0; a = G0 + 1     (nil + 1: the fault of line 3) *)
Definition prog11 : list stmt :=
  [SLocal 1 [va] [EVar gG0]; SLocal 2 [vs; vb] [EStr str_x; EUn ONot (EVar gG0)];
   SAssign 3 [EVar va] [EBin OAdd (EVar gG0) (ENum 1)]; SReturn 4 [EVar va]].

(* local a, b = G0, 2; return a, b, G0, not G0, (G0) *)
Definition prog12 : list stmt :=
  [SLocal 1 [va; vb] [EVar gG0; ENum 2];
   SReturn 2 [EVar va; EVar vb; EVar gG0; EUn ONot (EVar gG0); EParen (EVar gG0)]].

(* a defined global (`type` is a key of the initial global table) is outside F3 *)
Definition prog13 : list stmt := [SReturn 1 [EVar g_type]].

Example progs_in_frag3 :
  in_frag3 prog11 = true /\ in_frag3 prog12 = true /\ in_frag3 prog13 = false /\
  in_frag2 prog11 = false /\ in_frag2 prog12 = false /\ in_frag3 prog8 = true /\ in_frag3 prog1 = true /\
  tie_frag prog11 = true /\ tie_frag prog12 = true /\
  undefined_global gG0 = true /\ undefined_global g_type = false /\ undefined_global g_print = true.
Proof. vm_compute. repeat split; reflexivity. Qed.

Example progs3_compile : (exists p, compile_frag prog11 = Some p) /\ (exists p, compile_frag prog12 = Some p).
Proof. split; eexists; vm_compute; reflexivity. Qed.

Example prog12_has_getglobal : existsb (fun w => is_opc w OP_GETGLOBAL) (xp_code (compiled prog12)) = true.
Proof. vm_compute. reflexivity. Qed.

Example prun3_values :
  prun3 [] prog11 = CFault 3 /\ prun3 [] prog12 = CRet [VNil; VNum 2; VNil; VBool true; VNil].
Proof. vm_compute. split; reflexivity. Qed.

Example prog11_equation :
  vm_outcome (compiled prog11) = outcome_of (run_program fuel no_devs prog11) /\
  vm_outcome (compiled prog11) = Outcome [] (OErr (OFault 2 3)).
Proof. vm_compute. split; reflexivity. Qed.

Example prog12_equation :
  vm_outcome (compiled prog12) = outcome_of (run_program fuel no_devs prog12) /\
  vm_outcome (compiled prog12) = Outcome [] (OOk [ONil; ONum 2; ONil; OBool true; ONil]).
Proof. vm_compute. split; reflexivity. Qed.

Example isem3_is_prun3 :
  isem3_code (fst (ucode prog11)) (snd (ucode prog11)) [] = prun3 [] prog11 /\
  isem3_code (fst (ucode prog12)) (snd (ucode prog12)) [] = prun3 [] prog12.
Proof. vm_compute. split; reflexivity. Qed.

Example frag3_compile_correct_applies : exists p, compile_frag prog12 = Some p /\
  exists n, forall fuel, (n <= fuel)%nat ->
    is_skip (outcome_of (run_program fuel no_devs prog12)) = false ->
    outcome_of_vfin (run_proto fuel p) = outcome_of (run_program fuel no_devs prog12).
Proof.
  destruct (compile_frag prog12) as [p|] eqn:E; [|vm_compute in E; discriminate].
  exists p. split; [reflexivity|].
  exact (Frag3Glue.frag3_compile_correct_lemma prog12 p (proj1 (proj2 progs_in_frag3)) E).
Qed.

(* ---- the fragment F4: arithmetic and unary minus with the coercion of numeric strings ---- *)
From GL Require Import CC.Frag4Sem.
From GL Require CC.CompFactsVM4 CC.Frag4Facts CC.Frag4Eval CC.Frag4Glue.
Definition str_10 : bytes := [49; 48]. Definition str_2 : bytes := [50].

(* local s, t = "10", "x"; local n = s + 1; local m = -s * "2"; return n, m, s, G0     (11, -20, "10", nil) *)
Definition prog14 : list stmt :=
  [SLocal 1 [vs; vt] [EStr str_10; EStr str_x];
   SLocal 2 [vn] [EBin OAdd (EVar vs) (ENum 1)];
   SLocal 3 [va] [EBin OMul (EUn ONeg (EVar vs)) (EStr str_2)];
   SReturn 4 [EVar vn; EVar va; EVar vs; EVar gG0]].

(* local s, t = "10", "x"; s = s + t     (a string that is no numeral: the arithmetic error of line 2) *)
Definition prog15 : list stmt :=
  [SLocal 1 [vs; vt] [EStr str_10; EStr str_x]; SAssign 2 [EVar vs] [EBin OAdd (EVar vs) (EVar vt)];
   SReturn 3 [EVar vs]].

(* local t = "x"; return -t     (unary minus on a string that is no numeral) *)
Definition prog16 : list stmt := [SLocal 1 [vt] [EStr str_x]; SReturn 2 [EUn ONeg (EVar vt)]].

Example progs_in_frag4 :
  in_frag4 prog14 = true /\ in_frag4 prog15 = true /\ in_frag4 prog16 = true /\
  in_frag3 prog14 = false /\ in_frag3 prog15 = false /\ in_frag3 prog16 = false /\
  in_frag4 prog10 = true /\ in_frag4 prog8 = true /\ in_frag4 prog11 = true /\ in_frag4 prog5 = true /\ in_frag4 prog1 = true /\
  tie_frag prog14 = true /\ tie_frag prog15 = true /\ tie_frag prog16 = true.
Proof. vm_compute. repeat split; reflexivity. Qed.

Example progs4_compile : (exists p, compile_frag prog14 = Some p) /\ (exists p, compile_frag prog15 = Some p) /\
                         (exists p, compile_frag prog16 = Some p).
Proof. repeat split; eexists; vm_compute; reflexivity. Qed.

Example prun4_values :
  prun4 [] prog14 = CRet [VNum 11; VNum (-20); VStr str_10; VNil] /\ prun4 [] prog15 = CFault 2 /\ prun4 [] prog16 = CFault 2.
Proof. vm_compute. repeat split; reflexivity. Qed.

Example prog14_equation :
  vm_outcome (compiled prog14) = outcome_of (run_program fuel no_devs prog14) /\
  vm_outcome (compiled prog14) = Outcome [] (OOk [ONum 11; ONum (-20); OStr str_10; ONil]).
Proof. vm_compute. split; reflexivity. Qed.

Example prog15_equation :
  vm_outcome (compiled prog15) = outcome_of (run_program fuel no_devs prog15) /\
  vm_outcome (compiled prog15) = Outcome [] (OErr (OFault 2 2)).
Proof. vm_compute. split; reflexivity. Qed.

Example prog16_equation :
  vm_outcome (compiled prog16) = outcome_of (run_program fuel no_devs prog16) /\
  vm_outcome (compiled prog16) = Outcome [] (OErr (OFault 2 2)).
Proof. vm_compute. split; reflexivity. Qed.

Example isem4_is_prun4 :
  isem4_code (fst (ucode prog14)) (snd (ucode prog14)) [] = prun4 [] prog14 /\
  isem4_code (fst (ucode prog15)) (snd (ucode prog15)) [] = prun4 [] prog15 /\
  isem4_code (fst (ucode prog16)) (snd (ucode prog16)) [] = prun4 [] prog16.
Proof. vm_compute. repeat split; reflexivity. Qed.

Example frag4_compile_correct_applies : exists p, compile_frag prog14 = Some p /\
  exists n, forall fuel, (n <= fuel)%nat ->
    is_skip (outcome_of (run_program fuel no_devs prog14)) = false ->
    outcome_of_vfin (run_proto fuel p) = outcome_of (run_program fuel no_devs prog14).
Proof.
  destruct (compile_frag prog14) as [p|] eqn:E; [|vm_compute in E; discriminate].
  exists p. split; [reflexivity|].
  exact (Frag4Glue.frag4_compile_correct_lemma prog14 p (proj1 progs_in_frag4) E).
Qed.
