(* C06 — non-vacuity of the wave-5 hand-over theorems: a concrete history that makes the array one
   cell longer than the limit, and the three hand-overs around the limit afterwards. *)
From Coq Require Import Lia.
From GL Require Import Common.Bytes Stack.Registry Stack.RegSpec Stack.RegistryFacts Stack.Handover Stack.HandoverFacts
  Co.HandoverHist Co.HandoverHistFacts.

Definition i (n : Z) : cell := Some (VInt n).
Definition r0 : registry := newRegistry 4 0 0.             (* four cells, growth disabled *)
Definition r4 : registry := mkReg [i 1; i 2; i 3; i 4] 4 4 0 0.      (* ... filled *)
Definition r5 : registry := mkReg [i 1; i 2; i 3; i 4; Some (VRef 9)] 5 4 0 0.   (* the message of an error raised on the full registry *)
Definition rp : registry := mkReg [i 1; i 2; None; None; None] 2 4 0 0.          (* the protected call cut it back to two values *)
Definition rc : registry := mkReg [i 10; i 11; i 12; i 13; None; None] 4 6 0 0.  (* the coroutine *)

Example ex_pushes : Push r0 (i 1) = Ok (mkReg [i 1; None; None; None] 1 4 0 0) /\ Push (mkReg [i 1; i 2; i 3; None] 3 4 0 0) (i 4) = Ok r4.
Proof. vm_compute. auto. Qed.
Example ex_raise : raisePush r4 (Some (VRef 9)) = Ok r5.
Proof. vm_compute. reflexivity. Qed.
Example ex_cut : SetTop r5 2 = Ok rp.
Proof. vm_compute. reflexivity. Qed.

Definition r1 : registry := mkReg [i 1; None; None; None] 1 4 0 0.
Definition r2 : registry := mkReg [i 1; i 2; None; None] 2 4 0 0.
Definition r3 : registry := mkReg [i 1; i 2; i 3; None] 3 4 0 0.
Example ex_history : history r0 rp.
Proof.
  apply (HCons r0 r4 rp); [|apply (HsCaught r4 (Some (VRef 9)) r5 2 rp); [exact ex_raise|vm_compute; split; discriminate|exact ex_cut]].
  apply (HCons r0 r3 r4); [|apply (HsPush r3 (i 4)); vm_compute; reflexivity].
  apply (HCons r0 r2 r3); [|apply (HsPush r2 (i 3)); vm_compute; reflexivity].
  apply (HCons r0 r1 r2); [|apply (HsPush r1 (i 2)); vm_compute; reflexivity].
  apply (HCons r0 r0 r1); [apply HNil|apply (HsPush r0 (i 1)); vm_compute; reflexivity].
Qed.

(* the array is longer than the limit now *)
Example ex_longer : cap rp = limit rp + 1.
Proof. vm_compute. reflexivity. Qed.

Example ex_rc : Rr rc [i 10; i 11; i 12; i 13] 6.
Proof. constructor; try (vm_compute; reflexivity); try (vm_compute; discriminate); cbn; lia. Qed.
Example ex_rp : Rr rp [i 1; i 2] 4.
Proof. constructor; try (vm_compute; reflexivity); try (vm_compute; discriminate); cbn; lia. Qed.

(* boolean + 1 value: 2 + 2 = 4 cells, fits exactly *)
Example ex_fits : exists p' c', handover rp rc false (Some (VRef 1)) 1 = HoDone p' c' /\
  live p' = [i 1; i 2; Some (VRef 1); i 13] /\ live c' = [i 10; i 11; i 12].
Proof. eexists. eexists. vm_compute. repeat split. Qed.
(* boolean + 2 values need limit + 1 = 5 cells, which the ARRAY has and the limit forbids: refused as a whole *)
Example ex_refused : exists c', handover rp rc false (Some (VRef 1)) 2 = HoRefused rp c' /\ live c' = [i 10; i 11].
Proof. eexists. vm_compute. repeat split. Qed.
(* the theorem on this instance *)
Example ex_theorem_instance :
  (top rp + 3 <= 4 /\ exists p' c', handover rp rc false (Some (VRef 1)) 2 = HoDone p' c' /\ live p' = live rp ++ handed false (Some (VRef 1)) (lastn 2 [i 10; i 11; i 12; i 13]) /\ top p' = top rp + 3) \/
  (4 < top rp + 3 /\ exists c', handover rp rc false (Some (VRef 1)) 2 = HoRefused rp c').
Proof.
  exact (handover_after_history_lemma 4 0 0 rp rc _ 6 false (Some (VRef 1)) 2 ltac:(lia) ltac:(lia) ex_history ex_rc ltac:(vm_compute; split; discriminate)).
Qed.
(* the same hand-over with the room check on the array length: torn *)
Example ex_len_torn : handover_len rp rc false (Some (VRef 1)) 2 = HoTorn.
Proof.
  apply (handover_len_torn_lemma rp rc _ _ 4 6 false _ 2 ex_rp ex_rc); vm_compute; [split; discriminate|reflexivity|reflexivity].
Qed.
