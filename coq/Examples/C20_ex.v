(* C20 — non-vacuity: every theorem of Properties/C20.v applied to a concrete, non-trivial state
   whose hypotheses are all met. *)
From Coq Require Import List ZArith Lia.
From GL Require Import Req.ReqModel Req.ReqCases Req.ReqFacts.
Import ListNotations.
Open Scope Z_scope.

Lemma pair_eta {A B} (p : A * B) a b : fst p = a -> snd p = b -> p = (a, b).
Proof. destruct p; simpl; congruence. Qed.

(* module 0: preload, requires 1 under pcall then returns a fresh table; module 1: file in dir 1,
   fails; module 2: preload (Go), returns nothing; modules 4,5,6: a 3-cycle 4 -> 5 -> 6 -> 4 *)
Definition ex_ops : list op :=
  [ HSetPreload 0 (Some (mkLoader KLua [PRequire TCo 1; Return (ETab 0)]));
    HSetFile 1 1 (Some (FScript [Fail]));
    HSetPreload 2 (Some (mkLoader KGo []));
    HSetFile 0 2 (Some (FScript [Return (EStr 0)]));
    HSetPreload 4 (Some (mkLoader KLua [Require TSame 5]));
    HSetFile 0 5 (Some (FScript [Require TCo 6; Return ETrue]));
    HSetPreload 6 (Some (mkLoader KGo [Require TCo 4])) ].

Definition ex : state := fst (run 1 init ex_ops).

(* ---- once / cached ---- *)
Definition ex1 : state := fst (require 3 ex 0).

Example require_ex : require 3 ex 0 = (ex1, Ok (VTab 0 0)).
Proof. apply pair_eta; reflexivity. Qed.

Definition later : list op :=
  [HRequire 1; HRequire 0; HSetPreload 0 None; HRegister 0 [1]; HRequire 2; HClearLoaded 1; HRequire 0].

Example keeps_later : Forall (keeps_value 0 (VTab 0 0)) later.
Proof. repeat constructor; try discriminate; intros; discriminate. Qed.

Example keeps_later' : Forall (keeps_loaded 0) later.
Proof. repeat constructor; discriminate. Qed.

Example loader_once_ex :
  count_log 0 (log (fst (run 5 ex1 later))) = 1%nat /\ count_log 0 (log ex1) = 1%nat.
Proof.
  split; [|reflexivity].
  rewrite (loader_once_while_succeeds_lemma 3 ex 0 ex1 (VTab 0 0) 5 later require_ex eq_refl keeps_later').
  reflexivity.
Qed.

Example cached_ex : snd (require 1 (fst (run 5 ex1 later)) 0) = Ok (VTab 0 0).
Proof.
  pose proof (cached_identical_lemma 3 ex 0 ex1 (VTab 0 0) 5 later 0 require_ex eq_refl keeps_later) as H.
  cbv zeta in H. now rewrite H.
Qed.

Example once_per_load_ex :
  search loLoaders ex 0 [] = inr (OPre, KLua, [PRequire TCo 1; Return (ETab 0)]) /\
  guarded [PRequire TCo 1; Return (ETab 0)] = true /\ truthy (loaded ex 0) = false /\
  count_log 0 (log ex1) = S (count_log 0 (log ex)).
Proof. repeat split. Qed.

(* returned nothing -> true *)
Example nothing_true_ex :
  snd (require 2 ex 2) = Ok VTrue /\ loaded (fst (require 2 ex 2)) 2 = VTrue /\
  run_script (require 1) 2 (next ex) KGo [] (enter (set_loaded ex 2 VSent) 2 OPre)
  = (enter (set_loaded ex 2 VSent) 2 OPre, Ok VNil).
Proof. repeat split. Qed.

(* return overrides what the loader stored (C20-1 witness on today's transcription) *)
Example return_overrides_ex :
  snd (require 2 c20_1_state 0) = Ok (VStr 1) /\ loaded (fst (require 2 c20_1_state 0)) 0 = VStr 1.
Proof. split; reflexivity. Qed.

(* the case evaluator separates the code before and after the fixes on the corpus witnesses *)
Definition c20_1_case : case :=
  CHist [HSetPreload 0 (Some (mkLoader KLua [SetLoaded (EStr 0); Return (EStr 1)])); HRequire 0; HRequire 0; HGetLoaded 0]
        [ONone; ORes (Ok (VStr 1)) [(0, OPre)]; ORes (Ok (VStr 1)) []; OVal (VStr 1)].
Definition c20_2_case : case :=
  CHist [HRegister 3 [1]; HRegister 3 [2]; HRequire 3; HGetGlobal 3]
        [OReg (Ok (VTab 0 0)) [1]; OReg (Ok (VTab 0 0)) [1; 2]; ORes (Ok (VTab 0 0)) []; OVal (VTab 0 0)].

Example evaluator_separates :
  check_impl c20_1_case = true /\ check_spec c20_1_case = true /\ check_old c20_1_case = false /\
  check_impl c20_2_case = true /\ check_spec c20_2_case = true /\ check_old c20_2_case = false.
Proof. repeat split; vm_compute; reflexivity. Qed.

(* ---- preload first ---- *)
Example preload_first_ex :
  preload ex 2 = Some (mkLoader KGo []) /\ files ex 0 2 = Some (FScript [Return (EStr 0)]) /\
  newlog ex (fst (require 2 ex 2)) = [(2, OPre)].
Proof. repeat split. Qed.

Example path_order_ex :
  preload ex 5 = None /\
  newlog (set_loaded ex 6 VTrue) (fst (require 2 (set_loaded ex 6 VTrue) 5)) = [(5, OFile 0)].
Proof. split; reflexivity. Qed.

(* ---- loops: the 3-cycle 4 -> 5 -> 6 -> 4; the links 5 -> 6 and 6 -> 4 cross a coroutine boundary ---- *)
Example links_ex : links ex [4; 5; 6] 4.
Proof.
  cbn [links hd].
  split; [exists TSame, OPre, KLua, []; reflexivity|].
  split; [exists TCo, (OFile 0), KLua, [Return ETrue]; reflexivity|].
  split; [exists TCo, OPre, KGo, []; reflexivity|exact I].
Qed.

Example nodup_ex : NoDup [4; 5; 6].
Proof. repeat constructor; simpl; intuition lia. Qed.

Example unloaded_ex : forall m, In m [4; 5; 6] -> truthy (loaded ex m) = false.
Proof. intros m [<-|[<-|[<-|[]]]]; reflexivity. Qed.

Example loop_ex :
  exists s', require 4 ex 4 = (s', Err (ELoop 4)) /\ loaded s' 5 = VSent /\ loaded s' 6 = VSent.
Proof.
  destruct (self_require_is_loop_error_lemma ex 4 [5; 6] 4 nodup_ex links_ex unloaded_ex ltac:(simpl; lia))
    as (s' & E & Hin & _).
  exists s'. repeat split; [exact E|apply Hin; simpl; auto|apply Hin; simpl; auto].
Qed.

Example loop_direct_ex :
  snd (require 2 (set_preload init 0 (Some (mkLoader KLua [Require TSame 0]))) 0) = Err (ELoop 0).
Proof. reflexivity. Qed.

(* ---- missing ---- *)
Example missing_ex :
  snd (require 1 ex 7) = Err (ENotFound 7 [TPre 7; TPath 0 7; TPath 1 7]) /\
  truthy (loaded ex 7) = false /\ preload ex 7 = None.
Proof. repeat split. Qed.

(* ---- host ---- *)
Example host_ex :
  snd (register ex 3 [1; 2]) = Ok (VTab 0 0) /\
  globals (fst (register ex 3 [1; 2])) 3 = VTab 0 0 /\
  snd (require 1 (fst (register ex 3 [1; 2])) 3) = Ok (VTab 0 0) /\
  snd (register (set_global ex 3 (VStr 0)) 3 []) = Err (EConflict 3).
Proof. repeat split. Qed.

(* ---- failure ---- *)
Definition exf : state := fst (require 2 ex 1).

Example failure_ex :
  require 2 ex 1 = (exf, Err (EFail 1)) /\
  search loLoaders ex 1 [] = inr (OFile 1, KLua, [Fail]) /\
  existsb touches_loaded [Fail] = false /\
  loaded exf 1 = VSent /\
  snd (require 1 (fst (run 5 exf [HRequire 0; HRequire 1; HSetFile 1 1 None])) 1) = Err (ELoop 1).
Proof. repeat split. Qed.

(* ---- fuel: the hypotheses of the bound hold of the example state ---- *)
Example guarded_ex : state_guarded ex.
Proof.
  split.
  - intros n l H. simpl in H. unfold upd in H.
    repeat match type of H with
           | (if ?c then _ else _) = _ => destruct c; [inversion H; reflexivity|]
           end.
    discriminate.
  - intros d n c H. simpl in H. unfold upd in H.
    destruct (d =? 0); destruct (d =? 1); destruct (n =? 5); destruct (n =? 2); destruct (n =? 1);
      try discriminate; inversion H; reflexivity.
Qed.

Example loadable_ex : loadable_in ex [0; 1; 2; 4; 5; 6].
Proof.
  intros n H. destruct H as [H|(d & H)].
  - simpl in H. unfold upd in H.
    destruct (n =? 6) eqn:E6; [apply Z.eqb_eq in E6; subst; simpl; auto 10|].
    destruct (n =? 4) eqn:E4; [apply Z.eqb_eq in E4; subst; simpl; auto 10|].
    destruct (n =? 2) eqn:E2; [apply Z.eqb_eq in E2; subst; simpl; auto 10|].
    destruct (n =? 0) eqn:E0; [apply Z.eqb_eq in E0; subst; simpl; auto 10|].
    congruence.
  - simpl in H. unfold upd in H.
    destruct (n =? 5) eqn:E5; [apply Z.eqb_eq in E5; subst; simpl; auto 10|].
    destruct (n =? 2) eqn:E2; [apply Z.eqb_eq in E2; subst; simpl; auto 10|].
    destruct (n =? 1) eqn:E1; [apply Z.eqb_eq in E1; subst; simpl; auto 10|].
    exfalso. destruct (d =? 0); destruct (d =? 1); cbv beta in H; rewrite ?E5, ?E2, ?E1 in H; congruence.
Qed.

Example fuel_ex : snd (require 7 ex 4) <> OutOfFuel /\ snd (require 2 ex 4) = OutOfFuel.
Proof.
  split; [|reflexivity].
  apply (require_fuel_bound_lemma [0; 1; 2; 4; 5; 6]); [exact guarded_ex|exact loadable_ex|].
  vm_compute. lia.
Qed.

(* ---- initialisation order: modules registered before OpenPackage survive it ---- *)
Definition init_ops : list iop :=
  [IRegister 3 [1]; IOpenLib LSTRING; IOpenBase; IOpenPackage; IOpenLib LTABLE; IRegister 3 [2];
   IPreload 0 (mkLoader KGo [Return (ETab 0)])].

Example init_order_ex :
  let s := fst (fst (irun (init, false) init_ops)) in
  snd (fst (irun (init, false) init_ops)) = true /\
  is_table (loaded (fst (register init 3 [1])) 3) = true /\
  snd (require 1 s 3) = Ok (VTab 0 0) /\ globals s 3 = VTab 0 0 /\
  snd (require 1 s LSTRING) = Ok (VTab 1 0) /\ snd (require 1 s PKG) = Ok (VTab 2 0) /\
  snd (require 1 s LTABLE) = Ok (VTab 3 0) /\ snd (require 2 s 0) = Ok (VTab 4 0) /\
  snd (istep (init, false) (IPreload 0 (mkLoader KGo []))) = ORes (Err ENoPackage) [].
Proof. repeat split. Qed.

Definition init_case : case :=
  CInit [IRegister 3 [1]; IOpenBase; IOpenPackage] [HRequire 3; HGetGlobal 3; HRequire PKG]
        [OReg (Ok (VTab 0 0)) [1]; ONone; OReg (Ok (VTab 1 0)) [];
         ORes (Ok (VTab 0 0)) []; OVal (VTab 0 0); ORes (Ok (VTab 1 0)) []].
(* what the seeded regression (fresh _LOADED in OpenPackage) shows instead *)
Definition init_case_lost : case :=
  CInit [IRegister 3 [1]; IOpenBase; IOpenPackage] [HRequire 3; HGetGlobal 3; HRequire PKG]
        [OReg (Ok (VTab 0 0)) [1]; ONone; OReg (Ok (VTab 1 0)) [];
         ORes (Err (ENotFound 3 [TPre 3; TPath 0 3; TPath 1 3])) []; OVal (VTab 0 0); ORes (Ok (VTab 1 0)) []].

Example init_evaluator_ex :
  check_impl init_case = true /\ check_spec init_case = true /\
  check_impl init_case_lost = false /\ check_spec init_case_lost = false.
Proof. repeat split; vm_compute; reflexivity. Qed.

(* an unreadable entry in directory 0 does not hide the module in directory 1, and is listed *)
Example unreadable_ex :
  let s := set_file (set_file init 0 0 (Some FUnreadable)) 1 0 (Some (FScript [Return (EStr 0)])) in
  snd (require 2 s 0) = Ok (VStr 0) /\ newlog s (fst (require 2 s 0)) = [(0, OFile 1)] /\
  snd (require 2 (set_file init 0 0 (Some FUnreadable)) 0) = Err (ENotFound 0 [TPre 0; TPath 0 0; TPath 1 0]).
Proof. repeat split. Qed.

(* ---- wave 5: coroutine boundaries, re-bound package.preload ---- *)
(* module 8's loader re-requires 8 inside a coroutine: the hypotheses of loop_error_across_coroutines *)
Example loop_across_coroutine_ex :
  let s := set_preload init 8 (Some (mkLoader KLua [Require TCo 8; Return (ETab 0)])) in
  truthy (loaded s 8) = false /\
  search loLoaders s 8 [] = inr (OPre, KLua, [Require TCo 8; Return (ETab 0)]) /\
  snd (require 2 s 8) = Err (ELoop 8) /\ loaded (fst (require 2 s 8)) 8 = VSent.
Proof. repeat split. Qed.

(* `ex` has loaders with cross-coroutine requires (0, 5, 6): stripping them is a different state
   with the same behaviour *)
Example thread_transparent_ex :
  option_map lscript (preload ex 0) = Some [PRequire TCo 1; Return (ETab 0)] /\
  option_map lscript (preload (strip_state ex) 0) = Some [PRequire TSame 1; Return (ETab 0)] /\
  snd (require 4 (strip_state ex) 4) = snd (require 4 ex 4) /\
  snd (require 4 ex 4) = Err (ELoop 4) /\
  snd (require 3 (strip_state ex) 0) = Ok (VTab 0 0).
Proof. repeat split. Qed.

(* module 2 has a file in directory 0 and a Go preload entry; the script replaces package.preload
   keeping only module 0's entry, then the host registers a new loader for 2: it runs, not the file *)
Example preload_after_rebind_ex :
  let s1 := fst (run 1 ex [HNewPreload [0]; HSetPreload 2 (Some (mkLoader KGo [Return (EStr 1)]))]) in
  truthy (loaded ex 2) = false /\ files ex 0 2 <> None /\
  snd (require 1 s1 2) = Ok (VStr 1) /\ newlog s1 (fst (require 1 s1 2)) = [(2, OPre)].
Proof. repeat split. discriminate. Qed.

(* not kept: 2's old entry is gone and the file in directory 0 is loaded; kept: 0's entry still runs;
   cached: ex1 has module 0 loaded, it survives the replacement *)
Example rebind_ex :
  let s1 := new_preload ex [0] in
  memz 2 [0] = false /\ memz 0 [0] = true /\ preload ex 2 <> None /\
  newlog s1 (fst (require 1 s1 2)) = [(2, OFile 0)] /\ snd (require 1 s1 2) = Ok (VStr 0) /\
  newlog s1 (fst (require 3 s1 0)) = [(0, OPre); (1, OFile 1)] /\
  snd (require 1 (new_preload ex [0]) 6) = Err (ENotFound 6 [TPre 6; TPath 0 6; TPath 1 6]) /\
  truthy (loaded ex1 0) = true /\ is_sent (loaded ex1 0) = false /\
  require 1 (new_preload ex1 []) 0 = (new_preload ex1 [], Ok (VTab 0 0)).
Proof. repeat split. discriminate. Qed.

(* the evaluator on a history of the C20-10 shape: what today's code does, and what a PreloadModule
   writing into the orphaned table shows instead *)
Definition rebind_case : case :=
  CHist [HSetFile 0 0 (Some (FScript [Return (EStr 1)])); HNewPreload [];
         HSetPreload 0 (Some (mkLoader KGo [Return (EStr 0)])); HRequire 0]
        [ONone; ONone; ONone; ORes (Ok (VStr 0)) [(0, OPre)]].
Definition rebind_case_orphaned : case :=
  CHist [HSetFile 0 0 (Some (FScript [Return (EStr 1)])); HNewPreload [];
         HSetPreload 0 (Some (mkLoader KGo [Return (EStr 0)])); HRequire 0]
        [ONone; ONone; ONone; ORes (Ok (VStr 1)) [(0, OFile 0)]].
(* ... and of the C20-9 shape: the sentinel handed out as a value across a coroutine *)
Definition co_loop_case : case :=
  CHist [HSetPreload 0 (Some (mkLoader KLua [Require TCo 0])); HRequire 0; HGetLoaded 0]
        [ONone; ORes (Err (ELoop 0)) [(0, OPre)]; OVal VSent].
Definition co_loop_case_missed : case :=
  CHist [HSetPreload 0 (Some (mkLoader KLua [Require TCo 0])); HRequire 0; HGetLoaded 0]
        [ONone; ORes (Ok VTrue) [(0, OPre)]; OVal VTrue].

Example wave5_evaluator_ex :
  check_impl rebind_case = true /\ check_spec rebind_case = true /\
  check_spec rebind_case_orphaned = false /\
  check_impl co_loop_case = true /\ check_spec co_loop_case = true /\
  check_spec co_loop_case_missed = false.
Proof. repeat split; vm_compute; reflexivity. Qed.
