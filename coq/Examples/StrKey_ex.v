(* Non-vacuity of regkey_reads_constant (Properties/C07.v 6c; VM/StrKeyVmx.v): the layout compile.go
   produces for `g:m()` (receiver a temporary, method name loaded with LOADK into R(A+1)), as a
   prototype of the full VM model. *)
From Coq Require Import Floats Lia.
From GL Require Import Common.Bytes Lua.Values.
From GL Require Import VM.Opcode VMX.Machine VMX.Step VMX.VRun VMX.WfTie.
From GL Require VM.WfProto VM.WfFacts VM.StrKey VM.StrKeyFacts VM.StrKeyVmx VMX.WfTieFacts.
Open Scope Z_scope.

Definition w_loadk := opCreateABx 2 1 1.
Definition w_self := opCreateABC 14 0 0 1.

Definition p_self : xproto :=
  XProto [opCreateABx 6 0 0; w_loadk; w_self; opCreateABC 31 0 2 1; opCreateABC 33 0 1 0]
         [VStr [103]; VStr [109]] [] 0 0 0 2 [1; 1; 1; 1; 1] 0.
Definition cl_self : closure := mkCl p_self [] 0%nat.
Definition cf_self (pc : Z) : cframe := mkFrame (FnLua 0%nat) pc 0 1 0 0 (-1) 0.
Definition ml0 : option nat -> VM unit := fun _ => vret tt.
Definition gf0 : builtin -> VM Z := fun _ => vret 0.

(* the static hypotheses *)
Example self_static :
  VM.WfProto.wf_fn (WfTieFacts.fn_of (cl_proto cl_self)) = true /\
  VM.StrKey.strreg_fn (WfTieFacts.fn_of (cl_proto cl_self)) = true /\
  VM.WfFacts.pc_ok (WfTieFacts.fn_of (cl_proto cl_self)) 2 /\
  zth (xp_code (cl_proto cl_self)) 2 = Some w_self /\
  VM.StrKey.regkey_of w_self = Some 1 /\ opGetArgA w_self + 1 = 1.
Proof. vm_compute. repeat split; reflexivity. Qed.

(* the dynamic hypothesis: the model executes the LOADK in front *)
Example self_loadk_runs :
  exists s1, exec_op ml0 gf0 cl_self (cf_self 2) w_loadk None (init_vstate p_self) = VRet false s1.
Proof. eexists. vm_compute. reflexivity. Qed.

(* hence, by the theorem: the key read by the SELF is the constant "m", although its register is
   the one the SELF overwrites with the receiver *)
Example self_reads_m :
  forall s1, exec_op ml0 gf0 cl_self (cf_self 2) w_loadk None (init_vstate p_self) = VRet false s1 ->
  rkString p_self 1 1 s1 = VRet (VStr [109]) s1.
Proof.
  intros s1 H.
  destruct self_static as (_ & Hs & Hpc & Hw & Hr & _).
  destruct (VM.StrKeyVmx.regkey_reads_constant_lemma ml0 gf0 cl_self 2 w_self 1 Hs Hpc Hw Hr)
    as (w1 & str & Hw1 & _ & _ & Hstr & Hrun).
  assert (w1 = w_loadk) as -> by (vm_compute in Hw1; inversion Hw1; reflexivity).
  assert (str = [109]) as -> by (vm_compute in Hstr; inversion Hstr; reflexivity).
  destruct (Hrun (cf_self 2) (cf_self 3) None _ _ _ ltac:(vm_compute; discriminate) eq_refl H) as [Hk _].
  exact Hk.
Qed.
