(* C13 — non-vacuity: concrete states and runs satisfying the hypotheses of the theorems. *)
From GL Require Import Common.Bytes Chan.ChanModel Chan.ChanSpec Chan.ChanFacts Chan.IsoModel Chan.IsoFacts.

(* two channels (unbuffered, capacity 2), three threads: a rendezvous, buffered sends, a select, a close *)
Definition ex_ls : list label :=
  [ LInv 1 (OSend 0%nat (VNum 11)); LInv 2 (ORecv 0%nat);
    LLin (ARdv 1 2 0%nat (VNum 11)) 0 0;
    LRes 2 (ORecv 0%nat) (RRecv true (VNum 11)); LRes 1 (OSend 0%nat (VNum 11)) RSendOk;
    LInv 1 (OSend 1%nat (VNum 12)); LLin (ASend 1 1%nat (VNum 12)) 0 0; LRes 1 (OSend 1%nat (VNum 12)) RSendOk;
    LInv 3 (OSend 1%nat (VNum 31)); LLin (ASend 3 1%nat (VNum 31)) 0 0; LRes 3 (OSend 1%nat (VNum 31)) RSendOk;
    LInv 2 (OSelect [SRecv 0%nat; SRecv 1%nat; SDefault]);
    LLin (ARecv 2 1%nat (VNum 12)) 1 0;
    LRes 2 (OSelect [SRecv 0%nat; SRecv 1%nat; SDefault]) (RSel 1 (VNum 12) true);
    LInv 3 (OClose 1%nat); LLin (AClose 3 1%nat) 0 0; LRes 3 (OClose 1%nat) RCloseOk;
    LInv 2 (ORecv 1%nat); LLin (ARecv 2 1%nat (VNum 31)) 0 0; LRes 2 (ORecv 1%nat) (RRecv true (VNum 31));
    LInv 2 (ORecv 1%nat) ].

Definition ex_state : state :=
  mkSt [mkChan [] 0 false; mkChan [] 2 true] [(2, ORecv 1%nat)] [].

Example ex_run : run (init [0; 2]) ex_ls = Some ex_state.
Proof. vm_compute. reflexivity. Qed.

(* hypotheses of chan_exactly_once / chan_fifo_per_sender, with something delivered on both channels *)
Example ex_delivered : vals (recvd_on 1%nat ex_ls) = [VNum 12; VNum 31] /\ vals (recvd_on 0%nat ex_ls) = [VNum 11].
Proof. vm_compute. auto. Qed.

(* hypotheses of closed_drained_reports: channel 1 is closed and drained, thread 2 has a receive pending *)
Example ex_closed : closed_drained (chs ex_state) 1%nat /\ find_t 2 (pend ex_state) = Some (ORecv 1%nat) /\ find_t 2 (fin ex_state) = None.
Proof. split; [|split]; try reflexivity. exists (mkChan [] 2 true). auto. Qed.

(* hypotheses of select_only_ready: a default taken on two channels that cannot proceed ... *)
Example ex_select_default :
  let chs0 := [mkChan [] 0 false; mkChan [VNum 1] 1 false] in
  let cs := [SRecv 0%nat; SSend 1%nat (VNum 2); SDefault] in
  apply_act chs0 (ADefault 7 cs) = Some chs0 /\ completes 7 (OSelect cs) (ADefault 7 cs) 2 = Some (RSel 2 VNil false).
Proof. vm_compute. auto. Qed.

(* ... and a receive case chosen by hand-off from a sender *)
Example ex_select_rdv :
  let chs0 := [mkChan [] 0 false] in
  apply_act chs0 (ARdv 1 2 0%nat (VStr [104])) = Some chs0 /\
  completes 2 (OSelect [SDefault; SRecv 0%nat]) (ARdv 1 2 0%nat (VStr [104])) 1 = Some (RSel 1 (VStr [104]) true).
Proof. vm_compute. auto. Qed.

(* hypotheses of payload_filter: an unsafe select is pending and refused *)
Example ex_refused :
  let s := mkSt [mkChan [] 1 false] [(4, OSelect [SRecv 0%nat; SSend 0%nat (VTable 1 true [])])] [] in
  op_unsafe (OSelect [SRecv 0%nat; SSend 0%nat (VTable 1 true [])]) = true /\
  exec s (LLin (ARefused 4) 0 0) = Some (mkSt [mkChan [] 1 false] [] [(4, (OSelect [SRecv 0%nat; SSend 0%nat (VTable 1 true [])], RErrRefused))]).
Proof. vm_compute. auto. Qed.

(* hypotheses of trace_ok_sound / trace_ok_exactly_once / trace_ok_fifo: an accepted log with two
   senders, one receiver, overlapping operations and pairwise distinct payloads *)
Definition ex_log : list event :=
  [ EInv 1 (OSend 0%nat (VNum 1)); EInv 2 (OSend 0%nat (VNum 2)); EInv 3 (ORecv 0%nat);
    ERes 2 (OSend 0%nat (VNum 2)) RSendOk; ERes 1 (OSend 0%nat (VNum 1)) RSendOk;
    ERes 3 (ORecv 0%nat) (RRecv true (VNum 1));
    EInv 1 (OSend 0%nat (VNum 3)); EInv 3 (ORecv 0%nat); ERes 3 (ORecv 0%nat) (RRecv true (VNum 2));
    ERes 1 (OSend 0%nat (VNum 3)) RSendOk;
    EInv 3 (ORecv 0%nat); ERes 3 (ORecv 0%nat) (RRecv true (VNum 3));
    EInv 2 (OClose 0%nat); ERes 2 (OClose 0%nat) RCloseOk;
    EInv 3 (ORecv 0%nat); ERes 3 (ORecv 0%nat) (RRecv false VNil) ].

Example ex_trace_ok : trace_ok [2] ex_log = true /\ spec_log [2] ex_log = true.
Proof. vm_compute. auto. Qed.

Example ex_log_distinct : NoDup (log_sent 0%nat ex_log) /\ log_sent_by 1 0%nat ex_log = [VNum 1; VNum 3] /\
  log_recvd_by 3 0%nat ex_log = [VNum 1; VNum 2; VNum 3].
Proof.
  split; [|split]; try reflexivity. vm_compute.
  repeat constructor; simpl; intuition discriminate.
Qed.

(* hypotheses of trace_ok_fifo_realtime: split ex_log after the first receive has returned; the
   receiver is idle there and takes 3 (sent by thread 1 after 1) later *)
Example ex_realtime :
  let log1 := firstn 6 ex_log in let log2 := skipn 6 ex_log in
  log1 ++ log2 = ex_log /\ In (VNum 1) (log_recvd 0%nat log1) /\ open_inv 3 log1 = false /\
  In (VNum 3) (log_recvd_by 3 0%nat log2) /\
  In (VNum 1) (log_sent_by 1 0%nat ex_log) /\ In (VNum 3) (log_sent_by 1 0%nat ex_log).
Proof. vm_compute. intuition. Qed.

(* the checker rejects what the protocol forbids: a value received twice, reordering, closure
   reported while a value is still undelivered, a send completing on an unbuffered channel before
   any receiver was invoked, default taken while a value sits in the buffer *)
Example ex_reject_duplicate :
  trace_ok [1] [EInv 1 (OSend 0%nat (VNum 1)); ERes 1 (OSend 0%nat (VNum 1)) RSendOk;
                EInv 2 (ORecv 0%nat); ERes 2 (ORecv 0%nat) (RRecv true (VNum 1));
                EInv 2 (ORecv 0%nat); ERes 2 (ORecv 0%nat) (RRecv true (VNum 1))] = false.
Proof. vm_compute. reflexivity. Qed.

Example ex_reject_reorder :
  let log := [EInv 1 (OSend 0%nat (VNum 1)); ERes 1 (OSend 0%nat (VNum 1)) RSendOk;
              EInv 1 (OSend 0%nat (VNum 2)); ERes 1 (OSend 0%nat (VNum 2)) RSendOk;
              EInv 2 (ORecv 0%nat); ERes 2 (ORecv 0%nat) (RRecv true (VNum 2));
              EInv 2 (ORecv 0%nat); ERes 2 (ORecv 0%nat) (RRecv true (VNum 1))] in
  trace_ok [2] log = false /\ spec_log [2] log = false.
Proof. vm_compute. auto. Qed.

Example ex_reject_early_closure :
  let log := [EInv 1 (OSend 0%nat (VNum 1)); ERes 1 (OSend 0%nat (VNum 1)) RSendOk;
              EInv 1 (OClose 0%nat); ERes 1 (OClose 0%nat) RCloseOk;
              EInv 2 (ORecv 0%nat); ERes 2 (ORecv 0%nat) (RRecv false VNil)] in
  trace_ok [1] log = false /\ spec_log [1] log = false.
Proof. vm_compute. auto. Qed.

(* closure reported on a channel nobody has closed (values still to come) *)
Example ex_reject_closure_without_close :
  let log := [EInv 1 (OSend 0%nat (VNum 1)); ERes 1 (OSend 0%nat (VNum 1)) RSendOk;
              EInv 2 (ORecv 0%nat); ERes 2 (ORecv 0%nat) (RRecv true (VNum 1));
              EInv 3 (ORecv 0%nat); ERes 3 (ORecv 0%nat) (RRecv false VNil);
              EInv 1 (OClose 0%nat); ERes 1 (OClose 0%nat) RCloseOk] in
  trace_ok [2] log = false /\ spec_log [2] log = false.
Proof. vm_compute. auto. Qed.

Example ex_reject_unbuffered_send_alone :
  trace_ok [0] [EInv 1 (OSend 0%nat (VNum 1)); ERes 1 (OSend 0%nat (VNum 1)) RSendOk;
                EInv 2 (ORecv 0%nat); ERes 2 (ORecv 0%nat) (RRecv true (VNum 1))] = false.
Proof. vm_compute. reflexivity. Qed.

Example ex_reject_default_while_ready :
  let log := [EInv 1 (OSend 0%nat (VNum 1)); ERes 1 (OSend 0%nat (VNum 1)) RSendOk;
              EInv 2 (OSelect [SRecv 0%nat; SDefault]); ERes 2 (OSelect [SRecv 0%nat; SDefault]) (RSel 1 VNil false);
              EInv 2 (ORecv 0%nat); ERes 2 (ORecv 0%nat) (RRecv true (VNum 1))] in
  trace_ok [1] log = false /\ spec_log [1] log = false.
Proof. vm_compute. auto. Qed.

(* limit_failure_consumes_nothing: a state with a value in the buffer and a pending receive; the
   receive fails for lack of room (ALimit), the channel is as before, and the retry takes the value *)
Definition ex_lim_ls : list label :=
  [LInv 1 (OSend 0%nat (VNum 7)); LLin (ASend 1 0%nat (VNum 7)) 0 0; LRes 1 (OSend 0%nat (VNum 7)) RSendOk;
   LInv 2 (ORecv 0%nat)].
Example ex_limit_failure :
  exists s s' s2 s3,
    run (init [1]) ex_lim_ls = Some s /\ exec s (LLin (ALimit 2) 0 0) = Some s' /\
    chs s' = chs s /\ find_t 2 (fin s') = Some (ORecv 0%nat, RErrLimit) /\
    run s' [LRes 2 (ORecv 0%nat) RErrLimit; LInv 2 (ORecv 0%nat)] = Some s2 /\
    exec s2 (LLin (ARecv 2 0%nat (VNum 7)) 0 0) = Some s3 /\
    find_t 2 (fin s3) = Some (ORecv 0%nat, RRecv true (VNum 7)).
Proof. vm_compute. do 4 eexists. repeat split; reflexivity. Qed.

(* the log checker accepts a failed receive / select that left the value where it was ... *)
Example ex_accept_limit_failure :
  let log := [EInv 1 (OSend 0%nat (VNum 1)); ERes 1 (OSend 0%nat (VNum 1)) RSendOk;
              EInv 1 (ORecv 0%nat); ERes 1 (ORecv 0%nat) RErrLimit;
              EInv 1 (OSelect [SRecv 0%nat]); ERes 1 (OSelect [SRecv 0%nat]) RErrLimit;
              EInv 1 (OSelect [SRecv 0%nat; SDefault]); ERes 1 (OSelect [SRecv 0%nat; SDefault]) (RSel 0 (VNum 1) true);
              EInv 1 (OClose 0%nat); ERes 1 (OClose 0%nat) RCloseOk;
              EInv 1 (ORecv 0%nat); ERes 1 (ORecv 0%nat) (RRecv false VNil)] in
  trace_ok [1] log = true /\ spec_log [1] log = true.
Proof. vm_compute. auto. Qed.

(* ... and rejects one after which the value is gone (default although the value was sent and
   never received; closure reported with the value undelivered) *)
Example ex_reject_limit_failure_that_consumed :
  let log := [EInv 1 (OSend 0%nat (VNum 1)); ERes 1 (OSend 0%nat (VNum 1)) RSendOk;
              EInv 1 (ORecv 0%nat); ERes 1 (ORecv 0%nat) RErrLimit;
              EInv 1 (OSelect [SRecv 0%nat; SDefault]); ERes 1 (OSelect [SRecv 0%nat; SDefault]) (RSel 1 VNil false)] in
  let log2 := [EInv 1 (OSend 0%nat (VNum 1)); ERes 1 (OSend 0%nat (VNum 1)) RSendOk;
              EInv 1 (ORecv 0%nat); ERes 1 (ORecv 0%nat) RErrLimit;
              EInv 1 (OClose 0%nat); ERes 1 (OClose 0%nat) RCloseOk;
              EInv 1 (ORecv 0%nat); ERes 1 (ORecv 0%nat) (RRecv false VNil)] in
  trace_ok [1] log = false /\ spec_log [1] log = false /\ trace_ok [1] log2 = false /\ spec_log [1] log2 = false.
Proof. vm_compute. auto. Qed.

(* ... and a failed select send case that nevertheless sent (the value arrives although, by the
   log, nobody sent it), and a failed send or close (they store nothing: never RErrLimit) *)
Example ex_reject_limit_failure_that_sent :
  let log := [EInv 1 (OSelect [SSend 0%nat (VNum 1)]); ERes 1 (OSelect [SSend 0%nat (VNum 1)]) RErrLimit;
              EInv 1 (OSelect [SRecv 0%nat; SDefault]); ERes 1 (OSelect [SRecv 0%nat; SDefault]) (RSel 0 (VNum 1) true)] in
  let log2 := [EInv 1 (OSend 0%nat (VNum 1)); ERes 1 (OSend 0%nat (VNum 1)) RErrLimit] in
  trace_ok [1] log = false /\ spec_log [1] log = false /\ trace_ok [1] log2 = false /\ spec_log [1] log2 = false.
Proof. vm_compute. auto. Qed.

(* isolation: a concrete step function (a counter that emits its value; the prototype is the increment) *)
Definition ex_step (p : Z) (st : Z) : Z * list Z := (st + p, [st]).
Example ex_iso :
  let w := mkW Z Z Z 3 [0; 100] [[]; []] in
  states _ _ _ (wrun _ _ _ ex_step [0; 1; 0; 1; 1]%nat w) = [6; 109] /\
  traces _ _ _ (wrun _ _ _ ex_step [0; 1; 0; 1; 1]%nat w) = [[0; 3]; [100; 103; 106]] /\
  alone _ _ _ ex_step 2 3 0 [] = (6, [0; 3]).
Proof. vm_compute. auto. Qed.
