(* C12 — non-vacuity examples. *)
From GL Require Import Stack.Registry Stack.RegSpec Stack.CallFrames.
