(* C12 — non-vacuity: concrete, non-trivial states and histories meeting the hypotheses of the
   theorems in Properties/C12.v. *)
From GL Require Import Stack.Registry Stack.RegSpec Stack.CallFrames Stack.Client
  Stack.CallFramesFacts Stack.RegistryFacts Stack.ClientFacts.
From Coq Require Import Lia.

Definition d8 : list frame := repeat (mkFrame 77 77) 8.
Definition pushes (n : nat) : list sop := map (fun i => SPush (Z.of_nat i) d8) (seq 1 n).

(* a history in the domain that fills a fixed stack of 3, queries, unwinds *)
Definition hF : list sop := pushes 3 ++ [SIsFull; SLast; SAt 1; SSetSp 3; SPop; SSetSp 1; SSp; SIsEmpty].
Example fixed_dom : ldom 3 [] hF = true.
Proof. vm_compute. reflexivity. Qed.
Example fixed_run : frun (newFixed 3) hF = lrun 3 [] hF.
Proof. apply fixed_refines_stack_lemma; [lia|exact fixed_dom]. Qed.

(* maxSize 17 -> 3 segments, capacity 24: cross two segment boundaries, SetSp(16) at depth 16 with
   segment 2 not allocated (the C12-2 situation), SetSp(8) from above, fill to capacity *)
Definition hA : list sop :=
  pushes 16 ++ [SSetSp 16; SSp; SLast; SPush 100 d8; SPush 101 d8; SSetSp 16; SPop; SSetSp 8; SLast; SSp]
  ++ pushes 16 ++ [SIsFull; SAt 23; SSetSp 24; SSp; SSetSp 0; SIsEmpty].
Example auto_dom : ldom (autoCap 17) [] hA = true.
Proof. vm_compute. reflexivity. Qed.
Example auto_run : arun_ (newAuto 17 d8) hA = lrun (autoCap 17) [] hA
                   /\ Ra (afinal (newAuto 17 d8) hA) (lfinal (autoCap 17) [] hA).
Proof. apply auto_refines_stack_lemma; [lia|reflexivity|exact auto_dom]. Qed.
Example auto_run_nontrivial : In (OBool true) (lrun (autoCap 17) [] hA) /\ In (OZ 16) (lrun (autoCap 17) [] hA).
Proof. split; vm_compute; tauto. Qed.

(* a registry of 2 cells growing by 1 up to 5: growth, a refused operation, raisePush at the limit *)
Definition hR : list rop :=
  [RPush (VInt 1); RPush (VInt 2); RPush (VInt 3); RCopyRange 1 2 (-1) 3; RSetTop 6; RSetTop 5;
   RPush (VInt 9); RPush (VInt 4); RPop; RInsert (VInt 7) 1; RMove 0 2; RFillNil 2 2; RGet 1].
Example reg_rel : Rr (newRegistry 2 1 5) [] 5.
Proof. apply (Rr_new 2 1 5); lia. Qed.
Example reg_dom : ldomR [] 5 hR = true.
Proof. vm_compute. reflexivity. Qed.
Example reg_run : rrun (newRegistry 2 1 5) hR = lrunR [] 5 hR.
Proof. apply registry_refines_list_lemma; [exact reg_rel|exact reg_dom]. Qed.
Example reg_run_has_overflow : exists b, In b (lrunR [] 5 hR) /\ ost b = SOverflow.
Proof. eexists. split; [vm_compute; right; right; right; right; left; reflexivity|reflexivity]. Qed.

(* an error raised with the registry exactly full: the message fits, the limit is still 5, and
   after the catch (SetTop 2) the registry is represented under limit 5 again *)
Definition rFull : registry := mkReg [Some (VInt 1); Some (VInt 2); Some (VInt 3); Some (VInt 4); Some (VInt 5)] 5 5 1 5.
Example rFull_rel : Rr rFull [Some (VInt 1); Some (VInt 2); Some (VInt 3); Some (VInt 4); Some (VInt 5)] 5.
Proof. constructor; vm_compute; try reflexivity; try discriminate. left. discriminate. Qed.
Example raise_full : exists r', raisePush rFull (Some VMsg) = Ok r' /\ cap r' = 6 /\ limit r' = 5 /\ top r' = 6.
Proof. eexists. split; [reflexivity|]. vm_compute. auto. Qed.

(* below the limit / above the limit on the same represented registry *)
Example grow_ok : exists r', rstep (newRegistry 2 1 5) (RSetTop 5) = Ok (r', None) /\ Rr r' (resizeN [] 5) 5.
Proof. apply (registry_grow_transparent_lemma _ [] 5 (RSetTop 5) reg_rel); [reflexivity|vm_compute; discriminate]. Qed.
Example overflow : rstep (newRegistry 2 1 5) (RSetTop 6) = Overflow.
Proof. apply (registry_overflow_error_lemma _ [] 5 (RSetTop 6) reg_rel); [reflexivity|vm_compute; reflexivity]. Qed.

(* options: a setting NewState changes and one it keeps *)
Example opts_changed : normalise (mkOpt 0 100 50 0 true) = mkOpt 256 5120 0 0 true.
Proof. reflexivity. Qed.
Example opts_kept : normal (mkOpt 9 128 131072 1 true) /\ normalise (mkOpt 9 128 131072 1 true) = mkOpt 9 128 131072 1 true.
Proof. split; [unfold normal; simpl; lia|reflexivity]. Qed.

(* a client that looks at its answers: pushes until depth 6 (asking Sp each time), then unpacks 130
   cells into the registry, below CallStackSize 7 (fixed) / 9 (auto: 16) and registries 128+grow / 5120 *)
Fixpoint pushTo (fuel : nat) (k : client) : client :=
  match fuel with
  | O => k
  | S f => Ask (VS SSp) (fun a => match a with
                                 | AS (OZ d) => if d <? 6 then Ask (VS (SPush d [])) (fun _ => pushTo f k) else k
                                 | _ => Done end)
  end.
Definition theClient : client :=
  pushTo 10 (Ask (VR (RSetTop 130)) (fun _ => Ask (VR (RPush (VInt 5))) (fun _ =>
            Ask (VS SIsFull) (fun _ => Ask (VS (SSetSp 6)) (fun _ => Ask (VS SPop) (fun _ => Ask (VR RPop) (fun _ => Done))))))).
Definition oA := mkOpt 7 128 131072 1 false.
Definition oB := mkOpt 9 5120 0 32 true.
Example client_below : vbelow (Z.min (callLimit oA) (callLimit oB)) (Z.min (regLimit oA) (regLimit oB)) [] [] theClient.
Proof. vm_compute. repeat split; discriminate. Qed.
Example client_same : run_config oA (fun _ => d8) theClient = run_config oB (fun n => repeat (mkFrame (Z.of_nat n) 3) 8) theClient.
Proof.
  apply config_independent_lemma; try exact client_below.
  - unfold normal, oA; simpl; lia.
  - unfold normal, oB; simpl; lia.
  - intros; reflexivity.
  - intros n. unfold len. rewrite repeat_length. reflexivity.
Qed.
Example client_trace_len : length (vspec [] [] theClient) = 19%nat.
Proof. vm_compute. reflexivity. Qed.

(* ---- wave 5 ---- *)
From GL Require Import Stack.Handover Stack.HandoverFacts Stack.CtxTree Stack.CtxTreeFacts.

(* a resumer holding 3 values under a limit of 6 (registry of 4 cells growing by 1 up to 6) and a
   coroutine with 5 live cells yielding its top 2: boolean + 2 values fit exactly (growth on the way) ... *)
Definition hoP : registry := mkReg [Some (VInt 1); Some (VInt 2); Some (VInt 3); None] 3 4 1 6.
Definition hoC : registry := mkReg [Some (VInt 10); Some (VInt 11); Some (VInt 12); Some (VInt 13); Some (VInt 14); None] 5 6 0 0.
Example hoP_rel : Rr hoP [Some (VInt 1); Some (VInt 2); Some (VInt 3)] 6.
Proof. constructor; try (vm_compute; reflexivity); try (vm_compute; discriminate); cbn; lia. Qed.
Example hoC_rel : Rr hoC [Some (VInt 10); Some (VInt 11); Some (VInt 12); Some (VInt 13); Some (VInt 14)] 6.
Proof. constructor; try (vm_compute; reflexivity); try (vm_compute; discriminate); cbn; lia. Qed.
Example ho_fits : exists p' c', handover hoP hoC false (Some (VRef 1)) 2 = HoDone p' c' /\
  live p' = [Some (VInt 1); Some (VInt 2); Some (VInt 3); Some (VRef 1); Some (VInt 13); Some (VInt 14)] /\
  live c' = [Some (VInt 10); Some (VInt 11); Some (VInt 12)].
Proof. eexists. eexists. vm_compute. repeat split. Qed.
(* ... one value more does not: refused, resumer unchanged, the coroutine's values dropped all the same *)
Example ho_refused : exists c', handover hoP hoC false (Some (VRef 1)) 3 = HoRefused hoP c' /\
  live c' = [Some (VInt 10); Some (VInt 11)].
Proof. eexists. vm_compute. repeat split. Qed.
(* the hypotheses of handover_nocount_torn are met by the same pair with 3 values: 3 + 3 = 6 *)
Example ho_nocount_torn : handover_gen false hoP hoC false (Some (VRef 1)) 3 = HoTorn.
Proof.
  apply (handover_nocount_torn_lemma hoP hoC _ _ 6 6 _ 3 hoP_rel hoC_rel); vm_compute; [split; discriminate|reflexivity].
Qed.

(* a worker (2) finishes inside its creator (1), which creates another (3) and goes on; 1 finishes
   while 3 is alive (1's context must wait), then 3 finishes *)
Definition hX : list xop := [XNew 0; XNew 1; XDie 2; XNew 1; XDie 1; XNew 3; XDie 3; XDie 4].
Example ctx_dom : sdomrun [] hX = true.
Proof. vm_compute. reflexivity. Qed.
Example ctx_obs : xobs [] hX =
  [[false]; [false; false]; [false; true]; [false; true; false]; [false; true; false];
   [false; true; false; false]; [false; true; false; false]; [true; true; true; true]].
Proof. vm_compute. reflexivity. Qed.
Example ctx_run : exists f, xrun [] hX = Some f /\ live_not_done (map ndead f) (done_flags f) = true.
Proof. destruct (ctx_live_never_done_lemma hX ctx_dom) as (f & R & _ & L & _). eauto. Qed.
