(* C16 — non-vacuity: concrete inputs meeting the hypotheses of the property theorems, and
   instances of the oracle hypotheses. *)
From GL Require Import Common.Bytes Text.Quote Text.StrLit Text.NumRead Text.NumText Text.Date
  Text.NumFacts Text.NumLexFacts Text.NumTextFacts Text.DateFacts Text.RoundFacts Text.CalFacts
  Text.Reader Text.ReaderFacts.
From Coq Require Import Lia ZifyBool.

(* ---- %q ---- *)
Example ex_quote_bytes : is_bytes [0; 10; 13; 34; 92; 200; 255; 48] = true.
Proof. reflexivity. Qed.
Example ex_quote_roundtrip :
  lua_quote [0; 10; 13; 34; 92; 200; 255; 48] = [34; 92;48;48;48; 92;10; 92;114; 92;34; 92;92; 200; 255; 48; 34]
  /\ lex_string (lua_quote [0; 10; 13; 34; 92; 200; 255; 48]) = Some [0; 10; 13; 34; 92; 200; 255; 48].
Proof. split; reflexivity. Qed.

(* ---- short strings: every kind of item, a 2-digit escape before a non-digit, CRLF after a backslash ---- *)
Definition ex_items : list item :=
  [IRaw 97; IEsc 110; IEsc 34; IEsc 113; IDec [2; 5; 5]; IDec [0]; IRaw 120; IDec [6; 5]; INl NlCRLF; INl NlLF; IRaw 255; IDec [1; 0]].
Example ex_short_wf : wf_items 34 ex_items = true /\ wf_items 39 ex_items = true.
Proof. split; reflexivity. Qed.
Example ex_short_value :
  denote_items ex_items = [97; 10; 34; 113; 255; 0; 120; 65; 10; 10; 255; 10]
  /\ lex_string (34 :: render_items ex_items ++ [34]) = Some (denote_items ex_items).
Proof. split; reflexivity. Qed.

(* ---- long brackets: level 2 around closers of levels 0, 1, 3 and all line-break forms ---- *)
Definition ex_body : bytes := [13; 10; 93; 93; 97; 93; 61; 93; 13; 98; 10; 13; 93; 61; 61; 61; 93; 10; 93; 61].
Example ex_long_ok : is_bytes ex_body = true /\ no_closer 2 ex_body = true /\ no_closer 1 ex_body = false.
Proof. repeat split; reflexivity. Qed.
Example ex_long_value :
  long_denotes ex_body = [93; 93; 97; 93; 61; 93; 10; 98; 10; 93; 61; 61; 61; 93; 10; 93; 61]
  /\ lex_string (long_open 2 ++ ex_body ++ long_close 2) = Some (long_denotes ex_body).
Proof. split; reflexivity. Qed.

(* ---- numerals: members of the grammar ---- *)
(* " -0012.50e+3 " : blanks, sign, leading zeros, fraction, exponent *)
Example ex_numeral : Numeral ([32] ++ [45] ++ ([48;48;49;50] ++ 46 :: [53;48] ++ (101 :: [43] ++ [51])) ++ [9])
                             (-1 * digits_val ([48;48;49;50] ++ [53;48])) (1 * digits_val [51] - len [53;48]).
Proof.
  apply Num; try reflexivity; try constructor. apply DecFrac; try reflexivity; try discriminate.
  apply ExSome; try reflexivity; try constructor. discriminate.
Qed.
Example ex_numeral_value : parse_exact [32;45;48;48;49;50;46;53;48;101;43;51;9] = Some (-1250, 1).
Proof. reflexivity. Qed.
Example ex_hex : HexNumeral [48; 88; 49; 102] 31.
Proof. apply (HexN 88 [49; 102]); try reflexivity. discriminate. Qed.
Example ex_three_readers :
  tonumber [48;48;49;48] None = Some (10, 0) /\ coerce [48;48;49;48] = Some (10, 0) /\ lex_numeral [48;48;49;48] = LNVal 10 0
  /\ tonumber [49;101;50] None = Some (1, 2) /\ lex_numeral [49;101] = LNReject /\ coerce [48;98;49;49] = None.
Proof. repeat split; reflexivity. Qed.
Example ex_radix : RadixNumeral 36 ([32] ++ [45] ++ [] ++ [122; 90] ++ [13]) (-1 * radix_value 36 [122; 90] 0)
                   /\ tonumber [32; 45; 122; 90; 13] (Some 36) = Some (-1295, 0).
Proof.
  split; [|reflexivity].
  apply Radix; try reflexivity; try constructor. discriminate.
Qed.
Example ex_radix_hex : RadixNumeral 16 ([] ++ [43] ++ [48; 88] ++ [102; 102; 102; 102; 102; 102; 102; 102; 102; 102; 102; 102; 102; 102; 102; 102] ++ [])
                                       (1 * radix_value 16 [102; 102; 102; 102; 102; 102; 102; 102; 102; 102; 102; 102; 102; 102; 102; 102] 0)
                       /\ tonumber [43; 48; 88; 102; 102; 102; 102; 102; 102; 102; 102; 102; 102; 102; 102; 102; 102; 102; 102] (Some 16) = Some (18446744073709551615, 0).
Proof.
  split; [|reflexivity].
  apply Radix; try reflexivity; try constructor; try reflexivity. discriminate.
Qed.

Example ex_token_extent : scan_number 48 ([120; 49; 101] ++ [43; 49]) = Some ([48; 120; 49; 101], [43; 49]).
Proof. reflexivity. Qed.

(* ---- integers as text ---- *)
Example ex_integral : int_of_fval (Fin (-3) 4) = Some (-48) /\ lnumber_string (fun _ => []) (Fin (-3) 4) = [45; 52; 56].
Proof. split; reflexivity. Qed.

(* ---- the strconv oracle hypotheses of tostring_tonumber are satisfiable ---- *)
(* a rounding function and a formatter that satisfy both hypotheses (they carry the binary exponent
   in the decimal exponent field; strconv's real ones are compared with the code by the harness) *)
Definition ex_rnd (m e : Z) : fval := if e <? 0 then Fin m e else canon m 0.
Definition ex_fmt (x : fval) : bytes :=
  match x with
  | Fin m e => if e <? 0 then print_int m ++ 101 :: print_int e else print_int (m * 2 ^ e)
  | _ => []
  end.

Lemma ex_rnd_int_exact : forall x z, is_canon x = true -> int_of_fval x = Some z -> ex_rnd z 0 = x.
Proof.
  intros x z Hc Hz. destruct x as [m e| | |]; try discriminate. simpl in Hz.
  destruct (0 <=? e) eqn:E; [|discriminate]. inversion Hz; subst. unfold ex_rnd. cbn [Z.ltb Z.compare].
  simpl in Hc. destruct (m =? 0) eqn:Em.
  - assert (m = 0) by lia. assert (e = 0) by lia. subst. reflexivity.
  - apply (canon_shift m e 0); [assumption|lia].
Qed.

Lemma print_exp_numeral : forall m e, e < 0 -> parse_exact (print_int m ++ 101 :: print_int e) = Some (m, e).
Proof.
  intros m e He. apply parse_exact_complete.
  assert (Hex : Exponent (101 :: [45] ++ print_nat (- e)) (-1 * digits_val (print_nat (- e)))).
  { destruct (print_nat_spec (- e) ltac:(lia)) as (_ & H2 & H3). apply ExSome; try assumption; try reflexivity. constructor. }
  destruct (print_nat_spec (- e) ltac:(lia)) as (Hv & _ & _). rewrite Hv in Hex.
  replace (-1 * - e) with e in Hex by lia.
  unfold print_int at 2. replace (e <? 0) with true by lia.
  unfold print_int. destruct (m <? 0) eqn:Em.
  - destruct (print_nat_spec (- m) ltac:(lia)) as (Hm & Hd & Hne).
    replace ((45 :: print_nat (- m)) ++ 101 :: 45 :: print_nat (- e))
      with ([] ++ [45] ++ (print_nat (- m) ++ 101 :: [45] ++ print_nat (- e)) ++ []) by (simpl; now rewrite app_nil_r).
    replace m with (-1 * (- m)) at 2 by lia.
    apply Num; try reflexivity; [constructor|]. apply UDec. rewrite <- Hm at 2. now apply DecInt.
  - destruct (print_nat_spec m ltac:(lia)) as (Hm & Hd & Hne).
    apply unsigned_is_numeral. apply UDec. rewrite <- Hm at 2.
    change (101 :: 45 :: print_nat (- e)) with (101 :: [45] ++ print_nat (- e)). now apply DecInt.
Qed.

Lemma ex_fmt_roundtrip : forall x, is_finite x = true -> is_canon x = true -> is_integer x = false ->
  parse_number ex_rnd (ex_fmt x) = Some x.
Proof.
  intros x Hf Hc Hi. destruct x as [m e| | |]; try discriminate. unfold ex_fmt, parse_number.
  destruct (e <? 0) eqn:E.
  - rewrite print_exp_numeral by lia. unfold ex_rnd. now rewrite E.
  - rewrite int_print_parse_lemma. f_equal. apply ex_rnd_int_exact; [assumption|].
    simpl. replace (0 <=? e) with true by lia. reflexivity.
Qed.

Example ex_tostring_tonumber : forall x, is_finite x = true -> is_canon x = true ->
  tonumber_f ex_rnd (lnumber_string ex_fmt x) None = Some x.
Proof. exact (tostring_tonumber_lemma ex_rnd ex_fmt ex_rnd_int_exact ex_fmt_roundtrip). Qed.

(* the concrete reader used by the case evaluator, on a few values *)
Example ex_round_dec : round_dec 1 (-1) = Fin 3602879701896397 (-55) /\ round_dec 9007199254740993 0 = Fin 1 53
  /\ round_dec 17976931348623159 292 = PInf /\ round_dec 5 (-324) = Fin 1 (-1074).
Proof. repeat split; vm_compute; reflexivity. Qed.

(* ---- the reader ---- *)
(* `a CR LF b` delivered with the pair split between two fills, one byte at a time with empty
   Reads, and at once: the same characters a LF b EOF *)
Example ex_reader_split :
  chars_rd 4 (mkRd [] [[97; 13]; [10; 98]]) = [97; 10; 98; -1]
  /\ chars_rd 4 (mkRd [] [[97]; []; [13]; []; []; [10]; [98]]) = [97; 10; 98; -1]
  /\ chars_rd 4 (mkRd [] [[97; 13; 10; 98]]) = [97; 10; 98; -1]
  /\ chars 4 [97; 13; 10; 98] = [97; 10; 98; -1].
Proof. repeat split; vm_compute; reflexivity. Qed.

(* the theorem discriminates: a Newline that does not look for the partner when nothing is buffered
   (not today's code) reads the split pair as two line ends *)
Example ex_reader_shortcut_refuted : exists r,
  next (flat r) <> (fst (next_rd_shortcut r), flat (snd (next_rd_shortcut r))).
Proof. exists (mkRd [13] [[10; 98]]). vm_compute. discriminate. Qed.

(* ---- dates ---- *)
(* the calendar hypothesis of time_date_roundtrip is satisfiable (a one-field calendar) ... *)
Example ex_cal_trivial :
  let to_civil := fun t => mkCivil t 1 1 0 0 0 0 1 in
  let of_civil := fun y (_ _ _ _ _ : Z) => y in
  (forall t, let c := to_civil t in of_civil (c_year c) (c_month c) (c_day c) (c_hour c) (c_min c) (c_sec c) = t)
  /\ forall t, os_time of_civil (os_date_t to_civil t) = Some t.
Proof. split; [reflexivity|]. intros t. now apply time_date_roundtrip_lemma. Qed.

(* ... and the Gregorian calendar of the case evaluator meets it everywhere (Text/CalFacts.v); sample points *)
Example ex_cal_gregorian :
  forallb (fun t => match os_time unix_of_civil (os_date_t civil_of_unix t) with Some t' => t' =? t | None => false end)
          [0; -1; 951782400; 951868799; -1893456000; 1893455999; 68169599; 68169600] = true.
Proof. vm_compute. reflexivity. Qed.

Example ex_strftime : strftime (civil_of_unix 951827696) [37; 89; 45; 37; 109; 45; 37; 100; 32; 37; 37; 32; 37; 97]
                      = [50;48;48;48; 45; 48;50; 45; 50;57; 32; 37; 32; 84;117;101].
Proof. vm_compute. reflexivity. Qed.
