(* C18 — non-vacuity: concrete states meeting the hypotheses of the theorems. *)
From GL Require Import Common.Bytes Table.TImpl Table.TBasics Table.TSpec Table.TInv Table.TRefine Table.TGet Table.TLib Table.TLibFacts Table.TLibNest Table.TLibNestFacts.
From Coq Require Import Lia Permutation.

Definition MAI := 67108864.

(* t = {3,1,2,5}; t[4] = nil; t.x = true : a list of 3 elements with a trailing nil cell and a
   non-list key *)
Definition hl : list op :=
  [OAppend (VNum 3); OAppend (VNum 1); OAppend (VNum 2); OAppend (VNum 5); ORawSet (KInt 4) VNil;
   ORawSetString [120] (VBool true)].
Definition tl := run MAI hl.

Example tl_arr : arr tl = [VNum 3; VNum 1; VNum 2; VNil].
Proof. reflexivity. Qed.

Example tl_ok : ok_from MAI empty hl.
Proof. simpl. repeat split; try discriminate; intros _; vm_compute; reflexivity. Qed.

Example tl_bounded : bounded MAI tl /\ len (arr tl) + 1 < MAI.
Proof. split; [apply (WF_run MAI hl tl_ok)|vm_compute; reflexivity]. Qed.

Example tl_is_list : is_list (RawGet MAI tl) 3.
Proof.
  split; [lia|]. split.
  - intros i Hi. assert (i = 1 \/ i = 2 \/ i = 3) as [->|[->| ->]] by lia; vm_compute; discriminate.
  - intros i Hi. destruct (is_array_key MAI (KInt i)) eqn:Ea.
    + rewrite RawGet_arr by assumption.
      assert (i = 4 \/ 4 < i) as [->|H] by lia; [reflexivity|].
      apply nthv_beyond. rewrite tl_arr. unfold len; simpl. lia.
    + rewrite RawGet_hash_int by assumption. reflexivity.
Qed.

Example tl_view : view (RawGet MAI tl) 3 = [VNum 3; VNum 1; VNum 2].
Proof. reflexivity. Qed.

(* the operations of the theorems on it *)
Example tl_ops :
  view (RawGet MAI (tableInsert3 MAI tl 2 (VNum 9))) 4 = [VNum 3; VNum 9; VNum 1; VNum 2]
  /\ view (RawGet MAI (tableInsert2 tl (VNum 9))) 4 = [VNum 3; VNum 1; VNum 2; VNum 9]
  /\ fst (tableRemove1 tl) = Some (VNum 2)
  /\ fst (tableRemove2 tl 1) = Some (VNum 3)
  /\ tableRemove2 tl 4 = (None, tl)
  /\ tableConcat MAI tl [44] (Some 2) (Some 5) = None
  /\ tableMaxN tl = KInt 3
  /\ tableMaxN (RawSet MAI tl (KDy 7 (-1)) (VNum 1)) = KDy 7 (-1)
  /\ tableConcat MAI tl [44] None None = Some [51; 44; 49; 44; 50]
  /\ tableConcat MAI tl [] (Some 4) (Some 3) = Some []
  /\ baseUnpack MAI tl (Some 2) None = [VNum 1; VNum 2]
  /\ tableGetN tl = 3.
Proof. repeat split; reflexivity. Qed.

Example tl_sort_range : firstn (Z.to_nat (Len tl)) (arr tl) = [VNum 3; VNum 1; VNum 2].
Proof. reflexivity. Qed.

Example tl_perm : Permutation [VNum 1; VNum 2; VNum 3] (view (RawGet MAI tl) 3).
Proof.
  rewrite tl_view. apply perm_trans with [VNum 1; VNum 3; VNum 2]; [constructor; apply perm_swap|apply perm_swap].
Qed.

(* a sort run with a failing comparator: in-range events, stops at the 2nd comparator call *)
Definition ex_arr := [VNum 3; VNum 1; VNum 2].
Definition ex_evs := [ELess 1 0; ESwap 0 1; ELess 2 1; ESwap 1 2].
Example ex_evs_in_range : forallb (ev_in_range (len ex_arr)) ex_evs = true.
Proof. reflexivity. Qed.
Example ex_run_fail :
  sort_run (cmp_fun (CFailAt 2)) ex_arr ex_evs [] = ([VNum 1; VNum 3; VNum 2], [(VNum 1, VNum 3); (VNum 2, VNum 3)], true).
Proof. reflexivity. Qed.
Example ex_run_ok :
  sort_run (cmp_fun CLt) ex_arr ex_evs [] = ([VNum 1; VNum 2; VNum 3], [(VNum 1, VNum 3); (VNum 2, VNum 3)], false).
Proof. reflexivity. Qed.

(* the empty list *)
Example empty_is_list : is_list (RawGet MAI empty) 0 /\ bounded MAI empty /\ len (arr empty) + 1 < MAI.
Proof.
  split; [|split; [apply WF_empty|vm_compute; reflexivity]].
  split; [lia|]. split; [intros i Hi; lia|]. intros i Hi. rewrite (refines_empty MAI (KInt i)). reflexivity.
Qed.

(* hypothesis of getn_maxn: the hash part of tl holds no numeric key (only the string key "x") *)
Example tl_no_numeric_hash : forall k, In k (map fst (dict tl)) -> num_ltb (KInt 3) k = false.
Proof. intros k []. Qed.

(* hypothesis of remove_outside *)
Example tl_outside : optz (Some 4) 3 < 1 \/ 3 < optz (Some 4) 3.
Proof. right. reflexivity. Qed.

(* sort_reentrant / sort_permutation_stateful: the outer comparator (a < b) sorts the list
   [5;4] held in the world at each of its calls (inner routine: one Less, one Swap) *)
Definition ex_ievs (k : Z) : list sev := if k =? 0 then [ELess 1 0; ESwap 0 1] else [ELess 1 0].
Example ex_ievs_in_range : forall k (w0 : list value),
  len w0 = len [VNum 5; VNum 4] -> forallb (ev_in_range (len w0)) (ex_ievs k) = true.
Proof. intros k w0 E. rewrite E. unfold ex_ievs. destruct (k =? 0); reflexivity. Qed.
Example ex_run_nested :
  sort_run_w (nesting_cmp ex_ievs (cmp_fun CLt) (cmp_fun CLt)) [VNum 5; VNum 4] ex_arr ex_evs []
  = ([VNum 4; VNum 5], ([VNum 1; VNum 2; VNum 3], [(VNum 1, VNum 3); (VNum 2, VNum 3)], false)).
Proof. reflexivity. Qed.
(* an inner comparator that fails makes the outer comparator fail: the outer run stops *)
Example ex_run_nested_fail :
  sort_run_w (nesting_cmp ex_ievs (cmp_fun (CFailAt 1)) (cmp_fun CLt)) [VNum 5; VNum 4] ex_arr ex_evs []
  = ([VNum 5; VNum 4], (ex_arr, [(VNum 1, VNum 3)], true)).
Proof. reflexivity. Qed.
(* a comparator with a counter as its world *)
Example ex_run_counter :
  sort_run_w (fun (w : Z) k x y => (w + 1, cmp_fun CLt k x y)) 0 ex_arr ex_evs []
  = (2, ([VNum 1; VNum 2; VNum 3], [(VNum 1, VNum 3); (VNum 2, VNum 3)], false)).
Proof. reflexivity. Qed.
