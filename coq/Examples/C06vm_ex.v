(* C06 — non-vacuity of the M-VM thread theorems: a state with a second (suspended) thread whose
   registers differ from the running one's. *)
From Coq Require Import Uint63 Floats List ZArith.
From GL Require Import Common.Bytes Lua.Syntax Lua.Values Lua.Run VMX.Machine VMX.Step VMX.VRun VMX.VmCases VMX.ThreadFacts.
Import ListNotations.
Open Scope Z_scope.

Definition p_ret : xproto := (XProto (w63 [134217728;1007026176;2214854658;2214592513]%uint63) [VNum 0x1p+0%float] [] 0 0 7 2 [1;2;2;3] 0).
Definition s0 : vstate := init_vstate p_ret.
Definition co_regs : registry := mkReg [Some (VNum 7%float); Some (VBool true)] 2.
Definition co_thread : thread := mkTh co_regs [] [] (Some 0%nat) false false true 0.
Definition s2 : vstate := with_threads s0 (vthreads s0 ++ [co_thread]).

Example hyps_hold : th_valid s2 (vcur s2) /\ th_valid s2 1%nat /\ vcur s2 = 0%nat /\ vreg s2 <> co_regs.
Proof. repeat split; try (vm_compute; auto; fail). vm_compute. discriminate. Qed.

Example switched_runs_co : vreg (switch_to 1 s2) = co_regs /\ vcur (switch_to 1 s2) = 1%nat.
Proof. split; reflexivity. Qed.

Example roundtrip_here : vreg (switch_to (vcur s2) (switch_to 1 s2)) = vreg s2.
Proof.
  destruct hyps_hold as [A [B _]].
  destruct (switch_roundtrip s2 1%nat A B) as [R _]. exact R.
Qed.
