(* C10 — non-vacuity examples. *)
From GL Require Import Stack.Registry Stack.StackApi.
