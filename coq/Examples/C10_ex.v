(* C10 — non-vacuity: concrete, non-trivial states meeting the hypotheses of Properties/C10.v. *)
From GL Require Import Stack.Registry Stack.RegSpec Stack.StackApi Stack.ArrayFacts
  Stack.RegistryFacts Stack.StackApiFacts Stack.CallContractFacts.
From Coq Require Import Lia.

Definition n (z : Z) : cell := Some (VInt z).

(* a registry of 12 cells, growable to 40, holding 3 callers' cells and a 3-element activation,
   with stale contents above the top *)
Definition pre0 := [n 100; Some (VRef 1); n 102].
Definition l0 := [n 1; Some VNil; n 3].
Definition r0 : registry := mkReg (pre0 ++ l0 ++ [n 77; None; n 78] ++ fresh 3) 6 12 4 40.

Example r0_rel : Rr r0 (pre0 ++ l0) 40.
Proof. constructor; vm_compute; try reflexivity; try discriminate. left. discriminate. Qed.

(* a script with valid, zero, top+1, -(top+1) and far indices, growth of the registry, an underflow *)
Definition script : list aop :=
  [AGet 0; AGet 4; AGet (-4); AGet 1000; AGet (-3); AInsert (VInt 5) 0; AInsert (VInt 6) (-1); AInsert (VInt 7) 6;
   ARemove (-6); ARemove 7; ARemove 2; AReplace (-1) (VInt 8); AReplace 9 (VInt 8); ASetTop 12; ASetTop (-3); AGetTop;
   APush (VInt 9); ASetTop (-100); APush (VInt 1); APop 2].
Example script_dom : L_dom l0 script = true. Proof. vm_compute. reflexivity. Qed.
Example script_fits : L_fits (len pre0) 40 l0 script = true. Proof. vm_compute. reflexivity. Qed.
Example script_run :
  fst (arun r0 (len pre0) script) = fst (L_run l0 script) /\
  Rr1 (snd (arun r0 (len pre0) script)) (pre0 ++ snd (L_run l0 script)) 40.
Proof. apply api_refines_list_lemma; [exact r0_rel|exact script_dom|exact script_fits]. Qed.
Example script_ends_raised : snd (L_run l0 script) = [Some VMsg] /\ length (fst (L_run l0 script)) = 20%nat.
Proof. vm_compute. auto. Qed.
(* the model really grew the registry (12 cells at the start) *)
Example script_grew : 12 < cap (snd (arun r0 (len pre0) script)).
Proof. vm_compute. reflexivity. Qed.

Example settop_ex : exists r', SetTop r0 4 = Ok r' /\ Rr r' (resizeN (pre0 ++ l0) 4) 40 /\
   (forall i, 4 <= i < len (pre0 ++ l0) -> rd (arr r') i = None) /\ (forall i, len (pre0 ++ l0) <= i < 4 -> rd (arr r') i = cNil).
Proof. apply settop_spec_lemma; [exact r0_rel|lia]. Qed.

(* a host function frame: function at register 3, two junk values, three results *)
Definition rG : registry := mkReg (pre0 ++ [Some (VRef 9); n 50; n 51; n 1; n 2; n 3] ++ fresh 4) 9 13 0 0.
Example rG_rel : Rr rG (pre0 ++ Some (VRef 9) :: [n 50; n 51] ++ [n 1; n 2; n 3]) 13.
Proof. constructor; vm_compute; try reflexivity; try discriminate. left. discriminate. Qed.
Example gresults_pad : exists r', gReturn rG 3 3 5 = Ok r' /\ Rr r' (pre0 ++ adjust 5 [n 1; n 2; n 3]) 13.
Proof. apply (gfunction_results_lemma rG pre0 (Some (VRef 9)) [n 50; n 51] [n 1; n 2; n 3] 5 13 rG_rel); vm_compute; discriminate. Qed.
Example gresults_trunc : exists r', gReturn rG 3 3 1 = Ok r' /\ Rr r' (pre0 ++ adjust 1 [n 1; n 2; n 3]) 13.
Proof. apply (gfunction_results_lemma rG pre0 (Some (VRef 9)) [n 50; n 51] [n 1; n 2; n 3] 1 13 rG_rel); vm_compute; discriminate. Qed.
Example gresults_mult : exists r', gReturn rG 3 3 MultRet = Ok r' /\ Rr r' (pre0 ++ adjust MultRet [n 1; n 2; n 3]) 13.
Proof. apply (gfunction_results_lemma rG pre0 (Some (VRef 9)) [n 50; n 51] [n 1; n 2; n 3] MultRet 13 rG_rel); vm_compute; discriminate. Qed.

(* OP_RETURN 2 3 (two values from register 2) with 4 wanted *)
Example lresults : exists r', luaReturn rG 4 2 3 3 4 = Ok r' /\
   Rr r' (pre0 ++ adjust 4 (luaResults [n 50; n 51; n 1; n 2; n 3] 2 3)) 13.
Proof.
  apply (lua_results_lemma rG pre0 (Some (VRef 9)) [n 50; n 51; n 1; n 2; n 3] 2 3 4 13 rG_rel); vm_compute; discriminate.
Qed.

(* the whole CallByParam, succeeding and failing *)
Example call_ok : exists r', callByParamG r0 (Some (VRef 5)) [n 30; n 31] [n 60] [n 1; n 2] 3 false = Ok (r', false) /\
   Rr r' (pre0 ++ l0 ++ adjust 3 [n 1; n 2]) 40.
Proof. apply (call_contract_lemma r0 pre0 l0 _ _ _ _ 3 false 40 r0_rel); vm_compute; discriminate. Qed.
Example call_fail : exists r', callByParamG r0 (Some (VRef 5)) [n 30; n 31] [n 60] [n 1; n 2] 3 true = Ok (r', true) /\
   Rr r' (pre0 ++ l0 ++ []) 40.
Proof. apply (call_contract_lemma r0 pre0 l0 _ _ _ _ 3 true 40 r0_rel); vm_compute; discriminate. Qed.
