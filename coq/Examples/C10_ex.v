(* C10 — non-vacuity: concrete, non-trivial states meeting the hypotheses of Properties/C10.v. *)
From GL Require Import Stack.Registry Stack.RegSpec Stack.StackApi Stack.ArrayFacts
  Stack.RegistryFacts Stack.StackApiFacts Stack.CallContractFacts Stack.StaleFacts.
From Coq Require Import Lia.

Definition n (z : Z) : cell := Some (VInt z).

(* a registry of 12 cells, growable to 40, holding 3 callers' cells and a 3-element activation,
   with stale contents above the top *)
Definition pre0 := [n 100; Some (VRef 1); n 102].
Definition l0 := [n 1; Some VNil; n 3].
Definition r0 : registry := mkReg (pre0 ++ l0 ++ [n 77; None; n 78] ++ fresh 3) 6 12 4 40.

Example r0_rel : Rr r0 (pre0 ++ l0) 40.
Proof. constructor; vm_compute; try reflexivity; try discriminate. left. discriminate. Qed.

(* a script with valid, zero, top+1, -(top+1) and far indices, growth of the registry, an underflow *)
Definition script : list aop :=
  [AGet 0; AGet 4; AGet (-4); AGet 1000; AGet (-3); AInsert (VInt 5) 0; AInsert (VInt 6) (-1); AInsert (VInt 7) 6;
   ARemove (-6); ARemove 7; ARemove 2; AReplace (-1) (VInt 8); AReplace 9 (VInt 8); ASetTop 12; ASetTop (-3); AGetTop;
   APush (VInt 9); ASetTop (-100); APush (VInt 1); APop 2].
Example script_dom : L_dom l0 script = true. Proof. vm_compute. reflexivity. Qed.
Example script_fits : L_fits (len pre0) 40 l0 script = true. Proof. vm_compute. reflexivity. Qed.
Example script_run :
  fst (arun r0 (len pre0) script) = fst (L_run l0 script) /\
  Rr1 (snd (arun r0 (len pre0) script)) (pre0 ++ snd (L_run l0 script)) 40.
Proof. apply api_refines_list_lemma; [exact r0_rel|exact script_dom|exact script_fits]. Qed.
Example script_ends_raised : snd (L_run l0 script) = [Some VMsg] /\ length (fst (L_run l0 script)) = 20%nat.
Proof. vm_compute. auto. Qed.
(* the model really grew the registry (12 cells at the start) *)
Example script_grew : 12 < cap (snd (arun r0 (len pre0) script)).
Proof. vm_compute. reflexivity. Qed.

Example settop_ex : exists r', SetTop r0 4 = Ok r' /\ Rr r' (resizeN (pre0 ++ l0) 4) 40 /\
   (forall i, 4 <= i < len (pre0 ++ l0) -> rd (arr r') i = None) /\ (forall i, len (pre0 ++ l0) <= i < 4 -> rd (arr r') i = cNil).
Proof. apply settop_spec_lemma; [exact r0_rel|lia]. Qed.

(* a host function frame: function at register 3, two junk values, three results *)
Definition rG : registry := mkReg (pre0 ++ [Some (VRef 9); n 50; n 51; n 1; n 2; n 3] ++ fresh 4) 9 13 0 0.
Example rG_rel : Rr rG (pre0 ++ Some (VRef 9) :: [n 50; n 51] ++ [n 1; n 2; n 3]) 13.
Proof. constructor; vm_compute; try reflexivity; try discriminate. left. discriminate. Qed.
Example gresults_pad : exists r', gReturn rG 3 3 5 = Ok r' /\ Rr r' (pre0 ++ adjust 5 [n 1; n 2; n 3]) 13.
Proof. apply (gfunction_results_lemma rG pre0 (Some (VRef 9)) [n 50; n 51] [n 1; n 2; n 3] 5 13 rG_rel); vm_compute; discriminate. Qed.
Example gresults_trunc : exists r', gReturn rG 3 3 1 = Ok r' /\ Rr r' (pre0 ++ adjust 1 [n 1; n 2; n 3]) 13.
Proof. apply (gfunction_results_lemma rG pre0 (Some (VRef 9)) [n 50; n 51] [n 1; n 2; n 3] 1 13 rG_rel); vm_compute; discriminate. Qed.
Example gresults_mult : exists r', gReturn rG 3 3 MultRet = Ok r' /\ Rr r' (pre0 ++ adjust MultRet [n 1; n 2; n 3]) 13.
Proof. apply (gfunction_results_lemma rG pre0 (Some (VRef 9)) [n 50; n 51] [n 1; n 2; n 3] MultRet 13 rG_rel); vm_compute; discriminate. Qed.

(* OP_RETURN 2 3 (two values from register 2) with 4 wanted *)
Example lresults : exists r', luaReturn rG 4 2 3 3 4 = Ok r' /\
   Rr r' (pre0 ++ adjust 4 (luaResults [n 50; n 51; n 1; n 2; n 3] 2 3)) 13.
Proof.
  apply (lua_results_lemma rG pre0 (Some (VRef 9)) [n 50; n 51; n 1; n 2; n 3] 2 3 4 13 rG_rel); vm_compute; discriminate.
Qed.

(* the whole CallByParam, succeeding and failing *)
Example call_ok : exists r', callByParamG r0 (Some (VRef 5)) [n 30; n 31] [n 60] [n 1; n 2] 3 false = Ok (r', false) /\
   Rr r' (pre0 ++ l0 ++ adjust 3 [n 1; n 2]) 40.
Proof. apply (call_contract_lemma r0 pre0 l0 _ _ _ _ 3 false 40 r0_rel); vm_compute; discriminate. Qed.
Example call_fail : exists r', callByParamG r0 (Some (VRef 5)) [n 30; n 31] [n 60] [n 1; n 2] 3 true = Ok (r', true) /\
   Rr r' (pre0 ++ l0 ++ []) 40.
Proof. apply (call_contract_lemma r0 pre0 l0 _ _ _ _ 3 true 40 r0_rel); vm_compute; discriminate. Qed.

(* dead temporaries above a Lua callee's frame (seeded C10-10's history): a Lua function holding
   [t; 10 .. 80] above its function slot calls, in register 1, a one-parameter Lua function with two
   registers; that one calls a host function (register 1 of its frame) with one argument. *)
Definition rL : registry :=
  mkReg ([n 100; Some (VRef 1); Some (VRef 2); Some (VRef 3); n 7; n 20; n 30; n 40; n 50; n 60; n 70; n 80] ++ fresh 8) 12 20 0 0.
Example rL_rel : Rr rL ([n 100; Some (VRef 1); Some (VRef 2)] ++ Some (VRef 3) :: [n 7] ++ [n 20; n 30; n 40; n 50; n 60; n 70; n 80]) 20.
Proof. constructor; vm_compute; try reflexivity; try discriminate. left. discriminate. Qed.
Example lua_frame_ex : exists r', initLuaFixed rL 4 1 1 2 = Ok r' /\
   Rr r' ([n 100; Some (VRef 1); Some (VRef 2)] ++ Some (VRef 3) :: resizeL (resizeL [n 7] 1) 2) 20.
Proof. apply (initLuaFixed_ok rL _ _ [n 7] [n 20; n 30; n 40; n 50; n 60; n 70; n 80] 20 1 2 rL_rel); vm_compute; try discriminate. split; discriminate. Qed.
(* the callee's frame is [7; nil]; the caller's 30 .. 80 are still in the array above it *)
Definition rL1 : registry := match initLuaFixed rL 4 1 1 2 with Ok r => r | _ => rL end.
Example lua_frame_dead : top rL1 = 6 /\ live rL1 = [n 100; Some (VRef 1); Some (VRef 2); Some (VRef 3); n 7; cNil]
   /\ rd (arr rL1) 6 = n 30 /\ rd (arr rL1) 11 = n 80.
Proof. vm_compute. auto. Qed.
(* the callee puts the host function into its register 1 and "x" above it, and calls it with one argument *)
Definition rL2 : registry :=
  match (r <- Set_ rL1 5 (Some (VRef 8)) ;; r <- Set_ r 6 (n 9) ;; initG r 6 1) with Ok r => r | _ => rL end.
Example host_frame : top rL2 = 7 /\ rd (arr rL2) 7 = n 40 /\ rd (arr rL2) 11 = n 80.
Proof. vm_compute. auto. Qed.
(* ... which reads its argument at 1 and nil at 2 .. 6 although the cells hold 40 .. 80, and grows its list with nils *)
Example host_reads_nil :
  fst (arun rL2 6 [AGet 1; AGet 2; AGet 3; AGet 6; AGet 1000; ASetTop 4; AGet 3; AGet 5; ASetTop 1; APush (VInt 5); AGet 3])
  = fst (L_run [n 9] [AGet 1; AGet 2; AGet 3; AGet 6; AGet 1000; ASetTop 4; AGet 3; AGet 5; ASetTop 1; APush (VInt 5); AGet 3]).
Proof. vm_compute. reflexivity. Qed.
(* the same script on a registry with the same live cells and nothing above the top *)
Definition rL2clean : registry := mkReg (live rL2 ++ fresh 13) 7 20 0 0.
Example host_rel : Rr rL2 (firstn 6 (live rL2) ++ [n 9]) 20 /\ Rr rL2clean (firstn 6 (live rL2) ++ [n 9]) 20.
Proof. split; constructor; vm_compute; try reflexivity; try discriminate; left; discriminate. Qed.
Example host_same_as_clean :
  fst (arun rL2 (len (firstn 6 (live rL2))) [AGet 2; AGet 3; ASetTop 4; AGet 3; AInsert (VInt 1) 6; AGet 5]) =
  fst (arun rL2clean (len (firstn 6 (live rL2))) [AGet 2; AGet 3; ASetTop 4; AGet 3; AInsert (VInt 1) 6; AGet 5]).
Proof.
  apply (dead_cells_unobservable_lemma _ rL2 rL2clean (firstn 6 (live rL2)) [n 9] 20); try apply host_rel; vm_compute; reflexivity.
Qed.
