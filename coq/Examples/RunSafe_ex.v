(* Non-vacuity of the run-level C07 theorems about the full VM model (VMX/RunSafeFacts.v,
   VMX/HeapSafeFacts.v): a prototype dumped from the real compiler for

     local t = {10, 20}  local s = 0
     for k, v in pairs(t) do s = s + v end
     local function f(a) return function() return a + s end end
     emit(s, f(1)())  return s

   (generic for = OP_TFORLOOP + JMP at words 11/12, OP_CLOSURE with a capture word at 13/14, a MOVEN
   group at 16/17, closures two levels deep with 1 and 2 upvalues) satisfies every hypothesis. *)
From Coq Require Import Uint63 Floats Lia.
From GL Require Import Common.Bytes Lua.Syntax Lua.Values Lua.Run Lua.LuaCases.
From GL Require Import VMX.Machine VMX.Step VMX.VRun VMX.VmCases VMX.WfTie VMX.RunSafe VMX.RunInv.
From GL Require VM.WfProto VM.WfFacts VMX.WfTieFacts VMX.RunSafeFacts VMX.HeapSafeFacts VMX.DiscFacts VMX.RunAssemble.
Open Scope Z_scope.

Definition p_tfor : xproto := (XProto (w63 [872415234;134479872;134742017;2483028482;134479874;403177475;786432;2080901122;1677852673;1008471041;262151;2416444416;1677852667;2617769984;1;403439620;68157953;1310722;135790597;2081686530;2081685505;2081161728;2214854658;2214592513]%uint63) [VNum 0x1.4p+3%float; VNum 0x1.4p+4%float; VNum 0%float; VStr [112;97;105;114;115]; VStr [101;109;105;116]; VNum 0x1p+0%float] [(XProto (w63 [2617507840;0;335544320;2214854658;2214592513]%uint63) [] [(XProto (w63 [335544320;335806465;1006633472;2214592514;2214592513]%uint63) [] [] 2 0 0 2 [4;4;4;4;4] 4)] 1 1 0 2 [4;4;4;4;4] 4)] 0 0 7 8 [1;1;1;1;2;3;3;3;3;3;3;3;3;4;4;5;5;5;5;5;5;5;6;7] 0).

(* the model runs it as the real VM did: trace [30, 31], result 30 *)
Example tfor_runs : vm_outcome p_tfor = Outcome [[ONum 0x1.ep+4%float; ONum 0x1.fp+4%float]] (OOk [ONum 0x1.ep+4%float]).
Proof. vm_compute. reflexivity. Qed.

(* the hypotheses of run_heap_ok / wf_run_noob_statement *)
Example tfor_chunk_ok : chunk_ok p_tfor /\ consts_plain p_tfor = true.
Proof. repeat split; vm_compute; reflexivity. Qed.

(* so the closure heap the run ends with (3 closures: the chunk, f, the function f returned) is
   well-formed - by the theorem, not by inspection *)
Example tfor_heap_ok : heap_ok_fin (run_proto vm_fuel p_tfor).
Proof. apply HeapSafeFacts.run_heap_ok_lemma. apply tfor_chunk_ok. Qed.

Example tfor_heap_size :
  match run_proto vm_fuel p_tfor with VFinOk _ s => length (vclos s) = 3%nat | _ => False end.
Proof. vm_compute. reflexivity. Qed.

(* the hypotheses of wf_step_noob_all at the OP_TFORLOOP (word 11; the frame's pc is 12 after the
   fetch) of the chunk's closure *)
Definition cl_tfor : closure := mkCl p_tfor [] 0%nat.
Definition cf_tfor : cframe := mkFrame (FnLua 0%nat) 12 0 1 0 0 (-1) 0.

Example tfor_step_hyps :
  VM.WfProto.wf_fn (WfTieFacts.fn_of (cl_proto cl_tfor)) = true /\ closure_ok cl_tfor /\
  VM.WfFacts.pc_ok (WfTieFacts.fn_of (cl_proto cl_tfor)) (fr_pc cf_tfor - 1) /\
  (exists inst, zth (xp_code (cl_proto cl_tfor)) (fr_pc cf_tfor - 1) = Some inst /\
                op_of_code (opGetOpCode inst) = Some OP_TFORLOOP).
Proof.
  split; [vm_compute; reflexivity|]. split; [reflexivity|]. split; [vm_compute; reflexivity|].
  eexists. split; vm_compute; reflexivity.
Qed.

(* a re-entered loop that satisfies the hypotheses on [ml] without being trivial: the callee's
   frame is popped at once (a function that returns immediately) *)
Definition ml_pop : option nat -> VM unit := fun _ => vmod (fun s => with_stack s (tl (vstack s))).

Example ml_pop_hyps : (forall b, noob (ml_pop b)) /\ ml_returns_to_caller ml_pop /\ ml_keeps_caller_pc ml_pop.
Proof.
  assert (H : ml_returns_to_caller ml_pop).
  { intros b s s' _ E. unfold ml_pop, vmod in E. inversion E. reflexivity. }
  split; [intro b; apply WfTieFacts.noob_vmod|]. split; [exact H|].
  apply RunSafeFacts.returns_keeps_caller_pc. exact H.
Qed.

(* a state whose current frame is the one being executed *)
Example tfor_state : top_pc (with_stack (init_vstate p_tfor) [cf_tfor]) = Some (fr_pc cf_tfor).
Proof. reflexivity. Qed.

(* the frame-stack discipline (DiscFacts): the initial state has no resumer anywhere, and the run of
   p_tfor on the machine with coroutine resumption cut off is not cut off - so it is the run of the
   full machine, and mainLoop_nc_disc applies to every re-entrance in it (pairs' iterator is called
   through callR by OP_TFORLOOP) *)
Example tfor_par_ok : par_ok (init_vstate p_tfor).
Proof. apply DiscFacts.init_par_ok. Qed.

Example tfor_not_cut : run_proto_nc vm_fuel p_tfor <> VFinFuel.
Proof. vm_compute. discriminate. Qed.

Example tfor_nc_is_full : run_proto vm_fuel p_tfor = run_proto_nc vm_fuel p_tfor.
Proof. apply DiscFacts.run_proto_nc_full_lemma. exact tfor_not_cut. Qed.

(* the hypotheses of wf_step_noob_disc: the popping loop obeys the discipline, and a state with no
   resumer whose frame stack is the frame being executed *)
Example ml_pop_disc : ml_disc ml_pop.
Proof. intros b s Hp Hl. unfold ml_pop, vmod. split; [exact Hp|reflexivity]. Qed.

Example tfor_stk : stk [cf_tfor] (with_stack (init_vstate p_tfor) [cf_tfor]).
Proof. split; [apply DiscFacts.init_par_ok|reflexivity]. Qed.

(* the hypotheses of the invariant theorems (RunInvFacts): the popping loop is a safe re-entered
   loop in the sense of ml_safeP, a trivial side condition is stable, host functions that keep the
   invariant exist (any that satisfies jg, e.g. one returning at once), and the initial state of a
   run satisfies run_inv *)
Example ml_pop_safeP : ml_safeP ml_pop.
Proof.
  intros Phi HP f X s [[H1 [H2 [H3 H4]]] _]. unfold ml_pop, vmod.
  split; [exact H1|]. split; [exact H2|]. split; [eapply HP; [|exact H3]; intros c cl E; exists cl; auto|].
  cbn [vstack with_stack]. rewrite H4. reflexivity.
Qed.

Example stable_true : stable (fun _ => True).
Proof. intros s s' _ _. exact I. Qed.

Example gf_ret_jg : forall b : builtin, jg ((fun _ => vret 0) b : VM Z).
Proof. intros b Phi HP X s Hs. exact Hs. Qed.

Example tfor_run_inv : run_inv (init_vstate p_tfor).
Proof.
  split; [apply HeapSafeFacts.init_heap_ok; apply tfor_chunk_ok|].
  split; [apply DiscFacts.init_par_ok|constructor].
Qed.

(* the run-level theorem applies to the dumped prototype: its run on the full machine is not cut off
   (tfor_not_cut), hence free of out-of-range faults - by the theorem, not by running it *)
Example tfor_run_noob : fin_noob (run_proto vm_fuel p_tfor).
Proof.
  apply RunAssemble.wf_run_noob_uncut_lemma; [apply tfor_chunk_ok|exact tfor_not_cut].
Qed.
