(* C19 — non-vacuity: the hypotheses of every theorem of Properties/C19.v hold of concrete,
   non-trivial states and histories; and the repaired defects now evaluate as the cursor model. *)
From GL Require Import Common.Bytes Io.IoSpec Io.IoImpl Io.IoSys Io.IoCases Io.IoReadFacts Io.IoRefine Io.IoTheorems.

(* a 9000-byte file without "\r" (bytes 14..113 repeating) *)
Definition big : bytes := flat_map (fun _ => pat 14 100) (seq 0 90).

(* a history that crosses the 4096-byte buffer with reads, seeks, unbuffered and buffered writes *)
Definition hist : list op :=
  [ORead [FCount 4095]; ORead [FCount 2; FLine]; OSeek WCur 0; OWrite [[88;89]; [90]];
   OSetvbuf VFull (Some 8); OSeek WSet 4090; OWrite [[1;2;3;4;5;6;7;8;9;10;11;12]]; OFlush;
   ORead [FCount 10]; OSeek WEnd (-3); ORead [FAll]; ORead [FCount 1]; OLines 2;
   OSeek WSet 9005; OWrite [[33]]; OSeek WSet 8999; ORead [FCount 0; FAll]; OClose; OFlush].

Example hist_hyps :
  disc1 LNone hist = true /\ cr_free big = true /\
  forallb op_cr_free hist = true /\
  supported (spec_results false (fst (s_open MRp big)) (snd (s_open MRp big)) hist) = true.
Proof. vm_compute. repeat split. Qed.

(* the conclusion of io_refines on it, evaluated under three chunkings: everything available,
   one byte per read(2), seven bytes per read(2): the same results as the cursor model *)
Definition results (ch : Z -> Z -> Z -> Z) : list res :=
  let '(_, _, rs) := irun ch (fst (i_open MRp big)) (snd (i_open MRp big)) hist in rs.

Example hist_results_full : results ch_full = spec_results false (fst (s_open MRp big)) (snd (s_open MRp big)) hist.
Proof. vm_compute. reflexivity. Qed.
Example hist_results_one : results (fun _ _ _ => 1) = results ch_full.
Proof. vm_compute. reflexivity. Qed.
Example hist_results_seven : results (fun _ _ _ => 7) = results ch_full.
Proof. vm_compute. reflexivity. Qed.
Example hist_reads_data :
  nth 8 (results ch_full) RFail = RVals [VStr [16;17;18;19;20;21;22;23;24;25]].
Proof. vm_compute. reflexivity. Qed.

(* numbers: hypotheses of io_refines hold of a history that reads numerals *)
Definition numfile : bytes := [32;49;50;46;53;10;45;55;32;46;53;32;97].   (* " 12.5\n-7 .5 a" *)
Definition numhist : list op := [ORead [FNum]; ORead [FNum; FCount 1]; ORead [FNum]; ORead [FNum]; OClose].
Example num_hyps :
  disc1 LNone numhist = true /\ cr_free numfile = true /\
  supported (spec_results false numfile (snd (s_open MR numfile)) numhist) = true /\
  spec_results false numfile (snd (s_open MR numfile)) numhist =
    [RVals [VNum 125 1]; RVals [VNum (-7) 0; VStr [32]]; RVals [VNum 5 1]; RVals [VNil]; RTrue].
Proof. vm_compute. repeat split. Qed.

(* a reachable state with read-ahead: the invariant of the one-step theorems *)
Definition st_disk : bytes := [48;49;50;51;52;53;54;55;56;57].
Definition st_h : ihandle := mkI 10 [50;51;52;53;54;55;56;57] None true true true false 1.
Example st_inv : Inv st_disk st_h /\ i_closed st_h = false /\ i_wr st_h = true /\ i_app st_h = true
  /\ i_rd st_h = true /\ pending st_h = [] /\ abs_pos st_disk st_h = 2.
Proof.
  unfold Inv, Rinv. vm_compute. repeat split; try congruence; try discriminate.
Qed.

(* a state with bytes pending in a buffered writer *)
Definition st_hw : ihandle := mkI 5 [] (Some ([65;66], 1024)) true true false false 0.
Example st_inv_w : Inv st_disk st_hw /\ abs_content st_disk st_hw = [48;49;50;51;52;65;66;55;56;57]
  /\ abs_pos st_disk st_hw = 7.
Proof.
  unfold Inv, Rinv. vm_compute. repeat split; try congruence; try discriminate.
Qed.

(* a closed handle *)
Example st_closed : i_closed (mkI 3 [] None true true false true 0) = true.
Proof. reflexivity. Qed.

(* ---------- the repaired defects, as evaluations of the model of the repaired code ---------- *)
Definition run1 (m : omode) (init : bytes) (ops : list op) : bytes * list res :=
  let '(d, _, rs) := irun ch_full (fst (i_open m init)) (snd (i_open m init)) ops in (d, rs).

(* C19-1: read, flush, write *)
Example c19_1 : fst (run1 MRp st_disk [ORead [FCount 2]; OFlush; OWrite [[88;89]]; OClose])
                = [48;49;88;89;52;53;54;55;56;57].
Proof. vm_compute. reflexivity. Qed.
(* C19-2: buffered writer and seek *)
Example c19_2 : fst (run1 MRp st_disk [OSetvbuf VFull (Some 1024); OSeek WSet 5; OWrite [[65;66]];
                                       OSeek WSet 0; OWrite [[67]]; OClose])
                = [67;49;50;51;52;65;66;55;56;57].
Proof. vm_compute. reflexivity. Qed.
(* C19-4: "*n" across a newline *)
Example c19_4 : snd (run1 MR [49;10;50] [ORead [FNum]; ORead [FNum]; ORead [FNum]])
                = [RVals [VNum 1 0]; RVals [VNum 2 0]; RVals [VNil]].
Proof. vm_compute. reflexivity. Qed.
(* C19-7: a 5000-byte line through lines() *)
Example c19_7 : snd (run1 MR (repeat 97 5000 ++ [10;120]) [OLines 3])
                = [RVals [VStr (repeat 97 5000); VStr [120]; VNil]].
Proof. vm_compute. reflexivity. Qed.
(* C19-8: setvbuf keeps the pending bytes *)
Example c19_8 : fst (run1 MW [] [OSetvbuf VFull None; OWrite [[97;98;99]]; OSetvbuf VNo None; OWrite [[100]]; OClose])
                = [97;98;99;100].
Proof. vm_compute. reflexivity. Qed.
(* a lines iterator obtained before the close: its later steps raise (nothing of the read-ahead
   comes back), as the cursor model says of any operation on a closed handle *)
Example iter_after_close :
  snd (run1 MR [108;49;10;108;50;10;108;51;10] [ORead [FCount 1]; OLines 1; ONext 1; OClose; ONext 2; ONext 1])
  = [RVals [VStr [108]]; RVals [VStr [49]]; RVals [VStr [108;50]]; RTrue; RRaise; RRaise]
  /\ spec_results false [108;49;10;108;50;10;108;51;10] (snd (s_open MR []))
       [ORead [FCount 1]; OLines 1; ONext 1; OClose; ONext 2; ONext 1]
     = [RVals [VStr [108]]; RVals [VStr [49]]; RVals [VStr [108;50]]; RTrue; RRaise; RRaise].
Proof. vm_compute. split; reflexivity. Qed.
(* counts without limit: negative, and far beyond the file (C19-13) *)
Example c19_13 : snd (run1 MR [97;98;99;10;100] [ORead [FCount 1]; ORead [FCount (-1)]; ORead [FCount (-1)];
                                                 OSeek WSet 2; ORead [FCount 1099511627776; FCount 1]])
                = [RVals [VStr [97]]; RVals [VStr [98;99;10;100]]; RVals [VNil]; ROff 2; RVals [VStr [99;10;100]; VNil]].
Proof. vm_compute. reflexivity. Qed.
