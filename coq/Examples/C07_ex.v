(* C07 — non-vacuity: the hypotheses of every theorem of Properties/C07.v are met by concrete,
   non-trivial objects, and the checker does reject the shapes the property forbids. *)
From GL Require Import VM.Opcode VM.OpcodeFacts VM.Proto VM.WfProto VM.Skeleton VM.WfFacts.

(* The real compiler's output (dumped by the harness, corpus case "closure-in-loop") for
     local fs = {}
     for i = 1, 3 do local j = i; fs[i] = function() j = j + 1; return j + i end end
     return fs[1](), fs[3]()
   19 words: FORPREP/FORLOOP, a CLOSURE at pc 7 owning the two capture words 8 and 9, a CLOSE. *)
Definition ex_loop : proto :=
  Proto [872415232;134479872;134742017;135004160;2349203462;1310724;1572868;2619080704;5;4;738201094;
         2550398976;2282094583;470155264;2080637953;470417920;2080899073;2214854656;2214592513]
        [0;0] 2
        [Proto [335544320;1006764032;671088640;335544320;335806465;1006633472;2214592514;2214592513]
               [0] 1 [] 2 0 0 2 8]
        0 0 7 8 19.

Example ex_loop_wf : wf_proto ex_loop = true.
Proof. vm_compute. reflexivity. Qed.

Example ex_loop_tags :
  tags_of (view ex_loop) = [0;0;0;0;0;0;0;0;1;1;0;0;0;0;0;0;0;0;0].
Proof. vm_compute. reflexivity. Qed.

(* hypotheses of wf_step_safe / wf_run_safe / wf_regs_bounded are satisfiable: *)
Example ex_loop_fn_wf : wf_fn (view ex_loop) = true.
Proof. vm_compute. reflexivity. Qed.

Example ex_loop_entry : pc_ok (view ex_loop) 0.
Proof. vm_compute. reflexivity. Qed.

(* the CLOSURE at pc 7 steps over its two capture words, reads FunctionPrototypes[0], captures
   the registers 5 and 4 *)
Example ex_loop_closure_step :
  sk_step (view ex_loop) 7 = Some (mkInfo [8; 9] [] [] [0] [] [7; 5; 4] [10] false).
Proof. vm_compute. reflexivity. Qed.

(* a run through the loop: 0 -> .. -> 4 (FORPREP) -> 12 (FORLOOP) -> 5 (body) -> .. -> 7 -> 10 *)
Example ex_loop_reach : reach (view ex_loop) 0 10.
Proof.
  eapply reach_step; [vm_compute; reflexivity | left; reflexivity |].
  eapply reach_step; [vm_compute; reflexivity | left; reflexivity |].
  eapply reach_step; [vm_compute; reflexivity | left; reflexivity |].
  eapply reach_step; [vm_compute; reflexivity | left; reflexivity |].
  eapply (reach_step _ 4 _ 12); [vm_compute; reflexivity | left; reflexivity |].
  eapply (reach_step _ 12 _ 5); [vm_compute; reflexivity | right; left; reflexivity |].
  eapply (reach_step _ 5 _ 6); [vm_compute; reflexivity | left; reflexivity |].
  eapply (reach_step _ 6 _ 7); [vm_compute; reflexivity | left; reflexivity |].
  eapply (reach_step _ 7 _ 10); [vm_compute; reflexivity | left; reflexivity |].
  apply reach_refl.
Qed.

(* the capture words are not instruction heads *)
Example ex_loop_capture_not_head : is_head (tags_of (view ex_loop)) 8 = false /\ is_head (tags_of (view ex_loop)) 9 = false.
Proof. vm_compute. split; reflexivity. Qed.

(* ---- the checker rejects what the property forbids ------------------------------------------- *)
(* C07-1 (fixed in /repo): a register operand >= NumUsedRegisters. Same code, declared count 6. *)
Example bad_register_count :
  wf_proto (Proto (p_code ex_loop) [0;0] 2 (p_subs ex_loop) 0 0 7 6 19) = false.
Proof. vm_compute. reflexivity. Qed.

(* a jump into a MOVEN group (C07-6, fixed):  JMP +1 ; MOVEN 0 1 (1 more) ; MOVE 1 0 ; RETURN 0 1 *)
Definition w_jmp (sbx : Z) := opCreateASbx 25 0 sbx.
Definition w_return := opCreateABC 33 0 1 0.
Example bad_jump_into_moven :
  wf_proto (Proto [w_jmp 1; opCreateABC 1 0 1 1; opCreateABC 0 1 0 0; w_return] [] 0 [] 0 0 0 2 4) = false /\
  wf_proto (Proto [w_jmp 0; opCreateABC 1 0 1 1; opCreateABC 0 1 0 0; w_return] [] 0 [] 0 0 0 2 4) = true.
Proof. vm_compute. split; reflexivity. Qed.

(* the word after TFORLOOP must be a JMP (C07-5, fixed: it could become a NOP with a stale sBx) *)
Example bad_tforloop_nop :
  wf_proto (Proto [opCreateABC 36 0 0 1; opCreateASbx 41 0 3; w_return; w_return; w_return; w_return] [] 0 [] 0 0 0 6 6) = false /\
  wf_proto (Proto [opCreateABC 36 0 0 1; w_jmp (-2); w_return] [] 0 [] 0 0 0 6 3) = true.
Proof. vm_compute. split; reflexivity. Qed.

(* a jump onto a closure capture word (C07-5, fixed), a SETLIST extension word of 0 (C07-2, fixed),
   a missing final RETURN, a short line table, a non-string constant named by GETGLOBAL *)
Example bad_misc :
  wf_proto (Proto [opCreateABx 39 0 0; opCreateABC 0 0 0 0; w_jmp (-2); w_return] [] 0
                  [Proto [w_return] [] 0 [] 1 0 0 2 1] 0 1 0 2 4) = false /\
  wf_proto (Proto [opCreateABC 13 0 0 0; opCreateABC 37 0 0 0; 0; w_return] [] 0 [] 0 0 0 2 4) = false /\
  wf_proto (Proto [opCreateABC 13 0 0 0; opCreateABC 37 0 0 0; 512; w_return] [] 0 [] 0 0 0 2 4) = true /\
  wf_proto (Proto [opCreateABC 13 0 0 0] [] 0 [] 0 0 0 2 1) = false /\
  wf_proto (Proto [w_return] [] 0 [] 0 0 0 2 0) = false /\
  wf_proto (Proto [opCreateABx 6 0 0; w_return] [0] 1 [] 0 0 0 2 2) = false /\
  wf_proto (Proto [opCreateABx 6 0 0; w_return] [1] 1 [] 0 0 0 2 2) = true.
Proof. vm_compute. repeat split; reflexivity. Qed.

(* seeded regression C07-2: the block-number word after an extended SETLIST walked by patchCode as
   `MOVE 0 0` and re-coded as the head of a MOVEN group (opcode bits set): not a block number *)
Example bad_setlist_recoded :
  wf_proto (Proto [opCreateABC 13 0 0 0; opCreateABC 37 0 0 0; opSetArgC (opSetOpCode 512 1) 1; opCreateABC 0 1 0 0; w_return]
                  [] 0 [] 0 0 0 2 5) = false /\
  wf_proto (Proto [opCreateABC 13 0 0 0; opCreateABC 37 0 0 0; 512; opCreateABC 0 1 0 0; w_return]
                  [] 0 [] 0 0 0 2 5) = true.
Proof. vm_compute. split; reflexivity. Qed.

(* codec: the hypotheses of codec_roundtrip are satisfiable by boundary fields *)
Example codec_ex :
  opCreateABC 41 255 511 511 = 2818572287 /\ opGetOpCode 2818572287 = 41 /\ opGetArgC 2818572287 = 511 /\
  opGetArgSbx (opCreateASbx 25 0 (-131071)) = -131071 /\ opGetArgSbx (opCreateASbx 25 0 131072) = 131072.
Proof. vm_compute. repeat split; reflexivity. Qed.

(* the partial statement is not vacuous: its premise holds of ex_loop, hence all consequences *)
Example ex_loop_consequences : C07_consequences ex_loop.
Proof. apply C07_statement_partial_lemma. exact ex_loop_wf. Qed.

(* ---- register-form string keys (StrKey.v; Properties/C07.v 6b, 6c) ------------------------------
   The layout compile.go produces for `g:m()` with a global (= temporary) receiver when the method
   name is not RK-encodable: GETGLOBAL R0 ; LOADK R1 "m" ; SELF R0 R0 R1 ; CALL ; RETURN. The key
   register R1 is R(A+1) of the SELF, the register the instruction overwrites with the receiver. *)
From GL Require Import VM.StrKey VM.StrKeyFacts.

Definition ex_self : proto :=
  Proto [opCreateABx 6 0 0; opCreateABx 2 1 1; opCreateABC 14 0 0 1; opCreateABC 31 0 2 1; w_return]
        [1; 1] 2 [] 0 0 0 2 5.

Example ex_self_ok : wf_proto ex_self = true /\ strreg_proto ex_self = true /\ wfx_proto ex_self = true.
Proof. vm_compute. repeat split; reflexivity. Qed.

(* the hypotheses of regkey_fed / regkey_run are satisfiable: the SELF at pc 2 is in register form
   with key register 1 = A + 1, and pc 2 is reached from the entry *)
Example ex_self_regkey :
  zth (f_code (view ex_self)) 2 = Some (opCreateABC 14 0 0 1) /\
  regkey_of (opCreateABC 14 0 0 1) = Some 1 /\ opGetArgA (opCreateABC 14 0 0 1) + 1 = 1 /\
  pc_ok (view ex_self) 2.
Proof. vm_compute. repeat split; reflexivity. Qed.

Example ex_self_reach : reach (view ex_self) 0 2.
Proof.
  eapply (reach_step _ 0 _ 1); [vm_compute; reflexivity | left; reflexivity |].
  eapply (reach_step _ 1 _ 2); [vm_compute; reflexivity | left; reflexivity |].
  apply reach_refl.
Qed.

(* the conclusion of regkey_run for it: fed by the LOADK at pc 1, which is the only way in *)
Example ex_self_fed :
  1 <= 2 /\ fed_by_loadk (view ex_self) 2 1 /\
  (forall q i, reach (view ex_self) 0 q -> sk_step (view ex_self) q = Some i -> In 2 (i_succ i) -> q = 2 - 1).
Proof.
  apply (regkey_run_lemma (view ex_self) 2 (opCreateABC 14 0 0 1) 1);
    [vm_compute; reflexivity | vm_compute; reflexivity | exact ex_self_reach
    | vm_compute; reflexivity | vm_compute; reflexivity].
Qed.

(* strreg_fn rejects: the key register loaded by a MOVE; by a LOADK of a number constant; by a LOADK
   into another register; a jump that lands on the SELF (its LOADK can be bypassed); a test whose
   skip lands on a GETTABLEKS in register form. Each of them is still accepted by wf_proto: the
   clause is new. *)
Example bad_regkey :
  let mk code kinds n := Proto code kinds (len kinds) [] 0 0 0 3 n in
  strreg_proto (mk [opCreateABx 6 0 0; opCreateABC 0 1 2 0; opCreateABC 14 0 0 1; opCreateABC 31 0 2 1; w_return] [1; 1] 5) = false /\
  strreg_proto (mk [opCreateABx 6 0 0; opCreateABx 2 1 1; opCreateABC 14 0 0 1; opCreateABC 31 0 2 1; w_return] [1; 0] 5) = false /\
  strreg_proto (mk [opCreateABx 6 0 0; opCreateABx 2 2 1; opCreateABC 14 0 0 1; opCreateABC 31 0 2 1; w_return] [1; 1] 5) = false /\
  strreg_proto (mk [w_jmp 2; opCreateABx 6 0 0; opCreateABx 2 1 1; opCreateABC 14 0 0 1; opCreateABC 31 0 2 1; w_return] [1; 1] 6) = false /\
  strreg_proto (mk [opCreateABC 29 0 0 0; opCreateABx 2 1 1; opCreateABC 8 0 0 1; w_return] [1; 1] 4) = false /\
  wf_proto (mk [opCreateABx 6 0 0; opCreateABC 0 1 2 0; opCreateABC 14 0 0 1; opCreateABC 31 0 2 1; w_return] [1; 1] 5) = true /\
  wf_proto (mk [w_jmp 2; opCreateABx 6 0 0; opCreateABx 2 1 1; opCreateABC 14 0 0 1; opCreateABC 31 0 2 1; w_return] [1; 1] 6) = true /\
  (* the constant (RK) form needs no LOADK *)
  strreg_proto (mk [opCreateABx 6 0 0; opCreateABC 14 0 0 257; opCreateABC 31 0 2 1; w_return] [1; 1] 4) = true.
Proof. vm_compute. repeat split; reflexivity. Qed.
