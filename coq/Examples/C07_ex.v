(* C07 — non-vacuity: the hypotheses of every theorem of Properties/C07.v are met by concrete,
   non-trivial objects, and the checker does reject the shapes the property forbids. *)
From GL Require Import VM.Opcode VM.OpcodeFacts VM.Proto VM.WfProto VM.Skeleton VM.WfFacts.

(* The real compiler's output (dumped by the harness, corpus case "closure-in-loop") for
     local fs = {}
     for i = 1, 3 do local j = i; fs[i] = function() j = j + 1; return j + i end end
     return fs[1](), fs[3]()
   19 words: FORPREP/FORLOOP, a CLOSURE at pc 7 owning the two capture words 8 and 9, a CLOSE. *)
Definition ex_loop : proto :=
  Proto [872415232;134479872;134742017;135004160;2349203462;1310724;1572868;2619080704;5;4;738201094;
         2550398976;2282094583;470155264;2080637953;470417920;2080899073;2214854656;2214592513]
        [0;0] 2
        [Proto [335544320;1006764032;671088640;335544320;335806465;1006633472;2214592514;2214592513]
               [0] 1 [] 2 0 0 2 8]
        0 0 7 8 19.

Example ex_loop_wf : wf_proto ex_loop = true.
Proof. vm_compute. reflexivity. Qed.

Example ex_loop_tags :
  tags_of (view ex_loop) = [0;0;0;0;0;0;0;0;1;1;0;0;0;0;0;0;0;0;0].
Proof. vm_compute. reflexivity. Qed.

(* hypotheses of wf_step_safe / wf_run_safe / wf_regs_bounded are satisfiable: *)
Example ex_loop_fn_wf : wf_fn (view ex_loop) = true.
Proof. vm_compute. reflexivity. Qed.

Example ex_loop_entry : pc_ok (view ex_loop) 0.
Proof. vm_compute. reflexivity. Qed.

(* the CLOSURE at pc 7 steps over its two capture words, reads FunctionPrototypes[0], captures
   the registers 5 and 4 *)
Example ex_loop_closure_step :
  sk_step (view ex_loop) 7 = Some (mkInfo [8; 9] [] [] [0] [] [7; 5; 4] [10] false).
Proof. vm_compute. reflexivity. Qed.

(* a run through the loop: 0 -> .. -> 4 (FORPREP) -> 12 (FORLOOP) -> 5 (body) -> .. -> 7 -> 10 *)
Example ex_loop_reach : reach (view ex_loop) 0 10.
Proof.
  eapply reach_step; [vm_compute; reflexivity | left; reflexivity |].
  eapply reach_step; [vm_compute; reflexivity | left; reflexivity |].
  eapply reach_step; [vm_compute; reflexivity | left; reflexivity |].
  eapply reach_step; [vm_compute; reflexivity | left; reflexivity |].
  eapply (reach_step _ 4 _ 12); [vm_compute; reflexivity | left; reflexivity |].
  eapply (reach_step _ 12 _ 5); [vm_compute; reflexivity | right; left; reflexivity |].
  eapply (reach_step _ 5 _ 6); [vm_compute; reflexivity | left; reflexivity |].
  eapply (reach_step _ 6 _ 7); [vm_compute; reflexivity | left; reflexivity |].
  eapply (reach_step _ 7 _ 10); [vm_compute; reflexivity | left; reflexivity |].
  apply reach_refl.
Qed.

(* the capture words are not instruction heads *)
Example ex_loop_capture_not_head : is_head (tags_of (view ex_loop)) 8 = false /\ is_head (tags_of (view ex_loop)) 9 = false.
Proof. vm_compute. split; reflexivity. Qed.

(* ---- the checker rejects what the property forbids ------------------------------------------- *)
(* C07-1 (fixed in /repo): a register operand >= NumUsedRegisters. Same code, declared count 6. *)
Example bad_register_count :
  wf_proto (Proto (p_code ex_loop) [0;0] 2 (p_subs ex_loop) 0 0 7 6 19) = false.
Proof. vm_compute. reflexivity. Qed.

(* a jump into a MOVEN group (C07-6, fixed):  JMP +1 ; MOVEN 0 1 (1 more) ; MOVE 1 0 ; RETURN 0 1 *)
Definition w_jmp (sbx : Z) := opCreateASbx 25 0 sbx.
Definition w_return := opCreateABC 33 0 1 0.
Example bad_jump_into_moven :
  wf_proto (Proto [w_jmp 1; opCreateABC 1 0 1 1; opCreateABC 0 1 0 0; w_return] [] 0 [] 0 0 0 2 4) = false /\
  wf_proto (Proto [w_jmp 0; opCreateABC 1 0 1 1; opCreateABC 0 1 0 0; w_return] [] 0 [] 0 0 0 2 4) = true.
Proof. vm_compute. split; reflexivity. Qed.

(* the word after TFORLOOP must be a JMP (C07-5, fixed: it could become a NOP with a stale sBx) *)
Example bad_tforloop_nop :
  wf_proto (Proto [opCreateABC 36 0 0 1; opCreateASbx 41 0 3; w_return; w_return; w_return; w_return] [] 0 [] 0 0 0 6 6) = false /\
  wf_proto (Proto [opCreateABC 36 0 0 1; w_jmp (-2); w_return] [] 0 [] 0 0 0 6 3) = true.
Proof. vm_compute. split; reflexivity. Qed.

(* a jump onto a closure capture word (C07-5, fixed), a SETLIST extension word of 0 (C07-2, fixed),
   a missing final RETURN, a short line table, a non-string constant named by GETGLOBAL *)
Example bad_misc :
  wf_proto (Proto [opCreateABx 39 0 0; opCreateABC 0 0 0 0; w_jmp (-2); w_return] [] 0
                  [Proto [w_return] [] 0 [] 1 0 0 2 1] 0 1 0 2 4) = false /\
  wf_proto (Proto [opCreateABC 13 0 0 0; opCreateABC 37 0 0 0; 0; w_return] [] 0 [] 0 0 0 2 4) = false /\
  wf_proto (Proto [opCreateABC 13 0 0 0; opCreateABC 37 0 0 0; 512; w_return] [] 0 [] 0 0 0 2 4) = true /\
  wf_proto (Proto [opCreateABC 13 0 0 0] [] 0 [] 0 0 0 2 1) = false /\
  wf_proto (Proto [w_return] [] 0 [] 0 0 0 2 0) = false /\
  wf_proto (Proto [opCreateABx 6 0 0; w_return] [0] 1 [] 0 0 0 2 2) = false /\
  wf_proto (Proto [opCreateABx 6 0 0; w_return] [1] 1 [] 0 0 0 2 2) = true.
Proof. vm_compute. repeat split; reflexivity. Qed.

(* seeded regression C07-2: the block-number word after an extended SETLIST walked by patchCode as
   `MOVE 0 0` and re-coded as the head of a MOVEN group (opcode bits set): not a block number *)
Example bad_setlist_recoded :
  wf_proto (Proto [opCreateABC 13 0 0 0; opCreateABC 37 0 0 0; opSetArgC (opSetOpCode 512 1) 1; opCreateABC 0 1 0 0; w_return]
                  [] 0 [] 0 0 0 2 5) = false /\
  wf_proto (Proto [opCreateABC 13 0 0 0; opCreateABC 37 0 0 0; 512; opCreateABC 0 1 0 0; w_return]
                  [] 0 [] 0 0 0 2 5) = true.
Proof. vm_compute. split; reflexivity. Qed.

(* codec: the hypotheses of codec_roundtrip are satisfiable by boundary fields *)
Example codec_ex :
  opCreateABC 41 255 511 511 = 2818572287 /\ opGetOpCode 2818572287 = 41 /\ opGetArgC 2818572287 = 511 /\
  opGetArgSbx (opCreateASbx 25 0 (-131071)) = -131071 /\ opGetArgSbx (opCreateASbx 25 0 131072) = 131072.
Proof. vm_compute. repeat split; reflexivity. Qed.

(* the partial statement is not vacuous: its premise holds of ex_loop, hence all consequences *)
Example ex_loop_consequences : C07_consequences ex_loop.
Proof. apply C07_statement_partial_lemma. exact ex_loop_wf. Qed.
