(* C11 — non-vacuity: concrete, non-trivial states and runs meeting the hypotheses of the theorems. *)
From Coq Require Import List Arith Lia.
From GL Require Import Ctx.CancelModel Ctx.CancelFacts.
Import ListNotations.

(* A script that calls pcall(f), loops inside f, and is cancelled before its 4th dispatch attempt:
   a run from the attached initial state that reaches a cancelled state with a protected frame. *)
Definition script1 : list effect := [ENop; ECall [TLua true; TGoPcall] 0; ENop; ENop; ENop].

Lemma run_snoc σ tr σ1 l σ2 : run σ tr σ1 -> step σ1 l σ2 -> run σ (tr ++ [l]) σ2.
Proof.
  intros H Hs. induction H as [σ|σ l0 σa tr σb Hs0 Hr IH]; simpl.
  - econstructor; [exact Hs|constructor].
  - econstructor; [exact Hs0|auto].
Qed.

Example ex_run_reaches_cancel :
  exists tr1 σ1 tr2 σ2,
    run init_attached tr1 σ1 /\ cancelled σ1 = true /\ stk σ1 = [TLua true; TGoPcall; TLua true] /\
    run σ1 tr2 σ2 /\ final σ2 /\ md σ2 = Raising ECtx /\ attempts tr2 = 2 /\ instrs tr1 = 3.
Proof.
  destruct (drive 3 init_attached script1 0 0 []) as [[tr1 σ0] e1] eqn:E1.
  destruct (drive_sound _ _ _ _ _ _ _ _ _ E1) as (t1 & Ht1 & Hr1). simpl in Ht1. subst t1.
  vm_compute in E1. inversion E1; subst; clear E1.
  match type of Hr1 with run _ ?t ?σ0 =>
    assert (Hc : step σ0 LCancel (cancel_now σ0)) by (apply S_cancel; reflexivity);
    pose proof (run_snoc _ _ _ _ _ Hr1 Hc) as Hr1' end.
  destruct (exec 50 (cancel_now (mk [TLua true; TGoPcall; TLua true] Run false true 0 [])) [] [])
    as [[tr2 σ2] e2] eqn:E2.
  destruct (exec_sound _ _ _ _ _ _ _ E2) as (t2 & Ht2 & Hr2). simpl in Ht2. subst t2.
  vm_compute in E2. inversion E2; subst; clear E2.
  eexists _, _, _, _. split; [exact Hr1'|]. split; [reflexivity|]. split; [reflexivity|].
  split; [exact Hr2|]. repeat split; reflexivity.
Qed.

(* cstate, mode Run, armed, with nested protected calls and a coroutine boundary; the exact count. *)
Definition stack2 : list tag :=
  [TLua true; TGoXpcall HLua false; TLua true; TCo false true; TLua true; TGoPcall; TLua true].

Example ex_cstate_armed :
  cstate (fired stack2 0) /\ md (fired stack2 0) = Run /\ armed_run stack2 = true /\
  no_block stack2 = true /\ cost_run stack2 = 5 /\ protected_depth stack2 = 3 /\ depth stack2 = 7 /\ weight stack2 = 4 /\
  exists tr σ', run (fired stack2 0) tr σ' /\ final σ' /\ attempts tr = 5 /\ md σ' = Raising ECtx.
Proof.
  split; [apply cstate_fired; reflexivity|]. repeat (split; [reflexivity|]).
  destruct (run_of_exec stack2 0 []) as [[tr σ'] e] eqn:E.
  destruct (exec_sound _ _ _ _ _ _ _ E) as (t & Ht & Hr). simpl in Ht. subst t.
  vm_compute in E. inversion E; subst. eexists _, _. split; [exact Hr|]. repeat split; reflexivity.
Qed.

(* A Go library frame that is running when the context is cancelled from outside (gofuel > 0): it may
   still call, but what it calls polls (Lua) or is entered through TEntry. *)
Example ex_go_loop :
  let s := [TGoPlain; TLua true] in
  cstate (fired s 6) /\ armed_run s = false /\
  exists tr σ', run (fired s 6) tr σ' /\ final σ' /\ attempts tr = 2 /\
                attempts tr <= weight s + 1 + 2 * 6.
Proof.
  intros s. split; [apply cstate_fired; reflexivity|]. split; [reflexivity|].
  destruct (run_of_exec s 6 [GCall [TLua true; TGoPcall; TEntry true]]) as [[tr σ'] e] eqn:E.
  destruct (exec_sound _ _ _ _ _ _ _ E) as (t & Ht & Hr). simpl in Ht. subst t.
  vm_compute in E. inversion E; subst. eexists _, _. split; [exact Hr|].
  split; [reflexivity|]. split; [reflexivity|]. vm_compute. lia.
Qed.

(* Transparency: a not-cancelled state with a context in which a call instruction is possible. *)
Example ex_transparent :
  let σ := mk [TLua true; TCo true true; TLua true] Run false true 0 [(true, [TLua true])] in
  cancelled σ = false /\
  exists σ', step σ (LInstr true (ECall [TLua true; TGoXpcall HLua false] 0)) σ' /\
             step (erase σ) (LInstr false (ECall [TLua false; TGoXpcall HLua false] 0)) (erase σ').
Proof.
  intros σ. split; [reflexivity|]. eexists. split.
  - eapply S_instr; [reflexivity|reflexivity|reflexivity|]. vm_compute. reflexivity.
  - eapply S_instr; [reflexivity|reflexivity|reflexivity|]. vm_compute. reflexivity.
Qed.

(* threads_inherit: a run that creates a coroutine, resumes it and lets it yield: the pool and the
   stack are non-trivial and everything polls. *)
Example ex_threads :
  exists tr σ, run init_attached tr σ /\ pool σ = [(true, [TLua true])] /\
               exists tr' σ', run init_attached tr' σ' /\ stk σ' = [TLua true; TCo false true; TLua true].
Proof.
  destruct (drive 4 init_attached [ECreate; EResume 0 false; ENop; EYield] 0 0 []) as [[tr σ] e] eqn:E.
  destruct (drive_sound _ _ _ _ _ _ _ _ _ E) as (t & Ht & Hr). simpl in Ht. subst t.
  vm_compute in E. inversion E; subst; clear E.
  eexists _, _. split; [exact Hr|]. split; [reflexivity|].
  destruct (drive 2 init_attached [ECreate; EResume 0 false] 0 0 []) as [[tr' σ'] e'] eqn:E'.
  destruct (drive_sound _ _ _ _ _ _ _ _ _ E') as (t & Ht & Hr'). simpl in Ht. subst t.
  vm_compute in E'. inversion E'; subst; clear E'.
  eexists _, _. split; [exact Hr'|reflexivity].
Qed.

(* Context tree: the main context has id 0; a coroutine of a coroutine. *)
Example ex_ctx_tree :
  descends 0 (Some [0]) /\ new_thread_ctx (Some [0]) 1 = Some [1; 0] /\
  new_thread_ctx (new_thread_ctx (Some [0]) 1) 2 = Some [2; 1; 0] /\
  ctx_done [0] [2; 1; 0] = true /\ ctx_done [1] [2; 1; 0] = true /\ ctx_done [2] [1; 0] = false /\
  new_thread_ctx None 3 = None.
Proof. simpl. repeat split; auto. Qed.

(* A blocked channel operation inside a protected call inside a coroutine. *)
Example ex_blocked :
  let s := [TGoBlock true; TLua true; TGoPcall; TLua true; TCo false true; TLua true] in
  cstate (fired s 0) /\ md (fired s 0) = Run /\
  exists tr σ', run (fired s 0) tr σ' /\ final σ' /\ md σ' = Raising ECtx /\ attempts tr = 2 /\ armed_run s = true.
Proof.
  intros s. split; [apply cstate_fired; reflexivity|]. split; [reflexivity|].
  destruct (run_of_exec s 0 []) as [[tr σ'] e] eqn:E.
  destruct (exec_sound _ _ _ _ _ _ _ E) as (t & Ht & Hr). simpl in Ht. subst t.
  vm_compute in E. inversion E; subst. eexists _, _. split; [exact Hr|]. repeat split; reflexivity.
Qed.
