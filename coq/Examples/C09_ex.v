(* C09 — non-vacuity: concrete states meeting the hypotheses of the theorems. *)
From GL Require Import Common.Bytes Table.TImpl Table.TBasics Table.TSpec Table.TInv Table.TRefine Table.TGet Table.TNext.
From Coq Require Import Lia.

Definition MAI := 67108864.

(* a 12-op history with holes, delete / re-insert, growth across a gap, hash keys of every kind *)
Definition h12 : list op :=
  [ORawSet (KInt 1) (VNum 10); ORawSetInt 2 (VNum 20); ORawSet (KInt 5) (VNum 50);
   ORawSetString [97] (VBool false); ORawSetH (KBool true) (VStr [120]); ORawSet (KDy 1 (-1)) (VNum 7);
   ORawSet (KInt 5) VNil; ORawSetString [97] VNil; ORawSetString [97] (VNum 1);
   OAppend (VNum 30); OInsert 1 (VNum 5); ORemove 2].

Example h12_op_ok : forallb (op_ok MAI) h12 = true.
Proof. reflexivity. Qed.

(* hypothesis of get_refines / wf_reachable *)
Example h12_ok : ok_from MAI empty h12.
Proof. simpl. repeat split; try discriminate; intros _; vm_compute; reflexivity. Qed.

Example h12_state : arr (run MAI h12) = [VNum 5; VNum 20; VNum 30; VNil; VNil]
                    /\ keys (run MAI h12) = [KStr [97]; KBool true; KDy 1 (-1)]
                    /\ srun MAI h12 = [(KInt 1, VNum 5); (KInt 2, VNum 20); (KBool true, VStr [120]); (KDy 1 (-1), VNum 7); (KStr [97], VNum 1); (KInt 3, VNum 30)].
Proof. repeat split; reflexivity. Qed.

(* hypotheses of len_border / next_complete / next_under_update: a well-formed table with room *)
Example h12_wf : WF MAI (run MAI h12).
Proof. apply WF_run. exact h12_ok. Qed.

Example h12_room : bounded MAI (run MAI h12) /\ len (arr (run MAI h12)) + 1 < MAI.
Proof. split; [apply h12_wf|vm_compute; reflexivity]. Qed.

Example h12_len : Len (run MAI h12) = 3 /\ MaxN (run MAI h12) = 3.
Proof. split; reflexivity. Qed.

Example h12_walk :
  walk MAI (run MAI h12) None (walk_fuel (run MAI h12)) =
  Some [(KInt 1, VNum 5); (KInt 2, VNum 20); (KInt 3, VNum 30); (KStr [97], VNum 1); (KBool true, VStr [120]); (KDy 1 (-1), VNum 7)].
Proof. reflexivity. Qed.

(* a traversal during which visited and not yet visited existing fields are cleared / overwritten *)
Definition t0 := run MAI h12.
Definition t1 := RawSet MAI (RawSet MAI t0 (KInt 1) VNil) (KStr [97]) VNil.   (* after visiting key 1 *)
Definition t2 := RawSet MAI t1 (KInt 3) (VNum 33).                              (* after visiting key 2 *)

Example upd01 : upd_existing MAI t0 t1.
Proof.
  eapply ue_step with (k := KInt 1) (v := VNil); [vm_compute; discriminate|].
  eapply ue_step with (k := KStr [97]) (v := VNil); [vm_compute; discriminate|]. apply ue_refl.
Qed.
Example upd12 : upd_existing MAI t1 t2.
Proof. eapply ue_step with (k := KInt 3) (v := VNum 33); [vm_compute; discriminate|]. apply ue_refl. Qed.

Example trav_ex :
  trav MAI true t0 None
       [(KInt 1, VNum 5, t1); (KInt 2, VNum 20, t2); (KInt 3, VNum 33, t2);
        (KBool true, VStr [120], t2); (KDy 1 (-1), VNum 7, t2)].
Proof.
  eapply tr_cons; [reflexivity|exact upd01|].
  eapply tr_cons; [reflexivity|exact upd12|].
  eapply tr_cons; [reflexivity|apply ue_refl|].
  eapply tr_cons; [reflexivity|apply ue_refl|].
  eapply tr_cons; [reflexivity|apply ue_refl|].
  apply tr_nil. intros _. reflexivity.
Qed.

(* cursor hypothesis of next_value *)
Example cur_ok_ex : cur_ok t0 (Some (KBool true)) /\ Next MAI t0 (Some (KBool true)) = NKV (KDy 1 (-1)) (VNum 7).
Proof. split; [simpl; auto 10|reflexivity]. Qed.

(* the guard *)
Example guard_ex : LRawSet MAI t0 LKNaN (VNum 1) = None /\ LRawSet MAI t0 (LK (KInt 9)) (VNum 1) <> None.
Proof. split; [reflexivity|discriminate]. Qed.

(* hypothesis of next_under_remove: the hunt witness t={10,20,30,x=1,y=2}, table.remove(t) at key 3 *)
From GL Require Import Table.TLib Table.TNextR.
Definition tw := run MAI [OAppend (VNum 10); OAppend (VNum 20); OAppend (VNum 30); ORawSetString [120] (VNum 1); ORawSetString [121] (VNum 2)].
Definition tw' := snd (tableRemove tw (Some 3)).
Example travx_ex :
  travx MAI true tw None
        [(KInt 1, VNum 10, tw); (KInt 2, VNum 20, tw); (KInt 3, VNum 30, tw'); (KStr [120], VNum 1, tw'); (KStr [121], VNum 2, tw')].
Proof.
  eapply tx_cons; [reflexivity|apply ux_refl|].
  eapply tx_cons; [reflexivity|apply ux_refl|].
  eapply tx_cons; [reflexivity|eapply ux_remove with (pos := 3); apply ux_refl|].
  eapply tx_cons; [reflexivity|apply ux_refl|].
  eapply tx_cons; [reflexivity|apply ux_refl|].
  apply tx_nil. intros _. reflexivity.
Qed.
