(* Non-vacuity of the C08 theorems: concrete inputs meeting every hypothesis. *)
From GL Require Import Common.Bytes Front.Lines Front.Lexer Front.LexerFacts Front.LinesFacts
  Front.Render Front.RenderFacts.
Open Scope Z_scope.

(* "x=1 --c" + LF + "y" : a token is delivered and bytes are consumed *)
Definition ex_src : bytes := [120;61;49;32;45;45;99;10;121].

Example ex_progress_hyp : (length (rest (init_state ex_src)) < 10)%nat.
Proof. vm_compute. repeat constructor. Qed.

Example ex_progress_tok :
  exists t st', scan 10 (init_state ex_src) = STok t st' /\ off st' = 1.
Proof. eexists; eexists; split; vm_compute; reflexivity. Qed.

Example ex_lex_ok : exists toks, lex ex_src = LexOk toks /\ length toks = 4%nat.
Proof. eexists; split; vm_compute; reflexivity. Qed.

(* an unterminated string: the error case of lex_total_classified, at EOF (line -1) *)
Example ex_lex_err : exists toks e, lex [120;61;34;97] = LexErr toks e /\ e_line e = -1.
Proof. eexists; eexists; split; vm_compute; reflexivity. Qed.

(* lexer_lines_correct: bytes with all four line-end forms; the second token is on line 5 *)
Definition ex_lines_src : bytes := [97; 10; 13; 10; 13; 13; 98].   (* a LF CR LF CR CR b *)

Example ex_lines_hyp : is_bytes ex_lines_src = true.
Proof. reflexivity. Qed.

Example ex_lines_tokens :
  exists t1 t2, lex ex_lines_src = LexOk [t1; t2] /\ tk_line t1 = 1 /\ tk_line t2 = 4 /\
                line_of_offset ex_lines_src (tk_off t2) = 4.
Proof. eexists; eexists; split; [vm_compute; reflexivity|]. vm_compute. auto. Qed.

(* reference line counting: LF CR is one line end, CR CR are two *)
Example ex_count_nl : count_nl [10; 13; 10; 13; 13] = 3 /\ count_nl [13; 10; 13; 10] = 2 /\ count_nl [10; 10] = 2.
Proof. vm_compute. auto. Qed.

(* lex_render: local --[=[ ]=] x = "a\n" .. [[<CR LF>z]] -- done <CR>  with \f, \v, comments *)
Definition ex_items : list (sep * lexeme) :=
  [ ([SpBlank 12; SpLine [91; 61; 61; 32; 104] NlCRLF], LxName [108; 111; 99; 97; 108]);
    ([SpBlock 1 [93; 93; 10; 61]], LxName [120]);
    ([], LxSym 61);
    ([SpNl NlLF; SpNl NlCR; SpBlank 11], LxString 34 [SiChar 97; SiEsc 110; SiEscNl NlLFCR; SiDec 0 6 5]);
    ([], LxSym T2Comma);
    ([SpBlank 32], LxLong 0 [13; 10; 122]);
    ([], LxSym 45);
    ([SpBlank 32], LxNumber [49; 46; 53; 101; 45; 51]) ].
Definition ex_trailer : sep := [SpLine [32; 100; 111; 110; 101] NlCR].

Example ex_render_good : good ex_items ex_trailer = true.
Proof. vm_compute. reflexivity. Qed.

Example ex_render_tokens :
  lex (render ex_items ex_trailer) = LexOk (expected_tokens ex_items ex_trailer)
  /\ length (expected_tokens ex_items ex_trailer) = 8%nat.
Proof. split; vm_compute; reflexivity. Qed.

(* the separator may be empty exactly where nothing merges: "x=" is fine, "x1" is not two lexemes *)
Example ex_merge_rejected : good [([], LxName [120]); ([], LxNumber [49])] [] = false.
Proof. reflexivity. Qed.
