(* Non-vacuity of the C08 theorems: concrete inputs meeting every hypothesis. *)
From GL Require Import Common.Bytes Front.Lines Front.Lexer Front.LexerFacts.
Open Scope Z_scope.

(* "x=1 --c" + LF + "y" : a token is delivered and bytes are consumed *)
Definition ex_src : bytes := [120;61;49;32;45;45;99;10;121].

Example ex_progress_hyp : (length (rest (init_state ex_src)) < 10)%nat.
Proof. vm_compute. repeat constructor. Qed.

Example ex_progress_tok :
  exists t st', scan 10 (init_state ex_src) = STok t st' /\ off st' = 1.
Proof. eexists; eexists; split; vm_compute; reflexivity. Qed.

Example ex_lex_ok : exists toks, lex ex_src = LexOk toks /\ length toks = 4%nat.
Proof. eexists; split; vm_compute; reflexivity. Qed.

(* an unterminated string: the error case of lex_total_classified, at EOF (line -1) *)
Example ex_lex_err : exists toks e, lex [120;61;34;97] = LexErr toks e /\ e_line e = -1.
Proof. eexists; eexists; split; vm_compute; reflexivity. Qed.
