(* Non-vacuity of the C08 theorems: concrete inputs meeting every hypothesis. *)
From GL Require Import Common.Bytes Front.Lines Front.Lexer Front.LexerFacts Front.LinesFacts
  Front.Render Front.RenderFacts Front.Ast Front.Parser Front.Printer Front.ParserFacts.
Open Scope Z_scope.

(* "x=1 --c" + LF + "y" : a token is delivered and bytes are consumed *)
Definition ex_src : bytes := [120;61;49;32;45;45;99;10;121].

Example ex_progress_hyp : (length (rest (init_state ex_src)) < 10)%nat.
Proof. vm_compute. repeat constructor. Qed.

Example ex_progress_tok :
  exists t st', scan 10 (init_state ex_src) = STok t st' /\ off st' = 1.
Proof. eexists; eexists; split; vm_compute; reflexivity. Qed.

Example ex_lex_ok : exists toks, lex ex_src = LexOk toks /\ length toks = 4%nat.
Proof. eexists; split; vm_compute; reflexivity. Qed.

(* an unterminated string: the error case of lex_total_classified, at EOF (line -1) *)
Example ex_lex_err : exists toks e, lex [120;61;34;97] = LexErr toks e /\ e_line e = -1.
Proof. eexists; eexists; split; vm_compute; reflexivity. Qed.

(* lexer_lines_correct: bytes with all four line-end forms; the second token is on line 5 *)
Definition ex_lines_src : bytes := [97; 10; 13; 10; 13; 13; 98].   (* a LF CR LF CR CR b *)

Example ex_lines_hyp : is_bytes ex_lines_src = true.
Proof. reflexivity. Qed.

Example ex_lines_tokens :
  exists t1 t2, lex ex_lines_src = LexOk [t1; t2] /\ tk_line t1 = 1 /\ tk_line t2 = 4 /\
                line_of_offset ex_lines_src (tk_off t2) = 4.
Proof. eexists; eexists; split; [vm_compute; reflexivity|]. vm_compute. auto. Qed.

(* reference line counting: LF CR is one line end, CR CR are two *)
Example ex_count_nl : count_nl [10; 13; 10; 13; 13] = 3 /\ count_nl [13; 10; 13; 10] = 2 /\ count_nl [10; 10] = 2.
Proof. vm_compute. auto. Qed.

(* lex_render: local --[=[ ]=] x = "a\n" .. [[<CR LF>z]] -- done <CR>  with \f, \v, comments *)
Definition ex_items : list (sep * lexeme) :=
  [ ([SpBlank 12; SpLine [91; 61; 61; 32; 104] NlCRLF], LxName [108; 111; 99; 97; 108]);
    ([SpBlock 1 [93; 93; 10; 61]], LxName [120]);
    ([], LxSym 61);
    ([SpNl NlLF; SpNl NlCR; SpBlank 11], LxString 34 [SiChar 97; SiEsc 110; SiEscNl NlLFCR; SiDec 0 6 5]);
    ([], LxSym T2Comma);
    ([SpBlank 32], LxLong 0 [13; 10; 122]);
    ([], LxSym 45);
    ([SpBlank 32], LxNumber [49; 46; 53; 101; 45; 51]) ].
Definition ex_trailer : sep := [SpLine [32; 100; 111; 110; 101] NlCR].

Example ex_render_good : good ex_items ex_trailer = true.
Proof. vm_compute. reflexivity. Qed.

Example ex_render_tokens :
  lex (render ex_items ex_trailer) = LexOk (expected_tokens ex_items ex_trailer)
  /\ length (expected_tokens ex_items ex_trailer) = 8%nat.
Proof. split; vm_compute; reflexivity. Qed.

(* the separator may be empty exactly where nothing merges: "x=" is fine, "x1" is not two lexemes *)
Example ex_merge_rejected : good [([], LxName [120]); ([], LxNumber [49])] [] = false.
Proof. reflexivity. Qed.

(* reference parser: a tree with optional ";" and redundant parentheses:
     a = ((1 + 2)) * (b) ; (f)("s") ; return (g()), (...)        (x = [120], etc.) *)
Definition ex_tree : block :=
  BCons (SAssign (ELCons (EName [97]) ELNil)
           (ELCons (EBin OpMul (EParen (EParen (EBin OpAdd (ENumber [49]) (ENumber [50])))) (EParen (EName [98]))) ELNil)) true
  (BCons (SCall (ECall (EParen (EName [102])) (AString [115]))) false
  (BLast (LReturn (ELCons (EParen (ECall (EName [103]) (AList ELNil))) (ELCons (EParen EVararg) ELNil))) true)).

Example ex_tree_wf : wf_b ex_tree = true.
Proof. reflexivity. Qed.

Example ex_tree_roundtrip :
  parse (print ex_tree) = ParseOk (norm_b ex_tree) /\ parse_d gopher (print ex_tree) = ParseOk (norm_b ex_tree)
  /\ norm_b ex_tree <> ex_tree /\ length (print ex_tree) = 29%nat.
Proof. repeat split; try (vm_compute; reflexivity). vm_compute. discriminate. Qed.

(* the normal form keeps (g()) and (...) and drops the other parentheses and the ";" flags *)
Example ex_tree_norm :
  norm_b ex_tree =
  BCons (SAssign (ELCons (EName [97]) ELNil)
           (ELCons (EBin OpMul (EBin OpAdd (ENumber [49]) (ENumber [50])) (EName [98])) ELNil)) false
  (BCons (SCall (ECall (EName [102]) (AString [115]))) false
  (BLast (LReturn (ELCons (EParen (ECall (EName [103]) (AList ELNil))) (ELCons (EParen EVararg) ELNil))) false)).
Proof. reflexivity. Qed.

(* a normal tree *)
Example ex_normal : normal (norm_b ex_tree) /\ wf_b (norm_b ex_tree) = true.
Proof. split; reflexivity. Qed.

(* the two dialects differ on what Lua 5.1 rejects: ";;", "{a,,b}", "(f())", "(" on a new line *)
Example ex_dialects :
  parse [tk 59; tk 59] = ParseErr PSyntax /\ parse_d gopher [tk 59; tk 59] = ParseOk BNil
  /\ parse [tname [102]; (40, [], true); tk 41] = ParseErr PAmbiguous.
Proof. repeat split; vm_compute; reflexivity. Qed.
