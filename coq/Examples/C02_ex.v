(* C02 — non-vacuity: concrete closures, argument lists and tables. *)
From Coq Require Import Floats Lia.
From GL Require Import Common.Bytes Lua.Syntax Lua.Num Lua.Values Lua.Names Lua.Eval Lua.Run
  Lua.ValuesFacts Lua.MonadFacts Lua.EvalStepFacts Lua.CallFacts.

Definition n_a : bytes := [97]. Definition n_b : bytes := [98].
Notation num z := (VNum (f_of_Z z)).

(* closure 1: function(a, b, ...) return b, a, arg.n, ... end     (vararg, two parameters)
   closure 2: function(a, b) return a, b end                      (fixed) *)
Definition clo_va := mkClo [n_a; n_b] true
  [SReturn 1 [EVar n_b; EVar n_a; EIndex (EVar s_arg) (EStr s_n); EVarargs]] [] 0 1 false.
Definition clo_fx := mkClo [n_a; n_b] false [SReturn 2 [EVar n_a; EVar n_b]] [] 0 2 false.
Definition st : state :=
  let s := init_state no_devs [] in
  with_cells (with_clos s (clos s ++ [clo_va; clo_fx])) [VBool true; VBool false].

Definition args5 : list value := [num 1; num 2; num 3; num 4; num 5].

(* bind_params_spec instantiated: two fresh cells 2,3 hold 1,2; `...` = 3,4,5; arg.n = 3 *)
Example ex_bind_params :
  callee_varargs clo_va args5 = [num 3; num 4; num 5] /\
  callee_env st clo_va = [(n_b, 3%nat); (n_a, 2%nat); (s_arg, 4%nat)] /\
  firstn 5 (cells (callee_state st clo_va args5)) = [VBool true; VBool false; num 1; num 2; VTab 6] /\
  has_arg_table clo_va = true.
Proof. repeat split. Qed.

Example ex_call_vararg :
  call 40 [] (VFun 1) args5 st = Ret [num 2; num 1; num 3; num 3; num 4; num 5] (callee_state st clo_va args5).
Proof. rewrite call_fun_setup_lemma. vm_compute. reflexivity. Qed.

(* too few arguments: padded with nil; too many for a fixed function: dropped *)
Example ex_call_few : exists s', call 40 [] (VFun 2) [num 7] st = Ret [num 7; VNil] s'.
Proof. eexists. vm_compute. reflexivity. Qed.
Example ex_call_many : exists s', call 40 [] (VFun 2) args5 st = Ret [num 1; num 2] s'.
Proof. eexists. vm_compute. reflexivity. Qed.

(* expression list  1, f(1,2,3,4,5), (f(1,2,3,4,5)), f(7) : middle call and parenthesised call
   give one value each, the last call all of its values *)
Definition cx0 : ctx := mkCtx [] [] 0.
Definition callf (args : list expr) : expr := ECall (EVar [102]) args.
Definition en_f : env := [([102], 1%nat)].
Definition st_f : state := with_cells st [VBool true; VFun 2].
Definition five : list expr := map (fun z => ENum (f_of_Z z)) [1; 2; 3; 4; 5].

Definition es_s1 : state :=
  match eval_e 40 cx0 1 en_f (callf five) st_f with Ret _ s => s | _ => st_f end.
Definition es_s2 : state :=
  match eval_e 40 cx0 1 en_f (EParen (callf five)) es_s1 with Ret _ s => s | _ => st_f end.
Definition es_s3 : state :=
  match eval_multi 40 cx0 1 en_f (callf [ENum (f_of_Z 7)]) es_s2 with Ret _ s => s | _ => st_f end.

Example ex_evals_seq :
  evals_seq (eval_e 40 cx0 1 en_f) [ENum (f_of_Z 1); callf five; EParen (callf five)] st_f [num 1; num 1; num 1] es_s2.
Proof.
  econstructor; [vm_compute; reflexivity|].
  econstructor; [vm_compute; reflexivity|].
  econstructor; [vm_compute; reflexivity|]. constructor.
Qed.

Example ex_eval_list :
  eval_list_with (eval_e 40 cx0 1 en_f) (eval_multi 40 cx0 1 en_f)
    ([ENum (f_of_Z 1); callf five; EParen (callf five)] ++ [callf [ENum (f_of_Z 7)]]) st_f =
  Ret ([num 1; num 1; num 1] ++ [num 7; VNil]) es_s3.
Proof. apply (eval_list_with_spec_lemma _ _ _ _ _ _ _ _ _ ex_evals_seq). vm_compute. reflexivity. Qed.

(* select *)
Example ex_select_hyp : f_to_Z (f_of_Z 2) = Some 2. Proof. vm_compute. reflexivity. Qed.
Example ex_select : builtin_call 3 [] BSelect (num 2 :: args5) st = Ret [num 2; num 3; num 4; num 5] st.
Proof. rewrite (select_pos_lemma 2 [] (f_of_Z 2) 2 args5 st ex_select_hyp); [reflexivity|lia]. Qed.
Example ex_select_neg : builtin_call 3 [] BSelect (num (-2) :: args5) st = Ret [num 4; num 5] st.
Proof. rewrite (select_neg_lemma 2 [] (f_of_Z (-2)) (-2) args5 st); [reflexivity|vm_compute; reflexivity|lia|vm_compute; discriminate]. Qed.

(* unpack on a table with a hole: unpack(t, 1, 4) returns four values, the hole as nil *)
Definition st_t : state :=
  with_tabs st (tabs st ++ [mkTab [(num 1, VStr [120]); (num 2, VStr [121]); (num 4, VStr [122])] None]).
Example ex_unpack :
  builtin_call 3 [] BUnpack [VTab 6; num 1; num 4] st_t = Ret [VStr [120]; VStr [121]; VNil; VStr [122]] st_t.
Proof.
  destruct (unpack_spec_lemma 2 [] 6 (f_of_Z 1) (f_of_Z 4) 1 4 [] st_t) as [H _];
    [vm_compute; reflexivity|vm_compute; reflexivity|lia|].
  rewrite H. vm_compute. reflexivity.
Qed.

(* ---- wave 5 ---- *)
From GL Require Import Lua.DriveRunFacts Lua.CallFreshFacts.

(* unpack(t) after the last element was removed by assignment (t[#t] = nil): exactly t[1..#t] *)
Definition kv3 : list (value * value) := [(num 1, num 10); (num 2, num 20); (num 3, num 30)].
Definition st_p : state := with_tabs st (tabs st ++ [mkTab (kv_set kv3 (vint (border kv3)) VNil) None]).
Example ex_unpack_after_pop :
  border_unique (t_kv (nth 6 (tabs st_p) empty_tab)) = true /\
  builtin_call 3 [] BUnpack [VTab 6] st_p = Ret [num 10; num 20] st_p.
Proof.
  split; [vm_compute; reflexivity|].
  rewrite (unpack_default_lemma 2 [] 6 st_p); [vm_compute; reflexivity|vm_compute; reflexivity|vm_compute; discriminate].
Qed.

(* the arg table: a zero-surplus call of clo_va gets table 6 = {n = 0}; its owner stores arg[1] and
   arg.n = 1 into it (state st_m); the next zero-surplus call, set up from there, gets table 7 = {n = 0}
   and table 6 keeps what its owner wrote *)
Definition st_c1 : state := callee_state st clo_va [].
Definition st_m : state :=
  with_tabs st_c1 (firstn 6 (tabs st_c1) ++
    [mkTab (kv_set (kv_set (t_kv (nth 6 (tabs st_c1) empty_tab)) (vint 1) (VStr [100])) (VStr s_n) (vint 1)) None]).
Example ex_arg_fresh_hyps :
  has_arg_table clo_va = true /\ length (tabs st) = 6%nat /\ store_grows st_c1 st_m /\
  kv_get (t_kv (nth 6 (tabs st_c1) empty_tab)) (VStr s_n) = vint 0.
Proof.
  split; [reflexivity|split; [reflexivity|split; [|vm_compute; reflexivity]]].
  unfold store_grows. vm_compute. repeat split; try lia. exists []. reflexivity.
Qed.
Example ex_arg_fresh :
  let s3 := callee_state st_m clo_va [num 1] in
  nth 7 (cells s3) VNil = VTab 7 /\
  kv_get (t_kv (nth 7 (tabs s3) empty_tab)) (VStr s_n) = vint 0 /\
  kv_get (t_kv (nth 7 (tabs s3) empty_tab)) (vint 1) = VNil /\
  kv_get (t_kv (nth 6 (tabs s3) empty_tab)) (VStr s_n) = vint 1 /\
  kv_get (t_kv (nth 6 (tabs s3) empty_tab)) (vint 1) = VStr [100].
Proof.
  destruct ex_arg_fresh_hyps as [H1 [_ [Hg _]]].
  destruct (arg_tables_distinct_lemma st clo_va [] st_m clo_va [num 1] H1 H1 Hg) as [_ [Hc [Ht Ho]]].
  cbv zeta. split; [exact Hc|]. clear Hc. change (length (tabs st_m)) with 7%nat in Ht. change (length (tabs st)) with 6%nat in Ho.
  rewrite Ht, Ho. vm_compute. repeat split.
Qed.
