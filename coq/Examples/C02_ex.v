(* C02 — non-vacuity: concrete closures, argument lists and tables. *)
From Coq Require Import Floats Lia.
From GL Require Import Common.Bytes Lua.Syntax Lua.Num Lua.Values Lua.Names Lua.Eval Lua.Run
  Lua.ValuesFacts Lua.MonadFacts Lua.EvalStepFacts Lua.CallFacts.

Definition n_a : bytes := [97]. Definition n_b : bytes := [98].
Notation num z := (VNum (f_of_Z z)).

(* closure 1: function(a, b, ...) return b, a, arg.n, ... end     (vararg, two parameters)
   closure 2: function(a, b) return a, b end                      (fixed) *)
Definition clo_va := mkClo [n_a; n_b] true
  [SReturn 1 [EVar n_b; EVar n_a; EIndex (EVar s_arg) (EStr s_n); EVarargs]] [] 0 1 false.
Definition clo_fx := mkClo [n_a; n_b] false [SReturn 2 [EVar n_a; EVar n_b]] [] 0 2 false.
Definition st : state :=
  let s := init_state no_devs [] in
  with_cells (with_clos s (clos s ++ [clo_va; clo_fx])) [VBool true; VBool false].

Definition args5 : list value := [num 1; num 2; num 3; num 4; num 5].

(* bind_params_spec instantiated: two fresh cells 2,3 hold 1,2; `...` = 3,4,5; arg.n = 3 *)
Example ex_bind_params :
  callee_varargs clo_va args5 = [num 3; num 4; num 5] /\
  callee_env st clo_va = [(n_b, 3%nat); (n_a, 2%nat); (s_arg, 4%nat)] /\
  firstn 5 (cells (callee_state st clo_va args5)) = [VBool true; VBool false; num 1; num 2; VTab 6] /\
  has_arg_table clo_va = true.
Proof. repeat split. Qed.

Example ex_call_vararg :
  call 40 [] (VFun 1) args5 st = Ret [num 2; num 1; num 3; num 3; num 4; num 5] (callee_state st clo_va args5).
Proof. rewrite call_fun_setup_lemma. vm_compute. reflexivity. Qed.

(* too few arguments: padded with nil; too many for a fixed function: dropped *)
Example ex_call_few : exists s', call 40 [] (VFun 2) [num 7] st = Ret [num 7; VNil] s'.
Proof. eexists. vm_compute. reflexivity. Qed.
Example ex_call_many : exists s', call 40 [] (VFun 2) args5 st = Ret [num 1; num 2] s'.
Proof. eexists. vm_compute. reflexivity. Qed.

(* expression list  1, f(1,2,3,4,5), (f(1,2,3,4,5)), f(7) : middle call and parenthesised call
   give one value each, the last call all of its values *)
Definition cx0 : ctx := mkCtx [] [] 0.
Definition callf (args : list expr) : expr := ECall (EVar [102]) args.
Definition en_f : env := [([102], 1%nat)].
Definition st_f : state := with_cells st [VBool true; VFun 2].
Definition five : list expr := map (fun z => ENum (f_of_Z z)) [1; 2; 3; 4; 5].

Definition es_s1 : state :=
  match eval_e 40 cx0 1 en_f (callf five) st_f with Ret _ s => s | _ => st_f end.
Definition es_s2 : state :=
  match eval_e 40 cx0 1 en_f (EParen (callf five)) es_s1 with Ret _ s => s | _ => st_f end.
Definition es_s3 : state :=
  match eval_multi 40 cx0 1 en_f (callf [ENum (f_of_Z 7)]) es_s2 with Ret _ s => s | _ => st_f end.

Example ex_evals_seq :
  evals_seq (eval_e 40 cx0 1 en_f) [ENum (f_of_Z 1); callf five; EParen (callf five)] st_f [num 1; num 1; num 1] es_s2.
Proof.
  econstructor; [vm_compute; reflexivity|].
  econstructor; [vm_compute; reflexivity|].
  econstructor; [vm_compute; reflexivity|]. constructor.
Qed.

Example ex_eval_list :
  eval_list_with (eval_e 40 cx0 1 en_f) (eval_multi 40 cx0 1 en_f)
    ([ENum (f_of_Z 1); callf five; EParen (callf five)] ++ [callf [ENum (f_of_Z 7)]]) st_f =
  Ret ([num 1; num 1; num 1] ++ [num 7; VNil]) es_s3.
Proof. apply (eval_list_with_spec_lemma _ _ _ _ _ _ _ _ _ ex_evals_seq). vm_compute. reflexivity. Qed.

(* select *)
Example ex_select_hyp : f_to_Z (f_of_Z 2) = Some 2. Proof. vm_compute. reflexivity. Qed.
Example ex_select : builtin_call 3 [] BSelect (num 2 :: args5) st = Ret [num 2; num 3; num 4; num 5] st.
Proof. rewrite (select_pos_lemma 2 [] (f_of_Z 2) 2 args5 st ex_select_hyp); [reflexivity|lia]. Qed.
Example ex_select_neg : builtin_call 3 [] BSelect (num (-2) :: args5) st = Ret [num 4; num 5] st.
Proof. rewrite (select_neg_lemma 2 [] (f_of_Z (-2)) (-2) args5 st); [reflexivity|vm_compute; reflexivity|lia|vm_compute; discriminate]. Qed.

(* unpack on a table with a hole: unpack(t, 1, 4) returns four values, the hole as nil *)
Definition st_t : state :=
  with_tabs st (tabs st ++ [mkTab [(num 1, VStr [120]); (num 2, VStr [121]); (num 4, VStr [122])] None]).
Example ex_unpack :
  builtin_call 3 [] BUnpack [VTab 6; num 1; num 4] st_t = Ret [VStr [120]; VStr [121]; VNil; VStr [122]] st_t.
Proof.
  destruct (unpack_spec_lemma 2 [] 6 (f_of_Z 1) (f_of_Z 4) 1 4 [] st_t) as [H _];
    [vm_compute; reflexivity|vm_compute; reflexivity|lia|].
  rewrite H. vm_compute. reflexivity.
Qed.
