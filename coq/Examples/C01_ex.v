(* C01 — non-vacuity: concrete environments, stores and tables. *)
From Coq Require Import Floats Lia.
From GL Require Import Common.Bytes Lua.Syntax Lua.Num Lua.Values Lua.Names Lua.Eval Lua.Run
  Lua.ValuesFacts Lua.TableFacts Lua.MonadFacts Lua.EvalStepFacts Lua.CallFacts Lua.CoreFacts Lua.EvalFuelFacts.

Notation num z := (VNum (f_of_Z z)).
Notation enum z := (ENum (f_of_Z z)).
Definition n_a : bytes := [97]. Definition n_b : bytes := [98]. Definition n_c : bytes := [99].

(* three locals a=1 (cell 0), b=2 (cell 1), c=3 (cell 2) *)
Definition st : state := with_cells (init_state no_devs []) [num 1; num 2; num 3].
Definition en0 : env := [(n_c, 2%nat); (n_b, 1%nat); (n_a, 0%nat)].
Definition cx0 : ctx := mkCtx [] [] 0.

(* a, b, c = b, c, a  rotates: the hypotheses of assign_locals_simultaneous hold *)
Example ex_assign_hyps :
  Forall2 (fun x c => lookup en0 x = Some c) [n_a; n_b; n_c] [0; 1; 2]%nat /\ NoDup [0; 1; 2]%nat /\
  eval_list_with (eval_e 5 cx0 1 en0) (eval_multi 5 cx0 1 en0) [EVar n_b; EVar n_c; EVar n_a] st = Ret [num 2; num 3; num 1] st.
Proof.
  split; [repeat constructor|]. split; [|reflexivity].
  repeat constructor; simpl; intuition discriminate.
Qed.

Example ex_rotate : exists s3,
  exec 6 cx0 en0 (SAssign 1 [EVar n_a; EVar n_b; EVar n_c] [EVar n_b; EVar n_c; EVar n_a]) st = Ret (SigNormal, en0) s3 /\
  firstn 3 (cells s3) = [num 2; num 3; num 1].
Proof.
  destruct ex_assign_hyps as [H1 [H2 H3]].
  destruct (assign_locals_lemma 5 cx0 en0 1 [n_a; n_b; n_c] [0; 1; 2]%nat [EVar n_b; EVar n_c; EVar n_a] st [num 2; num 3; num 1] st H1 H2)
    as [s3 [E [Hc _]]]; [simpl; intros c [<-|[<-|[<-|[]]]]; lia|exact H3|].
  exists s3. split; [exact E|].
  assert (E' : exists s', exec 6 cx0 en0 (SAssign 1 [EVar n_a; EVar n_b; EVar n_c] [EVar n_b; EVar n_c; EVar n_a]) st = Ret (SigNormal, en0) s' /\ firstn 3 (cells s') = [num 2; num 3; num 1]).
  { eexists. split; vm_compute; reflexivity. }
  destruct E' as [s' [E1 E2]]. simpl map in E. rewrite E in E1. inversion E1; subst. exact E2.
Qed.

(* logical operators: nil and 5 --> nil (second operand not evaluated: it would fail);
   false or "x" --> "x"; 0 and 2 --> 2 (0 is true) *)
Definition boom : expr := ECall (EVar s_error) [EStr [120]].
Example ex_and_short : eval_e 6 cx0 1 en0 (EAnd ENil boom) st = Ret VNil st.
Proof. apply (and_false_lemma 5 cx0 1 en0 ENil boom st VNil st); reflexivity. Qed.
Example ex_or_second : eval_e 6 cx0 1 en0 (EOr EFalse (EStr [120])) st = Ret (VStr [120]) st.
Proof. rewrite (or_false_lemma 5 cx0 1 en0 EFalse (EStr [120]) st (VBool false) st); reflexivity. Qed.
Example ex_zero_true : eval_e 6 cx0 1 en0 (EAnd (enum 0) (enum 2)) st = Ret (num 2) st.
Proof. rewrite (and_true_lemma 5 cx0 1 en0 (enum 0) (enum 2) st (num 0) st); reflexivity. Qed.

(* conditions: `if 0` and `if "x"` take the same branch *)
Example ex_cond : exec 7 cx0 en0 (SIf 1 (enum 0) [SBreak] []) st = exec 7 cx0 en0 (SIf 1 (EStr [120]) [SBreak] []) st.
Proof. apply (cond_same_truth_lemma 6 cx0 en0 1 (enum 0) (EStr [120]) [SBreak] [] st (num 0) (VStr [120]) st); reflexivity. Qed.

(* a table with string and integer keys and a hole at 3 *)
Definition kv0 : list (value * value) :=
  kv_set (kv_set (kv_set (kv_set [] (VStr [120]) (num 10)) (vint 1) (VStr [97])) (vint 2) (VStr [98])) (vint 4) (VStr [100]).

Example ex_get_set_same : kv_get (kv_set kv0 (vint 3) (VStr [99])) (vint 3) = VStr [99].
Proof. apply kv_get_set_same_lemma; vm_compute; reflexivity. Qed.

Example ex_sep : sep kv0 (vint 3) (vint 4).
Proof.
  split; [vm_compute; reflexivity|]. intros k' Hin.
  vm_compute in Hin. destruct Hin as [<-|[<-|[<-|[<-|[]]]]]; vm_compute; intros H; try reflexivity; discriminate.
Qed.
Example ex_get_set_other : kv_get (kv_set kv0 (vint 3) (VStr [99])) (vint 4) = VStr [100].
Proof. rewrite (kv_get_set_other_lemma kv0 (vint 3) (VStr [99]) (vint 4) ex_sep). vm_compute. reflexivity. Qed.

Example ex_delete : kv_get (kv_set kv0 (vint 2) VNil) (vint 2) = VNil.
Proof. apply kv_set_nil_deletes_lemma. vm_compute. lia. Qed.

Example ex_border : border kv0 = 2 /\ vint_sep kv0 3 /\ is_nil (kv_get kv0 (vint 3)) = true.
Proof.
  assert (Hb : border kv0 = 2) by (vm_compute; reflexivity).
  assert (Hs : vint_sep kv0 3) by (apply (vint_sep_b_sound_lemma kv0 3); vm_compute; reflexivity).
  split; [exact Hb|]. split; [exact Hs|].
  destruct (border_is_border_lemma kv0 2 Hb) as [_ [_ H]]. apply H. exact Hs.
Qed.

(* coercions *)
Example ex_arith_string : binop_v 3 [] OAdd (VStr [49;48]) (num 5) st = Ret (num 15) st.
Proof.
  rewrite (arith_coerces_strings_lemma 2 [] OAdd [49;48] (f_of_Z 10) (f_of_Z 5) st); [|reflexivity|vm_compute; reflexivity].
  vm_compute. reflexivity.
Qed.
Example ex_concat_number : binop_v 3 [] OConcat (VStr [120]) (num 12) st = Ret (VStr [120;49;50]) st.
Proof. rewrite (concat_accepts_numbers_lemma 2 [] [120] (f_of_Z 12) [49;50] st); [reflexivity|vm_compute; reflexivity]. Qed.

(* fuel monotonicity: the outcome computed with fuel 60 is the outcome at the harness fuel 30000
   (obtained from the theorem, not by running the evaluator again) *)
Definition prog : list stmt :=
  [SLocal 1 [n_a] [enum 0];
   SNumFor 2 n_b (enum 1) (enum 4) None [SAssign 2 [EVar n_a] [EBin OAdd (EVar n_a) (EVar n_b)]];
   SCall 3 (ECall (EVar s_emit) [EVar n_a])].
Definition is_finfuel (f : fin) : bool := match f with FinFuel => true | _ => false end.
Example ex_prog_trace : match run_program 60 no_devs prog with FinOk _ s => trace s | _ => [] end = [[num 10]].
Proof. vm_compute. reflexivity. Qed.
Example ex_prog_determined : is_finfuel (run_program 60 no_devs prog) = false.
Proof. vm_compute. reflexivity. Qed.
Example ex_fuel_mono : run_program (Z.to_nat 30000) no_devs prog = run_program 60 no_devs prog.
Proof.
  apply run_program_stable_lemma with (n := 60%nat).
  - lia.
  - exact eq_refl.
  - intros H. pose proof ex_prog_determined as T. rewrite H in T. discriminate.
Qed.
