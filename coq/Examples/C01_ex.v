(* C01 — non-vacuity: concrete environments, stores and tables. *)
From Coq Require Import Floats Lia.
From GL Require Import Common.Bytes Lua.Syntax Lua.Num Lua.Values Lua.Names Lua.Eval Lua.Run
  Lua.ValuesFacts Lua.TableFacts Lua.MonadFacts Lua.EvalStepFacts Lua.CallFacts Lua.CoreFacts Lua.EvalFuelFacts.

Notation num z := (VNum (f_of_Z z)).
Notation enum z := (ENum (f_of_Z z)).
Definition n_a : bytes := [97]. Definition n_b : bytes := [98]. Definition n_c : bytes := [99].

(* three locals a=1 (cell 0), b=2 (cell 1), c=3 (cell 2) *)
Definition st : state := with_cells (init_state no_devs []) [num 1; num 2; num 3].
Definition en0 : env := [(n_c, 2%nat); (n_b, 1%nat); (n_a, 0%nat)].
Definition cx0 : ctx := mkCtx [] [] 0.

(* a, b, c = b, c, a  rotates: the hypotheses of assign_locals_simultaneous hold *)
Example ex_assign_hyps :
  Forall2 (fun x c => lookup en0 x = Some c) [n_a; n_b; n_c] [0; 1; 2]%nat /\ NoDup [0; 1; 2]%nat /\
  eval_list_with (eval_e 5 cx0 1 en0) (eval_multi 5 cx0 1 en0) [EVar n_b; EVar n_c; EVar n_a] st = Ret [num 2; num 3; num 1] st.
Proof.
  split; [repeat constructor|]. split; [|reflexivity].
  repeat constructor; simpl; intuition discriminate.
Qed.

Example ex_rotate : exists s3,
  exec 6 cx0 en0 (SAssign 1 [EVar n_a; EVar n_b; EVar n_c] [EVar n_b; EVar n_c; EVar n_a]) st = Ret (SigNormal, en0) s3 /\
  firstn 3 (cells s3) = [num 2; num 3; num 1].
Proof.
  destruct ex_assign_hyps as [H1 [H2 H3]].
  destruct (assign_locals_lemma 5 cx0 en0 1 [n_a; n_b; n_c] [0; 1; 2]%nat [EVar n_b; EVar n_c; EVar n_a] st [num 2; num 3; num 1] st H1 H2)
    as [s3 [E [Hc _]]]; [simpl; intros c [<-|[<-|[<-|[]]]]; lia|exact H3|].
  exists s3. split; [exact E|].
  assert (E' : exists s', exec 6 cx0 en0 (SAssign 1 [EVar n_a; EVar n_b; EVar n_c] [EVar n_b; EVar n_c; EVar n_a]) st = Ret (SigNormal, en0) s' /\ firstn 3 (cells s') = [num 2; num 3; num 1]).
  { eexists. split; vm_compute; reflexivity. }
  destruct E' as [s' [E1 E2]]. simpl map in E. rewrite E in E1. inversion E1; subst. exact E2.
Qed.

(* logical operators: nil and 5 --> nil (second operand not evaluated: it would fail);
   false or "x" --> "x"; 0 and 2 --> 2 (0 is true) *)
Definition boom : expr := ECall (EVar s_error) [EStr [120]].
Example ex_and_short : eval_e 6 cx0 1 en0 (EAnd ENil boom) st = Ret VNil st.
Proof. apply (and_false_lemma 5 cx0 1 en0 ENil boom st VNil st); reflexivity. Qed.
Example ex_or_second : eval_e 6 cx0 1 en0 (EOr EFalse (EStr [120])) st = Ret (VStr [120]) st.
Proof. rewrite (or_false_lemma 5 cx0 1 en0 EFalse (EStr [120]) st (VBool false) st); reflexivity. Qed.
Example ex_zero_true : eval_e 6 cx0 1 en0 (EAnd (enum 0) (enum 2)) st = Ret (num 2) st.
Proof. rewrite (and_true_lemma 5 cx0 1 en0 (enum 0) (enum 2) st (num 0) st); reflexivity. Qed.

(* conditions: `if 0` and `if "x"` take the same branch *)
Example ex_cond : exec 7 cx0 en0 (SIf 1 (enum 0) [SBreak] []) st = exec 7 cx0 en0 (SIf 1 (EStr [120]) [SBreak] []) st.
Proof. apply (cond_same_truth_lemma 6 cx0 en0 1 (enum 0) (EStr [120]) [SBreak] [] st (num 0) (VStr [120]) st); reflexivity. Qed.

(* a table with string and integer keys and a hole at 3 *)
Definition kv0 : list (value * value) :=
  kv_set (kv_set (kv_set (kv_set [] (VStr [120]) (num 10)) (vint 1) (VStr [97])) (vint 2) (VStr [98])) (vint 4) (VStr [100]).

Example ex_get_set_same : kv_get (kv_set kv0 (vint 3) (VStr [99])) (vint 3) = VStr [99].
Proof. apply kv_get_set_same_lemma; vm_compute; reflexivity. Qed.

Example ex_sep : sep kv0 (vint 3) (vint 4).
Proof.
  split; [vm_compute; reflexivity|]. intros k' Hin.
  vm_compute in Hin. destruct Hin as [<-|[<-|[<-|[<-|[]]]]]; vm_compute; intros H; try reflexivity; discriminate.
Qed.
Example ex_get_set_other : kv_get (kv_set kv0 (vint 3) (VStr [99])) (vint 4) = VStr [100].
Proof. rewrite (kv_get_set_other_lemma kv0 (vint 3) (VStr [99]) (vint 4) ex_sep). vm_compute. reflexivity. Qed.

Example ex_delete : kv_get (kv_set kv0 (vint 2) VNil) (vint 2) = VNil.
Proof. apply kv_set_nil_deletes_lemma. vm_compute. lia. Qed.

Example ex_border : border kv0 = 2 /\ vint_sep kv0 3 /\ is_nil (kv_get kv0 (vint 3)) = true.
Proof.
  assert (Hb : border kv0 = 2) by (vm_compute; reflexivity).
  assert (Hs : vint_sep kv0 3) by (apply (vint_sep_b_sound_lemma kv0 3); vm_compute; reflexivity).
  split; [exact Hb|]. split; [exact Hs|].
  destruct (border_is_border_lemma kv0 2 Hb) as [_ [_ H]]. apply H. exact Hs.
Qed.

(* coercions *)
Example ex_arith_string : binop_v 3 [] OAdd (VStr [49;48]) (num 5) st = Ret (num 15) st.
Proof.
  rewrite (arith_coerces_strings_lemma 2 [] OAdd [49;48] (f_of_Z 10) (f_of_Z 5) st); [|reflexivity|vm_compute; reflexivity].
  vm_compute. reflexivity.
Qed.
Example ex_concat_number : binop_v 3 [] OConcat (VStr [120]) (num 12) st = Ret (VStr [120;49;50]) st.
Proof. rewrite (concat_accepts_numbers_lemma 2 [] [120] (f_of_Z 12) [49;50] st); [reflexivity|vm_compute; reflexivity]. Qed.

(* fuel monotonicity: the outcome computed with fuel 60 is the outcome at the harness fuel 30000
   (obtained from the theorem, not by running the evaluator again) *)
Definition prog : list stmt :=
  [SLocal 1 [n_a] [enum 0];
   SNumFor 2 n_b (enum 1) (enum 4) None [SAssign 2 [EVar n_a] [EBin OAdd (EVar n_a) (EVar n_b)]];
   SCall 3 (ECall (EVar s_emit) [EVar n_a])].
Definition is_finfuel (f : fin) : bool := match f with FinFuel => true | _ => false end.
Example ex_prog_trace : match run_program 60 no_devs prog with FinOk _ s => trace s | _ => [] end = [[num 10]].
Proof. vm_compute. reflexivity. Qed.
Example ex_prog_determined : is_finfuel (run_program 60 no_devs prog) = false.
Proof. vm_compute. reflexivity. Qed.
Example ex_fuel_mono : run_program (Z.to_nat 30000) no_devs prog = run_program 60 no_devs prog.
Proof.
  apply run_program_stable_lemma with (n := 60%nat).
  - lia.
  - exact eq_refl.
  - intros H. pose proof ex_prog_determined as T. rewrite H in T. discriminate.
Qed.

(* ---------- wave 5: numeric-for operands ---------- *)
From GL Require Import Lua.ForFacts Lua.AssignFacts.

(* for b = "1", " 4 ", "0x1" do a = a + b end  is the loop over the numbers 1, 4, 1 (by the
   theorem), and that loop leaves a = 1 + (1+2+3+4) (by computation) *)
Definition s_one : bytes := [49]. Definition s_four : bytes := [32;52;32]. Definition s_hexone : bytes := [48;120;49].
Definition for_body : list stmt := [SAssign 2 [EVar n_a] [EBin OAdd (EVar n_a) (EVar n_b)]].
Example ex_numfor_hyps : text_to_f s_one = PNum (f_of_Z 1) /\ text_to_f s_four = PNum (f_of_Z 4) /\ text_to_f s_hexone = PNum (f_of_Z 1).
Proof. repeat split; vm_compute; reflexivity. Qed.
Example ex_numfor_strings :
  exec 40 cx0 en0 (SNumFor 1 n_b (EStr s_one) (EStr s_four) (Some (EStr s_hexone)) for_body) st =
  exec 40 cx0 en0 (SNumFor 1 n_b (enum 1) (enum 4) (Some (enum 1)) for_body) st.
Proof.
  destruct ex_numfor_hyps as [H1 [H2 H3]].
  exact (numfor_string_literal_lemma 38 cx0 en0 1 n_b s_one s_four s_hexone _ _ _ for_body st H1 H2 H3).
Qed.
Example ex_numfor_runs : match exec 40 cx0 en0 (SNumFor 1 n_b (EStr s_one) (EStr s_four) (Some (EStr s_hexone)) for_body) st with
                         | Ret (SigNormal, _) s' => nth 0 (cells s') VNil = num 11 | _ => False end.
Proof. rewrite ex_numfor_strings. vm_compute. reflexivity. Qed.

(* for b = 1, "x" do ... end : the limit is not a numeral: error of class 6 on line 1, no iteration *)
Example ex_numfor_bad : exec 40 cx0 en0 (SNumFor 1 n_b (enum 1) (EStr [120]) None for_body) st = Err (VFault 6 1) st.
Proof.
  apply (numfor_bad_operand_lemma 39 cx0 en0 1 n_b (enum 1) (EStr [120]) None for_body st (num 1) st (VStr [120]) st (VNum 1%float) st);
    try reflexivity; try exact I. right. left. vm_compute. reflexivity.
Qed.

(* ---------- wave 5: multiple assignment to fields of one table ---------- *)
(* c is a fresh table without metatable; c.x, c.y = b, a : the hypotheses of
   assign_fields_simultaneous hold and the fields are 2 and 1 *)
Definition rT : nat := length (tabs (init_state no_devs [])).
Definition st_t : state :=
  with_tabs (with_cells (init_state no_devs []) [num 1; num 2; VTab rT]) (tabs (init_state no_devs []) ++ [empty_tab]).
Definition k_x : bytes := [120]. Definition k_y : bytes := [121].
Definition lhs_t : list expr := [EIndex (EVar n_c) (EStr k_x); EIndex (EVar n_c) (EStr k_y)].
Example ex_fields_hyps :
  mapM (assign_ref 5 cx0 1 en0) lhs_t st_t = Ret (map (field_ref rT) [k_x; k_y]) st_t /\
  eval_list_with (eval_e 5 cx0 1 en0) (eval_multi 5 cx0 1 en0) [EVar n_b; EVar n_a] st_t = Ret [num 2; num 1] st_t /\
  NoDup [k_x; k_y] /\ (rT < length (tabs st_t))%nat /\ t_meta (nth rT (tabs st_t) empty_tab) = None /\
  Forall (fun v => is_nil v = false) (adjust 2 [num 2; num 1]).
Proof.
  split; [vm_compute; reflexivity|]. split; [vm_compute; reflexivity|].
  split; [repeat constructor; simpl; intuition discriminate|].
  split; [vm_compute; lia|]. split; [vm_compute; reflexivity|]. repeat constructor.
Qed.
Example ex_fields_assigned : exists s3,
  exec 6 cx0 en0 (SAssign 1 lhs_t [EVar n_b; EVar n_a]) st_t = Ret (SigNormal, en0) s3 /\
  kv_get (t_kv (nth rT (tabs s3) empty_tab)) (VStr k_x) = num 2 /\
  kv_get (t_kv (nth rT (tabs s3) empty_tab)) (VStr k_y) = num 1.
Proof.
  destruct ex_fields_hyps as [H1 [H2 [H3 [H4 [H5 H6]]]]].
  destruct (assign_fields_lemma 4 cx0 en0 1 lhs_t rT [k_x; k_y] [EVar n_b; EVar n_a] st_t st_t [num 2; num 1] st_t H1 H2 H3 H4 H5 H6)
    as [s3 [E [Hf _]]].
  exists s3. split; [exact E|]. split; [exact (Hf 0%nat ltac:(simpl; lia))|exact (Hf 1%nat ltac:(simpl; lia))].
Qed.

(* ---------- wave 5: OP_FORPREP / OP_FORLOOP of the VM model ---------- *)
From GL Require Import VM.Opcode VMX.Machine VMX.Step.
From GL Require VMX.ForFacts.
Open Scope Z_scope.
(* registers 1..3 of a frame with LocalBase 1 hold "1", 7, " 2 " (init, limit, step) *)
Definition i_forprep : Z := Z.lor (Z.shiftl 35 26) (131071 + 2).   (* FORPREP A=0 sBx=2 *)
Definition i_forloop : Z := Z.lor (Z.shiftl 34 26) (131071 - 3).   (* FORLOOP A=0 sBx=-3 *)
Definition cf_for : cframe := mkFrame (FnLua 0%nat) 1 0 1 0 0 (-1) 0.
Definition cl_for : closure := mkCl (XProto [] [] [] 0 0 0 5 [] 0) [] 0%nat.
Definition s_for : vstate :=
  mkVS (mkReg [Some (VFun 0%nat); Some (VStr [49]); Some (VNum (f_of_Z 7)); Some (VStr [32;50;32])] 4)
       [cf_for] [] [] [cl_for] [] [] [] None 0%nat [mkTh (mkReg [] 0) [] [] None false false true 0] 0%nat.
Definition ml0 : option nat -> VM unit := fun _ => vret tt.
Definition gf0 : builtin -> VM Z := fun _ => vret 0.

Example ex_forprep_hyps : op_of_code (opGetOpCode i_forprep) = Some OP_FORPREP /\ opGetArgA i_forprep = 0 /\
  op_of_code (opGetOpCode i_forloop) = Some OP_FORLOOP /\ opGetArgA i_forloop = 0 /\
  exists s', exec_op ml0 gf0 cl_for cf_for i_forprep None s_for = VRet false s'.
Proof. repeat split; try (vm_compute; reflexivity). eexists. vm_compute. reflexivity. Qed.

(* the string step " 2 " has become the number 2 in its cell, and the FORLOOP that follows cannot raise *)
Example ex_forprep_normalised : exists s', exec_op ml0 gf0 cl_for cf_for i_forprep None s_for = VRet false s' /\
  Get (vreg s') 3 = Some (VNum (f_of_Z 2)) /\ Get (vreg s') 2 = Some (VNum (f_of_Z 7)) /\
  forall v s'', exec_op ml0 gf0 cl_for cf_for i_forloop None s' <> VErr v s''.
Proof.
  destruct ex_forprep_hyps as [Hp [HA [Hl [HA' [s' E]]]]]. exists s'. split; [exact E|].
  assert (Hra : 0 <= fr_localbase cf_for + opGetArgA i_forprep) by (rewrite HA; vm_compute; discriminate).
  destruct (VMX.ForFacts.forprep_normalises_lemma ml0 gf0 cl_for cf_for i_forprep None s_for false s' Hp Hra E)
    as (v0 & v1 & v2 & init & limit & step & G0 & G1 & G2 & T0 & T1 & T2 & R0 & R1 & R2 & _).
  rewrite HA in *. change (fr_localbase cf_for + 0) with 1 in *. change (1 + 1) with 2 in *. change (1 + 2) with 3 in *.
  vm_compute in G1, G2. inversion G1; subst v1. inversion G2; subst v2.
  vm_compute in T1. inversion T1; subst limit. vm_compute in T2. inversion T2; subst step.
  split; [exact R2|]. split; [exact R1|].
  intros v s''. eapply (VMX.ForFacts.forprep_then_forloop_lemma ml0 gf0 cl_for cf_for i_forprep None s_for false s' ml0 gf0 cl_for i_forloop None Hp Hl);
    [rewrite HA, HA'; reflexivity|exact Hra|exact E|reflexivity].
Qed.
