(* C15 — non-vacuity: every theorem of Properties/C15.v is instantiated on a concrete, non-trivial
   input that satisfies its hypotheses; for the theorems that assume properties of Go's math.* /
   rand.Intn, a concrete structure satisfying those hypotheses is exhibited. *)
From Coq Require Import Lia ZifyBool.
From GL Require Import Common.Bytes Str.StrModel Str.StrFacts Str.FormatModel Str.FormatFacts
     Str.FormatRoundtrip Str.MathWModel Str.MathWFacts Str.MathWOrder Str.MathWLdexp Properties.C15.

(* ----- index / bytes part ----- *)
Example ex_sub : strSub [104;101;108;108;111] (-3) 10 = [108;108;111]
                 /\ sub_spec [104;101;108;108;111] (-3) 10 = [108;108;111].
Proof. split; reflexivity. Qed.
Example ex_sub_thm : strSub [104;101;108;108;111] 0 (-100) = sub_spec [104;101;108;108;111] 0 (-100).
Proof. apply sub_correct. Qed.
Example ex_byte : strByte [97;98;99] (Some 0) (Some 2) = [97;98]
                  /\ strByte [97;98;99] None None = byte_spec [97;98;99] None None.
Proof. split; [reflexivity | apply byte_correct]. Qed.
Example ex_find : strFindPlain [97;98;99] [] (Some 10) = Some (4, 3)
                  /\ strFindPlain [97;98;99] [98] (Some (-2)) = find_plain_spec [97;98;99] [98] (Some (-2)).
Proof. split; [reflexivity | apply find_plain_correct]. Qed.
Example ex_rep : strRep [255;0] 3 = [255;0;255;0;255;0] /\ strRep [1] (-2) = rep_spec [1] (-2)
                 /\ len (strRep [255;0] 3) = Z.max 0 3 * len [255;0].
Proof. split; [reflexivity | split; [apply rep_correct | apply rep_len]]. Qed.
Example ex_reverse : strReverse (strReverse [1;2;255]) = [1;2;255]
                     /\ zth (strReverse [1;2;255]) 0 = zth [1;2;255] (len [1;2;255] - 1 - 0).
Proof. split; [apply reverse_involutive | apply reverse_nth; unfold len; cbn; lia]. Qed.
Example ex_upper_lower : len (strUpper [97;200]) = len [97;200] /\ len (strLower [65;200]) = len [65;200]
                         /\ strUpper [97;200] = [65;200].
Proof. repeat split. Qed.
Example ex_high_bytes : toupper_c 200 = 200 /\ tolower_c 200 = 200.
Proof. apply upper_high_bytes. lia. Qed.
Example ex_char_byte : is_bytes [0;65;255] = true
                       /\ strByte (strChar [0;65;255]) (Some 1) (Some (-1)) = [0;65;255].
Proof. split; [reflexivity | apply char_byte_roundtrip; reflexivity]. Qed.

(* ----- string.format ----- *)
(* "%-+8.3d" of 42 = "+042    " : width, left justification, precision *)
Definition sp1 : dspec := mkD true true false false false (Some 8) (Some 3) 100.
Example ex_in_int64 : in_int64 (-1234567) = true. Proof. reflexivity. Qed.
Example ex_format_d : format true [37;100] [zarg (-1234567)] = FOk [45;49;50;51;52;53;54;55]
                      /\ parse_int [45;49;50;51;52;53;54;55] = -1234567.
Proof. split; vm_compute; reflexivity. Qed.
Example ex_format_d_thm : exists s, format true [37;100] [zarg (-1234567)] = FOk s /\ parse_int s = -1234567.
Proof. apply format_d_roundtrip. reflexivity. Qed.
Example ex_format_d_all : fmt_signed true sp1 42 = [43;48;52;50;32;32;32;32]
                          /\ strip [43;48;52;50;32;32;32;32] = [43;48;52;50]
                          /\ parse_int (strip (fmt_signed true sp1 42)) = 42.
Proof. split; [vm_compute; reflexivity | split; [vm_compute; reflexivity | apply format_d_roundtrip_all]]. Qed.
Example ex_digits_value : of_digits 16 (digits 16 true 48879) = 48879 /\ digits 16 true 48879 = [66;69;69;70].
Proof. split; [apply format_digits_value; lia | vm_compute; reflexivity]. Qed.

Example ex_sp1 : fmt_dir true sp1 (zarg 42) = Some [43;48;52;50;32;32;32;32].
Proof. vm_compute. reflexivity. Qed.
Example ex_format_width : owidth (d_width sp1) <= len [43;48;52;50;32;32;32;32].
Proof. apply (format_width true sp1 (zarg 42)). exact ex_sp1. Qed.
Example ex_left_right_pad :
  fmt_dir true (set_width sp1 None) (zarg 42) = Some [43;48;52;50] /\
  fmt_dir true sp1 (zarg 42) = Some (pad (f_minus sp1) (d_width sp1) [43;48;52;50]).
Proof.
  split; [vm_compute; reflexivity|].
  apply format_left_right_pad; [left; reflexivity | vm_compute; reflexivity].
Qed.
(* "%08d" of -42 = "-0000042" *)
Definition sp2 : dspec := mkD false false false false true (Some 8) None 100.
Example ex_zero_pad :
  f_zero sp2 = true /\ f_minus sp2 = false /\ d_prec sp2 = None /\ d_width sp2 = Some 8 /\
  fmt_signed true sp2 (-42) = [45;48;48;48;48;48;52;50].
Proof. repeat split. Qed.
Example ex_zero_pad_thm : len (fmt_signed true sp2 (-42)) = Z.max 8 (len [45] + len (digits 10 false 42)).
Proof. apply (format_zero_pad_digits true sp2 (-42) 8); reflexivity. Qed.
Example ex_precision :
  d_prec sp1 = Some 3 /\
  len (zeros (3 - len (digits 10 false (Z.abs 42))) ++ digits 10 false (Z.abs 42)) = Z.max 3 (len (digits 10 false (Z.abs 42))).
Proof. split; [reflexivity|]. apply (format_precision_digits true sp1 42 3); [reflexivity | left; lia]. Qed.
Example ex_percent : format true [37;37] [zarg 5] = FOk [37].
Proof. apply format_percent. Qed.
Example ex_hex : fmt_dir true (plain 120) (zarg (-1)) = Some (repeat 102 16)
                 /\ (-1) mod two64 = -1 + two64 /\ in_int64 (-1) = true.
Proof. repeat split; vm_compute; reflexivity. Qed.
Example ex_hex_thm : of_digits 16 (digits 16 false (255 mod two64)) = 255 mod two64 /\ 255 mod two64 = 255.
Proof.
  destruct (format_hex_octal_roundtrip true 255 eq_refl) as (_ & _ & _ & H & _ & _ & H1 & _).
  split; [exact H | apply H1; lia].
Qed.
(* "%d|%s" with one surplus argument; with an argument missing *)
Example ex_extra : format true [37;100;124;37;115] [zarg 7; AStr [97;98]] = FOk [55;124;97;98]
  /\ format true [37;100;124;37;115] ([zarg 7; AStr [97;98]] ++ [zarg 9]) = FOk [55;124;97;98].
Proof.
  split; [vm_compute; reflexivity|].
  apply format_extra_args_ignored. vm_compute. reflexivity.
Qed.
Example ex_missing : ndirs (parse_fmt (length [37;100;124;37;115]) [37;100;124;37;115]) > len [zarg 7]
  /\ format true [37;100;124;37;115] [zarg 7] = FErr.
Proof. split; vm_compute; reflexivity. Qed.
(* a directive in C's defined domain: "%#o" of 8; the formerly deviating "%#x" of 0, "%+x" *)
Definition sp3 : dspec := mkD false false false true false None None 111.
Example ex_impl_eq_spec : c_defined sp3 (zarg 8) = true
  /\ fmt_dir true sp3 (zarg 8) = Some [48;49;48] /\ fmt_dir true sp3 (zarg 8) = fmt_dir false sp3 (zarg 8).
Proof.
  split; [reflexivity|]. split; [vm_compute; reflexivity|].
  apply format_impl_eq_spec; reflexivity.
Qed.
Example ex_impl_eq_spec_strong :
  verb_in (d_verb plus_x) [99; 115] && (f_zero plus_x && negb (f_minus plus_x)) = false
  /\ fmt_dir true plus_x (zarg 255) = fmt_dir false plus_x (zarg 255)
  /\ fmt_dir true plus_x (zarg 255) = Some [102; 102].
Proof.
  split; [reflexivity|]. split; [apply format_impl_eq_spec_strong; reflexivity | vm_compute; reflexivity].
Qed.
Example ex_repaired :
  fmt_dir true sharp_x (zarg 0) = Some [48] /\ fmt_dir false sharp_x (zarg 0) = Some [48].
Proof. split; vm_compute; reflexivity. Qed.
(* "%.3d" of the string "42" (tonumber gives 42) = "042"; of "abc" raises *)
Example ex_numeric_string :
  numeric_verb (d_verb (mkD false false false false false None (Some 3) 100)) = true /\
  format true [37;46;51;100] [AConv [52;50] (Some (NFin false 21 1))] = FOk [48;52;50] /\
  format true [37;46;51;100] [AConv [97;98;99] None] = FErr /\
  format true [37;115] [AConv [52;50] (Some (NFin false 21 1))] = FOk [52;50].
Proof. repeat split; vm_compute; reflexivity. Qed.
Example ex_numeric_string_thm :
  run_items true [IDir (plain 100)] [AConv [52;50] (Some (NFin false 21 1))]
  = run_items true [IDir (plain 100)] [ANum (NFin false 21 1)].
Proof. apply (format_numeric_string true (plain 100) [52;50] (NFin false 21 1) [] []); reflexivity. Qed.
(* "%v" raises; "%u" of -1 is 2^64-1 *)
Example ex_invalid_option : valid_verb (d_verb (plain 118)) = false /\ format true [37;118] [zarg 5] = FErr.
Proof. split; vm_compute; reflexivity. Qed.
Example ex_invalid_option_thm : run_items true [IDir (plain 118)] [zarg 5] = FErr.
Proof. apply format_invalid_option. reflexivity. Qed.
Example ex_u : fmt_dir true (plain 117) (zarg (-1)) = Some [49;56;52;52;54;55;52;52;48;55;51;55;48;57;53;53;49;54;49;53].
Proof. vm_compute. reflexivity. Qed.
(* exact decimal expansion with round-half-even: %.0f of 0.5, 1.5, 2.5; %.3f of 2.0005; %e of 5e-324 *)
Example ex_float :
  fmt_dir false (mkD false false false false false None (Some 0) 102) (ANum (NFin false 1 (-1))) = Some [48] /\
  fmt_dir false (mkD false false false false false None (Some 0) 102) (ANum (NFin false 3 (-1))) = Some [50] /\
  fmt_dir false (mkD false false false false false None (Some 0) 102) (ANum (NFin false 5 (-1))) = Some [50] /\
  fmt_dir false (plain 101) (ANum (NFin false 1 (-1074))) = Some [52;46;57;52;48;54;53;54;101;45;51;50;52].
Proof. repeat split; vm_compute; reflexivity. Qed.

(* ----- math: a structure satisfying the oracle hypotheses (Z with its order; Intn = 0) ----- *)
Definition zdraw (k : Z) : option Z := if 0 <? k then Some 0 else None.
Lemma zdraw_range : forall k r, zdraw k = Some r -> 0 <= r < k.
Proof. unfold zdraw. intros k r H. destruct (0 <? k) eqn:E; inversion H; lia. Qed.
Lemma zdraw_pos : forall k, 0 < k -> exists r, zdraw k = Some r.
Proof. unfold zdraw. intros k H. exists 0. replace (0 <? k) with true by lia. reflexivity. Qed.
Lemma zdraw_nonpos : forall k, k <= 0 -> zdraw k = None.
Proof. unfold zdraw. intros k H. replace (0 <? k) with false by lia. reflexivity. Qed.

Example ex_max : exists res, mathMax Z Z.ltb [3; -7; 9; 9; 2] = MOk [res] /\ In res [3; -7; 9; 9; 2] /\
                             forall a, In a [3; -7; 9; 9; 2] -> le Z Z.ltb a res.
Proof.
  apply (max_spec Z Z.ltb (fun _ => True)); try (unfold le; intros; lia).
  repeat constructor.
Qed.
Example ex_max_val : mathMax Z Z.ltb [3; -7; 9; 9; 2] = MOk [9] /\ mathMin Z Z.ltb [3; -7; 9; 9; 2] = MOk [-7].
Proof. split; reflexivity. Qed.
Example ex_min : exists res, mathMin Z Z.ltb [3; -7; 9] = MOk [res] /\ In res [3; -7; 9] /\
                             forall a, In a [3; -7; 9] -> le Z Z.ltb res a.
Proof.
  apply (min_spec Z Z.ltb (fun _ => True)); try (unfold le; intros; lia).
  repeat constructor.
Qed.
(* the same on the float64 order actually run by the model, NaN-free arguments, signed zeros *)
Example ex_max_num :
  run_math MMax [NFin true 0 0; NFin false 0 0; NFin true 3 (-1); NInf true] = MOk [NFin true 0 0] /\
  run_math MMin [NFin false 1 0; NInf true; NFin true 1 1074] = MOk [NInf true].
Proof. split; vm_compute; reflexivity. Qed.

Example ex_max_run :
  Forall not_nan [NFin true 0 0; NFin false 3 (-1); NInf true] /\
  exists res, run_math MMax [NFin true 0 0; NFin false 3 (-1); NInf true] = MOk [res] /\
              In res [NFin true 0 0; NFin false 3 (-1); NInf true] /\
              forall a, In a [NFin true 0 0; NFin false 3 (-1); NInf true] -> num_ltb res a = false.
Proof.
  assert (H : Forall not_nan [NFin true 0 0; NFin false 3 (-1); NInf true])
    by (repeat constructor; discriminate).
  split; [exact H | apply max_spec_run; exact H].
Qed.
Example ex_min_run :
  exists res, run_math MMin [NFin true 0 0; NFin false 3 (-1); NInf true] = MOk [res] /\
              In res [NFin true 0 0; NFin false 3 (-1); NInf true] /\
              forall a, In a [NFin true 0 0; NFin false 3 (-1); NInf true] -> num_ltb a res = false.
Proof. apply min_spec_run. repeat constructor; discriminate. Qed.

Example ex_random : exists r, mathRandom Z (fun z => z) (fun z => z) zdraw [-3; 5] = MOk [r] /\ -3 <= r <= 5.
Proof. apply (random_in_range Z (fun z => z) (fun z => z) zdraw zdraw_range zdraw_pos). lia. Qed.
Example ex_random_eq : exists r, mathRandom Z (fun z => z) (fun z => z) zdraw [4; 4] = MOk [r] /\ 4 <= r <= 4.
Proof. apply (random_in_range Z (fun z => z) (fun z => z) zdraw zdraw_range zdraw_pos). lia. Qed.
Example ex_random_empty : mathRandom Z (fun z => z) (fun z => z) zdraw [5; 3] = MErr.
Proof. apply (random_empty_interval_errors Z (fun z => z) (fun z => z) zdraw zdraw_nonpos). lia. Qed.
Example ex_random1 : exists r, mathRandom Z (fun z => z) (fun z => z) zdraw [6] = MOk [r] /\ 1 <= r <= 6.
Proof. apply (random1_in_range Z (fun z => z) (fun z => z) zdraw zdraw_range zdraw_pos). lia. Qed.

(* integers as a (degenerate) model of floor/ceil/fmod/modf: Floor = Ceil = id, Mod = Z.rem *)
Example ex_floor_ceil :
  (exists r, mathFloor Z (fun x => x) [7; 99] = MOk [r] /\ True /\ le Z Z.ltb r 7 /\ (7 <? r + 1) = true) /\
  (exists r, mathCeil Z (fun x => x) [7; 99] = MOk [r] /\ True /\ le Z Z.ltb 7 r /\ (r <? 7 + 1) = true).
Proof.
  apply (floor_ceil_bracket Z Z.ltb (fun x => x) (fun x => x) Z.add 1 (fun _ => True) (fun _ => True));
    try exact I; intros; unfold le; repeat split; lia.
Qed.
Example ex_fmod :
  exists r, mathFmod Z Z.rem [-7; 3] = MOk [r] /\ 0 <= r * -7 /\ (Z.abs r <? Z.abs 3) = true.
Proof.
  apply (fmod_sign Z Z.ltb Z.rem Z.abs (fun _ => True) (fun y => y = 0) (fun r x => 0 <= r * x));
    try exact I; try lia.
  intros x y _ _ Hy. split.
  - apply Z.rem_sign_mul. exact Hy.
  - pose proof (Z.rem_bound_abs x y Hy). lia.
Qed.
Example ex_fmod_val : mathFmod Z Z.rem [-7; 3] = MOk [-1]. Proof. reflexivity. Qed.
Example ex_modf :
  exists i f, mathModf Z (fun x => (x, 0)) (fun _ => false) (fun _ => 0) [-7] = MOk [i; f] /\
              True /\ i + f = -7 /\ (Z.abs f <? 1) = true /\ True /\ True.
Proof.
  apply (modf_recompose Z Z.ltb (fun x => (x, 0)) (fun _ => false) (fun _ => 0) Z.add 1 Z.abs
                        (fun _ => True) (fun _ => True) (fun _ _ => True)); try exact I.
  - intros x _. cbn [fst snd]. repeat split; lia.
  - reflexivity.
Qed.
Example ex_modf_inf : mathModf num ref_modf is_inf_num zero_like_num [NInf true] = MOk [NInf true; NFin true 0 0].
Proof. apply modf_infinity. reflexivity. Qed.
Example ex_ldexp : mres_eqb (mathLdexp num ref_ldexp to_int64 [NFin false 3 0; NFin false 5 (-1)]) (MOk [NFin false 3 2]) = true.
Proof. vm_compute. reflexivity. Qed.
Example ex_ldexp_thm : mathLdexp num ref_ldexp to_int64 [NFin false 3 0; NFin false 5 (-1)]
                       = MOk [ref_ldexp (NFin false 3 0) (clamp_exp (to_int64 (NFin false 5 (-1))))].
Proof. apply ldexp_spec. Qed.

(* ldexp in Z.  2^-1024 (topmost subnormal binade): frexp gives (1/2, -1023) and ldexp gives it back *)
Example ex_ldexp_frexp_roundtrip :
  ref_frexp (NFin false 1 (-1024)) = (NFin false 1 (-1), -1023) /\
  ref_ldexp_z (fst (ref_frexp (NFin false 1 (-1024)))) (snd (ref_frexp (NFin false 1 (-1024)))) = NFin false 1 (-1024).
Proof. split; [reflexivity|]. apply ldexp_ref_frexp_roundtrip; cbn; lia. Qed.
(* 2^1000 * 2^-1023 = 2^-23 *)
Example ex_ldexp_exact : ref_ldexp_z (NFin false 1 1000) (-1023) = NFin false 1 (-23).
Proof. apply (ldexp_ref_exact false 1 1000 (-1023)); cbn; lia. Qed.
(* 3 * 2^-1075 is a tie between 2^-1074 and 2 * 2^-1074: the even one; 5 * 2^-1076 rounds down to 2^-1074 *)
Example ex_ldexp_rounds :
  ref_ldexp_z (NFin true 3 0) (-1075) = NFin true 2 (-1074) /\ Z.even 2 = true /\
  2 * Z.abs (3 - 2 * 2 ^ 1) = 2 ^ 1.
Proof.
  destruct (ldexp_ref_rounds true 3 0 (-1075)) as (_ & _ & H); [lia|cbn; lia|].
  split; [rewrite H; reflexivity|split; reflexivity].
Qed.
Example ex_ldexp_format : round64 false (2 ^ 53 - 1) 971 = NFin false (2 ^ 53 - 1) 971 /\
  round64 false (2 ^ 54 - 1) 970 = NInf false /\ round64 true 1 (-1076) = NFin true 0 0.
Proof. repeat split; vm_compute; reflexivity. Qed.
Example ex_ldexp_format_thm : 0 <= 2 ^ 53 - 1 <= 2 ^ 53 /\ -1074 <= 971.
Proof.
  destruct (ldexp_ref_format false (2 ^ 53 - 1) 971 false (2 ^ 53 - 1) 971) as (_ & H & [H0|[H1 _]]);
    [lia|vm_compute; reflexivity| | ]; [exfalso; revert H0; vm_compute; discriminate|split; assumption].
Qed.
(* the clamp: ldexp(1/2, -2^63) is (+)0 with and without it; ldexp(2^-1074, 2^40) the infinity *)
Example ex_ldexp_clamp :
  ref_ldexp_z (NFin false 1 (-1)) (clamp_exp (- 2 ^ 63)) = NFin false 0 0 /\
  ref_ldexp_z (NFin false 1 (-1)) (clamp_exp (- 2 ^ 63)) = ref_ldexp_z (NFin false 1 (-1)) (- 2 ^ 63) /\
  ref_ldexp_z (NFin false 1 (-1074)) (clamp_exp (2 ^ 40)) = NInf false.
Proof.
  split; [vm_compute; reflexivity|]. split; [apply ldexp_ref_clamp; lia|vm_compute; reflexivity].
Qed.

(* frexp on the dyadic numbers the model runs on: Frexp = ref_frexp, Ldexp = exponent shift *)
Definition dy_ldexp (x : num) (k : Z) : num :=
  match x with NFin s m e => NFin s m (e + k) | _ => x end.
Definition pos_fin (x : num) : Prop := exists s m e, x = NFin s m e /\ 0 < m.

Lemma dy_frexp_spec : forall x, pos_fin x -> ~ False ->
  dy_ldexp (fst (ref_frexp x)) (snd (ref_frexp x)) = x /\
  le num num_ltb (NFin false 1 (-1)) (ref_abs (fst (ref_frexp x))) /\
  num_ltb (ref_abs (fst (ref_frexp x))) (NFin false 1 0) = true.
Proof.
  intros x (s & m & e & -> & Hm) _.
  destruct (frexp_ref_recompose s m e Hm) as (Hf & Hb & He). rewrite Hf. cbn [fst snd dy_ldexp ref_abs].
  set (k := bitlen m) in *.
  assert (Hk : 1 <= k).
  { subst k. unfold bitlen. replace (m =? 0) with false by lia. pose proof (Z.log2_nonneg m). lia. }
  split; [f_equal; lia|]. unfold le, num_ltb, align, sgn_m.
  replace (Z.min (- k) (-1)) with (- k) by lia. replace (Z.min (- k) 0) with (- k) by lia.
  replace (- k - - k) with 0 by lia. replace (-1 - - k) with (k - 1) by lia. replace (0 - - k) with k by lia.
  change (2 ^ 0) with 1. split; lia.
Qed.

Example ex_frexp :
  exists m e, mathFrexp num ref_frexp of_Z [NFin true 5 (-1074)] = MOk [m; of_Z e] /\
              dy_ldexp m e = NFin true 5 (-1074) /\
              le num num_ltb (NFin false 1 (-1)) (ref_abs m) /\ num_ltb (ref_abs m) (NFin false 1 0) = true.
Proof.
  apply (frexp_recompose num num_ltb of_Z ref_frexp dy_ldexp (NFin false 1 0) (NFin false 1 (-1)) ref_abs
                         pos_fin (fun _ => False) dy_frexp_spec).
  - exists true, 5, (-1074). split; [reflexivity | lia].
  - intros H; exact H.
Qed.
Example ex_frexp_val : mathFrexp num ref_frexp of_Z [NFin true 5 (-1074)] = MOk [NFin true 5 (-3); NFin true 1071 0].
Proof. vm_compute. reflexivity. Qed.

(* reference functions: -1.5, 5.5 mod -2, 2^-1074 *)
Example ex_floor_ref : ref_floor (NFin true 3 (-1)) = of_Z (-2) /\ -2 * 2 ^ 1 <= -3 < (-2 + 1) * 2 ^ 1.
Proof. apply (floor_ref_bracket true 3 (-1)); lia. Qed.
Example ex_ceil_ref : ref_ceil (NFin true 1 (-1)) = NFin true 0 0 /\ ref_ceil (NFin false 3 (-1)) = of_Z 2.
Proof. split; reflexivity. Qed.
Example ex_ceil_ref_thm : (- ((- sgn_m false 3) / 2 ^ (- -1)) - 1) * 2 ^ (- -1) < sgn_m false 3.
Proof. apply (ceil_ref_bracket false 3 (-1)); lia. Qed.
Example ex_fmod_ref : ref_fmod (NFin false 11 (-1)) (NFin true 1 1) = NFin false 3 (-1).
Proof. reflexivity. Qed.
Example ex_fmod_ref_thm : 0 <= 11 mod 4 < 4.
Proof. pose proof (fmod_ref_exact false 11 (-1) true 1 1) as H. cbv zeta in H. apply H; lia. Qed.
Example ex_modf_ref : ref_modf (NFin true 7 (-1)) = (NFin true 3 0, NFin true 1 (-1)) /\ 7 = 3 * 2 ^ 1 + 1.
Proof. split; reflexivity. Qed.
Example ex_modf_ref_thm : 7 = 7 / 2 ^ (- -1) * 2 ^ (- -1) + 7 mod 2 ^ (- -1).
Proof. apply (modf_ref_recompose true 7 (-1)); lia. Qed.
Example ex_frexp_ref : ref_frexp (NFin false 1 (-1074)) = (NFin false 1 (-1), -1073).
Proof. reflexivity. Qed.
Example ex_frexp_ref_thm : 2 ^ (bitlen 5 - 1) <= 5 < 2 ^ bitlen 5.
Proof. apply (frexp_ref_recompose false 5 0). lia. Qed.
