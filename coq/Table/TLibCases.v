(* Case evaluator for the C18 correspondence shards: one case = one history of table-library
   calls and direct assignments on one table, each step with what the real code returned. *)
From GL Require Import Common.Bytes Table.TImpl Table.TSpec Table.TLib.

Inductive lstep :=
| LIns2 (v : value)
| LIns3 (pos : Z) (v : value)
| LRem1 (o : value)
| LRem2 (pos : Z) (o : value)
| LAssign (i : Z) (v : value)
| LConcat (sep : bytes) (oi oj : option Z) (o : option bytes)       (* None = raised an error *)
| LUnpack (oi oj : option Z) (o : list value)
| LGetn (o : Z)
| LMaxn (o : Z)
| LLen (o : Z)
| LRead (o : list value)                  (* rawget(t,1) .. rawget(t,#t+1) *)
| LSort (c : cmp) (calls : list (value * value)) (raised : bool) (final : list value).
   (* final = rawget(t,1..n) after the sort, n = #t before it *)

Record case := mkCase { c_mai : Z; c_steps : list lstep }.

Definition vals_eqb := list_eqb value_eqb.
Definition obytes_eqb := opt_eqb beqb.

(* ---------- implementation model ---------- *)
Definition exact_sort (c : cmp) (l : list value) : option (list value) :=
  match c with
  | CDefault | CLt =>
    if homogeneous l then Some (isort (fun a b => match lua_lt a b with Some true => true | _ => false end) l) else None
  | CGt =>
    if homogeneous l then Some (isort (fun a b => match lua_lt b a with Some true => true | _ => false end) l) else None
  | _ => None
  end.

Definition impl_step (mai : Z) (t : tbl) (s : lstep) : bool * tbl :=
  match s with
  | LIns2 v => (true, tableInsert2 t v)
  | LIns3 pos v => (true, tableInsert3 mai t pos v)
  | LRem1 o => let (v, t') := tableRemove1 t in (value_eqb v o, t')
  | LRem2 pos o => let (v, t') := tableRemove2 t pos in (value_eqb v o, t')
  | LAssign i v => (true, RawSet mai t (KInt i) v)
  | LConcat sep oi oj o => (obytes_eqb (tableConcat mai t sep oi oj) o, t)
  | LUnpack oi oj o => (vals_eqb (baseUnpack mai t oi oj) o, t)
  | LGetn o => (tableGetN t =? o, t)
  | LMaxn o => (tableMaxN t =? o, t)
  | LLen o => (Len t =? o, t)
  | LRead o => (vals_eqb (map (RawGetInt mai t) (zseq 1 (Z.to_nat (Len t + 1)))) o, t)
  | LSort c calls raised final =>
    (* sort.Sort is an oracle: the model checks that what it left is a rearrangement of
       arr[:Len] by swaps, and the unique sorted answer where there is one *)
    let cur := firstn (Z.to_nat (Len t)) (arr t) in
    (perm_b final cur
     && (if raised then true else match exact_sort c cur with Some l => vals_eqb l final | None => true end),
     tableSort_with t final)
  end.

Fixpoint impl_steps (mai : Z) (t : tbl) (ss : list lstep) : bool :=
  match ss with
  | [] => true
  | s :: r => let (ok, t') := impl_step mai t s in if ok then impl_steps mai t' r else false
  end.

Definition check_impl (c : case) : bool := impl_steps (c_mai c) empty (c_steps c).

(* ---------- the property on what was observed: the table as a Lua list ---------- *)
(* state: Some l = the table is the list l (n = length l); None = an earlier step left the
   domain of the property (position outside 1..n(+1), a hole): nothing more is claimed *)
Definition nonnil (v : value) : bool := negb (is_nil v).

Fixpoint calls_in (l : list value) (calls : list (value * value)) : bool :=
  match calls with
  | [] => true
  | (a, b) :: r => memb value_eqb a l && memb value_eqb b l && calls_in l r
  end.

Definition spec_step (st : option (list value)) (s : lstep) : bool * option (list value) :=
  match st with
  | None => (true, None)
  | Some l =>
    let n := len l in
    match s with
    | LIns2 v => (true, Some (if is_nil v then l else l ++ [v]))
    | LIns3 pos v =>
      if (1 <=? pos) && (pos <=? n + 1) && nonnil v then (true, Some (insert_at pos v l)) else (true, None)
    | LRem1 o =>
      if n =? 0 then (is_nil o, Some l)
      else (value_eqb o (lnth l n), Some (remove_at n l))
    | LRem2 pos o =>
      if (1 <=? pos) && (pos <=? n) then (value_eqb o (lnth l pos), Some (remove_at pos l)) else (true, None)
    | LAssign i v =>
      if (i =? n + 1) then (true, Some (if is_nil v then l else l ++ [v]))
      else if (1 <=? i) && (i <=? n) && nonnil v then (true, Some (upd l (Z.to_nat (i - 1)) v))
      else if (i =? n) && (1 <=? n) && is_nil v then (true, Some (remove_at n l))
      else (true, None)
    | LConcat sep oi oj o =>
      let i := optz oi 1 in let j := optz oj n in
      if (1 <=? i) && (j <=? n) then (obytes_eqb (concat_spec l sep i j) o, st) else (true, st)
    | LUnpack oi oj o =>
      let i := optz oi 1 in let j := optz oj n in
      (vals_eqb (unpack_spec l i j) o, st)
    | LGetn o => (o =? n, st)
    | LMaxn o => (o =? n, st)
    | LLen o => (o =? n, st)
    | LRead o => (vals_eqb (l ++ [VNil]) o, st)
    | LSort c calls raised final =>
      (perm_b final l
       && calls_in l calls
       && (if raised then may_raise c l
           else if swo_on c l then sorted_by (cmp_fun c 0) final else true),
       Some final)
    end
  end.

Fixpoint spec_steps (st : option (list value)) (ss : list lstep) : bool :=
  match ss with
  | [] => true
  | s :: r => let (ok, st') := spec_step st s in if ok then spec_steps st' r else false
  end.

Definition check_spec (c : case) : bool := spec_steps (Some []) (c_steps c).

(* debugging aid *)
Fixpoint impl_first_fail (mai : Z) (t : tbl) (ss : list lstep) (i : Z) : option Z :=
  match ss with
  | [] => None
  | s :: r => let (ok, t') := impl_step mai t s in if ok then impl_first_fail mai t' r (i + 1) else Some i
  end.
Fixpoint spec_first_fail (st : option (list value)) (ss : list lstep) (i : Z) : option Z :=
  match ss with
  | [] => None
  | s :: r => let (ok, st') := spec_step st s in if ok then spec_first_fail st' r (i + 1) else Some i
  end.
Definition where_fails (c : case) : option Z * option Z :=
  (impl_first_fail (c_mai c) empty (c_steps c) 0, spec_first_fail (Some []) (c_steps c) 0).
