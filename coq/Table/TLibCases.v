(* Case evaluator for the C18 correspondence shards: one case = one history of table-library
   calls and direct assignments on one table, each step with what the real code returned. *)
From GL Require Import Common.Bytes Table.TImpl Table.TSpec Table.TLib Table.TLibNest.

Inductive lstep :=
| LIns2 (v : value)
| LIns3 (pos : Z) (v : value)
| LFill (k : Z) (v : value)              (* k times table.insert(t, v) *)
| LStop                                   (* the rest was checked on the Go side only *)
| LInsBad (raised : bool)                 (* table.insert(t, a, b, c): wrong number of arguments *)
| LRem1 (o : option value)                (* None = no value returned *)
| LRem2 (pos : Z) (o : option value)
| LAssign (i : Z) (v : value)
| LAssignK (k : key) (v : value)          (* t[k] = v for a key that is not a positive integer *)
| LConcat (sep : bytes) (oi oj : option Z) (o : option bytes)       (* None = raised an error *)
| LUnpack (oi oj : option Z) (o : list value)
| LGetn (o : Z)
| LMaxn (o : key)                         (* a number, as a numeric key *)
| LLen (o : Z)
| LRead (o : list value)                  (* rawget(t,1) .. rawget(t,#t+1) *)
| LSort (c : cmp) (calls : list (value * value)) (raised : bool) (final : list value)
   (* final = rawget(t,1..n) after the sort, n = #t before it *)
| LSortMeta (desc : bool) (calls : list (value * value)) (raised : bool) (final : list value)
   (* table.sort(t) (or with function(a,b) return a < b end) while the objects carry a metatable
      whose __lt orders them by identity number (descending if desc); calls = the calls of __lt *)
| LSortAt (l : list value) (c : cmp) (calls : list (value * value)) (raised : bool) (final : list value).
   (* table.sort(u, c) on a fresh table u = the list l, run while something else is going on: from
      inside the comparator / __lt of the LSort/LSortMeta step that follows (same Lua thread, or a
      coroutine started there, or another Lua state), possibly under pcall; t is not involved *)

Record case := mkCase { c_mai : Z; c_steps : list lstep }.

Definition vals_eqb := list_eqb value_eqb.
Definition obytes_eqb := opt_eqb beqb.

(* ---------- implementation model ---------- *)
Definition exact_sort (c : cmp) (l : list value) : option (list value) :=
  match c with
  | CDefault | CLt =>
    if homogeneous l then Some (isort (fun a b => match lua_lt a b with Some true => true | _ => false end) l) else None
  | CGt =>
    if homogeneous l then Some (isort (fun a b => match lua_lt b a with Some true => true | _ => false end) l) else None
  | _ => None
  end.

(* what sort.Sort left, against the slice cur it was given: a rearrangement, and the unique
   sorted answer where there is one *)
Definition sort_impl_ok (exact : option (list value)) (cur : list value) (raised : bool) (final : list value) : bool :=
  perm_b final cur
  && (if raised then true else match exact with Some l => vals_eqb l final | None => true end).

Definition exact_sort_meta (desc : bool) (l : list value) : option (list value) :=
  if all_objs l || homogeneous l
  then Some (isort (fun a b => match meta_lt desc a b with Some true => true | _ => false end) l)
  else None.

Definition impl_step (mai : Z) (t : tbl) (s : lstep) : bool * tbl :=
  match s with
  | LIns2 v => (true, tableInsert2 t v)
  | LIns3 pos v => (true, tableInsert3 mai t pos v)
  | LFill k v => (true, Nat.iter (Z.to_nat k) (fun t' => tableInsert2 t' v) t)
  | LStop => (true, t)
  | LInsBad raised => (eqb raised (negb (tableInsert_nargs_ok 4)), t)
  | LRem1 o => let (v, t') := tableRemove1 t in (opt_eqb value_eqb v o, t')
  | LRem2 pos o => let (v, t') := tableRemove2 t pos in (opt_eqb value_eqb v o, t')
  | LAssignK k v => (true, RawSet mai t k v)
  | LAssign i v => (true, RawSet mai t (KInt i) v)
  | LConcat sep oi oj o => (obytes_eqb (tableConcat mai t sep oi oj) o, t)
  | LUnpack oi oj o => (vals_eqb (baseUnpack mai t oi oj) o, t)
  | LGetn o => (tableGetN t =? o, t)
  | LMaxn o => (key_eqb (tableMaxN t) o, t)
  | LLen o => (Len t =? o, t)
  | LRead o => (vals_eqb (map (RawGetInt mai t) (zseq 1 (Z.to_nat (Len t + 1)))) o, t)
  | LSort c calls raised final =>
    (* sort.Sort is an oracle: the model checks that what it left is a rearrangement of
       arr[:Len] by swaps, and the unique sorted answer where there is one *)
    let cur := firstn (Z.to_nat (Len t)) (arr t) in
    (sort_impl_ok (exact_sort c cur) cur raised final, tableSort_with t final)
  | LSortMeta desc calls raised final =>
    let cur := firstn (Z.to_nat (Len t)) (arr t) in
    (sort_impl_ok (exact_sort_meta desc cur) cur raised final, tableSort_with t final)
  | LSortAt l c calls raised final =>
    let u := fold_left tableInsert2 l empty in
    let cur := firstn (Z.to_nat (Len u)) (arr u) in
    (sort_impl_ok (exact_sort c cur) cur raised final, t)
  end.

Fixpoint impl_steps (mai : Z) (t : tbl) (ss : list lstep) : bool :=
  match ss with
  | [] => true
  | LStop :: _ => true
  | s :: r => let (ok, t') := impl_step mai t s in if ok then impl_steps mai t' r else false
  end.

Definition check_impl (c : case) : bool := impl_steps (c_mai c) empty (c_steps c).

(* ---------- the property on what was observed: the table as a Lua list ---------- *)
(* state: Some (l, x) = the table is the list l (n = length l) plus the entries x under keys that
   are not positive integers; None = an earlier step left the domain of the property (insert
   position outside 1..n+1, a hole, a positive integer key beyond n+1): nothing more is claimed *)
Definition nonnil (v : value) : bool := negb (is_nil v).

Fixpoint calls_in (l : list value) (calls : list (value * value)) : bool :=
  match calls with
  | [] => true
  | (a, b) :: r => memb value_eqb a l && memb value_eqb b l && calls_in l r
  end.

(* table.sort on the list l: a permutation; lt was called with elements only; an error only where
   the comparator can fail; ordered whenever the comparator is a strict weak order on l *)
Definition sort_spec_ok (ltf : value -> value -> option bool) (swo mayraise : bool)
           (l : list value) (calls : list (value * value)) (raised : bool) (final : list value) : bool :=
  perm_b final l
  && calls_in l calls
  && (if raised then mayraise else if swo then sorted_by ltf final else true).

Definition lstate := option (list value * smap).

(* t[k] for an integer k *)
Definition look (l : list value) (x : smap) (k : Z) : value :=
  if 1 <=? k then lnth l k else sget x (KInt k).

Definition is_pos_int (k : key) : bool := match k with KInt z => 1 <=? z | _ => false end.

(* table.maxn: the largest positive numeric key (0 if none) *)
Definition maxn_of (n : Z) (x : smap) : key :=
  fold_left (fun mx p => if nonnil (sget x (fst p)) && num_ltb mx (fst p) then fst p else mx) x (KInt n).

Definition spec_step (st : lstate) (s : lstep) : bool * lstate :=
  match st with
  | None => (true, None)
  | Some (l, x) =>
    let n := len l in
    let keep l' := Some (l', x) in
    match s with
    | LIns2 v => (true, keep (if is_nil v then l else l ++ [v]))
    | LIns3 pos v =>
      if (1 <=? pos) && (pos <=? n + 1) && nonnil v then (true, keep (insert_at pos v l)) else (true, None)
    | LFill k v => (true, if is_nil v then st else keep (l ++ repeat v (Z.to_nat k)))
    | LStop => (true, st)
    | LInsBad raised => (raised, st)
    | LRem1 o =>
      if n =? 0 then (opt_eqb value_eqb o None, st)
      else (opt_eqb value_eqb o (Some (lnth l n)), keep (remove_at n l))
    | LRem2 pos o =>
      if (1 <=? pos) && (pos <=? n) then (opt_eqb value_eqb o (Some (lnth l pos)), keep (remove_at pos l))
      else (opt_eqb value_eqb o None, st)
    | LAssign i v =>
      if (i =? n + 1) then (true, keep (if is_nil v then l else l ++ [v]))
      else if (1 <=? i) && (i <=? n) && nonnil v then (true, keep (upd l (Z.to_nat (i - 1)) v))
      else if (i =? n) && (1 <=? n) && is_nil v then (true, keep (remove_at n l))
      else if i <=? 0 then (true, Some (l, sset x (KInt i) v))
      else (true, None)
    | LAssignK k v =>
      if is_pos_int k then (true, None) else (true, Some (l, sset x k v))
    | LConcat sep oi oj o =>
      let i := optz oi 1 in let j := optz oj n in
      (obytes_eqb (concat_specf (look l x) sep i j) o, st)
    | LUnpack oi oj o =>
      let i := optz oi 1 in let j := optz oj n in
      (vals_eqb (unpack_specf (look l x) i j) o, st)
    | LGetn o => (o =? n, st)
    | LMaxn o => (key_eqb o (maxn_of n x), st)
    | LLen o => (o =? n, st)
    | LRead o => (vals_eqb (l ++ [VNil]) o, st)
    | LSort c calls raised final =>
      (sort_spec_ok (cmp_fun c 0) (swo_on c l) (may_raise c l) l calls raised final, keep final)
    | LSortMeta desc calls raised final =>
      let good := all_objs l || homogeneous l in
      (sort_spec_ok (meta_lt desc) good (negb good) l calls raised final, keep final)
    | LSortAt u c calls raised final =>
      (forallb nonnil u
       && sort_spec_ok (cmp_fun c 0) (swo_on c u) (may_raise c u) u calls raised final, st)
    end
  end.

Fixpoint spec_steps (st : lstate) (ss : list lstep) : bool :=
  match ss with
  | [] => true
  | LStop :: _ => true
  | s :: r => let (ok, st') := spec_step st s in if ok then spec_steps st' r else false
  end.

Definition check_spec (c : case) : bool := spec_steps (Some ([], [])) (c_steps c).

(* debugging aid *)
Fixpoint impl_first_fail (mai : Z) (t : tbl) (ss : list lstep) (i : Z) : option Z :=
  match ss with
  | [] => None
  | s :: r => let (ok, t') := impl_step mai t s in if ok then impl_first_fail mai t' r (i + 1) else Some i
  end.
Fixpoint spec_first_fail (st : lstate) (ss : list lstep) (i : Z) : option Z :=
  match ss with
  | [] => None
  | s :: r => let (ok, st') := spec_step st s in if ok then spec_first_fail st' r (i + 1) else Some i
  end.
Definition where_fails (c : case) : option Z * option Z :=
  (impl_first_fail (c_mai c) empty (c_steps c) 0, spec_first_fail (Some ([], [])) (c_steps c) 0).
