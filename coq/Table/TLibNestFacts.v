(* Proofs about re-entrant / stateful comparators of table.sort (C18). *)
From GL Require Import Common.Bytes Common.BytesFacts Table.TImpl Table.TBasics Table.TSpec Table.TLib
     Table.TLibFacts Table.TLibNest.
From Coq Require Import Lia ZifyBool Permutation.

Lemma perm_len (a b : list value) : Permutation a b -> len a = len b.
Proof. intros P. unfold len. now rewrite (Permutation_length P). Qed.

(* any stateful comparator: the array stays a permutation and the comparator sees only elements *)
Lemma sort_run_w_perm {W} (lt : wcmp W) evs : forall w a calls w' a' calls' raised,
  forallb (ev_in_range (len a)) evs = true ->
  sort_run_w lt w a evs calls = (w', (a', calls', raised)) ->
  Permutation a' a /\
  (forall c, In c calls' -> In c calls \/ (In (fst c) a /\ In (snd c) a)).
Proof.
  induction evs as [|e evs IH]; intros w a calls w' a' calls' raised Hr Hrun; simpl in *.
  - inversion Hrun; subst. split; [reflexivity|auto].
  - apply andb_true_iff in Hr as [He Hr].
    destruct e as [i j|i j]; simpl in He.
    + assert (Hi : 0 <= i < len a) by lia. assert (Hj : 0 <= j < len a) by lia.
      destruct (lt w (len calls) (nthv a i) (nthv a j)) as [w1 [b|]] eqn:El.
      * destruct (IH _ _ _ _ _ _ _ Hr Hrun) as [P C]. split; auto.
        intros c Hc. destruct (C c Hc) as [Hin|Hin]; auto.
        apply in_app_or in Hin as [Hin|[<-|[]]]; auto.
        right. simpl. split; apply nthv_in; auto.
      * inversion Hrun; subst. split; [reflexivity|].
        intros c Hc. apply in_app_or in Hc as [Hin|[<-|[]]]; auto.
        right. simpl. split; apply nthv_in; auto.
    + assert (Hi : 0 <= i < len a) by lia. assert (Hj : 0 <= j < len a) by lia.
      pose proof (swap_perm a i j Hi Hj) as Ps.
      rewrite <- (swap_len a i j) in Hr.
      destruct (IH _ _ _ _ _ _ _ Hr Hrun) as [P C]. split.
      * etransitivity; eauto.
      * intros c Hc. destruct (C c Hc) as [Hin|[H1 H2]]; auto.
        right. split; eapply Permutation_in; eauto.
Qed.

Lemma sort_permutation_w_lemma {W} (lt : wcmp W) w a evs w' a' calls raised :
  forallb (ev_in_range (len a)) evs = true ->
  sort_run_w lt w a evs [] = (w', (a', calls, raised)) ->
  Permutation a' a /\ Forall (fun c => In (fst c) a /\ In (snd c) a) calls.
Proof.
  intros Hr Hrun. destruct (sort_run_w_perm lt evs w a [] w' a' calls raised Hr Hrun) as [P C].
  split; auto. apply Forall_forall. intros c Hc. destruct (C c Hc) as [[]|H]; auto.
Qed.

(* a pure comparator is the special case of the trivial world *)
Lemma sort_run_w_pure lt evs : forall a calls,
  sort_run_w (fun (w : unit) k x y => (w, lt k x y)) tt a evs calls = (tt, sort_run lt a evs calls).
Proof.
  induction evs as [|[i j|i j] evs IH]; intros a calls; simpl; auto.
  destruct (lt (len calls) (nthv a i) (nthv a j)); auto.
Qed.

(* re-entrancy: the comparator of the outer sort sorts another list at each of its calls *)
Lemma sort_reentrant_gen ievs ilt olt evs : forall w a calls w' a' calls' raised,
  (forall k (w0 : list value), len w0 = len w -> forallb (ev_in_range (len w0)) (ievs k) = true) ->
  sort_run_w (nesting_cmp ievs ilt olt) w a evs calls = (w', (a', calls', raised)) ->
  Permutation w' w /\
  (raised = false -> sort_run olt a evs calls = (a', calls', false)).
Proof.
  induction evs as [|e evs IH]; intros w a calls w' a' calls' raised Hin Hrun; simpl in *.
  - inversion Hrun; subst. split; [reflexivity|auto].
  - destruct e as [i j|i j].
    + unfold nesting_cmp in Hrun at 1.
      destruct (sort_run ilt w (ievs (len calls)) []) as [[w1 ic] ir] eqn:Ei.
      destruct (sort_permutation_lemma ilt w (ievs (len calls)) w1 ic ir (Hin _ w eq_refl) Ei) as [Pw _].
      assert (Hin1 : forall k (w0 : list value), len w0 = len w1 -> forallb (ev_in_range (len w0)) (ievs k) = true).
      { intros k w0 E. apply Hin. rewrite E. apply perm_len; assumption. }
      destruct ir.
      * inversion Hrun; subst. split; [assumption|discriminate].
      * destruct (olt (len calls) (nthv a i) (nthv a j)) as [b|] eqn:Eo.
        -- destruct (IH _ _ _ _ _ _ _ Hin1 Hrun) as [P R]. split; [etransitivity; eauto|exact R].
        -- inversion Hrun; subst. split; [assumption|discriminate].
    + apply (IH _ _ _ _ _ _ _ Hin Hrun).
Qed.

Lemma sort_reentrant_lemma ievs ilt olt w a evs w' a' calls raised :
  forallb (ev_in_range (len a)) evs = true ->
  (forall k (w0 : list value), len w0 = len w -> forallb (ev_in_range (len w0)) (ievs k) = true) ->
  sort_run_w (nesting_cmp ievs ilt olt) w a evs [] = (w', (a', calls, raised)) ->
  Permutation w' w /\ Permutation a' a /\
  Forall (fun c => In (fst c) a /\ In (snd c) a) calls /\
  (raised = false -> sort_run olt a evs [] = (a', calls, false)).
Proof.
  intros Hr Hin Hrun.
  destruct (sort_reentrant_gen ievs ilt olt evs w a [] w' a' calls raised Hin Hrun) as [Pw R].
  destruct (sort_permutation_w_lemma _ w a evs w' a' calls raised Hr Hrun) as [Pa C].
  auto.
Qed.
