(* Traversal: Next from nil visits every present key exactly once with its current value and
   terminates, also when existing fields are cleared or overwritten between the calls. *)
From GL Require Import Common.Bytes Common.BytesFacts Table.TImpl Table.TBasics Table.TSpec Table.TInv Table.TRefine.
From Coq Require Import Lia ZifyBool.

(* ---------- abstract traversal of a duplicate-free list under a changing predicate ---------- *)
Section Abs.
  Context {A : Type} (eqb : A -> A -> bool).
  Hypothesis eqb_eq : forall a b, eqb a b = true <-> a = b.

  Fixpoint firstp (P : A -> bool) (l : list A) : option A :=
    match l with
    | [] => None
    | x :: r => if P x then Some x else firstp P r
    end.

  Fixpoint idx (x : A) (l : list A) : nat :=
    match l with
    | [] => O
    | y :: r => if eqb y x then O else S (idx x r)
    end.

  Lemma idx_nth (l : list A) j x : NoDup l -> nth_error l j = Some x -> idx x l = j.
  Proof.
    revert j; induction l as [|y l IH]; intros j Nd H; [destruct j; discriminate|].
    inversion Nd; subst. destruct j; simpl in *.
    - inversion H; subst. assert (eqb x x = true) as -> by now apply eqb_eq. reflexivity.
    - destruct (eqb y x) eqn:E.
      + apply eqb_eq in E. subst. exfalso. apply H2. eapply nth_error_In; eauto.
      + f_equal. apply IH; auto.
  Qed.

  Lemma idx_in (l : list A) x : In x l -> nth_error l (idx x l) = Some x.
  Proof.
    induction l as [|y l IH]; intros H; [contradiction|]. simpl.
    destruct (eqb y x) eqn:E.
    - apply eqb_eq in E. now subst.
    - destruct H as [H|H]; [subst; assert (eqb x x = true) by (now apply eqb_eq); congruence|]. simpl. auto.
  Qed.

  Lemma firstp_some (P : A -> bool) (l : list A) n k :
    firstp P (skipn n l) = Some k ->
    exists j, (n <= j)%nat /\ nth_error l j = Some k /\ P k = true /\
              forall i x, (n <= i < j)%nat -> nth_error l i = Some x -> P x = false.
  Proof.
    revert n. induction l as [|y l IH]; intros n H.
    - destruct n; discriminate.
    - destruct n; simpl in H.
      + destruct (P y) eqn:E.
        * inversion H; subst. exists O. repeat split; auto. intros i x Hi. lia.
        * destruct (IH O H) as (j & Hj & Hn & Hp & Hb).
          exists (S j). repeat split; auto; try lia.
          intros i x Hi Hx. destruct i; simpl in Hx; [inversion Hx; subst; assumption|].
          eapply Hb; eauto. lia.
      + destruct (IH n H) as (j & Hj & Hn & Hp & Hb).
        exists (S j). repeat split; auto; try lia.
        intros i x Hi Hx. destruct i; [lia|]. simpl in Hx. eapply Hb; eauto. lia.
  Qed.

  Lemma firstp_none (P : A -> bool) (l : list A) n :
    firstp P (skipn n l) = None -> forall i x, (n <= i)%nat -> nth_error l i = Some x -> P x = false.
  Proof.
    revert n. induction l as [|y l IH]; intros n H i x Hi Hx.
    - destruct i; discriminate.
    - destruct n; simpl in H.
      + destruct (P y) eqn:E; [discriminate|].
        destruct i; simpl in Hx; [inversion Hx; subst; assumption|].
        apply (IH O H i x); [lia|assumption].
      + destruct i; [lia|]. simpl in Hx. apply (IH n H i x); [lia|assumption].
  Qed.

  Variable S0 : list A.
  Hypothesis S0_nodup : NoDup S0.

  (* a traversal: from position n under predicate P the next visited element is the first one
     at or after n satisfying P; then the predicate may change. fin = the traversal ran to the end *)
  Inductive atrav (fin : bool) : (A -> bool) -> nat -> list (A * (A -> bool)) -> Prop :=
  | at_nil P n : (fin = true -> firstp P (skipn n S0) = None) -> atrav fin P n []
  | at_cons P n k P' rest :
      firstp P (skipn n S0) = Some k -> atrav fin P' (S (idx k S0)) rest ->
      atrav fin P n ((k, P') :: rest).

  Lemma atrav_props fin P n tr :
    atrav fin P n tr ->
    (forall e, In e tr -> (n <= idx (fst e) S0 < length S0)%nat /\ In (fst e) S0 /\
                          exists Q, Q (fst e) = true) /\
    NoDup (map fst tr) /\
    (length tr <= length S0 - n)%nat /\
    (fin = true ->
     forall x, In x S0 -> (n <= idx x S0)%nat -> P x = true ->
               (forall e, In e tr -> snd e x = true) -> In x (map fst tr)).
  Proof.
    induction 1 as [P n Hn | P n k P' rest Hf Hrest IH].
    - split; [intros e []|]. split; [constructor|]. split; [simpl; lia|].
      intros Hfin x Hin Hi Hp _. specialize (Hn Hfin).
      pose proof (idx_in S0 x Hin) as Hx.
      rewrite (firstp_none P S0 n Hn _ _ Hi Hx) in Hp. discriminate.
    - destruct IH as (I1 & I2 & I3 & I4).
      destruct (firstp_some P S0 n k Hf) as (j & Hj & Hnth & Hp & Hb).
      assert (Ej : idx k S0 = j) by (apply idx_nth; auto).
      assert (Lj : (j < length S0)%nat) by (apply nth_error_Some; congruence).
      split; [|split; [|split]].
      + intros e [<-|He]; simpl.
        * rewrite Ej. split; [lia|]. split; [eapply nth_error_In; eauto|]. eauto.
        * destruct (I1 e He) as (R1 & R2 & R3). split; [lia|]. auto.
      + simpl. constructor; auto. intros Hin. apply in_map_iff in Hin as (e & Ee & He).
        destruct (I1 e He) as (R1 & _). rewrite Ee in R1. lia.
      + simpl. lia.
      + intros Hfin x Hin Hi Px Hall. simpl.
        destruct (Nat.lt_trichotomy (idx x S0) j) as [L|[L|L]].
        * pose proof (idx_in S0 x Hin) as Hx.
          rewrite (Hb _ _ (conj Hi L) Hx) in Px. discriminate.
        * left. pose proof (idx_in S0 x Hin) as Hx. rewrite L in Hx. congruence.
        * right. apply I4; auto; [lia| |].
          -- apply (Hall (k, P')). now left.
          -- intros e He. apply Hall. now right.
  Qed.
End Abs.

(* ---------- the table: Next is "first present slot after the cursor" ---------- *)
Section Next.
  Variable mai : Z.
  Hypothesis mai_pos : 1 <= mai.
  Notation RawGet := (RawGet mai).

  Definition present (t : tbl) (k : key) : bool := negb (is_nil (RawGet t k)).

  (* the fixed enumeration order: array cells 1..len(arr), then the insertion-ordered key list *)
  Definition akeys (n : nat) : list key := map KInt (zseq 1 n).
  Definition slots (t : tbl) : list key := akeys (length (arr t)) ++ keys t.

  Definition cpos (t : tbl) (cur : option key) : nat :=
    match cur with None => O | Some k => S (idx key_eqb k (slots t)) end.
  Definition cur_ok (t : tbl) (cur : option key) : Prop :=
    match cur with None => True | Some k => In k (slots t) end.

  Definition next_of (t : tbl) (o : option key) : nres :=
    match o with Some k => NKV k (RawGet t k) | None => NEnd end.

  Lemma zseq_length a n : length (zseq a n) = n.
  Proof. revert a; induction n; intros a; simpl; auto. Qed.

  Lemma zseq_nth a n i : (i < n)%nat -> nth_error (zseq a n) i = Some (a + Z.of_nat i).
  Proof.
    revert a i; induction n as [|n IH]; intros a i H; [lia|].
    destruct i; simpl; [f_equal; lia|]. rewrite IH by lia. f_equal. lia.
  Qed.

  Lemma zseq_in a n z : In z (zseq a n) <-> a <= z < a + Z.of_nat n.
  Proof.
    revert a; induction n as [|n IH]; intros a; simpl; [lia|]. rewrite IH. lia.
  Qed.

  Lemma zseq_skipn a n j : skipn j (zseq a n) = zseq (a + Z.of_nat j) (n - j).
  Proof.
    revert a n; induction j as [|j IH]; intros a n.
    - simpl. rewrite Z.add_0_r, Nat.sub_0_r. reflexivity.
    - destruct n; simpl; [reflexivity|]. rewrite IH. f_equal. lia.
  Qed.

  Lemma akeys_length n : length (akeys n) = n.
  Proof. unfold akeys. now rewrite map_length, zseq_length. Qed.

  Lemma akeys_in n k : In k (akeys n) <-> exists z, k = KInt z /\ 1 <= z <= Z.of_nat n.
  Proof.
    unfold akeys. rewrite in_map_iff. split.
    - intros (z & <- & H). apply zseq_in in H. exists z. split; [reflexivity|lia].
    - intros (z & -> & H). exists z. split; [reflexivity|]. apply zseq_in. lia.
  Qed.

  Lemma akeys_nth n i : (i < n)%nat -> nth_error (akeys n) i = Some (KInt (Z.of_nat i + 1)).
  Proof.
    intros H. unfold akeys. rewrite nth_error_map, zseq_nth by assumption. cbn [option_map]. do 2 f_equal. lia.
  Qed.

  Lemma akeys_nodup n : NoDup (akeys n).
  Proof.
    apply NoDup_nth_error. intros i j Hi E. rewrite akeys_length in Hi.
    rewrite akeys_nth in E by assumption.
    destruct (Nat.lt_ge_cases j n) as [Hj|Hj].
    - rewrite akeys_nth in E by assumption. inversion E. lia.
    - rewrite (proj2 (nth_error_None (akeys n) j)) in E by (rewrite akeys_length; lia). discriminate.
  Qed.

  Lemma present_hash t k : is_array_key mai k = false -> present t k = negb (is_nil (RawGetH t k)).
  Proof. intros H. unfold present. now rewrite (RawGetH_RawGet mai). Qed.

  Lemma scan_keys_firstp t l :
    (forall k, In k l -> is_array_key mai k = false) ->
    scan_keys t l = next_of t (firstp (present t) l).
  Proof.
    induction l as [|k l IH]; intros H; simpl; [reflexivity|].
    rewrite present_hash by (apply H; now left).
    destruct (is_nil (RawGetH t k)) eqn:E; simpl.
    - apply IH. intros k' Hk. apply H. now right.
    - rewrite (RawGetH_RawGet mai) by (apply H; now left). reflexivity.
  Qed.

  Lemma skipn_cons_nth (a : list value) n x l :
    skipn n a = x :: l -> nth n a VNil = x /\ skipn (S n) a = l /\ (n < length a)%nat.
  Proof.
    revert a; induction n as [|n IH]; intros a H.
    - destruct a; simpl in *; [discriminate|]. inversion H; subst. repeat split. simpl. lia.
    - destruct a as [|y a]; simpl in H; [discriminate|]. destruct (IH a H) as (H1 & H2 & H3).
      repeat split; auto. simpl. lia.
  Qed.

  Lemma scan_from_firstp t rest l : forall z,
    0 <= z -> skipn (Z.to_nat z) (arr t) = l -> len (arr t) < mai ->
    match scan_from l z with
    | Some (i, v) => firstp (present t) (map KInt (zseq (z + 1) (length l)) ++ rest) = Some (KInt i)
                     /\ v = RawGet t (KInt i)
    | None => firstp (present t) (map KInt (zseq (z + 1) (length l)) ++ rest) = firstp (present t) rest
    end.
  Proof.
    induction l as [|x l IH]; intros z Hz Hs Hb; [reflexivity|].
    destruct (skipn_cons_nth _ _ _ _ Hs) as (Hx & Hs' & Hlt).
    assert (Ek : RawGet t (KInt (z + 1)) = x).
    { rewrite RawGet_arr by (unfold len in Hb; simpl; lia).
      unfold nthv. destruct (z + 1 - 1 <? 0) eqn:E; [lia|].
      replace (Z.to_nat (z + 1 - 1)) with (Z.to_nat z) by lia. assumption. }
    assert (Hp : present t (KInt (z + 1)) = negb (is_nil x)) by (unfold present; now rewrite Ek).
    cbn [scan_from length zseq map app firstp]. rewrite Hp.
    destruct (is_nil x) eqn:Ex; cbn [negb].
    - apply IH; auto; [lia|]. replace (Z.to_nat (z + 1)) with (S (Z.to_nat z)) by lia. assumption.
    - split; [reflexivity|]. now rewrite Ek.
  Qed.


  Lemma bounded_lt t : bounded mai t -> len (arr t) < mai.
  Proof. unfold bounded. lia. Qed.

  Lemma akeys_array t k : bounded mai t -> In k (akeys (length (arr t))) -> is_array_key mai k = true.
  Proof.
    intros B H. apply akeys_in in H as (z & -> & Hz). apply bounded_lt in B. unfold len in B. simpl. lia.
  Qed.

  Lemma nodup_app {A} (l1 l2 : list A) :
    NoDup l1 -> NoDup l2 -> (forall x, In x l1 -> ~ In x l2) -> NoDup (l1 ++ l2).
  Proof.
    induction l1 as [|x l1 IH]; intros N1 N2 D; simpl; [assumption|].
    inversion N1; subst. constructor.
    - intros H. apply in_app_or in H as [H|H]; [contradiction|]. apply (D x); [now left|assumption].
    - apply IH; auto. intros y Hy. apply D. now right.
  Qed.

  Lemma slots_nodup t : WF mai t -> NoDup (slots t).
  Proof.
    intros [I B]. unfold slots. apply nodup_app.
    - apply akeys_nodup.
    - apply (keys_nodup mai); assumption.
    - intros k H1 H2. pose proof (akeys_array t k B H1) as Ha.
      rewrite (inv_keys_hash mai t I k H2) in Ha. discriminate.
  Qed.

  Lemma idx_akey t z : WF mai t -> 1 <= z <= len (arr t) ->
    idx key_eqb (KInt z) (slots t) = Z.to_nat (z - 1).
  Proof.
    intros W Hz. apply (idx_nth key_eqb key_eqb_eq); [now apply slots_nodup|].
    unfold slots, len in *. rewrite nth_error_app1 by (rewrite akeys_length; lia).
    rewrite akeys_nth by lia. do 2 f_equal. lia.
  Qed.

  Lemma idx_hkey t k i : WF mai t -> nth_error (keys t) i = Some k ->
    idx key_eqb k (slots t) = (length (arr t) + i)%nat.
  Proof.
    intros W Hk. apply (idx_nth key_eqb key_eqb_eq); [now apply slots_nodup|].
    unfold slots. rewrite nth_error_app2 by (rewrite akeys_length; lia).
    rewrite akeys_length. replace (length (arr t) + i - length (arr t))%nat with i by lia. assumption.
  Qed.

  Lemma skipn_slots_arr t z : (z <= length (arr t))%nat ->
    skipn z (slots t) = map KInt (zseq (Z.of_nat z + 1) (length (skipn z (arr t)))) ++ keys t.
  Proof.
    intros H. unfold slots. rewrite skipn_app, akeys_length.
    replace (z - length (arr t))%nat with O by lia. simpl skipn at 2.
    f_equal. unfold akeys. rewrite skipn_map, zseq_skipn, skipn_length. do 2 f_equal. lia.
  Qed.

  Lemma skipn_slots_keys t i :
    skipn (length (arr t) + i) (slots t) = skipn i (keys t).
  Proof.
    unfold slots. rewrite skipn_app, akeys_length.
    rewrite skipn_all2 by (rewrite akeys_length; lia). simpl.
    f_equal. lia.
  Qed.

  Lemma keys_suffix_hash t i k : TInv mai t -> In k (skipn i (keys t)) -> is_array_key mai k = false.
  Proof.
    intros I H. apply (inv_keys_hash mai t I). rewrite <- (firstn_skipn i (keys t)). apply in_or_app. now right.
  Qed.

  Lemma maps_empty_none t l :
    TInv mai t -> dict t = [] -> strdict t = [] -> (forall k, In k l -> is_array_key mai k = false) ->
    firstp (present t) l = None.
  Proof.
    intros I Hd Hs H. induction l as [|k l IH]; simpl; [reflexivity|].
    rewrite present_hash by (apply H; now left).
    assert (RawGetH t k = VNil) as ->.
    { unfold RawGetH. rewrite Hd, Hs. destruct k; reflexivity. }
    simpl. apply IH. intros k' Hk. apply H. now right.
  Qed.

  Lemma k2i_get_nth t k i : TInv mai t -> nth_error (keys t) i = Some k -> k2i_get t k = Z.of_nat i.
  Proof.
    intros I H. unfold k2i_get.
    assert (aget key_eqb (k2i t) k = Some (Z.of_nat i)) as ->; [|reflexivity].
    apply (inv_k2i mai t I). split; [lia|]. now rewrite Nat2Z.id.
  Qed.

  Lemma next_keys_firstp t k i :
    TInv mai t -> nth_error (keys t) i = Some k ->
    next_keys t k = next_of t (firstp (present t) (skipn (S i) (keys t))).
  Proof.
    intros I H. unfold next_keys. rewrite (k2i_get_nth t k i I H).
    replace (Z.to_nat (Z.of_nat i + 1)) with (S i) by lia.
    apply scan_keys_firstp. intros k' Hk. eapply keys_suffix_hash; eauto.
  Qed.

  (* the array phase of Next, shared by the nil start and an array-key cursor *)
  Lemma next_array_phase t z :
    WF mai t -> 0 <= z <= len (arr t) ->
    match scan_from (skipn (Z.to_nat z) (arr t)) z with
    | Some (i, v) => NKV (KInt i) v
    | None =>
      if is_empty (dict t) && is_empty (strdict t) then NEnd
      else match keys t with
           | [] => NPanic
           | k0 :: _ => let v := RawGetH t k0 in if is_nil v then next_keys t k0 else NKV k0 v
           end
    end = next_of t (firstp (present t) (skipn (Z.to_nat z) (slots t))).
  Proof.
    intros [I B] Hz. rewrite skipn_slots_arr by (unfold len in Hz; lia).
    rewrite Z2Nat.id by lia.
    pose proof (scan_from_firstp t (keys t) (skipn (Z.to_nat z) (arr t)) z (proj1 Hz) eq_refl (bounded_lt t B)) as H.
    destruct (scan_from (skipn (Z.to_nat z) (arr t)) z) as [[i v]|].
    - destruct H as [-> ->]. reflexivity.
    - rewrite H. clear H.
      destruct (is_empty (dict t) && is_empty (strdict t)) eqn:E.
      + apply andb_true_iff in E as [E1 E2].
        rewrite maps_empty_none; auto.
        * destruct (dict t); [reflexivity|discriminate].
        * destruct (strdict t); [reflexivity|discriminate].
        * apply (inv_keys_hash mai t I).
      + destruct (keys t) as [|k0 ks] eqn:Ek.
        * (* impossible: a non-empty map has its key in keys *)
          exfalso. destruct (dict t) as [|[k v] d] eqn:Ed.
          -- destruct (strdict t) as [|[s v] sd] eqn:Es; [discriminate|].
             assert (X : In (KStr s) (keys t)) by (apply (inv_sd_keys mai t I s); rewrite Es; now left).
             rewrite Ek in X. exact X.
          -- assert (X : In k (keys t)) by (apply (inv_d_keys mai t I k); rewrite Ed; now left).
             rewrite Ek in X. exact X.
        * cbn [firstp]. assert (Hh : is_array_key mai k0 = false) by (apply (inv_keys_hash mai t I); rewrite Ek; now left).
          rewrite present_hash by assumption.
          destruct (is_nil (RawGetH t k0)) eqn:En; cbn [negb].
          -- rewrite (next_keys_firstp t k0 O I) by (rewrite Ek; reflexivity). rewrite Ek. reflexivity.
          -- cbn [next_of]. now rewrite (RawGetH_RawGet mai).
  Qed.

  Lemma slots_in t k : In k (slots t) ->
    (exists z, k = KInt z /\ 1 <= z <= len (arr t)) \/ In k (keys t).
  Proof.
    unfold slots. intros H. apply in_app_or in H as [H|H]; [left|now right].
    apply akeys_in in H. exact H.
  Qed.

  (* Next = first present slot after the cursor *)
  Lemma Next_firstp t cur :
    WF mai t -> cur_ok t cur ->
    Next mai t cur = next_of t (firstp (present t) (skipn (cpos t cur) (slots t))).
  Proof.
    intros W Hc. pose proof W as [I B]. pose proof (bounded_lt t B) as Hb. pose proof (len_nonneg (arr t)) as Hl.
    destruct cur as [k|].
    - simpl in Hc. destruct (slots_in t k Hc) as [(z & -> & Hz)|Hk].
      + (* array-key cursor *)
        unfold Next. cbn [key_eqb orb].
        assert (z =? 0 = false) as -> by lia. cbn [negb].
        assert ((0 <=? z) && (z <? mai) = true) as -> by lia.
        assert (z <=? len (arr t) = true) as -> by lia.
        unfold cpos. rewrite idx_akey by assumption.
        replace (S (Z.to_nat (z - 1))) with (Z.to_nat z) by lia.
        apply next_array_phase; [assumption|lia].
      + (* hash-key cursor *)
        apply In_nth_error in Hk as [i Hi].
        assert (Hh : is_array_key mai k = false) by (apply (inv_keys_hash mai t I); eapply nth_error_In; eauto).
        unfold cpos. rewrite (idx_hkey t k i W Hi).
        replace (S (length (arr t) + i)) with (length (arr t) + S i)%nat by lia.
        rewrite skipn_slots_keys. rewrite <- (next_keys_firstp t k i I Hi).
        unfold Next. cbn [orb]. destruct (negb (key_eqb k (KInt 0))) eqn:E0; [|reflexivity].
        destruct k; try reflexivity.
        simpl in Hh. cbn [key_eqb] in E0.
        assert ((0 <=? z) && (z <? mai) = false) as -> by lia. reflexivity.
    - (* from nil *)
      unfold Next. cbn [orb].
      assert ((0 <=? 0) && (0 <? mai) = true) as -> by lia.
      assert (0 <=? len (arr t) = true) as -> by lia.
      apply (next_array_phase t 0); [assumption|lia].
  Qed.
End Next.

Section Traversal.
  Variable mai : Z.
  Hypothesis mai_pos : 1 <= mai.
  Notation RawGet := (RawGet mai).
  Notation present := (present mai).

  Lemma present_in_slots t k : WF mai t -> present t k = true -> In k (slots t).
  Proof.
    intros [I B] H. unfold TNext.present in H. apply negb_true_iff, is_nil_false in H.
    unfold slots. apply in_or_app.
    destruct (is_array_key mai k) eqn:Ea.
    - left. destruct k; try discriminate. rewrite RawGet_arr in H by assumption.
      apply akeys_in. exists z. split; [reflexivity|]. simpl in Ea.
      destruct (Z_le_gt_dec z (len (arr t))) as [L|G]; [unfold len in L; lia|].
      exfalso. apply H. apply nthv_beyond. lia.
    - right. destruct k.
      + rewrite RawGet_hash_int in H by assumption.
        destruct (aget key_eqb (dict t) (KInt z)) eqn:E; [|contradiction].
        apply (inv_d_keys mai t I). eapply (aget_in key_eqb key_eqb_eq); eauto.
      + simpl in H. destruct (aget key_eqb (dict t) (KDy m e)) eqn:E; [|contradiction].
        apply (inv_d_keys mai t I). eapply (aget_in key_eqb key_eqb_eq); eauto.
      + simpl in H. destruct (aget key_eqb (dict t) (KInf neg)) eqn:E; [|contradiction].
        apply (inv_d_keys mai t I). eapply (aget_in key_eqb key_eqb_eq); eauto.
      + simpl in H. destruct (aget beqb (strdict t) s) eqn:E; [|contradiction].
        apply (inv_sd_keys mai t I). eapply (aget_in beqb beqb_eq); eauto.
      + simpl in H. destruct (aget key_eqb (dict t) (KBool b)) eqn:E; [|contradiction].
        apply (inv_d_keys mai t I). eapply (aget_in key_eqb key_eqb_eq); eauto.
      + simpl in H. destruct (aget key_eqb (dict t) (KObj id)) eqn:E; [|contradiction].
        apply (inv_d_keys mai t I). eapply (aget_in key_eqb key_eqb_eq); eauto.
  Qed.

  (* what one Next call returns: the current value of a present key *)
  Lemma Next_value t cur k v :
    WF mai t -> cur_ok t cur -> Next mai t cur = NKV k v ->
    v = RawGet t k /\ v <> VNil /\ In k (slots t) /\
    firstp (present t) (skipn (cpos t cur) (slots t)) = Some k.
  Proof.
    intros W Hc H. rewrite (Next_firstp mai mai_pos t cur W Hc) in H.
    destruct (firstp (present t) (skipn (cpos t cur) (slots t))) as [k'|] eqn:E; [|discriminate].
    simpl in H. inversion H; subst k' v.
    destruct (firstp_some _ _ _ _ E) as (j & _ & Hn & Hp & _).
    unfold TNext.present in Hp. apply negb_true_iff, is_nil_false in Hp.
    repeat split; auto. eapply nth_error_In; eauto.
  Qed.

  Lemma next_value_lemma t cur k v :
    WF mai t -> cur_ok t cur -> Next mai t cur = NKV k v -> v = RawGet t k /\ v <> VNil.
  Proof. intros W Hc H. destruct (Next_value t cur k v W Hc H) as (A & B & _). auto. Qed.

  Lemma Next_end t cur :
    WF mai t -> cur_ok t cur -> Next mai t cur = NEnd ->
    firstp (present t) (skipn (cpos t cur) (slots t)) = None.
  Proof.
    intros W Hc H. rewrite (Next_firstp mai mai_pos t cur W Hc) in H.
    destruct (firstp (present t) (skipn (cpos t cur) (slots t))); [discriminate|reflexivity].
  Qed.

  Lemma Next_no_panic t cur : WF mai t -> cur_ok t cur -> Next mai t cur <> NPanic.
  Proof.
    intros W Hc. rewrite (Next_firstp mai mai_pos t cur W Hc).
    destruct (firstp (present t) (skipn (cpos t cur) (slots t))); discriminate.
  Qed.

  (* ----- a table that does not change: the walk ----- *)
  Lemma walk_atrav t : WF mai t -> forall fuel cur,
    cur_ok t cur -> (length (slots t) - cpos t cur < fuel)%nat ->
    exists L, walk mai t cur fuel = Some L /\
              atrav key_eqb (slots t) true (present t) (cpos t cur) (map (fun kv => (fst kv, present t)) L) /\
              (forall kv, In kv L -> snd kv = RawGet t (fst kv) /\ snd kv <> VNil).
  Proof.
    intros W. induction fuel as [|f IH]; intros cur Hc Hf; [lia|].
    simpl. rewrite (Next_firstp mai mai_pos t cur W Hc).
    destruct (firstp (present t) (skipn (cpos t cur) (slots t))) as [k|] eqn:E; simpl.
    - destruct (firstp_some _ _ _ _ E) as (j & Hj & Hn & Hp & _).
      assert (Hin : In k (slots t)) by (eapply nth_error_In; eauto).
      assert (Ej : idx key_eqb k (slots t) = j) by (apply (idx_nth key_eqb key_eqb_eq); [now apply (slots_nodup mai)|assumption]).
      assert (Lj : (j < length (slots t))%nat) by (apply nth_error_Some; congruence).
      destruct (IH (Some k)) as (L & HL & HA & HV); [exact Hin|simpl; lia|].
      exists ((k, RawGet t k) :: L). rewrite HL. simpl. split; [reflexivity|]. split.
      + apply at_cons; [exact E|]. exact HA.
      + intros kv [<-|H]; [|auto]. simpl. split; [reflexivity|].
        unfold TNext.present in Hp. now apply negb_true_iff, is_nil_false in Hp.
    - exists []. split; [reflexivity|]. split; [|intros kv []]. apply at_nil. auto.
  Qed.

  (* headline (4): iteration from nil visits each present key exactly once with its current
     value, and terminates within the fuel len(arr)+len(keys)+1 *)
  Lemma next_complete_lemma t :
    WF mai t ->
    exists L, walk mai t None (walk_fuel t) = Some L /\
              NoDup (map fst L) /\
              (forall k v, In (k, v) L <-> (RawGet t k = v /\ v <> VNil)).
  Proof.
    intros W.
    destruct (walk_atrav t W (walk_fuel t) None) as (L & HL & HA & HV); [exact I| |].
    { unfold walk_fuel, slots. rewrite app_length, akeys_length. simpl. lia. }
    exists L. split; [exact HL|].
    destruct (atrav_props key_eqb key_eqb_eq (slots t) (slots_nodup mai mai_pos t W) _ _ _ _ HA) as (_ & Nd & _ & Cp).
    rewrite map_map in Nd. simpl in Nd. split; [exact Nd|].
    intros k v. split.
    - intros H. destruct (HV _ H) as [E N]. simpl in *. subst. auto.
    - intros [E N].
      assert (Pk : present t k = true) by (unfold TNext.present; rewrite E; now apply negb_true_iff, is_nil_false).
      assert (Hin : In k (map fst (map (fun kv : key * value => (fst kv, present t)) L))).
      { apply (Cp eq_refl); [now apply present_in_slots|simpl; lia|exact Pk|].
        intros e He. apply in_map_iff in He as (kv & <- & _). exact Pk. }
      rewrite map_map in Hin. simpl in Hin. apply in_map_iff in Hin as ([k' v'] & Ek & Hk). simpl in Ek. subst k'.
      destruct (HV _ Hk) as [E' _]. simpl in E'. subst. exact Hk.
  Qed.

  (* ----- the table changes between the calls: stores to fields that exist ----- *)
  Inductive upd_existing : tbl -> tbl -> Prop :=
  | ue_refl t : upd_existing t t
  | ue_step t k v t' : RawGet t k <> VNil -> upd_existing (RawSet mai t k v) t' -> upd_existing t t'.

  Lemma set_arr_same_length a i v : 0 <= i < len a -> length (set_arr a i v) = length a.
  Proof.
    intros H. unfold set_arr. destruct (is_nil v && (len a <=? i)); [reflexivity|].
    destruct (i =? len a) eqn:E1; [lia|].
    destruct (len a <? i) eqn:E2; [lia|]. apply upd_length.
  Qed.

  Lemma keys_RawSetString_present t s v :
    TInv mai t -> In (KStr s) (keys t) -> keys (RawSetString t s v) = keys t.
  Proof.
    intros I H. unfold RawSetString. destruct (is_nil v); [reflexivity|].
    destruct (aget key_eqb (k2i t) (KStr s)) eqn:E; [reflexivity|].
    exfalso. eapply (k2i_none_notin mai); eauto.
  Qed.

  Lemma keys_RawSetD_present t k v :
    TInv mai t -> In k (keys t) -> keys (RawSetD t k v) = keys t.
  Proof.
    intros I H. unfold RawSetD. destruct (is_nil v); [reflexivity|].
    destruct (aget key_eqb (k2i t) k) eqn:E; [reflexivity|].
    exfalso. eapply (k2i_none_notin mai); eauto.
  Qed.

  Lemma slots_RawSet_existing t k v :
    WF mai t -> RawGet t k <> VNil -> slots (RawSet mai t k v) = slots t.
  Proof.
    intros W H.
    assert (Pk : present t k = true) by (unfold TNext.present; now apply negb_true_iff, is_nil_false).
    pose proof (present_in_slots t k W Pk) as Hin. destruct W as [I B].
    unfold slots in *.
    destruct (is_array_key mai k) eqn:Ea.
    - destruct k; try discriminate. unfold RawSet. rewrite Ea. simpl arr. simpl keys.
      rewrite RawGet_arr in H by assumption. simpl in Ea.
      rewrite set_arr_same_length; [reflexivity|].
      destruct (Z_lt_le_dec (z - 1) (len (arr t))); [lia|].
      exfalso. apply H. apply nthv_beyond. lia.
    - assert (Hk : In k (keys t)).
      { apply in_app_or in Hin as [Hin|Hin]; [|assumption].
        rewrite (akeys_array mai mai_pos t k B Hin) in Ea. discriminate. }
      assert (E : RawSet mai t k v = RawSetH t k v).
      { unfold RawSet. destruct k; try reflexivity. now rewrite Ea. }
      rewrite E. rewrite arr_RawSetH. f_equal.
      destruct k; unfold RawSetH;
        first [apply keys_RawSetD_present; assumption | apply keys_RawSetString_present; assumption].
  Qed.

  Lemma upd_existing_same t t' :
    WF mai t -> upd_existing t t' -> WF mai t' /\ slots t' = slots t.
  Proof.
    intros W U. induction U as [t|t k v t' H U IH]; [auto|].
    assert (W' : WF mai (RawSet mai t k v)).
    { destruct W as [I B]. split; [now apply TInv_RawSet|now apply bounded_RawSet]. }
    destruct (IH W') as [W'' E]. split; [assumption|].
    rewrite E. now apply slots_RawSet_existing.
  Qed.

  (* a traversal: Next, then stores to existing fields, then Next from the returned key, ...
     fin = true: it ran until Next returned nil *)
  Inductive trav (fin : bool) : tbl -> option key -> list (key * value * tbl) -> Prop :=
  | tr_nil t cur : (fin = true -> Next mai t cur = NEnd) -> trav fin t cur []
  | tr_cons t cur k v t' rest :
      Next mai t cur = NKV k v -> upd_existing t t' -> trav fin t' (Some k) rest ->
      trav fin t cur ((k, v, t') :: rest).

  Definition tkey (e : key * value * tbl) : key := fst (fst e).

  Lemma trav_atrav fin t cur tr :
    WF mai t -> cur_ok t cur -> trav fin t cur tr ->
    atrav key_eqb (slots t) fin (present t) (cpos t cur) (map (fun e => (tkey e, present (snd e))) tr).
  Proof.
    intros W Hc T. induction T as [t cur Hn | t cur k v t' rest Hn U T IH].
    - simpl. apply at_nil. intros Hf. apply Next_end; auto.
    - destruct (Next_value t cur k v W Hc Hn) as (_ & _ & Hin & Hf).
      destruct (upd_existing_same t t' W U) as [W' E].
      simpl. apply at_cons; [exact Hf|].
      assert (Hc' : cur_ok t' (Some k)) by (simpl; rewrite E; exact Hin).
      specialize (IH W' Hc'). rewrite E in IH. unfold cpos in IH. rewrite E in IH. exact IH.
  Qed.

  (* headline (5) *)
  Lemma next_under_update_lemma fin t0 tr :
    WF mai t0 -> trav fin t0 None tr ->
    NoDup (map tkey tr) /\
    (length tr <= length (arr t0) + length (keys t0))%nat /\
    (fin = true ->
     forall k, RawGet t0 k <> VNil -> (forall e, In e tr -> RawGet (snd e) k <> VNil) ->
               In k (map tkey tr)).
  Proof.
    intros W T. pose proof (trav_atrav fin t0 None tr W I T) as HA.
    destruct (atrav_props key_eqb key_eqb_eq (slots t0) (slots_nodup mai mai_pos t0 W) _ _ _ _ HA) as (_ & Nd & Ln & Cp).
    rewrite map_map in Nd. simpl in Nd. split; [exact Nd|]. split.
    - rewrite map_length in Ln. unfold slots in Ln. rewrite app_length, akeys_length in Ln. simpl in Ln. lia.
    - intros Hf k H0 Hall.
      assert (P0 : present t0 k = true) by (unfold TNext.present; now apply negb_true_iff, is_nil_false).
      assert (Hin : In k (map fst (map (fun e => (tkey e, present (snd e))) tr))).
      { apply (Cp Hf); [now apply present_in_slots|simpl; lia|exact P0|].
        intros e He. apply in_map_iff in He as (e0 & <- & He0). simpl.
        unfold TNext.present. apply negb_true_iff, is_nil_false. now apply Hall. }
      rewrite map_map in Hin. exact Hin.
  Qed.
End Traversal.
