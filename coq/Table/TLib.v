(* M-Table, library level: transcription of /repo/tablelib.go (tableInsert, tableRemove,
   tableConcat, tableGetN, tableMaxN, tableSort's use of lValueArraySorter) and baselib.go
   baseUnpack, on top of TImpl; and the list-level specification from the Lua 5.1 manual 5.5.
   No proofs in this file. *)
From GL Require Import Common.Bytes Table.TImpl Table.TSpec.

(* ---- number -> string for integral numbers (value.go LNumber.String: fmt.Sprint(int64)) ---- *)
Fixpoint digits (fuel : nat) (n : Z) (acc : bytes) : bytes :=
  match fuel with
  | O => acc
  | S f => if n <? 10 then (48 + n) :: acc else digits f (n / 10) ((48 + n mod 10) :: acc)
  end.
Definition z_to_bytes (z : Z) : bytes :=
  if z <? 0 then 45 :: digits (S (Z.to_nat (Z.log2 (- z)))) (- z) []
  else digits (S (Z.to_nat (Z.log2 z))) z [].

(* LVCanConvToString + the conversion used by stringConcat *)
Definition tostr (v : value) : option bytes :=
  match v with
  | VNum z => Some (z_to_bytes z)
  | VStr s => Some s
  | _ => None
  end.

Definition optz (o : option Z) (d : Z) : Z := match o with Some z => z | None => d end.

Section WithMai.
  Variable mai : Z.

  Definition tableInsert2 (t : tbl) (v : value) : tbl := Append t v.
  Definition tableInsert3 (t : tbl) (pos : Z) (v : value) : tbl := Insert mai t pos v.

  (* after "fix: table.remove(t) removes position #t" (C18-1) *)
  Definition tableRemove1 (t : tbl) : value * tbl := Remove t (Len t).
  Definition tableRemove2 (t : tbl) (pos : Z) : value * tbl := Remove t pos.

  Definition tableGetN (t : tbl) : Z := Len t.
  Definition tableMaxN (t : tbl) : Z := MaxN t.

  Definition baseUnpack (t : tbl) (oi oj : option Z) : list value :=
    let i := optz oi 1 in
    let j := optz oj (Len t) in
    map (RawGetInt mai t) (zseq i (Z.to_nat (j - i + 1))).

  (* the loop of tableConcat: cnt elements starting at i; None = RaiseError("invalid value ...") *)
  Fixpoint concat_loop (t : tbl) (sep : bytes) (i : Z) (cnt : nat) : option bytes :=
    match cnt with
    | O => Some []
    | S c =>
      match tostr (RawGetInt mai t i) with
      | None => None
      | Some s =>
        match c with
        | O => Some s
        | S _ => option_map (fun r => s ++ sep ++ r) (concat_loop t sep (i + 1) c)
        end
      end
    end.

  (* after "fix: table.concat returns the empty string when i > j before clamping" (C18-3) *)
  Definition tableConcat (t : tbl) (sep : bytes) (oi oj : option Z) : option bytes :=
    let n := Len t in
    let i := optz oi 1 in
    let j := optz oj n in
    let top3 := match oi, oj with Some _, None => true | _, _ => false end in
    if top3 && ((n <? i) || (i <? 1)) then Some []
    else if j <? i then Some []
    else
      let i' := Z.max (Z.min i n) 1 in
      let j' := Z.min (Z.min j n) n in
      if j' <? i' then Some []
      else concat_loop t sep i' (Z.to_nat (j' - i' + 1)).

  (* ---- tableSort: sort.Sort over lValueArraySorter{Values: tbl.array[:tbl.Len()]} ----
     sort.Sort is an oracle: all it can do is call Less(i,j) and Swap(i,j) with i,j < Len(). *)
  Inductive sev := ELess (i j : Z) | ESwap (i j : Z).

  Definition swap (a : list value) (i j : Z) : list value :=
    upd (upd a (Z.to_nat i) (nthv a j)) (Z.to_nat j) (nthv a i).

  Definition ev_in_range (n : Z) (e : sev) : bool :=
    match e with
    | ELess i j | ESwap i j => (0 <=? i) && (i <? n) && (0 <=? j) && (j <? n)
    end.

  (* run the events; the comparator (which sees the number of calls made so far and the two
     values, nothing else) may fail (None): the run stops there (the Lua error unwinds
     through sort.Sort).  Returns the array and the comparator calls made. *)
  Fixpoint sort_run (lt : Z -> value -> value -> option bool) (a : list value) (evs : list sev)
           (calls : list (value * value)) : list value * list (value * value) * bool :=
    match evs with
    | [] => (a, calls, false)
    | ELess i j :: r =>
      let c := (nthv a i, nthv a j) in
      match lt (len calls) (fst c) (snd c) with
      | None => (a, calls ++ [c], true)
      | Some _ => sort_run lt a r (calls ++ [c])
      end
    | ESwap i j :: r => sort_run lt (swap a i j) r calls
    end.

  (* the table after table.sort, given the permutation of t[1..#t] the oracle ended with *)
  Definition tableSort_with (t : tbl) (final : list value) : tbl :=
    with_arr t (final ++ skipn (Z.to_nat (Len t)) (arr t)).
End WithMai.

(* ---------- specification: Lua lists as list value (manual 5.5), n = length ---------- *)
Definition insert_at (pos : Z) (v : value) (l : list value) : list value :=
  firstn (Z.to_nat (pos - 1)) l ++ v :: skipn (Z.to_nat (pos - 1)) l.

Definition remove_at (pos : Z) (l : list value) : list value :=
  firstn (Z.to_nat (pos - 1)) l ++ skipn (Z.to_nat pos) l.

Definition lnth (l : list value) (i : Z) : value := nthv l (i - 1).   (* t[i], nil outside 1..n *)

Definition unpack_spec (l : list value) (i j : Z) : list value :=
  map (lnth l) (zseq i (Z.to_nat (j - i + 1))).

Fixpoint join (sep : bytes) (ps : list bytes) : bytes :=
  match ps with
  | [] => []
  | [p] => p
  | p :: r => p ++ sep ++ join sep r
  end.

Fixpoint all_some {A} (l : list (option A)) : option (list A) :=
  match l with
  | [] => Some []
  | None :: _ => None
  | Some x :: r => option_map (cons x) (all_some r)
  end.

(* table.concat(t, sep, i, j) = t[i]..sep..t[i+1] ... sep..t[j]; "" if i > j; error on a non-string/number *)
Definition concat_spec (l : list value) (sep : bytes) (i j : Z) : option bytes :=
  if j <? i then Some []
  else option_map (join sep) (all_some (map tostr (unpack_spec l i j))).

(* comparators *)
Fixpoint bytes_ltb (a b : bytes) : bool :=
  match a, b with
  | _, [] => false
  | [], _ :: _ => true
  | x :: a', y :: b' => (x <? y) || ((x =? y) && bytes_ltb a' b')
  end.

(* Lua's a < b without metamethods: numbers with numbers, strings with strings, else an error *)
Definition lua_lt (a b : value) : option bool :=
  match a, b with
  | VNum x, VNum y => Some (x <? y)
  | VStr s, VStr s' => Some (bytes_ltb s s')
  | _, _ => None
  end.

Inductive cmp :=
| CDefault                  (* table.sort(t) *)
| CLt                       (* function(a,b) return a < b end *)
| CGt                       (* function(a,b) return a > b end *)
| CMod (m : Z)              (* function(a,b) return a % m < b % m end  (m > 0, numbers) *)
| CConst (b : bool)         (* always b: CConst true is an invalid order function *)
| CBits (bits : list bool)  (* the k-th call answers bits[k] (false when exhausted) *)
| CFailAt (k : Z).          (* a < b, but the k-th call (1-based) raises an error *)

(* answer of the comparator at its ncall-th call (0-based) *)
Definition cmp_fun (c : cmp) (ncall : Z) (a b : value) : option bool :=
  match c with
  | CDefault | CLt => lua_lt a b
  | CGt => lua_lt b a
  | CMod m => match a, b with VNum x, VNum y => Some (x mod m <? y mod m) | _, _ => None end
  | CConst r => Some r
  | CBits bits => Some (nth (Z.to_nat ncall) bits false)
  | CFailAt k => if ncall + 1 =? k then None else lua_lt a b
  end.

(* is the comparator a strict weak order that never fails on these elements? *)
Definition homogeneous (l : list value) : bool :=
  forallb (fun v => match v with VNum _ => true | _ => false end) l
  || forallb (fun v => match v with VStr _ => true | _ => false end) l.
Definition all_nums (l : list value) : bool := forallb (fun v => match v with VNum _ => true | _ => false end) l.

Definition swo_on (c : cmp) (l : list value) : bool :=
  match c with
  | CDefault | CLt | CGt => homogeneous l
  | CMod m => (0 <? m) && all_nums l
  | CConst b => negb b
  | _ => false
  end.

Definition may_raise (c : cmp) (l : list value) : bool :=
  match c with
  | CDefault | CLt | CGt => negb (homogeneous l)
  | CMod m => negb (all_nums l) || (m =? 0)
  | CFailAt _ => true
  | _ => false
  end.

Fixpoint sorted_by (lt : value -> value -> option bool) (l : list value) : bool :=
  match l with
  | x :: ((y :: _) as r) => negb (match lt y x with Some true => true | _ => false end) && sorted_by lt r
  | _ => true
  end.

Definition count_v (v : value) (l : list value) : nat := length (filter (value_eqb v) l).
Definition perm_b (a b : list value) : bool :=
  Nat.eqb (length a) (length b) && forallb (fun v => Nat.eqb (count_v v a) (count_v v b)) a.

(* reference sort (insertion sort) for comparators whose sorted result is unique *)
Fixpoint ins_sorted (lt : value -> value -> bool) (x : value) (l : list value) : list value :=
  match l with
  | [] => [x]
  | y :: r => if lt x y then x :: l else y :: ins_sorted lt x r
  end.
Definition isort (lt : value -> value -> bool) (l : list value) : list value :=
  fold_right (ins_sorted lt) [] l.
