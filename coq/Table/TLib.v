(* M-Table, library level: transcription of /repo/tablelib.go (tableInsert, tableRemove,
   tableConcat, tableGetN, tableMaxN, tableSort's use of lValueArraySorter) and baselib.go
   baseUnpack, on top of TImpl; and the list-level specification from the Lua 5.1 manual 5.5.
   No proofs in this file. *)
From GL Require Import Common.Bytes Table.TImpl Table.TSpec.

(* ---- number -> string for integral numbers (value.go LNumber.String: fmt.Sprint(int64)) ---- *)
Fixpoint digits (fuel : nat) (n : Z) (acc : bytes) : bytes :=
  match fuel with
  | O => acc
  | S f => if n <? 10 then (48 + n) :: acc else digits f (n / 10) ((48 + n mod 10) :: acc)
  end.
Definition z_to_bytes (z : Z) : bytes :=
  if z <? 0 then 45 :: digits (S (Z.to_nat (Z.log2 (- z)))) (- z) []
  else digits (S (Z.to_nat (Z.log2 z))) z [].

(* LVCanConvToString + the conversion used by stringConcat *)
Definition tostr (v : value) : option bytes :=
  match v with
  | VNum z => Some (z_to_bytes z)
  | VStr s => Some s
  | _ => None
  end.

(* the order of numbers on numeric keys (KInt z = z, KDy m e = m * 2^e, KInf); false when one side
   is not a number *)
Definition num_scaled (k : key) (d : Z) : option Z :=
  match k with
  | KInt z => Some (z * 2 ^ d)
  | KDy m e => Some (m * 2 ^ (d + e))
  | _ => None
  end.
Definition num_exp (k : key) : Z := match k with KDy _ e => - e | _ => 0 end.
Definition num_ltb (a b : key) : bool :=
  match a, b with
  | KInf x, KInf y => x && negb y
  | KInf x, (KInt _ | KDy _ _) => x
  | (KInt _ | KDy _ _), KInf y => negb y
  | _, _ =>
    let d := Z.max 0 (Z.max (num_exp a) (num_exp b)) in
    match num_scaled a d, num_scaled b d with
    | Some x, Some y => x <? y
    | _, _ => false
    end
  end.

Definition optz (o : option Z) (d : Z) : Z := match o with Some z => z | None => d end.

Section WithMai.
  Variable mai : Z.

  Definition tableInsert2 (t : tbl) (v : value) : tbl := Append t v.
  Definition tableInsert3 (t : tbl) (pos : Z) (v : value) : tbl := Insert mai t pos v.

  (* tableRemove: pos = optint(2, #t); a position outside 1..#t removes nothing and yields no
     result (fixes 5ada882 = C18-1 and 5e1cfe4) *)
  Definition tableRemove (t : tbl) (opos : option Z) : option value * tbl :=
    let n := Len t in
    let pos := optz opos n in
    if (pos <? 1) || (n <? pos) then (None, t)
    else let (v, t') := Remove t pos in (Some v, t').
  Definition tableRemove1 (t : tbl) : option value * tbl := tableRemove t None.
  Definition tableRemove2 (t : tbl) (pos : Z) : option value * tbl := tableRemove t (Some pos).

  Definition tableGetN (t : tbl) : Z := Len t.

  (* tableMaxN (fix ef2c8e3): max := MaxN(); ForEach: a numeric key > max replaces it.
     The result is a number, represented as a numeric key. *)
  Definition tableMaxN (t : tbl) : key :=
    fold_left (fun mx p => if num_ltb mx (fst p) then fst p else mx) (ForEach t) (KInt (MaxN t)).

  (* tableInsert with 1 or more than 3 arguments raises (fix 1acc103) *)
  Definition tableInsert_nargs_ok (nargs : Z) : bool := (2 <=? nargs) && (nargs <=? 3).

  Definition baseUnpack (t : tbl) (oi oj : option Z) : list value :=
    let i := optz oi 1 in
    let j := optz oj (Len t) in
    map (RawGetInt mai t) (zseq i (Z.to_nat (j - i + 1))).

  (* the loop of tableConcat: cnt elements starting at i; None = RaiseError("invalid value ...") *)
  Fixpoint concat_loop (t : tbl) (sep : bytes) (i : Z) (cnt : nat) : option bytes :=
    match cnt with
    | O => Some []
    | S c =>
      match tostr (RawGetInt mai t i) with
      | None => None
      | Some s =>
        match c with
        | O => Some s
        | S _ => option_map (fun r => s ++ sep ++ r) (concat_loop t sep (i + 1) c)
        end
      end
    end.

  (* tableConcat after fixes c76dbd8 and b7c8280: no clamping of i and j *)
  Definition tableConcat (t : tbl) (sep : bytes) (oi oj : option Z) : option bytes :=
    let i := optz oi 1 in
    let j := optz oj (Len t) in
    if j <? i then Some []
    else concat_loop t sep i (Z.to_nat (j - i + 1)).

  (* ---- tableSort: sort.Sort over lValueArraySorter{Values: tbl.array[:tbl.Len()]} ----
     sort.Sort is an oracle: all it can do is call Less(i,j) and Swap(i,j) with i,j < Len(). *)
  Inductive sev := ELess (i j : Z) | ESwap (i j : Z).

  Definition swap (a : list value) (i j : Z) : list value :=
    upd (upd a (Z.to_nat i) (nthv a j)) (Z.to_nat j) (nthv a i).

  Definition ev_in_range (n : Z) (e : sev) : bool :=
    match e with
    | ELess i j | ESwap i j => (0 <=? i) && (i <? n) && (0 <=? j) && (j <? n)
    end.

  (* run the events; the comparator (which sees the number of calls made so far and the two
     values, nothing else) may fail (None): the run stops there (the Lua error unwinds
     through sort.Sort).  Returns the array and the comparator calls made. *)
  Fixpoint sort_run (lt : Z -> value -> value -> option bool) (a : list value) (evs : list sev)
           (calls : list (value * value)) : list value * list (value * value) * bool :=
    match evs with
    | [] => (a, calls, false)
    | ELess i j :: r =>
      let c := (nthv a i, nthv a j) in
      match lt (len calls) (fst c) (snd c) with
      | None => (a, calls ++ [c], true)
      | Some _ => sort_run lt a r (calls ++ [c])
      end
    | ESwap i j :: r => sort_run lt (swap a i j) r calls
    end.

  (* the table after table.sort, given the permutation of t[1..#t] the oracle ended with *)
  Definition tableSort_with (t : tbl) (final : list value) : tbl :=
    with_arr t (final ++ skipn (Z.to_nat (Len t)) (arr t)).
End WithMai.

(* ---------- specification: Lua lists as list value (manual 5.5), n = length ---------- *)
Definition insert_at (pos : Z) (v : value) (l : list value) : list value :=
  firstn (Z.to_nat (pos - 1)) l ++ v :: skipn (Z.to_nat (pos - 1)) l.

Definition remove_at (pos : Z) (l : list value) : list value :=
  firstn (Z.to_nat (pos - 1)) l ++ skipn (Z.to_nat pos) l.

Definition lnth (l : list value) (i : Z) : value := nthv l (i - 1).   (* t[i], nil outside 1..n *)

Definition unpack_specf (f : Z -> value) (i j : Z) : list value :=
  map f (zseq i (Z.to_nat (j - i + 1))).
Definition unpack_spec (l : list value) (i j : Z) : list value := unpack_specf (lnth l) i j.

Fixpoint join (sep : bytes) (ps : list bytes) : bytes :=
  match ps with
  | [] => []
  | [p] => p
  | p :: r => p ++ sep ++ join sep r
  end.

Fixpoint all_some {A} (l : list (option A)) : option (list A) :=
  match l with
  | [] => Some []
  | None :: _ => None
  | Some x :: r => option_map (cons x) (all_some r)
  end.

(* table.concat(t, sep, i, j) = t[i]..sep..t[i+1] ... sep..t[j]; "" if i > j; error on a non-string/number *)
Definition concat_specf (f : Z -> value) (sep : bytes) (i j : Z) : option bytes :=
  if j <? i then Some []
  else option_map (join sep) (all_some (map tostr (unpack_specf f i j))).
Definition concat_spec (l : list value) (sep : bytes) (i j : Z) : option bytes :=
  concat_specf (lnth l) sep i j.

(* comparators *)
Fixpoint bytes_ltb (a b : bytes) : bool :=
  match a, b with
  | _, [] => false
  | [], _ :: _ => true
  | x :: a', y :: b' => (x <? y) || ((x =? y) && bytes_ltb a' b')
  end.

(* Lua's a < b without metamethods: numbers with numbers, strings with strings, else an error *)
Definition lua_lt (a b : value) : option bool :=
  match a, b with
  | VNum x, VNum y => Some (x <? y)
  | VStr s, VStr s' => Some (bytes_ltb s s')
  | _, _ => None
  end.

Inductive cmp :=
| CDefault                  (* table.sort(t) *)
| CLt                       (* function(a,b) return a < b end *)
| CGt                       (* function(a,b) return a > b end *)
| CMod (m : Z)              (* function(a,b) return a % m < b % m end  (m > 0, numbers) *)
| CConst (b : bool)         (* always b: CConst true is an invalid order function *)
| CBits (bits : list bool)  (* the k-th call answers bits[k] (false when exhausted) *)
| CFailAt (k : Z).          (* a < b, but the k-th call (1-based) raises an error *)

(* answer of the comparator at its ncall-th call (0-based) *)
Definition cmp_fun (c : cmp) (ncall : Z) (a b : value) : option bool :=
  match c with
  | CDefault | CLt => lua_lt a b
  | CGt => lua_lt b a
  | CMod m => match a, b with VNum x, VNum y => Some (x mod m <? y mod m) | _, _ => None end
  | CConst r => Some r
  | CBits bits => Some (nth (Z.to_nat ncall) bits false)
  | CFailAt k => if ncall + 1 =? k then None else lua_lt a b
  end.

(* is the comparator a strict weak order that never fails on these elements? *)
Definition homogeneous (l : list value) : bool :=
  forallb (fun v => match v with VNum _ => true | _ => false end) l
  || forallb (fun v => match v with VStr _ => true | _ => false end) l.
Definition all_nums (l : list value) : bool := forallb (fun v => match v with VNum _ => true | _ => false end) l.

Definition swo_on (c : cmp) (l : list value) : bool :=
  match c with
  | CDefault | CLt | CGt => homogeneous l
  | CMod m => (0 <? m) && all_nums l
  | CConst b => negb b
  | _ => false
  end.

Definition may_raise (c : cmp) (l : list value) : bool :=
  match c with
  | CDefault | CLt | CGt => negb (homogeneous l)
  | CMod m => negb (all_nums l) || (m =? 0)
  | CFailAt _ => true
  | _ => false
  end.

Fixpoint sorted_by (lt : value -> value -> option bool) (l : list value) : bool :=
  match l with
  | x :: ((y :: _) as r) => negb (match lt y x with Some true => true | _ => false end) && sorted_by lt r
  | _ => true
  end.

Definition count_v (v : value) (l : list value) : nat := length (filter (value_eqb v) l).
Definition perm_b (a b : list value) : bool :=
  Nat.eqb (length a) (length b) && forallb (fun v => Nat.eqb (count_v v a) (count_v v b)) a.

(* reference sort (insertion sort) for comparators whose sorted result is unique *)
Fixpoint ins_sorted (lt : value -> value -> bool) (x : value) (l : list value) : list value :=
  match l with
  | [] => [x]
  | y :: r => if lt x y then x :: l else y :: ins_sorted lt x r
  end.
Definition isort (lt : value -> value -> bool) (l : list value) : list value :=
  fold_right (ins_sorted lt) [] l.
