(* Basic facts used by all table proofs: decidable equalities, association lists, array cells. *)
From GL Require Import Common.Bytes Common.BytesFacts Table.TImpl.
From Coq Require Import Lia ZifyBool.

Lemma key_eqb_eq a b : key_eqb a b = true <-> a = b.
Proof.
  split.
  - destruct a, b; simpl; intros H; try discriminate.
    + apply Z.eqb_eq in H; congruence.
    + apply andb_true_iff in H as [H1 H2]; apply Z.eqb_eq in H1, H2; congruence.
    + apply Bool.eqb_prop in H; congruence.
    + apply beqb_eq in H; congruence.
    + apply Bool.eqb_prop in H; congruence.
    + apply Z.eqb_eq in H; congruence.
  - intros <-. destruct a; simpl; rewrite ?Z.eqb_refl, ?Bool.eqb_reflx; auto. now apply beqb_eq.
Qed.

Lemma key_eqb_refl a : key_eqb a a = true.
Proof. now apply key_eqb_eq. Qed.

Lemma key_eqb_neq a b : key_eqb a b = false <-> a <> b.
Proof.
  split; intros H.
  - intros E. apply key_eqb_eq in E. congruence.
  - destruct (key_eqb a b) eqn:E; [apply key_eqb_eq in E; contradiction | reflexivity].
Qed.

Lemma key_eqb_sym a b : key_eqb a b = key_eqb b a.
Proof.
  destruct (key_eqb a b) eqn:E.
  - apply key_eqb_eq in E. subst. now rewrite key_eqb_refl.
  - apply key_eqb_neq in E. symmetry. apply key_eqb_neq. congruence.
Qed.

Lemma key_eq_dec (a b : key) : {a = b} + {a <> b}.
Proof.
  destruct (key_eqb a b) eqn:E; [left; now apply key_eqb_eq | right; now apply key_eqb_neq].
Qed.

Lemma value_eqb_eq a b : value_eqb a b = true <-> a = b.
Proof.
  split.
  - destruct a, b; simpl; intros H; try discriminate; auto.
    + apply Z.eqb_eq in H; congruence.
    + apply beqb_eq in H; congruence.
    + apply Bool.eqb_prop in H; congruence.
    + apply Z.eqb_eq in H; congruence.
  - intros <-. destruct a; simpl; rewrite ?Z.eqb_refl, ?Bool.eqb_reflx; auto. now apply beqb_eq.
Qed.

Lemma is_nil_true v : is_nil v = true <-> v = VNil.
Proof. destruct v; simpl; split; congruence. Qed.
Lemma is_nil_false v : is_nil v = false <-> v <> VNil.
Proof. destruct v; simpl; split; congruence. Qed.

Lemma beqb_refl s : beqb s s = true.
Proof. now apply beqb_eq. Qed.
Lemma beqb_neq a b : beqb a b = false <-> a <> b.
Proof.
  split; intros H.
  - intros E. apply beqb_eq in E. congruence.
  - destruct (beqb a b) eqn:E; [apply beqb_eq in E; contradiction | reflexivity].
Qed.

(* ---------- association lists ---------- *)
Section AssocFacts.
  Context {K V : Type} (eqb : K -> K -> bool).
  Hypothesis eqb_eq : forall a b, eqb a b = true <-> a = b.

  Lemma eqb_refl' a : eqb a a = true.
  Proof. now apply eqb_eq. Qed.
  Lemma eqb_false a b : eqb a b = false <-> a <> b.
  Proof.
    split; intros H.
    - intros E. apply eqb_eq in E. congruence.
    - destruct (eqb a b) eqn:E; [apply eqb_eq in E; contradiction | reflexivity].
  Qed.

  Lemma aget_aset_same (l : list (K * V)) k v : aget eqb (aset eqb l k v) k = Some v.
  Proof.
    induction l as [|[k' v'] l IH]; simpl.
    - now rewrite eqb_refl'.
    - destruct (eqb k' k) eqn:E; simpl; rewrite E; auto.
  Qed.

  Lemma aget_aset_other (l : list (K * V)) k v k' : k' <> k -> aget eqb (aset eqb l k v) k' = aget eqb l k'.
  Proof.
    intros N. induction l as [|[k0 v0] l IH]; simpl.
    - assert (eqb k k' = false) as -> by (apply eqb_false; congruence). reflexivity.
    - destruct (eqb k0 k) eqn:E; simpl.
      + apply eqb_eq in E. subst k0.
        assert (eqb k k' = false) as -> by (apply eqb_false; congruence). reflexivity.
      + destruct (eqb k0 k'); auto.
  Qed.

  Lemma aget_adel_same (l : list (K * V)) k : aget eqb (adel eqb l k) k = None.
  Proof.
    induction l as [|[k' v'] l IH]; simpl; auto.
    destruct (eqb k' k) eqn:E; simpl; auto. now rewrite E.
  Qed.

  Lemma aget_adel_other (l : list (K * V)) k k' : k' <> k -> aget eqb (adel eqb l k) k' = aget eqb l k'.
  Proof.
    intros N. induction l as [|[k0 v0] l IH]; simpl; auto.
    destruct (eqb k0 k) eqn:E; simpl.
    - apply eqb_eq in E. subst k0.
      assert (eqb k k' = false) as -> by (apply eqb_false; congruence). auto.
    - destruct (eqb k0 k'); auto.
  Qed.

  Lemma aget_in (l : list (K * V)) k v : aget eqb l k = Some v -> In k (map fst l).
  Proof.
    induction l as [|[k' v'] l IH]; simpl; [discriminate|].
    destruct (eqb k' k) eqn:E; intros H.
    - left. now apply eqb_eq.
    - right. auto.
  Qed.

  Lemma aget_in_pair (l : list (K * V)) k v : aget eqb l k = Some v -> In (k, v) l.
  Proof.
    induction l as [|[k' v'] l IH]; simpl; [discriminate|].
    destruct (eqb k' k) eqn:E; intros H.
    - left. apply eqb_eq in E. congruence.
    - right. auto.
  Qed.

  Lemma in_aget (l : list (K * V)) k : In k (map fst l) -> exists v, aget eqb l k = Some v.
  Proof.
    induction l as [|[k' v'] l IH]; simpl; [contradiction|].
    intros [H|H].
    - subst. rewrite eqb_refl'. eauto.
    - destruct (eqb k' k); eauto.
  Qed.

  Lemma aget_none_notin (l : list (K * V)) k : aget eqb l k = None -> ~ In k (map fst l).
  Proof. intros H I. apply in_aget in I as [v I]. congruence. Qed.

  Lemma in_keys_aset (l : list (K * V)) k v x : In x (map fst (aset eqb l k v)) <-> x = k \/ In x (map fst l).
  Proof.
    induction l as [|[k' v'] l IH]; simpl.
    - intuition.
    - destruct (eqb k' k) eqn:E; simpl.
      + apply eqb_eq in E. subst. intuition.
      + rewrite IH. intuition.
  Qed.

  Lemma in_keys_adel (l : list (K * V)) k x : In x (map fst (adel eqb l k)) -> In x (map fst l).
  Proof.
    induction l as [|[k' v'] l IH]; simpl; auto.
    destruct (eqb k' k); simpl; intuition.
  Qed.

  Lemma aset_not_nil (l : list (K * V)) k v : aset eqb l k v <> [].
  Proof. destruct l as [|[k' v'] l]; simpl; [discriminate|]. destruct (eqb k' k); discriminate. Qed.
End AssocFacts.

(* ---------- array cells as a total function Z -> value ---------- *)
Lemma nthv_neg a i : i < 0 -> nthv a i = VNil.
Proof. intros H. unfold nthv. destruct (i <? 0) eqn:E; [reflexivity|lia]. Qed.

Lemma nthv_beyond a i : len a <= i -> nthv a i = VNil.
Proof.
  intros H. unfold nthv, len in *. destruct (i <? 0) eqn:E; [reflexivity|].
  apply nth_overflow. lia.
Qed.

Lemma nthv_app_l a b i : i < len a -> nthv (a ++ b) i = nthv a i.
Proof.
  intros H. unfold nthv, len in *. destruct (i <? 0) eqn:E; [reflexivity|].
  apply app_nth1. lia.
Qed.

Lemma nthv_app_r a b i : len a <= i -> nthv (a ++ b) i = nthv b (i - len a).
Proof.
  intros H. unfold nthv, len in *.
  destruct (i <? 0) eqn:E; [lia|]. destruct (i - Z.of_nat (length a) <? 0) eqn:E2; [lia|].
  rewrite app_nth2 by lia. f_equal. lia.
Qed.

Lemma nthv_repeat_nil n i : nthv (repeat VNil n) i = VNil.
Proof.
  unfold nthv. destruct (i <? 0); [reflexivity|].
  generalize (Z.to_nat i). induction n; intros [|m]; simpl; auto.
Qed.

Lemma nthv_nil i : nthv [] i = VNil.
Proof. unfold nthv. destruct (i <? 0); [reflexivity|]. destruct (Z.to_nat i); reflexivity. Qed.

Lemma nthv_cons_0 v a : nthv (v :: a) 0 = v.
Proof. reflexivity. Qed.

Lemma nthv_cons_S v a i : 0 < i -> nthv (v :: a) i = nthv a (i - 1).
Proof.
  intros H. unfold nthv. destruct (i <? 0) eqn:E; [lia|]. destruct (i - 1 <? 0) eqn:E2; [lia|].
  replace (Z.to_nat i) with (S (Z.to_nat (i - 1))) by lia. reflexivity.
Qed.

Lemma upd_length {A} (a : list A) i v : length (upd a i v) = length a.
Proof. revert i; induction a; intros [|i]; simpl; auto. Qed.

Lemma len_upd {A} (a : list A) i v : len (upd a i v) = len a.
Proof. unfold len. now rewrite upd_length. Qed.

Lemma nth_upd (a : list value) i v j :
  nth j (upd a i v) VNil = if (Nat.eqb j i) && (Nat.ltb i (length a)) then v else nth j a VNil.
Proof.
  revert i j; induction a as [|x a IH]; intros i j; simpl.
  - rewrite andb_false_r. destruct j; reflexivity.
  - destruct i, j; simpl; auto.
    rewrite IH. reflexivity.
Qed.

Lemma nthv_upd a i v j :
  0 <= i -> nthv (upd a (Z.to_nat i) v) j = if (j =? i) && (i <? len a) then v else nthv a j.
Proof.
  intros Hi. unfold nthv, len. destruct (j <? 0) eqn:E.
  - assert (j =? i = false) as -> by lia. reflexivity.
  - rewrite nth_upd.
    destruct (Nat.eqb (Z.to_nat j) (Z.to_nat i)) eqn:E1, (j =? i) eqn:E2; try lia; simpl; auto.
    destruct (Nat.ltb (Z.to_nat i) (length a)) eqn:E3, (i <? Z.of_nat (length a)) eqn:E4; try lia; auto.
Qed.

Lemma len_repeat {A} (x : A) n : len (repeat x n) = Z.of_nat n.
Proof. unfold len. now rewrite repeat_length. Qed.

Lemma len_nil {A} : len (@nil A) = 0.
Proof. reflexivity. Qed.
Lemma len_cons {A} (x : A) l : len (x :: l) = len l + 1.
Proof. unfold len. simpl length. lia. Qed.

Lemma len_snoc {A} (a : list A) x : len (a ++ [x]) = len a + 1.
Proof. unfold len. rewrite app_length. simpl length. lia. Qed.

Lemma len_set_arr a i v : 0 <= i -> len a <= len (set_arr a i v) <= Z.max (len a) (i + 1).
Proof.
  intros Hi. unfold set_arr.
  destruct (is_nil v && (len a <=? i)); [lia|].
  destruct (i =? len a) eqn:E1; [rewrite len_app, len_cons, len_nil; lia|].
  destruct (len a <? i) eqn:E2.
  - rewrite !len_app, len_repeat, len_cons, len_nil. lia.
  - rewrite len_upd. lia.
Qed.

Lemma nthv_set_arr a i v j : 0 <= i -> nthv (set_arr a i v) j = if j =? i then v else nthv a j.
Proof.
  intros Hi. unfold set_arr. pose proof (len_nonneg a) as Hl.
  destruct (is_nil v && (len a <=? i)) eqn:E0.
  { apply andb_true_iff in E0 as [Ev El]. destruct v; try discriminate.
    destruct (j =? i) eqn:E; [|reflexivity]. apply nthv_beyond. lia. }
  clear E0.
  destruct (i =? len a) eqn:E1.
  - destruct (j =? i) eqn:E.
    + rewrite nthv_app_r by lia. replace (j - len a) with 0 by lia. reflexivity.
    + destruct (Z_lt_le_dec j (len a)).
      * now rewrite nthv_app_l.
      * rewrite nthv_app_r by lia. rewrite (nthv_beyond a) by lia.
        rewrite nthv_cons_S by lia. apply nthv_beyond. rewrite len_nil; lia.
  - destruct (len a <? i) eqn:E2.
    + destruct (Z_lt_le_dec j (len a)).
      * rewrite nthv_app_l by lia. destruct (j =? i) eqn:E; [lia|reflexivity].
      * rewrite nthv_app_r by lia. rewrite (nthv_beyond a) by lia.
        destruct (Z_lt_le_dec j i).
        -- rewrite nthv_app_l by (rewrite len_repeat; lia). rewrite nthv_repeat_nil.
           destruct (j =? i) eqn:E; [lia|reflexivity].
        -- rewrite nthv_app_r by (rewrite len_repeat; lia). rewrite len_repeat.
           destruct (j =? i) eqn:E.
           ++ replace (j - len a - Z.of_nat (Z.to_nat (i - len a))) with 0 by lia. reflexivity.
           ++ rewrite nthv_cons_S by lia. apply nthv_beyond. rewrite len_nil; lia.
    + rewrite nthv_upd by lia.
      destruct (j =? i) eqn:E; simpl; auto.
      destruct (i <? len a) eqn:E3; [reflexivity|lia].
Qed.

Lemma nthv_firstn a n i : nthv (firstn n a) i = if i <? Z.of_nat n then nthv a i else VNil.
Proof.
  unfold nthv. destruct (i <? 0) eqn:E; [destruct (i <? Z.of_nat n); reflexivity|].
  destruct (i <? Z.of_nat n) eqn:E2.
  - revert a; generalize dependent i. induction n; intros i E E2 a; [lia|].
    destruct a as [|x a]; simpl; [destruct (Z.to_nat i); reflexivity|].
    destruct (Z.to_nat i) eqn:Ei; [reflexivity|].
    specialize (IHn (i - 1)). replace (Z.to_nat (i - 1)) with n0 in IHn by lia.
    apply IHn; lia.
  - apply nth_overflow. rewrite firstn_length. lia.
Qed.

Lemma nth_skipn_nat (a : list value) n m : nth m (skipn n a) VNil = nth (n + m) a VNil.
Proof.
  revert a. induction n as [|n IH]; intros a; [reflexivity|].
  destruct a as [|x a]; [destruct m; reflexivity|]. simpl. apply IH.
Qed.

Lemma nthv_skipn a n i : 0 <= i -> nthv (skipn n a) i = nthv a (i + Z.of_nat n).
Proof.
  intros Hi. unfold nthv. destruct (i <? 0) eqn:E; [lia|]. destruct (i + Z.of_nat n <? 0) eqn:E2; [lia|].
  replace (Z.to_nat (i + Z.of_nat n)) with (n + Z.to_nat i)%nat by lia.
  apply nth_skipn_nat.
Qed.
