(* M-Table, implementation side: transcription of /repo/table.go (LTable), branch by branch.
   No proofs in this file.

   Go                                   here
   tb.array  []LValue (nil or not)      arr : list value          (nil slice = [])
   tb.strdict map[string]LValue         strdict : list (bytes * value)   association list
   tb.dict    map[LValue]LValue         dict : list (key * value)
   tb.keys    []LValue                  keys : list key
   tb.k2i     map[LValue]int            k2i : list (key * Z)
   MaxArrayIndex (config.go, a var)     mai : Z   (explicit first argument everywhere)

   Keys are canonical: Leibniz equality on [key] is Lua raw equality of keys (the harness produces
   KInt z for every float with an integral value, KDy m e for the other finite ones, NaN/nil never
   reach LTable through the Lua-level store, see [LRawSet]).  *)
From GL Require Import Common.Bytes.

Inductive key :=
| KInt (z : Z)            (* a number whose value is the integer z (1 and 1.0 are both KInt 1) *)
| KDy (m e : Z)           (* a non-integral finite number m * 2^e, m odd, e < 0 *)
| KInf (neg : bool)
| KStr (s : bytes)
| KBool (b : bool)
| KObj (id : Z).          (* table / function / userdata identity *)

Inductive value :=
| VNil
| VNum (z : Z)            (* integer-valued numbers are all the harness stores *)
| VStr (s : bytes)
| VBool (b : bool)
| VObj (id : Z).

Definition key_eqb (a b : key) : bool :=
  match a, b with
  | KInt x, KInt y => x =? y
  | KDy m e, KDy m' e' => (m =? m') && (e =? e')
  | KInf x, KInf y => Bool.eqb x y
  | KStr s, KStr s' => beqb s s'
  | KBool x, KBool y => Bool.eqb x y
  | KObj x, KObj y => x =? y
  | _, _ => false
  end.

Definition value_eqb (a b : value) : bool :=
  match a, b with
  | VNil, VNil => true
  | VNum x, VNum y => x =? y
  | VStr s, VStr s' => beqb s s'
  | VBool x, VBool y => Bool.eqb x y
  | VObj x, VObj y => x =? y
  | _, _ => false
  end.

Definition is_nil (v : value) : bool := match v with VNil => true | _ => false end.

(* ---- Go maps as association lists: m[k], m[k]=v, delete(m,k), len(m)==0 ---- *)
Section Assoc.
  Context {K V : Type} (eqb : K -> K -> bool).
  Fixpoint aget (l : list (K * V)) (k : K) : option V :=
    match l with
    | [] => None
    | (k', v) :: r => if eqb k' k then Some v else aget r k
    end.
  Fixpoint aset (l : list (K * V)) (k : K) (v : V) : list (K * V) :=
    match l with
    | [] => [(k, v)]
    | (k', v') :: r => if eqb k' k then (k', v) :: r else (k', v') :: aset r k v
    end.
  Fixpoint adel (l : list (K * V)) (k : K) : list (K * V) :=
    match l with
    | [] => []
    | (k', v') :: r => if eqb k' k then adel r k else (k', v') :: adel r k
    end.
End Assoc.

Definition is_empty {A} (l : list A) : bool := match l with [] => true | _ => false end.

Record tbl := mkT {
  arr : list value;
  strdict : list (bytes * value);
  dict : list (key * value);
  keys : list key;
  k2i : list (key * Z)
}.

Definition empty : tbl := mkT [] [] [] [] [].

(* a[i] = v for 0 <= i < len a (Go would panic outside; never reached, see callers) *)
Fixpoint upd {A} (a : list A) (i : nat) (v : A) : list A :=
  match a, i with
  | [], _ => []
  | _ :: r, O => v :: r
  | x :: r, S j => x :: upd r j v
  end.

Definition nthv (a : list value) (i : Z) : value :=
  if i <? 0 then VNil else nth (Z.to_nat i) a VNil.

Section WithMai.
  Variable mai : Z.

  (* utils.go isArrayKey: isInteger(v) && v < maxint && v > 0 && v < MaxArrayIndex *)
  Definition is_array_key (k : key) : bool :=
    match k with KInt z => (0 <? z) && (z <? mai) | _ => false end.

  (* the switch on index/alen shared by RawSet and RawSetInt *)
  Definition set_arr (a : list value) (index : Z) (v : value) : list value :=
    let alen := len a in
    if is_nil v && (alen <=? index) then a      (* deleting an absent key stores nothing *)
    else if index =? alen then a ++ [v]
    else if alen <? index then a ++ repeat VNil (Z.to_nat (index - alen)) ++ [v]
    else upd a (Z.to_nat index) v.

  Definition RawSetString (t : tbl) (s : bytes) (v : value) : tbl :=
    if is_nil v then mkT (arr t) (adel beqb (strdict t) s) (dict t) (keys t) (k2i t)
    else
      let sd := aset beqb (strdict t) s v in
      match aget key_eqb (k2i t) (KStr s) with
      | Some _ => mkT (arr t) sd (dict t) (keys t) (k2i t)
      | None => mkT (arr t) sd (dict t) (keys t ++ [KStr s]) (aset key_eqb (k2i t) (KStr s) (len (keys t)))
      end.

  (* the non-string branch of RawSetH *)
  Definition RawSetD (t : tbl) (k : key) (v : value) : tbl :=
    if is_nil v then mkT (arr t) (strdict t) (adel key_eqb (dict t) k) (keys t) (k2i t)
    else
      let d := aset key_eqb (dict t) k v in
      match aget key_eqb (k2i t) k with
      | Some _ => mkT (arr t) (strdict t) d (keys t) (k2i t)
      | None => mkT (arr t) (strdict t) d (keys t ++ [k]) (aset key_eqb (k2i t) k (len (keys t)))
      end.

  Definition RawSetH (t : tbl) (k : key) (v : value) : tbl :=
    match k with
    | KStr s => RawSetString t s v
    | _ => RawSetD t k v
    end.

  Definition RawSet (t : tbl) (k : key) (v : value) : tbl :=
    match k with
    | KInt z =>
      if is_array_key k then mkT (set_arr (arr t) (z - 1) v) (strdict t) (dict t) (keys t) (k2i t)
      else RawSetH t k v
    | KStr s => RawSetString t s v
    | _ => RawSetH t k v
    end.

  Definition RawSetInt (t : tbl) (key : Z) (v : value) : tbl :=
    if (key <? 1) || (mai <=? key) then RawSetH t (KInt key) v
    else mkT (set_arr (arr t) (key - 1) v) (strdict t) (dict t) (keys t) (k2i t).

  Definition oget (o : option value) : value := match o with Some v => v | None => VNil end.

  Definition RawGetString (t : tbl) (s : bytes) : value := oget (aget beqb (strdict t) s).

  Definition RawGetH (t : tbl) (k : key) : value :=
    match k with
    | KStr s => oget (aget beqb (strdict t) s)
    | _ => oget (aget key_eqb (dict t) k)
    end.

  Definition RawGet (t : tbl) (k : key) : value :=
    match k with
    | KInt z =>
      if is_array_key k then (if len (arr t) <=? z - 1 then VNil else nthv (arr t) (z - 1))
      else oget (aget key_eqb (dict t) k)
    | KStr s => oget (aget beqb (strdict t) s)
    | _ => oget (aget key_eqb (dict t) k)
    end.

  (* after "fix: RawGetInt looks in the hash part for keys RawSetInt stores there" (C09-1) *)
  Definition RawGetInt (t : tbl) (key : Z) : value :=
    if (key <? 1) || (mai <=? key) then RawGetH t (KInt key)
    else if len (arr t) <=? key - 1 then VNil else nthv (arr t) (key - 1).

  (* Len: the loop runs i = len-1 .. 0 with prev; [l] is the reversed array, i the index of its head *)
  Fixpoint len_loop (l : list value) (i : Z) (prev : value) : Z :=
    match l with
    | [] => 0
    | v :: r => if is_nil prev && negb (is_nil v) then i + 1 else len_loop r (i - 1) v
    end.
  Definition Len (t : tbl) : Z := len_loop (rev (arr t)) (len (arr t) - 1) VNil.

  Fixpoint maxn_loop (l : list value) (i : Z) : Z :=
    match l with
    | [] => 0
    | v :: r => if negb (is_nil v) then i + 1 else maxn_loop r (i - 1)
    end.
  Definition MaxN (t : tbl) : Z := maxn_loop (rev (arr t)) (len (arr t) - 1).

  (* Append: the downward search for the last non-nil cell below index len-1;
     [l] = reversed prefix arr[0..i], returns the i at which the loop stops (-1 if none) *)
  Fixpoint last_nonnil (l : list value) (i : Z) : Z :=
    match l with
    | [] => -1
    | v :: r => if negb (is_nil v) then i else last_nonnil r (i - 1)
    end.

  Definition with_arr (t : tbl) (a : list value) : tbl := mkT a (strdict t) (dict t) (keys t) (k2i t).

  Definition Append (t : tbl) (v : value) : tbl :=
    if is_nil v then t
    else
      let a := arr t in
      if (len a =? 0) || negb (is_nil (nthv a (len a - 1))) then with_arr t (a ++ [v])
      else
        let i := last_nonnil (rev (firstn (Z.to_nat (len a - 1)) a)) (len a - 2) in
        with_arr t (upd a (Z.to_nat (i + 1)) v).

  Definition Insert (t : tbl) (i : Z) (v : value) : tbl :=
    let a := arr t in
    if len a <? i then RawSetInt t i v
    else if i <=? 0 then RawSet t (KInt i) v
    else
      let j := Z.to_nat (i - 1) in
      with_arr t (firstn j a ++ v :: skipn j a).

  Definition Remove (t : tbl) (pos : Z) : value * tbl :=
    let a := arr t in
    let larray := len a in
    if larray =? 0 then (VNil, t)
    else
      let i := pos - 1 in
      if larray <=? i then (VNil, t)
      else if (i =? larray - 1) || (i <? 0) then
        (nthv a (larray - 1), with_arr t (firstn (Z.to_nat (larray - 1)) a))
      else
        (nthv a i, with_arr t (firstn (Z.to_nat i) a ++ skipn (Z.to_nat (i + 1)) a)).

  (* ForEach: array cells in order, then strdict, then dict (Go map order: compared as a set) *)
  Fixpoint dump_arr (a : list value) (i : Z) : list (key * value) :=
    match a with
    | [] => []
    | v :: r => if is_nil v then dump_arr r (i + 1) else (KInt (i + 1), v) :: dump_arr r (i + 1)
    end.
  Definition nonnil_kv {K} (p : K * value) : bool := negb (is_nil (snd p)).
  Definition ForEach (t : tbl) : list (key * value) :=
    dump_arr (arr t) 0
    ++ map (fun p => (KStr (fst p), snd p)) (filter nonnil_kv (strdict t))
    ++ filter nonnil_kv (dict t).

  (* Next *)
  Inductive nres := NEnd | NKV (k : key) (v : value) | NPanic.

  (* for ; index < len(arr); index++ { if arr[index] != nil return index+1, v } over l = arr[index:] *)
  Fixpoint scan_from (l : list value) (index : Z) : option (Z * value) :=
    match l with
    | [] => None
    | v :: r => if is_nil v then scan_from r (index + 1) else Some (index + 1, v)
    end.

  Fixpoint scan_keys (t : tbl) (ks : list key) : nres :=
    match ks with
    | [] => NEnd
    | k :: r => let v := RawGetH t k in if is_nil v then scan_keys t r else NKV k v
    end.

  Definition k2i_get (t : tbl) (k : key) : Z :=
    match aget key_eqb (k2i t) k with Some i => i | None => 0 end.

  (* for i := tb.k2i[key] + 1; i < len(tb.keys); i++ *)
  Definition next_keys (t : tbl) (k : key) : nres :=
    scan_keys t (skipn (Z.to_nat (k2i_get t k + 1)) (keys t)).

  Definition Next (t : tbl) (okey : option key) : nres :=
    let init := match okey with None => true | Some _ => false end in
    let key := match okey with None => KInt 0 | Some k => k end in
    if init || negb (key_eqb key (KInt 0)) then
      match key with
      | KInt z =>
        if (0 <=? z) && (z <? mai) then
          (* the loop runs only while index < len(tb.array); afterwards index >= len(tb.array)
             (fix 2ba8ccb: also when the array part shrank below the cursor) *)
          match (if z <=? len (arr t) then scan_from (skipn (Z.to_nat z) (arr t)) z else None) with
          | Some (i, v) => NKV (KInt i) v
          | None =>
            if is_empty (dict t) && is_empty (strdict t) then NEnd
            else
              match keys t with
              | [] => NPanic                       (* tb.keys[0] out of range *)
              | k0 :: _ =>
                let v := RawGetH t k0 in
                if is_nil v then next_keys t k0 else NKV k0 v
              end
          end
        else next_keys t key
      | _ => next_keys t key
      end
    else next_keys t key.

  (* state.go LState.RawSet: the nil / NaN guard in front of LTable.RawSet *)
  Inductive lkey := LKNil | LKNaN | LK (k : key).
  Definition LRawSet (t : tbl) (k : lkey) (v : value) : option tbl :=
    match k with
    | LKNaN => None          (* RaiseError("table index is NaN") *)
    | LKNil => None          (* RaiseError("table index is nil") *)
    | LK k => Some (RawSet t k v)
    end.

  (* ---- histories ---- *)
  Inductive op :=
  | ORawSet (k : key) (v : value)
  | ORawSetInt (i : Z) (v : value)
  | ORawSetString (s : bytes) (v : value)
  | ORawSetH (k : key) (v : value)
  | OAppend (v : value)
  | OInsert (i : Z) (v : value)
  | ORemove (pos : Z).

  Definition apply (t : tbl) (o : op) : tbl :=
    match o with
    | ORawSet k v => RawSet t k v
    | ORawSetInt i v => RawSetInt t i v
    | ORawSetString s v => RawSetString t s v
    | ORawSetH k v => RawSetH t k v
    | OAppend v => Append t v
    | OInsert i v => Insert t i v
    | ORemove pos => snd (Remove t pos)
    end.

  Definition run (h : list op) : tbl := fold_left apply h empty.
  Definition run_from (t : tbl) (h : list op) : tbl := fold_left apply h t.

  (* the domain of the property: the hash-part setter is used with hash-part keys; positions
     given to Remove are >= 1 (LTable.Remove(pos <= 0) pops the physical last cell) *)
  Definition op_ok (o : op) : bool :=
    match o with
    | ORawSetH k _ => negb (is_array_key k)
    | ORemove pos => 1 <=? pos
    | _ => true
    end.

  Definition grows (o : op) : bool :=
    match o with OAppend _ | OInsert _ _ => true | _ => false end.

  (* ... and Append/Insert are not used on an array part of MaxArrayIndex-2 or more cells
     (known finding C09-2: beyond that the array part is no longer addressable) *)
  Fixpoint ok_from (t : tbl) (h : list op) : Prop :=
    match h with
    | [] => True
    | o :: r => op_ok o = true /\ (grows o = true -> len (arr t) + 1 < mai) /\ ok_from (apply t o) r
    end.
End WithMai.

(* the full traversal: Next from nil until it returns nil (fuel: one more than the number of slots) *)
Fixpoint walk (mai : Z) (t : tbl) (cur : option key) (fuel : nat) : option (list (key * value)) :=
  match fuel with
  | O => None
  | S f =>
    match Next mai t cur with
    | NEnd => Some []
    | NKV k v => option_map (cons (k, v)) (walk mai t (Some k) f)
    | NPanic => None
    end
  end.

Definition walk_fuel (t : tbl) : nat := S (length (arr t) + length (keys t)).

(* baselib.go ipairsaux, iterated from i: stops at the first nil (fuel bounds the number of calls) *)
Fixpoint ipairs_from (mai : Z) (t : tbl) (i : Z) (fuel : nat) : list value :=
  match fuel with
  | O => []
  | S f => let v := RawGetInt mai t i in
           if is_nil v then [] else v :: ipairs_from mai t (i + 1) f
  end.

