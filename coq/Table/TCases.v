(* Case evaluator for the C09 correspondence shards: one case = one history on one table,
   every step carrying what the real LTable / Lua code returned. *)
From GL Require Import Common.Bytes Table.TImpl Table.TSpec Table.TLib.

Inductive sethow := HSet | HSetInt | HSetString | HSetH.
Inductive gethow := GGet | GGetInt | GGetString | GGetH.

(* what a traversal-with-mutation does between two Next calls: a store to an existing field, or
   table.remove(t, pos) (which only assigns existing fields: t[i] = t[i+1], t[n] = nil) *)
Inductive tupd := USet (k : key) (v : value) | URemove (pos : Z).

Inductive step :=
| SSet (h : sethow) (k : key) (v : value)
| SGet (h : gethow) (k : key) (o : value)
| SLen (o : Z)
| SMaxN (o : Z)
| SAppend (v : value)
| SInsert (i : Z) (v : value)
| SRemove (pos : Z) (o : value)
| SDump (o : list (key * value))                    (* ForEach: compared as a set *)
| SWalk (o : list (key * value))                    (* Next from nil to the end: exact order *)
| SIpairs (o : list value)
| SGuard (k : lkey) (raised : bool)                  (* Lua-level store under nil / NaN *)
| STrav (o : list (key * value * list tupd))
| SStop.     (* the rest of the history was checked on the Go side only (see the harness) *)
   (* traversal with mutation: each element = what Next returned, then the stores (to existing
      fields) performed before the following Next; the walk ended with nil after the last one *)

Record case := mkCase { c_mai : Z; c_steps : list step }.

(* ---------- implementation model ---------- *)
Definition do_set (mai : Z) (t : tbl) (h : sethow) (k : key) (v : value) : tbl :=
  match h, k with
  | HSetInt, KInt i => RawSetInt mai t i v
  | HSetString, KStr s => RawSetString t s v
  | HSetH, _ => RawSetH t k v
  | _, _ => RawSet mai t k v
  end.

Definition do_get (mai : Z) (t : tbl) (h : gethow) (k : key) : value :=
  match h, k with
  | GGetInt, KInt i => RawGetInt mai t i
  | GGetString, KStr s => RawGetString t s
  | GGetH, _ => RawGetH t k
  | _, _ => RawGet mai t k
  end.

Definition kvs_eqb := list_eqb kv_eqb.
Definition count_kv (p : key * value) (l : list (key * value)) : nat :=
  length (filter (kv_eqb p) l).
(* equal as multisets (Go map order is not an observable) *)
Definition same_set (a b : list (key * value)) : bool :=
  (Nat.eqb (length a) (length b)) && forallb (fun p => Nat.eqb (count_kv p a) (count_kv p b)) a.

Definition nres_is (r : nres) (k : key) (v : value) : bool :=
  match r with NKV k' v' => key_eqb k' k && value_eqb v' v | _ => false end.
Definition nres_end (r : nres) : bool := match r with NEnd => true | _ => false end.

Definition apply_tupd (mai : Z) (t : tbl) (u : tupd) : tbl :=
  match u with
  | USet k v => RawSet mai t k v
  | URemove pos => snd (tableRemove t (Some pos))
  end.

Fixpoint trav_impl (mai : Z) (t : tbl) (cur : option key) (o : list (key * value * list tupd))
  : bool * tbl :=
  match o with
  | [] => (nres_end (Next mai t cur), t)
  | (k, v, us) :: r =>
    if nres_is (Next mai t cur) k v then
      trav_impl mai (fold_left (apply_tupd mai) us t) (Some k) r
    else (false, t)
  end.

Definition impl_step (mai : Z) (t : tbl) (s : step) : bool * tbl :=
  match s with
  | SSet h k v => (true, do_set mai t h k v)
  | SGet h k o => (value_eqb (do_get mai t h k) o, t)
  | SLen o => (Len t =? o, t)
  | SMaxN o => (MaxN t =? o, t)
  | SAppend v => (true, Append t v)
  | SInsert i v => (true, Insert mai t i v)
  | SRemove pos o => let (v, t') := Remove t pos in (value_eqb v o, t')
  | SDump o => (same_set o (ForEach t), t)
  | SWalk o => (match walk mai t None (walk_fuel t) with Some l => kvs_eqb l o | None => false end, t)
  | SIpairs o => (list_eqb value_eqb (ipairs_from mai t 1 (S (length o))) o, t)
  | SGuard k raised =>
    match LRawSet mai t k VNil with
    | None => (raised, t)
    | Some t' => (negb raised, t')
    end
  | STrav o => trav_impl mai t None o
  | SStop => (true, t)
  end.

Fixpoint impl_steps (mai : Z) (t : tbl) (ss : list step) : bool :=
  match ss with
  | [] => true
  | SStop :: _ => true
  | s :: r => let (ok, t') := impl_step mai t s in if ok then impl_steps mai t' r else false
  end.

Definition check_impl (c : case) : bool := impl_steps (c_mai c) empty (c_steps c).

(* ---------- the property, evaluated on what was observed ---------- *)

Fixpoint ipairs_ok (m : smap) (i : Z) (o : list value) : bool :=
  match o with
  | [] => is_nil (sget m (KInt i))
  | v :: r => negb (is_nil v) && value_eqb (sget m (KInt i)) v && ipairs_ok m (i + 1) r
  end.

(* traversal under updates of existing fields: visited keys distinct, each reported with its
   current value, every key present from the start to the end is visited *)
Definition sapply_tupd (mai : Z) (m : smap) (u : tupd) : smap :=
  match u with
  | USet k v => sset m k v
  | URemove pos => snd (s_remove mai m pos)
  end.
Definition tupd_ok (m : smap) (u : tupd) : bool :=
  match u with
  | USet k _ => negb (is_nil (sget m k))      (* the harness only touched existing fields *)
  | URemove _ => true
  end.

Fixpoint trav_spec (mai : Z) (m : smap) (o : list (key * value * list tupd))
         (seen : list key) (always : list key) : bool :=
  match o with
  | [] => forallb (fun k => memb key_eqb k seen) always
  | (k, v, us) :: r =>
    negb (is_nil v) && value_eqb (sget m k) v && negb (memb key_eqb k seen)
    && (let m' := fold_left (fun m' u => if tupd_ok m' u then sapply_tupd mai m' u else m') us m in
        forallb (fun b => b) (snd (fold_left (fun a u => (sapply_tupd mai (fst a) u, tupd_ok (fst a) u :: snd a)) us (m, [])))
        && trav_spec mai m' r (k :: seen) (filter (fun k' => negb (is_nil (sget m' k'))) always))
  end.

Definition spec_step (mai : Z) (m : smap) (s : step) : bool * smap :=
  match s with
  | SSet _ k v => (true, sset m k v)
  | SGet _ k o => (value_eqb (sget m k) o, m)
  | SLen o => (border_b (sget m) o, m)
  | SMaxN o => (slen mai m =? o, m)
  | SAppend v => (true, s_append mai m v)
  | SInsert i v => (true, s_insert mai m i v)
  | SRemove pos o => let (v, m') := s_remove mai m pos in (value_eqb v o, m')
  | SDump o => (dump_is_map m o, m)
  | SWalk o => (dump_is_map m o, m)
  | SIpairs o => (ipairs_ok m 1 o, m)
  | SGuard _ raised => (raised, m)
  | STrav o =>
    (trav_spec mai m o [] (map fst m),
     fold_left (fun m' e => fold_left (sapply_tupd mai) (snd e) m') o m)
  | SStop => (true, m)
  end.

Fixpoint spec_steps (mai : Z) (m : smap) (ss : list step) : bool :=
  match ss with
  | [] => true
  | SStop :: _ => true
  | s :: r => let (ok, m') := spec_step mai m s in if ok then spec_steps mai m' r else false
  end.

Definition check_spec (c : case) : bool := spec_steps (c_mai c) [] (c_steps c).

(* debugging aid: index of the first step whose check fails (None = all pass) *)
Fixpoint impl_first_fail (mai : Z) (t : tbl) (ss : list step) (i : Z) : option Z :=
  match ss with
  | [] => None
  | s :: r => let (ok, t') := impl_step mai t s in if ok then impl_first_fail mai t' r (i + 1) else Some i
  end.
Fixpoint spec_first_fail (mai : Z) (m : smap) (ss : list step) (i : Z) : option Z :=
  match ss with
  | [] => None
  | s :: r => let (ok, m') := spec_step mai m s in if ok then spec_first_fail mai m' r (i + 1) else Some i
  end.
Definition where_fails (c : case) : option Z * option Z :=
  (impl_first_fail (c_mai c) empty (c_steps c) 0, spec_first_fail (c_mai c) [] (c_steps c) 0).
