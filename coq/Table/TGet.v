(* get_refines: after every history, every read of the implementation model equals the lookup
   in the finite-map specification. *)
From GL Require Import Common.Bytes Common.BytesFacts Table.TImpl Table.TBasics Table.TSpec Table.TInv Table.TRefine.
From Coq Require Import Lia ZifyBool.

Lemma sget_sset m k v k' : sget (sset m k v) k' = f_set (sget m) k v k'.
Proof.
  unfold sget, sset, f_set. destruct (key_eqb k' k) eqn:E.
  - apply key_eqb_eq in E. subst k'. destruct (is_nil v) eqn:Ev.
    + rewrite (aget_adel_same key_eqb). apply is_nil_true in Ev. now subst.
    + now rewrite (aget_aset_same key_eqb key_eqb_eq).
  - apply key_eqb_neq in E. destruct (is_nil v).
    + now rewrite (aget_adel_other key_eqb key_eqb_eq).
    + now rewrite (aget_aset_other key_eqb key_eqb_eq).
Qed.

Definition memz (z : Z) (l : list Z) : bool := existsb (Z.eqb z) l.

Lemma memz_zseq z a n : memz z (zseq a n) = (a <=? z) && (z <? a + Z.of_nat n).
Proof.
  revert a; induction n as [|n IH]; intros a; simpl zseq; unfold memz in *; simpl existsb; [lia|].
  rewrite IH. lia.
Qed.

Lemma sget_sset_many m ks g k' :
  sget (sset_many m ks g) k' =
  match k' with
  | KInt z => if memz z ks then g z else sget m k'
  | _ => sget m k'
  end.
Proof.
  unfold sset_many. revert m. induction ks as [|i ks IH]; intros m; simpl fold_left.
  - destruct k'; reflexivity.
  - rewrite IH. destruct k'; rewrite ?sget_sset; unfold f_set; try reflexivity.
    unfold memz. simpl existsb. fold (memz z ks).
    destruct (memz z ks) eqn:E1; simpl.
    + destruct (z =? i) eqn:E2; simpl; [|reflexivity].
      (* the later store wins, but both store g z *)
      reflexivity.
    + destruct (z =? i) eqn:E2; simpl; [f_equal; lia|reflexivity].
Qed.

Section Get.
  Variable mai : Z.

  (* slen: characterisation *)
  Definition slen_on (m l : smap) : Z :=
    fold_right (fun p acc =>
                  match fst p with
                  | KInt z => if is_array_key mai (KInt z) && negb (is_nil (sget m (KInt z)))
                              then Z.max z acc else acc
                  | _ => acc
                  end) 0 l.

  Lemma slen_on_spec m l :
    0 <= slen_on m l /\
    (slen_on m l = 0 \/ (is_array_key mai (KInt (slen_on m l)) = true /\ sget m (KInt (slen_on m l)) <> VNil)) /\
    (forall z, In (KInt z) (map fst l) -> is_array_key mai (KInt z) = true -> sget m (KInt z) <> VNil -> z <= slen_on m l).
  Proof.
    induction l as [|[k v] l (P & Q & R)].
    - simpl. split; [lia|]. split; [now left|]. intros z [].
    - unfold slen_on. cbn [fold_right fst]. fold (slen_on m l).
      assert (Skip : forall k', (forall z, k' <> KInt z) ->
                0 <= slen_on m l /\
                (slen_on m l = 0 \/ (is_array_key mai (KInt (slen_on m l)) = true /\ sget m (KInt (slen_on m l)) <> VNil)) /\
                (forall z, In (KInt z) (map fst ((k', v) :: l)) -> is_array_key mai (KInt z) = true ->
                           sget m (KInt z) <> VNil -> z <= slen_on m l)).
      { intros k' Hk. split; [assumption|]. split; [assumption|].
        intros z0 [H|H]; [exfalso; eapply Hk; eauto|auto]. }
      destruct k; try (apply Skip; intros; discriminate).
      destruct (is_array_key mai (KInt z) && negb (is_nil (sget m (KInt z)))) eqn:E.
      + apply andb_true_iff in E as [E1 E2]. apply negb_true_iff, is_nil_false in E2.
        pose proof E1 as E1'. simpl in E1'.
        split; [lia|]. split.
        * right. destruct (Z.max_spec z (slen_on m l)) as [[Hlt ->]|[Hge ->]]; auto.
          destruct Q as [Q|Q]; [|assumption]. lia.
        * intros z0 [H|H] Ha Hn; [inversion H; lia|]. specialize (R z0 H Ha Hn). lia.
      + split; [assumption|]. split; [assumption|]. intros z0 [H|H] Ha Hn; auto.
        inversion H; subst z0. rewrite Ha in E. simpl in E.
        apply negb_false_iff, is_nil_true in E. contradiction.
  Qed.

  Lemma slen_spec m :
    0 <= slen mai m /\
    (slen mai m = 0 \/ (is_array_key mai (KInt (slen mai m)) = true /\ sget m (KInt (slen mai m)) <> VNil)) /\
    (forall z, is_array_key mai (KInt z) = true -> sget m (KInt z) <> VNil -> z <= slen mai m).
  Proof.
    change (slen mai m) with (slen_on m m). destruct (slen_on_spec m m) as (P & Q & R).
    repeat split; auto. intros z Ha Hn. apply R; auto.
    unfold sget in Hn. destruct (aget key_eqb m (KInt z)) eqn:E; [|contradiction].
    eapply (aget_in key_eqb key_eqb_eq); eauto.
  Qed.

  Definition refines (t : tbl) (m : smap) : Prop := forall k, RawGet mai t k = sget m k.

  Lemma Len_slen t m : bounded mai t -> refines t m -> Len t = slen mai m.
  Proof.
    intros B Rf. rewrite Len_lastnn. unfold bounded in B.
    destruct (lastnn_spec (arr t)) as (Rg & N & Bd).
    destruct (slen_spec m) as (P & Q & R).
    assert (L1 : lastnn (arr t) <= slen mai m).
    { destruct N as [N|N]; [lia|].
      assert (lastnn (arr t) <> 0) by (intros E0; apply N; rewrite E0; apply nthv_neg; lia).
      apply R; [simpl; lia|]. rewrite <- Rf. rewrite RawGet_arr by (simpl; lia). assumption. }
    assert (L2 : slen mai m <= lastnn (arr t)).
    { destruct Q as [Q|[Qa Qn]]; [lia|].
      rewrite <- Rf in Qn. rewrite RawGet_arr in Qn by assumption.
      destruct (Z_le_gt_dec (slen mai m) (lastnn (arr t))); [assumption|].
      exfalso. apply Qn. apply Bd. lia. }
    lia.
  Qed.

  (* specification-side list operations as functions *)
  Lemma sget_s_insert m pos v k' :
    sget (s_insert mai m pos v) k' =
    if (1 <=? pos) && (pos <=? slen mai m + 1) then f_insert (sget m) (slen mai m) pos v k'
    else f_set (sget m) (KInt pos) v k'.
  Proof.
    unfold s_insert. destruct ((1 <=? pos) && (pos <=? slen mai m + 1)) eqn:E; [|apply sget_sset].
    rewrite sget_sset. unfold f_set, f_insert.
    destruct k'; try (rewrite sget_sset_many; reflexivity).
    simpl key_eqb. destruct (z =? pos) eqn:E1; [reflexivity|].
    rewrite sget_sset_many, memz_zseq.
    destruct ((pos <? z) && (z <=? slen mai m + 1)) eqn:E2.
    - assert ((pos + 1 <=? z) && (z <? pos + 1 + Z.of_nat (Z.to_nat (slen mai m + 1 - pos))) = true) as -> by lia.
      reflexivity.
    - assert ((pos + 1 <=? z) && (z <? pos + 1 + Z.of_nat (Z.to_nat (slen mai m + 1 - pos))) = false) as -> by lia.
      reflexivity.
  Qed.

  Lemma sget_s_remove m pos :
    fst (s_remove mai m pos) = (if (1 <=? pos) && (pos <=? slen mai m) then sget m (KInt pos) else VNil) /\
    forall k', sget (snd (s_remove mai m pos)) k' =
               if (1 <=? pos) && (pos <=? slen mai m) then f_remove (sget m) (slen mai m) pos k' else sget m k'.
  Proof.
    unfold s_remove. destruct ((1 <=? pos) && (pos <=? slen mai m)) eqn:E; simpl; [|auto].
    split; [reflexivity|]. intros k'. rewrite sget_sset. unfold f_set, f_remove.
    destruct k'; try (rewrite sget_sset_many; reflexivity).
    simpl key_eqb. rewrite sget_sset_many, memz_zseq.
    destruct ((pos <=? z) && (z <? slen mai m)) eqn:E2.
    - assert (z =? slen mai m = false) as -> by lia.
      assert ((pos <=? z) && (z <? pos + Z.of_nat (Z.to_nat (slen mai m - pos))) = true) as -> by lia.
      reflexivity.
    - destruct (z =? slen mai m) eqn:E3; [reflexivity|].
      assert ((pos <=? z) && (z <? pos + Z.of_nat (Z.to_nat (slen mai m - pos))) = false) as -> by lia.
      reflexivity.
  Qed.

  Lemma refines_empty : refines empty [].
  Proof.
    intros k. destruct k; try reflexivity.
    unfold RawGet, sget. simpl. destruct ((0 <? z) && (z <? mai)); [|reflexivity].
    destruct (len (@nil value) <=? z - 1); [reflexivity|apply nthv_nil].
  Qed.

  (* one step *)
  Lemma refines_step t m o :
    bounded mai t -> refines t m ->
    op_ok mai o = true -> (grows o = true -> len (arr t) + 1 < mai) ->
    bounded mai (apply mai t o) /\ refines (apply mai t o) (sapply mai m o).
  Proof.
    intros B Rf Hok Hg. destruct o; simpl in *.
    - split; [now apply bounded_RawSet|]. intros k'. rewrite RawGet_RawSet, sget_sset. unfold f_set. now rewrite Rf.
    - split; [now apply bounded_RawSetInt|]. intros k'. rewrite RawGet_RawSetInt, sget_sset. unfold f_set. now rewrite Rf.
    - split; [eapply bounded_same_arr; [apply arr_RawSetString|assumption]|].
      intros k'. rewrite RawGet_RawSetString, sget_sset. unfold f_set. now rewrite Rf.
    - split; [eapply bounded_same_arr; [apply arr_RawSetH|assumption]|].
      intros k'. rewrite RawGet_RawSetH by (destruct (is_array_key mai k); [discriminate|reflexivity]).
      rewrite sget_sset. unfold f_set. now rewrite Rf.
    - specialize (Hg eq_refl). split; [now apply bounded_Append|].
      intros k'. rewrite RawGet_Append by assumption. unfold s_append.
      destruct (is_nil v); [apply Rf|]. rewrite sget_sset. unfold f_set.
      rewrite (Len_slen t m) by assumption. now rewrite Rf.
    - specialize (Hg eq_refl). split; [now apply bounded_Insert|].
      intros k'. rewrite RawGet_Insert by assumption. rewrite sget_s_insert.
      rewrite (Len_slen t m) by assumption.
      destruct ((1 <=? i) && (i <=? slen mai m + 1)).
      + unfold f_insert. destruct k'; rewrite ?Rf; reflexivity.
      + unfold f_set. now rewrite Rf.
    - split; [now apply bounded_Remove|].
      destruct (RawGet_Remove mai t pos B ltac:(lia)) as [_ H]. destruct (sget_s_remove m pos) as [_ H'].
      intros k'. rewrite H, H'. rewrite (Len_slen t m) by assumption.
      assert ((1 <=? pos) && (pos <=? slen mai m) = (pos <=? slen mai m)) as -> by lia.
      destruct (pos <=? slen mai m); [|apply Rf].
      unfold f_remove. destruct k'; rewrite ?Rf; reflexivity.
  Qed.

  Lemma refines_run t m h :
    bounded mai t -> refines t m -> ok_from mai t h ->
    bounded mai (run_from mai t h) /\ refines (run_from mai t h) (fold_left (sapply mai) h m).
  Proof.
    revert t m. induction h as [|o h IH]; intros t m B Rf Hok; simpl in *; [auto|].
    destruct Hok as (H1 & H2 & H3).
    destruct (refines_step t m o B Rf H1 H2) as [B' Rf']. apply IH; auto.
  Qed.

  (* headline (2) *)
  Lemma get_refines_lemma h k :
    ok_from mai empty h -> RawGet mai (run mai h) k = sget (srun mai h) k.
  Proof.
    intros Hok.
    destruct (refines_run empty [] h) as [_ Rf]; auto.
    - apply WF_empty.
    - apply refines_empty.
  Qed.

  Lemma ok_from_op_ok t h : ok_from mai t h -> forallb (op_ok mai) h = true.
  Proof.
    revert t. induction h as [|o h IH]; intros t H; simpl in *; [reflexivity|].
    destruct H as (H1 & _ & H3). rewrite H1. simpl. eapply IH; eauto.
  Qed.

  Lemma WF_run h : ok_from mai empty h -> WF mai (run mai h).
  Proof.
    intros Hok. split.
    - apply inv_reachable_lemma. eapply ok_from_op_ok; eauto.
    - destruct (refines_run empty [] h) as [B _]; auto.
      + apply WF_empty.
      + apply refines_empty.
  Qed.

  (* the reading of "a table returns the value most recently stored under an equal key":
     one store, seen through RawGet *)
  Lemma store_load_lemma t k v k' :
    RawGet mai (RawSet mai t k v) k' = if key_eqb k' k then v else RawGet mai t k'.
  Proof. apply RawGet_RawSet. Qed.

  Lemma getint_getstring_agree_lemma t i s :
    RawGetInt mai t i = RawGet mai t (KInt i) /\ RawGetString t s = RawGet mai t (KStr s).
  Proof. split; [apply RawGetInt_RawGet | apply RawGetString_RawGet]. Qed.

  (* ipairs visits i, i+1, ... with their values up to the first nil *)
  Lemma ipairs_prefix_lemma t : forall fuel i,
    let L := ipairs_from mai t i fuel in
    (forall j, 0 <= j < len L -> nthv L j = RawGet mai t (KInt (i + j)) /\ nthv L j <> VNil) /\
    ((length L < fuel)%nat -> RawGet mai t (KInt (i + len L)) = VNil).
  Proof.
    induction fuel as [|f IH]; intros i L; subst L.
    - simpl. split; [intros j Hj; unfold len in Hj; simpl in Hj; lia|lia].
    - cbn [ipairs_from]. rewrite RawGetInt_RawGet.
      destruct (is_nil (RawGet mai t (KInt i))) eqn:E.
      + split; [intros j Hj; unfold len in Hj; simpl in Hj; lia|].
        intros _. rewrite len_nil, Z.add_0_r. now apply is_nil_true.
      + destruct (IH (i + 1)) as [A B]. split.
        * intros j Hj. rewrite len_cons in Hj. destruct (Z.eq_dec j 0) as [->|Nz].
          -- rewrite nthv_cons_0, Z.add_0_r. split; [reflexivity|now apply is_nil_false].
          -- rewrite nthv_cons_S by lia. destruct (A (j - 1)) as [A1 A2]; [lia|].
             split; [|assumption]. rewrite A1. do 2 f_equal. lia.
        * intros Hl. simpl in Hl. rewrite len_cons.
          replace (i + (len (ipairs_from mai t (i + 1) f) + 1)) with (i + 1 + len (ipairs_from mai t (i + 1) f)) by lia.
          apply B. lia.
  Qed.

  Lemma rawset_guard_lemma t k v : k = LKNil \/ k = LKNaN -> LRawSet mai t k v = None.
  Proof. intros [->| ->]; reflexivity. Qed.
End Get.
