(* M-Table, specification side: a table is a finite map key -> value (nil = absent).
   Written from the Lua 5.1 manual (2.2, 2.5.5 length/border, 5.5 table.insert/remove), not from
   the Go code.  No proofs in this file.

   Two views:
   * functions [key -> value] with the list operations parameterised by the list length n
     ([f_insert], [f_remove], ...): what the manual says;
   * an executable finite map [smap] (association list of the present keys) with the same
     operations, n being the largest positive integer key below MaxArrayIndex with a non-nil
     value ([slen]) -- the border that LTable.Len returns when the invariant holds. *)
From GL Require Import Common.Bytes Table.TImpl.

(* ---- functional view ---- *)
Definition fmap := key -> value.

Definition f_empty : fmap := fun _ => VNil.
Definition f_set (f : fmap) (k : key) (v : value) : fmap :=
  fun k' => if key_eqb k' k then v else f k'.

(* n is a border of f: (n = 0 or f[n] ~= nil) and f[n+1] == nil *)
Definition border (f : fmap) (n : Z) : Prop :=
  0 <= n /\ (n = 0 \/ f (KInt n) <> VNil) /\ f (KInt (n + 1)) = VNil.

Definition border_b (f : fmap) (n : Z) : bool :=
  (0 <=? n) && ((n =? 0) || negb (is_nil (f (KInt n)))) && is_nil (f (KInt (n + 1))).

(* f is a list (sequence) of n elements: non-nil exactly at 1..n among the positive integers *)
Definition is_list (f : fmap) (n : Z) : Prop :=
  0 <= n /\ (forall i, 1 <= i <= n -> f (KInt i) <> VNil) /\ (forall i, n < i -> f (KInt i) = VNil).

(* table.insert(t, pos, v) for a list of n elements, 1 <= pos <= n+1 (manual 5.5):
   shifts up t[pos..n], then t[pos] = v *)
Definition f_insert (f : fmap) (n pos : Z) (v : value) : fmap :=
  fun k => match k with
           | KInt i => if i =? pos then v
                       else if (pos <? i) && (i <=? n + 1) then f (KInt (i - 1))
                       else f k
           | _ => f k
           end.

(* table.remove(t, pos), 1 <= pos <= n: returns t[pos], shifts down t[pos+1..n], t[n] = nil *)
Definition f_remove (f : fmap) (n pos : Z) : fmap :=
  fun k => match k with
           | KInt i => if (pos <=? i) && (i <? n) then f (KInt (i + 1))
                       else if i =? n then VNil
                       else f k
           | _ => f k
           end.

(* the list view t[1..n] *)
Fixpoint zseq (a : Z) (n : nat) : list Z :=
  match n with O => [] | S m => a :: zseq (a + 1) m end.
Definition view (f : fmap) (n : Z) : list value := map (fun i => f (KInt i)) (zseq 1 (Z.to_nat n)).

(* ---- executable finite map ---- *)
Definition smap := list (key * value).

Definition sget (m : smap) (k : key) : value := oget (aget key_eqb m k).
Definition sset (m : smap) (k : key) (v : value) : smap :=
  if is_nil v then adel key_eqb m k else aset key_eqb m k v.

Section WithMai.
  Variable mai : Z.

  (* largest array-range key with a non-nil value, 0 if none *)
  Definition slen (m : smap) : Z :=
    fold_right (fun p acc =>
                  match fst p with
                  | KInt z => if is_array_key mai (KInt z) && negb (is_nil (sget m (KInt z)))
                              then Z.max z acc else acc
                  | _ => acc
                  end) 0 m.

  (* set every key of ks (distinct integers) to g(key), reading g from the old map *)
  Definition sset_many (m : smap) (ks : list Z) (g : Z -> value) : smap :=
    fold_left (fun m' i => sset m' (KInt i) (g i)) ks m.

  Definition s_insert (m : smap) (pos : Z) (v : value) : smap :=
    let n := slen m in
    if (1 <=? pos) && (pos <=? n + 1) then
      sset (sset_many m (zseq (pos + 1) (Z.to_nat (n + 1 - pos))) (fun i => sget m (KInt (i - 1)))) (KInt pos) v
    else sset m (KInt pos) v.

  Definition s_remove (m : smap) (pos : Z) : value * smap :=
    let n := slen m in
    if (1 <=? pos) && (pos <=? n) then
      (sget m (KInt pos),
       sset (sset_many m (zseq pos (Z.to_nat (n - pos))) (fun i => sget m (KInt (i + 1)))) (KInt n) VNil)
    else (VNil, m).

  Definition s_append (m : smap) (v : value) : smap :=
    if is_nil v then m else sset m (KInt (slen m + 1)) v.

  Definition sapply (m : smap) (o : op) : smap :=
    match o with
    | ORawSet k v => sset m k v
    | ORawSetInt i v => sset m (KInt i) v
    | ORawSetString s v => sset m (KStr s) v
    | ORawSetH k v => sset m k v
    | OAppend v => s_append m v
    | OInsert i v => s_insert m i v
    | ORemove pos => snd (s_remove m pos)
    end.

  Definition srun (h : list op) : smap := fold_left sapply h [].
End WithMai.

(* ---- helpers shared by the case checkers (set comparison of dumps) ---- *)
Definition kv_eqb (a b : key * value) : bool := key_eqb (fst a) (fst b) && value_eqb (snd a) (snd b).

Fixpoint memb {A} (eqb : A -> A -> bool) (x : A) (l : list A) : bool :=
  match l with [] => false | y :: r => eqb y x || memb eqb x r end.

Fixpoint nodupb {A} (eqb : A -> A -> bool) (l : list A) : bool :=
  match l with [] => true | x :: r => negb (memb eqb x r) && nodupb eqb r end.

(* the dump lists exactly the present entries of m, each key once *)
Definition dump_is_map (m : smap) (d : list (key * value)) : bool :=
  nodupb key_eqb (map fst d)
  && forallb (fun p => negb (is_nil (snd p)) && value_eqb (sget m (fst p)) (snd p)) d
  && forallb (fun p => is_nil (sget m (fst p)) || memb key_eqb (fst p) (map fst d)) m.
