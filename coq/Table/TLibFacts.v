(* Proofs about the table library model (C18). *)
From GL Require Import Common.Bytes Common.BytesFacts Table.TImpl Table.TBasics Table.TSpec Table.TLib.
From Coq Require Import Lia ZifyBool Permutation.

(* ---------- Swap leaves a permutation ---------- *)
Lemma upd_app_r {A} (l1 l2 : list A) k v : upd (l1 ++ l2) (length l1 + k) v = l1 ++ upd l2 k v.
Proof. induction l1; simpl; [reflexivity|]. now rewrite IHl1. Qed.

Lemma upd_app_l {A} (l1 l2 : list A) k v : (k < length l1)%nat -> upd (l1 ++ l2) k v = upd l1 k v ++ l2.
Proof.
  revert k; induction l1 as [|x l1 IH]; intros k H; simpl in *; [lia|].
  destruct k; simpl; [reflexivity|]. rewrite IH by lia. reflexivity.
Qed.

Lemma upd_same (a : list value) i : upd a i (nth i a VNil) = a.
Proof.
  revert i; induction a as [|x a IH]; intros [|i]; simpl; auto. now rewrite IH.
Qed.

Lemma swap_nat_lt (a : list value) i j :
  (i < j)%nat -> (j < length a)%nat ->
  Permutation (upd (upd a i (nth j a VNil)) j (nth i a VNil)) a.
Proof.
  intros Hij Hj.
  destruct (nth_split a VNil Hj) as (l1 & l3 & Ea & Hl1).
  remember (nth j a VNil) as y eqn:Hy.
  assert (Hi : (i < length l1)%nat) by lia.
  destruct (nth_split l1 VNil Hi) as (m1 & m2 & El & Hm1).
  assert (Ex : nth i a VNil = nth i l1 VNil).
  { rewrite Ea. apply app_nth1. lia. }
  rewrite Ex. remember (nth i l1 VNil) as x eqn:Hx.
  rewrite Ea, El.
  replace i with (length m1 + 0)%nat at 1 by lia.
  rewrite <- app_assoc. simpl. rewrite upd_app_r. simpl.
  replace j with (length (m1 ++ y :: m2) + 0)%nat.
  2:{ rewrite app_length. simpl. subst l1. rewrite app_length in Hl1. simpl in Hl1. lia. }
  replace (m1 ++ y :: m2 ++ y :: l3) with ((m1 ++ y :: m2) ++ y :: l3) by (rewrite <- app_assoc; reflexivity).
  rewrite upd_app_r. simpl. rewrite <- app_assoc. simpl.
  apply Permutation_app_head.
  transitivity (y :: x :: m2 ++ l3).
  - constructor. symmetry. apply Permutation_middle.
  - transitivity (x :: y :: m2 ++ l3); [apply perm_swap|].
    constructor. apply Permutation_middle.
Qed.

Lemma upd_comm {A} (a : list A) i j x y : i <> j -> upd (upd a i x) j y = upd (upd a j y) i x.
Proof.
  revert i j; induction a as [|z a IH]; intros [|i] [|j] H; simpl; auto; try lia.
  rewrite IH by lia. reflexivity.
Qed.

Lemma swap_nat (a : list value) i j :
  (i < length a)%nat -> (j < length a)%nat ->
  Permutation (upd (upd a i (nth j a VNil)) j (nth i a VNil)) a.
Proof.
  intros Hi Hj. destruct (Nat.lt_trichotomy i j) as [H|[H|H]].
  - apply swap_nat_lt; auto.
  - subst. rewrite upd_same, upd_same. reflexivity.
  - rewrite upd_comm by lia. apply swap_nat_lt; auto.
Qed.

Lemma swap_perm a i j : 0 <= i < len a -> 0 <= j < len a -> Permutation (swap a i j) a.
Proof.
  intros Hi Hj. unfold swap, nthv, len in *.
  destruct (j <? 0) eqn:E1; [lia|]. destruct (i <? 0) eqn:E2; [lia|].
  apply swap_nat; lia.
Qed.

Lemma swap_len a i j : len (swap a i j) = len a.
Proof. unfold swap. now rewrite !len_upd. Qed.

Lemma nthv_in a i : 0 <= i < len a -> In (nthv a i) a.
Proof.
  intros H. unfold nthv, len in *. destruct (i <? 0) eqn:E; [lia|]. apply nth_In. lia.
Qed.

(* headline: whatever sequence of in-range Less/Swap calls the sorting routine issues, and
   whatever the comparator answers (including failing at any call), the array stays a
   permutation of the original and the comparator only ever sees elements of it *)
Lemma sort_run_perm lt evs : forall a calls a' calls' raised,
  forallb (ev_in_range (len a)) evs = true ->
  sort_run lt a evs calls = (a', calls', raised) ->
  Permutation a' a /\
  (forall c, In c calls' -> In c calls \/ (In (fst c) a /\ In (snd c) a)).
Proof.
  induction evs as [|e evs IH]; intros a calls a' calls' raised Hr Hrun; simpl in *.
  - inversion Hrun; subst. split; [reflexivity|auto].
  - apply andb_true_iff in Hr as [He Hr].
    destruct e as [i j|i j]; simpl in He.
    + assert (Hi : 0 <= i < len a) by lia. assert (Hj : 0 <= j < len a) by lia.
      destruct (lt (len calls) (nthv a i) (nthv a j)) eqn:El.
      * destruct (IH _ _ _ _ _ Hr Hrun) as [P C]. split; auto.
        intros c Hc. destruct (C c Hc) as [Hin|Hin]; auto.
        apply in_app_or in Hin as [Hin|[<-|[]]]; auto.
        right. simpl. split; apply nthv_in; auto.
      * inversion Hrun; subst. split; [reflexivity|].
        intros c Hc. apply in_app_or in Hc as [Hin|[<-|[]]]; auto.
        right. simpl. split; apply nthv_in; auto.
    + assert (Hi : 0 <= i < len a) by lia. assert (Hj : 0 <= j < len a) by lia.
      pose proof (swap_perm a i j Hi Hj) as Ps.
      rewrite <- (swap_len a i j) in Hr.
      destruct (IH _ _ _ _ _ Hr Hrun) as [P C]. split.
      * etransitivity; eauto.
      * intros c Hc. destruct (C c Hc) as [Hin|[H1 H2]]; auto.
        right. split; eapply Permutation_in; eauto.
Qed.

Lemma sort_permutation_lemma lt a evs a' calls raised :
  forallb (ev_in_range (len a)) evs = true ->
  sort_run lt a evs [] = (a', calls, raised) ->
  Permutation a' a /\ Forall (fun c => In (fst c) a /\ In (snd c) a) calls.
Proof.
  intros Hr Hrun. destruct (sort_run_perm lt evs a [] a' calls raised Hr Hrun) as [P C].
  split; auto. apply Forall_forall. intros c Hc. destruct (C c Hc) as [[]|H]; auto.
Qed.

(* ---------- lists ---------- *)
From GL Require Import Table.TInv Table.TRefine Table.TGet.

Lemma nthv_nth_error a i : 0 <= i -> nthv a i = match nth_error a (Z.to_nat i) with Some x => x | None => VNil end.
Proof.
  intros H. unfold nthv. destruct (i <? 0) eqn:E; [lia|].
  generalize (Z.to_nat i). clear. induction a as [|x a IH]; intros [|n]; simpl; auto.
Qed.

Lemma list_ext_nthv (a b : list value) :
  len a = len b -> (forall i, 0 <= i < len a -> nthv a i = nthv b i) -> a = b.
Proof.
  intros Hl H. apply (nth_ext a b VNil VNil); [unfold len in Hl; lia|].
  intros n Hn. specialize (H (Z.of_nat n)). unfold nthv, len in H.
  destruct (Z.of_nat n <? 0) eqn:E; [lia|]. rewrite Nat2Z.id in H. apply H. lia.
Qed.

Lemma zseq_len a n : length (zseq a n) = n.
Proof. revert a; induction n; intros a; simpl; auto. Qed.

Lemma zseq_nth_error a n i : (i < n)%nat -> nth_error (zseq a n) i = Some (a + Z.of_nat i).
Proof.
  revert a i; induction n as [|n IH]; intros a i H; [lia|].
  destruct i; simpl; [f_equal; lia|]. rewrite IH by lia. f_equal. lia.
Qed.

Lemma len_view f n : 0 <= n -> len (view f n) = n.
Proof. intros H. unfold view, len. rewrite map_length, zseq_len. lia. Qed.

Lemma nthv_view f n i :
  0 <= n -> nthv (view f n) i = if (0 <=? i) && (i <? n) then f (KInt (i + 1)) else VNil.
Proof.
  intros Hn. destruct ((0 <=? i) && (i <? n)) eqn:E.
  - rewrite nthv_nth_error by lia. unfold view. rewrite nth_error_map, zseq_nth_error by lia.
    cbn [option_map]. do 2 f_equal. lia.
  - destruct (Z_lt_le_dec i 0); [apply nthv_neg; lia|].
    apply nthv_beyond. rewrite len_view; lia.
Qed.

Lemma lnth_view f n i : 0 <= n -> 1 <= i <= n -> lnth (view f n) i = f (KInt i).
Proof.
  intros Hn Hi. unfold lnth. rewrite nthv_view by assumption.
  assert ((0 <=? i - 1) && (i - 1 <? n) = true) as -> by lia. do 2 f_equal. lia.
Qed.

(* insert *)
Lemma is_list_insert f n pos v :
  is_list f n -> 1 <= pos <= n + 1 -> v <> VNil -> is_list (f_insert f n pos v) (n + 1).
Proof.
  intros (H0 & H1 & H2) Hp Hv. unfold is_list, f_insert. split; [lia|]. split.
  - intros i Hi. destruct (i =? pos) eqn:E1; [assumption|].
    destruct ((pos <? i) && (i <=? n + 1)) eqn:E2; apply H1; lia.
  - intros i Hi. assert (i =? pos = false) as -> by lia.
    assert ((pos <? i) && (i <=? n + 1) = false) as -> by lia. apply H2. lia.
Qed.

Lemma len_insert_at pos v l : 1 <= pos <= len l + 1 -> len (insert_at pos v l) = len l + 1.
Proof.
  intros H. unfold insert_at. rewrite len_app, len_cons. unfold len in *.
  rewrite firstn_length, skipn_length. lia.
Qed.

Lemma view_insert f n pos v :
  0 <= n -> 1 <= pos <= n + 1 ->
  view (f_insert f n pos v) (n + 1) = insert_at pos v (view f n).
Proof.
  intros Hn Hp. apply list_ext_nthv.
  - rewrite len_view by lia. rewrite len_insert_at; rewrite len_view; lia.
  - intros i Hi. rewrite len_view in Hi by lia. rewrite nthv_view by lia.
    assert ((0 <=? i) && (i <? n + 1) = true) as -> by lia.
    unfold insert_at. rewrite nthv_insert by (rewrite len_view; lia).
    rewrite !nthv_view by lia. unfold f_insert.
    destruct (i + 1 =? pos) eqn:E1.
    + assert (i <? pos - 1 = false) as -> by lia. assert (i =? pos - 1 = true) as -> by lia. reflexivity.
    + destruct ((pos <? i + 1) && (i + 1 <=? n + 1)) eqn:E2.
      * assert (i <? pos - 1 = false) as -> by lia. assert (i =? pos - 1 = false) as -> by lia.
        assert ((0 <=? i - 1) && (i - 1 <? n) = true) as -> by lia. do 2 f_equal. lia.
      * assert (i <? pos - 1 = true) as -> by lia.
        assert ((0 <=? i) && (i <? n) = true) as -> by lia. reflexivity.
Qed.

(* remove *)
Lemma is_list_remove f n pos :
  is_list f n -> 1 <= pos <= n -> is_list (f_remove f n pos) (n - 1).
Proof.
  intros (H0 & H1 & H2) Hp. unfold is_list, f_remove. split; [lia|]. split.
  - intros i Hi. destruct ((pos <=? i) && (i <? n)) eqn:E1; [apply H1; lia|].
    assert (i =? n = false) as -> by lia. apply H1. lia.
  - intros i Hi. destruct ((pos <=? i) && (i <? n)) eqn:E1; [lia|].
    destruct (i =? n) eqn:E2; [reflexivity|]. apply H2. lia.
Qed.

Lemma view_remove f n pos :
  0 <= n -> 1 <= pos <= n ->
  view (f_remove f n pos) (n - 1) = remove_at pos (view f n).
Proof.
  intros Hn Hp. apply list_ext_nthv.
  - rewrite len_view by lia. unfold remove_at. rewrite len_app. pose proof (len_view f n Hn) as L.
    unfold len in *. rewrite firstn_length, skipn_length. lia.
  - intros i Hi. rewrite len_view in Hi by lia. rewrite nthv_view by lia.
    assert ((0 <=? i) && (i <? n - 1) = true) as -> by lia.
    unfold remove_at. replace (Z.to_nat pos) with (Z.to_nat (pos - 1 + 1)) by lia.
    rewrite nthv_remove by (rewrite len_view; lia).
    rewrite !nthv_view by lia. unfold f_remove.
    destruct ((pos <=? i + 1) && (i + 1 <? n)) eqn:E1.
    + assert (i <? pos - 1 = false) as -> by lia.
      assert ((0 <=? i + 1) && (i + 1 <? n) = true) as -> by lia. reflexivity.
    + assert (i + 1 =? n = false) as -> by lia.
      assert (i <? pos - 1 = true) as -> by lia.
      assert ((0 <=? i) && (i <? n) = true) as -> by lia. reflexivity.
Qed.

Section ListOps.
  Variable mai : Z.
  Notation RawGet := (RawGet mai).

  (* the table is a list and fits: then #t is its length *)
  Lemma list_len t n :
    bounded mai t -> len (arr t) + 1 < mai -> is_list (RawGet t) n -> Len t = n.
  Proof.
    intros B R (H0 & H1 & H2). rewrite Len_MaxN.
    destruct (maxn_spec_lemma mai t B) as [Hm Hle].
    rewrite <- Len_MaxN in *. rewrite Len_lastnn in *.
    destruct (lastnn_spec (arr t)) as (Rg & _ & Bd).
    assert (Hn : n <= len (arr t)).
    { destruct (Z_le_gt_dec n (len (arr t))); [assumption|]. exfalso.
      apply (H1 (len (arr t) + 1)); [lia|].
      rewrite RawGet_arr by (simpl; lia). apply nthv_beyond. lia. }
    assert (L1 : n <= lastnn (arr t)).
    { destruct (Z.eq_dec n 0); [lia|]. apply Hle; [simpl; lia|]. apply H1. lia. }
    assert (L2 : lastnn (arr t) <= n).
    { destruct Hm as [Hm|Hm]; [lia|].
      destruct (Z_le_gt_dec (lastnn (arr t)) n); [assumption|]. exfalso. apply Hm. apply H2. lia. }
    lia.
  Qed.

  Definition not_pos_int (k : key) : Prop := match k with KInt z => z <= 0 | _ => True end.

  Lemma insert_pos_refines_lemma t n pos v :
    bounded mai t -> len (arr t) + 1 < mai -> is_list (RawGet t) n ->
    1 <= pos <= n + 1 -> v <> VNil ->
    let t' := tableInsert3 mai t pos v in
    is_list (RawGet t') (n + 1) /\
    view (RawGet t') (n + 1) = insert_at pos v (view (RawGet t) n) /\
    (forall k, not_pos_int k -> RawGet t' k = RawGet t k) /\
    bounded mai t'.
  Proof.
    intros B R L Hp Hv t'. pose proof (list_len t n B R L) as Ln.
    assert (E : forall k, RawGet t' k = f_insert (RawGet t) n pos v k).
    { intros k. unfold t', tableInsert3. rewrite RawGet_Insert by assumption. rewrite Ln.
      assert ((1 <=? pos) && (pos <=? n + 1) = true) as -> by lia. reflexivity. }
    destruct L as (H0 & H1 & H2). split; [|split; [|split]].
    - pose proof (is_list_insert (RawGet t) n pos v (conj H0 (conj H1 H2)) Hp Hv) as (A0 & A1 & A2).
      split; [assumption|]. split; intros i Hi; rewrite E; auto.
    - rewrite <- view_insert by lia. unfold view. apply map_ext. intros i. apply E.
    - intros k Hk. rewrite E. unfold f_insert. destruct k; try reflexivity. simpl in Hk.
      assert (z =? pos = false) as -> by lia. assert ((pos <? z) && (z <=? n + 1) = false) as -> by lia. reflexivity.
    - now apply bounded_Insert.
  Qed.

  Lemma append_refines_lemma t n v :
    bounded mai t -> len (arr t) + 1 < mai -> is_list (RawGet t) n -> v <> VNil ->
    let t' := tableInsert2 t v in
    is_list (RawGet t') (n + 1) /\
    view (RawGet t') (n + 1) = view (RawGet t) n ++ [v] /\
    (forall k, not_pos_int k -> RawGet t' k = RawGet t k) /\
    bounded mai t'.
  Proof.
    intros B R L Hv t'. pose proof (list_len t n B R L) as Ln.
    assert (E : forall k, RawGet t' k = f_insert (RawGet t) n (n + 1) v k).
    { intros k. unfold t', tableInsert2. rewrite RawGet_Append by assumption. rewrite Ln.
      assert (is_nil v = false) as -> by (now apply is_nil_false).
      unfold f_set, f_insert. destruct k; try reflexivity. simpl.
      destruct (z =? n + 1) eqn:E1; [reflexivity|].
      assert ((n + 1 <? z) && (z <=? n + 1) = false) as -> by lia. reflexivity. }
    destruct L as (H0 & H1 & H2). split; [|split; [|split]].
    - pose proof (is_list_insert (RawGet t) n (n + 1) v (conj H0 (conj H1 H2)) ltac:(lia) Hv) as (A0 & A1 & A2).
      split; [assumption|]. split; intros i Hi; rewrite E; auto.
    - transitivity (view (f_insert (RawGet t) n (n + 1) v) (n + 1)).
      { unfold view. apply map_ext. intros i. apply E. }
      rewrite view_insert by lia. unfold insert_at.
      pose proof (len_view (RawGet t) n H0) as Lv. unfold len in Lv.
      replace (Z.to_nat (n + 1 - 1)) with (length (view (RawGet t) n)) by lia.
      rewrite firstn_all, skipn_all. reflexivity.
    - intros k Hk. rewrite E. unfold f_insert. destruct k; try reflexivity. simpl in Hk.
      assert (z =? n + 1 = false) as -> by lia. assert ((n + 1 <? z) && (z <=? n + 1) = false) as -> by lia. reflexivity.
    - now apply bounded_Append.
  Qed.

  Lemma tableRemove_in t pos :
    1 <= pos <= Len t -> tableRemove2 t pos = (Some (fst (Remove t pos)), snd (Remove t pos)).
  Proof.
    intros H. unfold tableRemove2, tableRemove. simpl optz.
    assert ((pos <? 1) || (Len t <? pos) = false) as -> by lia.
    destruct (Remove t pos); reflexivity.
  Qed.

  Lemma remove_pos_refines_lemma t n pos :
    bounded mai t -> len (arr t) + 1 < mai -> is_list (RawGet t) n -> 1 <= pos <= n ->
    let r := tableRemove2 t pos in
    fst r = Some (lnth (view (RawGet t) n) pos) /\
    is_list (RawGet (snd r)) (n - 1) /\
    view (RawGet (snd r)) (n - 1) = remove_at pos (view (RawGet t) n) /\
    (forall k, not_pos_int k -> RawGet (snd r) k = RawGet t k) /\
    bounded mai (snd r).
  Proof.
    intros B R L Hp r. pose proof (list_len t n B R L) as Ln.
    unfold r. rewrite tableRemove_in by lia. cbn [fst snd].
    destruct (RawGet_Remove mai t pos B ltac:(lia)) as [Hr Hk].
    rewrite Ln in Hr, Hk. assert (Ep : pos <=? n = true) by lia. rewrite Ep in Hr, Hk.
    destruct L as (H0 & H1 & H2). split; [|split; [|split; [|split]]].
    - rewrite Hr. f_equal. symmetry. apply lnth_view; lia.
    - pose proof (is_list_remove (RawGet t) n pos (conj H0 (conj H1 H2)) Hp) as (A0 & A1 & A2).
      split; [assumption|]. split; intros i Hi; rewrite Hk; auto.
    - rewrite <- view_remove by lia. unfold view. apply map_ext. intros i. apply Hk.
    - intros k Hn. rewrite Hk. unfold f_remove. destruct k; try reflexivity. simpl in Hn.
      assert ((pos <=? z) && (z <? n) = false) as -> by lia. assert (z =? n = false) as -> by lia. reflexivity.
    - now apply bounded_Remove.
  Qed.

  (* table.remove(t) = table.remove(t, #t) *)
  Lemma remove_default_refines_lemma t n :
    bounded mai t -> len (arr t) + 1 < mai -> is_list (RawGet t) n ->
    tableRemove1 t = tableRemove2 t n.
  Proof.
    intros B R L. unfold tableRemove1, tableRemove2, tableRemove. simpl optz.
    now rewrite (list_len t n B R L).
  Qed.

  (* a position outside 1..n (in particular any call on the empty list): no result, no change *)
  Lemma remove_outside_lemma t n opos :
    bounded mai t -> len (arr t) + 1 < mai -> is_list (RawGet t) n ->
    optz opos n < 1 \/ n < optz opos n ->
    tableRemove t opos = (None, t).
  Proof.
    intros B R L H. unfold tableRemove. rewrite (list_len t n B R L).
    assert ((optz opos n <? 1) || (n <? optz opos n) = true) as -> by lia. reflexivity.
  Qed.

  Lemma dump_arr_in a : forall i0 k v,
    In (k, v) (dump_arr a i0) ->
    exists j, 0 <= j < len a /\ k = KInt (i0 + j + 1) /\ nthv a j = v /\ v <> VNil.
  Proof.
    induction a as [|x a IH]; intros i0 k v H; simpl in H; [contradiction|].
    destruct (is_nil x) eqn:Ex.
    - destruct (IH _ _ _ H) as (j & Hj & Hk & Hv & Hn). exists (j + 1). rewrite len_cons.
      repeat split; try lia; auto. + subst k. f_equal. lia. + rewrite nthv_cons_S by lia. now replace (j + 1 - 1) with j by lia.
    - destruct H as [H|H].
      + inversion H; subst. exists 0. rewrite len_cons. pose proof (len_nonneg a).
        repeat split; try lia; auto. * f_equal. lia. * now apply is_nil_false.
      + destruct (IH _ _ _ H) as (j & Hj & Hk & Hv & Hn). exists (j + 1). rewrite len_cons.
        repeat split; try lia; auto. * subst k. f_equal. lia. * rewrite nthv_cons_S by lia. now replace (j + 1 - 1) with j by lia.
  Qed.

  Lemma fold_max_stable (l : list (key * value)) mx :
    (forall p, In p l -> num_ltb mx (fst p) = false) ->
    fold_left (fun m p => if num_ltb m (fst p) then fst p else m) l mx = mx.
  Proof.
    induction l as [|p l IH]; intros H; simpl; [reflexivity|].
    rewrite (H p) by now left. apply IH. intros q Hq. apply H. now right.
  Qed.

  (* on a list whose hash part holds no numeric key above n, getn and maxn are n *)
  Lemma getn_maxn_lemma t n :
    bounded mai t -> len (arr t) + 1 < mai -> is_list (RawGet t) n ->
    (forall k, In k (map fst (dict t)) -> num_ltb (KInt n) k = false) ->
    tableGetN t = n /\ tableMaxN t = KInt n.
  Proof.
    intros B R L Hd. pose proof (list_len t n B R L) as Ln. split; [exact Ln|].
    unfold tableMaxN. rewrite <- Len_MaxN, Ln. apply fold_max_stable.
    intros p Hp. unfold ForEach in Hp. apply in_app_or in Hp as [Hp|Hp].
    - destruct p as [k v]. apply dump_arr_in in Hp as (j & Hj & -> & Hv & Hn). simpl fst.
      rewrite Len_lastnn in Ln. destruct (lastnn_spec (arr t)) as (_ & _ & Bd).
      assert (j < n). { destruct (Z_lt_le_dec j n); [assumption|]. exfalso. apply Hn. rewrite <- Hv. apply Bd. lia. }
      unfold num_ltb. cbn. lia.
    - apply in_app_or in Hp as [Hp|Hp].
      + apply in_map_iff in Hp as (q & <- & _). reflexivity.
      + apply Hd. apply filter_In in Hp as [Hp _]. apply in_map. exact Hp.
  Qed.
End ListOps.

Lemma lnth_view_gen f n k : is_list f n -> 1 <= k -> lnth (view f n) k = f (KInt k).
Proof.
  intros (H0 & H1 & H2) Hk. destruct (Z_le_gt_dec k n).
  - apply lnth_view; lia.
  - unfold lnth. rewrite nthv_beyond by (rewrite len_view; lia). symmetry. apply H2. lia.
Qed.

Lemma all_some_length {A} (l : list (option A)) r : all_some l = Some r -> length r = length l.
Proof.
  revert r; induction l as [|[x|] l IH]; intros r H; simpl in *; try discriminate.
  - inversion H. reflexivity.
  - destruct (all_some l) eqn:E; simpl in H; [|discriminate]. inversion H; subst. simpl. f_equal. now apply IH.
Qed.

Section ListOps2.
  Variable mai : Z.
  Notation RawGet := (RawGet mai).

  Lemma unpack_refines_lemma t n oi oj :
    bounded mai t -> len (arr t) + 1 < mai -> is_list (RawGet t) n -> 1 <= optz oi 1 ->
    baseUnpack mai t oi oj = unpack_spec (view (RawGet t) n) (optz oi 1) (optz oj n).
  Proof.
    intros B R L Hi. unfold baseUnpack, unpack_spec, unpack_specf. rewrite (list_len mai t n B R L).
    apply map_ext_in. intros k Hk. rewrite RawGetInt_RawGet. symmetry. apply lnth_view_gen; [assumption|].
    assert (G : forall c a z, In z (zseq a c) -> a <= z).
    { induction c as [|c IH]; intros a z Hz; simpl in Hz; [contradiction|].
      destruct Hz as [Hz|Hz]; [lia|]. specialize (IH (a + 1) z Hz). lia. }
    apply G in Hk. lia.
  Qed.

  Lemma concat_loop_spec t n sep c : forall i,
    is_list (RawGet t) n -> 1 <= i ->
    concat_loop mai t sep i c =
    option_map (join sep) (all_some (map tostr (map (lnth (view (RawGet t) n)) (zseq i c)))).
  Proof.
    induction c as [|c IH]; intros i L Hi; [reflexivity|].
    cbn [concat_loop zseq map all_some].
    rewrite RawGetInt_RawGet. rewrite (lnth_view_gen (RawGet t) n i L Hi).
    destruct (tostr (RawGet t (KInt i))) as [s|]; [|reflexivity].
    destruct c as [|c'].
    - simpl. now rewrite app_nil_r || reflexivity.
    - rewrite IH by (auto; lia).
      destruct (all_some (map tostr (map (lnth (view (RawGet t) n)) (zseq (i + 1) (S c'))))) as [r|] eqn:E; [|reflexivity].
      pose proof (all_some_length _ _ E) as Hl. rewrite !map_length in Hl.
      destruct r as [|x r]; [simpl in Hl; discriminate|]. reflexivity.
  Qed.

  Lemma concat_refines_lemma t n sep oi oj :
    bounded mai t -> len (arr t) + 1 < mai -> is_list (RawGet t) n ->
    1 <= optz oi 1 ->
    tableConcat mai t sep oi oj = concat_spec (view (RawGet t) n) sep (optz oi 1) (optz oj n).
  Proof.
    intros B R L Hi. unfold tableConcat, concat_spec, concat_specf. rewrite (list_len mai t n B R L).
    destruct (optz oj n <? optz oi 1); [reflexivity|].
    unfold unpack_specf. apply concat_loop_spec; assumption.
  Qed.

  (* table.sort works on exactly t[1..#t] *)
  Lemma firstn_view t n :
    bounded mai t -> len (arr t) + 1 < mai -> is_list (RawGet t) n ->
    firstn (Z.to_nat (Len t)) (arr t) = view (RawGet t) n.
  Proof.
    intros B R L. pose proof (list_len mai t n B R L) as Ln. rewrite Ln.
    assert (Hn : 0 <= n <= len (arr t)).
    { rewrite <- Ln, Len_lastnn. destruct (lastnn_spec (arr t)) as (Rg & _). lia. }
    apply list_ext_nthv.
    - rewrite len_view by lia. unfold len in *. rewrite firstn_length. lia.
    - intros i Hi. assert (Hi' : 0 <= i < n) by (unfold len in *; rewrite firstn_length in Hi; lia).
      rewrite nthv_firstn, nthv_view by lia.
      assert (i <? Z.of_nat (Z.to_nat n) = true) as -> by lia.
      assert ((0 <=? i) && (i <? n) = true) as -> by lia.
      rewrite RawGet_arr by (simpl; lia). f_equal. lia.
  Qed.

  Lemma sort_range_lemma t n final :
    bounded mai t -> len (arr t) + 1 < mai -> is_list (RawGet t) n ->
    Permutation final (view (RawGet t) n) ->
    let t' := tableSort_with t final in
    is_list (RawGet t') n /\ view (RawGet t') n = final /\
    (forall k, not_pos_int k -> RawGet t' k = RawGet t k).
  Proof.
    intros B R L P t'. pose proof (list_len mai t n B R L) as Ln.
    assert (Hn : 0 <= n <= len (arr t)).
    { rewrite <- Ln, Len_lastnn. destruct (lastnn_spec (arr t)) as (Rg & _). lia. }
    assert (Lf : len final = n).
    { unfold len. rewrite (Permutation_length P). apply len_view. lia. }
    assert (Nn : forall i, 0 <= i < n -> nthv final i <> VNil).
    { intros i Hi. assert (Hin : In (nthv final i) final) by (apply nthv_in; lia).
      apply (Permutation_in _ P) in Hin. unfold view in Hin. apply in_map_iff in Hin as (z & Ez & Hz).
      rewrite <- Ez. destruct L as (_ & H1 & _). apply H1.
      clear - Hz. assert (G : forall c a, In z (zseq a c) -> a <= z < a + Z.of_nat c).
      { induction c as [|c IH]; intros a [].
        - lia.
        - specialize (IH (a + 1) H). lia. }
      apply G in Hz. lia. }
    assert (E : forall z, is_array_key mai (KInt z) = true ->
                RawGet t' (KInt z) = if z <=? n then nthv final (z - 1) else VNil).
    { intros z Ha. rewrite RawGet_arr by assumption. unfold t', tableSort_with. simpl arr. rewrite Ln. simpl in Ha.
      destruct (z <=? n) eqn:Ez.
      - rewrite nthv_app_l by lia. reflexivity.
      - rewrite nthv_app_r by lia. rewrite nthv_skipn by lia.
        rewrite <- Ln, Len_lastnn in *. apply (lastnn_spec (arr t)). lia. }
    assert (Eh : forall k, is_array_key mai k = false -> RawGet t' k = RawGet t k).
    { intros k Ha. unfold t', tableSort_with. now apply RawGet_with_arr_hash. }
    split; [|split].
    - destruct L as (H0 & H1 & H2). split; [assumption|]. split.
      + intros i Hi. rewrite E by (simpl; lia). assert (i <=? n = true) as -> by lia. apply Nn. lia.
      + intros i Hi. destruct (is_array_key mai (KInt i)) eqn:Ea.
        * rewrite E by assumption. assert (i <=? n = false) as -> by lia. reflexivity.
        * rewrite Eh by assumption. apply H2. lia.
    - apply list_ext_nthv; [rewrite len_view; lia|].
      intros i Hi. rewrite len_view in Hi by lia. rewrite nthv_view by lia.
      assert ((0 <=? i) && (i <? n) = true) as -> by lia.
      rewrite E by (simpl; lia). assert (i + 1 <=? n = true) as -> by lia. f_equal. lia.
    - intros k Hk. apply Eh. destruct k; try reflexivity. simpl in *. lia.
  Qed.
End ListOps2.

(* direct assignments that keep the table a list: t[n+1] = v, t[i] = v (1 <= i <= n), t[n] = nil *)
Section Assign.
  Variable mai : Z.
  Notation RawGet := (RawGet mai).

  Lemma view_ext f g n : (forall i, 1 <= i <= n -> f (KInt i) = g (KInt i)) -> view f n = view g n.
  Proof.
    intros H. destruct (Z_lt_le_dec n 0) as [Hn|Hn].
    - unfold view. replace (Z.to_nat n) with O by lia. reflexivity.
    - apply list_ext_nthv; [rewrite !len_view; lia|].
      intros i Hi. rewrite len_view in Hi by lia. rewrite !nthv_view by lia.
      assert ((0 <=? i) && (i <? n) = true) as -> by lia. apply H. lia.
  Qed.

  Lemma assign_refines_lemma t n i v :
    bounded mai t -> is_list (RawGet t) n ->
    let t' := RawSet mai t (KInt i) v in
    bounded mai t' /\
    (i = n + 1 -> v <> VNil ->
       is_list (RawGet t') (n + 1) /\ view (RawGet t') (n + 1) = view (RawGet t) n ++ [v]) /\
    (1 <= i <= n -> v <> VNil ->
       is_list (RawGet t') n /\ view (RawGet t') n = upd (view (RawGet t) n) (Z.to_nat (i - 1)) v) /\
    (i = n -> 1 <= n -> v = VNil ->
       is_list (RawGet t') (n - 1) /\ view (RawGet t') (n - 1) = firstn (Z.to_nat (n - 1)) (view (RawGet t) n)).
  Proof.
    intros B (H0 & H1 & H2) t'.
    assert (E : forall k, RawGet t' k = f_set (RawGet t) (KInt i) v k) by (intros k; apply RawGet_RawSet).
    assert (Ei : forall z, RawGet t' (KInt z) = if z =? i then v else RawGet t (KInt z)).
    { intros z. rewrite E. reflexivity. }
    split; [now apply bounded_RawSet|]. split; [|split].
    - intros -> Hv. split.
      + split; [lia|]. split; intros z Hz; rewrite Ei.
        * destruct (z =? n + 1) eqn:Ez; [assumption|apply H1; lia].
        * assert (z =? n + 1 = false) as -> by lia. apply H2. lia.
      + apply list_ext_nthv; [rewrite len_snoc, !len_view; lia|].
        intros j Hj. rewrite len_view in Hj by lia. rewrite nthv_view by lia.
        assert ((0 <=? j) && (j <? n + 1) = true) as -> by lia. rewrite Ei.
        destruct (j + 1 =? n + 1) eqn:Ej.
        * rewrite nthv_app_r by (rewrite len_view; lia). rewrite len_view by lia.
          replace (j - n) with 0 by lia. reflexivity.
        * rewrite nthv_app_l by (rewrite len_view; lia). rewrite nthv_view by lia.
          assert ((0 <=? j) && (j <? n) = true) as -> by lia. reflexivity.
    - intros Hi Hv. split.
      + split; [lia|]. split; intros z Hz; rewrite Ei.
        * destruct (z =? i) eqn:Ez; [assumption|apply H1; lia].
        * assert (z =? i = false) as -> by lia. apply H2. lia.
      + apply list_ext_nthv; [rewrite len_upd, !len_view; lia|].
        intros j Hj. rewrite len_view in Hj by lia. rewrite nthv_view by lia.
        assert ((0 <=? j) && (j <? n) = true) as -> by lia. rewrite Ei.
        rewrite nthv_upd by lia. rewrite len_view by lia.
        destruct (j + 1 =? i) eqn:Ej.
        * assert ((j =? i - 1) && (i - 1 <? n) = true) as -> by lia. reflexivity.
        * assert ((j =? i - 1) && (i - 1 <? n) = false) as -> by lia.
          rewrite nthv_view by lia. assert ((0 <=? j) && (j <? n) = true) as -> by lia. reflexivity.
    - intros -> Hn ->. split.
      + split; [lia|]. split; intros z Hz; rewrite Ei.
        * assert (z =? n = false) as -> by lia. apply H1. lia.
        * destruct (z =? n) eqn:Ez; [reflexivity|apply H2; lia].
      + apply list_ext_nthv.
        { rewrite len_view by lia. pose proof (len_view (RawGet t) n H0) as L. unfold len in *. rewrite firstn_length. lia. }
        intros j Hj. rewrite len_view in Hj by lia. rewrite nthv_view by lia.
        assert ((0 <=? j) && (j <? n - 1) = true) as -> by lia. rewrite Ei.
        assert (j + 1 =? n = false) as -> by lia.
        rewrite nthv_firstn. assert (j <? Z.of_nat (Z.to_nat (n - 1)) = true) as -> by lia.
        rewrite nthv_view by lia. assert ((0 <=? j) && (j <? n) = true) as -> by lia. reflexivity.
  Qed.
End Assign.
