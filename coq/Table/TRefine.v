(* Refinement: reads of the implementation model = finite-map specification, for every history;
   Len returns a border. *)
From GL Require Import Common.Bytes Common.BytesFacts Table.TImpl Table.TBasics Table.TSpec Table.TInv.
From Coq Require Import Lia ZifyBool.

Section Refine.
  Variable mai : Z.
  Notation RawGet := (RawGet mai).
  Notation is_array_key := (is_array_key mai).

  Lemma RawGet_arr t z : is_array_key (KInt z) = true -> RawGet t (KInt z) = nthv (arr t) (z - 1).
  Proof.
    intros H. unfold TImpl.RawGet. rewrite H.
    destruct (len (arr t) <=? z - 1) eqn:E; [|reflexivity].
    symmetry. apply nthv_beyond. lia.
  Qed.

  Lemma RawGet_hash_int t z : is_array_key (KInt z) = false -> RawGet t (KInt z) = oget (aget key_eqb (dict t) (KInt z)).
  Proof. intros H. unfold TImpl.RawGet. now rewrite H. Qed.

  (* ---------- stores ---------- *)
  Lemma RawGet_RawSetString t s v k' :
    RawGet (RawSetString t s v) k' = f_set (RawGet t) (KStr s) v k'.
  Proof.
    unfold f_set, RawSetString.
    assert (G : forall sd' ks' ki',
      (forall s', oget (aget beqb sd' s') = if beqb s' s then v else oget (aget beqb (strdict t) s')) ->
      RawGet (mkT (arr t) sd' (dict t) ks' ki') k' = if key_eqb k' (KStr s) then v else RawGet t k').
    { intros sd' ks' ki' H. destruct k'; simpl; try reflexivity. apply H. }
    destruct (is_nil v) eqn:Ev.
    - apply G. intros s'. destruct (beqb s' s) eqn:E.
      + apply beqb_eq in E. subst. rewrite (aget_adel_same beqb). apply is_nil_true in Ev. now subst.
      + apply beqb_neq in E. now rewrite (aget_adel_other beqb beqb_eq).
    - assert (H : forall s', oget (aget beqb (aset beqb (strdict t) s v) s') = if beqb s' s then v else oget (aget beqb (strdict t) s')).
      { intros s'. destruct (beqb s' s) eqn:E.
        + apply beqb_eq in E. subst. now rewrite (aget_aset_same beqb beqb_eq).
        + apply beqb_neq in E. now rewrite (aget_aset_other beqb beqb_eq). }
      destruct (aget key_eqb (k2i t) (KStr s)); apply G; exact H.
  Qed.

  Lemma RawGet_RawSetD t k v k' :
    is_array_key k = false -> is_str k = false ->
    RawGet (RawSetD t k v) k' = f_set (RawGet t) k v k'.
  Proof.
    intros Ha Hs. unfold f_set, RawSetD.
    assert (G : forall d' ks' ki',
      (forall x, oget (aget key_eqb d' x) = if key_eqb x k then v else oget (aget key_eqb (dict t) x)) ->
      RawGet (mkT (arr t) (strdict t) d' ks' ki') k' = if key_eqb k' k then v else RawGet t k').
    { intros d' ks' ki' H. destruct k' as [z| | |s0| |]; try (cbn [TImpl.RawGet dict]; apply H).
      - unfold TImpl.RawGet. cbn [arr dict]. destruct (TImpl.is_array_key mai (KInt z)) eqn:E.
        + destruct (key_eqb (KInt z) k) eqn:E2; [|reflexivity].
          apply key_eqb_eq in E2. subst k. congruence.
        + apply H.
      - cbn [TImpl.RawGet strdict]. destruct (key_eqb (KStr s0) k) eqn:E2; [|reflexivity].
        apply key_eqb_eq in E2. subst k. discriminate. }
    destruct (is_nil v) eqn:Ev.
    - apply G. intros x. destruct (key_eqb x k) eqn:E.
      + apply key_eqb_eq in E. subst. rewrite (aget_adel_same key_eqb). apply is_nil_true in Ev. now subst.
      + apply key_eqb_neq in E. now rewrite (aget_adel_other key_eqb key_eqb_eq).
    - assert (H : forall x, oget (aget key_eqb (aset key_eqb (dict t) k v) x) = if key_eqb x k then v else oget (aget key_eqb (dict t) x)).
      { intros x. destruct (key_eqb x k) eqn:E.
        + apply key_eqb_eq in E. subst. now rewrite (aget_aset_same key_eqb key_eqb_eq).
        + apply key_eqb_neq in E. now rewrite (aget_aset_other key_eqb key_eqb_eq). }
      destruct (aget key_eqb (k2i t) k); apply G; exact H.
  Qed.

  Lemma RawGet_RawSetH t k v k' :
    is_array_key k = false -> RawGet (RawSetH t k v) k' = f_set (RawGet t) k v k'.
  Proof.
    intros Ha. destruct k; try (apply RawGet_RawSetD; auto; reflexivity).
    apply RawGet_RawSetString.
  Qed.

  Lemma RawGet_set_arr t z v k' :
    is_array_key (KInt z) = true ->
    RawGet (mkT (set_arr (arr t) (z - 1) v) (strdict t) (dict t) (keys t) (k2i t)) k' = f_set (RawGet t) (KInt z) v k'.
  Proof.
    intros Ha. unfold f_set. destruct k'; try reflexivity.
    destruct (TImpl.is_array_key mai (KInt z0)) eqn:E.
    - rewrite !RawGet_arr by assumption. simpl arr. simpl in Ha, E.
      rewrite nthv_set_arr by lia. simpl.
      destruct (z0 - 1 =? z - 1) eqn:E1, (z0 =? z) eqn:E2; try lia; reflexivity.
    - rewrite !RawGet_hash_int by assumption. simpl.
      destruct (z0 =? z) eqn:E2; [|reflexivity].
      assert (z0 = z) by lia. subst. congruence.
  Qed.

  Lemma RawGet_RawSet t k v k' : RawGet (RawSet mai t k v) k' = f_set (RawGet t) k v k'.
  Proof.
    unfold RawSet. destruct k; try (apply RawGet_RawSetH; reflexivity).
    - destruct (TImpl.is_array_key mai (KInt z)) eqn:E.
      + now apply RawGet_set_arr.
      + now apply RawGet_RawSetH.
    - apply RawGet_RawSetString.
  Qed.

  Lemma RawGet_RawSetInt t i v k' : RawGet (RawSetInt mai t i v) k' = f_set (RawGet t) (KInt i) v k'.
  Proof.
    unfold RawSetInt. destruct ((i <? 1) || (mai <=? i)) eqn:E.
    - apply RawGet_RawSetH. simpl. lia.
    - apply RawGet_set_arr. simpl. lia.
  Qed.

  (* RawGetInt / RawGetString / RawGetH agree with RawGet on the keys they are meant for *)
  Lemma RawGetInt_RawGet t i : RawGetInt mai t i = RawGet t (KInt i).
  Proof.
    unfold RawGetInt, TImpl.RawGet, TImpl.is_array_key.
    destruct ((i <? 1) || (mai <=? i)) eqn:E.
    - assert ((0 <? i) && (i <? mai) = false) as -> by lia. reflexivity.
    - assert ((0 <? i) && (i <? mai) = true) as -> by lia. reflexivity.
  Qed.

  Lemma RawGetString_RawGet t s : RawGetString t s = RawGet t (KStr s).
  Proof. reflexivity. Qed.

  Lemma RawGetH_RawGet t k : is_array_key k = false -> RawGetH t k = RawGet t k.
  Proof.
    intros H. destruct k; try reflexivity. unfold TImpl.RawGet. now rewrite H.
  Qed.

  (* ---------- Len / MaxN ---------- *)
  Lemma len_loop_maxn l i : len_loop l i VNil = maxn_loop l i.
  Proof.
    revert i; induction l as [|v l IH]; intros i; simpl; [reflexivity|].
    destruct v; simpl; auto.
  Qed.

  Lemma Len_MaxN t : Len t = MaxN t.
  Proof. apply len_loop_maxn. Qed.

  Definition lastnn (a : list value) : Z := maxn_loop (rev a) (len a - 1).

  Lemma lastnn_snoc a x : lastnn (a ++ [x]) = if is_nil x then lastnn a else len a + 1.
  Proof.
    unfold lastnn. rewrite rev_app_distr. simpl. rewrite len_snoc.
    destruct (is_nil x); simpl.
    - f_equal. lia.
    - lia.
  Qed.

  Lemma lastnn_spec a :
    0 <= lastnn a <= len a /\
    (lastnn a = 0 \/ nthv a (lastnn a - 1) <> VNil) /\
    (forall i, lastnn a <= i -> nthv a i = VNil).
  Proof.
    induction a as [|x a IH] using rev_ind.
    - unfold lastnn, len. simpl. repeat split; try lia; auto.
      intros i _. apply nthv_nil.
    - rewrite lastnn_snoc, len_snoc. pose proof (len_nonneg a) as Hl.
      destruct IH as (R & N & B). destruct (is_nil x) eqn:Ex.
      + apply is_nil_true in Ex. subst x. repeat split; try lia.
        * destruct N as [N|N]; [left; assumption|right].
          rewrite nthv_app_l by lia. assumption.
        * intros i Hi. destruct (Z_lt_le_dec i (len a)).
          -- rewrite nthv_app_l by lia. auto.
          -- rewrite nthv_app_r by lia. destruct (Z.eq_dec i (len a)).
             ++ subst. now rewrite Z.sub_diag.
             ++ rewrite nthv_cons_S by lia. apply nthv_beyond. rewrite len_nil. lia.
      + apply is_nil_false in Ex. repeat split; try lia.
        * right. replace (len a + 1 - 1) with (len a) by lia.
          rewrite nthv_app_r by lia. now rewrite Z.sub_diag.
        * intros i Hi. apply nthv_beyond. rewrite len_snoc. lia.
  Qed.

  Lemma Len_lastnn t : Len t = lastnn (arr t).
  Proof. rewrite Len_MaxN. reflexivity. Qed.

  (* headline (3): Len returns a border (array part below MaxArrayIndex-1 cells) *)
  Lemma len_border_lemma t : bounded mai t -> len (arr t) + 1 < mai -> border (RawGet t) (Len t).
  Proof.
    intros B R. rewrite Len_lastnn. destruct (lastnn_spec (arr t)) as (Rg & N & Bd).
    unfold border. split; [lia|]. split.
    - destruct N as [N|N]; [left; assumption|right].
      assert (lastnn (arr t) <> 0) by (intros E0; apply N; rewrite E0; apply nthv_neg; lia).
      rewrite RawGet_arr by (simpl; lia). assumption.
    - rewrite RawGet_arr by (simpl; lia). apply Bd. lia.
  Qed.

  (* MaxN: the largest array-range key with a non-nil value *)
  Lemma maxn_spec_lemma t :
    bounded mai t ->
    (MaxN t = 0 \/ RawGet t (KInt (MaxN t)) <> VNil) /\
    (forall z, is_array_key (KInt z) = true -> RawGet t (KInt z) <> VNil -> z <= MaxN t).
  Proof.
    intros B. rewrite <- Len_MaxN, Len_lastnn.
    destruct (lastnn_spec (arr t)) as (Rg & N & Bd). unfold bounded in B. split.
    - destruct N as [N|N]; [left; assumption|right].
      assert (lastnn (arr t) <> 0) by (intros E0; apply N; rewrite E0; apply nthv_neg; lia).
      rewrite RawGet_arr by (simpl; lia). assumption.
    - intros z Ha Hz. rewrite RawGet_arr in Hz by assumption.
      destruct (Z_le_gt_dec z (lastnn (arr t))); [assumption|].
      exfalso. apply Hz. apply Bd. lia.
  Qed.

  (* ---------- Append / Insert / Remove on the array part ---------- *)
  Lemma last_nonnil_maxn l i : last_nonnil l i = maxn_loop l i - 1.
  Proof.
    revert i; induction l as [|v l IH]; intros i; simpl; [reflexivity|].
    destruct (negb (is_nil v)); [lia|apply IH].
  Qed.

  Lemma firstn_snoc {A} (a : list A) x : firstn (length a) (a ++ [x]) = a.
  Proof. rewrite firstn_app, Nat.sub_diag, firstn_all. simpl. apply app_nil_r. Qed.

  Definition append_arr (a : list value) (v : value) : list value :=
    if (len a =? 0) || negb (is_nil (nthv a (len a - 1))) then a ++ [v]
    else upd a (Z.to_nat (last_nonnil (rev (firstn (Z.to_nat (len a - 1)) a)) (len a - 2) + 1)) v.

  Lemma append_arr_spec a v :
    (forall j, nthv (append_arr a v) j = if j =? lastnn a then v else nthv a j) /\
    len (append_arr a v) <= len a + 1.
  Proof.
    unfold append_arr. induction a as [|x a _] using rev_ind.
    - change (len (@nil value)) with 0. simpl. split; [|unfold len; simpl; lia].
      intros j. unfold lastnn, len; simpl. rewrite nthv_nil. destruct (j =? 0) eqn:E.
      + replace j with 0 by lia. reflexivity.
      + destruct (Z_lt_le_dec j 0); [now rewrite nthv_neg by lia|].
        apply nthv_beyond. unfold len; simpl. lia.
    - pose proof (len_nonneg a) as Hl.
      assert (E0 : len (a ++ [x]) =? 0 = false) by (rewrite len_snoc; lia).
      rewrite E0. simpl orb.
      assert (Elast : nthv (a ++ [x]) (len (a ++ [x]) - 1) = x).
      { rewrite len_snoc. rewrite nthv_app_r by lia.
        replace (len a + 1 - 1 - len a) with 0 by lia. reflexivity. }
      rewrite Elast. rewrite lastnn_snoc.
      destruct (is_nil x) eqn:Ex; simpl negb; cbv iota.
      + assert (Ef : firstn (Z.to_nat (len (a ++ [x]) - 1)) (a ++ [x]) = a).
        { rewrite len_snoc. replace (Z.to_nat (len a + 1 - 1)) with (length a) by (unfold len; lia).
          apply firstn_snoc. }
        rewrite Ef. rewrite last_nonnil_maxn.
        replace (len (a ++ [x]) - 2) with (len a - 1) by (rewrite len_snoc; lia).
        fold (lastnn a). destruct (lastnn_spec a) as (Rg & _ & _).
        replace (lastnn a - 1 + 1) with (lastnn a) by lia.
        split.
        * intros j. rewrite nthv_upd by lia.
          destruct (j =? lastnn a) eqn:E; simpl; [|reflexivity].
          assert (lastnn a <? len (a ++ [x]) = true) as -> by (rewrite len_snoc; lia).
          reflexivity.
        * rewrite len_upd. lia.
      + split.
        * intros j. destruct (j =? len a + 1) eqn:E.
          -- rewrite nthv_app_r by (rewrite len_snoc; lia).
             rewrite len_snoc. replace (j - (len a + 1)) with 0 by lia. reflexivity.
          -- destruct (Z_lt_le_dec j (len (a ++ [x]))).
             ++ now rewrite nthv_app_l.
             ++ rewrite (nthv_beyond (a ++ [x])) by lia. apply nthv_beyond.
                rewrite !len_snoc in *. lia.
        * rewrite !len_snoc. lia.
  Qed.

  Lemma Append_unfold t v : is_nil v = false -> Append t v = with_arr t (append_arr (arr t) v).
  Proof.
    intros Hv. unfold Append, append_arr. rewrite Hv.
    destruct ((len (arr t) =? 0) || negb (is_nil (nthv (arr t) (len (arr t) - 1)))); reflexivity.
  Qed.

  Lemma RawGet_with_arr_hash t a k :
    is_array_key k = false -> RawGet (with_arr t a) k = RawGet t k.
  Proof. intros H. destruct k; try reflexivity. unfold TImpl.RawGet. now rewrite H. Qed.

  Lemma RawGet_Append t v k' :
    len (arr t) + 1 < mai ->
    RawGet (Append t v) k' = (if is_nil v then RawGet t k' else f_set (RawGet t) (KInt (Len t + 1)) v k').
  Proof.
    intros R. destruct (is_nil v) eqn:Hv; [unfold Append; now rewrite Hv|].
    rewrite Append_unfold by assumption. destruct (append_arr_spec (arr t) v) as [Hn Hlen].
    rewrite Len_lastnn. destruct (lastnn_spec (arr t)) as (Rg & _ & _).
    unfold f_set. destruct (TImpl.is_array_key mai k') eqn:Ea.
    - destruct k'; try discriminate. rewrite !RawGet_arr by assumption. simpl arr.
      rewrite Hn. simpl.
      destruct (z - 1 =? lastnn (arr t)) eqn:E1, (z =? lastnn (arr t) + 1) eqn:E2; try lia; reflexivity.
    - rewrite RawGet_with_arr_hash by assumption.
      destruct (key_eqb k' (KInt (Len t + 1))) eqn:E; [|rewrite <- Len_lastnn, E; reflexivity].
      apply key_eqb_eq in E. subst k'. rewrite Len_lastnn in Ea. simpl in Ea. lia.
  Qed.

  Lemma bounded_Append t v : len (arr t) + 1 < mai -> bounded mai (Append t v).
  Proof.
    intros R. unfold bounded. destruct (is_nil v) eqn:Hv; [unfold Append; rewrite Hv; lia|].
    rewrite Append_unfold by assumption. simpl. destruct (append_arr_spec (arr t) v) as [_ Hlen]. lia.
  Qed.

  (* Insert *)
  Lemma nthv_insert a j v i :
    0 <= j <= len a ->
    nthv (firstn (Z.to_nat j) a ++ v :: skipn (Z.to_nat j) a) i =
    if i <? j then nthv a i else if i =? j then v else nthv a (i - 1).
  Proof.
    intros Hj.
    assert (Lf : len (firstn (Z.to_nat j) a) = j).
    { unfold len in *. rewrite firstn_length. lia. }
    destruct (i <? j) eqn:E1.
    - rewrite nthv_app_l by lia. rewrite nthv_firstn.
      destruct (i <? Z.of_nat (Z.to_nat j)) eqn:E; [reflexivity|lia].
    - rewrite nthv_app_r by lia. rewrite Lf. destruct (i =? j) eqn:E2.
      + replace (i - j) with 0 by lia. reflexivity.
      + rewrite nthv_cons_S by lia. rewrite nthv_skipn by lia. f_equal. lia.
  Qed.

  Lemma lastnn_nil_after a i : lastnn a <= i -> nthv a i = VNil.
  Proof. intros H. now apply (lastnn_spec a). Qed.

  Lemma RawGet_Insert t i v k' :
    len (arr t) + 1 < mai ->
    RawGet (Insert mai t i v) k' =
    if (1 <=? i) && (i <=? Len t + 1) then f_insert (RawGet t) (Len t) i v k'
    else f_set (RawGet t) (KInt i) v k'.
  Proof.
    intros R. unfold Insert. rewrite Len_lastnn.
    destruct (lastnn_spec (arr t)) as (Rg & _ & Bd). pose proof (len_nonneg (arr t)) as Hl.
    destruct (len (arr t) <? i) eqn:E1.
    - (* beyond the array: RawSetInt *)
      rewrite RawGet_RawSetInt.
      destruct ((1 <=? i) && (i <=? lastnn (arr t) + 1)) eqn:E2; [|reflexivity].
      (* then i = len+1 = lastnn+1: insert at the end = set *)
      unfold f_insert, f_set. destruct k'; try reflexivity. simpl.
      destruct (z =? i) eqn:E3; [reflexivity|].
      assert ((i <? z) && (z <=? lastnn (arr t) + 1) = false) as -> by lia. reflexivity.
    - destruct (i <=? 0) eqn:E0.
      + rewrite RawGet_RawSet.
        assert ((1 <=? i) && (i <=? lastnn (arr t) + 1) = false) as -> by lia. reflexivity.
      + (* 1 <= i <= len: shift *)
        assert (Hi : 0 <= i - 1 <= len (arr t)) by lia.
        destruct (TImpl.is_array_key mai k') eqn:Ea.
        * destruct k'; try discriminate. simpl in Ea.
          rewrite RawGet_arr by (simpl; lia). simpl arr.
          rewrite nthv_insert by lia.
          destruct ((1 <=? i) && (i <=? lastnn (arr t) + 1)) eqn:E2.
          -- unfold f_insert. destruct (z =? i) eqn:E3.
             ++ assert (z - 1 <? i - 1 = false) as -> by lia.
                assert (z - 1 =? i - 1 = true) as -> by lia. reflexivity.
             ++ destruct ((i <? z) && (z <=? lastnn (arr t) + 1)) eqn:E4.
                ** assert (z - 1 <? i - 1 = false) as -> by lia.
                   assert (z - 1 =? i - 1 = false) as -> by lia.
                   rewrite RawGet_arr by (simpl; lia). reflexivity.
                ** destruct (z - 1 <? i - 1) eqn:E5.
                   --- rewrite RawGet_arr by (simpl; lia). reflexivity.
                   --- assert (z - 1 =? i - 1 = false) as -> by lia.
                       rewrite RawGet_arr by (simpl; lia).
                       rewrite !Bd by lia. reflexivity.
          -- unfold f_set. cbn [key_eqb]. destruct (z =? i) eqn:E3.
             ++ assert (z - 1 <? i - 1 = false) as -> by lia.
                assert (z - 1 =? i - 1 = true) as -> by lia. reflexivity.
             ++ rewrite RawGet_arr by (simpl; lia).
                destruct (z - 1 <? i - 1) eqn:E5; [reflexivity|].
                assert (z - 1 =? i - 1 = false) as -> by lia.
                rewrite !Bd by lia. reflexivity.
        * rewrite RawGet_with_arr_hash by assumption.
          destruct ((1 <=? i) && (i <=? lastnn (arr t) + 1)) eqn:E2.
          -- unfold f_insert. destruct k'; try reflexivity. simpl in Ea.
             destruct (z =? i) eqn:E3; [lia|].
             assert ((i <? z) && (z <=? lastnn (arr t) + 1) = false) as -> by lia. reflexivity.
          -- unfold f_set. destruct (key_eqb k' (KInt i)) eqn:E3; [|reflexivity].
             apply key_eqb_eq in E3. subst k'. simpl in Ea. lia.
  Qed.

  Lemma bounded_Insert t i v : bounded mai t -> len (arr t) + 1 < mai -> bounded mai (Insert mai t i v).
  Proof.
    intros B R. unfold Insert. destruct (len (arr t) <? i) eqn:E1; [now apply bounded_RawSetInt|].
    destruct (i <=? 0) eqn:E0; [now apply bounded_RawSet|].
    unfold bounded. simpl. pose proof (len_nonneg (arr t)).
    rewrite len_app, len_cons. unfold len in *. rewrite firstn_length, skipn_length. lia.
  Qed.

  (* Remove *)
  Lemma nthv_remove a j i :
    0 <= j < len a ->
    nthv (firstn (Z.to_nat j) a ++ skipn (Z.to_nat (j + 1)) a) i =
    if i <? j then nthv a i else nthv a (i + 1).
  Proof.
    intros Hj.
    assert (Lf : len (firstn (Z.to_nat j) a) = j).
    { unfold len in *. rewrite firstn_length. lia. }
    destruct (i <? j) eqn:E1.
    - rewrite nthv_app_l by lia. rewrite nthv_firstn.
      destruct (i <? Z.of_nat (Z.to_nat j)) eqn:E; [reflexivity|lia].
    - rewrite nthv_app_r by lia. rewrite Lf. rewrite nthv_skipn by lia. f_equal. lia.
  Qed.

  Lemma RawGet_Remove t pos :
    bounded mai t -> 1 <= pos ->
    fst (Remove t pos) = (if pos <=? Len t then RawGet t (KInt pos) else VNil) /\
    forall k', RawGet (snd (Remove t pos)) k' =
               if pos <=? Len t then f_remove (RawGet t) (Len t) pos k' else RawGet t k'.
  Proof.
    intros B Hp. unfold Remove. rewrite Len_lastnn. unfold bounded in B.
    destruct (lastnn_spec (arr t)) as (Rg & Nn & Bd). pose proof (len_nonneg (arr t)) as Hl.
    destruct (len (arr t) =? 0) eqn:E0.
    { assert (pos <=? lastnn (arr t) = false) as -> by lia. simpl. auto. }
    destruct (len (arr t) <=? pos - 1) eqn:E1.
    { assert (pos <=? lastnn (arr t) = false) as -> by lia. simpl. auto. }
    assert (Hnil : pos <=? lastnn (arr t) = true -> forall k', TImpl.is_array_key mai k' = false ->
                   f_remove (RawGet t) (lastnn (arr t)) pos k' = RawGet t k').
    { intros Ep k' Ea. unfold f_remove. destruct k'; try reflexivity. simpl in Ea.
      assert ((pos <=? z) && (z <? lastnn (arr t)) = false) as -> by lia.
      assert (z =? lastnn (arr t) = false) as -> by lia. reflexivity. }
    destruct ((pos - 1 =? len (arr t) - 1) || (pos - 1 <? 0)) eqn:E2.
    - (* pops the last cell *)
      assert (pos = len (arr t)) by lia. cbn [fst snd]. split.
      + destruct (pos <=? lastnn (arr t)) eqn:Ep.
        * rewrite RawGet_arr by (simpl; lia). f_equal. lia.
        * apply Bd. lia.
      + intros k'. destruct (TImpl.is_array_key mai k') eqn:Ea.
        * destruct k'; try discriminate. simpl in Ea.
          rewrite RawGet_arr by (simpl; lia). simpl arr. rewrite nthv_firstn.
          destruct (pos <=? lastnn (arr t)) eqn:Ep.
          -- assert (lastnn (arr t) = pos) by lia. unfold f_remove.
             assert ((pos <=? z) && (z <? lastnn (arr t)) = false) as -> by lia.
             destruct (z =? lastnn (arr t)) eqn:E3.
             ++ destruct (z - 1 <? Z.of_nat (Z.to_nat (len (arr t) - 1))) eqn:E4; [lia|reflexivity].
             ++ rewrite RawGet_arr by (simpl; lia).
                destruct (z - 1 <? Z.of_nat (Z.to_nat (len (arr t) - 1))) eqn:E4; [reflexivity|].
                symmetry. apply nthv_beyond. lia.
          -- rewrite RawGet_arr by (simpl; lia).
             destruct (z - 1 <? Z.of_nat (Z.to_nat (len (arr t) - 1))) eqn:E4; [reflexivity|].
             symmetry. apply Bd. lia.
        * rewrite RawGet_with_arr_hash by assumption.
          destruct (pos <=? lastnn (arr t)) eqn:Ep; [|reflexivity].
          symmetry. apply Hnil; auto.
    - (* shifts down *)
      assert (Hj : 0 <= pos - 1 < len (arr t)) by lia. cbn [fst snd]. split.
      + destruct (pos <=? lastnn (arr t)) eqn:Ep.
        * rewrite RawGet_arr by (simpl; lia). reflexivity.
        * apply Bd. lia.
      + intros k'. destruct (TImpl.is_array_key mai k') eqn:Ea.
        * destruct k'; try discriminate. simpl in Ea.
          rewrite RawGet_arr by (simpl; lia). simpl arr.
          replace (pos - 1 + 1) with (pos - 1 + 1) by lia.
          rewrite nthv_remove by lia.
          destruct (pos <=? lastnn (arr t)) eqn:Ep.
          -- unfold f_remove. destruct ((pos <=? z) && (z <? lastnn (arr t))) eqn:E3.
             ++ assert (z - 1 <? pos - 1 = false) as -> by lia.
                rewrite RawGet_arr by (simpl; lia). f_equal. lia.
             ++ destruct (z =? lastnn (arr t)) eqn:E4.
                ** assert (z - 1 <? pos - 1 = false) as -> by lia. apply Bd. lia.
                ** rewrite RawGet_arr by (simpl; lia).
                   destruct (z - 1 <? pos - 1) eqn:E5; [reflexivity|].
                   rewrite !Bd by lia. reflexivity.
          -- rewrite RawGet_arr by (simpl; lia).
             destruct (z - 1 <? pos - 1) eqn:E5; [reflexivity|].
             rewrite !Bd by lia. reflexivity.
        * rewrite RawGet_with_arr_hash by assumption.
          destruct (pos <=? lastnn (arr t)) eqn:Ep; [|reflexivity].
          symmetry. apply Hnil; auto.
  Qed.

  Lemma bounded_Remove t pos : bounded mai t -> bounded mai (snd (Remove t pos)).
  Proof.
    intros B. unfold Remove, bounded in *. destruct (len (arr t) =? 0); auto.
    destruct (len (arr t) <=? pos - 1); auto.
    destruct ((pos - 1 =? len (arr t) - 1) || (pos - 1 <? 0)); simpl.
    - unfold len in *. rewrite firstn_length. lia.
    - rewrite len_app. unfold len in *. rewrite firstn_length, skipn_length. lia.
  Qed.

  Lemma len_Remove t pos : len (arr (snd (Remove t pos))) <= len (arr t).
  Proof.
    unfold Remove. destruct (len (arr t) =? 0); [simpl; lia|].
    destruct (len (arr t) <=? pos - 1); [simpl; lia|].
    destruct ((pos - 1 =? len (arr t) - 1) || (pos - 1 <? 0)); simpl.
    - unfold len in *. rewrite firstn_length. lia.
    - rewrite len_app. unfold len in *. rewrite firstn_length, skipn_length. lia.
  Qed.
End Refine.
