(* M-Table, library level, re-entrancy of table.sort: the comparator handed to table.sort is Lua
   code (or an __lt metamethod), it runs on the same Lua thread as the sort and may do anything
   there, in particular call table.sort again on another list while the outer sort.Sort is still
   running.  tableSort builds a fresh lValueArraySorter{L, Fn, Values} per call, so the two runs
   share nothing but the Lua state the comparator works on.

   Model: the comparator is a state transformer over a "world" W (everything else it can see and
   change: other tables, counters, ...); sort_run_w threads the world through the Less calls.  The
   array being sorted is NOT part of the world: the sorter's slice is reachable only through the
   table being sorted, and a comparator that updates that table is outside the property (it is
   exercised on the Go side only: steps sortmut).
   No proofs in this file. *)
From GL Require Import Common.Bytes Table.TImpl Table.TSpec Table.TLib.

Section World.
  Variable W : Type.

  (* world, number of calls made so far, the two values -> new world, answer (None = raised) *)
  Definition wcmp := W -> Z -> value -> value -> W * option bool.

  Fixpoint sort_run_w (lt : wcmp) (w : W) (a : list value) (evs : list sev)
           (calls : list (value * value)) : W * (list value * list (value * value) * bool) :=
    match evs with
    | [] => (w, (a, calls, false))
    | ELess i j :: r =>
      let c := (nthv a i, nthv a j) in
      match lt w (len calls) (fst c) (snd c) with
      | (w', None) => (w', (a, calls ++ [c], true))
      | (w', Some _) => sort_run_w lt w' a r (calls ++ [c])
      end
    | ESwap i j :: r => sort_run_w lt w (swap a i j) r calls
    end.
End World.
Arguments sort_run_w {W} lt w a evs calls.

(* The comparator of an outer sort that, at each of its calls, first sorts the list held in the
   world (the sorting routine's behaviour there may differ from call to call: ievs k; the inner
   comparator is ilt) and then answers as olt; a failure of the inner comparator propagates. *)
Definition nesting_cmp (ievs : Z -> list sev) (ilt olt : Z -> value -> value -> option bool)
  : wcmp (list value) :=
  fun w k x y =>
    match sort_run ilt w (ievs k) [] with
    | (w', _, raised) => (w', if raised then None else olt k x y)
    end.

(* ---- elements ordered through an __lt metamethod (table.sort(t) without a comparator on objects
   that share one metatable whose __lt orders them by identity number, ascending or descending);
   vm.go lessThan: numbers and strings never reach a metamethod ---- *)
Definition meta_lt (desc : bool) (a b : value) : option bool :=
  match a, b with
  | VObj x, VObj y => Some (if desc then y <? x else x <? y)
  | _, _ => lua_lt a b
  end.

Definition all_objs (l : list value) : bool :=
  forallb (fun v => match v with VObj _ => true | _ => false end) l.
