(* The representation invariant of LTable and its preservation by every operation. *)
From GL Require Import Common.Bytes Common.BytesFacts Table.TImpl Table.TBasics.
From Coq Require Import Lia ZifyBool.

Definition is_str (k : key) : bool := match k with KStr _ => true | _ => false end.

Section Inv.
  Variable mai : Z.

  (* The invariant speaks only about the hash side (strdict, dict, keys, k2i): the array part
     has no internal consistency condition beyond its size, which is [bounded] below. *)
  Record TInv (t : tbl) : Prop := mkInv {
    inv_dict_hash : forall k, In k (map fst (dict t)) -> is_array_key mai k = false /\ is_str k = false;
    inv_sd_keys : forall s, In s (map fst (strdict t)) -> In (KStr s) (keys t);
    inv_d_keys : forall k, In k (map fst (dict t)) -> In k (keys t);
    inv_keys_hash : forall k, In k (keys t) -> is_array_key mai k = false;
    inv_k2i : forall k i, aget key_eqb (k2i t) k = Some i <->
                          (0 <= i /\ nth_error (keys t) (Z.to_nat i) = Some k)
  }.

  (* the array part never reaches MaxArrayIndex cells: every cell is addressed by an array key *)
  Definition bounded (t : tbl) : Prop := len (arr t) < Z.max 1 mai.

  Definition WF (t : tbl) : Prop := TInv t /\ bounded t.

  Lemma TInv_empty : TInv empty.
  Proof.
    constructor; simpl; try contradiction.
    intros k i. split; [discriminate|]. intros [_ H]. destruct (Z.to_nat i); discriminate.
  Qed.

  Lemma WF_empty : WF empty.
  Proof. split; [apply TInv_empty|]. unfold bounded; simpl. rewrite len_nil. lia. Qed.

  Lemma TInv_same_hash t t' :
    strdict t' = strdict t -> dict t' = dict t -> keys t' = keys t -> k2i t' = k2i t ->
    TInv t -> TInv t'.
  Proof. intros E1 E2 E3 E4 [A B C KH D]. constructor; rewrite ?E1, ?E2, ?E3, ?E4; auto. Qed.

  Lemma TInv_with_arr t a : TInv t -> TInv (with_arr t a).
  Proof. apply TInv_same_hash; reflexivity. Qed.

  Lemma keys_nodup t : TInv t -> NoDup (keys t).
  Proof.
    intros I. apply NoDup_nth_error. intros i j Hi E.
    destruct (nth_error (keys t) i) as [k|] eqn:Ei; [|apply nth_error_None in Ei; lia].
    symmetry in E.
    assert (A : aget key_eqb (k2i t) k = Some (Z.of_nat i)).
    { apply (inv_k2i t I). split; [lia|]. now rewrite Nat2Z.id. }
    assert (B : aget key_eqb (k2i t) k = Some (Z.of_nat j)).
    { apply (inv_k2i t I). split; [lia|]. now rewrite Nat2Z.id. }
    rewrite A in B. inversion B. lia.
  Qed.

  Lemma k2i_in_keys t k i : TInv t -> aget key_eqb (k2i t) k = Some i -> In k (keys t).
  Proof. intros I H. apply (inv_k2i t I) in H as [_ H]. eapply nth_error_In; eauto. Qed.

  Lemma k2i_none_notin t k : TInv t -> aget key_eqb (k2i t) k = None -> ~ In k (keys t).
  Proof.
    intros I H Hin. apply In_nth_error in Hin as [n Hn].
    assert (aget key_eqb (k2i t) k = Some (Z.of_nat n)).
    { apply (inv_k2i t I). split; [lia|]. now rewrite Nat2Z.id. }
    congruence.
  Qed.

  Lemma k2i_extend (ks : list key) (m : list (key * Z)) k :
    (forall k' i, aget key_eqb m k' = Some i <-> (0 <= i /\ nth_error ks (Z.to_nat i) = Some k')) ->
    aget key_eqb m k = None ->
    forall k' i, aget key_eqb (aset key_eqb m k (len ks)) k' = Some i <->
                 (0 <= i /\ nth_error (ks ++ [k]) (Z.to_nat i) = Some k').
  Proof.
    intros H N k' i. destruct (key_eq_dec k' k) as [->|Ne].
    - rewrite (aget_aset_same key_eqb key_eqb_eq). split.
      + intros E. inversion E; subst. split; [apply len_nonneg|].
        unfold len. rewrite Nat2Z.id, nth_error_app2, Nat.sub_diag by lia. reflexivity.
      + intros [H0 H1]. destruct (Nat.lt_ge_cases (Z.to_nat i) (length ks)) as [L|L].
        * rewrite nth_error_app1 in H1 by assumption.
          assert (aget key_eqb m k = Some i) by (apply H; auto). congruence.
        * rewrite nth_error_app2 in H1 by assumption.
          destruct (Z.to_nat i - length ks)%nat eqn:E; [|destruct n; discriminate].
          f_equal. unfold len. lia.
    - rewrite (aget_aset_other key_eqb key_eqb_eq) by assumption. rewrite H.
      split; intros [H0 H1]; split; auto.
      + rewrite nth_error_app1; auto. apply nth_error_Some. congruence.
      + destruct (Nat.lt_ge_cases (Z.to_nat i) (length ks)) as [L|L].
        * now rewrite nth_error_app1 in H1.
        * rewrite nth_error_app2 in H1 by assumption.
          destruct (Z.to_nat i - length ks)%nat; [inversion H1; congruence|destruct n; discriminate].
  Qed.

  Lemma TInv_RawSetString t s v : TInv t -> TInv (RawSetString t s v).
  Proof.
    intros I. destruct I as [A B C KH D]. unfold RawSetString.
    destruct (is_nil v).
    - constructor; simpl; auto.
      intros s' H. apply B. eapply in_keys_adel; eauto.
    - destruct (aget key_eqb (k2i t) (KStr s)) as [i|] eqn:E.
      + constructor; simpl; auto.
        intros s' H. apply (in_keys_aset beqb beqb_eq) in H as [->|H]; auto.
        apply D in E as [_ E]. eapply nth_error_In; eauto.
      + constructor; simpl; auto.
        * intros s' H0. apply in_or_app. apply (in_keys_aset beqb beqb_eq) in H0 as [->|H0]; [right; now left|left; auto].
        * intros k H0. apply in_or_app. left; auto.
        * intros k H0. apply in_app_or in H0 as [H0|[<-|[]]]; auto.
        * apply k2i_extend; auto.
  Qed.

  Lemma TInv_RawSetD t k v :
    is_array_key mai k = false -> is_str k = false -> TInv t -> TInv (RawSetD t k v).
  Proof.
    intros Hk Hs I. destruct I as [A B C KH D]. unfold RawSetD.
    destruct (is_nil v).
    - constructor; simpl; auto.
      + intros k' H. apply A. eapply in_keys_adel; eauto.
      + intros k' H. apply C. eapply in_keys_adel; eauto.
    - destruct (aget key_eqb (k2i t) k) as [i|] eqn:E.
      + constructor; simpl; auto.
        * intros k' H. apply (in_keys_aset key_eqb key_eqb_eq) in H as [->|H]; auto.
        * intros k' H. apply (in_keys_aset key_eqb key_eqb_eq) in H as [->|H]; auto.
          apply D in E as [_ E]. eapply nth_error_In; eauto.
      + constructor; simpl; auto.
        * intros k' H. apply (in_keys_aset key_eqb key_eqb_eq) in H as [->|H]; auto.
        * intros s' H. apply in_or_app. left; auto.
        * intros k' H0. apply in_or_app. apply (in_keys_aset key_eqb key_eqb_eq) in H0 as [->|H0]; [right; now left|left; auto].
        * intros k' H0. apply in_app_or in H0 as [H0|[<-|[]]]; auto.
        * apply k2i_extend; auto.
  Qed.

  Lemma TInv_RawSetH t k v : is_array_key mai k = false -> TInv t -> TInv (RawSetH t k v).
  Proof.
    intros Hk I. destruct k; try (apply TInv_RawSetD; auto; reflexivity).
    apply TInv_RawSetString; assumption.
  Qed.

  Lemma TInv_RawSet t k v : TInv t -> TInv (RawSet mai t k v).
  Proof.
    intros I. unfold RawSet. destruct k; try (apply TInv_RawSetH; auto; reflexivity).
    - destruct (is_array_key mai (KInt z)) eqn:E.
      + apply (TInv_same_hash t); auto.
      + apply TInv_RawSetH; auto.
    - apply TInv_RawSetString; auto.
  Qed.

  Lemma TInv_RawSetInt t i v : TInv t -> TInv (RawSetInt mai t i v).
  Proof.
    intros I. unfold RawSetInt. destruct ((i <? 1) || (mai <=? i)) eqn:E.
    - apply TInv_RawSetH; auto. simpl. lia.
    - apply (TInv_same_hash t); auto.
  Qed.

  Lemma TInv_Append t v : TInv t -> TInv (Append t v).
  Proof.
    intros I. unfold Append. destruct (is_nil v); auto.
    destruct ((len (arr t) =? 0) || negb (is_nil (nthv (arr t) (len (arr t) - 1)))); apply TInv_with_arr; auto.
  Qed.

  Lemma TInv_Insert t i v : TInv t -> TInv (Insert mai t i v).
  Proof.
    intros I. unfold Insert. destruct (len (arr t) <? i); [apply TInv_RawSetInt; auto|].
    destruct (i <=? 0); [apply TInv_RawSet; auto|]. apply TInv_with_arr; auto.
  Qed.

  Lemma TInv_Remove t pos : TInv t -> TInv (snd (Remove t pos)).
  Proof.
    intros I. unfold Remove. destruct (len (arr t) =? 0); auto.
    destruct (len (arr t) <=? pos - 1); auto.
    destruct ((pos - 1 =? len (arr t) - 1) || (pos - 1 <? 0)); simpl; apply TInv_with_arr; auto.
  Qed.

  Lemma TInv_apply t o : op_ok mai o = true -> TInv t -> TInv (apply mai t o).
  Proof.
    intros Hok I. destruct o; simpl in *.
    - apply TInv_RawSet; auto.
    - apply TInv_RawSetInt; auto.
    - apply TInv_RawSetString; auto.
    - apply TInv_RawSetH; auto. destruct (is_array_key mai k); [discriminate|reflexivity].
    - apply TInv_Append; auto.
    - apply TInv_Insert; auto.
    - apply TInv_Remove; auto.
  Qed.

  Lemma TInv_run_from t h : forallb (op_ok mai) h = true -> TInv t -> TInv (run_from mai t h).
  Proof.
    revert t. induction h as [|o h IH]; intros t Hok I; simpl in *; auto.
    apply andb_true_iff in Hok as [H1 H2]. apply IH; auto. apply TInv_apply; auto.
  Qed.

  (* headline (1): the invariant holds after every history from the empty table *)
  Lemma inv_reachable_lemma h : forallb (op_ok mai) h = true -> TInv (run mai h).
  Proof. intros H. apply TInv_run_from; auto. apply TInv_empty. Qed.

  (* ---- size of the array part ---- *)
  Lemma bounded_same_arr t t' : arr t' = arr t -> bounded t -> bounded t'.
  Proof. unfold bounded. now intros ->. Qed.

  Lemma arr_RawSetString t s v : arr (RawSetString t s v) = arr t.
  Proof.
    unfold RawSetString. destruct (is_nil v); [reflexivity|].
    destruct (aget key_eqb (k2i t) (KStr s)); reflexivity.
  Qed.

  Lemma arr_RawSetD t k v : arr (RawSetD t k v) = arr t.
  Proof.
    unfold RawSetD. destruct (is_nil v); [reflexivity|].
    destruct (aget key_eqb (k2i t) k); reflexivity.
  Qed.

  Lemma arr_RawSetH t k v : arr (RawSetH t k v) = arr t.
  Proof. destruct k; try apply arr_RawSetD. apply arr_RawSetString. Qed.

  Lemma bounded_RawSet t k v : bounded t -> bounded (RawSet mai t k v).
  Proof.
    intros B. unfold RawSet. destruct k; try (eapply bounded_same_arr; [apply arr_RawSetH|auto]).
    - destruct (is_array_key mai (KInt z)) eqn:E.
      + unfold bounded in *. simpl in *. pose proof (len_set_arr (arr t) (z - 1) v ltac:(lia)). lia.
      + eapply bounded_same_arr; [apply arr_RawSetH|auto].
    - eapply bounded_same_arr; [apply arr_RawSetString|auto].
  Qed.

  Lemma bounded_RawSetInt t i v : bounded t -> bounded (RawSetInt mai t i v).
  Proof.
    intros B. unfold RawSetInt. destruct ((i <? 1) || (mai <=? i)) eqn:E.
    - eapply bounded_same_arr; [apply arr_RawSetH|auto].
    - unfold bounded in *. simpl. pose proof (len_set_arr (arr t) (i - 1) v ltac:(lia)). lia.
  Qed.
End Inv.
