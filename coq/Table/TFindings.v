(* Witnesses of the open known finding C09-2 (MaxArrayIndex boundary), evaluated on the model
   with MaxArrayIndex = 4 (the harness reproduces them on the Go code with lua.MaxArrayIndex = 4;
   with the default 67108864 the first one needs 2^26 stores). *)
From GL Require Import Common.Bytes Table.TImpl Table.TBasics Table.TSpec Table.TInv Table.TRefine Table.TGet.
From Coq Require Import Lia.

Definition h_fill4 : list op := [ORawSetInt 1 (VNum 1); ORawSetInt 2 (VNum 2); ORawSetInt 3 (VNum 3); ORawSetInt 4 (VNum 4)].

(* the array part holds MaxArrayIndex-1 cells, t[MaxArrayIndex] lives in the hash part:
   the table is well-formed, yet Len = 3 is not a border because t[4] ~= nil *)
Lemma len_border_at_limit_refuted_lemma :
  exists mai h, ok_from mai empty h /\ WF mai (run mai h) /\ ~ border (RawGet mai (run mai h)) (Len (run mai h)).
Proof.
  exists 4, h_fill4.
  assert (Hok : ok_from 4 empty h_fill4) by (simpl; repeat split; discriminate).
  split; [exact Hok|]. split; [apply WF_run; exact Hok|].
  intros (_ & _ & H). vm_compute in H. discriminate.
Qed.

Definition h_app4 : list op := [OAppend (VNum 1); OAppend (VNum 2); OAppend (VNum 3); OAppend (VNum 4)].

(* Append past MaxArrayIndex-1 cells: the value is stored in an array cell no read reaches *)
Lemma append_at_limit_refuted_lemma :
  exists mai h k, forallb (op_ok mai) h = true /\ RawGet mai (run mai h) k <> sget (srun mai h) k.
Proof.
  exists 4, h_app4, (KInt 4). split; [reflexivity|]. vm_compute. discriminate.
Qed.
