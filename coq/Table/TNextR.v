(* Traversal while the table is also shrunk by table.remove between the Next calls
   (table.remove only assigns existing fields: t[i] = t[i+1], t[n] = nil; in LTable it shortens
   the array part, so the enumeration order is taken over the ORIGINAL number of array cells). *)
From GL Require Import Common.Bytes Common.BytesFacts Table.TImpl Table.TBasics Table.TSpec Table.TInv Table.TRefine Table.TNext Table.TLib.
From Coq Require Import Lia ZifyBool.

Section NextR.
  Variable mai : Z.
  Hypothesis mai_pos : 1 <= mai.
  Notation RawGet := (RawGet mai).
  Notation present := (present mai).

  Definition slotsN (N : nat) (t : tbl) : list key := akeys N ++ keys t.
  Definition cposN (N : nat) (t : tbl) (cur : option key) : nat :=
    match cur with None => O | Some k => S (idx key_eqb k (slotsN N t)) end.
  Definition cur_okN (N : nat) (t : tbl) (cur : option key) : Prop :=
    match cur with None => True | Some k => In k (slotsN N t) end.

  (* t fits the reference: no more array cells than N, N below MaxArrayIndex *)
  Definition fitsN (N : nat) (t : tbl) : Prop :=
    WF mai t /\ (length (arr t) <= N)%nat /\ Z.of_nat N < mai.

  Lemma firstp_absent_prefix {A} (P : A -> bool) (l1 l2 : list A) :
    (forall x, In x l1 -> P x = false) -> firstp P (l1 ++ l2) = firstp P l2.
  Proof.
    induction l1 as [|x l1 IH]; intros H; simpl; [reflexivity|].
    rewrite (H x) by now left. apply IH. intros y Hy. apply H. now right.
  Qed.

  Lemma firstp_app {A} (P : A -> bool) (l1 l2 : list A) :
    firstp P (l1 ++ l2) = match firstp P l1 with Some x => Some x | None => firstp P l2 end.
  Proof. induction l1 as [|x l1 IH]; simpl; [reflexivity|]. destruct (P x); auto. Qed.

  Lemma zseq_app a n k : zseq a (n + k) = zseq a n ++ zseq (a + Z.of_nat n) k.
  Proof.
    revert a; induction n as [|n IH]; intros a.
    - simpl. now rewrite Z.add_0_r.
    - cbn [plus zseq app]. rewrite IH. f_equal. f_equal. f_equal. lia.
  Qed.

  Lemma akeys_split (n m : nat) : (n <= m)%nat -> akeys m = akeys n ++ map KInt (zseq (Z.of_nat n + 1) (m - n)).
  Proof.
    intros H. unfold akeys. rewrite <- map_app. f_equal.
    replace m with (n + (m - n))%nat at 1 by lia. rewrite zseq_app. do 2 f_equal. lia.
  Qed.

  Lemma beyond_absent t n m x :
    bounded mai t -> (length (arr t) <= n)%nat -> Z.of_nat (n + m) < mai ->
    In x (map KInt (zseq (Z.of_nat n + 1) m)) -> present t x = false.
  Proof.
    intros B Hn Hm Hx. apply in_map_iff in Hx as (z & <- & Hz). apply zseq_in in Hz.
    unfold TNext.present. rewrite RawGet_arr by (simpl; lia).
    rewrite nthv_beyond by (unfold len; lia). reflexivity.
  Qed.

  Lemma slotsN_nodup N t : fitsN N t -> NoDup (slotsN N t).
  Proof.
    intros ((I & B) & Hl & HN). unfold slotsN. apply nodup_app.
    - apply akeys_nodup.
    - apply (keys_nodup mai); assumption.
    - intros k H1 H2. apply akeys_in in H1 as (z & -> & Hz).
      pose proof (inv_keys_hash mai t I _ H2) as Ha. simpl in Ha. lia.
  Qed.

  (* the hand-over to the hash part *)
  Lemma hash_start t :
    WF mai t ->
    (if is_empty (dict t) && is_empty (strdict t) then NEnd
     else match keys t with
          | [] => NPanic
          | k0 :: _ => let v := RawGetH t k0 in if is_nil v then next_keys t k0 else NKV k0 v
          end) = next_of mai t (firstp (present t) (keys t)).
  Proof.
    intros W. pose proof (next_array_phase mai mai_pos t (len (arr t)) W) as H.
    pose proof (len_nonneg (arr t)) as Hl. specialize (H ltac:(lia)).
    unfold len in H at 1 2. rewrite Nat2Z.id, skipn_all in H. cbn [scan_from] in H.
    cbv zeta in H. cbv zeta. rewrite H. f_equal. f_equal.
    replace (Z.to_nat (len (arr t))) with (length (arr t)) by (unfold len; lia).
    unfold slots. rewrite skipn_app, akeys_length, Nat.sub_diag.
    rewrite skipn_all2 by (rewrite akeys_length; lia). reflexivity.
  Qed.

  Lemma Next_firstpN N t cur :
    fitsN N t -> cur_okN N t cur ->
    Next mai t cur = next_of mai t (firstp (present t) (skipn (cposN N t cur) (slotsN N t))).
  Proof.
    intros F Hc. pose proof F as (W & Hl & HN). pose proof W as [I B].
    pose proof (slotsN_nodup N t F) as Nd.
    assert (Esplit : slotsN N t = akeys (length (arr t)) ++ map KInt (zseq (Z.of_nat (length (arr t)) + 1) (N - length (arr t))) ++ keys t).
    { unfold slotsN. rewrite (akeys_split (length (arr t)) N Hl). now rewrite <- app_assoc. }
    assert (Habs : forall x, In x (map KInt (zseq (Z.of_nat (length (arr t)) + 1) (N - length (arr t)))) -> present t x = false).
    { intros x Hx. eapply (beyond_absent t (length (arr t)) (N - length (arr t))); eauto. lia. }
    destruct cur as [k|].
    - simpl in Hc. unfold slotsN in Hc. apply in_app_or in Hc as [Hc|Hc].
      + apply akeys_in in Hc as (z & -> & Hz).
        assert (Ei : idx key_eqb (KInt z) (slotsN N t) = Z.to_nat (z - 1)).
        { apply (idx_nth key_eqb key_eqb_eq); [assumption|]. unfold slotsN.
          rewrite nth_error_app1 by (rewrite akeys_length; lia). rewrite akeys_nth by lia. do 2 f_equal. lia. }
        unfold cposN. rewrite Ei. replace (S (Z.to_nat (z - 1))) with (Z.to_nat z) by lia.
        destruct (Z_le_gt_dec z (len (arr t))) as [Hle|Hgt].
        * (* the cursor is still inside the array part *)
          assert (Hco : cur_ok t (Some (KInt z))).
          { simpl. unfold slots. apply in_or_app. left. apply akeys_in. exists z. split; [reflexivity|unfold len in Hle; lia]. }
          rewrite (Next_firstp mai mai_pos t (Some (KInt z)) W Hco). f_equal.
          unfold cpos. rewrite (idx_akey mai mai_pos t z W) by lia.
          replace (S (Z.to_nat (z - 1))) with (Z.to_nat z) by lia.
          rewrite Esplit. unfold slots.
          rewrite !skipn_app, akeys_length.
          replace (Z.to_nat z - length (arr t))%nat with O by (unfold len in Hle; lia). cbn [skipn].
          set (A := skipn (Z.to_nat z) (akeys (length (arr t)))).
          rewrite (firstp_app (present t) A (keys t)), (firstp_app (present t) A (_ ++ keys t)).
          rewrite (firstp_absent_prefix (present t) _ (keys t) Habs). reflexivity.
        * (* the array part shrank below the cursor: hand-over to the hash part *)
          unfold Next. cbn [key_eqb orb].
          assert (z =? 0 = false) as -> by lia. cbn [negb].
          assert ((0 <=? z) && (z <? mai) = true) as -> by lia.
          assert (z <=? len (arr t) = false) as -> by lia.
          cbv beta iota. etransitivity; [exact (hash_start t W)|]. f_equal.
          unfold slotsN. rewrite skipn_app, akeys_length.
          replace (Z.to_nat z - N)%nat with O by lia. cbn [skipn].
          unfold akeys. rewrite skipn_map, zseq_skipn.
          replace (1 + Z.of_nat (Z.to_nat z)) with (Z.of_nat (Z.to_nat z) + 1) by lia.
          symmetry. apply firstp_absent_prefix.
          intros x Hx. apply (beyond_absent t (Z.to_nat z) (N - Z.to_nat z)); auto; unfold len in Hgt; lia.
      + (* hash-key cursor *)
        apply In_nth_error in Hc as [i Hi].
        assert (Ei : idx key_eqb k (slotsN N t) = (N + i)%nat).
        { apply (idx_nth key_eqb key_eqb_eq); [assumption|]. unfold slotsN.
          rewrite nth_error_app2 by (rewrite akeys_length; lia). rewrite akeys_length.
          replace (N + i - N)%nat with i by lia. assumption. }
        assert (Hco : cur_ok t (Some k)).
        { simpl. unfold slots. apply in_or_app. right. eapply nth_error_In; eauto. }
        rewrite (Next_firstp mai mai_pos t (Some k) W Hco). f_equal.
        unfold cpos, cposN. rewrite Ei, (idx_hkey mai mai_pos t k i W Hi).
        replace (S (length (arr t) + i)) with (length (arr t) + S i)%nat by lia.
        rewrite skipn_slots_keys. unfold slotsN. rewrite skipn_app, akeys_length.
        rewrite (skipn_all2 (akeys N)) by (rewrite akeys_length; lia). cbn [app]. do 2 f_equal. lia.
    - (* from nil *)
      rewrite (Next_firstp mai mai_pos t None W Logic.I). f_equal.
      cbn [cpos cposN skipn]. rewrite Esplit. unfold slots.
      set (A := akeys (length (arr t))).
      rewrite (firstp_app (present t) A (keys t)), (firstp_app (present t) A (_ ++ keys t)).
      rewrite (firstp_absent_prefix (present t) _ (keys t) Habs). reflexivity.
  Qed.

  (* what may happen between two Next calls *)
  Inductive upd_ext : tbl -> tbl -> Prop :=
  | ux_refl t : upd_ext t t
  | ux_set t k v t' : RawGet t k <> VNil -> upd_ext (RawSet mai t k v) t' -> upd_ext t t'
  | ux_remove t pos t' : upd_ext (snd (tableRemove t (Some pos))) t' -> upd_ext t t'.

  Lemma RawSet_existing_shape t k v :
    WF mai t -> RawGet t k <> VNil ->
    length (arr (RawSet mai t k v)) = length (arr t) /\ keys (RawSet mai t k v) = keys t.
  Proof.
    intros W H.
    assert (Pk : present t k = true) by (unfold TNext.present; now apply negb_true_iff, is_nil_false).
    pose proof (present_in_slots mai t k W Pk) as Hin. destruct W as [I B].
    unfold slots in Hin.
    destruct (is_array_key mai k) eqn:Ea.
    - destruct k; try discriminate. unfold RawSet. rewrite Ea. simpl arr. simpl keys.
      rewrite RawGet_arr in H by assumption. simpl in Ea. split; [|reflexivity].
      apply set_arr_same_length.
      destruct (Z_lt_le_dec (z - 1) (len (arr t))); [lia|].
      exfalso. apply H. apply nthv_beyond. lia.
    - assert (Hk : In k (keys t)).
      { apply in_app_or in Hin as [Hin|Hin]; [|assumption].
        rewrite (akeys_array mai mai_pos t k B Hin) in Ea. discriminate. }
      assert (E : RawSet mai t k v = RawSetH t k v).
      { unfold RawSet. destruct k; try reflexivity. now rewrite Ea. }
      rewrite E. rewrite arr_RawSetH. split; [reflexivity|].
      destruct k; unfold RawSetH;
        first [apply (keys_RawSetD_present mai); assumption | apply (keys_RawSetString_present mai); assumption].
  Qed.

  Lemma tableRemove_shape t opos :
    WF mai t ->
    WF mai (snd (tableRemove t opos)) /\
    (length (arr (snd (tableRemove t opos))) <= length (arr t))%nat /\
    keys (snd (tableRemove t opos)) = keys t.
  Proof.
    intros [I B]. unfold tableRemove.
    destruct ((optz opos (Len t) <? 1) || (Len t <? optz opos (Len t))); [simpl; split; [split; assumption|split; [lia|reflexivity]]|].
    destruct (Remove t (optz opos (Len t))) as [v t'] eqn:E. simpl.
    assert (Et : t' = snd (Remove t (optz opos (Len t)))) by now rewrite E. subst t'.
    split; [split; [now apply TInv_Remove|now apply bounded_Remove]|]. split.
    - pose proof (len_Remove t (optz opos (Len t))) as L. unfold len in L. lia.
    - unfold Remove. destruct (len (arr t) =? 0); [reflexivity|].
      destruct (len (arr t) <=? optz opos (Len t) - 1); [reflexivity|].
      destruct ((optz opos (Len t) - 1 =? len (arr t) - 1) || (optz opos (Len t) - 1 <? 0)); reflexivity.
  Qed.

  Lemma upd_ext_fits N t t' :
    fitsN N t -> upd_ext t t' -> fitsN N t' /\ keys t' = keys t.
  Proof.
    intros F U. induction U as [t|t k v t' H U IH|t pos t' U IH]; [auto| |].
    - destruct F as (W & Hl & HN).
      destruct (RawSet_existing_shape t k v W H) as [E1 E2].
      assert (F' : fitsN N (RawSet mai t k v)).
      { split; [|split; [lia|assumption]]. destruct W as [I B]. split; [now apply TInv_RawSet|now apply bounded_RawSet]. }
      destruct (IH F') as [F'' E]. split; [assumption|congruence].
    - destruct F as (W & Hl & HN).
      destruct (tableRemove_shape t (Some pos) W) as (W' & L' & K').
      assert (F' : fitsN N (snd (tableRemove t (Some pos)))) by (split; [assumption|split; [lia|assumption]]).
      destruct (IH F') as [F'' E]. split; [assumption|congruence].
  Qed.

  Inductive travx (fin : bool) : tbl -> option key -> list (key * value * tbl) -> Prop :=
  | tx_nil t cur : (fin = true -> Next mai t cur = NEnd) -> travx fin t cur []
  | tx_cons t cur k v t' rest :
      Next mai t cur = NKV k v -> upd_ext t t' -> travx fin t' (Some k) rest ->
      travx fin t cur ((k, v, t') :: rest).

  Lemma travx_atrav N fin t cur tr :
    fitsN N t -> cur_okN N t cur -> travx fin t cur tr ->
    atrav key_eqb (slotsN N t) fin (present t) (cposN N t cur) (map (fun e => (tkey e, present (snd e))) tr).
  Proof.
    intros F Hc T. induction T as [t cur Hn | t cur k v t' rest Hn U T IH].
    - simpl. apply at_nil. intros Hf. specialize (Hn Hf).
      rewrite (Next_firstpN N t cur F Hc) in Hn.
      destruct (firstp (present t) (skipn (cposN N t cur) (slotsN N t))); [discriminate|reflexivity].
    - rewrite (Next_firstpN N t cur F Hc) in Hn.
      destruct (firstp (present t) (skipn (cposN N t cur) (slotsN N t))) as [k'|] eqn:Ef; [|discriminate].
      simpl in Hn. inversion Hn; subst k' v.
      destruct (firstp_some _ _ _ _ Ef) as (j & _ & Hnth & _ & _).
      assert (Hin : In k (slotsN N t)) by (eapply nth_error_In; eauto).
      destruct (upd_ext_fits N t t' F U) as [F' E].
      assert (Es : slotsN N t' = slotsN N t) by (unfold slotsN; now rewrite E).
      simpl. apply at_cons; [exact Ef|].
      assert (Hc' : cur_okN N t' (Some k)) by (simpl; rewrite Es; exact Hin).
      specialize (IH F' Hc'). rewrite Es in IH. unfold cposN in IH. rewrite Es in IH. exact IH.
  Qed.

  (* headline (5'), stronger than next_under_update: between the Next calls existing fields may be
     cleared or overwritten AND elements may be removed with table.remove *)
  Lemma next_under_remove_lemma fin t0 tr :
    WF mai t0 -> len (arr t0) < mai -> travx fin t0 None tr ->
    NoDup (map tkey tr) /\
    (length tr <= length (arr t0) + length (keys t0))%nat /\
    (forall e, In e tr -> snd (fst e) <> VNil) /\
    (fin = true ->
     forall k, RawGet t0 k <> VNil -> (forall e, In e tr -> RawGet (snd e) k <> VNil) ->
               In k (map tkey tr)).
  Proof.
    intros W Hb T. set (N := length (arr t0)).
    assert (F : fitsN N t0) by (split; [assumption|split; [unfold N; lia|unfold N, len in *; lia]]).
    pose proof (travx_atrav N fin t0 None tr F Logic.I T) as HA.
    destruct (atrav_props key_eqb key_eqb_eq (slotsN N t0) (slotsN_nodup N t0 F) _ _ _ _ HA) as (_ & Nd & Ln & Cp).
    rewrite map_map in Nd. simpl in Nd. split; [exact Nd|]. split; [|split].
    - rewrite map_length in Ln. unfold slotsN in Ln. rewrite app_length, akeys_length in Ln. simpl in Ln. unfold N in Ln. lia.
    - clear HA Nd Ln Cp. assert (G : forall tr' t cur, fitsN N t -> cur_okN N t cur -> travx fin t cur tr' -> forall e, In e tr' -> snd (fst e) <> VNil).
      { intros tr' t cur Ft Hc Tt. induction Tt as [t cur Hn | t cur k v t' rest Hn U Tt IH]; [intros e []|].
        rewrite (Next_firstpN N t cur Ft Hc) in Hn.
        destruct (firstp (present t) (skipn (cposN N t cur) (slotsN N t))) as [k'|] eqn:Ef; [|discriminate].
        simpl in Hn. inversion Hn; subst k' v.
        destruct (firstp_some _ _ _ _ Ef) as (j & _ & Hnth & Hp & _).
        destruct (upd_ext_fits N t t' Ft U) as [F' E].
        intros e [<-|He].
        - simpl. unfold TNext.present in Hp. now apply negb_true_iff, is_nil_false in Hp.
        - apply (IH F'); [|exact He]. simpl. unfold slotsN. rewrite E. eapply nth_error_In; eauto. }
      exact (G tr t0 None F Logic.I T).
    - intros Hf k H0 Hall.
      assert (P0 : present t0 k = true) by (unfold TNext.present; now apply negb_true_iff, is_nil_false).
      assert (Hin : In k (map fst (map (fun e => (tkey e, present (snd e))) tr))).
      { apply (Cp Hf); [|simpl; lia|exact P0|].
        - pose proof (present_in_slots mai t0 k W P0) as Hs. exact Hs.
        - intros e He. apply in_map_iff in He as (e0 & <- & He0). simpl.
          unfold TNext.present. apply negb_true_iff, is_nil_false. now apply Hall. }
      rewrite map_map in Hin. exact Hin.
  Qed.
End NextR.
