(* C13 — non-interference, the part a Gallina model can say (definitions only).

   A world is one shared prototype and N private interpreter states.  The step function of a state
   takes the prototype as an ARGUMENT and returns only the new private state and what it emitted.
   That typing IS the modelling assumption "executing never writes to the prototype and touches no
   memory of another state"; nothing here derives it from the Go code.  Whether gopher-lua's
   mainLoop really has that shape (no write into *FunctionProto, no package-level mutable state on
   the execution path, sync.Pool hygiene) is a fact about Go memory that only the -race exploration
   harness (harness/cmd/c13, "iso" jobs) looks at: that part of C13 is testing, not proof. *)
From GL Require Import Common.Bytes Chan.ChanModel.

Section Iso.
  Variables Proto LS Out : Type.
  Variable step : Proto -> LS -> LS * list Out.

  Record world := mkW { proto : Proto; states : list LS; traces : list (list Out) }.

  (* the scheduler lets state i make one step *)
  Definition wstep (i : nat) (w : world) : world :=
    match nth_error (states w) i, nth_error (traces w) i with
    | Some st, Some tr =>
        let r := step (proto w) st in
        mkW (proto w) (upd i (fst r) (states w)) (upd i (tr ++ snd r) (traces w))
    | _, _ => w
    end.

  Fixpoint wrun (sched : list nat) (w : world) : world :=
    match sched with [] => w | i :: r => wrun r (wstep i w) end.

  (* the same state running alone for k steps *)
  Fixpoint alone (k : nat) (p : Proto) (st : LS) (tr : list Out) : LS * list Out :=
    match k with
    | O => (st, tr)
    | S k' => let r := step p st in alone k' p (fst r) (tr ++ snd r)
    end.

  Fixpoint occ (i : nat) (sched : list nat) : nat :=
    match sched with [] => O | j :: r => (if Nat.eqb i j then 1 else 0) + occ i r end.
End Iso.
