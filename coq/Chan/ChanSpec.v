(* C13 — the property's clauses as executable predicates on a harness log (definitions only).
   None of them searches for a linearisation: they use the positions of the invocation and return
   entries only ("A returned before B was invoked" is the only order they rely on), so they are
   insensitive to the slack of the logging (see notes/C13.md). *)
From GL Require Import Common.Bytes Chan.ChanModel.

(* a completed operation with the log positions of its invocation and return *)
Record cop := mkCop { ct : tid; co : op; cr : res; cinv : nat; cres : nat }.

Fixpoint collect (pos : nat) (opn : list (tid * (op * nat))) (log : list event) : option (list cop) :=
  match log with
  | [] => if is_nil opn then Some [] else None
  | EInv t o :: rest =>
      match find_t t opn with
      | Some _ => None
      | None => collect (S pos) ((t, (o, pos)) :: opn) rest
      end
  | ERes t o r :: rest =>
      match find_t t opn with
      | Some (o', ip) =>
          if op_eqb o o' then
            match collect (S pos) (remove_t t opn) rest with
            | Some l => Some (mkCop t o r ip pos :: l)
            | None => None
            end
          else None
      | None => None
      end
  end.

(* well-formed complete log: per thread Inv/Res alternate on the same operation, nothing left open *)
Definition cops_of (log : list event) : option (list cop) := collect 0 [] log.

Definition sends_of (c : cid) (l : list cop) : list (cop * value) :=
  flat_map (fun k => match succ_send c (co k) (cr k) with Some v => [(k, v)] | None => [] end) l.
Definition recvs_of (c : cid) (l : list cop) : list (cop * value) :=
  flat_map (fun k => match succ_recv c (co k) (cr k) with Some v => [(k, v)] | None => [] end) l.

(* operations that reported "closed and drained" on c *)
Definition reports_closed (c : cid) (k : cop) : bool :=
  match co k, cr k with
  | ORecv c', RRecv false _ => Nat.eqb c c'
  | OSelect cs, RSel i _ false =>
      match nth_error cs i with Some (SRecv c') => Nat.eqb c c' | _ => false end
  | _, _ => false
  end.

Definition is_close (c : cid) (k : cop) : bool :=
  match co k with OClose c' => Nat.eqb c c' | _ => false end.
Definition is_close_ok (c : cid) (k : cop) : bool :=
  is_close c k && match cr k with RCloseOk => true | _ => false end.

(* (1) exactly once: every received value occurs at most as often among the receipts as among the
   successful sends *)
Definition spec_once (c : cid) (log : list event) : bool :=
  forallb (fun v => Nat.leb (count v (log_recvd c log)) (count v (log_sent c log))) (log_recvd c log).

(* (2) per-sender order: if receive R1 returned before receive R2 was invoked and both values were
   sent (once each) by the same thread, that thread sent R1's value first *)
Definition the_send (v : value) (ss : list (cop * value)) : option cop :=
  match filter (fun p => value_eqb (snd p) v) ss with
  | [p] => Some (fst p)
  | _ => None
  end.

Definition spec_fifo (c : cid) (l : list cop) : bool :=
  let ss := sends_of c l in
  let rs := recvs_of c l in
  forallb (fun p1 =>
    forallb (fun p2 =>
      if Nat.ltb (cres (fst p1)) (cinv (fst p2)) then
        match the_send (snd p1) ss, the_send (snd p2) ss with
        | Some s1, Some s2 =>
            if ct s1 =? ct s2 then Nat.ltb (cres s1) (cres s2) else true
        | _, _ => true
        end
      else true) rs) rs.

(* (3) closure is reported only for a closed and drained channel: some close was invoked before the
   report returned, and every value successfully sent was taken by a receive invoked before the
   report returned *)
Definition spec_closed (c : cid) (l : list cop) : bool :=
  let ss := sends_of c l in
  let rs := recvs_of c l in
  forallb (fun k =>
    if reports_closed c k then
      existsb (fun q => is_close c q && Nat.ltb (cinv q) (cres k)) l &&
      forallb (fun s => existsb (fun r => value_eqb (snd r) (snd s) && Nat.ltb (cinv (fst r)) (cres k)) rs) ss
    else true) l.

(* (4) select: the chosen index names a case and the result has that case's shape; `default` is
   not taken while a receive case was certainly ready for the whole duration of the select (its
   channel was closed before, or a value sent before the select began is still undelivered when it
   returns) *)
Definition recv_certainly_ready (c : cid) (l : list cop) (d : cop) : bool :=
  existsb (fun q => is_close_ok c q && Nat.ltb (cres q) (cinv d)) l ||
  existsb (fun s => Nat.ltb (cres (fst s)) (cinv d) &&
                    negb (existsb (fun r => value_eqb (snd r) (snd s) && Nat.ltb (cinv (fst r)) (cres d))
                                  (recvs_of c l)))
          (sends_of c l).

Definition spec_select (l : list cop) : bool :=
  forallb (fun k =>
    match co k, cr k with
    | OSelect cs, RSel i v ok =>
        match nth_error cs i with
        | Some (SSend _ _) => value_eqb v VNil && negb ok
        | Some (SRecv _) => ok || value_eqb v VNil
        | Some SDefault =>
            value_eqb v VNil && negb ok &&
            forallb (fun sc => match sc with SRecv c => negb (recv_certainly_ready c l k) | _ => true end) cs
        | None => false
        end
    | OSelect _, (RErrRefused | RErrSendClosed | RErrLimit) => true
    | OSelect _, _ => false
    | _, _ => true
    end) l.

(* (5) payload filter: functions, userdata, threads and tables with a metatable are refused, and
   nothing else is *)
Definition refused_kind (v : value) : bool :=
  match v with
  | VFunc _ | VUserData _ | VThread _ => true
  | VTable _ true _ => true
  | _ => false
  end.

Definition op_offers_refused (o : op) : bool :=
  match o with
  | OSend _ v => refused_kind v
  | OSelect cs => existsb (fun sc => match sc with SSend _ v => refused_kind v | _ => false end) cs
  | _ => false
  end.

Definition spec_filter (l : list cop) : bool :=
  forallb (fun k => Bool.eqb (op_offers_refused (co k))
                             (match cr k with RErrRefused => true | _ => false end)) l.

(* (6) result shapes of the plain operations.  A receive or select may end in the calling state's
   own resource error (RErrLimit: "registry overflow" / "stack overflow"); such an operation counts
   as neither a send nor a receipt in clauses (1)-(4), so a value it took out of a channel shows up
   there as lost (a later `default` with the value certainly there, a closure report with the value
   undelivered) and a value it passed on as received but never sent. *)
Definition spec_shape (l : list cop) : bool :=
  forallb (fun k =>
    match co k, cr k with
    | OSend _ _, (RSendOk | RErrRefused | RErrSendClosed) => true
    | ORecv _, RRecv true _ => true
    | ORecv _, RRecv false v => value_eqb v VNil
    | ORecv _, RErrLimit => true
    | OClose _, (RCloseOk | RErrCloseClosed) => true
    | OSelect _, _ => true
    | _, _ => false
    end) l.

Definition spec_log (caps : list Z) (log : list event) : bool :=
  match cops_of log with
  | None => false
  | Some l =>
      forallb (fun c => spec_once c log && spec_fifo c l && spec_closed c l) (seq 0 (length caps)) &&
      spec_select l && spec_filter l && spec_shape l
  end.
