(* Case evaluator for the C13 shards. *)
From GL Require Import Common.Bytes Chan.ChanModel Chan.ChanSpec.

Inductive case :=
(* a history of channel operations issued by several LStates, as logged by the harness *)
| CHist (caps : list Z) (log : list event)
(* non-interference run: for each concurrent state the digest of the trace the same program
   variant gives alone on a private prototype (expd) and the digest of its trace on the shared
   prototype (conc); digest of the shared prototype before and after (testing part of C13; Coq
   only compares) *)
| CIso (expd : list (list Z)) (conc : list (list Z)) (h0 h1 : list Z)
(* two states use a table after it was sent through a channel (known finding C13-1): was a data
   race on the table observed? *)
| CShare (raced : bool)
(* high-volume run without a log (counters kept by the harness): values sent, values received,
   values received more than once, closure reports before any close was invoked, receipts that
   were out of order for their sender as seen by one receiver *)
| CStress (sent recvd dups early disorder : Z)
(* library objects are per state: digest of what a state can reach from its globals before any
   other state changed anything (ref), the same digest taken by states created before / after /
   concurrently with states that change every table they can reach (obs), number of library
   functions whose environment is not the inspecting state's own globals *)
| CLib (ref : list Z) (obs : list (list Z)) (foreign : Z)
(* channel.make(n) under pcall for each n, next to a state that computes: (n, a channel came back?)
   and whether the neighbour's result was right; a dead process is a GoFail *)
| CMake (obs : list (Z * bool)) (neighbour_ok_and_empty_select_refused : bool).

Definition zlist_eqb (a b : list Z) : bool := list_eqb Z.eqb a b.

(* impl: the log is a trace of the LTS (model of channellib.go over Go channel semantics) *)
Definition check_impl (c : case) : bool :=
  match c with
  | CHist caps log => trace_ok caps log
  | CIso e conc h0 h1 => list_eqb zlist_eqb e conc && zlist_eqb h0 h1
  (* channels pass tables by reference (the filter only refuses what payload_filter lists): the
     model of the code allows either outcome of the schedule-dependent race *)
  | CShare _ => true
  | CStress sent recvd dups early disorder => (recvd =? sent) && (dups =? 0) && (early =? 0) && (disorder =? 0)
  | CLib ref obs foreign => forallb (zlist_eqb ref) obs && (foreign =? 0)
  | CMake obs nb => forallb (fun p => Bool.eqb (make_ok (fst p)) (snd p)) obs && nb
  end.

(* spec: the clauses of the property evaluated on the observed log *)
Definition check_spec (c : case) : bool :=
  match c with
  | CHist caps log => spec_log caps log
  | CIso e conc h0 h1 => list_eqb zlist_eqb e conc && zlist_eqb h0 h1
  | CShare raced => negb raced      (* no data race on interpreter-owned memory *)
  (* exactly once (all channels closed and drained at the end), closure only after a close, per-sender order *)
  | CStress sent recvd dups early disorder => (recvd =? sent) && (dups =? 0) && (early =? 0) && (disorder =? 0)
  | CLib ref obs foreign => forallb (zlist_eqb ref) obs && (foreign =? 0)
  (* spec: a size that is negative or that no machine can hold must be refused (catchably), a small
     one must work; in between the property leaves the bound free *)
  | CMake obs nb =>
      forallb (fun p => if fst p <? 0 then negb (snd p)
                        else if fst p <=? 1048576 then snd p
                        else if 4294967296 <=? fst p then negb (snd p) else true) obs && nb
  end.
