(* C13 — non-interference facts of IsoModel.v (true of ANY step function of that type; see the
   header of IsoModel.v for what this does and does not say about the Go code). *)
From GL Require Import Common.Bytes Chan.ChanModel Chan.ChanFacts Chan.IsoModel.
From Coq Require Import Lia.

Section IsoFacts.
  Variables Proto LS Out : Type.
  Variable step : Proto -> LS -> LS * list Out.
  Notation world := (world Proto LS Out).
  Notation wstep := (wstep Proto LS Out step).
  Notation wrun := (wrun Proto LS Out step).
  Notation alone := (alone Proto LS Out step).

  Lemma wstep_proto : forall i (w : world), proto _ _ _ (wstep i w) = proto _ _ _ w.
  Proof.
    intros i w. unfold IsoModel.wstep.
    destruct (nth_error (states _ _ _ w) i); auto. destruct (nth_error (traces _ _ _ w) i); auto.
  Qed.

  (* executing never modifies the prototype: by construction (typing) in this model *)
  Lemma proto_immutable_lemma : forall sched (w : world), proto _ _ _ (wrun sched w) = proto _ _ _ w.
  Proof.
    induction sched as [|i r IH]; simpl; intros w; auto. rewrite IH. apply wstep_proto.
  Qed.

  Lemma upd_comm {A} : forall (l : list A) i j x y, i <> j -> upd i x (upd j y l) = upd j y (upd i x l).
  Proof.
    induction l as [|a l IH]; intros [|i] [|j] x y N; simpl; auto; try congruence. f_equal. apply IH. auto.
  Qed.

  Lemma nth_error_upd_none {A} : forall (l : list A) n m x, nth_error l m = None -> nth_error (upd n x l) m = None.
  Proof.
    intros l n m x H. apply nth_error_None. rewrite upd_length. apply nth_error_None. auto.
  Qed.

  (* steps of two different states commute *)
  Lemma two_states_commute_lemma : forall i j (w : world), i <> j -> wstep i (wstep j w) = wstep j (wstep i w).
  Proof.
    intros i j w N. unfold IsoModel.wstep.
    destruct (nth_error (states _ _ _ w) i) as [si|] eqn:Si; destruct (nth_error (traces _ _ _ w) i) as [ti|] eqn:Ti;
    destruct (nth_error (states _ _ _ w) j) as [sj|] eqn:Sj; destruct (nth_error (traces _ _ _ w) j) as [tj|] eqn:Tj;
      simpl; rewrite ?Si, ?Ti, ?Sj, ?Tj;
      repeat (rewrite nth_error_upd_other by auto); rewrite ?Si, ?Ti, ?Sj, ?Tj; simpl; auto;
      try (rewrite (nth_error_upd_none _ _ _ _ Si)); try (rewrite (nth_error_upd_none _ _ _ _ Ti));
      try (rewrite (nth_error_upd_none _ _ _ _ Sj)); try (rewrite (nth_error_upd_none _ _ _ _ Tj)); auto.
    all: try (f_equal; apply upd_comm; auto).
  Qed.

  (* whatever the schedule, state i ends exactly where it ends when it runs alone for as many
     steps as the schedule gave it, with exactly the same emitted trace *)
  Lemma isolation_lemma : forall sched (w : world) i st tr,
    nth_error (states _ _ _ w) i = Some st -> nth_error (traces _ _ _ w) i = Some tr ->
    nth_error (states _ _ _ (wrun sched w)) i = Some (fst (alone (occ i sched) (proto _ _ _ w) st tr)) /\
    nth_error (traces _ _ _ (wrun sched w)) i = Some (snd (alone (occ i sched) (proto _ _ _ w) st tr)).
  Proof.
    induction sched as [|j r IH]; simpl; intros w i st tr Hs Ht; auto.
    destruct (Nat.eqb i j) eqn:E.
    - apply Nat.eqb_eq in E. subst j. simpl.
      assert (Hw : wstep i w = mkW _ _ _ (proto _ _ _ w) (upd i (fst (step (proto _ _ _ w) st)) (states _ _ _ w))
                                   (upd i (tr ++ snd (step (proto _ _ _ w) st)) (traces _ _ _ w))).
      { unfold IsoModel.wstep. rewrite Hs, Ht. auto. }
      rewrite Hw.
      specialize (IH (mkW _ _ _ (proto _ _ _ w) (upd i (fst (step (proto _ _ _ w) st)) (states _ _ _ w))
                         (upd i (tr ++ snd (step (proto _ _ _ w) st)) (traces _ _ _ w))) i
                     (fst (step (proto _ _ _ w) st)) (tr ++ snd (step (proto _ _ _ w) st))).
      simpl in IH. apply IH.
      + eapply nth_error_upd_same; eauto.
      + eapply nth_error_upd_same; eauto.
    - apply Nat.eqb_neq in E. simpl.
      assert (Hp : proto _ _ _ (wstep j w) = proto _ _ _ w) by apply wstep_proto.
      rewrite <- Hp. apply IH.
      + unfold IsoModel.wstep. destruct (nth_error (states _ _ _ w) j); auto. destruct (nth_error (traces _ _ _ w) j); auto.
        simpl. rewrite nth_error_upd_other; auto.
      + unfold IsoModel.wstep. destruct (nth_error (states _ _ _ w) j); auto. destruct (nth_error (traces _ _ _ w) j); auto.
        simpl. rewrite nth_error_upd_other; auto.
  Qed.
End IsoFacts.
