(* C13 — proofs about the channel LTS of ChanModel.v. *)
From GL Require Import Common.Bytes Chan.ChanModel.
From Coq Require Import Lia.

(* ---------- decidable equalities are sound ---------- *)
Section ValueInd.
  Variable P : value -> Prop.
  Hypothesis Hnil : P VNil.
  Hypothesis Hbool : forall b, P (VBool b).
  Hypothesis Hnum : forall z, P (VNum z).
  Hypothesis Hstr : forall s, P (VStr s).
  Hypothesis Hfunc : forall i, P (VFunc i).
  Hypothesis Hud : forall i, P (VUserData i).
  Hypothesis Hth : forall i, P (VThread i).
  Hypothesis Htab : forall i m es, Forall P es -> P (VTable i m es).
  Hypothesis Hchan : forall c, P (VChan c).

  Fixpoint value_ind' (v : value) : P v :=
    match v with
    | VNil => Hnil
    | VBool b => Hbool b
    | VNum z => Hnum z
    | VStr s => Hstr s
    | VFunc i => Hfunc i
    | VUserData i => Hud i
    | VThread i => Hth i
    | VTable i m es =>
        Htab i m es ((fix go (l : list value) : Forall P l :=
                        match l with
                        | [] => Forall_nil P
                        | x :: l' => Forall_cons x (value_ind' x) (go l')
                        end) es)
    | VChan c => Hchan c
    end.
End ValueInd.

Lemma beqb_eq : forall a b, beqb a b = true -> a = b.
Proof.
  induction a as [|x a IH]; destruct b as [|y b]; simpl; intros H; try discriminate; auto.
  apply andb_prop in H. destruct H as [H1 H2]. apply Z.eqb_eq in H1. subst. f_equal. auto.
Qed.

Lemma beqb_refl : forall a, beqb a a = true.
Proof. induction a; simpl; auto. rewrite Z.eqb_refl. auto. Qed.

Lemma value_eqb_eq : forall a b, value_eqb a b = true -> a = b.
Proof.
  induction a using value_ind'; intros y; destruct y; simpl; intros E; try discriminate; auto.
  - apply Bool.eqb_prop in E. subst. auto.
  - apply Z.eqb_eq in E. subst. auto.
  - apply beqb_eq in E. subst. auto.
  - apply Z.eqb_eq in E. subst. auto.
  - apply Z.eqb_eq in E. subst. auto.
  - apply Z.eqb_eq in E. subst. auto.
  - apply andb_prop in E. destruct E as [E E3]. apply andb_prop in E. destruct E as [E1 E2].
    apply Z.eqb_eq in E1. apply Bool.eqb_prop in E2. subst.
    f_equal.
    revert elems E3. induction H as [|x l Hx Hl IH]; intros [|y l2] E3; try discriminate; auto.
    apply andb_prop in E3. destruct E3 as [Ea Eb]. f_equal; auto.
  - apply Z.eqb_eq in E. subst. auto.
Qed.

Lemma value_eqb_refl : forall a, value_eqb a a = true.
Proof.
  induction a using value_ind'; simpl; auto using Z.eqb_refl, beqb_refl.
  - destruct b; auto.
  - rewrite Z.eqb_refl, Bool.eqb_reflx. simpl.
    induction H as [|x l Hx Hl IH]; auto. rewrite Hx. simpl. auto.
Qed.

Lemma list_eqb_eq {A} (eq : A -> A -> bool) :
  (forall x y, eq x y = true -> x = y) -> forall a b, list_eqb eq a b = true -> a = b.
Proof.
  intros Heq. induction a as [|x a IH]; destruct b as [|y b]; simpl; intros H; try discriminate; auto.
  apply andb_prop in H. destruct H. f_equal; auto.
Qed.

Lemma list_eqb_refl {A} (eq : A -> A -> bool) :
  (forall x, eq x x = true) -> forall a, list_eqb eq a a = true.
Proof. intros R. induction a; simpl; auto. rewrite R. auto. Qed.

Lemma scase_eqb_eq : forall a b, scase_eqb a b = true -> a = b.
Proof.
  destruct a, b; simpl; intros H; try discriminate; auto.
  - apply andb_prop in H. destruct H as [H1 H2]. apply Nat.eqb_eq in H1. apply value_eqb_eq in H2. subst. auto.
  - apply Nat.eqb_eq in H. subst. auto.
Qed.

Lemma scase_eqb_refl : forall a, scase_eqb a a = true.
Proof. destruct a; simpl; auto. rewrite Nat.eqb_refl, value_eqb_refl. auto. apply Nat.eqb_refl. Qed.

Lemma op_eqb_eq : forall a b, op_eqb a b = true -> a = b.
Proof.
  destruct a, b; simpl; intros H; try discriminate.
  - apply andb_prop in H. destruct H as [H1 H2]. apply Nat.eqb_eq in H1. apply value_eqb_eq in H2. subst. auto.
  - apply Nat.eqb_eq in H. subst. auto.
  - apply Nat.eqb_eq in H. subst. auto.
  - apply (list_eqb_eq _ scase_eqb_eq) in H. subst. auto.
Qed.

Lemma op_eqb_refl : forall a, op_eqb a a = true.
Proof.
  destruct a; simpl; auto using Nat.eqb_refl.
  - rewrite Nat.eqb_refl, value_eqb_refl. auto.
  - apply list_eqb_refl. apply scase_eqb_refl.
Qed.

Lemma res_eqb_eq : forall a b, res_eqb a b = true -> a = b.
Proof.
  destruct a, b; simpl; intros H; try discriminate; auto.
  - apply andb_prop in H. destruct H as [H1 H2]. apply Bool.eqb_prop in H1. apply value_eqb_eq in H2. subst. auto.
  - apply andb_prop in H. destruct H as [H H3]. apply andb_prop in H. destruct H as [H1 H2].
    apply Nat.eqb_eq in H1. apply value_eqb_eq in H2. apply Bool.eqb_prop in H3. subst. auto.
Qed.

Lemma res_eqb_refl : forall a, res_eqb a a = true.
Proof.
  destruct a; simpl; auto.
  - rewrite Bool.eqb_reflx, value_eqb_refl. auto.
  - rewrite Nat.eqb_refl, value_eqb_refl, Bool.eqb_reflx. auto.
Qed.

(* ---------- list plumbing ---------- *)
Lemma nth_error_upd_same {A} : forall (l : list A) n x y, nth_error l n = Some y -> nth_error (upd n x l) n = Some x.
Proof. induction l; destruct n; simpl; intros; try discriminate; eauto. Qed.

Lemma nth_error_upd_other {A} : forall (l : list A) n m x, n <> m -> nth_error (upd n x l) m = nth_error l m.
Proof. induction l; destruct n, m; simpl; intros; auto; try congruence. Qed.

Lemma upd_length {A} : forall (l : list A) n x, length (upd n x l) = length l.
Proof. induction l; destruct n; simpl; intros; auto. Qed.

Lemma count_app : forall v a b, count v (a ++ b) = (count v a + count v b)%nat.
Proof. induction a; simpl; intros; auto. rewrite IHa. lia. Qed.

Lemma vals_app : forall a b, vals (a ++ b) = vals a ++ vals b.
Proof. intros. apply map_app. Qed.

Lemma find_remove_same {B} : forall t (l : list (tid * B)), find_t t (remove_t t l) = None.
Proof.
  induction l as [|[u b] l IH]; simpl; auto.
  destruct (t =? u) eqn:E; auto. simpl. rewrite E. auto.
Qed.

Lemma find_remove_other {B} : forall t u (l : list (tid * B)), t <> u -> find_t u (remove_t t l) = find_t u l.
Proof.
  induction l as [|[w b] l IH]; simpl; intros N; auto.
  destruct (t =? w) eqn:E.
  - apply Z.eqb_eq in E. subst. destruct (u =? w) eqn:E2; auto. apply Z.eqb_eq in E2. congruence.
  - simpl. rewrite IH; auto.
Qed.

(* ---------- one action on the channel list ---------- *)
Definition chan_rel (c : cid) (a : action) (ch ch' : chan) : Prop :=
  cap ch' = cap ch /\
  buf ch ++ vals (act_sent c a) = vals (act_recvd c a) ++ buf ch' /\
  (closed ch = true -> closed ch' = true) /\
  (len (buf ch) <= Z.max 0 (cap ch) -> len (buf ch') <= Z.max 0 (cap ch')).

Lemma len_app1 {A} (l : list A) x : len (l ++ [x]) = len l + 1.
Proof. unfold len. rewrite app_length. simpl. lia. Qed.

Lemma chan_act_rel : forall a c ch ch',
  act_cid a = Some c -> chan_act a ch = Some ch' -> chan_rel c a ch ch'.
Proof.
  intros a c ch ch' Hc H. unfold chan_rel.
  destruct a; simpl in *; inversion Hc; subst; clear Hc; rewrite ?Nat.eqb_refl; simpl.
  - destruct (negb (closed ch) && room ch) eqn:E; inversion H; subst; clear H; simpl.
    apply andb_prop in E. destruct E as [_ E]. unfold room in E. apply Z.ltb_lt in E.
    repeat split; auto. intros _. rewrite len_app1. lia.
  - destruct (buf ch) as [|x b] eqn:Eb; try discriminate.
    destruct (value_eqb x v) eqn:Ev; inversion H; subst; clear H; simpl.
    apply value_eqb_eq in Ev. subst. repeat split; auto.
    + rewrite app_nil_r. auto.
    + unfold len in *. simpl length in *. lia.
  - destruct (negb (closed ch) && is_nil (buf ch) && negb (ts =? tr)) eqn:E; inversion H; subst; clear H.
    apply andb_prop in E. destruct E as [E _]. apply andb_prop in E. destruct E as [_ E].
    destruct (buf ch'); try discriminate. simpl. repeat split; auto.
  - destruct (closed ch && is_nil (buf ch)) eqn:E; inversion H; subst. rewrite app_nil_r. repeat split; auto.
  - destruct (closed ch) eqn:E; inversion H; subst; simpl. rewrite app_nil_r. repeat split; auto.
  - destruct (closed ch) eqn:E; inversion H; subst; simpl. rewrite app_nil_r. repeat split; auto.
  - destruct (closed ch) eqn:E; inversion H; subst; simpl. rewrite app_nil_r. repeat split; auto.
Qed.

Lemma act_other_chan : forall a c c', act_cid a = Some c' -> c <> c' -> act_sent c a = [] /\ act_recvd c a = [].
Proof.
  intros a c c' H N. destruct a; simpl in *; inversion H; subst;
    try (destruct (Nat.eqb c c') eqn:E; [apply Nat.eqb_eq in E; congruence|]); auto.
Qed.

Lemma act_no_chan : forall a c, act_cid a = None -> act_sent c a = [] /\ act_recvd c a = [].
Proof. intros a c H. destruct a; simpl in *; try discriminate; auto. Qed.

Lemma chan_rel_refl : forall c a ch, act_sent c a = [] -> act_recvd c a = [] -> chan_rel c a ch ch.
Proof. intros c a ch H1 H2. unfold chan_rel. rewrite H1, H2. simpl. rewrite app_nil_r. auto. Qed.

Lemma apply_act_rel : forall chs a chs' c ch,
  apply_act chs a = Some chs' -> nth_error chs c = Some ch ->
  exists ch', nth_error chs' c = Some ch' /\ chan_rel c a ch ch'.
Proof.
  intros chs a chs' c ch H Hc.
  assert (G : forall c0, act_cid a = Some c0 ->
     match nth_error chs c0 with
     | Some ch0 => match chan_act a ch0 with Some ch1 => Some (upd c0 ch1 chs) | None => None end
     | None => None end = Some chs' ->
     exists ch', nth_error chs' c = Some ch' /\ chan_rel c a ch ch').
  { intros c0 Ha H0. destruct (nth_error chs c0) as [ch0|] eqn:E0; try discriminate.
    destruct (chan_act a ch0) as [ch1|] eqn:E1; inversion H0; subst; clear H0.
    destruct (Nat.eq_dec c0 c) as [->|N].
    - rewrite Hc in E0. inversion E0; subst. exists ch1. split.
      + eapply nth_error_upd_same; eauto.
      + apply chan_act_rel; auto.
    - exists ch. split.
      + rewrite nth_error_upd_other; auto.
      + destruct (act_other_chan a c c0 Ha) as [S R]; auto. apply chan_rel_refl; auto. }
  destruct a; simpl in H; try (eapply G; [reflexivity|exact H]).
  - inversion H; subst. exists ch. split; auto. apply chan_rel_refl; auto.
  - destruct (forallb (fun sc => negb (case_ready chs sc)) cs); inversion H; subst.
    exists ch. split; auto. apply chan_rel_refl; auto.
  - inversion H; subst. exists ch. split; auto. apply chan_rel_refl; auto.
Qed.

Lemma apply_act_length : forall chs a chs', apply_act chs a = Some chs' -> length chs' = length chs.
Proof.
  intros chs a chs' H.
  assert (G : forall c0,
     match nth_error chs c0 with
     | Some ch0 => match chan_act a ch0 with Some ch1 => Some (upd c0 ch1 chs) | None => None end
     | None => None end = Some chs' -> length chs' = length chs).
  { intros c0 H0. destruct (nth_error chs c0); try discriminate. destruct (chan_act a c); inversion H0. apply upd_length. }
  destruct a; simpl in H; try (eapply G; exact H).
  - inversion H; auto.
  - destruct (forallb (fun sc => negb (case_ready chs sc)) cs); inversion H; auto.
  - inversion H; auto.
Qed.

(* ---------- exec only changes the channels through apply_act ---------- *)
Lemma lin1_chs : forall s t a i s', lin1 s t a i = Some s' -> chs s' = chs s.
Proof.
  unfold lin1. intros. destruct (find_t t (pend s)); try discriminate.
  destruct (find_t t (fin s)); try discriminate.
  destruct (completes t o a i); inversion H; auto.
Qed.

Lemma exec_chs : forall s l s', exec s l = Some s' ->
  match l with
  | LLin a _ _ => apply_act (chs s) a = Some (chs s')
  | _ => chs s' = chs s
  end.
Proof.
  intros s l s' H. destruct l; simpl in H.
  - destruct (busy s t); inversion H; auto.
  - destruct (apply_act (chs s) a) as [chs1|] eqn:E; try discriminate.
    assert (forall t0, lin1 (mkSt chs1 (pend s) (fin s)) t0 a i = Some s' -> Some chs1 = Some (chs s')).
    { intros t0 H0. apply lin1_chs in H0. simpl in H0. congruence. }
    destruct a as [| |ts tr c v| | | | | | |]; try (eapply H0; exact H).
    destruct (lin1 (mkSt chs1 (pend s) (fin s)) ts (ARdv ts tr c v) i) as [s1|] eqn:E1; try discriminate.
    apply lin1_chs in E1. apply lin1_chs in H. simpl in E1. congruence.
  - destruct (find_t t (fin s)) as [[o' r']|]; try discriminate.
    destruct (op_eqb o o' && res_eqb r r'); inversion H; auto.
Qed.

Lemma exec_rel : forall s l s' c ch, exec s l = Some s' -> nth_error (chs s) c = Some ch ->
  exists ch', nth_error (chs s') c = Some ch' /\
    cap ch' = cap ch /\
    buf ch ++ vals (lab_sent c l) = vals (lab_recvd c l) ++ buf ch' /\
    (closed ch = true -> closed ch' = true) /\
    (len (buf ch) <= Z.max 0 (cap ch) -> len (buf ch') <= Z.max 0 (cap ch')).
Proof.
  intros s l s' c ch H Hc. pose proof (exec_chs _ _ _ H) as G. destruct l.
  - rewrite G. exists ch. simpl. rewrite app_nil_r. auto.
  - destruct (apply_act_rel _ _ _ _ _ G Hc) as [ch' [H1 H2]]. exists ch'. split; auto.
  - rewrite G. exists ch. simpl. rewrite app_nil_r. auto.
Qed.

(* ---------- the invariant of every run ---------- *)
Lemma run_rel : forall ls s s' c ch, run s ls = Some s' -> nth_error (chs s) c = Some ch ->
  exists ch', nth_error (chs s') c = Some ch' /\
    cap ch' = cap ch /\
    buf ch ++ vals (sent_on c ls) = vals (recvd_on c ls) ++ buf ch' /\
    (closed ch = true -> closed ch' = true) /\
    (len (buf ch) <= Z.max 0 (cap ch) -> len (buf ch') <= Z.max 0 (cap ch')).
Proof.
  induction ls as [|l ls IH]; simpl; intros s s' c ch H Hc.
  - inversion H; subst. exists ch. rewrite app_nil_r. auto.
  - destruct (exec s l) as [s1|] eqn:E; try discriminate.
    destruct (exec_rel _ _ _ _ _ E Hc) as [ch1 [H1 [H2 [H3 [H4 H5]]]]].
    destruct (IH _ _ _ _ H H1) as [ch' [G1 [G2 [G3 [G4 G5]]]]].
    exists ch'. split; auto. split; [congruence|]. split; [|split; auto].
    unfold sent_on, recvd_on in *. simpl. rewrite !vals_app.
    rewrite app_assoc, H3, <- app_assoc, G3, app_assoc. auto.
Qed.

Lemma init_nth : forall caps c, (c < length caps)%nat ->
  exists k, nth_error caps c = Some k /\ nth_error (chs (init caps)) c = Some (mkChan [] k false).
Proof.
  intros caps c H. unfold init. simpl.
  destruct (nth_error caps c) as [k|] eqn:E.
  - exists k. split; auto. erewrite map_nth_error; eauto.
  - apply nth_error_None in E. lia.
Qed.

(* ---------- exactly once, FIFO ---------- *)
Lemma chan_run_eq : forall caps ls s c, run (init caps) ls = Some s -> (c < length caps)%nat ->
  exists ch, nth_error (chs s) c = Some ch /\
    vals (sent_on c ls) = vals (recvd_on c ls) ++ buf ch /\
    len (buf ch) <= Z.max 0 (cap ch) /\ nth_error caps c = Some (cap ch).
Proof.
  intros caps ls s c H Hc. destruct (init_nth caps c Hc) as [k [Hk Hn]].
  destruct (run_rel _ _ _ _ _ H Hn) as [ch [G1 [G2 [G3 [G4 G5]]]]]. simpl in *.
  exists ch. repeat split; auto.
  - apply G5. unfold len. simpl. lia.
  - congruence.
Qed.

Definition exactly_once_stmt : Prop :=
  forall caps ls s c, run (init caps) ls = Some s -> (c < length caps)%nat ->
  exists ch, nth_error (chs s) c = Some ch /\
    (* the k-th receive takes the value of the k-th send: the matching k |-> k is injective, so
       every send is matched by at most one receive and every receive by exactly one send *)
    (forall k v, nth_error (vals (recvd_on c ls)) k = Some v -> nth_error (vals (sent_on c ls)) k = Some v) /\
    (length (recvd_on c ls) <= length (sent_on c ls))%nat /\
    (* as multisets: received + still buffered = sent *)
    (forall v, (count v (vals (recvd_on c ls)) + count v (buf ch) = count v (vals (sent_on c ls)))%nat) /\
    (* at quiescence with an empty buffer: received = sent *)
    (buf ch = [] -> vals (recvd_on c ls) = vals (sent_on c ls)).

Lemma chan_exactly_once_lemma : exactly_once_stmt.
Proof.
  intros caps ls s c H Hc. destruct (chan_run_eq _ _ _ _ H Hc) as [ch [G1 [G2 _]]].
  exists ch. split; auto. split; [|split; [|split]].
  - intros k v Hk. rewrite G2. rewrite nth_error_app1; auto. apply nth_error_Some. congruence.
  - assert (L : length (vals (sent_on c ls)) = length (vals (recvd_on c ls) ++ buf ch)) by congruence.
    unfold vals in L. rewrite app_length, !map_length in L. lia.
  - intros v. rewrite G2, count_app. auto.
  - intros E. rewrite G2, E, app_nil_r. auto.
Qed.

Definition fifo_stmt : Prop :=
  forall caps ls s c, run (init caps) ls = Some s -> (c < length caps)%nat ->
    (* global FIFO of one channel: what has been received is a prefix of what has been sent *)
    is_prefix (vals (recvd_on c ls)) (vals (sent_on c ls)) /\
    (* `delivered` is `recvd_on` annotated with the senders *)
    vals (delivered c ls) = vals (recvd_on c ls) /\
    (* per sender: the delivered values of sender sd, in receive order, are a prefix of what sd sent, in send order *)
    forall sd, is_prefix (filter (from_sender sd) (delivered c ls)) (filter (from_sender sd) (sent_on c ls)).

Lemma chan_fifo_lemma : fifo_stmt.
Proof.
  intros caps ls s c H Hc. destruct (chan_run_eq _ _ _ _ H Hc) as [ch [G1 [G2 _]]].
  split; [|split].
  - exists (buf ch). auto.
  - unfold delivered, vals in *. rewrite <- firstn_map, G2.
    rewrite <- (map_length snd (recvd_on c ls)). rewrite firstn_app, Nat.sub_diag, firstn_all. simpl. apply app_nil_r.
  - intros sd. unfold delivered. exists (filter (from_sender sd) (skipn (length (recvd_on c ls)) (sent_on c ls))).
    rewrite <- filter_app, firstn_skipn. auto.
Qed.

(* ---------- a safe operation either fails for lack of room (ALimit) or goes through the channels ---------- *)
Lemma completes_plain_limit : forall t o u, completes_plain t o (ALimit u) = None.
Proof. intros t o u. destruct o; reflexivity. Qed.

Lemma completes_safe_limit : forall t o u i, completes_safe t o (ALimit u) i = None.
Proof.
  intros t o u i. destruct o; try reflexivity. simpl.
  destruct (nth_error cs i) as [[c w|c|]|]; auto.
Qed.

Lemma completes_plain_not_limit : forall t o a, completes_plain t o a <> Some RErrLimit.
Proof.
  intros t o a H. destruct o, a; simpl in H; try discriminate;
    match type of H with (if ?X then _ else _) = _ => destruct X; discriminate end.
Qed.

Lemma completes_safe_not_limit : forall t o a i, completes_safe t o a i <> Some RErrLimit.
Proof.
  intros t o a i H. destruct o; try (eapply completes_plain_not_limit; exact H). unfold completes_safe in H.
  destruct (nth_error cs i) as [[c w|c|]|]; try discriminate.
  - destruct (completes_plain t (OSend c w) a) as [[]|]; discriminate.
  - destruct (completes_plain t (ORecv c) a) as [[]|]; discriminate.
  - destruct a; try discriminate. destruct ((t =? t0) && list_eqb scase_eqb cs cs0); discriminate.
Qed.

Lemma completes_inv : forall t o a i r, op_unsafe o = false -> completes t o a i = Some r ->
  (a = ALimit t /\ r = RErrLimit /\ op_reserves o = true) \/
  ((forall u, a <> ALimit u) /\ completes_safe t o a i = Some r).
Proof.
  intros t o a i r Hu H. unfold completes in H. rewrite Hu in H.
  destruct a; try (right; split; [intros u; discriminate|exact H]).
  left. destruct (t =? t0) eqn:E; simpl in H; try discriminate.
  apply Z.eqb_eq in E. subst t0. destruct (op_reserves o); inversion H; auto.
Qed.

Lemma completes_safe_of : forall t o a i r, op_unsafe o = false -> completes t o a i = Some r ->
  r <> RErrLimit -> completes_safe t o a i = Some r.
Proof.
  intros t o a i r Hu H N. destruct (completes_inv _ _ _ _ _ Hu H) as [[_ [-> _]]|[_ G]]; auto. congruence.
Qed.

(* ---------- closure ---------- *)
Definition closed_drained (chs : list chan) (c : cid) : Prop :=
  exists ch, nth_error chs c = Some ch /\ closed ch = true /\ buf ch = [].

Lemma apply_act_chan : forall chs a chs' c, apply_act chs a = Some chs' -> act_cid a = Some c ->
  exists ch ch', nth_error chs c = Some ch /\ chan_act a ch = Some ch' /\ chs' = upd c ch' chs.
Proof.
  intros chs a chs' c H Hc.
  destruct a; simpl in Hc; inversion Hc; subst; simpl in H;
    (destruct (nth_error chs c) as [ch|] eqn:E; try discriminate;
     match type of H with match ?X with _ => _ end = _ => destruct X as [ch'|] eqn:E2; inversion H; subst end;
     exists ch, ch'; auto).
Qed.

Lemma apply_act_nochan : forall chs a chs', apply_act chs a = Some chs' -> act_cid a = None -> chs' = chs.
Proof.
  intros chs a chs' H Hc. destruct a; simpl in Hc; try discriminate; simpl in H.
  - inversion H; auto.
  - destruct (forallb (fun sc => negb (case_ready chs sc)) cs); inversion H; auto.
  - inversion H; auto.
Qed.

Lemma closed_drained_act : forall a ch ch', closed ch = true -> buf ch = [] -> chan_act a ch = Some ch' -> ch' = ch.
Proof.
  intros a ch ch' Hc Hb H. destruct a; simpl in H; rewrite ?Hc, ?Hb in H; simpl in H; try discriminate; inversion H; auto.
Qed.

Lemma closed_drained_step : forall chs a chs' c, apply_act chs a = Some chs' -> closed_drained chs c -> closed_drained chs' c.
Proof.
  intros chs a chs' c H [ch [Hn [Hc Hb]]].
  destruct (act_cid a) as [c0|] eqn:Ea.
  - destruct (apply_act_chan _ _ _ _ H Ea) as [ch0 [ch1 [G1 [G2 G3]]]]. subst chs'.
    destruct (Nat.eq_dec c0 c) as [->|N].
    + rewrite Hn in G1. inversion G1; subst ch0. apply closed_drained_act in G2; auto. subst ch1.
      exists ch. split; auto. eapply nth_error_upd_same; eauto.
    + exists ch. split; auto. rewrite nth_error_upd_other; auto.
  - apply apply_act_nochan in H; auto. subst. exists ch. auto.
Qed.

Lemma closed_drained_run : forall ls s s' c, run s ls = Some s' -> closed_drained (chs s) c -> closed_drained (chs s') c.
Proof.
  induction ls as [|l ls IH]; simpl; intros s s' c H Hc.
  - inversion H; subst; auto.
  - destruct (exec s l) as [s1|] eqn:E; try discriminate. eapply IH; eauto.
    pose proof (exec_chs _ _ _ E) as G. destruct l; try (rewrite G; auto).
    eapply closed_drained_step; eauto.
Qed.

Lemma completes_plain_recv_closed : forall chs a chs' t c r,
  closed_drained chs c -> apply_act chs a = Some chs' -> completes_plain t (ORecv c) a = Some r -> r = RRecv false VNil.
Proof.
  intros chs a chs' t c r [ch [Hn [Hc Hb]]] H Hr.
  destruct a; simpl in Hr; try discriminate.
  - destruct ((t =? t0) && Nat.eqb c c0) eqn:E; try discriminate. apply andb_prop in E. destruct E as [_ E].
    apply Nat.eqb_eq in E. subst c0.
    destruct (apply_act_chan _ _ _ _ H eq_refl) as [ch0 [ch1 [G1 [G2 _]]]]. rewrite Hn in G1. inversion G1; subst.
    simpl in G2. rewrite Hb in G2. discriminate.
  - destruct ((t =? tr) && Nat.eqb c c0) eqn:E; try discriminate. apply andb_prop in E. destruct E as [_ E].
    apply Nat.eqb_eq in E. subst c0.
    destruct (apply_act_chan _ _ _ _ H eq_refl) as [ch0 [ch1 [G1 [G2 _]]]]. rewrite Hn in G1. inversion G1; subst.
    simpl in G2. rewrite Hc in G2. discriminate.
  - destruct ((t =? t0) && Nat.eqb c c0); inversion Hr; auto.
Qed.

Definition closed_drained_stmt : Prop :=
  forall s c, closed_drained (chs s) c ->
    (* a pending receive can complete at once and reports closure: it does not block *)
    (forall t, find_t t (pend s) = Some (ORecv c) -> find_t t (fin s) = None ->
       exists s', exec s (LLin (ARecvClosed t c) 0 0) = Some s' /\
                  find_t t (fin s') = Some (ORecv c, RRecv false VNil)) /\
    (* whatever step completes a receive on c, plain or as a select case, reports closure *)
    (* (or it fails, catchably, because the calling state has no room for the two results) *)
    (forall t a i r chs', apply_act (chs s) a = Some chs' -> completes t (ORecv c) a i = Some r ->
       r = RRecv false VNil \/ (r = RErrLimit /\ a = ALimit t)) /\
    (forall t cs a i r chs', apply_act (chs s) a = Some chs' -> nth_error cs i = Some (SRecv c) ->
       completes t (OSelect cs) a i = Some r -> r = RSel i VNil false \/ r = RErrRefused \/ (r = RErrLimit /\ a = ALimit t)) /\
    (* and the channel stays closed and drained in every continuation *)
    (forall ls s', run s ls = Some s' -> closed_drained (chs s') c).

Lemma closed_drained_lemma : closed_drained_stmt.
Proof.
  intros s c Hcd. split; [|split; [|split]].
  - intros t Hp Hf. destruct Hcd as [ch [Hn [Hc Hb]]].
    unfold exec, apply_act. simpl. rewrite Hn. simpl. rewrite Hc, Hb. simpl.
    unfold lin1. simpl. rewrite Hp, Hf. unfold completes. simpl. rewrite Z.eqb_refl, Nat.eqb_refl. simpl.
    eexists. split; [reflexivity|]. simpl. rewrite Z.eqb_refl. auto.
  - intros t a i r chs' H Hr.
    destruct (completes_inv t (ORecv c) a i r eq_refl Hr) as [[-> [-> _]]|[_ G]]; auto.
    left. simpl in G. eapply completes_plain_recv_closed; eauto.
  - intros t cs a i r chs' H Hi Hr.
    destruct (op_unsafe (OSelect cs)) eqn:Eu.
    + unfold completes in Hr. rewrite Eu in Hr.
      destruct a; try discriminate. destruct (t =? t0); inversion Hr; auto.
    + destruct (completes_inv _ _ _ _ _ Eu Hr) as [[-> [-> _]]|[_ G]]; auto.
      unfold completes_safe in G. rewrite Hi in G. destruct (completes_plain t (ORecv c) a) as [r0|] eqn:E; try discriminate.
      pose proof (completes_plain_recv_closed _ _ _ _ _ _ Hcd H E). subst r0. inversion G; auto.
  - intros ls s' H. eapply closed_drained_run; eauto.
Qed.

(* ---------- select ---------- *)
Definition select_only_ready_stmt : Prop :=
  forall chs a chs' t cs i v ok,
    apply_act chs a = Some chs' ->
    completes t (OSelect cs) a i = Some (RSel i v ok) ->
    match nth_error cs i with
    | Some SDefault =>
        (* default is taken only when no case can proceed *)
        (forall sc, In sc cs -> case_ready chs sc = false) /\ chs' = chs /\ v = VNil /\ ok = false
    | Some (SRecv c) =>
        exists ch, nth_error chs c = Some ch /\
          ((ok = true /\ ((exists b, buf ch = v :: b) \/
                          (exists ts, a = ARdv ts t c v /\ ts <> t /\ closed ch = false /\ buf ch = []))) \/
           (ok = false /\ v = VNil /\ closed ch = true /\ buf ch = []))
    | Some (SSend c w) =>
        exists ch, nth_error chs c = Some ch /\ closed ch = false /\ ok = false /\ v = VNil /\
          (room ch = true \/ (exists tr, a = ARdv t tr c w /\ t <> tr /\ buf ch = []))
    | None => False
    end.

Lemma forallb_negb_ready : forall chs cs, forallb (fun sc => negb (case_ready chs sc)) cs = true ->
  forall sc, In sc cs -> case_ready chs sc = false.
Proof.
  intros chs cs H sc Hin. rewrite forallb_forall in H. apply H in Hin. destruct (case_ready chs sc); auto.
Qed.

Lemma select_only_ready_lemma : select_only_ready_stmt.
Proof.
  intros chs a chs' t cs i v ok H Hr.
  destruct (op_unsafe (OSelect cs)) eqn:Eu.
  { unfold completes in Hr. rewrite Eu in Hr. destruct a; try discriminate. destruct (t =? t0); discriminate. }
  apply completes_safe_of in Hr; auto; try discriminate. unfold completes_safe in Hr.
  destruct (nth_error cs i) as [[c w|c|]|] eqn:Ei; try discriminate.
  - (* send case *)
    destruct (completes_plain t (OSend c w) a) as [r0|] eqn:E; try discriminate.
    destruct r0; try discriminate. inversion Hr; subst v ok. clear Hr.
    destruct a; simpl in E; try discriminate.
    + destruct ((t =? t0) && Nat.eqb c c0 && value_eqb w v) eqn:E1; try discriminate.
      apply andb_prop in E1. destruct E1 as [E1 E3]. apply andb_prop in E1. destruct E1 as [E1 E2].
      apply Nat.eqb_eq in E2. subst c0.
      destruct (apply_act_chan _ _ _ _ H eq_refl) as [ch [ch1 [G1 [G2 _]]]].
      simpl in G2. destruct (negb (closed ch) && room ch) eqn:E4; try discriminate.
      apply andb_prop in E4. destruct E4 as [E4 E5]. exists ch. repeat split; auto.
      destruct (closed ch); auto; discriminate.
    + destruct ((t =? ts) && Nat.eqb c c0 && value_eqb w v) eqn:E1; try discriminate.
      apply andb_prop in E1. destruct E1 as [E1 E3]. apply andb_prop in E1. destruct E1 as [E1 E2].
      apply Nat.eqb_eq in E2. apply Z.eqb_eq in E1. apply value_eqb_eq in E3. subst c0 ts v.
      destruct (apply_act_chan _ _ _ _ H eq_refl) as [ch [ch1 [G1 [G2 _]]]].
      simpl in G2. destruct (negb (closed ch) && is_nil (buf ch) && negb (t =? tr)) eqn:E4; try discriminate.
      apply andb_prop in E4. destruct E4 as [E4 E6]. apply andb_prop in E4. destruct E4 as [E4 E5].
      exists ch. repeat split; auto.
      * destruct (closed ch); auto; discriminate.
      * right. exists tr. repeat split; auto.
        -- intros ->. rewrite Z.eqb_refl in E6. discriminate.
        -- destruct (buf ch); auto; discriminate.
    + destruct ((t =? t0) && Nat.eqb c c0 && value_eqb w v); discriminate.
  - (* receive case *)
    destruct (completes_plain t (ORecv c) a) as [r0|] eqn:E; try discriminate.
    destruct r0 as [|ok0 v0| | | | | | |]; try discriminate. inversion Hr; subst v0 ok0. clear Hr.
    destruct a; simpl in E; try discriminate.
    + destruct ((t =? t0) && Nat.eqb c c0) eqn:E1; try discriminate. inversion E; subst v0 ok. clear E.
      apply andb_prop in E1. destruct E1 as [E1 E2]. apply Nat.eqb_eq in E2. subst c0.
      destruct (apply_act_chan _ _ _ _ H eq_refl) as [ch [ch1 [G1 [G2 _]]]].
      simpl in G2. destruct (buf ch) as [|x b] eqn:Eb; try discriminate.
      destruct (value_eqb x v) eqn:Ev; try discriminate. apply value_eqb_eq in Ev. subst x.
      exists ch. split; auto. left. split; auto. left. exists b. auto.
    + destruct ((t =? tr) && Nat.eqb c c0) eqn:E1; try discriminate. inversion E; subst v0 ok. clear E.
      apply andb_prop in E1. destruct E1 as [E1 E2]. apply Nat.eqb_eq in E2. apply Z.eqb_eq in E1. subst c0 tr.
      destruct (apply_act_chan _ _ _ _ H eq_refl) as [ch [ch1 [G1 [G2 _]]]].
      simpl in G2. destruct (negb (closed ch) && is_nil (buf ch) && negb (ts =? t)) eqn:E4; try discriminate.
      apply andb_prop in E4. destruct E4 as [E4 E6]. apply andb_prop in E4. destruct E4 as [E4 E5].
      exists ch. split; auto. left. split; auto. right. exists ts. repeat split; auto.
      * intros ->. rewrite Z.eqb_refl in E6. discriminate.
      * destruct (closed ch); auto; discriminate.
      * destruct (buf ch); auto; discriminate.
    + destruct ((t =? t0) && Nat.eqb c c0) eqn:E1; try discriminate. inversion E; subst v ok. clear E.
      apply andb_prop in E1. destruct E1 as [E1 E2]. apply Nat.eqb_eq in E2. subst c0.
      destruct (apply_act_chan _ _ _ _ H eq_refl) as [ch [ch1 [G1 [G2 _]]]].
      simpl in G2. destruct (closed ch && is_nil (buf ch)) eqn:E4; try discriminate.
      apply andb_prop in E4. destruct E4 as [E4 E5].
      exists ch. split; auto. right. repeat split; auto. destruct (buf ch); auto; discriminate.
  - (* default *)
    destruct a; try discriminate.
    destruct ((t =? t0) && list_eqb scase_eqb cs cs0) eqn:E1; try discriminate.
    inversion Hr; subst v ok. clear Hr.
    apply andb_prop in E1. destruct E1 as [_ E1]. apply (list_eqb_eq _ scase_eqb_eq) in E1. subst cs0.
    simpl in H. destruct (forallb (fun sc => negb (case_ready chs sc)) cs) eqn:E2; inversion H; subst.
    repeat split; auto. apply forallb_negb_ready; auto.
Qed.

(* ---------- payload filter ---------- *)
Definition payload_filter_stmt : Prop :=
  (forall i, isGoroutineSafe (VFunc i) = false) /\
  (forall i, isGoroutineSafe (VUserData i) = false) /\
  (forall i, isGoroutineSafe (VThread i) = false) /\
  (forall i es, isGoroutineSafe (VTable i true es) = false) /\
  (* offering such a value, by send or in any send case of a select, makes the operation unsafe *)
  (forall c v, isGoroutineSafe v = false -> op_unsafe (OSend c v) = true) /\
  (forall c v cs, isGoroutineSafe v = false -> In (SSend c v) cs -> op_unsafe (OSelect cs) = true) /\
  (* an unsafe operation can only end refused, and no channel is touched *)
  (forall t o a i r chs chs', op_unsafe o = true -> completes t o a i = Some r -> apply_act chs a = Some chs' ->
     r = RErrRefused /\ chs' = chs) /\
  (* the refusal is always enabled: it never blocks *)
  (forall s t o, find_t t (pend s) = Some o -> find_t t (fin s) = None -> op_unsafe o = true ->
     exists s', exec s (LLin (ARefused t) 0 0) = Some s' /\ chs s' = chs s /\ find_t t (fin s') = Some (o, RErrRefused)) /\
  (* nothing else is refused *)
  (forall t o a i, op_unsafe o = false -> completes t o a i <> Some RErrRefused).

Lemma completes_plain_not_refused : forall t o a, completes_plain t o a <> Some RErrRefused.
Proof.
  intros t o a H. destruct o, a; simpl in H; try discriminate;
    match type of H with (if ?X then _ else _) = _ => destruct X; discriminate end.
Qed.

Lemma payload_filter_lemma : payload_filter_stmt.
Proof.
  repeat split; auto.
  - intros c v H. simpl. rewrite H. auto.
  - intros c v cs H Hin. simpl. apply existsb_exists. exists (SSend c v). split; auto. simpl. rewrite H. auto.
  - unfold completes in H0. rewrite H in H0. destruct a; try discriminate. destruct (t =? t0); inversion H0; auto.
  - unfold completes in H0. rewrite H in H0. destruct a; try discriminate. simpl in H1. inversion H1; auto.
  - intros s t o Hp Hf Hu. unfold exec. simpl. unfold lin1. simpl. rewrite Hp, Hf. unfold completes. rewrite Hu, Z.eqb_refl.
    eexists. split; [reflexivity|]. simpl. rewrite Z.eqb_refl. auto.
  - intros t o a i Hu H. apply completes_safe_of in H; auto; try discriminate. unfold completes_safe in H.
    destruct o; try (eapply completes_plain_not_refused; eauto; fail).
    destruct (nth_error cs i) as [[c w|c|]|]; try discriminate.
    + destruct (completes_plain t (OSend c w) a) as [[]|]; discriminate.
    + destruct (completes_plain t (ORecv c) a) as [[]|]; discriminate.
    + destruct a; try discriminate. destruct ((t =? t0) && list_eqb scase_eqb cs cs0); discriminate.
Qed.

(* the filter is shallow: a plain table is accepted whatever it contains *)
Lemma payload_filter_shallow : forall i es, isGoroutineSafe (VTable i false es) = true.
Proof. reflexivity. Qed.

(* ---------- the log checker is sound ---------- *)
Local Arguments exec : simpl never.

Lemma try_cands_true : forall rec s log cs vis,
  fst (try_cands rec s log cs vis) = true ->
  exists p s' vis0, exec s (LLin (fst (fst p)) (snd (fst p)) (snd p)) = Some s' /\ fst (rec s' vis0) = true.
Proof.
  induction cs as [|p cs IH]; simpl; intros vis H; try discriminate.
  destruct (exec s (LLin (fst (fst p)) (snd (fst p)) (snd p))) as [s1|] eqn:E; [|eauto].
  destruct (consistent s1 log); [|eauto].
  destruct (fst (rec s1 vis)) eqn:Er; [|eauto].
  exists p, s1, vis. auto.
Qed.

Lemma search_sound : forall fuel s log vis, fst (search fuel s log vis) = true ->
  exists ls s', visible ls = log /\ run s ls = Some s' /\ quiescent s' = true.
Proof.
  induction fuel as [|f IH]; simpl; intros s log vis H; try discriminate.
  destruct log as [|[t o|t o r] rest].
  - exists [], s. auto.
  - destruct (exec s (LInv t o)) as [s1|] eqn:E; try discriminate.
    destruct (IH _ _ _ H) as [ls [s' [H1 [H2 H3]]]]. exists (LInv t o :: ls), s'. simpl. rewrite E, H1. auto.
  - destruct (exec s (LRes t o r)) as [s1|] eqn:E.
    + destruct (IH _ _ _ H) as [ls [s' [H1 [H2 H3]]]]. exists (LRes t o r :: ls), s'. simpl. rewrite E, H1. auto.
    + destruct (find_t t (pend s)); try discriminate.
      destruct (seen (length (ERes t o r :: rest)) s vis); try discriminate.
      match type of H with fst (if fst ?X then _ else _) = true => destruct (fst X) eqn:Et; try discriminate end.
      apply try_cands_true in Et. destruct Et as [p [s1 [vis0 [E1 Hp]]]].
      destruct (IH _ _ _ Hp) as [ls [s' [H1 [H2 H3]]]].
      exists (LLin (fst (fst p)) (snd (fst p)) (snd p) :: ls), s'. simpl. rewrite E1, H1. auto.
Qed.

Definition trace_ok_run_stmt : Prop :=
  forall caps log, trace_ok caps log = true ->
    exists ls s', visible ls = log /\ run (init caps) ls = Some s' /\ quiescent s' = true.

Lemma trace_ok_run_lemma : trace_ok_run_stmt.
Proof. intros caps log H. eapply search_sound; eauto. Qed.

(* ---------- linking what the log shows with what the run did ---------- *)
(* sd = true: sending side, sd = false: receiving side *)
Definition succ_x (sd : bool) := if sd then succ_send else succ_recv.
Definition role_x (sd : bool) (c : cid) (t : tid) (a : action) : list value :=
  if sd then
    match a with
    | ASend t' c' v => if (t =? t') && Nat.eqb c c' then [v] else []
    | ARdv ts _ c' v => if (t =? ts) && Nat.eqb c c' then [v] else []
    | _ => []
    end
  else
    match a with
    | ARecv t' c' v => if (t =? t') && Nat.eqb c c' then [v] else []
    | ARdv _ tr c' v => if (t =? tr) && Nat.eqb c c' then [v] else []
    | _ => []
    end.
Definition act_x (sd : bool) := if sd then act_sent else act_recvd.
Definition lab_x (sd : bool) (c : cid) (l : label) := match l with LLin a _ _ => act_x sd c a | _ => [] end.
Definition on_x (sd : bool) (c : cid) (ls : list label) := flat_map (lab_x sd c) ls.
Definition ev_x (sd : bool) (c : cid) (e : event) : list value :=
  match e with ERes _ o r => opt_list (succ_x sd c o r) | _ => [] end.
Definition log_x (sd : bool) (c : cid) (log : list event) := flat_map (ev_x sd c) log.

Lemma on_x_sent : forall c ls, on_x true c ls = sent_on c ls. Proof. reflexivity. Qed.
Lemma on_x_recvd : forall c ls, on_x false c ls = recvd_on c ls. Proof. reflexivity. Qed.
Lemma log_x_sent : forall c log, log_x true c log = log_sent c log. Proof. reflexivity. Qed.
Lemma log_x_recvd : forall c log, log_x false c log = log_recvd c log. Proof. reflexivity. Qed.

Definition rdv_ok (a : action) : Prop := match a with ARdv ts tr _ _ => ts <> tr | _ => True end.

Lemma apply_act_rdv_ok : forall chs a chs', apply_act chs a = Some chs' -> rdv_ok a.
Proof.
  intros chs a chs' H. destruct a; simpl; auto.
  destruct (apply_act_chan _ _ _ _ H eq_refl) as [ch [ch1 [_ [G _]]]]. simpl in G.
  destruct (negb (closed ch) && is_nil (buf ch) && negb (ts =? tr)) eqn:E; try discriminate.
  apply andb_prop in E. destruct E as [_ E]. intros ->. rewrite Z.eqb_refl in E. discriminate.
Qed.

Ltac split_andb := repeat match goal with
  | H : _ && _ = true |- _ => apply andb_prop in H; destruct H
  end.
Ltac eqs := repeat match goal with
  | H : (_ =? _) = true |- _ => apply Z.eqb_eq in H
  | H : Nat.eqb _ _ = true |- _ => apply Nat.eqb_eq in H
  | H : value_eqb _ _ = true |- _ => apply value_eqb_eq in H
  end.

Lemma neq_eqb_false : forall a b : Z, a <> b -> (a =? b) = false.
Proof. intros. apply Z.eqb_neq. auto. Qed.

Lemma completes_plain_role : forall sd c t o a r,
  completes_plain t o a = Some r -> rdv_ok a ->
  match o with OSelect _ => True | _ => opt_list (succ_x sd c o r) = role_x sd c t a end.
Proof.
  intros sd c t o a r H Hok.
  destruct o; auto; destruct a; simpl in H; try discriminate;
    match type of H with (if ?X then _ else _) = _ => destruct X eqn:E; inversion H; subst; clear H end;
    split_andb; eqs; subst; simpl in Hok;
    destruct sd; simpl; rewrite ?Z.eqb_refl; simpl; auto;
    try (destruct (Nat.eqb c _); reflexivity).
  - rewrite neq_eqb_false; auto.
  - rewrite neq_eqb_false; auto.
Qed.

Lemma completes_role : forall sd c t o a i r,
  completes t o a i = Some r -> rdv_ok a -> opt_list (succ_x sd c o r) = role_x sd c t a.
Proof.
  intros sd c t o a i r H Hok.
  destruct (op_unsafe o) eqn:Eu.
  { unfold completes in H. rewrite Eu in H. destruct a; try discriminate. destruct (t =? t0); inversion H; subst.
    destruct sd, o; reflexivity. }
  destruct (completes_inv _ _ _ _ _ Eu H) as [[-> [-> _]]|[_ G0]].
  { destruct sd, o; reflexivity. }
  clear H. rename G0 into H. unfold completes_safe in H.
  destruct o as [c0 v0|c0|c0|cs];
    try (exact (completes_plain_role sd c t _ a r H Hok)).
  destruct (nth_error cs i) as [[c0 w|c0|]|] eqn:Ei; try discriminate.
  - destruct (completes_plain t (OSend c0 w) a) as [r0|] eqn:E; try discriminate.
    pose proof (completes_plain_role sd c t _ a r0 E Hok) as G. simpl in G.
    destruct r0; try discriminate; inversion H; subst; clear H; rewrite <- G;
      destruct sd; simpl; rewrite ?Ei; auto.
  - destruct (completes_plain t (ORecv c0) a) as [r0|] eqn:E; try discriminate.
    pose proof (completes_plain_role sd c t _ a r0 E Hok) as G. simpl in G.
    destruct r0; try discriminate; inversion H; subst; clear H; rewrite <- G;
      destruct sd; simpl; rewrite ?Ei; auto.
  - destruct a; try discriminate. destruct ((t =? t0) && list_eqb scase_eqb cs cs0); inversion H; subst.
    destruct sd; simpl; rewrite ?Ei; auto.
Qed.

Lemma act_x_role : forall sd c a, rdv_ok a ->
  vals (act_x sd c a) =
  match a with
  | ARdv ts tr _ _ => role_x sd c ts a ++ role_x sd c tr a
  | _ => role_x sd c (act_tid a) a
  end.
Proof.
  intros sd c a Hok. destruct sd, a; simpl in *; rewrite ?Z.eqb_refl; simpl; auto;
    try (destruct (Nat.eqb c _); reflexivity).
  - rewrite (neq_eqb_false tr ts) by auto. simpl. rewrite app_nil_r. destruct (Nat.eqb c c0); reflexivity.
  - rewrite (neq_eqb_false ts tr) by auto. simpl. destruct (Nat.eqb c c0); reflexivity.
Qed.

Lemma role_x_other : forall sd c t a, (match a with ARdv _ tr _ _ => t <> tr | _ => True end) -> t <> act_tid a -> role_x sd c t a = [].
Proof.
  intros sd c t a H1 H2. destruct sd, a; simpl in *; auto; rewrite neq_eqb_false; auto.
Qed.

(* --- as multisets --- *)
Definition fin_x (sd : bool) (c : cid) (f : list (tid * (op * res))) : list value :=
  flat_map (fun e => opt_list (succ_x sd c (fst (snd e)) (snd (snd e)))) f.

Lemma find_none_notin {B} : forall t (l : list (tid * B)), find_t t l = None -> ~ In t (map fst l).
Proof.
  induction l as [|[u b] l IH]; simpl; intros H; auto.
  destruct (t =? u) eqn:E; try discriminate. apply Z.eqb_neq in E. intros [F|F]; auto. apply IH; auto.
Qed.

Lemma remove_notin {B} : forall t (l : list (tid * B)), ~ In t (map fst l) -> remove_t t l = l.
Proof.
  induction l as [|[u b] l IH]; simpl; intros H; auto.
  destruct (t =? u) eqn:E.
  - apply Z.eqb_eq in E. subst. exfalso. auto.
  - f_equal. auto.
Qed.

Lemma remove_keys_incl {B} : forall t u (l : list (tid * B)), In u (map fst (remove_t t l)) -> In u (map fst l).
Proof.
  induction l as [|[w b] l IH]; simpl; intros H; auto.
  destruct (t =? w); simpl in *; intuition.
Qed.

Lemma remove_nodup {B} : forall t (l : list (tid * B)), NoDup (map fst l) -> NoDup (map fst (remove_t t l)).
Proof.
  induction l as [|[w b] l IH]; simpl; intros H; auto.
  inversion H; subst. destruct (t =? w); simpl; auto.
  constructor; auto. intros F. apply remove_keys_incl in F. auto.
Qed.

Lemma fin_x_remove : forall sd c v t f o r, NoDup (map fst f) -> find_t t f = Some (o, r) ->
  count v (fin_x sd c f) = (count v (opt_list (succ_x sd c o r)) + count v (fin_x sd c (remove_t t f)))%nat.
Proof.
  induction f as [|[u [o' r']] f IH]; simpl; intros o r Hnd H; try discriminate.
  inversion Hnd; subst.
  destruct (t =? u) eqn:E.
  - apply Z.eqb_eq in E. subst. inversion H; subst. rewrite remove_notin; auto. rewrite count_app. auto.
  - simpl. rewrite !count_app. rewrite (IH o r); auto. lia.
Qed.

Definition fin_nodup (s : state) : Prop := NoDup (map fst (fin s)).

Lemma lin1_fin : forall s t a i s', lin1 s t a i = Some s' ->
  exists o r, find_t t (pend s) = Some o /\ find_t t (fin s) = None /\ completes t o a i = Some r /\
              fin s' = (t, (o, r)) :: fin s /\ pend s' = remove_t t (pend s).
Proof.
  unfold lin1. intros s t a i s' H.
  destruct (find_t t (pend s)) as [o|]; try discriminate.
  destruct (find_t t (fin s)) eqn:Ef; try discriminate.
  destruct (completes t o a i) as [r|] eqn:Ec; inversion H; subst. simpl. exists o, r. auto.
Qed.

Lemma exec_count : forall sd c v s l s', fin_nodup s -> exec s l = Some s' ->
  fin_nodup s' /\
  (count v (vals (lab_x sd c l)) + count v (fin_x sd c (fin s)) =
   count v (flat_map (ev_x sd c) (visible1 l)) + count v (fin_x sd c (fin s')))%nat.
Proof.
  intros sd c v s l s' Hnd H. unfold fin_nodup in *. destruct l; unfold exec in H.
  - destruct (busy s t); inversion H; subst. simpl. auto.
  - destruct (apply_act (chs s) a) as [chs1|] eqn:Ea; try discriminate.
    pose proof (apply_act_rdv_ok _ _ _ Ea) as Hok.
    assert (G : forall u, u = act_tid a -> (match a with ARdv _ _ _ _ => False | _ => True end) ->
                lin1 (mkSt chs1 (pend s) (fin s)) u a i = Some s' ->
                NoDup (map fst (fin s')) /\
                (count v (vals (act_x sd c a)) + count v (fin_x sd c (fin s)) = 0 + count v (fin_x sd c (fin s')))%nat).
    { intros u Hu Hnr Hl. destruct (lin1_fin _ _ _ _ _ Hl) as [o [r [G1 [G2 [G3 [G4 _]]]]]]. simpl in *.
      rewrite G4. simpl. split.
      - constructor; auto. apply find_none_notin; auto.
      - rewrite count_app. rewrite (completes_role sd c _ _ _ _ _ G3 Hok).
        rewrite (act_x_role sd c a Hok). subst u. destruct a; try contradiction; lia. }
    simpl. destruct a as [| |ts tr c0 v0| | | | | | |]; try (apply (G _ eq_refl I H)).
    destruct (lin1 (mkSt chs1 (pend s) (fin s)) ts (ARdv ts tr c0 v0) i) as [s1|] eqn:E1; try discriminate.
    destruct (lin1_fin _ _ _ _ _ E1) as [o1 [r1 [A1 [A2 [A3 [A4 _]]]]]].
    destruct (lin1_fin _ _ _ _ _ H) as [o2 [r2 [B1 [B2 [B3 [B4 _]]]]]]. simpl in *.
    rewrite B4, A4 in *.
    pose proof (find_none_notin _ _ B2) as N2. pose proof (find_none_notin _ _ A2) as N1.
    split.
    + constructor; auto. constructor; auto.
    + simpl. rewrite !count_app.
      rewrite (completes_role sd c ts o1 (ARdv ts tr c0 v0) i r1 A3 Hok), (completes_role sd c tr o2 (ARdv ts tr c0 v0) j r2 B3 Hok).
      rewrite (act_x_role sd c (ARdv ts tr c0 v0) Hok). rewrite count_app. lia.
  - destruct (find_t t (fin s)) as [[o' r']|] eqn:Ef; try discriminate.
    destruct (op_eqb o o' && res_eqb r r') eqn:E; inversion H; subst. simpl.
    apply andb_prop in E. destruct E as [E1 E2]. apply op_eqb_eq in E1. apply res_eqb_eq in E2. subst.
    split; [apply remove_nodup; auto|].
    rewrite app_nil_r. rewrite (fin_x_remove sd c v t (fin s) o' r'); auto.
Qed.

Lemma run_count : forall sd c v ls s s', fin_nodup s -> run s ls = Some s' ->
  (count v (vals (on_x sd c ls)) + count v (fin_x sd c (fin s)) =
   count v (log_x sd c (visible ls)) + count v (fin_x sd c (fin s')))%nat.
Proof.
  induction ls as [|l ls IH]; simpl; intros s s' Hnd H.
  - inversion H; subst. auto.
  - destruct (exec s l) as [s1|] eqn:E; try discriminate.
    destruct (exec_count sd c v _ _ _ Hnd E) as [Hnd1 G]. specialize (IH _ _ Hnd1 H).
    unfold on_x, log_x, visible in *. simpl. rewrite flat_map_app. rewrite !vals_app, !count_app.
    fold (log_x sd c (visible1 l)). unfold log_x. lia.
Qed.

Lemma quiescent_fin : forall s, quiescent s = true -> fin s = [].
Proof. unfold quiescent. intros s H. apply andb_prop in H. destruct H as [_ H]. destruct (fin s); auto; discriminate. Qed.

(* exactly once, read off the log alone *)
Definition log_exactly_once_stmt : Prop :=
  forall caps log, trace_ok caps log = true ->
  forall c v, (c < length caps)%nat -> (count v (log_recvd c log) <= count v (log_sent c log))%nat.

Lemma log_exactly_once_lemma : log_exactly_once_stmt.
Proof.
  intros caps log H c v Hc. destruct (trace_ok_run_lemma _ _ H) as [ls [s' [H1 [H2 H3]]]]. subst log.
  assert (Hnd : fin_nodup (init caps)) by constructor.
  pose proof (run_count true c v _ _ _ Hnd H2) as S. pose proof (run_count false c v _ _ _ Hnd H2) as R.
  rewrite (quiescent_fin _ H3) in S, R. simpl in S, R.
  destruct (chan_exactly_once_lemma _ _ _ _ H2 Hc) as [ch [_ [_ [_ [M _]]]]]. specialize (M v).
  rewrite on_x_sent, log_x_sent in S. rewrite on_x_recvd, log_x_recvd in R. lia.
Qed.

(* --- per thread, in program order --- *)
Definition thread_x (sd : bool) (t : tid) (c : cid) (ls : list label) : list value :=
  flat_map (fun l => match l with LLin a _ _ => role_x sd c t a | _ => [] end) ls.
Definition ev_x_by (sd : bool) (t : tid) (c : cid) (e : event) : list value :=
  match e with ERes u o r => if t =? u then opt_list (succ_x sd c o r) else [] | _ => [] end.
Definition log_x_by (sd : bool) (t : tid) (c : cid) (log : list event) := flat_map (ev_x_by sd t c) log.
Definition fin_by (sd : bool) (t : tid) (c : cid) (f : list (tid * (op * res))) : list value :=
  match find_t t f with Some (o, r) => opt_list (succ_x sd c o r) | None => [] end.

Lemma log_x_by_sent : forall t c log, log_x_by true t c log = log_sent_by t c log. Proof. reflexivity. Qed.
Lemma log_x_by_recvd : forall t c log, log_x_by false t c log = log_recvd_by t c log. Proof. reflexivity. Qed.

Lemma fin_by_cons_other : forall sd t c u x f, t <> u -> fin_by sd t c ((u, x) :: f) = fin_by sd t c f.
Proof. intros. unfold fin_by. simpl. rewrite neq_eqb_false; auto. Qed.

Lemma fin_by_cons_same : forall sd t c o r f, fin_by sd t c ((t, (o, r)) :: f) = opt_list (succ_x sd c o r).
Proof. intros. unfold fin_by. simpl. rewrite Z.eqb_refl. auto. Qed.

Lemma exec_thread : forall sd t c s l s', exec s l = Some s' ->
  fin_by sd t c (fin s) ++ match l with LLin a _ _ => role_x sd c t a | _ => [] end =
  flat_map (ev_x_by sd t c) (visible1 l) ++ fin_by sd t c (fin s').
Proof.
  intros sd t c s l s' H. destruct l; unfold exec in H.
  - destruct (busy s t0); inversion H; subst. simpl. apply app_nil_r.
  - destruct (apply_act (chs s) a) as [chs1|] eqn:Ea; try discriminate.
    pose proof (apply_act_rdv_ok _ _ _ Ea) as Hok.
    assert (G : forall u, u = act_tid a -> (match a with ARdv _ _ _ _ => False | _ => True end) ->
                lin1 (mkSt chs1 (pend s) (fin s)) u a i = Some s' ->
                fin_by sd t c (fin s) ++ role_x sd c t a = fin_by sd t c (fin s')).
    { intros u Hu Hnr Hl. destruct (lin1_fin _ _ _ _ _ Hl) as [o [r [G1 [G2 [G3 [G4 _]]]]]]. simpl in *.
      rewrite G4. destruct (Z.eq_dec t u) as [->|N].
      - rewrite fin_by_cons_same. unfold fin_by. rewrite G2. simpl.
        symmetry. apply (completes_role sd c u o a i r G3 Hok).
      - rewrite fin_by_cons_other by auto. rewrite role_x_other; [apply app_nil_r| |congruence].
        destruct a; auto; contradiction. }
    simpl. destruct a as [| |ts tr c0 v0| | | | | | |]; try (apply (G _ eq_refl I H)).
    destruct (lin1 (mkSt chs1 (pend s) (fin s)) ts (ARdv ts tr c0 v0) i) as [s1|] eqn:E1; try discriminate.
    destruct (lin1_fin _ _ _ _ _ E1) as [o1 [r1 [A1 [A2 [A3 [A4 _]]]]]].
    destruct (lin1_fin _ _ _ _ _ H) as [o2 [r2 [B1 [B2 [B3 [B4 _]]]]]]. simpl in A2, A4.
    rewrite B4, A4 in *.
    assert (Hne : ts <> tr) by exact Hok.
    destruct (Z.eq_dec t tr) as [->|N2].
    + rewrite fin_by_cons_same. unfold fin_by at 1.
      simpl in B2. rewrite (neq_eqb_false tr ts) in B2 by auto. rewrite B2. simpl.
      symmetry. apply (completes_role sd c tr o2 (ARdv ts tr c0 v0) j r2 B3 Hok).
    + rewrite fin_by_cons_other by auto.
      destruct (Z.eq_dec t ts) as [->|N1].
      * rewrite fin_by_cons_same. unfold fin_by. rewrite A2. simpl.
        symmetry. apply (completes_role sd c ts o1 (ARdv ts tr c0 v0) i r1 A3 Hok).
      * rewrite fin_by_cons_other by auto. rewrite role_x_other; auto. apply app_nil_r.
  - destruct (find_t t0 (fin s)) as [[o' r']|] eqn:Ef; try discriminate.
    destruct (op_eqb o o' && res_eqb r r') eqn:E; inversion H; subst. simpl.
    apply andb_prop in E. destruct E as [E1 E2]. apply op_eqb_eq in E1. apply res_eqb_eq in E2. subst.
    rewrite !app_nil_r. destruct (t =? t0) eqn:Et.
    + apply Z.eqb_eq in Et. subst. unfold fin_by. rewrite Ef, find_remove_same. rewrite app_nil_r. auto.
    + apply Z.eqb_neq in Et. unfold fin_by. rewrite find_remove_other; auto.
Qed.

Lemma run_thread : forall sd t c ls s s', run s ls = Some s' ->
  fin_by sd t c (fin s) ++ thread_x sd t c ls = log_x_by sd t c (visible ls) ++ fin_by sd t c (fin s').
Proof.
  induction ls as [|l ls IH]; simpl; intros s s' H.
  - inversion H; subst. apply app_nil_r.
  - destruct (exec s l) as [s1|] eqn:E; try discriminate.
    pose proof (exec_thread sd t c _ _ _ E) as G. specialize (IH _ _ H).
    unfold log_x_by, visible in *. rewrite flat_map_app.
    rewrite app_assoc, G, <- app_assoc, IH, app_assoc. auto.
Qed.

Lemma role_x_filter : forall sd c t a, role_x sd c t a = vals (filter (from_sender t) (act_x sd c a)).
Proof.
  intros sd c t a. unfold from_sender. destruct sd, a; simpl; auto;
    rewrite (Z.eqb_sym t); destruct (Nat.eqb c _); simpl; rewrite ?andb_true_r, ?andb_false_r; auto;
    match goal with |- context [?x =? t] => destruct (x =? t); auto end.
Qed.

Lemma thread_x_filter : forall sd t c ls, thread_x sd t c ls = vals (filter (from_sender t) (on_x sd c ls)).
Proof.
  induction ls as [|l ls IH]; simpl; auto.
  unfold on_x in *. simpl. rewrite filter_app, vals_app, <- IH. f_equal.
  destruct l; auto. apply role_x_filter.
Qed.

(* --- subsequences --- *)
Lemma subseq_refl {A} : forall l : list A, subseq l l.
Proof. induction l; constructor; auto. Qed.

Lemma subseq_nil {A} : forall l : list A, subseq [] l.
Proof. induction l; constructor; auto. Qed.

Lemma subseq_in {A} : forall (l1 l2 : list A), subseq l1 l2 -> forall x, In x l1 -> In x l2.
Proof. induction 1; simpl; intros y Hy; auto. destruct Hy; auto. Qed.

Lemma subseq_trans {A} : forall (l2 l3 : list A), subseq l2 l3 -> forall l1, subseq l1 l2 -> subseq l1 l3.
Proof.
  induction 1; intros l0 H0; auto.
  - inversion H0; subst; constructor; auto.
  - constructor; auto.
Qed.

Lemma subseq_app_l {A} : forall (a b : list A), subseq a (a ++ b).
Proof. induction a; simpl; intros. apply subseq_nil. constructor; auto. Qed.

Lemma subseq_map_filter {A B} (f : A -> B) (p : A -> bool) : forall l, subseq (map f (filter p l)) (map f l).
Proof. induction l; simpl. constructor. destruct (p a); simpl; constructor; auto. Qed.

Lemma mem_in : forall v l, mem v l = true <-> In v l.
Proof.
  intros v l. unfold mem. rewrite existsb_exists. split.
  - intros [x [H1 H2]]. apply value_eqb_eq in H2. subst. auto.
  - intros H. exists v. split; auto. apply value_eqb_refl.
Qed.

Lemma mem_false : forall v l, ~ In v l -> mem v l = false.
Proof. intros v l H. destruct (mem v l) eqn:E; auto. apply mem_in in E. contradiction. Qed.

Lemma filter_mem_cons_notin : forall x S R, ~ In x R -> filter (fun v => mem v (x :: S)) R = filter (fun v => mem v S) R.
Proof.
  intros x S R H. apply filter_ext_in. intros v Hv. unfold mem. simpl.
  destruct (value_eqb v x) eqn:E; auto. apply value_eqb_eq in E. subst. contradiction.
Qed.

Lemma subseq_common : forall V, NoDup V -> forall R S, subseq R V -> subseq S V ->
  subseq (filter (fun v => mem v S) R) S.
Proof.
  induction V as [|x V IH]; intros Hnd R S HR HS.
  - inversion HR; inversion HS; subst. simpl. constructor.
  - inversion Hnd as [|? ? Hx HndV]; subst.
    inversion HR as [|? R' ? HR'|? ? ? HR']; inversion HS as [|? S' ? HS'|? ? ? HS']; subst.
    + assert (Hn : ~ In x R') by (intros F; apply Hx; exact (subseq_in _ _ HR' _ F)).
      assert (Em : mem x (x :: S') = true) by (apply (proj2 (mem_in _ _)); simpl; auto).
      cbn [filter]. rewrite Em. constructor. rewrite filter_mem_cons_notin; auto.
    + assert (Hn : ~ In x S) by (intros F; apply Hx; exact (subseq_in _ _ HS' _ F)).
      cbn [filter]. rewrite (mem_false _ _ Hn). auto.
    + rewrite filter_mem_cons_notin.
      * constructor. auto.
      * intros F. apply Hx. exact (subseq_in _ _ HR' _ F).
    + auto.
Qed.

Lemma count_le1_nodup : forall l, (forall v, (count v l <= 1)%nat) -> NoDup l.
Proof.
  induction l as [|x l IH]; intros H; constructor.
  - intros Hin. specialize (H x). simpl in H. rewrite value_eqb_refl in H.
    assert (count x l >= 1)%nat; [|lia].
    clear -Hin. induction l as [|y l IH]; simpl in *; [contradiction|].
    destruct Hin as [->|Hin]; [rewrite value_eqb_refl; lia|]. apply IH in Hin. lia.
  - apply IH. intros v. specialize (H v). simpl in H. lia.
Qed.

Lemma nodup_count_le1 : forall l, NoDup l -> forall v, (count v l <= 1)%nat.
Proof.
  induction 1 as [|x l Hx Hnd IH]; intros v; simpl; auto.
  destruct (value_eqb x v) eqn:E; [|apply IH].
  apply value_eqb_eq in E. subst. specialize (IH v).
  assert (count v l = 0)%nat; [|lia].
  clear -Hx. induction l as [|y l IH]; simpl in *; auto.
  destruct (value_eqb y v) eqn:E; [apply value_eqb_eq in E; subst; exfalso; auto|]. apply IH. auto.
Qed.

(* per-sender order, read off the log alone: whatever a receiver rc took from channel c, restricted
   to the values sender sd put into c, appears in rc's program order as a subsequence of sd's
   program order (payloads on c pairwise distinct, so that values identify messages) *)
Definition log_fifo_stmt : Prop :=
  forall caps log, trace_ok caps log = true ->
  forall c sd rc, (c < length caps)%nat -> NoDup (log_sent c log) ->
    subseq (filter (fun v => mem v (log_sent_by sd c log)) (log_recvd_by rc c log)) (log_sent_by sd c log).

Lemma log_fifo_lemma : log_fifo_stmt.
Proof.
  intros caps log H c sd rc Hc Hnd. destruct (trace_ok_run_lemma _ _ H) as [ls [s' [H1 [H2 H3]]]]. subst log.
  pose proof (run_thread true sd c _ _ _ H2) as S. pose proof (run_thread false rc c _ _ _ H2) as R.
  rewrite (quiescent_fin _ H3) in S, R. unfold fin_by in S, R. simpl in S, R. rewrite app_nil_r in S, R.
  rewrite log_x_by_sent in S. rewrite log_x_by_recvd in R. rewrite <- S, <- R.
  rewrite !thread_x_filter. rewrite on_x_sent, on_x_recvd.
  destruct (chan_run_eq _ _ _ _ H2 Hc) as [ch [_ [G _]]].
  apply (subseq_common (vals (sent_on c ls))).
  - apply count_le1_nodup. intros v.
    assert (Hi : fin_nodup (init caps)) by constructor.
    pose proof (run_count true c v _ _ _ Hi H2) as C. rewrite (quiescent_fin _ H3) in C. simpl in C.
    rewrite on_x_sent, log_x_sent in C. pose proof (nodup_count_le1 _ Hnd v). lia.
  - eapply subseq_trans; [|apply subseq_map_filter]. rewrite G. apply subseq_app_l.
  - apply subseq_map_filter.
Qed.

(* ---------- per-sender order in real time ---------- *)
Lemma visible_split : forall ls log1 log2, visible ls = log1 ++ log2 ->
  exists l1 l2, ls = l1 ++ l2 /\ visible l1 = log1 /\ visible l2 = log2.
Proof.
  induction ls as [|l ls IH]; intros log1 log2 H.
  - destruct log1; destruct log2; try discriminate. exists [], []. auto.
  - unfold visible in H. simpl in H. fold (visible ls) in H.
    destruct (visible1 l) as [|e [|e' r]] eqn:El.
    + simpl in H. destruct (IH _ _ H) as [l1 [l2 [A [B C]]]]. exists (l :: l1), l2. subst.
      split; auto. split; auto. unfold visible. simpl. rewrite El. auto.
    + destruct log1 as [|e1 log1].
      * exists [], (l :: ls). split; auto. split; auto. unfold visible. simpl. rewrite El. exact H.
      * simpl in H. inversion H; subst. destruct (IH _ _ H2) as [l1 [l2 [A [B C]]]]. exists (l :: l1), l2. subst.
        split; auto. split; auto. unfold visible. simpl. rewrite El. auto.
    + destruct l; simpl in El; discriminate.
Qed.

Lemma run_split : forall l1 l2 s s', run s (l1 ++ l2) = Some s' -> exists s1, run s l1 = Some s1 /\ run s1 l2 = Some s'.
Proof.
  induction l1 as [|l l1 IH]; simpl; intros l2 s s' H.
  - exists s. auto.
  - destruct (exec s l) as [s0|]; try discriminate. apply IH; auto.
Qed.

Lemma count_pos_in : forall v l, (count v l >= 1)%nat -> In v l.
Proof.
  induction l as [|x l IH]; simpl; intros H; [lia|].
  destruct (value_eqb x v) eqn:E; [apply value_eqb_eq in E; auto|]. right. apply IH. lia.
Qed.

Lemma in_count_pos : forall v l, In v l -> (count v l >= 1)%nat.
Proof.
  induction l as [|x l IH]; simpl; intros H; [contradiction|].
  destruct H as [->|H]; [rewrite value_eqb_refl; lia|]. apply IH in H. lia.
Qed.

(* thread status versus the log *)
Definition status_inv (u : tid) (s : state) (b : bool) : Prop :=
  (find_t u (pend s) <> None -> b = true /\ find_t u (fin s) = None) /\
  (find_t u (fin s) <> None -> b = true).

Lemma status_step : forall u s l s' b, exec s l = Some s' -> status_inv u s b ->
  status_inv u s' (open_from b u (visible1 l)).
Proof.
  intros u s l s' b H [J1 J2]. destruct l; unfold exec in H.
  - destruct (busy s t) eqn:Eb; inversion H; subst; clear H. simpl.
    destruct (u =? t) eqn:E.
    + apply Z.eqb_eq in E. subst. unfold busy in Eb.
      destruct (find_t t (pend s)); try discriminate. destruct (find_t t (fin s)) eqn:Ef; try discriminate.
      split; simpl; intros; auto.
    + split; simpl; rewrite ?E; auto.
  - simpl. destruct (apply_act (chs s) a) as [chs1|]; try discriminate.
    assert (G : forall s0 t0 i0 s1, lin1 s0 t0 a i0 = Some s1 -> status_inv u s0 b -> status_inv u s1 b).
    { intros s0 t0 i0 s1 Hl [K1 K2]. destruct (lin1_fin _ _ _ _ _ Hl) as [o [r [G1 [G2 [G3 [G4 G5]]]]]].
      unfold status_inv. rewrite G4, G5. destruct (Z.eq_dec t0 u) as [->|N].
      - rewrite find_remove_same. simpl. rewrite Z.eqb_refl. split; intros; try congruence.
        apply K1. congruence.
      - rewrite find_remove_other by auto. simpl. rewrite neq_eqb_false by auto. auto. }
    assert (J0 : status_inv u (mkSt chs1 (pend s) (fin s)) b) by (split; auto).
    destruct a as [| |ts tr c0 v0| | | | | | |]; try (eapply G; eauto; fail).
    destruct (lin1 (mkSt chs1 (pend s) (fin s)) ts (ARdv ts tr c0 v0) i) as [s1|] eqn:E1; try discriminate.
    eapply G; eauto.
  - destruct (find_t t (fin s)) as [[o' r']|] eqn:Ef; try discriminate.
    destruct (op_eqb o o' && res_eqb r r'); inversion H; subst; clear H. simpl.
    destruct (u =? t) eqn:E.
    + apply Z.eqb_eq in E. subst. split; simpl.
      * intros Hp. destruct (J1 Hp) as [_ F]. congruence.
      * rewrite find_remove_same. congruence.
    + apply Z.eqb_neq in E. split; simpl; rewrite ?find_remove_other by auto; auto.
Qed.

Lemma open_from_app : forall u l1 l2 b, open_from b u (l1 ++ l2) = open_from (open_from b u l1) u l2.
Proof. induction l1 as [|[t o|t o r] l1 IH]; simpl; intros; auto. Qed.

Lemma status_run : forall u ls s s' b, run s ls = Some s' -> status_inv u s b ->
  status_inv u s' (open_from b u (visible ls)).
Proof.
  induction ls as [|l ls IH]; simpl; intros s s' b H J.
  - inversion H; subst. auto.
  - destruct (exec s l) as [s1|] eqn:E; try discriminate.
    unfold visible. simpl. rewrite open_from_app. eapply IH; eauto. eapply status_step; eauto.
Qed.

Lemma subseq_two_app {A} : forall (x1 x2 : A) R1 R2, In x1 R1 -> In x2 R2 -> subseq [x1; x2] (R1 ++ R2).
Proof.
  intros x1 x2 R1 R2 H1 H2.
  apply in_split in H1. destruct H1 as [a [b ->]]. apply in_split in H2. destruct H2 as [c [d ->]].
  rewrite <- app_assoc. simpl.
  assert (P : forall (p : list A) l1 l2, subseq l1 l2 -> subseq l1 (p ++ l2)).
  { induction p; simpl; intros; auto. constructor. auto. }
  apply P. constructor. apply P. apply P. constructor. apply subseq_nil.
Qed.

(* if a receive of x1 has returned before receiver rc invoked the operation that received x2, and
   sender sd sent both, then sd sent x1 first *)
Definition log_fifo_realtime_stmt : Prop :=
  forall caps log1 log2, trace_ok caps (log1 ++ log2) = true ->
  forall c sd rc x1 x2, (c < length caps)%nat -> NoDup (log_sent c (log1 ++ log2)) ->
    In x1 (log_recvd c log1) ->
    open_inv rc log1 = false ->
    In x2 (log_recvd_by rc c log2) ->
    In x1 (log_sent_by sd c (log1 ++ log2)) -> In x2 (log_sent_by sd c (log1 ++ log2)) ->
    subseq [x1; x2] (log_sent_by sd c (log1 ++ log2)).

Lemma log_fifo_realtime_lemma : log_fifo_realtime_stmt.
Proof.
  intros caps log1 log2 H c sd rc x1 x2 Hc Hnd Hx1 Hopen Hx2 Hs1 Hs2.
  destruct (trace_ok_run_lemma _ _ H) as [ls [s' [H1 [H2 H3]]]].
  destruct (visible_split _ _ _ H1) as [l1 [l2 [-> [V1 V2]]]].
  destruct (run_split _ _ _ _ H2) as [s1 [R1 R2]].
  assert (Hi : fin_nodup (init caps)) by constructor.
  (* x1 has been received within l1 *)
  assert (A1 : In x1 (vals (recvd_on c l1))).
  { apply count_pos_in. pose proof (run_count false c x1 _ _ _ Hi R1) as C. simpl in C.
    rewrite on_x_recvd, log_x_recvd, V1 in C. apply in_count_pos in Hx1. lia. }
  (* rc is idle at the split, so what it receives in log2 is received within l2 *)
  assert (A2 : In x2 (vals (recvd_on c l2))).
  { assert (J0 : status_inv rc (init caps) false) by (split; simpl; intros F; congruence).
    pose proof (status_run rc _ _ _ _ R1 J0) as [_ J2]. rewrite V1 in J2. fold (open_inv rc log1) in J2.
    assert (Ef : find_t rc (fin s1) = None).
    { destruct (find_t rc (fin s1)) eqn:E; auto. assert (open_inv rc log1 = true) by (apply J2; congruence). congruence. }
    pose proof (run_thread false rc c _ _ _ R2) as T. rewrite (quiescent_fin _ H3) in T.
    unfold fin_by in T. rewrite Ef in T. simpl in T. rewrite app_nil_r in T.
    rewrite V2, log_x_by_recvd in T. rewrite <- T in Hx2. rewrite thread_x_filter, on_x_recvd in Hx2.
    eapply subseq_in; [apply subseq_map_filter|exact Hx2]. }
  (* put together *)
  pose proof (run_thread true sd c _ _ _ H2) as S. rewrite (quiescent_fin _ H3) in S.
  unfold fin_by in S. simpl in S. rewrite app_nil_r in S. rewrite H1, log_x_by_sent in S.
  destruct (chan_run_eq _ _ _ _ H2 Hc) as [ch [_ [G _]]].
  assert (NV : NoDup (vals (sent_on c (l1 ++ l2)))).
  { apply count_le1_nodup. intros v.
    pose proof (run_count true c v _ _ _ Hi H2) as C. rewrite (quiescent_fin _ H3) in C. simpl in C.
    rewrite on_x_sent, log_x_sent, H1 in C. pose proof (nodup_count_le1 _ Hnd v). lia. }
  assert (P : subseq (filter (fun v => mem v (log_sent_by sd c (log1 ++ log2))) [x1; x2]) (log_sent_by sd c (log1 ++ log2))).
  { apply (subseq_common _ NV).
    - eapply subseq_trans with (l2 := vals (recvd_on c (l1 ++ l2))).
      + rewrite G. apply subseq_app_l.
      + unfold recvd_on. rewrite flat_map_app, vals_app. apply subseq_two_app; auto.
    - rewrite <- S, thread_x_filter, on_x_sent. apply subseq_map_filter. }
  simpl in P. rewrite (proj2 (mem_in _ _) Hs1), (proj2 (mem_in _ _) Hs2) in P. exact P.
Qed.

(* ---------- an operation that fails for lack of room has not touched any channel ---------- *)
Definition limit_failure_stmt : Prop :=
  (* the failure is a step of the failing thread alone; every channel (buffer, closed flag) and every
     other thread's operation is left exactly as it was *)
  (forall s t i j s', exec s (LLin (ALimit t) i j) = Some s' ->
     chs s' = chs s /\
     exists o, find_t t (pend s) = Some o /\ op_reserves o = true /\ op_unsafe o = false /\
               fin s' = (t, (o, RErrLimit)) :: fin s /\ pend s' = remove_t t (pend s)) /\
  (* it is the only way an operation ends RErrLimit; send and close never do *)
  (forall t o a i, completes t o a i = Some RErrLimit -> a = ALimit t /\ op_reserves o = true /\ op_unsafe o = false) /\
  (* it never blocks *)
  (forall s t o, find_t t (pend s) = Some o -> find_t t (fin s) = None -> op_reserves o = true -> op_unsafe o = false ->
     exists s', exec s (LLin (ALimit t) 0 0) = Some s' /\ find_t t (fin s') = Some (o, RErrLimit)) /\
  (* the value the failed receive could have taken is still the next one delivered: any pending
     receive on that channel (the retry of the same thread included) can take the same head *)
  (forall s t i j s' c ch x b u, exec s (LLin (ALimit t) i j) = Some s' ->
     nth_error (chs s) c = Some ch -> buf ch = x :: b ->
     find_t u (pend s') = Some (ORecv c) -> find_t u (fin s') = None ->
     exists s'', exec s' (LLin (ARecv u c x) 0 0) = Some s'' /\
                 find_t u (fin s'') = Some (ORecv c, RRecv true x)).

Lemma value_eqb_refl' : forall v, value_eqb v v = true.
Proof. exact value_eqb_refl. Qed.

Lemma limit_failure_lemma : limit_failure_stmt.
Proof.
  split; [|split; [|split]].
  - intros s t i j s' H. unfold exec in H. simpl in H.
    destruct (lin1_fin _ _ _ _ _ H) as [o [r [G1 [G2 [G3 [G4 G5]]]]]]. simpl in *.
    split. { apply lin1_chs in H. simpl in H. auto. }
    exists o. unfold completes in G3. destruct (op_unsafe o) eqn:Eu; try discriminate.
    rewrite Z.eqb_refl in G3. simpl in G3. destruct (op_reserves o) eqn:Er; inversion G3; subst. auto.
  - intros t o a i H. destruct (op_unsafe o) eqn:Eu.
    + unfold completes in H. rewrite Eu in H. destruct a; try discriminate. destruct (t =? t0); discriminate.
    + destruct (completes_inv _ _ _ _ _ Eu H) as [[-> [_ Hr]]|[_ G]]; auto.
      exfalso. eapply completes_safe_not_limit; eauto.
  - intros s t o Hp Hf Hr Hu. unfold exec. simpl. unfold lin1. simpl. rewrite Hp, Hf.
    unfold completes. rewrite Hu, Z.eqb_refl, Hr. simpl.
    eexists. split; [reflexivity|]. simpl. rewrite Z.eqb_refl. auto.
  - intros s t i j s' c ch x b u H Hn Hb Hp Hf.
    assert (Hc : chs s' = chs s).
    { unfold exec in H. simpl in H. apply lin1_chs in H. simpl in H. auto. }
    unfold exec, apply_act. simpl. rewrite Hc, Hn. simpl. rewrite Hb, value_eqb_refl'.
    unfold lin1. simpl. rewrite Hp, Hf. unfold completes. simpl. rewrite Z.eqb_refl, Nat.eqb_refl. simpl.
    eexists. split; [reflexivity|]. simpl. rewrite Z.eqb_refl. auto.
Qed.
