(* C13 — channel protocol model (definitions only; proofs are in ChanFacts.v).

   What is modelled: the `channel` library of gopher-lua (channellib.go) on top of Go channels.
   Go's channel semantics is the ORACLE that this file writes down: FIFO buffer of capacity `cap`,
   rendezvous (direct hand-off) when no buffer slot is used, receive on a closed and drained channel
   reports closure, send on / close of a closed channel panics (gopher-lua turns the panic into a Lua
   error), `select` proceeds with a case that can proceed and takes `default` only if none can.
   `isGoroutineSafe` (utils.go) is transcribed literally.

   Shape: an LTS whose transition function is the partial function `exec`; the nondeterminism of the
   scheduler is the choice of the label sequence.  Threads issue operations (`LInv`), operations take
   effect atomically at a linearisation step (`LLin`, one thread, or two for a rendezvous), and
   return (`LRes`).  A harness log contains only the `LInv`/`LRes` events (`event`); `trace_ok`
   searches for the missing `LLin` steps. *)
From GL Require Import Common.Bytes.

Definition tid := Z.
Definition cid := nat.      (* channel id = position in the channel list *)

(* ---------- values that can be offered as payloads ---------- *)
Inductive value :=
| VNil
| VBool (b : bool)
| VNum (z : Z)                       (* harness payloads are integer-valued numbers *)
| VStr (s : list Z)
| VFunc (id : Z)
| VUserData (id : Z)
| VThread (id : Z)
| VTable (id : Z) (hasmeta : bool) (elems : list value)   (* elems = array part 1..n *)
| VChan (c : Z).

Fixpoint value_eqb (a b : value) : bool :=
  match a, b with
  | VNil, VNil => true
  | VBool x, VBool y => Bool.eqb x y
  | VNum x, VNum y => x =? y
  | VStr x, VStr y => beqb x y
  | VFunc x, VFunc y => x =? y
  | VUserData x, VUserData y => x =? y
  | VThread x, VThread y => x =? y
  | VTable i m es, VTable j n fs =>
      (i =? j) && Bool.eqb m n &&
      (fix go (l1 l2 : list value) : bool :=
         match l1, l2 with
         | [], [] => true
         | x :: xs, y :: ys => value_eqb x y && go xs ys
         | _, _ => false
         end) es fs
  | VChan x, VChan y => x =? y
  | _, _ => false
  end.

(* utils.go isGoroutineSafe:
     case *LFunction, *LUserData, *LState: false
     case *LTable: v.Metatable == LNil          -- the elements are NOT inspected
     default: true *)
Definition isGoroutineSafe (v : value) : bool :=
  match v with
  | VFunc _ | VUserData _ | VThread _ => false
  | VTable _ hasmeta _ => negb hasmeta
  | _ => true
  end.

(* ---------- one channel ---------- *)
Record chan := mkChan { buf : list value; cap : Z; closed : bool }.

Definition is_nil {A} (l : list A) : bool := match l with [] => true | _ => false end.
Definition room (ch : chan) : bool := len (buf ch) <? cap ch.

(* ---------- operations, results, atomic actions ---------- *)
Inductive scase := SSend (c : cid) (v : value) | SRecv (c : cid) | SDefault.

Inductive op :=
| OSend (c : cid) (v : value)        (* ch:send(v) *)
| ORecv (c : cid)                    (* ch:receive() *)
| OClose (c : cid)                   (* ch:close() *)
| OSelect (cs : list scase).         (* channel.select(...) *)

Inductive res :=
| RSendOk
| RRecv (ok : bool) (v : value)      (* ok, v  (false, nil on a closed drained channel) *)
| RCloseOk
| RSel (i : nat) (v : value) (ok : bool)   (* 0-based case index, value, ok *)
| RErrRefused                        (* payload filter: ArgError before any channel is touched *)
| RErrSendClosed                     (* Go panic "send on closed channel" -> Lua error *)
| RErrCloseClosed                    (* Go panic "close of closed channel" -> Lua error *)
| RErrLimit                          (* "registry overflow" / "stack overflow": no room for the results (or for the
                                        handler call) in the calling state; raised before any channel is touched *)
| RErrOther.                         (* any other error: never a result of the model *)

Inductive action :=
| ASend (t : tid) (c : cid) (v : value)        (* enqueue into the buffer *)
| ARecv (t : tid) (c : cid) (v : value)        (* dequeue the head, which is v *)
| ARdv (ts tr : tid) (c : cid) (v : value)     (* direct hand-off sender -> receiver *)
| ARecvClosed (t : tid) (c : cid)              (* closed and drained *)
| AClose (t : tid) (c : cid)
| ACloseErr (t : tid) (c : cid)
| ASendClosed (t : tid) (c : cid) (v : value)
| ARefused (t : tid)
| ADefault (t : tid) (cs : list scase)
| ALimit (t : tid).                            (* reserveRegisters / the call-stack check of receive and select fail *)

Definition chan_act (a : action) (ch : chan) : option chan :=
  match a with
  | ASend _ _ v =>
      if negb (closed ch) && room ch then Some (mkChan (buf ch ++ [v]) (cap ch) (closed ch)) else None
  | ARecv _ _ v =>
      match buf ch with
      | x :: b => if value_eqb x v then Some (mkChan b (cap ch) (closed ch)) else None
      | [] => None
      end
  | ARdv ts tr _ _ =>
      if negb (closed ch) && is_nil (buf ch) && negb (ts =? tr) then Some ch else None
  | ARecvClosed _ _ => if closed ch && is_nil (buf ch) then Some ch else None
  | AClose _ _ => if closed ch then None else Some (mkChan (buf ch) (cap ch) true)
  | ACloseErr _ _ => if closed ch then Some ch else None
  | ASendClosed _ _ _ => if closed ch then Some ch else None
  | ARefused _ => Some ch
  | ALimit _ => Some ch
  | ADefault _ _ => Some ch
  end.

Definition act_cid (a : action) : option cid :=
  match a with
  | ASend _ c _ | ARecv _ c _ | ARdv _ _ c _ | ARecvClosed _ c | AClose _ c | ACloseErr _ c
  | ASendClosed _ c _ => Some c
  | ARefused _ | ALimit _ | ADefault _ _ => None
  end.

(* the thread that performs the action (the sender for a hand-off) *)
Definition act_tid (a : action) : tid :=
  match a with
  | ASend t _ _ | ARecv t _ _ | ARdv t _ _ _ | ARecvClosed t _ | AClose t _ | ACloseErr t _
  | ASendClosed t _ _ | ARefused t | ALimit t | ADefault t _ => t
  end.

Fixpoint upd {A} (n : nat) (x : A) (l : list A) : list A :=
  match l, n with
  | [], _ => []
  | _ :: l', O => x :: l'
  | y :: l', S k => y :: upd k x l'
  end.

(* a select case "can proceed" as far as the channel state alone decides it: a receive when the
   buffer is non-empty or the channel is closed, a send when there is room or the channel is closed
   (it then panics).  A parked partner on an unbuffered channel also makes a case ready in Go; the
   model does not know about parking (an invoked operation need not have parked yet), so `default`
   is only forbidden when a case is ready by this definition. *)
Definition case_ready (chs : list chan) (sc : scase) : bool :=
  match sc with
  | SSend c _ => match nth_error chs c with Some ch => closed ch || room ch | None => false end
  | SRecv c => match nth_error chs c with Some ch => closed ch || negb (is_nil (buf ch)) | None => false end
  | SDefault => false
  end.

Definition apply_act (chs : list chan) (a : action) : option (list chan) :=
  match a with
  | ARefused _ => Some chs
  | ALimit _ => Some chs
  | ADefault _ cs => if forallb (fun sc => negb (case_ready chs sc)) cs then Some chs else None
  | _ =>
      match act_cid a with
      | Some c =>
          match nth_error chs c with
          | Some ch => match chan_act a ch with Some ch' => Some (upd c ch' chs) | None => None end
          | None => None
          end
      | None => None
      end
  end.

(* ---------- which action completes which operation, with which result ---------- *)
Definition scase_eqb (a b : scase) : bool :=
  match a, b with
  | SSend c v, SSend d w => Nat.eqb c d && value_eqb v w
  | SRecv c, SRecv d => Nat.eqb c d
  | SDefault, SDefault => true
  | _, _ => false
  end.

Definition scase_unsafe (sc : scase) : bool :=
  match sc with SSend _ v => negb (isGoroutineSafe v) | _ => false end.

(* channellib.go: checkGoroutineSafe in channelSend; the loop over the cases in channelSelect
   raises ArgError for the first unsafe payload before reflect.Select is reached *)
Definition op_unsafe (o : op) : bool :=
  match o with
  | OSend _ v => negb (isGoroutineSafe v)
  | OSelect cs => existsb scase_unsafe cs
  | _ => false
  end.

Definition completes_plain (t : tid) (o : op) (a : action) : option res :=
  match o, a with
  | OSend c v, ASend t' c' v' =>
      if (t =? t') && Nat.eqb c c' && value_eqb v v' then Some RSendOk else None
  | OSend c v, ASendClosed t' c' v' =>
      if (t =? t') && Nat.eqb c c' && value_eqb v v' then Some RErrSendClosed else None
  | OSend c v, ARdv ts _ c' v' =>
      if (t =? ts) && Nat.eqb c c' && value_eqb v v' then Some RSendOk else None
  | ORecv c, ARecv t' c' v' => if (t =? t') && Nat.eqb c c' then Some (RRecv true v') else None
  | ORecv c, ARdv _ tr c' v' => if (t =? tr) && Nat.eqb c c' then Some (RRecv true v') else None
  | ORecv c, ARecvClosed t' c' => if (t =? t') && Nat.eqb c c' then Some (RRecv false VNil) else None
  | OClose c, AClose t' c' => if (t =? t') && Nat.eqb c c' then Some RCloseOk else None
  | OClose c, ACloseErr t' c' => if (t =? t') && Nat.eqb c c' then Some RErrCloseClosed else None
  | _, _ => None
  end.

(* channellib.go: channelReceive and channelSelect call reserveRegisters (room for the results, or
   for the handler call and the results) and, with handlers, check the call stack BEFORE Recv /
   reflect.Select: the catchable "registry overflow" / "stack overflow" they raise belongs to an
   operation that has not touched any channel.  (In channelSelect the payload filter runs first:
   an unsafe select is refused, never ALimit.)  send and close store nothing. *)
Definition op_reserves (o : op) : bool :=
  match o with ORecv _ | OSelect _ => true | _ => false end.

(* `i` is the select case the action is performed for (ignored for plain operations) *)
(* the operation takes effect on the channels (or is decided by them: default) *)
Definition completes_safe (t : tid) (o : op) (a : action) (i : nat) : option res :=
    match o with
    | OSelect cs =>
        match nth_error cs i with
        | Some (SSend c v) =>
            match completes_plain t (OSend c v) a with
            | Some RSendOk => Some (RSel i VNil false)
            | Some RErrSendClosed => Some RErrSendClosed
            | _ => None
            end
        | Some (SRecv c) =>
            match completes_plain t (ORecv c) a with
            | Some (RRecv ok v) => Some (RSel i v ok)
            | _ => None
            end
        | Some SDefault =>
            match a with
            | ADefault t' cs' => if (t =? t') && list_eqb scase_eqb cs cs' then Some (RSel i VNil false) else None
            | _ => None
            end
        | None => None
        end
    | _ => completes_plain t o a
    end.

Definition completes (t : tid) (o : op) (a : action) (i : nat) : option res :=
  if op_unsafe o then
    match a with ARefused t' => if t =? t' then Some RErrRefused else None | _ => None end
  else
    match a with
    | ALimit t' => if (t =? t') && op_reserves o then Some RErrLimit else None
    | _ => completes_safe t o a i
    end.

(* ---------- the LTS ---------- *)
Record state := mkSt {
  chs : list chan;
  pend : list (tid * op);            (* invoked, not yet taken effect *)
  fin : list (tid * (op * res))      (* taken effect, not yet returned *)
}.

Inductive label :=
| LInv (t : tid) (o : op)
| LLin (a : action) (i j : nat)      (* i, j: select case of the acting thread / of the receiver of a hand-off *)
| LRes (t : tid) (o : op) (r : res).

Definition op_eqb (a b : op) : bool :=
  match a, b with
  | OSend c v, OSend d w => Nat.eqb c d && value_eqb v w
  | ORecv c, ORecv d => Nat.eqb c d
  | OClose c, OClose d => Nat.eqb c d
  | OSelect cs, OSelect ds => list_eqb scase_eqb cs ds
  | _, _ => false
  end.

Definition res_eqb (a b : res) : bool :=
  match a, b with
  | RSendOk, RSendOk => true
  | RRecv o v, RRecv p w => Bool.eqb o p && value_eqb v w
  | RCloseOk, RCloseOk => true
  | RSel i v o, RSel j w p => Nat.eqb i j && value_eqb v w && Bool.eqb o p
  | RErrRefused, RErrRefused => true
  | RErrSendClosed, RErrSendClosed => true
  | RErrCloseClosed, RErrCloseClosed => true
  | RErrLimit, RErrLimit => true
  | RErrOther, RErrOther => true
  | _, _ => false
  end.

Fixpoint find_t {B} (t : tid) (l : list (tid * B)) : option B :=
  match l with
  | [] => None
  | (u, b) :: l' => if t =? u then Some b else find_t t l'
  end.

(* drops every entry of thread t (a thread has at most one; see ChanFacts.wf_state) *)
Fixpoint remove_t {B} (t : tid) (l : list (tid * B)) : list (tid * B) :=
  match l with
  | [] => []
  | (u, b) :: l' => if t =? u then remove_t t l' else (u, b) :: remove_t t l'
  end.

Definition busy (s : state) (t : tid) : bool :=
  match find_t t (pend s), find_t t (fin s) with None, None => false | _, _ => true end.

(* thread t's pending operation takes effect through action a (a thread has one operation in flight) *)
Definition lin1 (s : state) (t : tid) (a : action) (i : nat) : option state :=
  match find_t t (pend s), find_t t (fin s) with
  | Some o, None =>
      match completes t o a i with
      | Some r => Some (mkSt (chs s) (remove_t t (pend s)) ((t, (o, r)) :: fin s))
      | None => None
      end
  | _, _ => None
  end.

Definition exec (s : state) (l : label) : option state :=
  match l with
  | LInv t o => if busy s t then None else Some (mkSt (chs s) ((t, o) :: pend s) (fin s))
  | LRes t o r =>
      match find_t t (fin s) with
      | Some (o', r') =>
          if op_eqb o o' && res_eqb r r' then Some (mkSt (chs s) (pend s) (remove_t t (fin s))) else None
      | None => None
      end
  | LLin a i j =>
      match apply_act (chs s) a with
      | Some chs' =>
          let s' := mkSt chs' (pend s) (fin s) in
          match a with
          | ARdv ts tr _ _ =>
              match lin1 s' ts a i with Some s1 => lin1 s1 tr a j | None => None end
          | _ => lin1 s' (act_tid a) a i
          end
      | None => None
      end
  end.

Fixpoint run (s : state) (ls : list label) : option state :=
  match ls with
  | [] => Some s
  | l :: ls' => match exec s l with Some s' => run s' ls' | None => None end
  end.

Definition init (caps : list Z) : state :=
  mkSt (map (fun c => mkChan [] c false) caps) [] [].

Definition quiescent (s : state) : bool := is_nil (pend s) && is_nil (fin s).

(* ---------- what a run sent / delivered on channel c, in linearisation order ---------- *)
Definition act_sent (c : cid) (a : action) : list (tid * value) :=
  match a with
  | ASend t c' v => if Nat.eqb c c' then [(t, v)] else []
  | ARdv ts _ c' v => if Nat.eqb c c' then [(ts, v)] else []
  | _ => []
  end.

Definition act_recvd (c : cid) (a : action) : list (tid * value) :=
  match a with
  | ARecv t c' v => if Nat.eqb c c' then [(t, v)] else []
  | ARdv _ tr c' v => if Nat.eqb c c' then [(tr, v)] else []
  | _ => []
  end.

Definition lab_sent (c : cid) (l : label) : list (tid * value) :=
  match l with LLin a _ _ => act_sent c a | _ => [] end.
Definition lab_recvd (c : cid) (l : label) : list (tid * value) :=
  match l with LLin a _ _ => act_recvd c a | _ => [] end.

Definition sent_on (c : cid) (ls : list label) : list (tid * value) := flat_map (lab_sent c) ls.
Definition recvd_on (c : cid) (ls : list label) : list (tid * value) := flat_map (lab_recvd c) ls.
Definition vals (l : list (tid * value)) : list value := map snd l.

(* the sends that have been delivered so far: the first |recvd| of them (ghost view of `recvd_on`
   that remembers who sent each delivered value) *)
Definition delivered (c : cid) (ls : list label) : list (tid * value) :=
  firstn (length (recvd_on c ls)) (sent_on c ls).

Definition from_sender (s : tid) (p : tid * value) : bool := fst p =? s.

Fixpoint count (v : value) (l : list value) : nat :=
  match l with [] => O | x :: l' => (if value_eqb x v then 1 else 0) + count v l' end.

(* ---------- harness logs ---------- *)
Inductive event := EInv (t : tid) (o : op) | ERes (t : tid) (o : op) (r : res).

Definition visible1 (l : label) : list event :=
  match l with LInv t o => [EInv t o] | LRes t o r => [ERes t o r] | LLin _ _ _ => [] end.
Definition visible (ls : list label) : list event := flat_map visible1 ls.

(* next result thread t reports in the rest of the log *)
Fixpoint next_res (t : tid) (log : list event) : option (op * res) :=
  match log with
  | [] => None
  | ERes u o r :: log' => if t =? u then Some (o, r) else next_res t log'
  | _ :: log' => next_res t log'
  end.

(* pruning only: every operation that has taken effect must report what the log says next *)
Definition consistent (s : state) (log : list event) : bool :=
  forallb (fun e => match next_res (fst e) log with
                    | Some (o, r) => op_eqb o (fst (snd e)) && res_eqb r (snd (snd e))
                    | None => true
                    end) (fin s).

(* candidate linearisation steps for the pending operation o of thread u *)
Definition recv_partners (s : state) (u : tid) (c : cid) : list (tid * nat) :=
  flat_map (fun p => let '(w, ow) := p in
     if w =? u then [] else
     match ow with
     | ORecv c' => if Nat.eqb c c' then [(w, O)] else []
     | OSelect cs => flat_map (fun j => match nth_error cs j with
                                        | Some (SRecv c') => if Nat.eqb c c' then [(w, j)] else []
                                        | _ => [] end) (seq 0 (length cs))
     | _ => []
     end) (pend s).

Definition cands_send (s : state) (u : tid) (c : cid) (v : value) (i : nat) : list (action * nat * nat) :=
  [((ASend u c v), i, O); ((ASendClosed u c v), i, O)] ++
  map (fun p => ((ARdv u (fst p) c v), i, (snd p))) (recv_partners s u c).

Definition cands_recv (s : state) (u : tid) (c : cid) (i : nat) : list (action * nat * nat) :=
  match nth_error (chs s) c with
  | Some ch => match buf ch with x :: _ => [((ARecv u c x), i, O)] | [] => [] end
  | None => []
  end ++ [((ARecvClosed u c), i, O)].

Definition cands_for (s : state) (u : tid) (o : op) : list (action * nat * nat) :=
  if op_unsafe o then [((ARefused u), O, O)] else
  match o with
  | OSend c v => cands_send s u c v O
  | ORecv c => cands_recv s u c O ++ [((ALimit u), O, O)]
  | OClose c => [((AClose u c), O, O); ((ACloseErr u c), O, O)]
  | OSelect cs =>
      flat_map (fun i => match nth_error cs i with
                         | Some (SSend c v) => cands_send s u c v i
                         | Some (SRecv c) => cands_recv s u c i
                         | Some SDefault => [((ADefault u cs), i, O)]
                         | None => [] end) (seq 0 (length cs)) ++ [((ALimit u), O, O)]
  end.

Definition candidates (s : state) : list (action * nat * nat) :=
  flat_map (fun p => cands_for s (fst p) (snd p)) (pend s).

(* Decide whether a log of invocation/return events is a trace of the LTS: the search inserts the
   linearisation steps, lazily (only when the next event is the return of an operation that has
   not taken effect yet), depth first over the candidate steps, the returning thread's own step
   first.  States from which the rest of the log is known to be unreachable are remembered
   (`visited`) so that permutations of independent early steps are not explored twice; the memo and
   the candidate order only matter for speed and completeness, never for soundness (every step
   goes through `exec`).  Complete logs only: at the end nothing may be pending. *)
Definition chan_eqb (a b : chan) : bool :=
  list_eqb value_eqb (buf a) (buf b) && (cap a =? cap b) && Bool.eqb (closed a) (closed b).

Definition state_eqb (a b : state) : bool :=
  list_eqb chan_eqb (chs a) (chs b) &&
  list_eqb (fun x y => (fst x =? fst y) && op_eqb (snd x) (snd y)) (pend a) (pend b) &&
  Nat.eqb (length (fin a)) (length (fin b)) &&
  forallb (fun e => match find_t (fst e) (fin b) with
                    | Some (o, r) => op_eqb (fst (snd e)) o && res_eqb (snd (snd e)) r
                    | None => false
                    end) (fin a).

Definition visited := list (nat * state).

Definition seen (n : nat) (s : state) (vis : visited) : bool :=
  existsb (fun e => Nat.eqb (fst e) n && state_eqb (snd e) s) vis.

Definition cand_by (t : tid) (p : action * nat * nat) : bool :=
  match fst (fst p) with
  | ARdv ts tr _ _ => (t =? ts) || (t =? tr)
  | a => t =? act_tid a
  end.

Definition order_cands (t : tid) (cs : list (action * nat * nat)) : list (action * nat * nat) :=
  filter (cand_by t) cs ++ filter (fun p => negb (cand_by t p)) cs.

Fixpoint try_cands (rec : state -> visited -> bool * visited) (s : state) (log : list event)
                   (cs : list (action * nat * nat)) (vis : visited) : bool * visited :=
  match cs with
  | [] => (false, vis)
  | p :: cs' =>
      match exec s (LLin (fst (fst p)) (snd (fst p)) (snd p)) with
      | Some s' =>
          if consistent s' log then
            let r := rec s' vis in
            if fst r then r else try_cands rec s log cs' (snd r)
          else try_cands rec s log cs' vis
      | None => try_cands rec s log cs' vis
      end
  end.

Fixpoint search (fuel : nat) (s : state) (log : list event) (vis : visited) : bool * visited :=
  match fuel with
  | O => (false, vis)
  | S f =>
      match log with
      | [] => (quiescent s, vis)
      | EInv t o :: rest =>
          match exec s (LInv t o) with Some s' => search f s' rest vis | None => (false, vis) end
      | ERes t o r :: rest =>
          match exec s (LRes t o r) with
          | Some s' => search f s' rest vis
          | None =>
              match find_t t (pend s) with
              | None => (false, vis)
              | Some _ =>
                  if seen (length log) s vis then (false, vis) else
                  let r := try_cands (fun s' v => search f s' log v) s log (order_cands t (candidates s)) vis in
                  if fst r then r else (false, (length log, s) :: snd r)
              end
          end
      end
  end.

Definition trace_ok (caps : list Z) (log : list event) : bool :=
  fst (search (2 * length log + 2) (init caps) log []).

(* ---------- log-level views (no search involved) ---------- *)
Definition opt_list {A} (o : option A) : list A := match o with Some x => [x] | None => [] end.

(* the value a returned operation successfully sent on / received from channel c *)
Definition succ_send (c : cid) (o : op) (r : res) : option value :=
  match o, r with
  | OSend c' v, RSendOk => if Nat.eqb c c' then Some v else None
  | OSelect cs, RSel i _ _ =>
      match nth_error cs i with
      | Some (SSend c' v) => if Nat.eqb c c' then Some v else None
      | _ => None
      end
  | _, _ => None
  end.

Definition succ_recv (c : cid) (o : op) (r : res) : option value :=
  match o, r with
  | ORecv c', RRecv true v => if Nat.eqb c c' then Some v else None
  | OSelect cs, RSel i v true =>
      match nth_error cs i with
      | Some (SRecv c') => if Nat.eqb c c' then Some v else None
      | _ => None
      end
  | _, _ => None
  end.

Definition ev_sent (c : cid) (e : event) : list value :=
  match e with ERes _ o r => opt_list (succ_send c o r) | _ => [] end.
Definition ev_recvd (c : cid) (e : event) : list value :=
  match e with ERes _ o r => opt_list (succ_recv c o r) | _ => [] end.
Definition log_sent (c : cid) (log : list event) : list value := flat_map (ev_sent c) log.
Definition log_recvd (c : cid) (log : list event) : list value := flat_map (ev_recvd c) log.

(* per thread, in that thread's program order *)
Definition ev_sent_by (t : tid) (c : cid) (e : event) : list value :=
  match e with ERes u o r => if t =? u then opt_list (succ_send c o r) else [] | _ => [] end.
Definition ev_recvd_by (t : tid) (c : cid) (e : event) : list value :=
  match e with ERes u o r => if t =? u then opt_list (succ_recv c o r) else [] | _ => [] end.
Definition log_sent_by (t : tid) (c : cid) (log : list event) : list value := flat_map (ev_sent_by t c) log.
Definition log_recvd_by (t : tid) (c : cid) (log : list event) : list value := flat_map (ev_recvd_by t c) log.

Definition mem (v : value) (l : list value) : bool := existsb (value_eqb v) l.

Inductive subseq {A} : list A -> list A -> Prop :=
| sub_nil : subseq [] []
| sub_take x l1 l2 : subseq l1 l2 -> subseq (x :: l1) (x :: l2)
| sub_skip x l1 l2 : subseq l1 l2 -> subseq l1 (x :: l2).

Definition is_prefix {A} (p l : list A) : Prop := exists rest, l = p ++ rest.

(* has thread t an operation in flight at the end of this log prefix? *)
Fixpoint open_from (b : bool) (t : tid) (log : list event) : bool :=
  match log with
  | [] => b
  | EInv u _ :: log' => open_from (if t =? u then true else b) t log'
  | ERes u _ _ :: log' => open_from (if t =? u then false else b) t log'
  end.
Definition open_inv (t : tid) (log : list event) : bool := open_from false t log.

(* channel.make(n): channellib.go channelMake refuses a negative buffer size and one above
   MaxArrayIndex (config.go, 67108864) with an argument error; anything else is a channel *)
Definition max_chan_buffer : Z := 67108864.
Definition make_ok (n : Z) : bool := (0 <=? n) && (n <=? max_chan_buffer).
