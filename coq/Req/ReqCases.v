(* Case evaluator for the C20 correspondence shards: a case is a history of host operations and
   the observations the real code produced for it. Table identities are canonicalised on both
   sides by order of first appearance in the observation stream. *)
From Coq Require Import List ZArith Bool.
From GL Require Import Req.ReqModel.
Import ListNotations.
Open Scope Z_scope.

Inductive case :=
| CHist (h : list op) (o : list obs)
| CInit (i : list iop) (h : list op) (o : list obs).   (* SkipOpenLibs: host opens libraries itself *)

Fixpoint list_eqb {A} (eq : A -> A -> bool) (a b : list A) : bool :=
  match a, b with
  | [], [] => true
  | x :: a', y :: b' => eq x y && list_eqb eq a' b'
  | _, _ => false
  end.

Definition origin_eqb (a b : origin) : bool :=
  match a, b with
  | OPre, OPre => true
  | OFile d, OFile e => d =? e
  | _, _ => false
  end.

Definition tried_eqb (a b : tried) : bool :=
  match a, b with
  | TPre n, TPre m => n =? m
  | TPath d n, TPath e m => (d =? e) && (n =? m)
  | _, _ => false
  end.

Definition err_eqb (a b : err) : bool :=
  match a, b with
  | ELoop n, ELoop m => n =? m
  | ENotFound n t, ENotFound m u => (n =? m) && list_eqb tried_eqb t u
  | ESyntax d n, ESyntax e m => (d =? e) && (n =? m)
  | EFail n, EFail m => n =? m
  | EConflict n, EConflict m => n =? m
  | EModGo, EModGo => true
  | ENoPackage, ENoPackage => true
  | EOther, EOther => true
  | _, _ => false
  end.

Definition result_eqb (a b : result) : bool :=
  match a, b with
  | Ok v, Ok w => value_eqb v w
  | Err e, Err f => err_eqb e f
  | OutOfFuel, OutOfFuel => true
  | _, _ => false
  end.

Definition entry_eqb (a b : name * origin) : bool :=
  (fst a =? fst b) && origin_eqb (snd a) (snd b).

Definition obs_eqb (a b : obs) : bool :=
  match a, b with
  | ONone, ONone => true
  | OFuel, OFuel => true
  | ORes r l, ORes r' l' => result_eqb r r' && list_eqb entry_eqb l l'
  | OVal v, OVal w => value_eqb v w
  | OReg r p, OReg r' p' => result_eqb r r' && list_eqb Z.eqb p p'
  | _, _ => false
  end.

(* ---- canonical table identities ---- *)
Definition cmap := list ((Z * Z) * Z).

Fixpoint clookup (t : Z * Z) (m : cmap) : option Z :=
  match m with
  | [] => None
  | (u, c) :: r => if pair_eqb u t then Some c else clookup t r
  end.

Definition canon_val (m : cmap) (v : value) : cmap * value :=
  match v with
  | VTab i k =>
    match clookup (i, k) m with
    | Some c => (m, VTab c 0)
    | None => let c := Z.of_nat (length m) in (((i, k), c) :: m, VTab c 0)
    end
  | _ => (m, v)
  end.

Definition canon_res (m : cmap) (r : result) : cmap * result :=
  match r with
  | Ok v => let '(m', v') := canon_val m v in (m', Ok v')
  | _ => (m, r)
  end.

Definition canon_obs (m : cmap) (o : obs) : cmap * obs :=
  match o with
  | ORes r l => let '(m', r') := canon_res m r in (m', ORes r' l)
  | OVal v => let '(m', v') := canon_val m v in (m', OVal v')
  | OReg r p => let '(m', r') := canon_res m r in (m', OReg r' p)
  | _ => (m, o)
  end.

Fixpoint canon_list (m : cmap) (l : list obs) : list obs :=
  match l with
  | [] => []
  | o :: r => let '(m', o') := canon_obs m o in o' :: canon_list m' r
  end.

(* deeper than any nesting the generators can produce; running out of it shows as OFuel, which the
   harness never emits, so such a case is reported *)
Definition FUEL : nat := 40.

(* observations of an initialisation sequence followed by a history; the history needs the package
   library open (the generators guarantee it; otherwise the case is reported) *)
Definition run_init (runf : nat -> state -> list op -> state * list obs) (i : list iop) (h : list op)
  : option (list obs) :=
  let '((s, b), o1) := irun (init, false) i in
  if b then Some (o1 ++ snd (runf FUEL s h)) else None.

Definition check_with (runf : nat -> state -> list op -> state * list obs) (c : case) : bool :=
  match c with
  | CHist h o => list_eqb obs_eqb (canon_list [] (snd (runf FUEL init h))) o
  | CInit i h o =>
    match run_init runf i h with
    | Some l => list_eqb obs_eqb (canon_list [] l) o
    | None => false
    end
  end.

Definition check_impl : case -> bool := check_with run.

(* the property evaluated on the observed behaviour: the observations are those of the Lua 5.1
   reference semantics (ll_require / luaI_openlib) on the same history *)
Definition check_spec : case -> bool := check_with run51.

(* the two repaired defects, on the pre-fix transcription (used by the examples) *)
Definition check_old : case -> bool := check_with run_old.
