(* C20 — require. Models only, no proofs.

   Impl  = transcription of baselib.go:loRequire, loModule; loadlib.go:loLoaders,
           loLoaderPreload, loLoaderLua, loFindFile; auxlib.go:RegisterModule, PreloadModule,
           FindTable (as of the tree after the `fix:` commits C20-1 .. C20-5: the searchers read
           package.preload / package.path through their environment = the package table, so the
           global variable `package` plays no role in the model; require iterates
           package.loaders, which histories of this model never edit: the constant loLoaders).
   Spec  = transcription of Lua 5.1 loadlib.c:ll_require (require51) and lauxlib.c:luaI_openlib
           (register51).
   `require_old` / `register_old` are the transcriptions of the code *before* the fixes; they are
   kept only to state the refuted lemmas that document the two repaired defects.

   Module names are integers (the harness maps them to "vhm0", "vhm1", "vhp.m2", ...).
   Loader behaviours are scripts over a small action alphabet; the harness turns a script into a
   real Lua function (package.preload / file on package.path) or a real Go LGFunction
   (L.PreloadModule). *)
From Coq Require Import List ZArith Bool.
Import ListNotations.
Open Scope Z_scope.

Definition name := Z.

(* ---------- values ---------- *)
(* VTab id k : a table; identity = (id,k). id is an allocation number (one per loader invocation,
   per table created by module()/RegisterModule/the host); k distinguishes the two local tables
   t0,t1 every loader invocation creates. VSent is the `loopdetection` userdata. *)
Inductive value := VNil | VFalse | VTrue | VStr (k : Z) | VTab (id k : Z) | VSent.

Definition value_eqb (a b : value) : bool :=
  match a, b with
  | VNil, VNil | VFalse, VFalse | VTrue, VTrue | VSent, VSent => true
  | VStr x, VStr y => x =? y
  | VTab i k, VTab j l => (i =? j) && (k =? l)
  | _, _ => false
  end.

(* LVAsBool *)
Definition truthy (v : value) : bool := match v with VNil | VFalse => false | _ => true end.
Definition is_sent (v : value) : bool := match v with VSent => true | _ => false end.
Definition is_nil (v : value) : bool := match v with VNil => true | _ => false end.
Definition is_table (v : value) : bool := match v with VTab _ _ => true | _ => false end.

(* value expressions written in a loader body *)
Inductive vexp := ENil | EFalse | ETrue | EStr (k : Z) | ETab (k : Z).

Definition eval (id : Z) (e : vexp) : value :=
  match e with
  | ENil => VNil | EFalse => VFalse | ETrue => VTrue
  | EStr k => VStr k
  | ETab k => VTab id k
  end.

Definition etruthy (e : vexp) : bool := match e with ENil | EFalse => false | _ => true end.

(* ---------- loaders ---------- *)
(* Where a loader's nested require runs: on the loader's own thread (TSame), or on another
   coroutine of the same Lua state (TCo: `coroutine.wrap(function() return require(m) end)()` /
   `coroutine.resume(coroutine.create(...))` in a Lua loader, `L.NewThread()` + a call on the new
   thread in a Go loader). package.loaded, package.preload, the loop sentinel and the globals belong
   to the STATE (they live in the registry, which all threads of a state share), so `run_script`
   below does not consult the annotation: a require cycle that crosses a coroutine boundary is the
   same loop error, a module loaded on one thread is cached for all. The annotation exists so that
   the generated histories exercise exactly that on the real code. *)
Inductive thread := TSame | TCo.

Inductive action :=
| Require (t : thread) (m : name)    (* require(m); an error propagates (also out of coroutine.wrap) *)
| PRequire (t : thread) (m : name)   (* pcall(require, m) / coroutine.resume: an error is swallowed *)
| SetLoaded (e : vexp)        (* package.loaded[<own name>] = e *)
| Module                      (* module(<own name>) *)
| Return (e : vexp)
| ReturnNothing
| Fail.                       (* error("vhfail:<own name>") *)

Definition script := list action.

Inductive lkind := KLua | KGo.          (* a Lua function, or a Go LGFunction (L.PreloadModule) *)
Record loader := mkLoader { lk : lkind; lscript : script }.
(* a Lua file / a file that does not parse / an entry that exists (stat succeeds) but cannot be
   opened for reading (mode 000 for a non-root user, a unix socket) *)
Inductive fcontent := FScript (sc : script) | FBroken | FUnreadable.

(* Lua 5.1 loadlib.c readable(): the candidate can be opened for reading *)
Definition readable (c : option fcontent) : bool :=
  match c with Some FUnreadable | None => false | Some _ => true end.

Inductive origin := OPre | OFile (d : Z).
Inductive tried := TPre (n : name) | TPath (d : Z) (n : name).

Inductive err :=
| ELoop (n : name)                       (* "loop or previous error loading module" *)
| ENotFound (n : name) (t : list tried)  (* "module n not found:" + what was tried *)
| ESyntax (d : Z) (n : name)             (* LoadFile failed on the file found in directory d *)
| EFail (n : name)                       (* the loader of n raised *)
| EConflict (n : name)                   (* "name conflict for module" *)
| EModGo                                 (* module() called from a Go function *)
| ENoPackage                             (* PreloadModule before the package library is open *)
| EOther.                                (* never produced by the models *)

Inductive result := Ok (v : value) | Err (e : err) | OutOfFuel.

(* ---------- state ---------- *)
Record state := mkState {
  loaded : name -> value;                 (* registry._LOADED = package.loaded *)
  preload : name -> option loader;        (* package.preload *)
  files : Z -> name -> option fcontent;   (* directory -> module -> file *)
  path : list Z;                          (* package.path as a list of directories *)
  globals : name -> value;                (* the global variable named like the module *)
  log : list (name * origin);             (* loader invocations, newest first *)
  next : Z;                               (* allocation counter *)
  tfuncs : list ((Z * Z) * Z)             (* (table, host function name) registered by RegisterModule *)
}.

Definition upd {A} (f : name -> A) (n : name) (a : A) : name -> A :=
  fun m => if m =? n then a else f m.

Definition set_loaded (s : state) (n : name) (v : value) : state :=
  mkState (upd (loaded s) n v) (preload s) (files s) (path s) (globals s) (log s) (next s) (tfuncs s).
Definition set_preload (s : state) (n : name) (l : option loader) : state :=
  mkState (loaded s) (upd (preload s) n l) (files s) (path s) (globals s) (log s) (next s) (tfuncs s).
Definition set_file (s : state) (d : Z) (n : name) (c : option fcontent) : state :=
  mkState (loaded s) (preload s) (fun d' => if d' =? d then upd (files s d) n c else files s d')
          (path s) (globals s) (log s) (next s) (tfuncs s).
Definition set_path (s : state) (p : list Z) : state :=
  mkState (loaded s) (preload s) (files s) p (globals s) (log s) (next s) (tfuncs s).
Definition set_global (s : state) (n : name) (v : value) : state :=
  mkState (loaded s) (preload s) (files s) (path s) (upd (globals s) n v) (log s) (next s) (tfuncs s).
(* entering a loader body: it reports itself and creates its local tables *)
Definition enter (s : state) (n : name) (o : origin) : state :=
  mkState (loaded s) (preload s) (files s) (path s) (globals s) ((n, o) :: log s) (next s + 1) (tfuncs s).
Definition bump (s : state) : state :=
  mkState (loaded s) (preload s) (files s) (path s) (globals s) (log s) (next s + 1) (tfuncs s).
Definition add_funcs (s : state) (t : Z * Z) (fs : list Z) : state :=
  mkState (loaded s) (preload s) (files s) (path s) (globals s) (log s) (next s)
          (map (fun f => (t, f)) fs ++ tfuncs s).

(* a script assigns a NEW table to package.preload, holding the old entries of the names in `keep`
   (keep = [] : `package.preload = {}`; all names: a copy). The searcher and PreloadModule read the
   field package.preload at every call, so from now on the new table is the preload table. *)
Definition memz (n : name) (l : list name) : bool := existsb (Z.eqb n) l.
Definition new_preload (s : state) (keep : list name) : state :=
  mkState (loaded s) (fun n => if memz n keep then preload s n else None) (files s) (path s)
          (globals s) (log s) (next s) (tfuncs s).

Definition init : state :=
  mkState (fun _ => VNil) (fun _ => None) (fun _ _ => None) [0; 1] (fun _ => VNil) [] 0 [].

(* ---------- the loader chain (loadlib.go) ---------- *)
Inductive sres :=
| SFun (o : origin) (k : lkind) (sc : script)   (* searcher returned a function *)
| SMsg (t : list tried)                         (* searcher returned a message string *)
| SRaise (e : err).                             (* searcher raised *)

Definition loLoaderPreload (s : state) (n : name) : sres :=
  match preload s n with
  | None => SMsg [TPre n]
  | Some l => SFun OPre (lk l) (lscript l)
  end.

(* loFindFile: first directory of package.path where the file can be opened, else the messages
   (an unreadable candidate is listed and skipped, as Lua 5.1's findfile does) *)
Fixpoint loFindFile (fs : Z -> name -> option fcontent) (n : name) (p : list Z) (msgs : list tried)
  : (Z * fcontent) + list tried :=
  match p with
  | [] => inr msgs
  | d :: r =>
    match fs d n with
    | Some FUnreadable | None => loFindFile fs n r (msgs ++ [TPath d n])
    | Some c => inl (d, c)
    end
  end.

Definition loLoaderLua (s : state) (n : name) : sres :=
  match loFindFile (files s) n (path s) [] with
  | inr msgs => SMsg msgs
  | inl (d, FScript sc) => SFun (OFile d) KLua sc
  | inl (d, FBroken) => SRaise (ESyntax d n)
  | inl (d, FUnreadable) => SRaise (ESyntax d n)   (* not reachable: loFindFile skips it *)
  end.

Definition loLoaders : list (state -> name -> sres) := [loLoaderPreload; loLoaderLua].

(* the `for i := 1; ; i++` loop of loRequire over _LOADERS *)
Fixpoint search (ls : list (state -> name -> sres)) (s : state) (n : name) (msgs : list tried)
  : err + (origin * lkind * script) :=
  match ls with
  | [] => inl (ENotFound n msgs)
  | l :: r =>
    match l s n with
    | SFun o k sc => inr (o, k, sc)
    | SMsg t => search r s n (msgs ++ t)
    | SRaise e => inl e
    end
  end.

(* ---------- FindTable on the globals / module() / RegisterModule ---------- *)
(* FindTable(globals, name): the table stored under the (possibly dotted) global name; created when
   absent; None (LNil) when something that is not a table is in the way. *)
Definition find_table_global (s : state) (n : name) : state * option value :=
  match globals s n with
  | VNil => let t := VTab (next s) 0 in (bump (set_global s n t), Some t)
  | VTab i k => (s, Some (VTab i k))
  | _ => (s, None)
  end.

(* loModule, as far as require can see it: _LOADED[name] and the global; then the caller check *)
Definition do_module (s : state) (self : name) (k : lkind) : state * option err :=
  let tb := loaded s self in
  let '(s1, conflict) :=
    if is_table tb then (s, false)
    else match find_table_global s self with
         | (s', Some t) => (set_loaded s' self t, false)
         | (s', None) => (s', true)
         end in
  if conflict then (s1, Some (EConflict self))
  else match k with KGo => (s1, Some EModGo) | KLua => (s1, None) end.

Definition tab_id (v : value) : Z * Z := match v with VTab i k => (i, k) | _ => (-1, -1) end.

(* RegisterModule after fix C20-2 *)
Definition register (s : state) (n : name) (fs : list Z) : state * result :=
  let mod_ := loaded s n in
  if is_table mod_ then (add_funcs s (tab_id mod_) fs, Ok mod_)
  else match find_table_global s n with
       | (s1, None) => (s1, Err (EConflict n))
       | (s1, Some t) => (add_funcs (set_loaded s1 n t) (tab_id t) fs, Ok t)
       end.

(* RegisterModule before the fix: an existing module table is returned untouched *)
Definition register_old (s : state) (n : name) (fs : list Z) : state * result :=
  let mod_ := loaded s n in
  if is_table mod_ then (s, Ok mod_)
  else match find_table_global s n with
       | (s1, None) => (s1, Err (EConflict n))
       | (s1, Some t) => (add_funcs (set_loaded s1 n t) (tab_id t) fs, Ok t)
       end.

(* lauxlib.c luaI_openlib with a libname *)
Definition register51 (s : state) (n : name) (fs : list Z) : state * result :=
  let '(s1, r) :=
    if is_table (loaded s n) then (s, Some (loaded s n))
    else match find_table_global s n with
         | (s1, None) => (s1, None)
         | (s1, Some t) => (set_loaded s1 n t, Some t)
         end in
  match r with
  | None => (s1, Err (EConflict n))
  | Some t => (add_funcs s1 (tab_id t) fs, Ok t)
  end.

(* ---------- running a loader body ---------- *)
Fixpoint run_script (req : state -> name -> state * result) (self : name) (id : Z) (k : lkind)
         (sc : script) (s : state) : state * result :=
  match sc with
  | [] => (s, Ok VNil)
  | a :: r =>
    match a with
    | Require _ m =>
      let '(s1, res) := req s m in
      match res with
      | Ok _ => run_script req self id k r s1
      | _ => (s1, res)
      end
    | PRequire _ m =>
      let '(s1, res) := req s m in
      match res with
      | OutOfFuel => (s1, OutOfFuel)
      | _ => run_script req self id k r s1
      end
    | SetLoaded e => run_script req self id k r (set_loaded s self (eval id e))
    | Module =>
      match do_module s self k with
      | (s1, None) => run_script req self id k r s1
      | (s1, Some e) => (s1, Err e)
      end
    | Return e => (s, Ok (eval id e))
    | ReturnNothing => (s, Ok VNil)
    | Fail => (s, Err (EFail self))
    end
  end.

(* ---------- require ---------- *)
(* what loRequire does with the loader's result (after fix C20-1) *)
Definition finish (s : state) (n : name) (ret : value) : state * result :=
  let s4 := if is_nil ret then s else set_loaded s n ret in
  let modv := loaded s4 n in
  if is_sent modv then (set_loaded s4 n VTrue, Ok VTrue) else (s4, Ok modv).

(* the same before the fix *)
Definition finish_old (s : state) (n : name) (ret : value) : state * result :=
  let modv := loaded s n in
  if negb (is_nil ret) && is_sent modv then (set_loaded s n ret, Ok ret)
  else if is_sent modv then (set_loaded s n VTrue, Ok VTrue)
  else (s, Ok modv).

(* ll_require's tail: non-nil return is stored; then the stored value is read back; sentinel -> true *)
Definition finish51 (s : state) (n : name) (ret : value) : state * result :=
  let s4 := match ret with VNil => s | _ => set_loaded s n ret end in
  match loaded s4 n with
  | VSent => (set_loaded s4 n VTrue, Ok VTrue)
  | v => (s4, Ok v)
  end.

Section RequireGen.
  Variable fin : state -> name -> value -> state * result.

  Fixpoint require_gen (fuel : nat) (s : state) (n : name) : state * result :=
    match fuel with
    | O => (s, OutOfFuel)
    | S f =>
      let lv := loaded s n in
      if truthy lv then
        (if is_sent lv then (s, Err (ELoop n)) else (s, Ok lv))
      else
        match search loLoaders s n [] with
        | inl e => (s, Err e)
        | inr (o, k, sc) =>
          let s1 := set_loaded s n VSent in
          let id := next s1 in
          let s2 := enter s1 n o in
          let '(s3, r) := run_script (require_gen f) n id k sc s2 in
          match r with
          | Ok ret => fin s3 n ret
          | _ => (s3, r)
          end
        end
    end.
End RequireGen.

Definition require := require_gen finish.        (* loRequire today *)
Definition require51 := require_gen finish51.    (* Lua 5.1 ll_require *)
Definition require_old := require_gen finish_old.

(* ---------- histories ---------- *)
Inductive gexp := GNil | GStr (k : Z) | GNewTab.

Inductive op :=
| HRequire (n : name)                          (* pcall(require, n) from the host *)
| HSetPreload (n : name) (l : option loader)   (* package.preload[n] = f / nil; L.PreloadModule for KGo *)
| HSetFile (d : Z) (n : name) (c : option fcontent)
| HSetPath (p : list Z)
| HClearLoaded (n : name)                      (* package.loaded[n] = nil *)
| HSetGlobal (n : name) (e : gexp)
| HGetGlobal (n : name)
| HGetLoaded (n : name)
| HRegister (n : name) (fs : list Z)           (* L.RegisterModule(n, fs) *)
| HNewPreload (keep : list name).              (* package.preload = {copies of the entries of `keep`} *)

Inductive obs :=
| ONone
| OFuel
| ORes (r : result) (newlog : list (name * origin))   (* chronological *)
| OVal (v : value)
| OReg (r : result) (present : list Z).               (* which of the functions 0..3 the table has *)

Definition newlog (s s' : state) : list (name * origin) :=
  rev (firstn (length (log s') - length (log s)) (log s')).

Definition pair_eqb (a b : Z * Z) : bool := (fst a =? fst b) && (snd a =? snd b).

Definition has_func (s : state) (t : Z * Z) (f : Z) : bool :=
  existsb (fun p => pair_eqb (fst p) t && (snd p =? f)) (tfuncs s).

Definition funcs_of (s : state) (r : result) : list Z :=
  match r with
  | Ok v => filter (has_func s (tab_id v)) [0; 1; 2; 3]
  | _ => []
  end.

Section StepGen.
  Variable req : nat -> state -> name -> state * result.
  Variable reg : state -> name -> list Z -> state * result.

  Definition step_gen (fuel : nat) (s : state) (o : op) : state * obs :=
    match o with
    | HRequire n =>
      let '(s', r) := req fuel s n in
      (s', match r with OutOfFuel => OFuel | _ => ORes r (newlog s s') end)
    | HSetPreload n l => (set_preload s n l, ONone)
    | HSetFile d n c => (set_file s d n c, ONone)
    | HSetPath p => (set_path s p, ONone)
    | HClearLoaded n => (set_loaded s n VNil, ONone)
    | HSetGlobal n e =>
      match e with
      | GNil => (set_global s n VNil, ONone)
      | GStr k => (set_global s n (VStr k), ONone)
      | GNewTab => (bump (set_global s n (VTab (next s) 0)), ONone)
      end
    | HGetGlobal n => (s, OVal (globals s n))
    | HGetLoaded n => (s, OVal (loaded s n))
    | HRegister n fs =>
      let '(s', r) := reg s n fs in (s', OReg r (funcs_of s' r))
    | HNewPreload keep => (new_preload s keep, ONone)
    end.

  Fixpoint run_gen (fuel : nat) (s : state) (h : list op) : state * list obs :=
    match h with
    | [] => (s, [])
    | o :: r =>
      let '(s1, ob) := step_gen fuel s o in
      let '(s2, obs) := run_gen fuel s1 r in
      (s2, ob :: obs)
    end.
End StepGen.

Definition step := step_gen require register.
Definition run := run_gen require register.
Definition step51 := step_gen require51 register51.
Definition run51 := run_gen require51 register51.
Definition run_old := run_gen require_old register_old.

(* ---------- side conditions used by the theorems ---------- *)
Definition is_req (a : action) : bool :=
  match a with Require _ _ | PRequire _ _ => true | _ => false end.

(* a loader never resets its own package.loaded entry to nil/false and then requires again:
   this is what keeps the sentinel in place while nested loads run *)
Fixpoint guarded (sc : script) : bool :=
  match sc with
  | [] => true
  | SetLoaded e :: r => (etruthy e || negb (existsb is_req r)) && guarded r
  | _ :: r => guarded r
  end.

Definition touches_loaded (a : action) : bool :=
  match a with SetLoaded _ | Module => true | _ => false end.

Definition fcontent_guarded (c : fcontent) : bool :=
  match c with FScript sc => guarded sc | _ => true end.

Definition state_guarded (s : state) : Prop :=
  (forall n l, preload s n = Some l -> guarded (lscript l) = true) /\
  (forall d n c, files s d n = Some c -> fcontent_guarded c = true).

(* number of names of a list whose package.loaded entry is nil/false *)
Fixpoint unloaded (s : state) (ns : list name) : nat :=
  match ns with
  | [] => O
  | n :: r => (if truthy (loaded s n) then O else 1%nat) + unloaded s r
  end.

(* every module that has a preload entry or a file somewhere is in ns *)
Definition loadable_in (s : state) (ns : list name) : Prop :=
  forall n, (preload s n <> None \/ exists d, files s d n <> None) -> In n ns.

Definition count_log (n : name) (l : list (name * origin)) : nat :=
  length (filter (fun p => fst p =? n) l).

(* host operations that do not reset package.loaded[n] *)
Definition keeps_loaded (n : name) (o : op) : Prop := o <> HClearLoaded n.

(* ... and do not replace the value v stored there (RegisterModule replaces a non-table) *)
Definition keeps_value (n : name) (v : value) (o : op) : Prop :=
  o <> HClearLoaded n /\ (is_table v = false -> forall fs, o <> HRegister n fs).

(* host operations that install only guarded loaders, and only for names of ns *)
Definition op_ok (ns : list name) (o : op) : Prop :=
  match o with
  | HSetPreload n (Some l) => In n ns /\ guarded (lscript l) = true
  | HSetFile d n (Some c) => In n ns /\ fcontent_guarded c = true
  | _ => True
  end.

(* every module of the list has a loader whose first action is to require the next one; the last
   one requires `last`; every link may cross a coroutine boundary (any thread annotation) *)
Fixpoint links (s : state) (ns : list name) (last : name) : Prop :=
  match ns with
  | [] => True
  | n :: r =>
    (exists t o k rest, search loLoaders s n [] = inr (o, k, Require t (hd last r) :: rest)) /\
    links s r last
  end.

(* ---------- thread annotations are transparent ---------- *)
(* the same loader with every nested require moved to the loader's own thread *)
Definition same_thread (a : action) : action :=
  match a with
  | Require _ m => Require TSame m
  | PRequire _ m => PRequire TSame m
  | a => a
  end.
Definition strip_loader (l : loader) : loader := mkLoader (lk l) (map same_thread (lscript l)).
Definition strip_file (c : fcontent) : fcontent :=
  match c with FScript sc => FScript (map same_thread sc) | c => c end.
(* the same state with every installed loader replaced by its single-threaded version *)
Definition strip_state (s : state) : state :=
  mkState (loaded s) (fun n => option_map strip_loader (preload s n))
          (fun d n => option_map strip_file (files s d n)) (path s) (globals s) (log s) (next s)
          (tfuncs s).

(* ---------- host initialisation in any order (lua.Options{SkipOpenLibs:true}) ---------- *)
(* reserved names: the harness maps them to "package", "string", "table" *)
Definition PKG : name := 10.
Definition LSTRING : name := 11.
Definition LTABLE : name := 12.

Inductive iop :=
| IOpenBase                              (* OpenBase: makes require/module/pcall available *)
| IOpenPackage                           (* loadlib.go:OpenPackage *)
| IOpenLib (n : name)                    (* OpenString / OpenTable = RegisterModule(n, funcs) *)
| IRegister (n : name) (fs : list Z)     (* L.RegisterModule by the host *)
| IPreload (n : name) (l : loader).      (* L.PreloadModule by the host *)

(* OpenPackage: RegisterModule("package"); a new package.preload; package.loaded IS the registry's
   _LOADED table, with everything registered so far; package.path set (the harness sets it to
   directories 0;1 right away) *)
Definition open_package (s : state) : state * result :=
  let '(s1, r) := register s PKG [] in
  match r with
  | Ok t => (mkState (loaded s1) (fun _ => None) (files s1) [0; 1] (globals s1) (log s1) (next s1)
                     (tfuncs s1), Ok t)
  | _ => (s1, r)
  end.

(* the state and whether the package library is open *)
Definition istep (sb : state * bool) (o : iop) : (state * bool) * obs :=
  let '(s, b) := sb in
  match o with
  | IOpenBase => (sb, ONone)
  | IOpenPackage =>
    let '(s', r) := open_package s in
    ((s', match r with Ok _ => true | _ => b end), OReg r (funcs_of s' r))
  | IOpenLib n => let '(s', r) := register s n [] in ((s', b), OReg r (funcs_of s' r))
  | IRegister n fs => let '(s', r) := register s n fs in ((s', b), OReg r (funcs_of s' r))
  | IPreload n l =>
    if b then ((set_preload s n (Some l), b), ONone) else (sb, ORes (Err ENoPackage) [])
  end.

Fixpoint irun (sb : state * bool) (i : list iop) : (state * bool) * list obs :=
  match i with
  | [] => (sb, [])
  | o :: r =>
    let '(sb1, ob) := istep sb o in
    let '(sb2, obs) := irun sb1 r in
    (sb2, ob :: obs)
  end.
